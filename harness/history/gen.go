package history

import (
	"crypto/sha256"
	"fmt"
	"time"

	sdkmath "cosmossdk.io/math"
	tmbytes "github.com/cometbft/cometbft/libs/bytes"
	sdk "github.com/cosmos/cosmos-sdk/types"
	banktypes "github.com/cosmos/cosmos-sdk/x/bank/types"
	govv1 "github.com/cosmos/cosmos-sdk/x/gov/types/v1"
	govv1beta1 "github.com/cosmos/cosmos-sdk/x/gov/types/v1beta1"
	paramsproposal "github.com/cosmos/cosmos-sdk/x/params/types/proposal"
	stakingtypes "github.com/cosmos/cosmos-sdk/x/staking/types"

	auctiontypes "github.com/kava-labs/kava/x/auction/types"
	bep3types "github.com/kava-labs/kava/x/bep3/types"
	cdptypes "github.com/kava-labs/kava/x/cdp/types"
	committeetypes "github.com/kava-labs/kava/x/committee/types"
	communitytypes "github.com/kava-labs/kava/x/community/types"
	earntypes "github.com/kava-labs/kava/x/earn/types"
	hardtypes "github.com/kava-labs/kava/x/hard/types"
	incentivetypes "github.com/kava-labs/kava/x/incentive/types"
	issuancetypes "github.com/kava-labs/kava/x/issuance/types"
	liquidtypes "github.com/kava-labs/kava/x/liquid/types"
	pricefeedtypes "github.com/kava-labs/kava/x/pricefeed/types"
	routertypes "github.com/kava-labs/kava/x/router/types"
	savingstypes "github.com/kava-labs/kava/x/savings/types"
	swaptypes "github.com/kava-labs/kava/x/swap/types"

	cm "kavaverif/harness/common"
)

// TxSpec is one transaction to be signed and delivered.
type TxSpec struct {
	Kind    string
	Msgs    []sdk.Msg
	Signers []Party
	// Mangle: "" valid signature; "seq" wrong sequence; "signer" signed by somebody else.
	Mangle string
	Desc   string
}

// Gen generates mostly-valid, boundary-biased transactions from the leader's current state.
type Gen struct {
	P   *Parties
	R   *cm.Rng
	N   *Node // leader
	Cfg Config
	// bep3 swaps we created: swap id -> random number
	secrets map[string][]byte
	nonce   int
	// Focus "cdp": only cdp operations (and bank sends), biased to minimum-size positions, so that the CDPs of
	// a history are the only debt in the cdp module account.
	Focus string
	// Soft avoids amounts that sit exactly on a ratio / balance boundary (used for C14's follow-up block,
	// where the two chains may differ by the one base unit of interest the export settles).
	Soft bool
}

func NewGen(p *Parties, r *cm.Rng, leader *Node, cfg Config) *Gen {
	return &Gen{P: p, R: r, N: leader, Cfg: cfg, secrets: map[string][]byte{}}
}

func (g *Gen) user() Party { return g.P.Users[g.R.Intn(len(g.P.Users))] }

func (g *Gen) bal(ctx sdk.Context, a sdk.AccAddress, denom string) sdkmath.Int {
	return g.N.T.GetBankKeeper().SpendableCoins(ctx, a).AmountOf(denom)
}

func (g *Gen) price(ctx sdk.Context, market string) (sdk.Dec, bool) {
	cp, err := g.N.T.GetPriceFeedKeeper().GetCurrentPrice(ctx, market)
	if err != nil || !cp.Price.IsPositive() {
		return sdk.Dec{}, false
	}
	return cp.Price, true
}

func decOf(denom string) int64 {
	for _, a := range Assets {
		if a.Denom == denom {
			return a.Dec
		}
	}
	return 6
}

// usdValue of an amount of denom in micro-usd (usdx base units), using the spot market.
func (g *Gen) usdValue(ctx sdk.Context, denom string, amt sdkmath.Int) (sdkmath.Int, bool) {
	p, ok := g.price(ctx, marketOf(denom))
	if !ok {
		return sdk.ZeroInt(), false
	}
	return sdk.NewDecFromInt(amt).Mul(p).MulInt(pow10(6)).QuoInt(pow10(decOf(denom))).TruncateInt(), true
}

// amountForUsd is the inverse of usdValue.
func (g *Gen) amountForUsd(ctx sdk.Context, denom string, usd sdkmath.Int) (sdkmath.Int, bool) {
	p, ok := g.price(ctx, marketOf(denom))
	if !ok {
		return sdk.ZeroInt(), false
	}
	return sdk.NewDecFromInt(usd).MulInt(pow10(decOf(denom))).QuoInt(pow10(6)).Quo(p).TruncateInt(), true
}

// someAmount picks a boundary-biased amount in [0, max+1].
func (g *Gen) someAmount(max sdkmath.Int) sdkmath.Int {
	if !max.IsPositive() {
		return sdkmath.NewInt(g.R.Range(0, 1))
	}
	k := g.R.Intn(12)
	if g.Soft && k < 2 {
		k = 4
	}
	switch k {
	case 0:
		return max // everything
	case 1:
		return max.AddRaw(1) // one too many
	case 2:
		return sdk.OneInt()
	case 3:
		return sdk.ZeroInt()
	case 4:
		return max.QuoRaw(2)
	default:
		// log-uniform fraction
		den := int64(1) << uint(g.R.Intn(20))
		x := max.QuoRaw(den)
		if x.IsZero() {
			x = sdk.OneInt()
		}
		return x
	}
}

func frac(x sdkmath.Int, num, den int64) sdkmath.Int { return x.MulRaw(num).QuoRaw(den) }

func coinOK(denom string, amt sdkmath.Int) (sdk.Coin, bool) {
	if amt.IsNegative() {
		return sdk.Coin{}, false
	}
	return sdk.NewCoin(denom, amt), true
}

type genFn func(ctx sdk.Context) *TxSpec

func one(kind string, signer Party, msg sdk.Msg, desc string) *TxSpec {
	return &TxSpec{Kind: kind, Msgs: []sdk.Msg{msg}, Signers: []Party{signer}, Desc: kind + " " + signer.Name + " " + desc}
}

// ---------------------------------------------------------------- bank

func (g *Gen) bankSend(ctx sdk.Context) *TxSpec {
	a, b := g.user(), g.user()
	denom := cm.Pick(g.R, []string{"ukava", "usdx", "bnb", "hard", "busd"})
	amt := g.someAmount(g.bal(ctx, a.Addr, denom).QuoRaw(100))
	if !amt.IsPositive() {
		amt = sdk.OneInt()
	}
	return one("bank.send", a, banktypes.NewMsgSend(a.Addr, b.Addr, sdk.NewCoins(sdk.NewCoin(denom, amt))), amt.String()+denom)
}

// ---------------------------------------------------------------- pricefeed

// priceRound: every oracle posts a new price for one asset (spot and liquidation market).
func (g *Gen) priceRound(ctx sdk.Context, denom string, factorPermille int64, expiry time.Duration) []*TxSpec {
	var out []*TxSpec
	m := marketOf(denom)
	cur, ok := g.price(ctx, m)
	if !ok {
		for _, a := range Assets {
			if a.Denom == denom {
				cur = d(a.Price)
			}
		}
	}
	np := cur.MulInt64(factorPermille).QuoInt64(1000)
	if !np.IsPositive() {
		np = sdk.NewDecWithPrec(1, 6)
	}
	ids := []string{m}
	if denom != "usdx" {
		ids = append(ids, m+":30")
	}
	for k, o := range g.P.Oracles {
		for _, id := range ids {
			// oracles disagree slightly so that the median matters
			px := np.MulInt64(1000 + int64(k) - 1).QuoInt64(1000)
			msg := pricefeedtypes.NewMsgPostPrice(o.Addr.String(), id, px, ctx.BlockTime().Add(expiry))
			out = append(out, one("pricefeed.post", o, msg, id+"="+px.String()))
		}
	}
	return out
}

// ---------------------------------------------------------------- cdp

func (g *Gen) cdpParam(ctx sdk.Context) (cdptypes.CollateralParam, bool) {
	ps := g.N.T.GetCDPKeeper().GetParams(ctx).CollateralParams
	if len(ps) == 0 {
		return cdptypes.CollateralParam{}, false
	}
	return ps[g.R.Intn(len(ps))], true
}

func (g *Gen) cdpCreate(ctx sdk.Context) *TxSpec {
	cp, ok := g.cdpParam(ctx)
	if !ok {
		return nil
	}
	u := g.user()
	coll := g.someAmount(g.bal(ctx, u.Addr, cp.Denom).QuoRaw(50))
	val, ok := g.usdValue(ctx, cp.Denom, coll)
	if !ok {
		val = sdkmath.NewInt(20_000_000)
	}
	// principal at, just below, or well below the liquidation ratio
	maxP := sdk.NewDecFromInt(val).Quo(cp.LiquidationRatio).TruncateInt()
	var prin sdkmath.Int
	kk := g.R.Intn(6)
	if g.Soft && kk < 3 {
		kk = 5
	}
	switch kk {
	case 0:
		prin = maxP
	case 1:
		prin = maxP.AddRaw(1)
	case 2:
		prin = maxP.SubRaw(1)
	case 3:
		prin = sdkmath.NewInt(10_000_000) // debt floor
	default:
		prin = frac(maxP, g.R.Range(30, 99), 100)
	}
	if !prin.IsPositive() {
		prin = sdkmath.NewInt(10_000_000)
	}
	msg := cdptypes.NewMsgCreateCDP(u.Addr, sdk.NewCoin(cp.Denom, coll), sdk.NewCoin("usdx", prin), cp.Type)
	return one("cdp.create", u, &msg, fmt.Sprintf("%s %s%s -> %susdx", cp.Type, coll, cp.Denom, prin))
}

// cdpCreateMin opens a position at (or a few units above) the debt floor with comfortable collateral.
func (g *Gen) cdpCreateMin(ctx sdk.Context) *TxSpec {
	cp, ok := g.cdpParam(ctx)
	if !ok {
		return nil
	}
	u := g.user()
	prin := sdkmath.NewInt(10_000_000 + g.R.Range(0, 3))
	coll, ok := g.amountForUsd(ctx, cp.Denom, sdk.NewDecFromInt(prin).Mul(cp.LiquidationRatio).MulInt64(g.R.Range(11, 30)).QuoInt64(10).TruncateInt())
	if !ok || !coll.IsPositive() {
		return nil
	}
	msg := cdptypes.NewMsgCreateCDP(u.Addr, sdk.NewCoin(cp.Denom, coll), sdk.NewCoin("usdx", prin), cp.Type)
	return one("cdp.create", u, &msg, fmt.Sprintf("%s min-size %s%s -> %susdx", cp.Type, coll, cp.Denom, prin))
}

func (g *Gen) anyCDP(ctx sdk.Context) (cdptypes.CDP, bool) {
	cdps := g.N.T.GetCDPKeeper().GetAllCdps(ctx)
	if len(cdps) == 0 {
		return cdptypes.CDP{}, false
	}
	return cdps[g.R.Intn(len(cdps))], true
}

func (g *Gen) partyOf(addr sdk.AccAddress) (Party, bool) {
	for _, p := range g.P.All() {
		if p.Addr.Equals(addr) {
			return p, true
		}
	}
	return Party{}, false
}

func (g *Gen) cdpDeposit(ctx sdk.Context) *TxSpec {
	cdp, ok := g.anyCDP(ctx)
	if !ok {
		return g.cdpCreate(ctx)
	}
	dep := g.user()
	if g.R.Chance(60) {
		if o, ok := g.partyOf(cdp.Owner); ok {
			dep = o
		}
	}
	amt := g.someAmount(g.bal(ctx, dep.Addr, cdp.Collateral.Denom).QuoRaw(100))
	if g.R.Chance(20) { // equal deposits: the F2 shape
		amt = cdp.Collateral.Amount
	}
	msg := cdptypes.NewMsgDeposit(cdp.Owner, dep.Addr, sdk.NewCoin(cdp.Collateral.Denom, amt), cdp.Type)
	return one("cdp.deposit", dep, &msg, fmt.Sprintf("cdp %d %s", cdp.ID, amt))
}

func (g *Gen) cdpWithdraw(ctx sdk.Context) *TxSpec {
	cdp, ok := g.anyCDP(ctx)
	if !ok {
		return nil
	}
	o, ok := g.partyOf(cdp.Owner)
	if !ok {
		return nil
	}
	amt := g.someAmount(cdp.Collateral.Amount.QuoRaw(3))
	msg := cdptypes.NewMsgWithdraw(cdp.Owner, o.Addr, sdk.NewCoin(cdp.Collateral.Denom, amt), cdp.Type)
	return one("cdp.withdraw", o, &msg, fmt.Sprintf("cdp %d %s", cdp.ID, amt))
}

func (g *Gen) cdpDraw(ctx sdk.Context) *TxSpec {
	cdp, ok := g.anyCDP(ctx)
	if !ok {
		return nil
	}
	o, ok := g.partyOf(cdp.Owner)
	if !ok {
		return nil
	}
	cp, _ := g.N.T.GetCDPKeeper().GetCollateral(ctx, cdp.Type)
	val, okv := g.usdValue(ctx, cdp.Collateral.Denom, cdp.Collateral.Amount)
	room := sdkmath.NewInt(1_000_000)
	if okv {
		room = sdk.NewDecFromInt(val).Quo(cp.LiquidationRatio).TruncateInt().Sub(cdp.GetTotalPrincipal().Amount)
	}
	var amt sdkmath.Int
	kk := g.R.Intn(5)
	if g.Soft && kk < 2 {
		kk = 4
	}
	switch kk {
	case 0:
		amt = room
	case 1:
		amt = room.AddRaw(1)
	case 2:
		amt = sdkmath.NewInt(3) // odd debt: rounding shapes
	default:
		amt = g.someAmount(room)
	}
	if !amt.IsPositive() {
		amt = sdk.OneInt()
	}
	msg := cdptypes.NewMsgDrawDebt(o.Addr, cdp.Type, sdk.NewCoin("usdx", amt))
	return one("cdp.draw", o, &msg, fmt.Sprintf("cdp %d %s", cdp.ID, amt))
}

func (g *Gen) cdpRepay(ctx sdk.Context) *TxSpec {
	cdp, ok := g.anyCDP(ctx)
	if !ok {
		return nil
	}
	o, ok := g.partyOf(cdp.Owner)
	if !ok {
		return nil
	}
	tot := cdp.GetTotalPrincipal().Amount
	var amt sdkmath.Int
	kk := g.R.Intn(5)
	if g.Soft && kk < 2 {
		kk = 2
	}
	switch kk {
	case 0:
		amt = tot // close
	case 1:
		amt = tot.SubRaw(10_000_000).AddRaw(g.R.Range(-1, 1)) // around the debt floor
	case 2:
		amt = tot.AddRaw(5)
	default:
		amt = g.someAmount(tot)
	}
	if !amt.IsPositive() {
		amt = sdk.OneInt()
	}
	msg := cdptypes.NewMsgRepayDebt(o.Addr, cdp.Type, sdk.NewCoin("usdx", amt))
	return one("cdp.repay", o, &msg, fmt.Sprintf("cdp %d %s", cdp.ID, amt))
}

func (g *Gen) cdpLiquidate(ctx sdk.Context) *TxSpec {
	cdp, ok := g.anyCDP(ctx)
	if !ok {
		return nil
	}
	k := g.user()
	msg := cdptypes.NewMsgLiquidate(k.Addr, cdp.Owner, cdp.Type)
	return one("cdp.liquidate", k, &msg, fmt.Sprintf("cdp %d", cdp.ID))
}

// ---------------------------------------------------------------- hard

var hardDenoms = []string{"ukava", "bnb", "btc", "xrp", "busd", "usdx"}

func (g *Gen) hardDeposit(ctx sdk.Context) *TxSpec {
	u := g.user()
	n := 1
	if g.R.Chance(35) {
		n = 2 + g.R.Intn(2)
	}
	coins := sdk.NewCoins()
	for k := 0; k < n; k++ {
		denom := cm.Pick(g.R, hardDenoms)
		amt := g.someAmount(g.bal(ctx, u.Addr, denom).QuoRaw(200))
		if amt.IsPositive() {
			coins = coins.Add(sdk.NewCoin(denom, amt))
		}
	}
	if coins.Empty() {
		coins = sdk.NewCoins(c("bnb", 1_000_000))
	}
	msg := hardtypes.NewMsgDeposit(u.Addr, coins)
	return one("hard.deposit", u, &msg, coins.String())
}

func (g *Gen) hardDepositor(ctx sdk.Context) (Party, hardtypes.Deposit, bool) {
	deps := g.N.T.GetHardKeeper().GetDepositsByUser(ctx, g.user().Addr)
	_ = deps
	var all []hardtypes.Deposit
	g.N.T.GetHardKeeper().IterateDeposits(ctx, func(dp hardtypes.Deposit) bool { all = append(all, dp); return false })
	if len(all) == 0 {
		return Party{}, hardtypes.Deposit{}, false
	}
	dp := all[g.R.Intn(len(all))]
	p, ok := g.partyOf(dp.Depositor)
	return p, dp, ok
}

func (g *Gen) hardWithdraw(ctx sdk.Context) *TxSpec {
	u, dp, ok := g.hardDepositor(ctx)
	if !ok {
		return g.hardDeposit(ctx)
	}
	cn := dp.Amount[g.R.Intn(len(dp.Amount))]
	amt := g.someAmount(cn.Amount)
	if !amt.IsPositive() {
		amt = sdk.OneInt()
	}
	msg := hardtypes.NewMsgWithdraw(u.Addr, sdk.NewCoins(sdk.NewCoin(cn.Denom, amt)))
	return one("hard.withdraw", u, &msg, amt.String()+cn.Denom)
}

// borrowRoom: remaining borrowable USD value (micro-usd) of a depositor, by the LTV rule.
func (g *Gen) borrowRoom(ctx sdk.Context, dp hardtypes.Deposit) sdkmath.Int {
	hk := g.N.T.GetHardKeeper()
	limit := sdk.ZeroInt()
	for _, cn := range dp.Amount {
		mm, found := hk.GetMoneyMarket(ctx, cn.Denom)
		v, ok := g.usdValue(ctx, cn.Denom, cn.Amount)
		if found && ok {
			limit = limit.Add(sdk.NewDecFromInt(v).Mul(mm.BorrowLimit.LoanToValue).TruncateInt())
		}
	}
	if b, found := hk.GetBorrow(ctx, dp.Depositor); found {
		for _, cn := range b.Amount {
			if v, ok := g.usdValue(ctx, cn.Denom, cn.Amount); ok {
				limit = limit.Sub(v)
			}
		}
	}
	return limit
}

func (g *Gen) hardBorrow(ctx sdk.Context) *TxSpec {
	u, dp, ok := g.hardDepositor(ctx)
	if !ok {
		return g.hardDeposit(ctx)
	}
	room := g.borrowRoom(ctx, dp)
	denom := cm.Pick(g.R, hardDenoms)
	var usd sdkmath.Int
	kk := g.R.Intn(6)
	if g.Soft && kk < 2 {
		kk = 5
	}
	switch kk {
	case 0:
		usd = room // exactly at the limit
	case 1:
		usd = room.AddRaw(g.R.Range(1, 3))
	case 2:
		usd = sdkmath.NewInt(10_000_000) // minimum borrow value
	default:
		usd = frac(room, g.R.Range(10, 95), 100)
	}
	if !usd.IsPositive() {
		usd = sdkmath.NewInt(10_000_000)
	}
	amt, ok := g.amountForUsd(ctx, denom, usd)
	if !ok || !amt.IsPositive() {
		amt = sdkmath.NewInt(1_000_000)
	}
	coins := sdk.NewCoins(sdk.NewCoin(denom, amt))
	if g.R.Chance(25) { // two denominations at once
		d2 := cm.Pick(g.R, hardDenoms)
		if a2, ok := g.amountForUsd(ctx, d2, usd.QuoRaw(3)); ok && a2.IsPositive() {
			coins = coins.Add(sdk.NewCoin(d2, a2))
		}
	}
	msg := hardtypes.NewMsgBorrow(u.Addr, coins)
	return one("hard.borrow", u, &msg, coins.String())
}

func (g *Gen) hardBorrower(ctx sdk.Context) (Party, hardtypes.Borrow, bool) {
	var all []hardtypes.Borrow
	g.N.T.GetHardKeeper().IterateBorrows(ctx, func(b hardtypes.Borrow) bool { all = append(all, b); return false })
	if len(all) == 0 {
		return Party{}, hardtypes.Borrow{}, false
	}
	b := all[g.R.Intn(len(all))]
	p, ok := g.partyOf(b.Borrower)
	return p, b, ok
}

func (g *Gen) hardRepay(ctx sdk.Context) *TxSpec {
	u, b, ok := g.hardBorrower(ctx)
	if !ok || len(b.Amount) == 0 {
		return g.hardBorrow(ctx)
	}
	cn := b.Amount[g.R.Intn(len(b.Amount))]
	amt := g.someAmount(cn.Amount.MulRaw(11).QuoRaw(10))
	if !amt.IsPositive() {
		amt = sdk.OneInt()
	}
	payer := u
	if g.R.Chance(20) {
		payer = g.user()
	}
	msg := hardtypes.NewMsgRepay(payer.Addr, u.Addr, sdk.NewCoins(sdk.NewCoin(cn.Denom, amt)))
	return one("hard.repay", payer, &msg, amt.String()+cn.Denom)
}

func (g *Gen) hardLiquidate(ctx sdk.Context) *TxSpec {
	_, b, ok := g.hardBorrower(ctx)
	if !ok {
		return nil
	}
	k := g.user()
	msg := hardtypes.NewMsgLiquidate(k.Addr, b.Borrower)
	return one("hard.liquidate", k, &msg, b.Borrower.String()[:12])
}

// ---------------------------------------------------------------- swap

func (g *Gen) swapDeposit(ctx sdk.Context) *TxSpec {
	u := g.user()
	sp := SwapPools[g.R.Intn(len(SwapPools))]
	a, b := sp[0], sp[1]
	amtA := g.someAmount(g.bal(ctx, u.Addr, a).QuoRaw(500))
	if !amtA.IsPositive() {
		amtA = sdkmath.NewInt(1000)
	}
	var amtB sdkmath.Int
	poolID := swaptypes.PoolID(a, b)
	if pool, found := g.N.T.GetSwapKeeper().GetPool(ctx, poolID); found && pool.ReservesA.Amount.IsPositive() {
		// keep the pool ratio (denoms are sorted inside the record)
		ra, rb := pool.ReservesA, pool.ReservesB
		if ra.Denom != a {
			ra, rb = rb, ra
		}
		amtB = amtA.Mul(rb.Amount).Quo(ra.Amount)
	} else {
		v, ok := g.usdValue(ctx, a, amtA)
		if !ok {
			v = amtA
		}
		amtB = v
	}
	if !amtB.IsPositive() {
		amtB = sdk.OneInt()
	}
	slip := cm.Pick(g.R, []string{"0.0", "0.001", "0.01", "0.5", "1.0"})
	msg := swaptypes.NewMsgDeposit(u.Addr.String(), sdk.NewCoin(a, amtA), sdk.NewCoin(b, amtB), d(slip), ctx.BlockTime().Unix()+g.R.Range(-1, 100))
	return one("swap.deposit", u, msg, fmt.Sprintf("%s %s/%s", poolID, amtA, amtB))
}

func (g *Gen) swapWithdraw(ctx sdk.Context) *TxSpec {
	recs := g.N.T.GetSwapKeeper().GetAllDepositorShares(ctx)
	if len(recs) == 0 {
		return g.swapDeposit(ctx)
	}
	r := recs[g.R.Intn(len(recs))]
	u, ok := g.partyOf(r.Depositor)
	if !ok {
		return nil
	}
	shares := g.someAmount(r.SharesOwned)
	if !shares.IsPositive() {
		shares = sdk.OneInt()
	}
	pool, _ := g.N.T.GetSwapKeeper().GetPool(ctx, r.PoolID)
	msg := swaptypes.NewMsgWithdraw(u.Addr.String(), shares, sdk.NewCoin(pool.ReservesA.Denom, sdk.OneInt()), sdk.NewCoin(pool.ReservesB.Denom, sdk.OneInt()), ctx.BlockTime().Unix()+50)
	return one("swap.withdraw", u, msg, fmt.Sprintf("%s %s", r.PoolID, shares))
}

func (g *Gen) swapTrade(ctx sdk.Context) *TxSpec {
	pools := g.N.T.GetSwapKeeper().GetAllPools(ctx)
	if len(pools) == 0 {
		return g.swapDeposit(ctx)
	}
	pool := pools[g.R.Intn(len(pools))]
	u := g.user()
	in, out := pool.ReservesA, pool.ReservesB
	if g.R.Bool() {
		in, out = out, in
	}
	slip := cm.Pick(g.R, []string{"0.01", "0.1", "0.5", "0.99"})
	if g.R.Bool() {
		amtIn := g.someAmount(in.Amount.QuoRaw(10))
		if !amtIn.IsPositive() {
			amtIn = sdk.OneInt()
		}
		expOut := amtIn.Mul(out.Amount).Quo(in.Amount.Add(amtIn))
		if !expOut.IsPositive() {
			expOut = sdk.OneInt()
		}
		msg := swaptypes.NewMsgSwapExactForTokens(u.Addr.String(), sdk.NewCoin(in.Denom, amtIn), sdk.NewCoin(out.Denom, expOut), d(slip), ctx.BlockTime().Unix()+50)
		return one("swap.exactFor", u, msg, fmt.Sprintf("%s%s -> %s", amtIn, in.Denom, out.Denom))
	}
	amtOut := g.someAmount(out.Amount.QuoRaw(10))
	if !amtOut.IsPositive() || amtOut.GTE(out.Amount) {
		amtOut = sdk.OneInt()
	}
	den := out.Amount.Sub(amtOut)
	if !den.IsPositive() { // a pool holding a single unit of the output token: nothing can be bought from it
		return g.swapDeposit(ctx)
	}
	expIn := amtOut.Mul(in.Amount).Quo(den).AddRaw(1)
	msg := swaptypes.NewMsgSwapForExactTokens(u.Addr.String(), sdk.NewCoin(in.Denom, expIn), sdk.NewCoin(out.Denom, amtOut), d(slip), ctx.BlockTime().Unix()+50)
	return one("swap.forExact", u, msg, fmt.Sprintf("%s -> %s%s", in.Denom, amtOut, out.Denom))
}

// ---------------------------------------------------------------- staking / liquid / router / savings / earn

func (g *Gen) stakingDelegate(ctx sdk.Context) *TxSpec {
	u := g.user()
	v := g.R.Intn(NVals)
	amt := g.someAmount(g.bal(ctx, u.Addr, "ukava").QuoRaw(1000))
	if !amt.IsPositive() {
		amt = sdkmath.NewInt(1_000_000)
	}
	msg := stakingtypes.NewMsgDelegate(u.Addr, g.P.ValAddr(v), sdk.NewCoin("ukava", amt))
	return one("staking.delegate", u, msg, fmt.Sprintf("val%d %s", v, amt))
}

func (g *Gen) stakingUndelegate(ctx sdk.Context) *TxSpec {
	u := g.user()
	v := g.R.Intn(NVals)
	del, found := g.N.T.GetStakingKeeper().GetDelegation(ctx, u.Addr, g.P.ValAddr(v))
	if !found {
		return g.stakingDelegate(ctx)
	}
	amt := g.someAmount(del.Shares.TruncateInt())
	if !amt.IsPositive() {
		amt = sdk.OneInt()
	}
	msg := stakingtypes.NewMsgUndelegate(u.Addr, g.P.ValAddr(v), sdk.NewCoin("ukava", amt))
	return one("staking.undelegate", u, msg, fmt.Sprintf("val%d %s", v, amt))
}

func (g *Gen) bkavaDenom(v int) string { return g.N.T.GetLiquidKeeper().GetLiquidStakingTokenDenom(g.P.ValAddr(v)) }

func (g *Gen) liquidMint(ctx sdk.Context) *TxSpec {
	u := g.user()
	v := g.R.Intn(NVals)
	del, found := g.N.T.GetStakingKeeper().GetDelegation(ctx, u.Addr, g.P.ValAddr(v))
	if !found {
		// router: delegate and mint in one message
		amt := g.someAmount(g.bal(ctx, u.Addr, "ukava").QuoRaw(2000))
		if !amt.IsPositive() {
			amt = sdkmath.NewInt(1_000_000)
		}
		msg := routertypes.NewMsgDelegateMintDeposit(u.Addr, g.P.ValAddr(v), sdk.NewCoin("ukava", amt))
		return one("router.delegateMintDeposit", u, msg, fmt.Sprintf("val%d %s", v, amt))
	}
	amt := g.someAmount(del.Shares.TruncateInt())
	if !amt.IsPositive() {
		amt = sdk.OneInt()
	}
	msg := liquidtypes.NewMsgMintDerivative(u.Addr, g.P.ValAddr(v), sdk.NewCoin("ukava", amt))
	return one("liquid.mint", u, &msg, fmt.Sprintf("val%d %s", v, amt))
}

func (g *Gen) liquidBurn(ctx sdk.Context) *TxSpec {
	u := g.user()
	v := g.R.Intn(NVals)
	denom := g.bkavaDenom(v)
	have := g.bal(ctx, u.Addr, denom)
	if !have.IsPositive() {
		return g.liquidMint(ctx)
	}
	amt := g.someAmount(have)
	if !amt.IsPositive() {
		amt = sdk.OneInt()
	}
	msg := liquidtypes.NewMsgBurnDerivative(u.Addr, g.P.ValAddr(v), sdk.NewCoin(denom, amt))
	return one("liquid.burn", u, &msg, fmt.Sprintf("val%d %s", v, amt))
}

func (g *Gen) savingsDeposit(ctx sdk.Context) *TxSpec {
	u := g.user()
	denom := cm.Pick(g.R, []string{"ukava", "usdx", g.bkavaDenom(0), g.bkavaDenom(1)})
	amt := g.someAmount(g.bal(ctx, u.Addr, denom).QuoRaw(20))
	if !amt.IsPositive() {
		amt = sdk.OneInt()
	}
	msg := savingstypes.NewMsgDeposit(u.Addr, sdk.NewCoins(sdk.NewCoin(denom, amt)))
	return one("savings.deposit", u, &msg, amt.String()+denom)
}

func (g *Gen) savingsWithdraw(ctx sdk.Context) *TxSpec {
	deps := g.N.T.GetSavingsKeeper().GetAllDeposits(ctx)
	if len(deps) == 0 {
		return g.savingsDeposit(ctx)
	}
	dp := deps[g.R.Intn(len(deps))]
	u, ok := g.partyOf(dp.Depositor)
	if !ok || len(dp.Amount) == 0 {
		return nil
	}
	cn := dp.Amount[g.R.Intn(len(dp.Amount))]
	amt := g.someAmount(cn.Amount)
	if !amt.IsPositive() {
		amt = sdk.OneInt()
	}
	msg := savingstypes.NewMsgWithdraw(u.Addr, sdk.NewCoins(sdk.NewCoin(cn.Denom, amt)))
	return one("savings.withdraw", u, &msg, amt.String()+cn.Denom)
}

func (g *Gen) earnDeposit(ctx sdk.Context) *TxSpec {
	u := g.user()
	denom, strat := "usdx", earntypes.STRATEGY_TYPE_HARD
	if g.R.Chance(40) {
		denom, strat = g.bkavaDenom(g.R.Intn(NVals)), earntypes.STRATEGY_TYPE_SAVINGS
	}
	amt := g.someAmount(g.bal(ctx, u.Addr, denom).QuoRaw(20))
	if !amt.IsPositive() {
		amt = sdk.OneInt()
	}
	msg := earntypes.NewMsgDeposit(u.Addr.String(), sdk.NewCoin(denom, amt), strat)
	return one("earn.deposit", u, msg, amt.String()+denom)
}

func (g *Gen) earnWithdraw(ctx sdk.Context) *TxSpec {
	recs := g.N.T.GetEarnKeeper().GetAllVaultShareRecords(ctx)
	if len(recs) == 0 {
		return g.earnDeposit(ctx)
	}
	r := recs[g.R.Intn(len(recs))]
	u, ok := g.partyOf(r.Depositor)
	if !ok || len(r.Shares) == 0 {
		return nil
	}
	sh := r.Shares[g.R.Intn(len(r.Shares))]
	ek := g.N.T.GetEarnKeeper()
	val, err := ek.ConvertToAssets(ctx, sh)
	if err != nil {
		return nil
	}
	amt := g.someAmount(val.Amount)
	if !amt.IsPositive() {
		amt = sdk.OneInt()
	}
	strat := earntypes.STRATEGY_TYPE_HARD
	if sh.Denom != "usdx" {
		strat = earntypes.STRATEGY_TYPE_SAVINGS
	}
	msg := earntypes.NewMsgWithdraw(u.Addr.String(), sdk.NewCoin(sh.Denom, amt), strat)
	return one("earn.withdraw", u, msg, amt.String()+sh.Denom)
}

// ---------------------------------------------------------------- bep3

func (g *Gen) bep3Create(ctx sdk.Context) *TxSpec {
	g.nonce++
	rn := sha256.Sum256([]byte(fmt.Sprintf("bep3-secret-%d-%d", g.nonce, g.R.U64())))
	ts := ctx.BlockTime().Unix() + g.R.Range(-60, 60)
	if g.R.Chance(5) {
		ts -= 100000 // outside the window
	}
	hash := bep3types.CalculateRandomHash(rn[:], ts)
	denom := cm.Pick(g.R, []string{"bnb", "xrp"})
	u := g.user()
	span := uint64(g.R.Range(5, 40))
	if g.R.Chance(5) {
		span = uint64(g.R.Range(1, 60))
	}
	var msg bep3types.MsgCreateAtomicSwap
	var signer Party
	var id []byte
	if g.R.Chance(60) { // incoming: deputy -> user (mints)
		amt := g.someAmount(sdkmath.NewInt(500_000_000_000))
		if amt.LT(sdkmath.NewInt(1001)) {
			amt = sdkmath.NewInt(1001)
		}
		signer = g.P.Deputy
		msg = bep3types.NewMsgCreateAtomicSwap(g.P.Deputy.Addr.String(), u.Addr.String(), "0xrecipient", "0xsender"+fmt.Sprint(g.nonce), tmbytes.HexBytes(hash), ts,
			sdk.NewCoins(sdk.NewCoin(denom, amt)), span)
		id = bep3types.CalculateSwapID(hash, g.P.Deputy.Addr, "0xsender"+fmt.Sprint(g.nonce))
	} else { // outgoing: user -> deputy
		amt := g.someAmount(g.bal(ctx, u.Addr, denom).QuoRaw(1000))
		if amt.LT(sdkmath.NewInt(1001)) {
			amt = sdkmath.NewInt(1001)
		}
		signer = u
		msg = bep3types.NewMsgCreateAtomicSwap(u.Addr.String(), g.P.Deputy.Addr.String(), "0xrecipient", "0xsender"+fmt.Sprint(g.nonce), tmbytes.HexBytes(hash), ts,
			sdk.NewCoins(sdk.NewCoin(denom, amt)), span)
		id = bep3types.CalculateSwapID(hash, u.Addr, "0xsender"+fmt.Sprint(g.nonce))
	}
	g.secrets[string(id)] = rn[:]
	return one("bep3.create", signer, &msg, msg.Amount.String())
}

func (g *Gen) bep3ClaimOrRefund(ctx sdk.Context) *TxSpec {
	swaps := g.N.T.GetBep3Keeper().GetAllAtomicSwaps(ctx)
	if len(swaps) == 0 {
		return g.bep3Create(ctx)
	}
	s := swaps[g.R.Intn(len(swaps))]
	id := s.GetSwapID()
	u := g.user()
	if s.Status == bep3types.SWAP_STATUS_EXPIRED || g.R.Chance(15) {
		msg := bep3types.NewMsgRefundAtomicSwap(u.Addr.String(), id)
		return one("bep3.refund", u, &msg, fmt.Sprintf("%x status=%s", id[:4], s.Status))
	}
	rn, ok := g.secrets[string(id)]
	if !ok || g.R.Chance(5) {
		bad := sha256.Sum256([]byte("wrong"))
		rn = bad[:]
	}
	msg := bep3types.NewMsgClaimAtomicSwap(u.Addr.String(), id, rn)
	return one("bep3.claim", u, &msg, fmt.Sprintf("%x status=%s", id[:4], s.Status))
}

// ---------------------------------------------------------------- auction

func (g *Gen) auctionBid(ctx sdk.Context) *TxSpec {
	aucs := g.N.T.GetAuctionKeeper().GetAllAuctions(ctx)
	if len(aucs) == 0 {
		return nil
	}
	a := aucs[g.R.Intn(len(aucs))]
	u := g.user()
	inc := d("0.05")
	var amt sdk.Coin
	bump := func(x sdkmath.Int) sdkmath.Int {
		m := sdk.MaxInt(sdk.OneInt(), sdk.NewDecFromInt(x).Mul(inc).RoundInt())
		switch g.R.Intn(4) {
		case 0:
			return x.Add(m) // exactly the minimum
		case 1:
			return x.Add(m).SubRaw(1) // one short
		default:
			return x.Add(m.MulRaw(g.R.Range(1, 5)))
		}
	}
	switch au := a.(type) {
	case *auctiontypes.SurplusAuction:
		amt = sdk.NewCoin(au.Bid.Denom, bump(au.Bid.Amount))
	case *auctiontypes.DebtAuction:
		// bid on lot: lower lot by at least the increment
		lot := au.Lot.Amount
		m := sdk.MaxInt(sdk.OneInt(), sdk.NewDecFromInt(lot).Mul(inc).RoundInt())
		nl := lot.Sub(m.MulRaw(g.R.Range(1, 3)))
		if !nl.IsPositive() {
			nl = sdk.OneInt()
		}
		if g.R.Chance(15) {
			nl = sdk.ZeroInt() // the lot bid down to nothing: accepted by the keeper, the auction closes with an empty lot
		}
		amt = sdk.NewCoin(au.Lot.Denom, nl)
	case *auctiontypes.CollateralAuction:
		if !au.IsReversePhase() {
			nb := bump(au.Bid.Amount)
			if nb.GT(au.MaxBid.Amount) || g.R.Chance(30) {
				nb = au.MaxBid.Amount
			}
			amt = sdk.NewCoin(au.Bid.Denom, nb)
		} else {
			lot := au.Lot.Amount
			m := sdk.MaxInt(sdk.OneInt(), sdk.NewDecFromInt(lot).Mul(inc).RoundInt())
			nl := lot.Sub(m.MulRaw(g.R.Range(1, 3)))
			if !nl.IsPositive() {
				nl = sdk.OneInt()
			}
			if g.R.Chance(15) {
				nl = sdk.ZeroInt() // the lot bid down to nothing: accepted by the keeper, the auction closes with an empty lot
			}
			amt = sdk.NewCoin(au.Lot.Denom, nl)
		}
	default:
		return nil
	}
	msg := auctiontypes.NewMsgPlaceBid(a.GetID(), u.Addr.String(), amt)
	return one("auction.bid", u, &msg, fmt.Sprintf("#%d %s %s", a.GetID(), a.GetType(), amt))
}

// ---------------------------------------------------------------- committee / gov

func (g *Gen) committeeSubmit(ctx sdk.Context) *TxSpec {
	member := g.P.Users[g.R.Intn(3)]
	if g.R.Chance(10) {
		member = g.P.Users[5] // not a member
	}
	var pub committeetypes.PubProposal
	comID := uint64(1)
	switch g.R.Intn(4) {
	case 0:
		pub = govv1beta1.NewTextProposal("text", fmt.Sprintf("proposal %d", g.R.Intn(1000)))
		if g.R.Bool() {
			comID = 2
		}
	case 1: // single value param
		v := sdkmath.NewInt(g.R.Range(1, 50) * 1_000_000_000)
		pub = paramsproposal.NewParameterChangeProposal("debt threshold", "change", []paramsproposal.ParamChange{
			paramsproposal.NewParamChange(cdptypes.ModuleName, string(cdptypes.KeyDebtThreshold), fmt.Sprintf("%q", v.String())),
		})
	default: // multi-record param change: edit allowed (and sometimes a forbidden) attribute of collateral params
		cps := g.N.T.GetCDPKeeper().GetParams(ctx).CollateralParams
		cp2 := make(cdptypes.CollateralParams, len(cps))
		copy(cp2, cps)
		k := g.R.Intn(len(cp2))
		cp2[k].AuctionSize = cp2[k].AuctionSize.AddRaw(g.R.Range(1, 1000))
		cp2[k].DebtLimit = sdk.NewCoin("usdx", cp2[k].DebtLimit.Amount.AddRaw(g.R.Range(0, 5)*1_000_000))
		if g.R.Chance(25) {
			cp2[k].LiquidationRatio = cp2[k].LiquidationRatio.Add(d("0.01")) // not allowed
		}
		if g.R.Chance(10) {
			cp2 = cp2[:len(cp2)-1] // wrong length
		}
		bz, err := g.N.T.LegacyAmino().MarshalJSON(cp2)
		if err != nil {
			return nil
		}
		pub = paramsproposal.NewParameterChangeProposal("collateral params", "change", []paramsproposal.ParamChange{
			paramsproposal.NewParamChange(cdptypes.ModuleName, string(cdptypes.KeyCollateralParams), string(bz)),
		})
	}
	msg, err := committeetypes.NewMsgSubmitProposal(pub, member.Addr, comID)
	if err != nil {
		return nil
	}
	return one("committee.submit", member, msg, fmt.Sprintf("committee %d %s", comID, pub.ProposalType()))
}

func (g *Gen) committeeVote(ctx sdk.Context) *TxSpec {
	props := g.N.T.GetCommitteeKeeper().GetProposals(ctx)
	if len(props) == 0 {
		return g.committeeSubmit(ctx)
	}
	pr := props[g.R.Intn(len(props))]
	voter := g.P.Users[g.R.Intn(4)]
	vt := committeetypes.VOTE_TYPE_YES
	switch g.R.Intn(5) {
	case 0:
		vt = committeetypes.VOTE_TYPE_NO
	case 1:
		vt = committeetypes.VOTE_TYPE_ABSTAIN
	}
	msg := committeetypes.NewMsgVote(voter.Addr, pr.ID, vt)
	return one("committee.vote", voter, msg, fmt.Sprintf("#%d %s", pr.ID, vt))
}

func (g *Gen) govSubmit(ctx sdk.Context) *TxSpec {
	u := g.user()
	msg, err := govv1.NewMsgSubmitProposal(nil, sdk.NewCoins(c("ukava", g.R.Range(1, 2)*1_000_000)), u.Addr.String(), "ipfs://kava-verif", "signal", fmt.Sprintf("text proposal %d", g.R.Intn(1000)))
	if err != nil {
		return nil
	}
	return one("gov.submit", u, msg, "")
}

func (g *Gen) govVote(ctx sdk.Context) *TxSpec {
	props := g.N.T.GetGovKeeper().GetProposals(ctx)
	var open []uint64
	for _, pr := range props {
		if pr.Status == govv1.StatusVotingPeriod {
			open = append(open, pr.Id)
		}
	}
	if len(open) == 0 {
		return g.govSubmit(ctx)
	}
	id := open[g.R.Intn(len(open))]
	voter := g.user()
	if g.R.Chance(25) {
		voter = g.P.ValOps[g.R.Intn(NVals)]
	}
	opt := cm.Pick(g.R, []govv1.VoteOption{govv1.OptionYes, govv1.OptionYes, govv1.OptionNo, govv1.OptionAbstain, govv1.OptionNoWithVeto})
	if g.R.Chance(25) {
		msg := govv1.NewMsgVoteWeighted(voter.Addr, id, govv1.WeightedVoteOptions{
			{Option: govv1.OptionYes, Weight: "0.7"}, {Option: opt, Weight: "0.3"},
		}, "")
		if opt == govv1.OptionYes {
			msg = govv1.NewMsgVoteWeighted(voter.Addr, id, govv1.WeightedVoteOptions{{Option: govv1.OptionYes, Weight: "0.6"}, {Option: govv1.OptionNo, Weight: "0.4"}}, "")
		}
		return one("gov.voteWeighted", voter, msg, fmt.Sprintf("#%d", id))
	}
	msg := govv1.NewMsgVote(voter.Addr, id, opt, "")
	return one("gov.vote", voter, msg, fmt.Sprintf("#%d %s", id, opt))
}

// ---------------------------------------------------------------- incentive

func (g *Gen) incentiveClaim(ctx sdk.Context) *TxSpec {
	u := g.user()
	if g.R.Chance(15) {
		u = g.P.ValOps[g.R.Intn(NVals)]
	}
	mult := cm.Pick(g.R, []string{"small", "large", "large", "medium"})
	sel := func(denoms ...string) incentivetypes.Selections {
		var s incentivetypes.Selections
		for _, dn := range denoms {
			if g.R.Chance(80) {
				s = append(s, incentivetypes.NewSelection(dn, cm.Pick(g.R, []string{"small", "large"})))
			}
		}
		if len(s) == 0 {
			s = append(s, incentivetypes.NewSelection(denoms[0], mult))
		}
		return s
	}
	switch g.R.Intn(6) {
	case 0:
		msg := incentivetypes.NewMsgClaimUSDXMintingReward(u.Addr.String(), mult)
		return one("incentive.claimUSDX", u, &msg, mult)
	case 1:
		denoms := []string{"hard", "ukava"}
		if g.Cfg.RewardInAssetDenom {
			denoms = append(denoms, AssetDenom)
		}
		msg := incentivetypes.NewMsgClaimHardReward(u.Addr.String(), sel(denoms...))
		return one("incentive.claimHard", u, &msg, "")
	case 2:
		msg := incentivetypes.NewMsgClaimDelegatorReward(u.Addr.String(), sel("hard", "swp"))
		return one("incentive.claimDelegator", u, &msg, "")
	case 3:
		msg := incentivetypes.NewMsgClaimSwapReward(u.Addr.String(), sel("swp"))
		return one("incentive.claimSwap", u, &msg, "")
	case 4:
		msg := incentivetypes.NewMsgClaimSavingsReward(u.Addr.String(), sel("hard"))
		return one("incentive.claimSavings", u, &msg, "")
	default:
		msg := incentivetypes.NewMsgClaimEarnReward(u.Addr.String(), sel("hard", "ukava"))
		return one("incentive.claimEarn", u, &msg, "")
	}
}

// ---------------------------------------------------------------- issuance / community

func (g *Gen) issuance(ctx sdk.Context) *TxSpec {
	o := g.P.AssetOwner
	u := g.user()
	switch g.R.Intn(6) {
	case 0, 1:
		amt := sdkmath.NewInt(g.R.Range(1, 1_000_000_000))
		msg := issuancetypes.NewMsgIssueTokens(o.Addr.String(), sdk.NewCoin(AssetDenom, amt), u.Addr.String())
		return one("issuance.issue", o, msg, amt.String())
	case 2:
		amt := g.someAmount(g.bal(ctx, o.Addr, AssetDenom))
		if !amt.IsPositive() {
			amt = sdk.OneInt()
		}
		msg := issuancetypes.NewMsgRedeemTokens(o.Addr.String(), sdk.NewCoin(AssetDenom, amt))
		return one("issuance.redeem", o, msg, amt.String())
	case 3:
		msg := issuancetypes.NewMsgBlockAddress(o.Addr.String(), AssetDenom, u.Addr.String())
		return one("issuance.block", o, msg, u.Name)
	case 4:
		msg := issuancetypes.NewMsgUnblockAddress(o.Addr.String(), AssetDenom, u.Addr.String())
		return one("issuance.unblock", o, msg, u.Name)
	default:
		msg := issuancetypes.NewMsgSetPauseStatus(o.Addr.String(), AssetDenom, g.R.Chance(30))
		return one("issuance.pause", o, msg, "")
	}
}

func (g *Gen) communityFund(ctx sdk.Context) *TxSpec {
	u := g.user()
	amt := sdkmath.NewInt(g.R.Range(1, 10_000_000))
	msg := communitytypes.NewMsgFundCommunityPool(u.Addr, sdk.NewCoins(sdk.NewCoin("ukava", amt)))
	return one("community.fund", u, &msg, amt.String())
}

// ---------------------------------------------------------------- mixing

type weighted struct {
	w  int
	fn genFn
}

func (g *Gen) table() []weighted {
	if g.Focus == "cdp" {
		return []weighted{
			{2, g.bankSend}, {10, g.cdpCreateMin}, {3, g.cdpCreate}, {3, g.cdpDeposit}, {2, g.cdpWithdraw},
			{4, g.cdpDraw}, {3, g.cdpRepay}, {2, g.cdpLiquidate}, {4, g.auctionBid},
		}
	}
	return []weighted{
		{4, g.bankSend},
		{8, g.cdpCreate}, {5, g.cdpDeposit}, {3, g.cdpWithdraw}, {5, g.cdpDraw}, {4, g.cdpRepay}, {2, g.cdpLiquidate},
		{8, g.hardDeposit}, {3, g.hardWithdraw}, {8, g.hardBorrow}, {4, g.hardRepay}, {3, g.hardLiquidate},
		{5, g.swapDeposit}, {3, g.swapWithdraw}, {5, g.swapTrade},
		{3, g.stakingDelegate}, {1, g.stakingUndelegate}, {4, g.liquidMint}, {2, g.liquidBurn},
		{3, g.savingsDeposit}, {2, g.savingsWithdraw}, {3, g.earnDeposit}, {2, g.earnWithdraw},
		{4, g.bep3Create}, {4, g.bep3ClaimOrRefund},
		{6, g.auctionBid},
		{2, g.committeeSubmit}, {4, g.committeeVote}, {1, g.govSubmit}, {4, g.govVote},
		{5, g.incentiveClaim},
		{2, g.issuance}, {1, g.communityFund},
	}
}

// safeGen runs a generator; a panic inside the generator itself (not the app) yields nil.
func safeGen(fn genFn, ctx sdk.Context) (spec *TxSpec) {
	defer func() {
		if r := recover(); r != nil {
			spec = nil
		}
	}()
	return fn(ctx)
}

// Next generates one transaction (never nil).
func (g *Gen) Next(ctx sdk.Context) *TxSpec {
	tb := g.table()
	tot := 0
	for _, w := range tb {
		tot += w.w
	}
	for tries := 0; tries < 20; tries++ {
		x := g.R.Intn(tot)
		for _, w := range tb {
			if x < w.w {
				if spec := safeGen(w.fn, ctx); spec != nil {
					if g.R.Chance(3) {
						spec.Mangle = cm.Pick(g.R, []string{"seq", "signer"})
					}
					return spec
				}
				break
			}
			x -= w.w
		}
	}
	return g.bankSend(ctx)
}

// Gap picks the time between two blocks: 0.4 s … 30 days, biased to ordinary block times.
func (g *Gen) Gap() time.Duration {
	switch g.R.Intn(20) {
	case 0:
		return 400 * time.Millisecond
	case 1:
		return time.Second
	case 2:
		return time.Minute
	case 3:
		return 10 * time.Minute
	case 4:
		return time.Hour
	case 5:
		return 6 * time.Hour
	case 6:
		return 24 * time.Hour
	case 7:
		if g.R.Chance(50) {
			return 7 * 24 * time.Hour
		}
		return 30 * 24 * time.Hour
	case 8:
		return time.Duration(g.R.Range(1, 3_000_000)) * time.Millisecond
	default:
		return 6 * time.Second
	}
}
