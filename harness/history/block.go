package history

import (
	"crypto/sha256"
	"encoding/hex"
	"fmt"
	"os"
	"runtime/debug"
	"sort"
	"strings"
	"time"

	abci "github.com/cometbft/cometbft/abci/types"
	tmproto "github.com/cometbft/cometbft/proto/tendermint/types"
	"github.com/cosmos/cosmos-sdk/client"
	sdk "github.com/cosmos/cosmos-sdk/types"
	"github.com/cosmos/cosmos-sdk/types/tx/signing"
	authsign "github.com/cosmos/cosmos-sdk/x/auth/signing"

	"github.com/kava-labs/kava/app"
)

// Block is what consensus would hand to every replica: height, time, proposer, votes and raw txs.
type Block struct {
	Height int64
	Time   time.Time
	Txs    [][]byte
	// Desc describes each tx for replay files (message types and signer), not used by execution.
	Desc []string
	// BasicInvalid marks txs whose messages fail ValidateBasic (rejected by baseapp before the ante handler).
	BasicInvalid []bool
}

// BlockResult is everything a replica reports about one block.
type BlockResult struct {
	Height   int64
	AppHash  []byte
	BB       abci.ResponseBeginBlock
	Txs      []abci.ResponseDeliverTx
	EB       abci.ResponseEndBlock
	Panic    string // "" or "<phase>: <message>"
	Digests  Digests
}

// EventsDigest hashes the events of one tx result.
func EventsDigest(evs []abci.Event) string { return hashStrings([]string{eventsString(evs)})[:12] }

// Digests are the per-height observations compared across replicas.
type Digests struct {
	AppHash  string
	TxResult string // code, codespace, data, gas wanted, gas used, events of every tx
	TxLog    string // log strings of every tx
	BBEvents string
	EBEvents string // events + validator updates
}

func hashStrings(parts []string) string {
	h := sha256.New()
	for _, p := range parts {
		fmt.Fprintf(h, "%d:", len(p))
		h.Write([]byte(p))
	}
	return hex.EncodeToString(h.Sum(nil))[:24]
}

func eventsString(evs []abci.Event) string {
	var sb strings.Builder
	for _, e := range evs {
		sb.WriteString(e.Type)
		sb.WriteByte('{')
		for _, a := range e.Attributes {
			fmt.Fprintf(&sb, "%q=%q/%v;", a.Key, a.Value, a.Index)
		}
		sb.WriteByte('}')
	}
	return sb.String()
}

func (r *BlockResult) computeDigests() {
	var tr, tl []string
	for _, t := range r.Txs {
		tr = append(tr, fmt.Sprintf("%d|%s|%x|%d|%d|%s", t.Code, t.Codespace, t.Data, t.GasWanted, t.GasUsed, eventsString(t.Events)))
		tl = append(tl, t.Log)
	}
	var vu []string
	for _, v := range r.EB.ValidatorUpdates {
		vu = append(vu, fmt.Sprintf("%s:%d", v.PubKey.String(), v.Power))
	}
	r.Digests = Digests{
		AppHash:  hex.EncodeToString(r.AppHash),
		TxResult: hashStrings(tr),
		TxLog:    hashStrings(tl),
		BBEvents: hashStrings([]string{eventsString(r.BB.Events)}),
		EBEvents: hashStrings([]string{eventsString(r.EB.Events), strings.Join(vu, ",")}),
	}
	if r.Panic != "" {
		r.Digests.AppHash = "panic:" + hashStrings([]string{r.Panic})
	}
}

// Header builds the block header all replicas receive.
func (p *Parties) Header(height int64, t time.Time) tmproto.Header {
	return tmproto.Header{Height: height, Time: t, ChainID: ChainID, ProposerAddress: p.ConsAddr(int(height) % NVals)}
}

// lastCommit: both genesis validators signed the previous block (power is taken from the staking genesis).
func (p *Parties) lastCommit(height int64) abci.CommitInfo {
	if height <= 1 {
		return abci.CommitInfo{}
	}
	var votes []abci.VoteInfo
	for k := 0; k < NVals; k++ {
		votes = append(votes, abci.VoteInfo{Validator: abci.Validator{Address: p.ConsAddr(k), Power: 1_000_000}, SignedLastBlock: true})
	}
	return abci.CommitInfo{Round: 0, Votes: votes}
}

// panicSite extracts the innermost Kava function on the stack of a recovered panic ("x/<module>.<func>").
func panicSite(stack string) string {
	const pfx = "github.com/kava-labs/kava/"
	for _, line := range strings.Split(stack, "\n") {
		if strings.HasPrefix(line, pfx) {
			f := strings.TrimPrefix(line, pfx)
			if k := strings.Index(f, "("); k > 0 {
				// keep "x/kavadist/keeper.Keeper.mintInfrastructurePeriods"
				f2 := f[:k]
				if strings.Contains(f, ").") { // method with receiver in parentheses: pkg.(*T).M
					f2 = f[:strings.LastIndex(f, "(")]
				}
				return strings.TrimSuffix(f2, ".")
			}
			return f
		}
	}
	return "unknown"
}

func recoverTo(dst *string, phase string) {
	if r := recover(); r != nil {
		msg := fmt.Sprint(r)
		if len(msg) > 600 {
			msg = msg[:600]
		}
		st := string(debug.Stack())
		*dst = phase + " panic at " + panicSite(st) + ": " + msg
		if os.Getenv("VERIF_DEBUG") != "" {
			fmt.Fprintf(os.Stderr, "PANIC %s: %s\n%s\n", phase, msg, st)
		}
	}
}

// Begin runs BeginBlock (recovering a panic).
func (n *Node) Begin(p *Parties, height int64, t time.Time) (res abci.ResponseBeginBlock, panicMsg string) {
	defer recoverTo(&panicMsg, "BeginBlock")
	res = n.T.BeginBlock(abci.RequestBeginBlock{Header: p.Header(height, t), LastCommitInfo: p.lastCommit(height)})
	return
}

func (n *Node) Deliver(tx []byte) (res abci.ResponseDeliverTx, panicMsg string) {
	defer recoverTo(&panicMsg, "DeliverTx")
	res = n.T.DeliverTx(abci.RequestDeliverTx{Tx: tx})
	return
}

func (n *Node) End(height int64) (res abci.ResponseEndBlock, panicMsg string) {
	defer recoverTo(&panicMsg, "EndBlock")
	res = n.T.EndBlock(abci.RequestEndBlock{Height: height})
	return
}

func (n *Node) CommitBlock(height int64) (hash []byte, panicMsg string) {
	defer recoverTo(&panicMsg, "Commit")
	hash = n.T.Commit().Data
	n.Height = height
	return
}

// ApplyBlock executes a whole block on a follower replica.
func (n *Node) ApplyBlock(p *Parties, b Block) *BlockResult {
	r := &BlockResult{Height: b.Height}
	defer r.computeDigests()
	if r.BB, r.Panic = n.Begin(p, b.Height, b.Time); r.Panic != "" {
		return r
	}
	for _, tx := range b.Txs {
		res, pm := n.Deliver(tx)
		if pm != "" {
			r.Panic = pm
			return r
		}
		r.Txs = append(r.Txs, res)
	}
	if r.EB, r.Panic = n.End(b.Height); r.Panic != "" {
		return r
	}
	r.AppHash, r.Panic = n.CommitBlock(b.Height)
	return r
}

// ---------------------------------------------------------------- signing

var encCfg = func() func() client.TxConfig {
	var tc client.TxConfig
	return func() client.TxConfig {
		if tc == nil {
			sdkConfig()
			tc = app.MakeEncodingConfig().TxConfig
		}
		return tc
	}
}()

// SignTx builds and signs a transaction of msgs by the given signers (account number / sequence given).
// secp256k1 signatures are deterministic (RFC 6979), so the bytes depend only on the inputs.
func SignTx(msgs []sdk.Msg, gas uint64, memo string, signers []Party, accNums, seqs []uint64) ([]byte, error) {
	txConfig := encCfg()
	signMode := txConfig.SignModeHandler().DefaultMode()
	sigs := make([]signing.SignatureV2, len(signers))
	for k, s := range signers {
		sigs[k] = signing.SignatureV2{PubKey: s.Priv.PubKey(), Data: &signing.SingleSignatureData{SignMode: signMode}, Sequence: seqs[k]}
	}
	b := txConfig.NewTxBuilder()
	if err := b.SetMsgs(msgs...); err != nil {
		return nil, err
	}
	if err := b.SetSignatures(sigs...); err != nil {
		return nil, err
	}
	b.SetMemo(memo)
	b.SetFeeAmount(sdk.NewCoins())
	b.SetGasLimit(gas)
	for k, s := range signers {
		sd := authsign.SignerData{Address: s.Addr.String(), ChainID: ChainID, AccountNumber: accNums[k], Sequence: seqs[k], PubKey: s.Priv.PubKey()}
		bz, err := txConfig.SignModeHandler().GetSignBytes(signMode, sd, b.GetTx())
		if err != nil {
			return nil, err
		}
		sig, err := s.Priv.Sign(bz)
		if err != nil {
			return nil, err
		}
		sigs[k].Data.(*signing.SingleSignatureData).Signature = sig
		if err := b.SetSignatures(sigs...); err != nil {
			return nil, err
		}
	}
	return txConfig.TxEncoder()(b.GetTx())
}

// sortedKeys is a tiny helper for deterministic reporting.
func sortedKeys(m map[string]int) []string {
	ks := make([]string, 0, len(m))
	for k := range m {
		ks = append(ks, k)
	}
	sort.Strings(ks)
	return ks
}
