// Package history: the multi-module history runner shared by the whole-application checks
// C01 (deterministic replication), C02 (blocks always process, invariants hold) and C14 (genesis
// export/import). It drives the REAL Kava app through InitChain / BeginBlock / DeliverTx / EndBlock /
// Commit with signed transactions generated from a seeded PRNG.
package history

import (
	"crypto/sha256"
	"encoding/json"
	"fmt"
	"sync"
	"time"

	sdkmath "cosmossdk.io/math"
	dbm "github.com/cometbft/cometbft-db"
	abci "github.com/cometbft/cometbft/abci/types"
	"github.com/cometbft/cometbft/libs/log"
	tmproto "github.com/cometbft/cometbft/proto/tendermint/types"
	"github.com/cosmos/cosmos-sdk/baseapp"
	codectypes "github.com/cosmos/cosmos-sdk/codec/types"
	"github.com/cosmos/cosmos-sdk/crypto/keys/ed25519"
	"github.com/cosmos/cosmos-sdk/crypto/keys/secp256k1"
	cryptotypes "github.com/cosmos/cosmos-sdk/crypto/types"
	sdk "github.com/cosmos/cosmos-sdk/types"
	authtypes "github.com/cosmos/cosmos-sdk/x/auth/types"
	banktypes "github.com/cosmos/cosmos-sdk/x/bank/types"
	govv1 "github.com/cosmos/cosmos-sdk/x/gov/types/v1"
	govtypes "github.com/cosmos/cosmos-sdk/x/gov/types"
	minttypes "github.com/cosmos/cosmos-sdk/x/mint/types"
	slashingtypes "github.com/cosmos/cosmos-sdk/x/slashing/types"
	stakingtypes "github.com/cosmos/cosmos-sdk/x/staking/types"

	"github.com/kava-labs/kava/app"
	auctiontypes "github.com/kava-labs/kava/x/auction/types"
	bep3types "github.com/kava-labs/kava/x/bep3/types"
	cdptypes "github.com/kava-labs/kava/x/cdp/types"
	committeetypes "github.com/kava-labs/kava/x/committee/types"
	earntypes "github.com/kava-labs/kava/x/earn/types"
	hardtypes "github.com/kava-labs/kava/x/hard/types"
	incentivetypes "github.com/kava-labs/kava/x/incentive/types"
	issuancetypes "github.com/kava-labs/kava/x/issuance/types"
	kavadisttypes "github.com/kava-labs/kava/x/kavadist/types"
	pricefeedtypes "github.com/kava-labs/kava/x/pricefeed/types"
	savingstypes "github.com/kava-labs/kava/x/savings/types"
	swaptypes "github.com/kava-labs/kava/x/swap/types"
)

const ChainID = app.TestChainId

// GenTime is the genesis time of every history.
var GenTime = time.Date(2024, 1, 1, 0, 0, 0, 0, time.UTC)

var cfgOnce sync.Once

func sdkConfig() { cfgOnce.Do(func() { app.SetSDKConfig() }) }

// ---------------------------------------------------------------- parties

type Party struct {
	Name string
	Priv cryptotypes.PrivKey
	Addr sdk.AccAddress
}

func mkParty(name string) Party {
	h := sha256.Sum256([]byte("kava-verif-party/" + name))
	k := secp256k1.GenPrivKeyFromSecret(h[:])
	return Party{Name: name, Priv: k, Addr: sdk.AccAddress(k.PubKey().Address())}
}

// Parties is the fixed cast of a history. Everything is derived from constants, so every replica and
// every run builds byte-identical genesis documents.
type Parties struct {
	Users     []Party // ordinary users
	Oracles   []Party
	Deputy    Party
	ValOps    []Party // validator operators (self delegators)
	ValCons   []cryptotypes.PrivKey
	AssetOwner Party // owner of the issuance asset
}

const (
	NUsers   = 8
	NOracles = 3
	NVals    = 2
)

func MakeParties() *Parties {
	sdkConfig()
	p := &Parties{Deputy: mkParty("deputy"), AssetOwner: mkParty("asset-owner")}
	for i := 0; i < NUsers; i++ {
		p.Users = append(p.Users, mkParty(fmt.Sprintf("user-%d", i)))
	}
	for i := 0; i < NOracles; i++ {
		p.Oracles = append(p.Oracles, mkParty(fmt.Sprintf("oracle-%d", i)))
	}
	for i := 0; i < NVals; i++ {
		p.ValOps = append(p.ValOps, mkParty(fmt.Sprintf("valop-%d", i)))
		h := sha256.Sum256([]byte(fmt.Sprintf("kava-verif-cons/%d", i)))
		p.ValCons = append(p.ValCons, ed25519.GenPrivKeyFromSecret(h[:]))
	}
	return p
}

func (p *Parties) All() []Party {
	var out []Party
	out = append(out, p.Users...)
	out = append(out, p.Oracles...)
	out = append(out, p.Deputy, p.AssetOwner)
	out = append(out, p.ValOps...)
	return out
}

func (p *Parties) ValAddr(i int) sdk.ValAddress { return sdk.ValAddress(p.ValOps[i].Addr) }
func (p *Parties) ConsAddr(i int) sdk.ConsAddress {
	return sdk.ConsAddress(p.ValCons[i].PubKey().Address())
}

// ---------------------------------------------------------------- genesis configuration

// Config selects the parameterisation of a history's genesis.
type Config struct {
	// LiquidationInterval is cdp's LiquidationBlockInterval.
	LiquidationInterval int64
	// RewardInAssetDenom pays hard-supply rewards partly in the issuance asset (configuration of the F10 scenario).
	RewardInAssetDenom bool
	// KavadistActive switches x/kavadist minting on.
	KavadistActive bool
	// KavadistInfra adds an infrastructure period with partner/core rewards to x/kavadist.
	KavadistInfra bool
	// KavadistPartnerRps is the partner reward per second in ukava (0 = 2).
	KavadistPartnerRps int64
	// CommitteeDuration is the voting period of the member committee.
	CommitteeDuration time.Duration
	// GovVotingPeriod is the x/gov voting period.
	GovVotingPeriod time.Duration
	// AuctionDuration is the maximum auction duration / bid extension.
	AuctionDuration time.Duration
}

func DefaultConfig() Config {
	return Config{LiquidationInterval: 2, KavadistActive: true, CommitteeDuration: 6 * time.Hour,
		GovVotingPeriod: 8 * time.Hour, AuctionDuration: 4 * time.Hour}
}

const AssetDenom = "usdtoken"

// collateral / asset universe
var (
	// denom, decimals, initial price
	Assets = []struct {
		Denom  string
		Dec    int64
		Market string
		Price  string
	}{
		{"ukava", 6, "kava:usd", "2.0"},
		{"bnb", 8, "bnb:usd", "300.0"},
		{"btc", 8, "btc:usd", "30000.0"},
		{"xrp", 6, "xrp:usd", "0.5"},
		{"busd", 8, "busd:usd", "1.0"},
		{"usdx", 6, "usdx:usd", "1.0"},
	}
	CollateralTypes = []string{"bnb-a", "btc-a", "xrp-a", "busd-a", "ukava-a"}
	SwapPools       = [][2]string{{"bnb", "usdx"}, {"ukava", "usdx"}, {"btc", "usdx"}}
)

func d(s string) sdk.Dec     { return sdk.MustNewDecFromStr(s) }
func i(x int64) sdkmath.Int  { return sdkmath.NewInt(x) }
func c(denom string, x int64) sdk.Coin { return sdk.NewInt64Coin(denom, x) }

func pow10(n int64) sdkmath.Int { return sdkmath.NewIntWithDecimal(1, int(n)) }

// MarketIDs lists all pricefeed markets (spot and ":30" liquidation markets).
func MarketIDs() []string {
	var out []string
	for _, a := range Assets {
		out = append(out, a.Market)
		if a.Denom != "usdx" {
			out = append(out, a.Market+":30")
		}
	}
	return out
}

func marketOf(denom string) string {
	for _, a := range Assets {
		if a.Denom == denom {
			return a.Market
		}
	}
	return ""
}

// BuildGenesis returns the app-state JSON of a history.
func BuildGenesis(p *Parties, cfg Config) []byte {
	sdkConfig()
	enc := app.MakeEncodingConfig()
	cdc := enc.Marshaler
	gs := app.NewDefaultGenesisState()

	// ---- auth + bank
	var accs authtypes.GenesisAccounts
	var bals []banktypes.Balance
	userCoins := sdk.NewCoins(
		c("ukava", 5_000_000_000_000), c("bnb", 1_000_000_000_000_000), c("btc", 100_000_000_000_000),
		c("xrp", 10_000_000_000_000), c("busd", 1_000_000_000_000_000), c("usdx", 1_000_000_000_000),
		c("hard", 1_000_000_000_000), c("swp", 1_000_000_000_000),
	)
	for _, u := range p.All() {
		accs = append(accs, authtypes.NewBaseAccount(u.Addr, nil, 0, 0))
		bals = append(bals, banktypes.Balance{Address: u.Addr.String(), Coins: userCoins})
	}
	// module accounts that must be funded: incentive (rewards), kavadist is a minter
	incentiveFunds := sdk.NewCoins(c("hard", 1_000_000_000_000_000), c("swp", 1_000_000_000_000_000), c("ukava", 1_000_000_000_000_000))
	if cfg.RewardInAssetDenom {
		incentiveFunds = incentiveFunds.Add(c(AssetDenom, 1_000_000_000_000))
	}
	// incentive pays claims out of the kavadist module account
	bals = append(bals, banktypes.Balance{Address: authtypes.NewModuleAddress(kavadisttypes.KavaDistMacc).String(), Coins: incentiveFunds})

	// ---- staking: NVals bonded validators, each self-delegated by its operator
	bond := sdkmath.NewInt(1_000_000_000_000)
	var vals []stakingtypes.Validator
	var dels []stakingtypes.Delegation
	var signing []slashingtypes.SigningInfo
	bonded := sdk.ZeroInt()
	for k := 0; k < NVals; k++ {
		pkAny, err := codectypes.NewAnyWithValue(p.ValCons[k].PubKey())
		if err != nil {
			panic(err)
		}
		vals = append(vals, stakingtypes.Validator{
			OperatorAddress: p.ValAddr(k).String(), ConsensusPubkey: pkAny, Jailed: false, Status: stakingtypes.Bonded,
			Tokens: bond, DelegatorShares: sdk.NewDecFromInt(bond),
			Description:     stakingtypes.Description{Moniker: fmt.Sprintf("val-%d", k)},
			UnbondingHeight: 0, UnbondingTime: time.Unix(0, 0).UTC(),
			Commission:        stakingtypes.NewCommission(d("0.1"), d("0.2"), d("0.01")),
			MinSelfDelegation: sdk.OneInt(),
		})
		dels = append(dels, stakingtypes.NewDelegation(p.ValOps[k].Addr, p.ValAddr(k), sdk.NewDecFromInt(bond)))
		bonded = bonded.Add(bond)
		signing = append(signing, slashingtypes.SigningInfo{
			Address:              p.ConsAddr(k).String(),
			ValidatorSigningInfo: slashingtypes.NewValidatorSigningInfo(p.ConsAddr(k), 0, 0, time.Unix(0, 0).UTC(), false, 0),
		})
	}
	bals = append(bals, banktypes.Balance{Address: authtypes.NewModuleAddress(stakingtypes.BondedPoolName).String(), Coins: sdk.NewCoins(sdk.NewCoin("ukava", bonded))})
	stParams := stakingtypes.DefaultParams()
	stParams.BondDenom = "ukava"
	stParams.UnbondingTime = 3 * 24 * time.Hour
	stGen := stakingtypes.NewGenesisState(stParams, vals, dels)
	gs[stakingtypes.ModuleName] = cdc.MustMarshalJSON(stGen)

	slGen := slashingtypes.DefaultGenesisState()
	slGen.SigningInfos = signing
	gs[slashingtypes.ModuleName] = cdc.MustMarshalJSON(slGen)

	total := sdk.NewCoins()
	for _, b := range bals {
		total = total.Add(b.Coins...)
	}
	gs[authtypes.ModuleName] = cdc.MustMarshalJSON(authtypes.NewGenesisState(authtypes.DefaultParams(), accs))
	gs[banktypes.ModuleName] = cdc.MustMarshalJSON(banktypes.NewGenesisState(banktypes.DefaultParams(), bals, total, nil, nil))

	// ---- mint: small inflation in ukava so that fees/rewards flow through distribution
	mintGen := minttypes.DefaultGenesisState()
	mintGen.Params.MintDenom = "ukava"
	mintGen.Params.InflationMin = d("0.01")
	mintGen.Params.InflationMax = d("0.05")
	mintGen.Minter.Inflation = d("0.03")
	gs[minttypes.ModuleName] = cdc.MustMarshalJSON(mintGen)

	// ---- gov: short voting period
	govGen := govv1.DefaultGenesisState()
	vp := cfg.GovVotingPeriod
	govGen.Params.VotingPeriod = &vp
	md := 2 * cfg.GovVotingPeriod
	govGen.Params.MaxDepositPeriod = &md
	govGen.Params.MinDeposit = sdk.NewCoins(c("ukava", 1_000_000))
	gs[govtypes.ModuleName] = cdc.MustMarshalJSON(govGen)

	// ---- pricefeed
	var oracles []sdk.AccAddress
	for _, o := range p.Oracles {
		oracles = append(oracles, o.Addr)
	}
	var markets []pricefeedtypes.Market
	var posted []pricefeedtypes.PostedPrice
	for _, a := range Assets {
		ids := []string{a.Market}
		if a.Denom != "usdx" {
			ids = append(ids, a.Market+":30")
		}
		base := a.Denom
		if base == "ukava" {
			base = "kava"
		}
		for _, id := range ids {
			markets = append(markets, pricefeedtypes.Market{MarketID: id, BaseAsset: base, QuoteAsset: "usd", Oracles: oracles, Active: true})
			for _, o := range oracles {
				posted = append(posted, pricefeedtypes.PostedPrice{MarketID: id, OracleAddress: o, Price: d(a.Price), Expiry: GenTime.Add(2 * time.Hour)})
			}
		}
	}
	pfGen := pricefeedtypes.NewGenesisState(pricefeedtypes.NewParams(markets), posted)
	gs[pricefeedtypes.ModuleName] = cdc.MustMarshalJSON(&pfGen)

	// ---- cdp
	mkCP := func(denom, ctype, ratio, fee, penalty string, auctionSize, conv int64) cdptypes.CollateralParam {
		m := marketOf(denom)
		return cdptypes.NewCollateralParam(denom, ctype, d(ratio), c("usdx", 500_000_000_000_000), d(fee), i(auctionSize),
			d(penalty), m, m+":30", d("0.01"), i(10), i(conv))
	}
	cps := cdptypes.CollateralParams{
		mkCP("bnb", "bnb-a", "1.5", "1.000000001547125958", "0.05", 50_000_000_000, 8),
		mkCP("btc", "btc-a", "1.5", "1.000000000782997609", "0.025", 100_000_000, 8),
		mkCP("xrp", "xrp-a", "2.0", "1.000000001547125958", "0.05", 7_000_000_000, 6),
		mkCP("busd", "busd-a", "1.01", "1.0", "0.05", 10_000_000_000_000, 8),
		mkCP("ukava", "ukava-a", "2.0", "1.000000003022265980", "0.075", 5_000_000_000, 6),
	}
	cdpParams := cdptypes.NewParams(c("usdx", 5_000_000_000_000_000), cps, cdptypes.NewDebtParam("usdx", "usd", i(6), i(10_000_000)),
		i(50_000_000_000), i(10_000_000_000), i(20_000_000_000), i(10_000_000_000), false, cfg.LiquidationInterval)
	var accTimes cdptypes.GenesisAccumulationTimes
	var principals cdptypes.GenesisTotalPrincipals
	for _, cp := range cps {
		accTimes = append(accTimes, cdptypes.NewGenesisAccumulationTime(cp.Type, GenTime, sdk.OneDec()))
		principals = append(principals, cdptypes.NewGenesisTotalPrincipal(cp.Type, sdk.ZeroInt()))
	}
	cdpGen := cdptypes.NewGenesisState(cdpParams, cdptypes.CDPs{}, cdptypes.Deposits{}, cdptypes.DefaultCdpStartingID,
		cdptypes.DefaultDebtDenom, cdptypes.DefaultGovDenom, accTimes, principals)
	gs[cdptypes.ModuleName] = cdc.MustMarshalJSON(&cdpGen)

	// ---- auction
	aucGen, err := auctiontypes.NewGenesisState(auctiontypes.DefaultNextAuctionID,
		auctiontypes.NewParams(cfg.AuctionDuration, cfg.AuctionDuration/2, cfg.AuctionDuration/4, d("0.05"), d("0.05"), d("0.05")), nil)
	if err != nil {
		panic(err)
	}
	gs[auctiontypes.ModuleName] = cdc.MustMarshalJSON(aucGen)

	// ---- hard
	model := hardtypes.NewInterestRateModel(d("0.02"), d("0.1"), d("0.8"), d("1.0"))
	var mms hardtypes.MoneyMarkets
	for _, a := range Assets {
		ltv := "0.8"
		if a.Denom == "ukava" || a.Denom == "xrp" {
			ltv = "0.6"
		}
		mms = append(mms, hardtypes.NewMoneyMarket(a.Denom, hardtypes.NewBorrowLimit(false, sdk.ZeroDec(), d(ltv)), a.Market,
			pow10(a.Dec), model, d("0.05"), d("0.05")))
	}
	hardGen := hardtypes.NewGenesisState(hardtypes.NewParams(mms, d("10")), hardtypes.DefaultAccumulationTimes, hardtypes.DefaultDeposits,
		hardtypes.DefaultBorrows, hardtypes.DefaultTotalSupplied, hardtypes.DefaultTotalBorrowed, hardtypes.DefaultTotalReserves)
	gs[hardtypes.ModuleName] = cdc.MustMarshalJSON(&hardGen)

	// ---- swap
	var pools swaptypes.AllowedPools
	for _, sp := range SwapPools {
		pools = append(pools, swaptypes.NewAllowedPool(sp[0], sp[1]))
	}
	swapGen := swaptypes.NewGenesisState(swaptypes.NewParams(pools, d("0.003")), swaptypes.DefaultPoolRecords, swaptypes.DefaultShareRecords)
	gs[swaptypes.ModuleName] = cdc.MustMarshalJSON(&swapGen)

	// ---- savings + earn (bkava enabled)
	savGen := savingstypes.NewGenesisState(savingstypes.NewParams([]string{"ukava", "usdx", "bkava"}), nil)
	gs[savingstypes.ModuleName] = cdc.MustMarshalJSON(&savGen)
	earnGen := earntypes.NewGenesisState(earntypes.NewParams(earntypes.AllowedVaults{
		earntypes.NewAllowedVault("usdx", earntypes.StrategyTypes{earntypes.STRATEGY_TYPE_HARD}, false, nil),
		earntypes.NewAllowedVault("bkava", earntypes.StrategyTypes{earntypes.STRATEGY_TYPE_SAVINGS}, false, nil),
	}), earntypes.VaultRecords{}, earntypes.VaultShareRecords{})
	gs[earntypes.ModuleName] = cdc.MustMarshalJSON(&earnGen)

	// ---- bep3
	bep3Asset := func(denom string, coinID int64, timeLimited bool) bep3types.AssetParam {
		return bep3types.NewAssetParam(denom, coinID, bep3types.SupplyLimit{Limit: i(350_000_000_000_000), TimeLimited: timeLimited,
			TimeBasedLimit: i(50_000_000_000_000), TimePeriod: time.Hour}, true, p.Deputy.Addr, i(1000), sdk.OneInt(), i(1_000_000_000_000),
			5, 40)
	}
	zero := func(denom string) sdk.Coin { return sdk.NewCoin(denom, sdk.ZeroInt()) }
	bep3Gen := bep3types.NewGenesisState(bep3types.NewParams([]bep3types.AssetParam{bep3Asset("bnb", 714, false), bep3Asset("xrp", 144, true)}),
		bep3types.AtomicSwaps{}, bep3types.AssetSupplies{
			bep3types.NewAssetSupply(zero("bnb"), zero("bnb"), zero("bnb"), zero("bnb"), 0),
			bep3types.NewAssetSupply(zero("xrp"), zero("xrp"), zero("xrp"), zero("xrp"), 0),
		}, GenTime)
	gs[bep3types.ModuleName] = cdc.MustMarshalJSON(&bep3Gen)

	// ---- issuance: one blockable, rate-limited asset
	issGen := issuancetypes.NewGenesisState(issuancetypes.NewParams([]issuancetypes.Asset{
		issuancetypes.NewAsset(p.AssetOwner.Addr.String(), AssetDenom, nil, false, true, issuancetypes.NewRateLimit(true, i(1_000_000_000_000_000), 24*time.Hour)),
	}), []issuancetypes.AssetSupply{issuancetypes.NewAssetSupply(zero(AssetDenom), time.Hour)})
	gs[issuancetypes.ModuleName] = cdc.MustMarshalJSON(&issGen)

	// ---- kavadist
	var infraPeriods kavadisttypes.Periods
	partnerRps := cfg.KavadistPartnerRps
	if partnerRps == 0 {
		partnerRps = 2
	}
	if cfg.KavadistInfra {
		infraPeriods = kavadisttypes.Periods{kavadisttypes.NewPeriod(GenTime, GenTime.Add(2*365*24*time.Hour), d("1.000000000782997609"))}
	}
	kdParams := kavadisttypes.NewParams(cfg.KavadistActive, []kavadisttypes.Period{
		kavadisttypes.NewPeriod(GenTime, GenTime.Add(2*365*24*time.Hour), d("1.000000001547125958")),
	}, kavadisttypes.NewInfraParams(infraPeriods, kavadisttypes.PartnerRewards{kavadisttypes.NewPartnerReward(p.Users[7].Addr, c("ukava", partnerRps))},
		kavadisttypes.CoreRewards{kavadisttypes.NewCoreReward(p.Users[6].Addr, d("1.0"))}))
	gs[kavadisttypes.ModuleName] = cdc.MustMarshalJSON(kavadisttypes.NewGenesisState(kdParams, GenTime))

	// ---- incentive
	end := GenTime.Add(4 * 365 * 24 * time.Hour)
	mrp := func(ctype string, coins ...sdk.Coin) incentivetypes.MultiRewardPeriod {
		return incentivetypes.NewMultiRewardPeriod(true, ctype, GenTime, end, sdk.NewCoins(coins...))
	}
	bnbSupplyReward := []sdk.Coin{c("hard", 1000)}
	if cfg.RewardInAssetDenom {
		bnbSupplyReward = append(bnbSupplyReward, c(AssetDenom, 5000))
	}
	incParams := incentivetypes.Params{
		USDXMintingRewardPeriods: incentivetypes.RewardPeriods{
			incentivetypes.NewRewardPeriod(true, "bnb-a", GenTime, end, c("ukava", 1000)),
			incentivetypes.NewRewardPeriod(true, "btc-a", GenTime, end, c("ukava", 700)),
		},
		HardSupplyRewardPeriods: incentivetypes.MultiRewardPeriods{mrp("bnb", bnbSupplyReward...), mrp("usdx", c("hard", 500), c("ukava", 100))},
		HardBorrowRewardPeriods: incentivetypes.MultiRewardPeriods{mrp("usdx", c("hard", 800)), mrp("bnb", c("hard", 300))},
		DelegatorRewardPeriods:  incentivetypes.MultiRewardPeriods{mrp("ukava", c("hard", 900), c("swp", 100))},
		SwapRewardPeriods:       incentivetypes.MultiRewardPeriods{mrp("bnb:usdx", c("swp", 1200)), mrp("ukava:usdx", c("swp", 600))},
		SavingsRewardPeriods:    incentivetypes.MultiRewardPeriods{mrp("ukava", c("hard", 200))},
		EarnRewardPeriods:       incentivetypes.MultiRewardPeriods{mrp("usdx", c("hard", 300)), mrp("bkava", c("ukava", 400))},
		ClaimMultipliers: incentivetypes.MultipliersPerDenoms{
			{Denom: "hard", Multipliers: incentivetypes.Multipliers{incentivetypes.NewMultiplier("small", 1, d("0.25")), incentivetypes.NewMultiplier("large", 12, d("1.0"))}},
			{Denom: "swp", Multipliers: incentivetypes.Multipliers{incentivetypes.NewMultiplier("small", 1, d("0.25")), incentivetypes.NewMultiplier("large", 12, d("1.0"))}},
			{Denom: "ukava", Multipliers: incentivetypes.Multipliers{incentivetypes.NewMultiplier("small", 0, d("0.2")), incentivetypes.NewMultiplier("large", 12, d("1.0"))}},
			{Denom: AssetDenom, Multipliers: incentivetypes.Multipliers{incentivetypes.NewMultiplier("small", 1, d("0.25")), incentivetypes.NewMultiplier("large", 12, d("1.0"))}},
		},
		ClaimEnd: end,
	}
	incGen := incentivetypes.NewGenesisState(incParams,
		incentivetypes.DefaultGenesisRewardState, incentivetypes.DefaultGenesisRewardState, incentivetypes.DefaultGenesisRewardState,
		incentivetypes.DefaultGenesisRewardState, incentivetypes.DefaultGenesisRewardState, incentivetypes.DefaultGenesisRewardState,
		incentivetypes.DefaultGenesisRewardState,
		incentivetypes.DefaultUSDXClaims, incentivetypes.DefaultHardClaims, incentivetypes.DefaultDelegatorClaims,
		incentivetypes.DefaultSwapClaims, incentivetypes.DefaultSavingsClaims, incentivetypes.DefaultEarnClaims)
	gs[incentivetypes.ModuleName] = cdc.MustMarshalJSON(&incGen)

	// ---- committee: a member committee (users 0..2) that may change selected cdp / hard params and pass text proposals
	members := []sdk.AccAddress{p.Users[0].Addr, p.Users[1].Addr, p.Users[2].Addr}
	var reqs []committeetypes.SubparamRequirement
	for _, cp := range cps {
		reqs = append(reqs, committeetypes.SubparamRequirement{Key: "type", Val: cp.Type, AllowedSubparamAttrChanges: []string{"debt_limit", "stability_fee", "auction_size"}})
	}
	perms := []committeetypes.Permission{
		&committeetypes.TextPermission{},
		&committeetypes.ParamsChangePermission{AllowedParamsChanges: committeetypes.AllowedParamsChanges{
			{Subspace: cdptypes.ModuleName, Key: string(cdptypes.KeyCollateralParams), MultiSubparamsRequirements: reqs},
			{Subspace: cdptypes.ModuleName, Key: string(cdptypes.KeyDebtThreshold)},
			{Subspace: cdptypes.ModuleName, Key: string(cdptypes.KeyDebtParam), SingleSubparamAllowedAttrs: []string{"debt_floor"}},
		}},
	}
	com, err := committeetypes.NewMemberCommittee(1, "stability committee", members, perms, d("0.5"), cfg.CommitteeDuration, committeetypes.TALLY_OPTION_FIRST_PAST_THE_POST)
	if err != nil {
		panic(err)
	}
	tokCom, err := committeetypes.NewTokenCommittee(2, "hard holders", members, []committeetypes.Permission{&committeetypes.TextPermission{}},
		d("0.5"), cfg.CommitteeDuration, committeetypes.TALLY_OPTION_DEADLINE, d("0.000001"), "hard")
	if err != nil {
		panic(err)
	}
	comGen := committeetypes.NewGenesisState(committeetypes.DefaultNextProposalID, []committeetypes.Committee{com, tokCom}, committeetypes.Proposals{}, []committeetypes.Vote{})
	gs[committeetypes.ModuleName] = cdc.MustMarshalJSON(comGen)

	bz, err := json.Marshal(gs)
	if err != nil {
		panic(err)
	}
	return bz
}

// ---------------------------------------------------------------- node

// Node is one replica: the real app on its own database.
type Node struct {
	T      app.TestApp
	DB     dbm.DB
	Height int64 // last committed height
	Dir    string
	Name   string
}

func consensusParams() *tmproto.ConsensusParams {
	return &tmproto.ConsensusParams{
		Block:     &tmproto.BlockParams{MaxBytes: 2_000_000, MaxGas: 100_000_000},
		Evidence:  &tmproto.EvidenceParams{MaxAgeNumBlocks: 302400, MaxAgeDuration: 504 * time.Hour, MaxBytes: 10000},
		Validator: &tmproto.ValidatorParams{PubKeyTypes: []string{"ed25519"}},
	}
}

func newAppOn(db dbm.DB) app.TestApp {
	sdkConfig()
	enc := app.MakeEncodingConfig()
	a := app.NewApp(log.NewNopLogger(), db, app.DefaultNodeHome, nil, enc, app.DefaultOptions, baseapp.SetChainID(ChainID))
	return app.TestApp{App: *a}
}

// NewMemNode creates a replica on an in-memory database.
func NewMemNode(name string) *Node {
	db := dbm.NewMemDB()
	return &Node{T: newAppOn(db), DB: db, Name: name}
}

// NewDiskNode creates a replica on a goleveldb database under dir.
func NewDiskNode(name, dir string) (*Node, error) {
	db, err := dbm.NewGoLevelDB("application", dir)
	if err != nil {
		return nil, err
	}
	return &Node{T: newAppOn(db), DB: db, Dir: dir, Name: name}, nil
}

// Reopen closes the node's on-disk database and loads the app again from what was committed.
func (n *Node) Reopen() error {
	if n.Dir == "" {
		return fmt.Errorf("not a disk node")
	}
	if err := n.DB.Close(); err != nil {
		return err
	}
	db, err := dbm.NewGoLevelDB("application", n.Dir)
	if err != nil {
		return err
	}
	n.DB = db
	n.T = newAppOn(db)
	if got := n.T.LastBlockHeight(); got != n.Height {
		return fmt.Errorf("reopened at height %d, committed height was %d", got, n.Height)
	}
	return nil
}

func (n *Node) Close() {
	if n.DB != nil {
		n.DB.Close()
	}
}

// InitChain runs InitChain with the given app state. A panic (genesis rejected) is returned as error.
func (n *Node) InitChain(appState []byte, genTime time.Time, initialHeight int64) (err error) {
	defer func() {
		if r := recover(); r != nil {
			err = fmt.Errorf("InitChain panic: %v", r)
		}
	}()
	n.T.InitChain(abci.RequestInitChain{
		Time: genTime, ChainId: ChainID, ConsensusParams: consensusParams(),
		Validators: []abci.ValidatorUpdate{}, AppStateBytes: appState, InitialHeight: initialHeight,
	})
	n.Height = initialHeight - 1
	return nil
}

// Ctx returns a context on the node's deliver state (valid between BeginBlock and Commit, and after InitChain).
func (n *Node) Ctx(h tmproto.Header) sdk.Context { return n.T.NewContext(false, h) }

// CommittedCtx returns a read-only context on the last committed state.
func (n *Node) CommittedCtx(t time.Time) sdk.Context {
	return n.T.NewContext(true, tmproto.Header{Height: n.Height, Time: t, ChainID: ChainID})
}
