package history

import (
	"fmt"
	"time"

	sdkmath "cosmossdk.io/math"
	sdk "github.com/cosmos/cosmos-sdk/types"
	govv1 "github.com/cosmos/cosmos-sdk/x/gov/types/v1"
	paramsproposal "github.com/cosmos/cosmos-sdk/x/params/types/proposal"
	stakingtypes "github.com/cosmos/cosmos-sdk/x/staking/types"

	cdptypes "github.com/kava-labs/kava/x/cdp/types"
	committeetypes "github.com/kava-labs/kava/x/committee/types"
	earntypes "github.com/kava-labs/kava/x/earn/types"
	hardtypes "github.com/kava-labs/kava/x/hard/types"
	incentivetypes "github.com/kava-labs/kava/x/incentive/types"
	issuancetypes "github.com/kava-labs/kava/x/issuance/types"
	liquidtypes "github.com/kava-labs/kava/x/liquid/types"
	savingstypes "github.com/kava-labs/kava/x/savings/types"
)

// fixed returns a generator that ignores the state.
func fixed(spec *TxSpec) genFn { return func(sdk.Context) *TxSpec { return spec } }

func coins(cs ...sdk.Coin) sdk.Coins { return sdk.NewCoins(cs...) }

// prices returns generators for a full oracle round on one asset.
func (g *Gen) pricesTo(denom string, permille int64) []genFn {
	var out []genFn
	n := len(g.P.Oracles) * 2
	if denom == "usdx" {
		n = len(g.P.Oracles)
	}
	for k := 0; k < n; k++ {
		k := k
		out = append(out, func(ctx sdk.Context) *TxSpec {
			specs := g.priceRound(ctx, denom, permille, 60*24*time.Hour)
			if k < len(specs) {
				return specs[k]
			}
			return nil
		})
	}
	return out
}

// priceRound computes the new price from the current one at generation time; within one block the
// current price does not change (it is set in EndBlock), so all oracles post the same target.

func script(blocks ...func(g *Gen) *ScriptBlock) Script {
	return func(g *Gen, k int) *ScriptBlock {
		if k >= len(blocks) {
			return nil
		}
		return blocks[k](g)
	}
}

func blk(gap time.Duration, mk func(g *Gen) []genFn) func(g *Gen) *ScriptBlock {
	return func(g *Gen) *ScriptBlock { return &ScriptBlock{Gap: gap, Txs: mk(g)} }
}

const sixS = 6 * time.Second

// ScenarioHardMultiDenom: a borrower with three deposit denominations and three borrow denominations
// is liquidated by a keeper after a price drop (ValuationMap.Sum / GetSortedKeys / removeDuplicates),
// the resulting collateral auctions receive bids and close.
func ScenarioHardMultiDenom() Script {
	return script(
		blk(sixS, func(g *Gen) []genFn {
			u := g.P.Users
			dep := func(p Party, cs sdk.Coins) genFn {
				m := hardtypes.NewMsgDeposit(p.Addr, cs)
				return fixed(one("hard.deposit", p, &m, cs.String()))
			}
			return []genFn{
				dep(u[0], coins(c("bnb", 10_00000000), c("btc", 1_0000000), c("xrp", 2000_000000))),
				dep(u[1], coins(c("usdx", 50_000_000000), c("busd", 50_000_00000000), c("ukava", 20_000_000000))),
				dep(u[2], coins(c("usdx", 10_000_000000), c("bnb", 5_00000000))),
			}
		}),
		blk(sixS, func(g *Gen) []genFn {
			u := g.P.Users
			// deposits are worth 3000 + 3000 + 1000 usd; limit 0.8*6000 + 0.6*1000 = 5400 usd
			m := hardtypes.NewMsgBorrow(u[0].Addr, coins(c("usdx", 2500_000000), c("busd", 2000_00000000), c("ukava", 400_000000)))
			m2 := hardtypes.NewMsgBorrow(u[2].Addr, coins(c("busd", 100_00000000)))
			return []genFn{fixed(one("hard.borrow", u[0], &m, "3 denoms")), fixed(one("hard.borrow", u[2], &m2, ""))}
		}),
		blk(time.Hour, func(g *Gen) []genFn { return append(g.pricesTo("bnb", 600), g.pricesTo("btc", 650)...) }),
		blk(sixS, func(g *Gen) []genFn {
			u := g.P.Users
			m := hardtypes.NewMsgLiquidate(u[3].Addr, u[0].Addr)
			return []genFn{fixed(one("hard.liquidate", u[3], &m, "user-0")), g.auctionBid, g.auctionBid}
		}),
		blk(sixS, func(g *Gen) []genFn { return []genFn{g.auctionBid, g.auctionBid, g.auctionBid, g.auctionBid} }),
		blk(time.Hour, func(g *Gen) []genFn { return []genFn{g.auctionBid, g.auctionBid, g.hardRepay, g.hardWithdraw} }),
		blk(5*time.Hour, func(g *Gen) []genFn { return []genFn{g.incentiveClaim} }),
		blk(sixS, func(g *Gen) []genFn { return nil }),
	)
}

// ScenarioGovTallyBkava: several holders of liquid-staking derivatives of both validators (in wallet,
// savings and earn) and both validators vote on a gov proposal; the tally runs in the gov end blocker.
func ScenarioGovTallyBkava(votingPeriod time.Duration) Script {
	return script(
		blk(sixS, func(g *Gen) []genFn {
			var out []genFn
			for k := 0; k < 5; k++ {
				u := g.P.Users[k]
				for v := 0; v < NVals; v++ {
					m := stakingtypes.NewMsgDelegate(u.Addr, g.P.ValAddr(v), c("ukava", int64(1000+k*37+v)*1_000_000))
					out = append(out, fixed(one("staking.delegate", u, m, fmt.Sprintf("val%d", v))))
				}
			}
			return out
		}),
		blk(sixS, func(g *Gen) []genFn {
			var out []genFn
			for k := 0; k < 4; k++ {
				u := g.P.Users[k]
				for v := 0; v < NVals; v++ {
					m := liquidtypes.NewMsgMintDerivative(u.Addr, g.P.ValAddr(v), c("ukava", int64(500+k*11+v*3)*1_000_000))
					out = append(out, fixed(one("liquid.mint", u, &m, fmt.Sprintf("val%d", v))))
				}
			}
			return out
		}),
		blk(sixS, func(g *Gen) []genFn {
			var out []genFn
			// user0: wallet only; user1: savings; user2: earn; user3: both
			for v := 0; v < NVals; v++ {
				dn := g.bkavaDenom(v)
				m1 := savingstypes.NewMsgDeposit(g.P.Users[1].Addr, coins(c(dn, 200_000_000)))
				m2 := earntypes.NewMsgDeposit(g.P.Users[2].Addr.String(), c(dn, 300_000_000), earntypes.STRATEGY_TYPE_SAVINGS)
				m3 := savingstypes.NewMsgDeposit(g.P.Users[3].Addr, coins(c(dn, 100_000_000)))
				m4 := earntypes.NewMsgDeposit(g.P.Users[3].Addr.String(), c(dn, 150_000_000), earntypes.STRATEGY_TYPE_SAVINGS)
				out = append(out, fixed(one("savings.deposit", g.P.Users[1], &m1, dn)), fixed(one("earn.deposit", g.P.Users[2], m2, dn)),
					fixed(one("savings.deposit", g.P.Users[3], &m3, dn)), fixed(one("earn.deposit", g.P.Users[3], m4, dn)))
			}
			return out
		}),
		blk(sixS, func(g *Gen) []genFn {
			u := g.P.Users[4]
			m, err := govv1.NewMsgSubmitProposal(nil, coins(c("ukava", 1_000_000)), u.Addr.String(), "ipfs://kava-verif", "signal", "tally with bkava voters")
			if err != nil {
				panic(err)
			}
			return []genFn{fixed(one("gov.submit", u, m, ""))}
		}),
		blk(sixS, func(g *Gen) []genFn {
			var out []genFn
			opts := []govv1.VoteOption{govv1.OptionYes, govv1.OptionNo, govv1.OptionYes, govv1.OptionAbstain, govv1.OptionYes}
			for k := 0; k < 5; k++ {
				out = append(out, fixed(one("gov.vote", g.P.Users[k], govv1.NewMsgVote(g.P.Users[k].Addr, 1, opts[k], ""), "")))
			}
			for v := 0; v < NVals; v++ {
				w := govv1.NewMsgVoteWeighted(g.P.ValOps[v].Addr, 1, govv1.WeightedVoteOptions{{Option: govv1.OptionYes, Weight: "0.6"}, {Option: govv1.OptionNoWithVeto, Weight: "0.4"}}, "")
				out = append(out, fixed(one("gov.voteWeighted", g.P.ValOps[v], w, "")))
			}
			return out
		}),
		blk(votingPeriod+time.Minute, func(g *Gen) []genFn { return []genFn{g.incentiveClaim} }),
		blk(sixS, func(g *Gen) []genFn { return []genFn{g.incentiveClaim, g.earnWithdraw, g.savingsWithdraw} }),
	)
}

// ScenarioCommitteeParamChange: a multi-record parameter change (cdp CollateralParams) is proposed,
// voted and enacted by the committee begin blocker; a forbidden change is refused.
func ScenarioCommitteeParamChange() Script {
	submit := func(g *Gen, forbidden bool) genFn {
		return func(ctx sdk.Context) *TxSpec {
			cps := g.N.T.GetCDPKeeper().GetParams(ctx).CollateralParams
			cp2 := make(cdptypes.CollateralParams, len(cps))
			copy(cp2, cps)
			for k := range cp2 {
				cp2[k].AuctionSize = cp2[k].AuctionSize.AddRaw(int64(k + 1))
				cp2[k].DebtLimit = sdk.NewCoin("usdx", cp2[k].DebtLimit.Amount.SubRaw(int64(k+1)*1_000_000))
			}
			if forbidden {
				cp2[1].LiquidationPenalty = d("0.5")
			}
			bz, err := g.N.T.LegacyAmino().MarshalJSON(cp2)
			if err != nil {
				panic(err)
			}
			pub := paramsproposal.NewParameterChangeProposal("collateral params", "change", []paramsproposal.ParamChange{
				paramsproposal.NewParamChange(cdptypes.ModuleName, string(cdptypes.KeyCollateralParams), string(bz)),
				paramsproposal.NewParamChange(cdptypes.ModuleName, string(cdptypes.KeyDebtParam),
					`{"denom":"usdx","reference_asset":"usd","conversion_factor":"6","debt_floor":"20000000"}`),
			})
			m, err := committeetypes.NewMsgSubmitProposal(pub, g.P.Users[0].Addr, 1)
			if err != nil {
				panic(err)
			}
			return one("committee.submit", g.P.Users[0], m, fmt.Sprintf("forbidden=%v", forbidden))
		}
	}
	return script(
		blk(sixS, func(g *Gen) []genFn { return []genFn{submit(g, false), submit(g, true)} }),
		blk(sixS, func(g *Gen) []genFn {
			return []genFn{
				fixed(one("committee.vote", g.P.Users[0], committeetypes.NewMsgVote(g.P.Users[0].Addr, 1, committeetypes.VOTE_TYPE_YES), "#1")),
				fixed(one("committee.vote", g.P.Users[1], committeetypes.NewMsgVote(g.P.Users[1].Addr, 1, committeetypes.VOTE_TYPE_YES), "#1")),
			}
		}),
		blk(sixS, func(g *Gen) []genFn { return []genFn{g.cdpCreate, g.cdpCreate} }),
		blk(sixS, func(g *Gen) []genFn { return []genFn{g.committeeSubmit, g.committeeVote} }),
	)
}

// ScenarioF2: DESIGN §7.3 F2 — a CDP with two equal deposits and a total debt of 10000003 is liquidated
// by the cdp begin blocker after a price drop. Before the fix bfd342e03 the per-deposit debt shares rounded
// up to debt + 1 and the begin blocker panicked; the scenario must now run through (any begin-block panic is
// reported as a violation by the C02 harness), and the liquidation must really have happened (checked by
// the harness: the cdp is gone and collateral auctions exist).
func ScenarioF2() Script {
	return script(
		blk(sixS, func(g *Gen) []genFn {
			u := g.P.Users
			// bnb at 300 usd: 0.06 bnb = 18 usd → ratio 1.8 at creation, 3.6 after the second (equal) deposit
			m := cdptypes.NewMsgCreateCDP(u[0].Addr, c("bnb", 6_000_000), c("usdx", 10_000_003), "bnb-a")
			m2 := cdptypes.NewMsgDeposit(u[0].Addr, u[1].Addr, c("bnb", 6_000_000), "bnb-a")
			return []genFn{fixed(one("cdp.create", u[0], &m, "debt 10000003")), fixed(one("cdp.deposit", u[1], &m2, "equal deposit"))}
		}),
		blk(sixS, func(g *Gen) []genFn { return g.pricesTo("bnb", 400) }), // 36 usd → 14.4 usd: ratio 1.44 < 1.5
		blk(sixS, func(g *Gen) []genFn { return nil }),
		blk(sixS, func(g *Gen) []genFn { return nil }),
		blk(sixS, func(g *Gen) []genFn { return nil }),
	)
}

// ScenarioF10: DESIGN §7.3 F10 — a user supplies bnb to hard, claims the reward paid in the issuance asset
// with the 12-month multiplier (the account becomes a periodic vesting account holding locked asset
// coins), the asset owner blocks the user, and the issuance begin blocker tries to seize the balance.
// Needs Config.RewardInAssetDenom.
func ScenarioF10() Script {
	return script(
		blk(sixS, func(g *Gen) []genFn {
			u := g.P.Users[0]
			m := hardtypes.NewMsgDeposit(u.Addr, coins(c("bnb", 10_00000000)))
			return []genFn{fixed(one("hard.deposit", u, &m, ""))}
		}),
		blk(time.Hour, func(g *Gen) []genFn { return nil }),
		blk(sixS, func(g *Gen) []genFn {
			u := g.P.Users[0]
			m := incentivetypes.NewMsgClaimHardReward(u.Addr.String(), incentivetypes.Selections{incentivetypes.NewSelection(AssetDenom, "large")})
			return []genFn{fixed(one("incentive.claimHard", u, &m, "usdtoken large"))}
		}),
		blk(sixS, func(g *Gen) []genFn {
			o := g.P.AssetOwner
			m := issuancetypes.NewMsgBlockAddress(o.Addr.String(), AssetDenom, g.P.Users[0].Addr.String())
			return []genFn{fixed(one("issuance.block", o, m, "user-0"))}
		}),
		blk(sixS, func(g *Gen) []genFn { return nil }),
		blk(sixS, func(g *Gen) []genFn { return nil }),
	)
}

// ScenarioSubSecond: two blocks inside the same Unix second (0.4 s apart) with x/kavadist infrastructure
// periods active. Needs Config.KavadistInfra.
func ScenarioSubSecond() Script {
	return script(
		blk(sixS, func(g *Gen) []genFn { return []genFn{g.bankSend} }),
		blk(400*time.Millisecond, func(g *Gen) []genFn { return []genFn{g.bankSend} }),
		blk(400*time.Millisecond, func(g *Gen) []genFn { return []genFn{g.bankSend} }),
		blk(sixS, func(g *Gen) []genFn { return nil }),
	)
}

// ScenarioPartnerRewards: DESIGN §7.3 F11 — x/kavadist with partner rewards per second larger than what an
// infrastructure period mints per second (a configuration that passes params validation).
// Needs Config.KavadistInfra and a large Config.KavadistPartnerRps.
func ScenarioPartnerRewards() Script {
	return script(
		blk(sixS, func(g *Gen) []genFn { return []genFn{g.bankSend} }),
		blk(sixS, func(g *Gen) []genFn { return []genFn{g.bankSend} }),
		blk(time.Hour, func(g *Gen) []genFn { return nil }),
	)
}

// ScenarioCdpFeesAccrued: CDPs of several collateral types stay open over hours and days while stability fees
// accrue (some are touched again so that accumulated fees are written to the record, others are only
// synchronised by the export itself). Used by C14: the export then carries CDPs with AccumulatedFees > 0.
func ScenarioCdpFeesAccrued() Script {
	open := func(g *Gen, k int, denom, ctype string, coll, prin int64) genFn {
		u := g.P.Users[k]
		m := cdptypes.NewMsgCreateCDP(u.Addr, c(denom, coll), c("usdx", prin), ctype)
		return fixed(one("cdp.create", u, &m, ctype))
	}
	return script(
		blk(sixS, func(g *Gen) []genFn {
			return []genFn{
				open(g, 0, "bnb", "bnb-a", 10_00000000, 1000_000000), open(g, 1, "bnb", "bnb-a", 5_00000000, 400_000000),
				open(g, 2, "xrp", "xrp-a", 10000_000000, 1000_000000), open(g, 3, "btc", "btc-a", 1_0000000, 1500_000000),
				open(g, 4, "ukava", "ukava-a", 2000_000000, 500_000000),
			}
		}),
		blk(6*time.Hour, func(g *Gen) []genFn { return nil }),
		blk(24*time.Hour, func(g *Gen) []genFn {
			u := g.P.Users[0]
			m := cdptypes.NewMsgDrawDebt(u.Addr, "bnb-a", c("usdx", 3_000_000))
			m2 := cdptypes.NewMsgDeposit(g.P.Users[2].Addr, g.P.Users[5].Addr, c("xrp", 7_000000), "xrp-a")
			return append([]genFn{fixed(one("cdp.draw", u, &m, "")), fixed(one("cdp.deposit", g.P.Users[5], &m2, ""))}, g.pricesTo("bnb", 1000)...)
		}),
		blk(3*24*time.Hour, func(g *Gen) []genFn {
			return append(append(g.pricesTo("xrp", 1000), g.pricesTo("btc", 1000)...), g.pricesTo("ukava", 1000)...)
		}),
		blk(time.Hour, func(g *Gen) []genFn { return g.pricesTo("bnb", 1000) }),
	)
}

// ScenarioBasicInvalidAfterRestart: block 3 carries a transaction whose message fails ValidateBasic (a cdp
// deposit of 0). baseapp rejects it before the ante handler and reports, as its gas used, the gas accumulated on
// the block context — which differs on a node re-opened from its database after block 2 (the capability
// module re-initialises its memory store in that block). See findings/C01-restart-gas-invalid-tx.md.
func ScenarioBasicInvalidAfterRestart() Script {
	return script(
		blk(sixS, func(g *Gen) []genFn {
			u := g.P.Users[0]
			m := cdptypes.NewMsgCreateCDP(u.Addr, c("bnb", 10_00000000), c("usdx", 100_000000), "bnb-a")
			return []genFn{fixed(one("cdp.create", u, &m, "")), g.bankSend}
		}),
		blk(sixS, func(g *Gen) []genFn { return []genFn{g.bankSend} }),
		blk(sixS, func(g *Gen) []genFn {
			u := g.P.Users[0]
			m := cdptypes.NewMsgDeposit(u.Addr, u.Addr, c("bnb", 0), "bnb-a")
			return []genFn{g.bankSend, fixed(one("cdp.deposit", u, &m, "0bnb (fails ValidateBasic)")), g.bankSend}
		}),
		blk(sixS, func(g *Gen) []genFn { return []genFn{g.bankSend} }),
	)
}

// ScenarioEveryModuleAroundRestart: block 1 and 2 use every module once (warming whatever a keeper might
// remember outside the store), the replica under test is restarted after block 2, and blocks 3 and 4 use every
// module again: a node that kept running and a node re-opened from its database must report the same code, gas
// and events for every one of those transactions.
func ScenarioEveryModuleAroundRestart() Script {
	all := func(g *Gen) []genFn {
		return []genFn{g.stakingDelegate, g.hardDeposit, g.swapDeposit, g.cdpCreate, g.savingsDeposit, g.earnDeposit,
			g.bep3Create, g.committeeSubmit, g.issuance, g.communityFund, g.bankSend, g.hardBorrow, g.swapTrade, g.cdpDraw,
			g.liquidMint, g.liquidBurn, g.earnWithdraw, g.savingsWithdraw, g.incentiveClaim, g.govSubmit, g.auctionBid}
	}
	mint := func(g *Gen, k int, amt int64) genFn {
		u := g.P.Users[k]
		m := liquidtypes.NewMsgMintDerivative(u.Addr, g.P.ValAddr(0), c("ukava", amt))
		return fixed(one("liquid.mint", u, &m, "val0"))
	}
	return script(
		blk(sixS, func(g *Gen) []genFn {
			var out []genFn
			for k := 0; k < 4; k++ {
				u := g.P.Users[k]
				m := stakingtypes.NewMsgDelegate(u.Addr, g.P.ValAddr(0), c("ukava", int64(900+k*13)*1_000_000))
				out = append(out, fixed(one("staking.delegate", u, m, "val0")))
			}
			return append(out, all(g)...)
		}),
		blk(sixS, func(g *Gen) []genFn { return append([]genFn{mint(g, 0, 300_000_000), mint(g, 1, 200_000_000)}, all(g)...) }),
		// the replica under test is restarted here
		blk(sixS, func(g *Gen) []genFn { return append([]genFn{mint(g, 2, 100_000_000), mint(g, 0, 50_000_000)}, all(g)...) }),
		blk(sixS, func(g *Gen) []genFn { return append([]genFn{mint(g, 3, 70_000_000)}, all(g)...) }),
		blk(sixS, all),
	)
}

// ScenarioBkavaValidatorEmptied: a user's whole delegation to validator 1 becomes bkava, sits in the earn bkava
// vault while rewards accrue (incentive stores earn reward indexes for that bkava denom), is withdrawn and burnt
// again (bkava supply 0), and then EVERY delegation to the validator is undelegated, the operator's
// self-delegation included: the validator stays in the store with zero delegator shares for the unbonding
// period.  The incentive begin blocker still visits that bkava denom in every block.
func ScenarioBkavaValidatorEmptied() Script {
	const amt = 500_000_000
	v := 1
	allOf := func(g *Gen, ctx sdk.Context, u Party, denom string) sdk.Coin {
		return sdk.NewCoin(denom, g.bal(ctx, u.Addr, denom))
	}
	return script(
		blk(sixS, func(g *Gen) []genFn {
			u := g.P.Users[0]
			m := stakingtypes.NewMsgDelegate(u.Addr, g.P.ValAddr(v), c("ukava", amt))
			return []genFn{fixed(one("staking.delegate", u, m, "val1")), g.bankSend}
		}),
		blk(sixS, func(g *Gen) []genFn {
			u := g.P.Users[0]
			m := liquidtypes.NewMsgMintDerivative(u.Addr, g.P.ValAddr(v), c("ukava", amt))
			return []genFn{fixed(one("liquid.mint", u, &m, "val1 all"))}
		}),
		blk(sixS, func(g *Gen) []genFn {
			u := g.P.Users[0]
			return []genFn{func(ctx sdk.Context) *TxSpec {
				cn := allOf(g, ctx, u, g.bkavaDenom(v))
				if !cn.Amount.IsPositive() {
					return nil
				}
				return one("earn.deposit", u, earntypes.NewMsgDeposit(u.Addr.String(), cn, earntypes.STRATEGY_TYPE_SAVINGS), cn.String())
			}}
		}),
		blk(time.Hour, func(g *Gen) []genFn { return []genFn{g.bankSend} }),
		blk(sixS, func(g *Gen) []genFn {
			u := g.P.Users[0]
			return []genFn{func(ctx sdk.Context) *TxSpec {
				ek := g.N.T.GetEarnKeeper()
				sh, found := ek.GetVaultAccountShares(ctx, u.Addr)
				if !found {
					return nil
				}
				cn := sdk.NewCoin(g.bkavaDenom(v), sh.AmountOf(g.bkavaDenom(v)).TruncateInt())
				if !cn.Amount.IsPositive() {
					return nil
				}
				return one("earn.withdraw", u, earntypes.NewMsgWithdraw(u.Addr.String(), cn, earntypes.STRATEGY_TYPE_SAVINGS), cn.String())
			}}
		}),
		blk(sixS, func(g *Gen) []genFn {
			u := g.P.Users[0]
			return []genFn{func(ctx sdk.Context) *TxSpec {
				cn := allOf(g, ctx, u, g.bkavaDenom(v))
				if !cn.Amount.IsPositive() {
					return nil
				}
				m := liquidtypes.NewMsgBurnDerivative(u.Addr, g.P.ValAddr(v), cn)
				return one("liquid.burn", u, &m, cn.String())
			}}
		}),
		blk(sixS, func(g *Gen) []genFn {
			// every delegation to the validator is undelegated in full (users and the operator itself)
			var out []genFn
			for _, p := range append(append([]Party{}, g.P.Users...), g.P.ValOps...) {
				p := p
				out = append(out, func(ctx sdk.Context) *TxSpec {
					sk := g.N.T.GetStakingKeeper()
					del, found := sk.GetDelegation(ctx, p.Addr, g.P.ValAddr(v))
					if !found {
						return nil
					}
					val, found := sk.GetValidator(ctx, g.P.ValAddr(v))
					if !found {
						return nil
					}
					tok := val.TokensFromShares(del.GetShares()).TruncateInt()
					if !tok.IsPositive() {
						return nil
					}
					m := stakingtypes.NewMsgUndelegate(p.Addr, g.P.ValAddr(v), sdk.NewCoin("ukava", tok))
					return one("staking.undelegate", p, m, "val1 all "+tok.String())
				})
			}
			return out
		}),
		blk(sixS, func(g *Gen) []genFn { return []genFn{g.bankSend} }),
		blk(sixS, func(g *Gen) []genFn { return []genFn{g.bankSend, g.incentiveClaim} }),
		blk(time.Hour, func(g *Gen) []genFn { return []genFn{g.bankSend} }),
	)
}

// ScenarioLastCdpsLiquidated: several minimum-size CDPs of one collateral type, opened by different users, are
// the only debt in the cdp module account. Interest accrues over a short gap (per-CDP interest rounds up more
// than the collateral-type total does: the module holds 30000002 debt coins, the CDPs owe 30000003), then the
// price drops and ONE begin block liquidates all of them: the last seizure must be clamped to the debt coins
// the module account still holds. Needs Config.LiquidationInterval = 1.
func ScenarioLastCdpsLiquidated(gap time.Duration) Script {
	return script(
		blk(sixS, func(g *Gen) []genFn {
			var out []genFn
			for k := 0; k < 3; k++ {
				u := g.P.Users[k]
				m := cdptypes.NewMsgCreateCDP(u.Addr, c("xrp", 100_000000), c("usdx", 10_000_000), "xrp-a")
				out = append(out, fixed(one("cdp.create", u, &m, "minimum size xrp-a")))
			}
			return out
		}),
		// interest accrues over the gap; in the same block the oracles post the lower price (effective at EndBlock)
		blk(gap, func(g *Gen) []genFn { return g.pricesTo("xrp", 300) }),
		// next begin block: sync + liquidate all three
		blk(time.Second, func(g *Gen) []genFn { return nil }),
		blk(sixS, func(g *Gen) []genFn { return []genFn{g.auctionBid, g.auctionBid} }),
		blk(sixS, func(g *Gen) []genFn { return nil }),
	)
}

var _ = sdkmath.NewInt
