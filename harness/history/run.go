package history

import (
	"fmt"
	"os"
	"strings"
	"time"

	sdk "github.com/cosmos/cosmos-sdk/types"

	cm "kavaverif/harness/common"
)

// Script is a directed scenario: for block k (0-based) it returns the gap before the block and the
// transactions to include (generated from the leader's in-block state). nil = end of the script.
type Script func(g *Gen, k int) *ScriptBlock

type ScriptBlock struct {
	Gap time.Duration
	Txs []genFn
}

// Plan describes one history to run.
type Plan struct {
	Name    string
	Cfg     Config
	Seed    uint64
	Blocks  int    // random blocks after the script
	MaxTxs  int    // max random txs per block
	Script  Script // optional directed prefix
	// PriceEvery: a price round every n blocks on average (random part).
	PriceEvery int
	// CrashEvery: every n blocks on average ALL collateral prices drop to 30 % in one block, so that one begin
	// block liquidates the remaining CDPs of every type (0 = never).
	CrashEvery int
	// Focus is passed to the generator (see Gen.Focus).
	Focus string
}

// Hooks lets a check observe the leader while the history is produced.
type Hooks struct {
	// AfterEndBlock runs on the leader's deliver state after EndBlock and before Commit.
	AfterEndBlock func(n *Node, ctx sdk.Context, height int64)
	// OnTx is called for every delivered tx on the leader.
	OnTx func(spec *TxSpec, code uint32, codespace, log string)
	// OnPanic is called when a block phase panics on the leader (the history stops there).
	OnPanic func(height int64, msg string)
}

// History is the output of the leader: the blocks and the leader's per-height results.
type History struct {
	Plan    Plan
	Genesis []byte
	Blocks  []Block
	Results []*BlockResult
	Leader  *Node
	Parties *Parties
	Stopped string // non-empty when the leader stopped early (panic)
	Stats   map[string]int
}

const txGas = 4_000_000

func (g *Gen) sign(ctx sdk.Context, spec *TxSpec) ([]byte, error) {
	ak := g.N.T.GetAccountKeeper()
	signers := spec.Signers
	if spec.Mangle == "signer" {
		signers = []Party{g.P.Users[(g.R.Intn(len(g.P.Users)))]}
	}
	var nums, seqs []uint64
	for _, s := range signers {
		acc := ak.GetAccount(ctx, s.Addr)
		if acc == nil {
			nums, seqs = append(nums, 0), append(seqs, 0)
			continue
		}
		seq := acc.GetSequence()
		if spec.Mangle == "seq" {
			seq += 3
		}
		nums, seqs = append(nums, acc.GetAccountNumber()), append(seqs, seq)
	}
	return SignTx(spec.Msgs, txGas, "", signers, nums, seqs)
}

// Produce runs the plan on a fresh leader (in-memory database) and records blocks and results.
func Produce(plan Plan, hooks Hooks) *History {
	p := MakeParties()
	genesis := BuildGenesis(p, plan.Cfg)
	leader := NewMemNode("leader")
	h := &History{Plan: plan, Genesis: genesis, Leader: leader, Parties: p, Stats: map[string]int{}}
	if err := leader.InitChain(genesis, GenTime, 1); err != nil {
		h.Stopped = err.Error()
		return h
	}
	rng := cm.NewRng(plan.Seed)
	g := NewGen(p, rng, leader, plan.Cfg)
	g.Focus = plan.Focus
	now := GenTime
	height := int64(0)
	scriptDone := plan.Script == nil
	k := 0
	randomLeft := plan.Blocks
	for {
		var fns []genFn
		var gap time.Duration
		if !scriptDone {
			sb := plan.Script(g, k)
			k++
			if sb == nil {
				scriptDone = true
				continue
			}
			gap, fns = sb.Gap, sb.Txs
		} else {
			if randomLeft <= 0 {
				break
			}
			randomLeft--
			gap = g.Gap()
			fns = nil
		}
		height++
		now = now.Add(gap)
		blk := Block{Height: height, Time: now}
		res := &BlockResult{Height: height}
		res.BB, res.Panic = leader.Begin(p, height, now)
		if res.Panic == "" {
			hdr := p.Header(height, now)
			deliver := func(spec *TxSpec) {
				ctx := leader.Ctx(hdr)
				bz, err := g.sign(ctx, spec)
				if err != nil {
					h.Stats["sign-error"]++
					return
				}
				r, pm := leader.Deliver(bz)
				if pm != "" {
					res.Panic = pm
					return
				}
				blk.Txs = append(blk.Txs, bz)
				blk.Desc = append(blk.Desc, spec.Desc)
				basicInvalid := false
				for _, m := range spec.Msgs {
					if m.ValidateBasic() != nil {
						basicInvalid = true
					}
				}
				blk.BasicInvalid = append(blk.BasicInvalid, basicInvalid)
				res.Txs = append(res.Txs, r)
				cls := "ok"
				if r.Code != 0 {
					cls = fmt.Sprintf("err:%s/%d", r.Codespace, r.Code)
				}
				h.Stats["tx:"+spec.Kind+":"+cls]++
				if hooks.OnTx != nil {
					hooks.OnTx(spec, r.Code, r.Codespace, r.Log)
				}
			}
			if fns != nil {
				for _, fn := range fns {
					if res.Panic != "" {
						break
					}
					if spec := safeGen(fn, leader.Ctx(hdr)); spec != nil { // a generator that cannot build its message is skipped
						deliver(spec)
					}
				}
			} else {
				// random block: oracles refresh markets whose price has expired, optional price move, then user txs
				for _, a := range Assets {
					if _, ok := g.price(leader.Ctx(hdr), a.Market); !ok && rng.Chance(85) {
						for _, spec := range g.priceRound(leader.Ctx(hdr), a.Denom, 1000, cm.Pick(rng, []time.Duration{time.Hour, 24 * time.Hour, 40 * 24 * time.Hour})) {
							if res.Panic == "" {
								deliver(spec)
							}
						}
					}
				}
				if plan.PriceEvery > 0 && rng.Intn(plan.PriceEvery) == 0 {
					a := Assets[rng.Intn(len(Assets))]
					factor := cm.Pick(rng, []int64{500, 700, 900, 950, 990, 1000, 1010, 1050, 1100, 1300, 2000})
					if a.Denom == "usdx" || a.Denom == "busd" {
						factor = cm.Pick(rng, []int64{980, 995, 1000, 1005, 1020})
					}
					exp := cm.Pick(rng, []time.Duration{time.Hour, 24 * time.Hour, 40 * 24 * time.Hour})
					for _, spec := range g.priceRound(leader.Ctx(hdr), a.Denom, factor, exp) {
						if res.Panic == "" {
							deliver(spec)
						}
					}
				}
				if plan.CrashEvery > 0 && rng.Intn(plan.CrashEvery) == 0 {
					for _, a := range Assets {
						if a.Denom == "usdx" {
							continue
						}
						for _, spec := range g.priceRound(leader.Ctx(hdr), a.Denom, 300, 40*24*time.Hour) {
							if res.Panic == "" {
								deliver(spec)
							}
						}
					}
					h.Stats["market-crash"]++
				}
				n := 0
				if plan.MaxTxs > 0 {
					n = rng.Intn(plan.MaxTxs + 1)
				}
				for t := 0; t < n && res.Panic == ""; t++ {
					deliver(g.Next(leader.Ctx(hdr)))
				}
			}
		}
		if res.Panic == "" {
			res.EB, res.Panic = leader.End(height)
		}
		if res.Panic == "" && hooks.AfterEndBlock != nil {
			hooks.AfterEndBlock(leader, leader.Ctx(p.Header(height, now)), height)
		}
		if res.Panic == "" {
			res.AppHash, res.Panic = leader.CommitBlock(height)
		}
		res.computeDigests()
		h.Blocks = append(h.Blocks, blk)
		h.Results = append(h.Results, res)
		if res.Panic != "" {
			h.Stopped = fmt.Sprintf("height %d %s", height, res.Panic)
			if hooks.OnPanic != nil {
				hooks.OnPanic(height, res.Panic)
			}
			break
		}
	}
	return h
}

// Replay applies the recorded blocks to a fresh in-memory replica and returns its results.
func (h *History) Replay(name string) []*BlockResult {
	n := NewMemNode(name)
	defer n.Close()
	var out []*BlockResult
	if err := n.InitChain(h.Genesis, GenTime, 1); err != nil {
		return out
	}
	for _, b := range h.Blocks {
		r := n.ApplyBlock(h.Parties, b)
		out = append(out, r)
		if r.Panic != "" {
			break
		}
	}
	return out
}

// ReplayWithRestart applies the blocks to a replica on goleveldb in a scratch directory, closing and
// re-opening the database after the block at height `restartAt` (and again at 2*restartAt).
func (h *History) ReplayWithRestart(restartAt int64) (out []*BlockResult, err error) {
	dir, err := os.MkdirTemp("", "kavaverif-c01-*")
	if err != nil {
		return nil, err
	}
	defer os.RemoveAll(dir)
	if strings.HasPrefix(dir, "/repo") || strings.HasPrefix(dir, "/verif") {
		return nil, fmt.Errorf("scratch dir %s inside the trees", dir)
	}
	n, err := NewDiskNode("disk", dir)
	if err != nil {
		return nil, err
	}
	defer func() { n.Close() }()
	if err := n.InitChain(h.Genesis, GenTime, 1); err != nil {
		return nil, err
	}
	for _, b := range h.Blocks {
		r := n.ApplyBlock(h.Parties, b)
		out = append(out, r)
		if r.Panic != "" {
			break
		}
		if restartAt > 0 && (b.Height == restartAt || b.Height == 2*restartAt) {
			if err := n.Reopen(); err != nil {
				return out, fmt.Errorf("reopen at %d: %w", b.Height, err)
			}
		}
	}
	return out, nil
}

// Divergence describes the first difference between the leader and a replica.
type Divergence struct {
	Height  int64
	What    string // apphash | txresult | txlog | bbevents | ebevents | length
	Leader  string
	Replica string
	Name    string
}

// Compare returns the first divergence between the leader's results and a replica's.
func Compare(name string, lead, rep []*BlockResult) *Divergence {
	for k := range lead {
		if k >= len(rep) {
			return &Divergence{Height: lead[k].Height, What: "length", Leader: fmt.Sprint(len(lead)), Replica: fmt.Sprint(len(rep)), Name: name}
		}
		a, b := lead[k].Digests, rep[k].Digests
		switch {
		case a.BBEvents != b.BBEvents:
			return &Divergence{lead[k].Height, "bbevents", a.BBEvents, b.BBEvents, name}
		case a.TxResult != b.TxResult:
			return &Divergence{lead[k].Height, "txresult", a.TxResult, b.TxResult, name}
		case a.TxLog != b.TxLog:
			return &Divergence{lead[k].Height, "txlog", a.TxLog, b.TxLog, name}
		case a.EBEvents != b.EBEvents:
			return &Divergence{lead[k].Height, "ebevents", a.EBEvents, b.EBEvents, name}
		case a.AppHash != b.AppHash:
			return &Divergence{lead[k].Height, "apphash", a.AppHash, b.AppHash, name}
		}
	}
	return nil
}

// SignFor signs a generated transaction against the leader's current account state.
func (g *Gen) SignFor(ctx sdk.Context, spec *TxSpec) ([]byte, error) { return g.sign(ctx, spec) }
