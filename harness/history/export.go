package history

import (
	"bytes"
	"encoding/json"
	"fmt"
	"sort"
	"strings"
	"time"

	abci "github.com/cometbft/cometbft/abci/types"
	tmproto "github.com/cometbft/cometbft/proto/tendermint/types"
	sdk "github.com/cosmos/cosmos-sdk/types"
	"github.com/cosmos/cosmos-sdk/types/module"

	"github.com/kava-labs/kava/app"
)

// Exported is the result of ExportAppStateAndValidators on a node.
type Exported struct {
	AppState []byte
	Height   int64
	Modules  map[string]json.RawMessage
	Err      string
}

// Export calls the application's own ExportAppStateAndValidators (not for zero height).
func (n *Node) Export() (ex Exported) {
	defer func() {
		if r := recover(); r != nil {
			ex.Err = fmt.Sprintf("export panic at %s: %v", panicSiteOfRecover(), r)
		}
	}()
	res, err := (&n.T.App).ExportAppStateAndValidators(false, nil, nil)
	if err != nil {
		ex.Err = "export error: " + err.Error()
		return
	}
	ex.AppState, ex.Height = res.AppState, res.Height
	if err := json.Unmarshal(res.AppState, &ex.Modules); err != nil {
		ex.Err = "export is not a JSON object: " + err.Error()
	}
	return
}

func panicSiteOfRecover() string { return "export" }

// ValidateGenesis runs every module's ValidateGenesis on an exported app state (what `kava validate-genesis`
// does), module by module, and returns the modules whose section is rejected.
func ValidateGenesis(appState []byte) (failed map[string]string) {
	failed = map[string]string{}
	sdkConfig()
	enc := app.MakeEncodingConfig()
	var gs map[string]json.RawMessage
	if e := json.Unmarshal(appState, &gs); e != nil {
		failed["<document>"] = e.Error()
		return
	}
	for name, b := range app.ModuleBasics {
		func() {
			defer func() {
				if r := recover(); r != nil {
					failed[name] = fmt.Sprintf("panic: %v", r)
				}
			}()
			if hb, ok := b.(module.HasGenesisBasics); ok {
				if err := hb.ValidateGenesis(enc.Marshaler, enc.TxConfig, gs[name]); err != nil {
					failed[name] = err.Error()
				}
			}
		}()
	}
	return
}

// ImportNode starts a fresh in-memory app from an exported state (InitChain at the exported height).
func ImportNode(name string, ex Exported, genTime time.Time) (*Node, error) {
	n := NewMemNode(name)
	if err := n.InitChain(ex.AppState, genTime, ex.Height); err != nil {
		n.Close()
		return nil, err
	}
	return n, nil
}

// CommitGenesis commits the state written by InitChain without running a block (as app.TestApp does).
func (n *Node) CommitGenesis() (err error) {
	defer func() {
		if r := recover(); r != nil {
			err = fmt.Errorf("commit after InitChain panicked: %v", r)
		}
	}()
	n.T.Commit()
	n.Height = n.T.LastBlockHeight()
	return nil
}

// ---------------------------------------------------------------- JSON comparison

func canon(v any) any {
	switch x := v.(type) {
	case map[string]any:
		out := map[string]any{}
		for k, e := range x {
			out[k] = canon(e)
		}
		return out
	case []any:
		out := make([]any, len(x))
		for i, e := range x {
			out[i] = canon(e)
		}
		return out
	}
	return v
}

// firstDiff returns the JSON path and the two values of the first difference (depth-first, keys sorted).
func firstDiff(path string, a, b any) (string, string, string, bool) {
	switch x := a.(type) {
	case map[string]any:
		y, ok := b.(map[string]any)
		if !ok {
			return path, brief(a), brief(b), true
		}
		keys := map[string]bool{}
		for k := range x {
			keys[k] = true
		}
		for k := range y {
			keys[k] = true
		}
		var ks []string
		for k := range keys {
			ks = append(ks, k)
		}
		sort.Strings(ks)
		for _, k := range ks {
			if p, va, vb, d := firstDiff(path+"."+k, x[k], y[k]); d {
				return p, va, vb, true
			}
		}
		return "", "", "", false
	case []any:
		y, ok := b.([]any)
		if !ok {
			return path, brief(a), brief(b), true
		}
		if len(x) != len(y) {
			return path + ".length", fmt.Sprint(len(x)), fmt.Sprint(len(y)), true
		}
		for i := range x {
			if p, va, vb, d := firstDiff(fmt.Sprintf("%s[%d]", path, i), x[i], y[i]); d {
				return p, va, vb, true
			}
		}
		return "", "", "", false
	}
	ja, _ := json.Marshal(a)
	jb, _ := json.Marshal(b)
	if !bytes.Equal(ja, jb) {
		return path, brief(a), brief(b), true
	}
	return "", "", "", false
}

func brief(v any) string {
	bz, _ := json.Marshal(v)
	s := string(bz)
	if len(s) > 160 {
		s = s[:160] + "…"
	}
	return s
}

// ModuleDiff describes how one module's section differs between two exports.
type ModuleDiff struct {
	Module, Path, A, B string
}

// dropExpiredPosts removes pricefeed posted prices that are expired at time t (inert by construction: the
// prose of C14 allows the import to drop them).
func dropExpiredPosts(raw json.RawMessage, t time.Time) any {
	var v map[string]any
	if json.Unmarshal(raw, &v) != nil {
		return nil
	}
	posts, _ := v["posted_prices"].([]any)
	var keep []any
	for _, p := range posts {
		m, _ := p.(map[string]any)
		exp, _ := m["expiry"].(string)
		et, err := time.Parse(time.RFC3339Nano, exp)
		if err == nil && !et.After(t) {
			continue
		}
		keep = append(keep, p)
	}
	if keep == nil {
		keep = []any{}
	}
	v["posted_prices"] = keep
	return v
}

func dropLocalhostHeight(v any) any {
	m, ok := v.(map[string]any)
	if !ok {
		return v
	}
	cg, _ := m["client_genesis"].(map[string]any)
	cls, _ := cg["clients"].([]any)
	for _, c := range cls {
		cm, _ := c.(map[string]any)
		if id, _ := cm["client_id"].(string); id == "09-localhost" {
			if cs, ok := cm["client_state"].(map[string]any); ok {
				delete(cs, "latest_height")
			}
		}
	}
	return m
}

// CompareExports compares two exported documents module by module (JSON-normalised).
func CompareExports(a, b Exported, now time.Time) (diffs []ModuleDiff, modules []string) {
	names := map[string]bool{}
	for k := range a.Modules {
		names[k] = true
	}
	for k := range b.Modules {
		names[k] = true
	}
	for k := range names {
		modules = append(modules, k)
	}
	sort.Strings(modules)
	for _, m := range modules {
		var va, vb any
		if m == "pricefeed" {
			va, vb = dropExpiredPosts(a.Modules[m], now), dropExpiredPosts(b.Modules[m], now)
		} else {
			json.Unmarshal(a.Modules[m], &va)
			json.Unmarshal(b.Modules[m], &vb)
		}
		if m == "ibc" {
			// the localhost light client records the height of the block being executed: it differs whenever
			// the two documents are taken at different heights, which is the case here by construction
			va, vb = dropLocalhostHeight(va), dropLocalhostHeight(vb)
		}
		if p, x, y, d := firstDiff(m, canon(va), canon(vb)); d {
			diffs = append(diffs, ModuleDiff{m, p, x, y})
		}
	}
	return
}

// ---------------------------------------------------------------- follow-up block

// Positions is a flat, comparable view of what users own: balances and module positions.
type Positions map[string]sdk.Int

// Snapshot reads balances of all parties and module accounts and every position record.
func Snapshot(n *Node, p *Parties, ctx sdk.Context) map[string]string {
	out := map[string]string{}
	bk := n.T.GetBankKeeper()
	put := func(k string, v fmt.Stringer) { out[k] = v.String() }
	for _, u := range p.All() {
		for _, cn := range bk.GetAllBalances(ctx, u.Addr) {
			put("bal/"+u.Name+"/"+cn.Denom, cn.Amount)
		}
	}
	for _, cdp := range n.T.GetCDPKeeper().GetAllCdps(ctx) {
		k := fmt.Sprintf("cdp/%d/", cdp.ID)
		put(k+"collateral", cdp.Collateral.Amount)
		// debt with the interest not yet written to the record (the export settles it)
		put(k+"debt", cdp.Principal.Amount.Add(cdp.AccumulatedFees.Amount).Add(n.T.GetCDPKeeper().CalculateNewInterest(ctx, cdp).Amount))
	}
	hk := n.T.GetHardKeeper()
	for _, u := range p.All() {
		if dp, ok := hk.GetSyncedDeposit(ctx, u.Addr); ok {
			for _, cn := range dp.Amount {
				put("hard-deposit/"+u.Name+"/"+cn.Denom, cn.Amount)
			}
		}
		if b, ok := hk.GetSyncedBorrow(ctx, u.Addr); ok {
			for _, cn := range b.Amount {
				put("hard-borrow/"+u.Name+"/"+cn.Denom, cn.Amount)
			}
		}
	}
	for _, sr := range n.T.GetSwapKeeper().GetAllDepositorShares(ctx) {
		if pp, ok := partyName(p, sr.Depositor); ok {
			put("swap-shares/"+pp+"/"+sr.PoolID, sr.SharesOwned)
		}
	}
	for _, dp := range n.T.GetSavingsKeeper().GetAllDeposits(ctx) {
		if pp, ok := partyName(p, dp.Depositor); ok {
			for _, cn := range dp.Amount {
				put("savings/"+pp+"/"+cn.Denom, cn.Amount)
			}
		}
	}
	ek := n.T.GetEarnKeeper()
	for _, r := range ek.GetAllVaultShareRecords(ctx) {
		if pp, ok := partyName(p, r.Depositor); ok {
			for _, sh := range r.Shares {
				// compare what the shares are worth: the number of shares issued for a deposit scales a
				// one-unit difference of the vault's value (interest the export settled) by the share price
				if v, err := ek.ConvertToAssets(ctx, sh); err == nil {
					put("earn-value/"+pp+"/"+sh.Denom, v.Amount)
				}
			}
		}
	}
	for _, a := range n.T.GetAuctionKeeper().GetAllAuctions(ctx) {
		k := fmt.Sprintf("auction/%d/", a.GetID())
		put(k+"bid", a.GetBid().Amount)
		put(k+"lot", a.GetLot().Amount)
	}
	for _, s := range n.T.GetBep3Keeper().GetAllAtomicSwaps(ctx) {
		out[fmt.Sprintf("bep3/%x", s.GetSwapID()[:6])] = s.Status.String() + ":" + s.Amount.String()
	}
	return out
}

func partyName(p *Parties, a sdk.AccAddress) (string, bool) {
	for _, u := range p.All() {
		if u.Addr.Equals(a) {
			return u.Name, true
		}
	}
	return "", false
}

// FollowUp runs one block of the given raw transactions on a node (BeginBlock … Commit).
func (n *Node) FollowUp(p *Parties, height int64, t time.Time, txs [][]byte) *BlockResult {
	return n.ApplyBlock(p, Block{Height: height, Time: t, Txs: txs})
}

// AssertInvariants evaluates every registered invariant route on ctx and returns the broken ones.
func AssertInvariants(n *Node, ctx sdk.Context) []string {
	var broken []string
	cctx, _ := ctx.CacheContext()
	ck := n.T.GetCrisisKeeper()
	for _, r := range ck.Routes() {
		func() {
			defer func() {
				if rec := recover(); rec != nil {
					broken = append(broken, r.FullRoute()+"!panic:"+strings.Join(strings.Fields(fmt.Sprint(rec)), " "))
				}
			}()
			if msg, b := r.Invar(cctx); b {
				broken = append(broken, r.FullRoute()+"!"+strings.Join(strings.Fields(msg), " "))
			}
		}()
	}
	sort.Strings(broken)
	return broken
}

var _ = abci.RequestInitChain{}
var _ = tmproto.Header{}

// ---------------------------------------------------------------- raw store comparison

// KavaStores are the KV store keys of the Kava modules (x/liquid and x/router keep no store).
var KavaStores = []string{"auction", "bep3", "cdp", "committee", "community", "earn", "utilevm", "hard", "incentive",
	"issuance", "kavadist", "precisebank", "pricefeed", "savings", "swap"}

// DumpStore returns every key/value of one module store as seen by ctx.
func DumpStore(n *Node, ctx sdk.Context, store string) map[string][]byte {
	out := map[string][]byte{}
	key := n.T.GetKVStoreKey(store)
	if key == nil {
		return out
	}
	it := ctx.KVStore(key).Iterator(nil, nil)
	defer it.Close()
	for ; it.Valid(); it.Next() {
		out[string(it.Key())] = append([]byte{}, it.Value()...)
	}
	return out
}

// StoreDiff is one differing key of a module store.
type StoreDiff struct {
	Module string
	Prefix string // hex of the first key byte
	Kind   string // missing-in-import | extra-in-import | value-differs
	Key    []byte
	A, B   []byte
}

func prefixOf(k string) string {
	if len(k) == 0 {
		return "empty"
	}
	return fmt.Sprintf("%02x", k[0])
}

// CompareStores compares two dumps of one module store key by key; groups counts the keys per first key byte.
func CompareStores(module string, a, b map[string][]byte) (diffs []StoreDiff, groups map[string]int) {
	groups = map[string]int{}
	var keys []string
	for k := range a {
		keys = append(keys, k)
	}
	for k := range b {
		if _, ok := a[k]; !ok {
			keys = append(keys, k)
		}
	}
	sort.Strings(keys)
	for _, k := range keys {
		va, ina := a[k]
		vb, inb := b[k]
		p := prefixOf(k)
		groups[p]++
		switch {
		case ina && !inb:
			diffs = append(diffs, StoreDiff{module, p, "missing-in-import", []byte(k), va, nil})
		case !ina && inb:
			diffs = append(diffs, StoreDiff{module, p, "extra-in-import", []byte(k), nil, vb})
		case !bytes.Equal(va, vb):
			diffs = append(diffs, StoreDiff{module, p, "value-differs", []byte(k), va, vb})
		}
	}
	return
}
