module kavaverif/harness

go 1.21

require (
	cosmossdk.io/math v1.3.0
	github.com/kava-labs/kava v0.0.0
)

require golang.org/x/exp v0.0.0-20230905200255-921286631fa9 // indirect

replace github.com/kava-labs/kava => /repo

replace (
	// Use the cosmos keyring code
	github.com/99designs/keyring => github.com/cosmos/keyring v1.2.0
	// Use cometbft fork of tendermint
	github.com/cometbft/cometbft => github.com/kava-labs/cometbft v0.37.9-kava.1
	github.com/cometbft/cometbft-db => github.com/kava-labs/cometbft-db v0.9.1-kava.2
	// Use cosmos-sdk fork with backported fix for unsafe-reset-all, staking transfer events, and custom tally handler support
	github.com/cosmos/cosmos-sdk => github.com/kava-labs/cosmos-sdk v0.47.10-iavl-v1-kava.1
	// See https://github.com/cosmos/cosmos-sdk/pull/13093
	github.com/dgrijalva/jwt-go => github.com/golang-jwt/jwt/v4 v4.4.2
	// Tracking kava-labs/go-ethereum kava/release/v1.10 branch
	// TODO: Tag before release
	github.com/ethereum/go-ethereum => github.com/Kava-Labs/go-ethereum v1.10.27-0.20240513233504-6e038346780b
	// Use ethermint fork that respects min-gas-price with NoBaseFee true and london enabled, and includes eip712 support
	// Tracking kava-labs/etheremint master branch
	// TODO: Tag before release
	github.com/evmos/ethermint => github.com/kava-labs/ethermint v0.21.1-0.20240919184235-65384e03c3e7
	// See https://github.com/cosmos/cosmos-sdk/pull/10401, https://github.com/cosmos/cosmos-sdk/commit/0592ba6158cd0bf49d894be1cef4faeec59e8320
	github.com/gin-gonic/gin => github.com/gin-gonic/gin v1.9.0
	// Downgraded to avoid bugs in following commits which causes "version does not exist" errors
	github.com/syndtr/goleveldb => github.com/syndtr/goleveldb v1.0.1-0.20210819022825-2ae1ddf74ef7
	// Avoid change in slices.SortFunc, see https://github.com/cosmos/cosmos-sdk/issues/20159
	golang.org/x/exp => golang.org/x/exp v0.0.0-20230711153332-06a737ee72cb
)
