module kavaverif/harness

go 1.21

require (
	cosmossdk.io/errors v1.0.1
	cosmossdk.io/math v1.3.0
	github.com/cometbft/cometbft v0.37.9
	github.com/cometbft/cometbft-db v0.9.1
	github.com/cosmos/cosmos-sdk v0.47.10
	github.com/cosmos/gogoproto v1.4.10
	github.com/ethereum/go-ethereum v1.10.26
	github.com/evmos/ethermint v0.21.0
	github.com/kava-labs/kava v0.0.0
	golang.org/x/tools v0.20.0
)

require (
	cloud.google.com/go v0.112.0 // indirect
	cloud.google.com/go/compute/metadata v0.2.3 // indirect
	cloud.google.com/go/iam v1.1.6 // indirect
	cloud.google.com/go/storage v1.36.0 // indirect
	cosmossdk.io/api v0.3.1 // indirect
	cosmossdk.io/core v0.6.1 // indirect
	cosmossdk.io/depinject v1.0.0-alpha.4 // indirect
	cosmossdk.io/log v1.3.1 // indirect
	cosmossdk.io/tools/rosetta v0.2.1 // indirect
	filippo.io/edwards25519 v1.0.0 // indirect
	github.com/99designs/keyring v1.2.1 // indirect
	github.com/ChainSafe/go-schnorrkel v1.0.0 // indirect
	github.com/VictoriaMetrics/fastcache v1.6.0 // indirect
	github.com/armon/go-metrics v0.4.1 // indirect
	github.com/aws/aws-sdk-go v1.44.203 // indirect
	github.com/beorn7/perks v1.0.1 // indirect
	github.com/bgentry/go-netrc v0.0.0-20140422174119-9fd32a8b3d3d // indirect
	github.com/bgentry/speakeasy v0.1.1-0.20220910012023-760eaf8b6816 // indirect
	github.com/btcsuite/btcd v0.24.0 // indirect
	github.com/btcsuite/btcd/btcec/v2 v2.3.2 // indirect
	github.com/btcsuite/btcd/btcutil v1.1.5 // indirect
	github.com/btcsuite/btcd/chaincfg/chainhash v1.1.0 // indirect
	github.com/cenkalti/backoff/v4 v4.1.3 // indirect
	github.com/cespare/xxhash/v2 v2.3.0 // indirect
	github.com/chzyer/readline v1.5.1 // indirect
	github.com/cockroachdb/errors v1.11.1 // indirect
	github.com/cockroachdb/logtags v0.0.0-20230118201751-21c54148d20b // indirect
	github.com/cockroachdb/redact v1.1.5 // indirect
	github.com/coinbase/rosetta-sdk-go v0.7.9 // indirect
	github.com/confio/ics23/go v0.9.0 // indirect
	github.com/cosmos/btcutil v1.0.5 // indirect
	github.com/cosmos/cosmos-db v1.0.2 // indirect
	github.com/cosmos/cosmos-proto v1.0.0-beta.5 // indirect
	github.com/cosmos/go-bip39 v1.0.0 // indirect
	github.com/cosmos/gogogateway v1.2.0 // indirect
	github.com/cosmos/iavl v1.2.0 // indirect
	github.com/cosmos/ibc-apps/middleware/packet-forward-middleware/v7 v7.1.3 // indirect
	github.com/cosmos/ibc-go/v7 v7.4.0 // indirect
	github.com/cosmos/ics23/go v0.10.0 // indirect
	github.com/cosmos/rosetta-sdk-go v0.10.0 // indirect
	github.com/creachadair/taskgroup v0.4.2 // indirect
	github.com/davecgh/go-spew v1.1.2-0.20180830191138-d8f796af33cc // indirect
	github.com/deckarep/golang-set v1.8.0 // indirect
	github.com/decred/dcrd/dcrec/secp256k1/v4 v4.2.0 // indirect
	github.com/desertbit/timer v0.0.0-20180107155436-c41aec40b27f // indirect
	github.com/dvsekhvalnov/jose2go v1.6.0 // indirect
	github.com/edsrzf/mmap-go v1.0.0 // indirect
	github.com/emicklei/dot v1.6.1 // indirect
	github.com/felixge/httpsnoop v1.0.4 // indirect
	github.com/fsnotify/fsnotify v1.7.0 // indirect
	github.com/gballet/go-libpcsclite v0.0.0-20190607065134-2772fd86a8ff // indirect
	github.com/getsentry/sentry-go v0.27.0 // indirect
	github.com/go-kit/kit v0.13.0 // indirect
	github.com/go-kit/log v0.2.1 // indirect
	github.com/go-logfmt/logfmt v0.6.0 // indirect
	github.com/go-logr/logr v1.4.1 // indirect
	github.com/go-logr/stdr v1.2.2 // indirect
	github.com/go-stack/stack v1.8.1 // indirect
	github.com/godbus/dbus v0.0.0-20190726142602-4481cbc300e2 // indirect
	github.com/gogo/googleapis v1.4.1 // indirect
	github.com/gogo/protobuf v1.3.2 // indirect
	github.com/golang/groupcache v0.0.0-20210331224755-41bb18bfe9da // indirect
	github.com/golang/mock v1.6.0 // indirect
	github.com/golang/protobuf v1.5.4 // indirect
	github.com/golang/snappy v0.0.4 // indirect
	github.com/google/btree v1.1.2 // indirect
	github.com/google/go-cmp v0.6.0 // indirect
	github.com/google/orderedcode v0.0.1 // indirect
	github.com/google/s2a-go v0.1.7 // indirect
	github.com/google/uuid v1.6.0 // indirect
	github.com/googleapis/enterprise-certificate-proxy v0.3.2 // indirect
	github.com/googleapis/gax-go/v2 v2.12.0 // indirect
	github.com/gorilla/handlers v1.5.1 // indirect
	github.com/gorilla/mux v1.8.0 // indirect
	github.com/gorilla/websocket v1.5.0 // indirect
	github.com/grpc-ecosystem/go-grpc-middleware v1.3.0 // indirect
	github.com/grpc-ecosystem/grpc-gateway v1.16.0 // indirect
	github.com/gsterjov/go-libsecret v0.0.0-20161001094733-a6f4afe4910c // indirect
	github.com/gtank/merlin v0.1.1 // indirect
	github.com/gtank/ristretto255 v0.1.2 // indirect
	github.com/hashicorp/go-cleanhttp v0.5.2 // indirect
	github.com/hashicorp/go-getter v1.7.5 // indirect
	github.com/hashicorp/go-immutable-radix v1.3.1 // indirect
	github.com/hashicorp/go-safetemp v1.0.0 // indirect
	github.com/hashicorp/go-version v1.6.0 // indirect
	github.com/hashicorp/golang-lru v1.0.2 // indirect
	github.com/hashicorp/golang-lru/v2 v2.0.7 // indirect
	github.com/hashicorp/hcl v1.0.0 // indirect
	github.com/hdevalence/ed25519consensus v0.1.0 // indirect
	github.com/holiman/bloomfilter/v2 v2.0.3 // indirect
	github.com/holiman/uint256 v1.2.1 // indirect
	github.com/huandu/skiplist v1.2.0 // indirect
	github.com/huin/goupnp v1.0.3 // indirect
	github.com/iancoleman/orderedmap v0.2.0 // indirect
	github.com/improbable-eng/grpc-web v0.15.0 // indirect
	github.com/jackpal/go-nat-pmp v1.0.2 // indirect
	github.com/jmespath/go-jmespath v0.4.0 // indirect
	github.com/klauspost/compress v1.17.7 // indirect
	github.com/kr/pretty v0.3.1 // indirect
	github.com/kr/text v0.2.0 // indirect
	github.com/lib/pq v1.10.7 // indirect
	github.com/magiconair/properties v1.8.7 // indirect
	github.com/manifoldco/promptui v0.9.0 // indirect
	github.com/mattn/go-colorable v0.1.13 // indirect
	github.com/mattn/go-isatty v0.0.20 // indirect
	github.com/mattn/go-runewidth v0.0.9 // indirect
	github.com/matttproud/golang_protobuf_extensions v1.0.4 // indirect
	github.com/mimoo/StrobeGo v0.0.0-20210601165009-122bf33a46e0 // indirect
	github.com/minio/highwayhash v1.0.2 // indirect
	github.com/mitchellh/go-homedir v1.1.0 // indirect
	github.com/mitchellh/go-testing-interface v1.14.1 // indirect
	github.com/mitchellh/mapstructure v1.5.0 // indirect
	github.com/mtibben/percent v0.2.1 // indirect
	github.com/olekukonko/tablewriter v0.0.5 // indirect
	github.com/pelletier/go-toml/v2 v2.1.0 // indirect
	github.com/pkg/errors v0.9.1 // indirect
	github.com/pmezard/go-difflib v1.0.1-0.20181226105442-5d4384ee4fb2 // indirect
	github.com/prometheus/client_golang v1.14.0 // indirect
	github.com/prometheus/client_model v0.6.1 // indirect
	github.com/prometheus/common v0.42.0 // indirect
	github.com/prometheus/procfs v0.13.0 // indirect
	github.com/prometheus/tsdb v0.7.1 // indirect
	github.com/rakyll/statik v0.1.7 // indirect
	github.com/rcrowley/go-metrics v0.0.0-20201227073835-cf1acfcdf475 // indirect
	github.com/rjeczalik/notify v0.9.1 // indirect
	github.com/rogpeppe/go-internal v1.12.0 // indirect
	github.com/rs/cors v1.8.3 // indirect
	github.com/rs/zerolog v1.32.0 // indirect
	github.com/sagikazarmark/slog-shim v0.1.0 // indirect
	github.com/shirou/gopsutil v3.21.4-0.20210419000835-c7a38de76ee5+incompatible // indirect
	github.com/spf13/afero v1.11.0 // indirect
	github.com/spf13/cast v1.6.0 // indirect
	github.com/spf13/cobra v1.8.0 // indirect
	github.com/spf13/pflag v1.0.5 // indirect
	github.com/spf13/viper v1.18.2 // indirect
	github.com/status-im/keycard-go v0.2.0 // indirect
	github.com/stretchr/testify v1.9.0 // indirect
	github.com/subosito/gotenv v1.6.0 // indirect
	github.com/syndtr/goleveldb v1.0.1-0.20220721030215-126854af5e6d // indirect
	github.com/tendermint/go-amino v0.16.0 // indirect
	github.com/tidwall/btree v1.7.0 // indirect
	github.com/tklauser/go-sysconf v0.3.10 // indirect
	github.com/tklauser/numcpus v0.4.0 // indirect
	github.com/tyler-smith/go-bip39 v1.1.0 // indirect
	github.com/ulikunitz/xz v0.5.11 // indirect
	go.opencensus.io v0.24.0 // indirect
	go.opentelemetry.io/contrib/instrumentation/google.golang.org/grpc/otelgrpc v0.47.0 // indirect
	go.opentelemetry.io/contrib/instrumentation/net/http/otelhttp v0.47.0 // indirect
	go.opentelemetry.io/otel v1.22.0 // indirect
	go.opentelemetry.io/otel/metric v1.22.0 // indirect
	go.opentelemetry.io/otel/trace v1.22.0 // indirect
	golang.org/x/crypto v0.22.0 // indirect
	golang.org/x/exp v0.0.0-20230905200255-921286631fa9 // indirect
	golang.org/x/mod v0.17.0 // indirect
	golang.org/x/net v0.24.0 // indirect
	golang.org/x/oauth2 v0.17.0 // indirect
	golang.org/x/sync v0.7.0 // indirect
	golang.org/x/sys v0.19.0 // indirect
	golang.org/x/term v0.19.0 // indirect
	golang.org/x/text v0.14.0 // indirect
	golang.org/x/time v0.5.0 // indirect
	google.golang.org/api v0.162.0 // indirect
	google.golang.org/genproto v0.0.0-20240227224415-6ceb2ff114de // indirect
	google.golang.org/genproto/googleapis/api v0.0.0-20240227224415-6ceb2ff114de // indirect
	google.golang.org/genproto/googleapis/rpc v0.0.0-20240401170217-c3f982113cda // indirect
	google.golang.org/grpc v1.63.2 // indirect
	google.golang.org/protobuf v1.33.0 // indirect
	gopkg.in/ini.v1 v1.67.0 // indirect
	gopkg.in/yaml.v3 v3.0.1 // indirect
	nhooyr.io/websocket v1.8.6 // indirect
	pgregory.net/rapid v1.1.0 // indirect
	sigs.k8s.io/yaml v1.4.0 // indirect
)

replace github.com/kava-labs/kava => /repo

replace (
	// Use the cosmos keyring code
	github.com/99designs/keyring => github.com/cosmos/keyring v1.2.0
	// Use cometbft fork of tendermint
	github.com/cometbft/cometbft => github.com/kava-labs/cometbft v0.37.9-kava.1
	github.com/cometbft/cometbft-db => github.com/kava-labs/cometbft-db v0.9.1-kava.2
	// Use cosmos-sdk fork with backported fix for unsafe-reset-all, staking transfer events, and custom tally handler support
	github.com/cosmos/cosmos-sdk => github.com/kava-labs/cosmos-sdk v0.47.10-iavl-v1-kava.1
	// See https://github.com/cosmos/cosmos-sdk/pull/13093
	github.com/dgrijalva/jwt-go => github.com/golang-jwt/jwt/v4 v4.4.2
	// Tracking kava-labs/go-ethereum kava/release/v1.10 branch
	// TODO: Tag before release
	github.com/ethereum/go-ethereum => github.com/Kava-Labs/go-ethereum v1.10.27-0.20240513233504-6e038346780b
	// Use ethermint fork that respects min-gas-price with NoBaseFee true and london enabled, and includes eip712 support
	// Tracking kava-labs/etheremint master branch
	// TODO: Tag before release
	github.com/evmos/ethermint => github.com/kava-labs/ethermint v0.21.1-0.20240919184235-65384e03c3e7
	// See https://github.com/cosmos/cosmos-sdk/pull/10401, https://github.com/cosmos/cosmos-sdk/commit/0592ba6158cd0bf49d894be1cef4faeec59e8320
	github.com/gin-gonic/gin => github.com/gin-gonic/gin v1.9.0
	// Downgraded to avoid bugs in following commits which causes "version does not exist" errors
	github.com/syndtr/goleveldb => github.com/syndtr/goleveldb v1.0.1-0.20210819022825-2ae1ddf74ef7
	// Avoid change in slices.SortFunc, see https://github.com/cosmos/cosmos-sdk/issues/20159
	golang.org/x/exp => golang.org/x/exp v0.0.0-20230711153332-06a737ee72cb
)
