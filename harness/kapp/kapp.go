// Package kapp: helpers that need the Kava app (test app construction, cache-context execution,
// parallel sequence runner). Kept apart from `common` so pure harnesses link quickly.
package kapp

import (
	"fmt"
	"sync"
	"sync/atomic"
	"time"

	tmproto "github.com/cometbft/cometbft/proto/tendermint/types"
	sdk "github.com/cosmos/cosmos-sdk/types"
	paramtypes "github.com/cosmos/cosmos-sdk/x/params/types"

	"github.com/kava-labs/kava/app"

	c "kavaverif/harness/common"
)

var cfgOnce sync.Once

// app construction touches the global sdk.Config (app.NewTestApp calls SetSDKConfig each time), so it
// is serialised; the apps themselves are independent afterwards.
var newAppMu sync.Mutex

// GenTime is the genesis / first block time of every harness app.
var GenTime = time.Date(2024, 1, 1, 0, 0, 0, 0, time.UTC)

// NewApp builds the repository's own test app from genesis states and returns a deliver-mode context.
func NewApp(genesis ...app.GenesisState) (app.TestApp, sdk.Context) {
	newAppMu.Lock()
	defer newAppMu.Unlock()
	// app.NewTestApp() rewrites the global sdk.Config (bech32 prefixes) on every call, which races
	// with workers already running; set the config once and build every app "from sealed".
	cfgOnce.Do(func() { app.SetSDKConfig() })
	tApp := app.NewTestAppFromSealed()
	tApp.InitializeFromGenesisStatesWithTime(GenTime, genesis...)
	ctx := tApp.NewContext(false, tmproto.Header{Height: tApp.LastBlockHeight() + 1, Time: GenTime, ChainID: app.TestChainId})
	return tApp, ctx
}

var paramRoute uint64

// SetParams writes a module's parameter set, alternating between two routes that are equivalent in the
// code as it stands: the module keeper's own SetParams (keeperSet) and the route a governance or committee
// ParameterChangeProposal takes — straight into the module's x/params subspace, which the module keeper never
// sees.  Anything a keeper remembers about its parameters outside the store (a memoised copy, a derived table)
// is therefore exercised against a change it was not told about.
func SetParams(tApp app.TestApp, ctx sdk.Context, subspace string, ps paramtypes.ParamSet, keeperSet func()) {
	if atomic.AddUint64(&paramRoute, 1)%2 == 0 {
		keeperSet()
		return
	}
	ss, ok := tApp.GetParamsKeeper().GetSubspace(subspace)
	if !ok {
		keeperSet()
		return
	}
	ss.SetParamSet(ctx, ps)
}

// ReadParams reads a module's parameter set straight from its x/params subspace: what the store holds (what a
// governance change wrote), not what the module keeper reports.  Harness observations of parameters use this, so
// that a keeper serving remembered parameters disagrees with the observation instead of being observed through itself.
func ReadParams(tApp app.TestApp, ctx sdk.Context, subspace string, ps paramtypes.ParamSet) {
	ss, ok := tApp.GetParamsKeeper().GetSubspace(subspace)
	if !ok {
		panic("kapp: no params subspace " + subspace)
	}
	ss.GetParamSet(ctx, ps)
}

// Result class of one operation, as baseapp would see it.
type Class string

const (
	OK    Class = "ok"
	Err   Class = "err"
	Panic Class = "panic"
)

// Exec runs f in a cache context branched from ctx and writes it back only on success:
// exactly what baseapp.runMsgs does for a message (a failed message leaves no change).
func Exec(ctx sdk.Context, f func(ctx sdk.Context) error) (cls Class, err error) {
	cctx, write := ctx.CacheContext()
	defer func() {
		if r := recover(); r != nil {
			cls, err = Panic, fmt.Errorf("panic: %v", r)
		}
	}()
	if e := f(cctx); e != nil {
		return Err, e
	}
	write()
	return OK, nil
}

// RunSeqs runs n independent sequences on `workers` goroutines. Each worker builds its own world
// once (mk) and every sequence gets its own PRNG stream, so a sequence can be re-run alone
// (VERIF_ONLY_SEQ=k).
func RunSeqs[W any](n, workers int, r *c.Rng, mk func() W, fn func(w W, seq int, r *c.Rng)) {
	if workers < 1 {
		workers = 1
	}
	only := -1
	if s := c.EnvInt("VERIF_ONLY_SEQ", -1); s >= 0 {
		only = s
	}
	jobs := make(chan int, n)
	for i := 0; i < n; i++ {
		if only < 0 || only == i {
			jobs <- i
		}
	}
	close(jobs)
	var wg sync.WaitGroup
	for w := 0; w < workers; w++ {
		wg.Add(1)
		go func() {
			defer wg.Done()
			world := mk()
			for k := range jobs {
				fn(world, k, r.Fork(uint64(k)))
			}
		}()
	}
	wg.Wait()
}
