// Package common: PRNG, case writer and statistics shared by all correspondence harnesses.
package common

import (
	"time"
	"bufio"
	"encoding/json"
	"fmt"
	"math/big"
	"os"
	"sort"
	"strconv"
	"strings"
	"sync"
)

// ---------------------------------------------------------------- PRNG (splitmix64)

// Every harness process runs with a host time zone that is NOT UTC (and not a whole number of hours away from it):
// consensus code must not depend on the host's zone, so nothing may change; code that builds calendar dates from
// `time.Unix(...)`, `x.Local()` or `time.Now()` without converting to UTC then diverges from the (UTC) model and
// from the property's oracles instead of silently agreeing on a UTC host.
func init() { time.Local = time.FixedZone("verif+0930", 9*3600+1800) }

type Rng struct{ s uint64 }

func NewRng(seed uint64) *Rng { return &Rng{s: seed} }

// Fork derives an independent stream for sequence k (so sequences can be re-run alone).
func (r *Rng) Fork(k uint64) *Rng {
	// the fork's state is a full splitmix64 OUTPUT of (state + G·(k+1)), not a neighbour of it: a splitmix stream is
	// the sequence mix(s + G·j), so forks whose states differ by a small multiple of G (as `s ^ G·(k+1)` does for
	// small seeds) are shifted copies of one stream and the "independent" sequences repeat each other's choices
	z := r.s + 0x9e3779b97f4a7c15*(k+1)
	z = (z ^ (z >> 30)) * 0xbf58476d1ce4e5b9
	z = (z ^ (z >> 27)) * 0x94d049bb133111eb
	z ^= z >> 31
	return NewRng(z ^ 0xd1b54a32d192ed03)
}

func (r *Rng) U64() uint64 {
	r.s += 0x9e3779b97f4a7c15
	z := r.s
	z = (z ^ (z >> 30)) * 0xbf58476d1ce4e5b9
	z = (z ^ (z >> 27)) * 0x94d049bb133111eb
	return z ^ (z >> 31)
}
func (r *Rng) Intn(n int) int {
	if n <= 0 {
		return 0
	}
	return int(r.U64() % uint64(n))
}
func (r *Rng) Bool() bool         { return r.U64()&1 == 1 }
func (r *Rng) Chance(p int) bool  { return r.Intn(100) < p } // p percent
func (r *Rng) Range(lo, hi int64) int64 { // inclusive
	if hi <= lo {
		return lo
	}
	return lo + int64(r.U64()%uint64(hi-lo+1))
}

// BigBelow returns a uniform big integer in [0, n).
func (r *Rng) BigBelow(n *big.Int) *big.Int {
	if n.Sign() <= 0 {
		return big.NewInt(0)
	}
	words := n.BitLen()/64 + 2
	x := new(big.Int)
	for i := 0; i < words; i++ {
		x.Lsh(x, 64)
		x.Or(x, new(big.Int).SetUint64(r.U64()))
	}
	return x.Mod(x, n)
}

// BigBits returns a random non-negative integer of up to `bits` bits with a log-uniform size.
func (r *Rng) BigBits(bits int) *big.Int {
	b := r.Intn(bits) + 1
	return r.BigBelow(new(big.Int).Lsh(big.NewInt(1), uint(b)))
}

func Pick[T any](r *Rng, xs []T) T { return xs[r.Intn(len(xs))] }

// ---------------------------------------------------------------- environment

func Seed() uint64 {
	if s := os.Getenv("VERIF_SEED"); s != "" {
		if v, err := strconv.ParseUint(s, 10, 64); err == nil {
			return v
		}
		if v, err := strconv.ParseInt(s, 10, 64); err == nil {
			return uint64(v)
		}
	}
	return 1
}

func Tier() string {
	if t := os.Getenv("VERIF_TIER"); t == "thorough" {
		return "thorough"
	}
	return "quick"
}

// Budget scales a quick-tier count for the thorough tier and for change-directed amplification.
func Budget(quick, thorough int) int {
	n := quick
	if Tier() == "thorough" {
		n = thorough
	}
	if a := os.Getenv("VERIF_AMPLIFY"); a != "" {
		if v, err := strconv.Atoi(a); err == nil && v > 1 {
			n *= v
		}
	}
	return n
}

// ---------------------------------------------------------------- case writer

// Out collects TAB-separated case lines for the Lean driver and coverage statistics.
type Out struct {
	mu      sync.Mutex
	w       *bufio.Writer
	f       *os.File
	N       int
	Kinds   map[string]int // per (cmd|branch|result) signature
	Samples []string
	Notes   map[string]int // free counters: error kinds, branches, generator classes
	GoViol  []string       // violations detected on the Go side (invariant routes, panics)
}

func NewOut(path string) *Out {
	f, err := os.Create(path)
	if err != nil {
		panic(err)
	}
	return &Out{w: bufio.NewWriterSize(f, 1<<20), f: f, Kinds: map[string]int{}, Notes: map[string]int{}}
}

// Case writes one line. sig is the (branch, result class) signature used for distinct_nontrivial;
// an empty sig marks the case as trivial (not counted).
func (o *Out) Case(sig string, cmd string, fields ...string) {
	o.mu.Lock()
	defer o.mu.Unlock()
	line := cmd + "\t" + strings.Join(fields, "\t")
	if strings.ContainsAny(line, "\n\r") {
		panic("newline in case line")
	}
	o.w.WriteString(line)
	o.w.WriteByte('\n')
	o.N++
	if sig != "" {
		k := cmd + "|" + sig
		if o.Kinds[k] == 0 && len(o.Samples) < 40 {
			o.Samples = append(o.Samples, line)
		}
		o.Kinds[k]++
	}
}

func (o *Out) Note(k string) { o.mu.Lock(); o.Notes[k]++; o.mu.Unlock() }
func (o *Out) NoteN(k string, n int) { o.mu.Lock(); o.Notes[k] += n; o.mu.Unlock() }

// Violation records a property violation observed directly on the implementation
// (e.g. a registered invariant route reporting broken, a begin-block panic).
func (o *Out) Violation(desc string) {
	o.mu.Lock()
	defer o.mu.Unlock()
	if len(o.GoViol) < 50 {
		o.GoViol = append(o.GoViol, desc)
	}
}

type Stats struct {
	Evaluations        int            `json:"evaluations"`
	DistinctNontrivial int            `json:"distinct_nontrivial"`
	Kinds              map[string]int `json:"kinds"`
	Notes              map[string]int `json:"notes"`
	Samples            []string       `json:"samples"`
	GoViolations       []string       `json:"go_violations"`
	Seed               uint64         `json:"seed"`
	Tier               string         `json:"tier"`
}

// Close flushes the case file and writes the statistics JSON next to it (<path>.stats.json).
func (o *Out) Close() {
	o.w.Flush()
	o.f.Close()
	st := Stats{Evaluations: o.N, DistinctNontrivial: len(o.Kinds), Kinds: o.Kinds, Notes: o.Notes,
		Samples: o.Samples, GoViolations: o.GoViol, Seed: Seed(), Tier: Tier()}
	if st.GoViolations == nil {
		st.GoViolations = []string{}
	}
	b, _ := json.MarshalIndent(st, "", " ")
	os.WriteFile(o.f.Name()+".stats.json", b, 0o644)
}

// ---------------------------------------------------------------- formatting helpers

func B(b bool) string {
	if b {
		return "1"
	}
	return "0"
}

func Ints(xs []*big.Int) string {
	if len(xs) == 0 {
		return "-"
	}
	s := make([]string, len(xs))
	for i, x := range xs {
		s[i] = x.String()
	}
	return strings.Join(s, ",")
}

func Strs(xs []string) string {
	if len(xs) == 0 {
		return "-"
	}
	return strings.Join(xs, ",")
}

func SortedKeys[V any](m map[string]V) []string {
	ks := make([]string, 0, len(m))
	for k := range m {
		ks = append(ks, k)
	}
	sort.Strings(ks)
	return ks
}

// OutPath returns the case-file path given as the first CLI argument.
func OutPath() string {
	if len(os.Args) < 2 {
		fmt.Fprintln(os.Stderr, "usage: <harness> <cases-out-path> [args]")
		os.Exit(2)
	}
	return os.Args[1]
}

// Recover runs f and converts a panic into (true, message).
func Recover(f func()) (panicked bool, msg string) {
	defer func() {
		if r := recover(); r != nil {
			panicked = true
			msg = fmt.Sprint(r)
		}
	}()
	f()
	return
}

// EnvInt reads an integer environment variable.
func EnvInt(name string, def int) int {
	if s := os.Getenv(name); s != "" {
		if v, err := strconv.Atoi(s); err == nil {
			return v
		}
	}
	return def
}

// Workers is the number of parallel workers to use (VERIF_WORKERS, default 8).
func Workers() int { return EnvInt("VERIF_WORKERS", 8) }
