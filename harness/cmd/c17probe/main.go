package main

import (
	"fmt"

	sdk "github.com/cosmos/cosmos-sdk/types"
	"github.com/cosmos/cosmos-sdk/x/params"
	paramsproposal "github.com/cosmos/cosmos-sdk/x/params/types/proposal"

	ctypes "github.com/kava-labs/kava/x/committee/types"
	"kavaverif/harness/kapp"
)

func main() {
	tApp, ctx := kapp.NewApp()
	pk := tApp.GetParamsKeeper()
	h := params.NewParamChangeProposalHandler(pk)
	show := func(ss, key string) string {
		s, ok := pk.GetSubspace(ss)
		if !ok {
			fmt.Println("no subspace", ss)
			return ""
		}
		raw := s.GetRaw(ctx, []byte(key))
		fmt.Printf("%s/%s = %s\n", ss, key, raw)
		return string(raw)
	}
	set := func(ss, key, val string) {
		cls, err := kapp.Exec(ctx, func(c sdk.Context) error {
			return h(c, paramsproposal.NewParameterChangeProposal("t", "d", []paramsproposal.ParamChange{{Subspace: ss, Key: key, Value: val}}))
		})
		fmt.Println("set", ss, key, cls, err)
	}
	for _, p := range [][2]string{{"cdp", "CollateralParams"}, {"cdp", "DebtParam"}, {"cdp", "GlobalDebtLimit"}, {"cdp", "SurplusThreshold"}, {"hard", "MoneyMarkets"}, {"pricefeed", "Markets"}, {"bep3", "AssetParams"}, {"incentive", "USDXMintingRewardPeriods"}, {"kavadist", "Periods"}, {"kavadist", "Active"}, {"issuance", "Assets"}, {"savings", "SupportedDenoms"}, {"auction", "MaxAuctionDuration"}, {"swap", "AllowedPools"}} {
		show(p[0], p[1])
	}
	// pricefeed market inactive
	set("pricefeed", "Markets", `[{"market_id":"bnb:usd","base_asset":"bnb","quote_asset":"usd","oracles":["kava1wuzhkn2f8nqe2aprnwt3jkjvvr9m7dlkpumtz2"],"active":false}]`)
	cur := show("pricefeed", "Markets")
	_ = cur
	perm := ctypes.AllowedParamsChange{Subspace: "pricefeed", Key: "Markets", MultiSubparamsRequirements: []ctypes.SubparamRequirement{{Key: "market_id", Val: "bnb:usd", AllowedSubparamAttrChanges: []string{"oracles"}}}}
	inc := `[{"market_id":"bnb:usd","base_asset":"bnb","quote_asset":"usd","active":true}]`
	ch := paramsproposal.ParamChange{Subspace: "pricefeed", Key: "Markets", Value: inc}
	fmt.Println("allows:", ctypes.VerifAllowsParamChange(perm, ctx, ch, pk))
	set("pricefeed", "Markets", inc)
	show("pricefeed", "Markets")
	// single: cdp DebtParam? kavadist? find single struct with omitempty
	set("cdp", "DebtParam", `{"denom":"usdx","reference_asset":"usd","conversion_factor":"6","debt_floor":"1000"}`)
	show("cdp", "DebtParam")
	set("cdp", "DebtParam", `{"conversion_factor":"7","debt_floor":"1000"}`)
	show("cdp", "DebtParam")
	set("cdp", "DebtParam", `{"denom":"usdx","reference_asset":"usd","conversion_factor":"6","debt_floor":"1000","debt_floor":"1001","Denom":"zzz"}`)
	show("cdp", "DebtParam")
	set("cdp", "DebtParam", `{"denom":null,"reference_asset":"usd","conversion_factor":"6","debt_floor":"1000"}`)
	show("cdp", "DebtParam")
}
