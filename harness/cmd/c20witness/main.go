// c20witness: replays the C20 finding "delegated-vesting record absorbs a new lock-up" on the real app
// with real messages (staking MsgDelegate, bank MsgSend) around the incentive payout function.
//
//	go run -tags verif ./cmd/c20witness
package main

import (
	"fmt"
	"time"

	sdk "github.com/cosmos/cosmos-sdk/types"
	authtypes "github.com/cosmos/cosmos-sdk/x/auth/types"
	bankkeeper "github.com/cosmos/cosmos-sdk/x/bank/keeper"
	banktypes "github.com/cosmos/cosmos-sdk/x/bank/types"
	stakingkeeper "github.com/cosmos/cosmos-sdk/x/staking/keeper"
	stakingtypes "github.com/cosmos/cosmos-sdk/x/staking/types"

	"github.com/kava-labs/kava/app"
	incentivetypes "github.com/kava-labs/kava/x/incentive/types"

	"kavaverif/harness/kapp"
)

func must(err error) {
	if err != nil {
		panic(err)
	}
}

func main() {
	_, addrs := app.GeneratePrivKeyAddressPairs(2)
	user, friend := addrs[0], addrs[1]
	tApp, ctx := kapp.NewApp()
	ak, bk, sk, ik := tApp.GetAccountKeeper(), tApp.GetBankKeeper(), tApp.GetStakingKeeper(), tApp.GetIncentiveKeeper()
	t0 := kapp.GenTime.Unix()
	show := func(label string, ctx sdk.Context) {
		fmt.Printf("%-46s t=T0%+5d  balance=%-9s locked=%-9s spendable=%-9s\n", label, ctx.BlockTime().Unix()-t0,
			bk.GetAllBalances(ctx, user), bk.LockedCoins(ctx, user), bk.SpendableCoins(ctx, user))
	}
	u := func(n int64) sdk.Coins { return sdk.NewCoins(sdk.NewInt64Coin("ukava", n)) }

	acc := authtypes.NewBaseAccountWithAddress(user)
	acc.AccountNumber = ak.NextAccountNumber(ctx)
	ak.SetAccount(ctx, acc)
	must(bk.MintCoins(ctx, incentivetypes.IncentiveMacc, u(1000)))

	// 1. first reward: 100 ukava locked for 1000 s
	must(ik.SendTimeLockedCoinsToAccount(ctx, incentivetypes.IncentiveMacc, user, u(100), 1000))
	show("after payout #1 (100 ukava, lock-up 1000 s)", ctx)

	// 2. the user stakes the locked coins (allowed: vesting coins may be delegated)
	val := sk.GetAllValidators(ctx)[0]
	_, err := stakingkeeper.NewMsgServerImpl(sk).Delegate(sdk.WrapSDKContext(ctx),
		stakingtypes.NewMsgDelegate(user, val.GetOperator(), sdk.NewInt64Coin("ukava", 100)))
	must(err)
	show("after MsgDelegate 100 ukava", ctx)

	// 3. the first lock-up ends; the coins stay staked
	ctx = ctx.WithBlockTime(time.Unix(t0+2000, 0).UTC())
	show("first lock-up over, still staked", ctx)

	// 4. second reward: 50 ukava locked for 1000 s (until T0+3000)
	must(ik.SendTimeLockedCoinsToAccount(ctx, incentivetypes.IncentiveMacc, user, u(50), 1000))
	show("after payout #2 (50 ukava, lock-up 1000 s)", ctx)
	pva := ak.GetAccount(ctx, user)
	fmt.Printf("account: %T vesting(now)=%s\n", pva, pva.(interface {
		GetVestingCoins(time.Time) sdk.Coins
	}).GetVestingCoins(ctx.BlockTime()))

	// 5. the user spends the freshly "locked" reward 999 s before the lock-up end
	_, err = bankkeeper.NewMsgServerImpl(bk).Send(sdk.WrapSDKContext(ctx), banktypes.NewMsgSend(user, friend, u(50)))
	fmt.Printf("MsgSend 50 ukava to a friend at T0+2000 (lock-up end T0+3000): err=%v\n", err)
	show("after MsgSend", ctx)
	fmt.Printf("friend balance: %s\n", bk.GetAllBalances(ctx, friend))
}
