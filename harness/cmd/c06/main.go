// c06: correspondence harness for x/auction (property C06), keeper level.
// Drives the real keeper of app.NewTestApp() (StartSurplus/Debt/CollateralAuction, PlaceBid,
// CloseAuction, BeginBlocker) and prints one self-contained case per call: observed pre-state
// (auction store, raw by-time index, balances of all parties), the call, its result class and the
// observed post-state.  The module's own three invariants are evaluated on every post-state.
//
// Parameters are NOT fixed per sequence: governance events (case c06.gov) change durations and increments
// while auctions are open, through kapp.SetParams (keeper route and x/params subspace route alternate).  The
// parameters written on every case line are read back from the x/params subspace (kapp.ReadParams) right
// before the call — the parameters IN FORCE — never remembered by the harness and never read via the keeper.
package main

import (
	"encoding/binary"
	"fmt"
	"math/big"
	"strconv"
	"strings"
	"time"

	sdkmath "cosmossdk.io/math"
	sdk "github.com/cosmos/cosmos-sdk/types"
	authtypes "github.com/cosmos/cosmos-sdk/x/auth/types"

	"github.com/kava-labs/kava/app"
	"github.com/kava-labs/kava/x/auction"
	auctionkeeper "github.com/kava-labs/kava/x/auction/keeper"
	auctiontypes "github.com/kava-labs/kava/x/auction/types"
	cdptypes "github.com/kava-labs/kava/x/cdp/types"
	hardtypes "github.com/kava-labs/kava/x/hard/types"
	swaptypes "github.com/kava-labs/kava/x/swap/types"

	c "kavaverif/harness/common"
	"kavaverif/harness/kapp"
)

const nilIdx = 99

var denoms = []string{"ukava", "usdx", "bnb", "debt"}

type party struct {
	addr   sdk.AccAddress
	module string
}

type world struct {
	tApp    app.TestApp
	base    sdk.Context
	parties []party
	byAddr  map[string]int
	blocked, minter, burner []bool
}

const (
	pM     = 0 // auction module account
	pLiq   = 1 // cdp liquidator: minter + burner
	pHard  = 2 // hard: minter only
	pSwap  = 3 // swap: no permission
	pUser0 = 4
	nUsers = 6
)

func mkWorld() *world {
	_, addrs := app.GeneratePrivKeyAddressPairs(nUsers)
	tApp, ctx := kapp.NewApp()
	ak := tApp.GetAccountKeeper()
	bk := tApp.GetBankKeeper()
	w := &world{tApp: tApp, base: ctx, byAddr: map[string]int{}}
	for _, name := range []string{auctiontypes.ModuleName, cdptypes.LiquidatorMacc, hardtypes.ModuleAccountName, swaptypes.ModuleName} {
		acc := ak.GetModuleAccount(ctx, name)
		w.parties = append(w.parties, party{addr: acc.GetAddress(), module: name})
		w.minter = append(w.minter, acc.HasPermission(authtypes.Minter))
		w.burner = append(w.burner, acc.HasPermission(authtypes.Burner))
	}
	for _, a := range addrs {
		w.parties = append(w.parties, party{addr: a})
		w.minter = append(w.minter, false)
		w.burner = append(w.burner, false)
	}
	for i, p := range w.parties {
		w.byAddr[p.addr.String()] = i
		w.blocked = append(w.blocked, bk.BlockedAddr(p.addr))
	}
	return w
}

func (w *world) idx(a sdk.AccAddress) int {
	if a.Empty() {
		return nilIdx
	}
	i, ok := w.byAddr[a.String()]
	if !ok {
		panic("harness: address outside the party set: " + a.String())
	}
	return i
}

func tns(t time.Time) *big.Int {
	x := new(big.Int).Mul(big.NewInt(t.Unix()), big.NewInt(1000000000))
	return x.Add(x, big.NewInt(int64(t.Nanosecond())))
}

func dIdx(d string) int {
	for i, x := range denoms {
		if x == d {
			return i
		}
	}
	panic("harness: unknown denom " + d)
}

// ---------------------------------------------------------------- observation

type auc struct {
	key                        uint64
	id                         uint64
	kind                       string
	initiator                  int
	lotD, bidD, debtD          int
	lot, bid, debt, maxBid     *big.Int
	bidder                     int
	has                        bool
	end, maxEnd                time.Time
	addrs                      []int
	weights                    []*big.Int
}

type obs struct {
	nextID uint64
	aucs   []auc
	index  []string
	bals   [][]*big.Int
}

func (w *world) modIdx(name string) int {
	for i, p := range w.parties {
		if p.module == name {
			return i
		}
	}
	panic("harness: unknown initiator " + name)
}

func (w *world) observe(ctx sdk.Context) obs {
	k := w.tApp.GetAuctionKeeper()
	bk := w.tApp.GetBankKeeper()
	var o obs
	id, err := k.GetNextAuctionID(ctx)
	if err != nil {
		panic(err)
	}
	o.nextID = id
	k.VerifIterateAuctionStoreRaw(ctx, func(key []byte, a auctiontypes.Auction) bool {
		x := auc{key: binary.BigEndian.Uint64(key), id: a.GetID(), initiator: w.modIdx(a.GetInitiator()),
			lotD: dIdx(a.GetLot().Denom), lot: a.GetLot().Amount.BigInt(), bidD: dIdx(a.GetBid().Denom), bid: a.GetBid().Amount.BigInt(),
			bidder: w.idx(a.GetBidder()), end: a.GetEndTime(), maxEnd: a.GetMaxEndTime(), debt: big.NewInt(0), maxBid: big.NewInt(0)}
		switch t := a.(type) {
		case *auctiontypes.SurplusAuction:
			x.kind, x.has = "s", t.HasReceivedBids
		case *auctiontypes.DebtAuction:
			x.kind, x.has = "d", t.HasReceivedBids
			x.debtD, x.debt = dIdx(t.CorrespondingDebt.Denom), t.CorrespondingDebt.Amount.BigInt()
		case *auctiontypes.CollateralAuction:
			x.kind, x.has = "c", t.HasReceivedBids
			x.debtD, x.debt = dIdx(t.CorrespondingDebt.Denom), t.CorrespondingDebt.Amount.BigInt()
			x.maxBid = t.MaxBid.Amount.BigInt()
			if t.MaxBid.Denom != t.Bid.Denom {
				panic("harness: max bid denom differs from bid denom")
			}
			for i, ad := range t.LotReturns.Addresses {
				x.addrs = append(x.addrs, w.idx(ad))
				x.weights = append(x.weights, t.LotReturns.Weights[i].BigInt())
			}
		default:
			panic("harness: unknown auction type")
		}
		o.aucs = append(o.aucs, x)
		return false
	})
	k.VerifIterateByTimeIndexRaw(ctx, func(key, val []byte) bool {
		if len(key) < 8 || len(val) != 8 {
			panic("harness: malformed index entry")
		}
		t, err := sdk.ParseTimeBytes(key[:len(key)-8])
		if err != nil {
			panic(err)
		}
		o.index = append(o.index, fmt.Sprintf("%s:%d:%d", tns(t), binary.BigEndian.Uint64(key[len(key)-8:]), binary.BigEndian.Uint64(val)))
		return false
	})
	for _, p := range w.parties {
		row := make([]*big.Int, len(denoms))
		for j, d := range denoms {
			row[j] = bk.GetBalance(ctx, p.addr, d).Amount.BigInt()
		}
		o.bals = append(o.bals, row)
	}
	return o
}

func intsOf(xs []int) string {
	if len(xs) == 0 {
		return "-"
	}
	s := make([]string, len(xs))
	for i, x := range xs {
		s[i] = strconv.Itoa(x)
	}
	return strings.Join(s, ",")
}

func (a auc) String() string {
	return fmt.Sprintf("%d:%d:%s:%d:%d:%s:%d:%d:%s:%s:%s:%s:%d:%s:%s:%s:%s", a.key, a.id, a.kind, a.initiator, a.lotD, a.lot,
		a.bidder, a.bidD, a.bid, c.B(a.has), tns(a.end), tns(a.maxEnd), a.debtD, a.debt, a.maxBid, intsOf(a.addrs), c.Ints(a.weights))
}

func (o obs) fields() []string {
	as := make([]string, len(o.aucs))
	for i, a := range o.aucs {
		as[i] = a.String()
	}
	rows := make([]string, len(o.bals))
	for i, r := range o.bals {
		rows[i] = c.Ints(r)
	}
	j := func(xs []string) string {
		if len(xs) == 0 {
			return "-"
		}
		return strings.Join(xs, ";")
	}
	return []string{strconv.FormatUint(o.nextID, 10), j(as), j(o.index), j(rows)}
}

// ---------------------------------------------------------------- generators

func bi(x int64) *big.Int { return big.NewInt(x) }

func coin(d int, amt *big.Int) sdk.Coin {
	// struct literal: sdk.NewCoin panics on a negative amount, the keeper must refuse it itself
	return sdk.Coin{Denom: denoms[d], Amount: sdkmath.NewIntFromBigInt(amt)}
}

func incOf(old *big.Int, inc sdk.Dec) *big.Int {
	return sdk.MaxInt(sdkmath.NewInt(1), sdk.NewDecFromInt(sdkmath.NewIntFromBigInt(old)).Mul(inc).RoundInt()).BigInt()
}

type paramSet struct {
	maxDur, fwdDur, revDur time.Duration
	incS, incD, incC       sdk.Dec
}

func pickParams(r *c.Rng) paramSet {
	durs := [][3]time.Duration{
		{48 * time.Hour, 24 * time.Hour, time.Hour},
		{10 * time.Second, 6 * time.Second, 3 * time.Second},
		{10 * time.Second, 10 * time.Second, 10 * time.Second},
		{7 * time.Second, 2 * time.Second, 5 * time.Second},
		{5 * time.Second, 0, 0},
		{1, 1, 1},
	}
	incs := []string{"0.05", "0.05", "0", "0.5", "0.000000000000000001", "0.333333333333333333", "1", "0.1"}
	d := durs[r.Intn(len(durs))]
	return paramSet{d[0], d[1], d[2], sdk.MustNewDecFromStr(c.Pick(r, incs)), sdk.MustNewDecFromStr(c.Pick(r, incs)), sdk.MustNewDecFromStr(c.Pick(r, incs))}
}

// readParams: the auction parameters in force, straight from the x/params subspace (what governance wrote)
func (w *world) readParams(ctx sdk.Context) paramSet {
	var ap auctiontypes.Params
	kapp.ReadParams(w.tApp, ctx, "auction", &ap)
	return paramSet{ap.MaxAuctionDuration, ap.ForwardBidDuration, ap.ReverseBidDuration, ap.IncrementSurplus, ap.IncrementDebt, ap.IncrementCollateral}
}

func (ps paramSet) fields() []string {
	return []string{strconv.FormatInt(int64(ps.maxDur), 10), strconv.FormatInt(int64(ps.fwdDur), 10), strconv.FormatInt(int64(ps.revDur), 10),
		ps.incS.BigInt().String(), ps.incD.BigInt().String(), ps.incC.BigInt().String()}
}

var govIncs = []string{"0", "0.000000000000000001", "0.005", "0.05", "0.1", "0.125", "0.25", "0.333333333333333333", "0.5", "0.999999999999999999",
	"1", "1.000000000000000001", "1.5", "2.5", "10", "1000000"}

// tieInc: an increment for which x * inc is exactly k + 1/2 (RoundInt is on its half-even tie), j odd
func tieInc(x *big.Int, j int64) (sdk.Dec, bool) {
	if x.Sign() <= 0 {
		return sdk.Dec{}, false
	}
	a := x.TrailingZeroBits()
	if a > 17 {
		return sdk.Dec{}, false
	}
	// j / 2^(a+1) with 18 decimals: j * 5^(a+1) * 10^(17-a)
	m := new(big.Int).Exp(bi(5), bi(int64(a)+1), nil)
	m.Mul(m, new(big.Int).Exp(bi(10), bi(17-int64(a)), nil))
	m.Mul(m, bi(j))
	return sdkmath.LegacyNewDecFromBigIntWithPrec(m, 18), true
}

// govChange: a parameter change a governance / committee proposal could enact while auctions are open.
// Returns the new set and a label of what was changed (coverage accounting).
func govChange(r *c.Rng, ps paramSet, pre obs, now time.Time) (paramSet, string) {
	var open, bidOn []auc
	for _, a := range pre.aucs {
		open = append(open, a)
		if a.has {
			bidOn = append(bidOn, a)
		}
	}
	n := ps
	durShort := func(d time.Duration) time.Duration {
		switch r.Intn(4) {
		case 0:
			return 0
		case 1:
			return 1
		case 2:
			return d / 2
		default:
			return time.Duration(r.Range(0, int64(d)))
		}
	}
	durLong := func(d time.Duration) time.Duration {
		switch r.Intn(3) {
		case 0:
			return d + 1
		case 1:
			return 2*d + time.Second
		default:
			return d + time.Duration(r.Range(1, int64(10*time.Second)))
		}
	}
	what := ""
	switch r.Intn(12) {
	case 0:
		n.fwdDur, what = durShort(ps.fwdDur), "fwd-short"
	case 1:
		n.fwdDur, what = durLong(ps.fwdDur), "fwd-long"
	case 2:
		n.revDur, what = durShort(ps.revDur), "rev-short"
	case 3:
		n.revDur, what = durLong(ps.revDur), "rev-long"
	case 4, 5: // max auction duration shortened: below the remaining life / the age of a running auction
		what = "max-short"
		n.maxDur = durShort(ps.maxDur)
		if len(bidOn) > 0 {
			a := bidOn[r.Intn(len(bidOn))]
			switch r.Intn(4) {
			case 0: // now + maxDur lands strictly before the auction's own max end
				if left := a.maxEnd.Sub(now); left > 1 {
					n.maxDur, what = time.Duration(r.Range(0, int64(left)-1)), "max-below-left"
				}
			case 1: // ... strictly before its current end
				if left := a.end.Sub(now); left > 1 {
					n.maxDur, what = time.Duration(r.Range(0, int64(left)-1)), "max-below-end"
				}
			case 2: // exactly the remaining life
				if left := a.maxEnd.Sub(now); left >= 0 {
					n.maxDur, what = left, "max-eq-left"
				}
			}
		}
	case 6:
		n.maxDur, what = durLong(ps.maxDur), "max-long"
	case 7, 8, 9: // one increment, to a table value or to a value that puts a standing amount on a rounding tie
		which := r.Intn(3)
		v := sdk.MustNewDecFromStr(c.Pick(r, govIncs))
		what = "inc-table"
		if len(open) > 0 && r.Chance(45) {
			a := open[r.Intn(len(open))]
			x := a.bid
			which = 0
			if a.kind == "d" {
				x, which = a.lot, 1
			} else if a.kind == "c" {
				which = 2
				if a.bid.Cmp(a.maxBid) == 0 {
					x = a.lot
				}
			}
			if t, ok := tieInc(x, []int64{1, 1, 3, 5}[r.Intn(4)]); ok {
				v, what = t, "inc-tie"
			}
		}
		switch which {
		case 0:
			n.incS = v
		case 1:
			n.incD = v
		default:
			n.incC = v
		}
		what += []string{"-s", "-d", "-c"}[which]
	case 10: // all three increments at once
		n.incS, n.incD, n.incC = sdk.MustNewDecFromStr(c.Pick(r, govIncs)), sdk.MustNewDecFromStr(c.Pick(r, govIncs)), sdk.MustNewDecFromStr(c.Pick(r, govIncs))
		what = "inc-all"
	default:
		n, what = pickParams(r), "all"
	}
	// Params.Validate (genesis, keeper-side callers) wants bid durations <= max duration; a per-key parameter
	// change proposal is only checked by the per-key validators, so both shapes occur on a live chain
	if (n.fwdDur > n.maxDur || n.revDur > n.maxDur) && r.Chance(60) {
		if n.fwdDur > n.maxDur {
			n.fwdDur = n.maxDur
		}
		if n.revDur > n.maxDur {
			n.revDur = n.maxDur
		}
		what += "+clamped"
	}
	return n, what
}

func smallAmt(r *c.Rng) *big.Int {
	switch r.Intn(8) {
	case 0:
		return bi(0)
	case 1:
		return bi(1)
	case 2:
		return bi(r.Range(2, 9))
	case 3, 4:
		return bi(r.Range(10, 200))
	case 5:
		return bi(r.Range(200, 5000))
	case 6:
		return bi(20*r.Range(0, 40) + 10) // 5 % of it is a rounding tie
	default:
		return r.BigBits(50)
	}
}

func (w *world) seq(out *c.Out, seq int, r *c.Rng) {
	ctx, _ := w.base.CacheContext()
	k := w.tApp.GetAuctionKeeper()
	if !w.blocked[pM] && seq < 4 {
		// EnvOk of the theorems: without it any user can send coins into the module account
		out.Violation("app wiring: the auction module account is not a blocked address of x/bank; custody (module balance = coins of open auctions) can be broken by a plain MsgSend")
	}
	ps := pickParams(r)
	ap := auctiontypes.NewParams(ps.maxDur, ps.fwdDur, ps.revDur, ps.incS, ps.incD, ps.incC)
	kapp.SetParams(w.tApp, ctx, "auction", &ap, func() { k.SetParams(ctx, ap) })
	// funding through real bank operations
	rich := r.Chance(70)
	for i := pLiq; i < len(w.parties); i++ {
		cs := sdk.Coins{}
		for d := range denoms {
			var amt *big.Int
			if rich || (w.parties[i].module != "" && r.Chance(85)) {
				amt = bi(r.Range(0, 1) * r.Range(1000, 1000000000))
				if r.Chance(70) {
					amt = new(big.Int).Add(r.BigBits(60), bi(1000))
				}
			} else {
				amt = smallAmt(r)
			}
			if amt.Sign() > 0 {
				cs = cs.Add(sdk.NewCoin(denoms[d], sdkmath.NewIntFromBigInt(amt)))
			}
		}
		if cs.Empty() {
			continue
		}
		if w.parties[i].module != "" {
			must(w.tApp.FundModuleAccount(ctx, w.parties[i].module, cs))
		} else {
			must(w.tApp.FundAccount(ctx, w.parties[i].addr, cs))
		}
	}
	now := kapp.GenTime.Add(time.Duration(r.Range(0, 5)) * time.Second)
	ctx = ctx.WithBlockTime(now)
	DF := tns(auctiontypes.DistantFuture)
	envS := []string{strconv.Itoa(pM), strconv.Itoa(nilIdx), bools(w.blocked), bools(w.minter), bools(w.burner), DF.String()}
	// how often governance acts in this history: never (the fixed-parameter histories of before), rarely, often
	govRate := []int{0, 4, 10, 10, 25}[r.Intn(5)]
	afterGov := 0 // calls left that are directed at the open auctions right after a parameter change

	nops := c.Budget(60, 150)
	for i := 0; i < nops; i++ {
		pre := w.observe(ctx)
		// ---- governance: parameters change while auctions are open
		if len(pre.aucs) > 0 && r.Chance(govRate) {
			old := w.readParams(ctx)
			nps, what := govChange(r, old, pre, now)
			ap := auctiontypes.NewParams(nps.maxDur, nps.fwdDur, nps.revDur, nps.incS, nps.incD, nps.incC)
			kapp.SetParams(w.tApp, ctx, "auction", &ap, func() { k.SetParams(ctx, ap) })
			post := w.observe(ctx)
			inForce := w.readParams(ctx)
			nb := 0
			for _, a := range pre.aucs {
				if a.has {
					nb++
				}
			}
			if nb > 2 {
				nb = 2
			}
			fields := append([]string{}, envS...)
			fields = append(fields, old.fields()...)
			fields = append(fields, inForce.fields()...)
			fields = append(fields, tns(now).String())
			fields = append(fields, pre.fields()...)
			fields = append(fields, "=>")
			fields = append(fields, post.fields()...)
			out.Case(fmt.Sprintf("gov|%s|withbids=%d", what, nb), "c06.gov", fields...)
			out.Note("gov:" + strings.SplitN(what, "+", 2)[0])
			if strings.Join(inForce.fields(), ",") != strings.Join(nps.fields(), ",") {
				out.Note("gov:store-differs-from-written") // not a property of C06; the cases carry what the store holds
			}
			pre = post
			afterGov = 2 + r.Intn(3)
		}
		// the parameters in force for this call: read from the store, not remembered
		ps = w.readParams(ctx)
		envF := append(append([]string{}, envS...), ps.fields()...)
		// ---- block time: stays, or moves to a boundary of some open auction
		moved := false
		if r.Chance(35) {
			var cands []time.Time
			for _, a := range pre.aucs {
				for _, t := range []time.Time{a.end, a.maxEnd} {
					if t.Before(auctiontypes.DistantFuture) {
						cands = append(cands, t.Add(-1), t, t.Add(1))
					}
				}
				if a.has && a.kind == "c" && a.bid.Cmp(a.maxBid) != 0 {
					// the window in which now + ReverseBidDuration passes the max end: a bid at MaxBid placed
					// here switches phase with the cap at MaxEndTime binding
					cands = append(cands, a.maxEnd.Add(-ps.revDur), a.maxEnd.Add(-ps.revDur).Add(1), a.maxEnd.Add(-ps.revDur/2), a.end.Add(-1), a.end.Add(-1))
				}
			}
			cands = append(cands, now.Add(time.Duration(r.Range(0, int64(ps.fwdDur)+int64(time.Second)))), now.Add(time.Duration(r.Range(0, int64(ps.revDur)+2))))
			t := cands[r.Intn(len(cands))]
			if r.Chance(40) {
				t = now.Add(time.Duration(r.Range(1, int64(time.Second))))
			}
			if t.After(now) {
				now = t
				ctx = ctx.WithBlockTime(now)
				moved = true
			}
		}
		var opS, sig string
		var f func(cx sdk.Context) error
		user := func() int { return pUser0 + r.Intn(nUsers) }
		roll := r.Intn(100)
		if moved && r.Chance(30) {
			roll = 99 // a new block usually starts with the begin blocker
		}
		directed := false
		if afterGov > 0 {
			afterGov--
			if roll < 18 && len(pre.aucs) > 0 { // further bids and closes under the new parameters rather than new auctions
				roll = 18 + r.Intn(82)
			}
			directed = true
		}
		switch {
		case roll < 18 && len(pre.aucs) < 6 || len(pre.aucs) == 0: // ---- start an auction
			seller := pLiq
			if r.Chance(25) {
				seller = pLiq + r.Intn(3)
			}
			kind := r.Intn(4)
			lotD, bidD, debtD := r.Intn(3), r.Intn(3), 3
			if r.Chance(85) { // mostly pairwise distinct denominations
				bidD = (lotD + 1 + r.Intn(2)) % 3
			} else if r.Chance(50) {
				debtD = r.Intn(4)
			}
			lot := smallAmt(r)
			if r.Chance(4) { // the seller's whole balance and one more
				lot = new(big.Int).Add(pre.bals[seller][lotD], bi(r.Range(0, 1)))
			}
			switch kind {
			case 0:
				opS = fmt.Sprintf("ss:%d:%d:%s:%d", seller, lotD, lot, bidD)
				sig = fmt.Sprintf("ss|seller=%d|lot0=%v", seller, lot.Sign() == 0)
				f = func(cx sdk.Context) error {
					_, err := k.StartSurplusAuction(cx, w.parties[seller].module, coin(lotD, lot), denoms[bidD])
					return err
				}
			case 1:
				bid, debt := smallAmt(r), smallAmt(r)
				if r.Chance(40) {
					debt = new(big.Int).Add(bid, bi(r.Range(-1, 1)))
					if debt.Sign() < 0 {
						debt = bi(0)
					}
				}
				opS = fmt.Sprintf("sd:%d:%d:%s:%d:%s:%d:%s", seller, bidD, bid, lotD, lot, debtD, debt)
				sig = fmt.Sprintf("sd|seller=%d|debt?bid=%d", seller, debt.Cmp(bid))
				f = func(cx sdk.Context) error {
					_, err := k.StartDebtAuction(cx, w.parties[seller].module, coin(bidD, bid), coin(lotD, lot), coin(debtD, debt))
					return err
				}
			default:
				if r.Chance(50) { // a lot large enough for a long reverse phase
					lot = bi(r.Range(50, 100000))
				}
				maxBid := new(big.Int).Add(smallAmt(r), bi(1))
				debt := smallAmt(r)
				if r.Chance(50) {
					debt = new(big.Int).Add(maxBid, bi(r.Range(-1, 1)))
				}
				na := int(r.Range(1, 4))
				var addrs []int
				var ws []*big.Int
				wmode := r.Intn(5)
				for j := 0; j < na; j++ {
					a := user()
					if r.Chance(3) {
						a = r.Intn(pUser0) // a module account as depositor (blocked)
					}
					addrs = append(addrs, a)
					switch wmode {
					case 0:
						ws = append(ws, bi(1))
					case 1:
						ws = append(ws, bi(r.Range(0, 3)))
					case 2:
						ws = append(ws, r.BigBits(40))
					default:
						ws = append(ws, bi(r.Range(1, 100)))
					}
				}
				bad := ""
				switch r.Intn(40) { // malformed weighted addresses
				case 0:
					ws = ws[:len(ws)-1]
					bad = "len"
				case 1:
					ws[0] = bi(-1)
					bad = "neg"
				case 2:
					for j := range ws {
						ws[j] = bi(0)
					}
					bad = "zero"
				}
				opS = fmt.Sprintf("sc:%d:%d:%s:%d:%s:%s:%s:%d:%s", seller, lotD, lot, bidD, maxBid, intsOf(addrs), c.Ints(ws), debtD, debt)
				sig = fmt.Sprintf("sc|seller=%d|n=%d|debt?max=%d|bad=%s", seller, na, debt.Cmp(maxBid), bad)
				f = func(cx sdk.Context) error {
					var as []sdk.AccAddress
					for _, a := range addrs {
						as = append(as, w.parties[a].addr)
					}
					var wi []sdkmath.Int
					for _, x := range ws {
						wi = append(wi, sdkmath.NewIntFromBigInt(x))
					}
					_, err := k.StartCollateralAuction(cx, w.parties[seller].module, coin(lotD, lot), coin(bidD, maxBid), as, wi, coin(debtD, debt))
					return err
				}
			}
		case roll < 80: // ---- bid
			a := pre.aucs[r.Intn(len(pre.aucs))]
			if a.kind != "c" && r.Chance(40) { // prefer two-phase auctions when there is one
				for _, x := range pre.aucs {
					if x.kind == "c" {
						a = x
					}
				}
			}
			id := a.id
			bidder := user()
			if r.Chance(25) && a.bidder >= pUser0 && a.bidder != nilIdx {
				bidder = a.bidder // re-bid by the standing bidder
			}
			fwd := a.kind == "s" || (a.kind == "c" && a.bid.Cmp(a.maxBid) != 0)
			var amt *big.Int
			den := a.lotD
			var cls string
			if fwd {
				den = a.bidD
				inc := ps.incS
				if a.kind == "c" {
					inc = ps.incC
				}
				min := new(big.Int).Add(a.bid, incOf(a.bid, inc))
				have := pre.bals[bidder][a.bidD]
				pick := r.Intn(12)
				if directed && r.Chance(60) {
					pick = r.Intn(4) // min-1 / min / min+1 under the increment in force
				}
				switch pick {
				case 0:
					amt, cls = new(big.Int).Sub(min, bi(1)), "min-1"
				case 1, 2:
					amt, cls = min, "min"
				case 3:
					amt, cls = new(big.Int).Add(min, bi(1)), "min+1"
				case 4:
					amt, cls = new(big.Int).Add(a.maxBid, bi(1)), "max+1"
				case 5, 6, 10:
					amt, cls = new(big.Int).Set(a.maxBid), "max"
				case 7:
					amt, cls = new(big.Int).Sub(a.maxBid, bi(1)), "max-1"
				case 8: // everything the bidder has, and one more
					amt, cls = new(big.Int).Add(have, bi(r.Range(0, 1))), "balance"
					if bidder == a.bidder {
						amt.Add(amt, a.bid)
					}
				case 9:
					amt, cls = new(big.Int).Add(a.bid, bi(r.Range(-1, 0))), "old"
				default:
					span := new(big.Int).Sub(a.maxBid, min)
					if a.kind == "s" || span.Sign() <= 0 {
						span = new(big.Int).Add(min, bi(10))
					}
					amt, cls = new(big.Int).Add(min, r.BigBelow(new(big.Int).Add(span, bi(1)))), "between"
				}
			} else {
				inc := ps.incD
				if a.kind == "c" {
					inc = ps.incC
				}
				max := new(big.Int).Sub(a.lot, incOf(a.lot, inc))
				pick := r.Intn(12)
				if directed && r.Chance(60) {
					pick = r.Intn(4) // max+1 / max / max-1 under the increment in force
				}
				switch pick {
				case 0:
					amt, cls = new(big.Int).Add(max, bi(1)), "max+1"
				case 1, 2:
					amt, cls = max, "max"
				case 3:
					amt, cls = new(big.Int).Sub(max, bi(1)), "max-1"
				case 4:
					amt, cls = bi(0), "zero"
				case 5:
					amt, cls = bi(-1), "negative"
				case 6:
					amt, cls = new(big.Int).Set(a.lot), "old"
				default:
					if max.Sign() > 0 {
						amt, cls = r.BigBelow(new(big.Int).Add(max, bi(1))), "between"
						if r.Chance(70) { // stay in the upper tenth so that the reverse phase lasts
							amt = new(big.Int).Sub(max, r.BigBelow(new(big.Int).Add(new(big.Int).Quo(max, bi(10)), bi(1))))
						}
					} else {
						amt, cls = bi(0), "zero"
					}
				}
			}
			if fwd && a.kind == "c" && a.has && now.After(a.maxEnd.Add(-ps.revDur)) && !now.After(a.end) && r.Chance(60) {
				// directed: phase switch late in the window, paid by the user who can afford it best
				amt, cls = new(big.Int).Set(a.maxBid), "max-late"
				for u := pUser0; u < pUser0+nUsers; u++ {
					if pre.bals[u][a.bidD].Cmp(pre.bals[bidder][a.bidD]) > 0 {
						bidder = u
					}
				}
			} else if fwd && a.kind == "c" && a.has && !now.After(a.end) && a.end.Before(a.maxEnd) && r.Chance(25) {
				// keep the auction alive with the smallest admissible forward bid
				inc := incOf(a.bid, ps.incC)
				m := new(big.Int).Add(a.bid, inc)
				if m.Cmp(a.maxBid) < 0 {
					amt, cls = m, "min-keepalive"
				}
			}
			if r.Chance(4) {
				den = (den + 1) % 3
				cls = "wrong-denom"
			}
			if r.Chance(4) {
				id = pre.nextID + uint64(r.Intn(2))
				cls = "missing"
			}
			phase := "fwd"
			if !fwd {
				phase = "rev"
			}
			tc := "before"
			if now.Equal(a.end) {
				tc = "at-end"
			} else if now.After(a.end) {
				tc = "after-end"
			}
			first := !a.has
			self := bidder == a.bidder
			amtF := amt
			opS = fmt.Sprintf("pb:%d:%d:%d:%s", id, bidder, den, amt)
			sig = fmt.Sprintf("pb|%s|%s|%s|%s|first=%v|self=%v|ini=%d|debt=%v", a.kind, phase, cls, tc, first, self, a.initiator, a.debt.Sign() > 0)
			f = func(cx sdk.Context) error { return k.PlaceBid(cx, id, w.parties[bidder].addr, coin(den, amtF)) }
		case roll < 88: // ---- close one auction directly
			a := pre.aucs[r.Intn(len(pre.aucs))]
			id := a.id
			if r.Chance(10) {
				id = pre.nextID
			}
			tc := "before"
			if now.Equal(a.end) {
				tc = "at-end"
			} else if now.After(a.end) {
				tc = "after-end"
			}
			opS = fmt.Sprintf("cl:%d", id)
			sig = fmt.Sprintf("cl|%s|%s|debt=%v|missing=%v", a.kind, tc, a.debt.Sign() > 0, id != a.id)
			f = func(cx sdk.Context) error { return k.CloseAuction(cx, id) }
		default: // ---- begin block
			nexp := 0
			for _, a := range pre.aucs {
				if !a.end.After(now) {
					nexp++
				}
			}
			if nexp > 3 {
				nexp = 3
			}
			opS = "bb"
			sig = fmt.Sprintf("bb|expired=%d", nexp)
			f = func(cx sdk.Context) error { auction.BeginBlocker(cx, k); return nil }
		}
		cls, err := kapp.Exec(ctx, f)
		post := w.observe(ctx)
		if err != nil {
			out.Note("err:" + errClass(err))
		}
		out.Note("op:" + strings.SplitN(opS, ":", 2)[0] + ":" + string(cls))
		fields := append([]string{}, envF...)
		fields = append(fields, tns(now).String())
		fields = append(fields, pre.fields()...)
		fields = append(fields, opS, "=>", string(cls))
		fields = append(fields, post.fields()...)
		out.Case(sig+"|"+string(cls), "c06.op", fields...)
		if opS == "bb" && cls != kapp.OK {
			out.Violation(fmt.Sprintf("seq=%d op=%d auction BeginBlocker did not complete (%s): %v", seq, i, cls, err))
		}
		if cls == kapp.OK {
			for name, inv := range map[string]sdk.Invariant{"module-account": auctionkeeper.ModuleAccountInvariants(k),
				"valid-auctions": auctionkeeper.ValidAuctionInvariant(k), "valid-index": auctionkeeper.ValidIndexInvariant(k)} {
				if msg, broken := inv(ctx); broken {
					out.Violation(fmt.Sprintf("seq=%d op=%d %s: auction invariant %s broken: %s", seq, i, opS, name, strings.ReplaceAll(msg, "\n", " ")))
				}
			}
		}
	}
}

func bools(xs []bool) string {
	s := make([]string, len(xs))
	for i, x := range xs {
		s[i] = c.B(x)
	}
	return strings.Join(s, ",")
}

func errClass(err error) string {
	s := err.Error()
	for _, k := range []string{"insufficient funds", "is not allowed to receive", "auction not found", "auction has closed", "auction can't be closed",
		"bid is not greater", "bid is greater than auction's max bid", "lot is greater than auction's", "lot is not greater than", "lot is less than",
		"bid denom", "lot denom", "panic", "weight", "address"} {
		if strings.Contains(s, k) {
			return k
		}
	}
	if len(s) > 40 {
		s = s[:40]
	}
	return "other:" + s
}

func must(err error) {
	if err != nil {
		panic(err)
	}
}

func main() {
	out := c.NewOut(c.OutPath())
	defer out.Close()
	r := c.NewRng(c.Seed())
	n := c.Budget(400, 5000)
	kapp.RunSeqs(n, c.Workers(), r, mkWorld, func(w *world, seq int, r *c.Rng) { w.seq(out, seq, r) })
}
