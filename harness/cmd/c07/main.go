// c07: correspondence harness for the x/swap keeper (property C07).
// Drives the real msg server (ValidateBasic + handler, as baseapp does) over several accounts and
// pools and prints one self-contained case per message: observed pre-state, message, result class,
// observed post-state (format: lean/Driver/C07.lean, command c07.k).  After every successful message
// the module's registered invariants are run on the real state.
//
// Governance acts WHILE pools exist (case c07.gov): the swap fee changes between swaps, pools holding liquidity
// are removed from the allowed list and re-added later, new pools are allowed mid-run.  The fee and the allowed
// list written on every case line are read back from the x/params subspace right before the message
// (kapp.ReadParams): the parameters in force, never a value remembered by the harness or served by the keeper.
// A history uses 3 denominations (3 pools) or 4 (6 pools, every denomination shared by three pools).
package main

import (
	"fmt"
	"math/big"
	"strconv"
	"strings"

	sdkmath "cosmossdk.io/math"
	sdk "github.com/cosmos/cosmos-sdk/types"
	bankkeeper "github.com/cosmos/cosmos-sdk/x/bank/keeper"
	banktypes "github.com/cosmos/cosmos-sdk/x/bank/types"

	"github.com/kava-labs/kava/app"
	swapkeeper "github.com/kava-labs/kava/x/swap/keeper"
	swaptypes "github.com/kava-labs/kava/x/swap/types"

	c "kavaverif/harness/common"
	"kavaverif/harness/kapp"
)

// denominations in lexical order: index order = the order types.PoolID sorts them
var denoms = []string{"bnb", "hard", "ukava", "usdx"}

type pid struct{ lo, hi int }

// pool ids over the first nD denominations, in the order of Drv.C07.pairs: (0,1),(0,2),…,(1,2),…
func pairsOf(nD int) []pid {
	var ps []pid
	for i := 0; i < nD; i++ {
		for j := i + 1; j < nD; j++ {
			ps = append(ps, pid{i, j})
		}
	}
	return ps
}

const nA = 3

var P = new(big.Int).Exp(big.NewInt(10), big.NewInt(18), nil)

type world struct {
	tApp  app.TestApp
	base  sdk.Context
	addrs []sdk.AccAddress
	macc  sdk.AccAddress
	// per history (set on a copy of the worker's world): the denominations in play and their pool ids
	nD   int
	pids []pid
}

func mkWorld() *world {
	_, addrs := app.GeneratePrivKeyAddressPairs(nA)
	tApp, ctx := kapp.NewApp()
	w := &world{tApp: tApp, base: ctx, addrs: addrs}
	w.macc = tApp.GetAccountKeeper().GetModuleAccount(ctx, swaptypes.ModuleAccountName).GetAddress()
	return w
}

func bi(x int64) *big.Int             { return big.NewInt(x) }
func si(x *big.Int) sdkmath.Int       { return sdkmath.NewIntFromBigInt(x) }
func add(a, b *big.Int) *big.Int      { return new(big.Int).Add(a, b) }
func sub(a, b *big.Int) *big.Int      { return new(big.Int).Sub(a, b) }
func mul(a, b *big.Int) *big.Int      { return new(big.Int).Mul(a, b) }
func quo(a, b *big.Int) *big.Int      { return new(big.Int).Quo(a, b) }
func dec(m *big.Int) sdk.Dec          { return sdkmath.LegacyNewDecFromBigIntWithPrec(m, 18) }
func coin(d int, x *big.Int) sdk.Coin { return sdk.Coin{Denom: denoms[d], Amount: si(x)} }
func poolName(p pid) string           { return swaptypes.PoolID(denoms[p.lo], denoms[p.hi]) }

type obs struct {
	pools  []*big.Int // 3 per pool id
	shares []*big.Int // nA x nPools
	bal    []*big.Int // (nA+1) x nD, last row = module account
	nD     int
	pids   []pid
}

func (w *world) observe(ctx sdk.Context) obs {
	k := w.tApp.GetSwapKeeper()
	bk := w.tApp.GetBankKeeper()
	o := obs{nD: w.nD, pids: w.pids}
	pids, denoms := w.pids, denoms[:w.nD]
	seen := 0
	for _, p := range pids {
		rec, found := k.GetPool(ctx, poolName(p))
		if !found {
			o.pools = append(o.pools, bi(0), bi(0), bi(0))
			continue
		}
		seen++
		if rec.ReservesA.Denom != denoms[p.lo] || rec.ReservesB.Denom != denoms[p.hi] {
			panic("harness: pool record denominations out of order")
		}
		o.pools = append(o.pools, rec.ReservesA.Amount.BigInt(), rec.ReservesB.Amount.BigInt(), rec.TotalShares.BigInt())
	}
	if n := len(k.GetAllPools(ctx)); n != seen {
		panic("harness: pool record outside the pool set")
	}
	nsh := 0
	for _, a := range w.addrs {
		for _, p := range pids {
			sr, found := k.GetDepositorShares(ctx, a, poolName(p))
			if !found {
				o.shares = append(o.shares, bi(0))
				continue
			}
			nsh++
			o.shares = append(o.shares, sr.SharesOwned.BigInt())
		}
	}
	if n := len(k.GetAllDepositorShares(ctx)); n != nsh {
		panic("harness: share record outside the account set")
	}
	for _, a := range append(append([]sdk.AccAddress{}, w.addrs...), w.macc) {
		for _, d := range denoms {
			o.bal = append(o.bal, bk.GetBalance(ctx, a, d).Amount.BigInt())
		}
	}
	if n := len(bk.GetAllBalances(ctx, w.macc)); n > len(denoms) {
		panic("harness: module account holds an unknown denomination")
	}
	return o
}

func (o obs) pool(i int) (a, b, s *big.Int) { return o.pools[3*i], o.pools[3*i+1], o.pools[3*i+2] }
func (o obs) ubal(who, d int) *big.Int      { return o.bal[who*o.nD+d] }
func (o obs) share(who, i int) *big.Int     { return o.shares[who*len(o.pids)+i] }

// reserves of pool i as seen from token d: (reserve of d, reserve of the other token)
func (o obs) reserves(i, d int) (*big.Int, *big.Int) {
	a, b, _ := o.pool(i)
	if o.pids[i].lo == d {
		return a, b
	}
	return b, a
}

func around(r *c.Rng, x *big.Int) *big.Int {
	y := add(x, bi(r.Range(-1, 1)))
	if y.Sign() < 0 {
		return bi(0)
	}
	return y
}

// slippage limits: zero, one ulp, 1 %, one half, one, very large, or the exact boundary ±1 ulp
func slipLimit(r *c.Rng, exact *big.Int) *big.Int {
	switch r.Intn(9) {
	case 0:
		return bi(0)
	case 1:
		return bi(1)
	case 2:
		return bi(10000000000000000)
	case 3:
		return quo(P, bi(2))
	case 4:
		return new(big.Int).Set(P)
	case 5:
		return mul(P, bi(1000))
	default:
		if exact == nil {
			return bi(10000000000000000)
		}
		x := add(exact, bi(r.Range(-1, 1)))
		if x.Sign() < 0 {
			x = bi(0)
		}
		return x
	}
}

// amountFor picks an amount relative to a balance and a reserve: dust, fractions, everything, one too many
func amountFor(r *c.Rng, balance, reserve *big.Int) *big.Int {
	switch r.Intn(9) {
	case 0:
		return bi(r.Range(1, 3))
	case 1:
		return around(r, balance)
	case 2:
		return around(r, reserve)
	case 3:
		return add(quo(reserve, bi(r.Range(2, 1000))), bi(1))
	case 4:
		return add(quo(balance, bi(r.Range(2, 1000))), bi(1))
	case 5:
		return add(r.BigBelow(add(reserve, bi(1))), bi(1))
	default:
		return add(r.BigBelow(add(balance, bi(1))), bi(1))
	}
}

type op struct {
	kind   string
	who    int
	d1, d2 int
	x1, x2 *big.Int
	z      *big.Int // slippage mantissa, or shares for wd
	gen    string   // generator class (coverage accounting)
}

// force >= 0 directs the message at pool `force` (a pool governance just acted on); forceKind, when not empty,
// also fixes the message kind.
func (w *world) genOp(r *c.Rng, o obs, fee *big.Int, force int, forceKind string) op {
	pids := w.pids
	who := r.Intn(nA)
	i := r.Intn(len(pids))
	if force >= 0 {
		i = force
	}
	p := pids[i]
	d1, d2 := p.lo, p.hi
	if r.Bool() { // the message may name the two tokens in either order
		d1, d2 = d2, d1
	}
	a, b, s := o.pool(i)
	exists := s.Sign() > 0
	r1, r2 := o.reserves(i, d1)
	b1, b2 := o.ubal(who, d1), o.ubal(who, d2)
	kinds := []string{"dep", "dep", "wd", "sx", "sx", "sfx", "sfx"}
	if !exists {
		kinds = []string{"dep", "dep", "dep", "wd", "sx", "sfx"}
	}
	kind := c.Pick(r, kinds)
	if forceKind != "" {
		kind = forceKind
	}
	if kind == "wd" && force >= 0 { // a holder of the pool governance acted on
		for t := 0; t < 12 && o.share(who, i).Sign() == 0; t++ {
			who = r.Intn(nA)
		}
	} else if kind == "wd" && r.Chance(75) { // mostly an account that owns shares of some pool
		for t := 0; t < 12 && o.share(who, i).Sign() == 0; t++ {
			who, i = r.Intn(nA), r.Intn(len(pids))
		}
		p = pids[i]
		d1, d2 = p.lo, p.hi
		if r.Bool() {
			d1, d2 = d2, d1
		}
		a, b, s = o.pool(i)
		exists = s.Sign() > 0
		r1, r2 = o.reserves(i, d1)
	}
	_ = a
	_ = b
	res := op{kind: kind, who: who, d1: d1, d2: d2}
	switch kind {
	case "dep":
		if !exists {
			res.gen = "create"
			switch r.Intn(4) {
			case 0:
				res.x1, res.x2 = bi(r.Range(1, 5)), bi(r.Range(1, 5))
			case 1:
				res.x1, res.x2 = around(r, b1), around(r, b2)
			default:
				res.x1, res.x2 = add(r.BigBelow(add(b1, bi(1))), bi(1)), add(r.BigBelow(add(b2, bi(1))), bi(1))
			}
			res.z = slipLimit(r, bi(0))
			break
		}
		switch r.Intn(6) {
		case 0, 1: // exact pool ratio (±1 on one side)
			res.gen = "ratio"
			g := new(big.Int).GCD(nil, nil, r1, r2)
			m := add(r.BigBits(12), bi(1))
			res.x1, res.x2 = mul(quo(r1, g), m), mul(quo(r2, g), m)
			if r.Bool() {
				if r.Bool() {
					res.x1 = around(r, res.x1)
				} else {
					res.x2 = around(r, res.x2)
				}
			}
		case 2: // the deposit worth exactly one share, ±1
			res.gen = "one-share"
			res.x1 = around(r, add(quo(r1, s), bi(1)))
			res.x2 = around(r, add(quo(r2, s), bi(1)))
		case 3:
			res.gen = "dust"
			res.x1, res.x2 = bi(r.Range(1, 3)), bi(r.Range(1, 3))
		default:
			res.gen = "free"
			res.x1, res.x2 = amountFor(r, b1, r1), amountFor(r, b2, r2)
		}
		// the slippage the keeper will compute, from the real pool type on a copy of the record
		var exact *big.Int
		if res.x1.Sign() > 0 && res.x2.Sign() > 0 {
			c.Recover(func() {
				bp, err := swaptypes.NewBasePoolWithExistingShares(si(r1), si(r2), si(s))
				if err != nil {
					return
				}
				da, db, _ := bp.AddLiquidity(si(res.x1), si(res.x2))
				if da.IsPositive() && db.IsPositive() {
					m := sdk.MaxDec(sdk.NewDecFromInt(si(res.x1)).Quo(sdk.NewDecFromInt(da)), sdk.NewDecFromInt(si(res.x2)).Quo(sdk.NewDecFromInt(db)))
					exact = m.Sub(sdk.OneDec()).BigInt()
				}
			})
		}
		res.z = slipLimit(r, exact)
	case "wd":
		own := o.share(who, i)
		pick := r.Intn(6)
		if force >= 0 && r.Chance(50) {
			pick = 6 // everything the account owns: the liquidity provider leaves the pool
		}
		switch pick {
		case 6:
			res.z = new(big.Int).Set(own)
		case 0:
			res.z = bi(1)
		case 1:
			res.z = around(r, own)
		case 2:
			res.z = add(quo(own, bi(2)), bi(1))
		case 3: // the fewest shares worth one unit of the scarcer reserve, ±1
			m := r1
			if r2.Cmp(m) < 0 {
				m = r2
			}
			if m.Sign() > 0 {
				res.z = around(r, add(quo(s, m), bi(1)))
			} else {
				res.z = bi(1)
			}
		default:
			res.z = add(r.BigBelow(add(own, bi(1))), bi(1))
		}
		res.gen = "shares"
		// minimums: 1, or the exact share value ±1
		res.x1, res.x2 = bi(1), bi(1)
		if exists && res.z.Sign() > 0 && res.z.Cmp(s) <= 0 && r.Chance(60) {
			v1, v2 := quo(mul(r1, res.z), s), quo(mul(r2, res.z), s)
			res.x1, res.x2 = around(r, v1), around(r, v2)
			res.gen = "min-at-value"
		}
	case "sx":
		res.x1 = amountFor(r, b1, r1)
		res.gen = "free"
		if r.Chance(15) && fee.Cmp(P) < 0 { // the input that is all fee
			res.x1 = around(r, quo(P, sub(P, fee)))
			res.gen = "all-fee"
		}
		if r.Chance(15) && r2.Sign() > 0 { // about the smallest input that buys one unit
			res.x1 = around(r, add(quo(r1, r2), bi(1)))
			res.gen = "one-unit"
		}
		// expected output from the real pool type, then minimum-out at, just below or above it
		var out *big.Int
		if exists && res.x1.Sign() > 0 {
			c.Recover(func() {
				bp, err := swaptypes.NewBasePoolWithExistingShares(si(r1), si(r2), si(s))
				if err != nil {
					return
				}
				x, _ := bp.SwapExactAForB(si(res.x1), dec(fee))
				out = x.BigInt()
			})
		}
		if out != nil && out.Sign() > 0 {
			switch r.Intn(4) {
			case 0:
				res.x2 = new(big.Int).Set(out)
			case 1:
				res.x2 = around(r, out)
			case 2: // ask for more than the pool gives: slippage decides
				res.x2 = add(out, add(quo(out, bi(r.Range(2, 200))), bi(1)))
			default:
				res.x2 = add(r.BigBelow(add(out, out)), bi(1))
			}
			if res.x2.Sign() <= 0 {
				res.x2 = bi(1)
			}
			exact := sdk.OneDec().Sub(sdk.NewDecFromInt(si(out)).Quo(sdk.NewDecFromInt(si(res.x2)))).BigInt()
			res.z = slipLimit(r, exact)
		} else {
			res.x2 = bi(r.Range(1, 3))
			res.z = slipLimit(r, nil)
		}
	case "sfx":
		// d2 is bought exactly; r2 is its reserve
		switch r.Intn(6) {
		case 0:
			res.x2 = bi(r.Range(1, 3))
		case 1: // all of the reserve, ±1
			res.x2 = around(r, r2)
		case 2:
			res.x2 = sub(r2, bi(r.Range(1, 3)))
		default:
			res.x2 = add(r.BigBelow(add(r2, bi(1))), bi(1))
		}
		if res.x2.Sign() <= 0 {
			res.x2 = bi(1)
		}
		res.gen = "free"
		var need, feePaid *big.Int
		if exists {
			c.Recover(func() {
				bp, err := swaptypes.NewBasePoolWithExistingShares(si(r1), si(r2), si(s))
				if err != nil {
					return
				}
				x, f := bp.SwapAForExactB(si(res.x2), dec(fee))
				need, feePaid = x.BigInt(), f.BigInt()
			})
		}
		if need != nil {
			noFee := sub(need, feePaid)
			switch r.Intn(4) {
			case 0:
				res.x1 = new(big.Int).Set(noFee)
			case 1:
				res.x1 = around(r, noFee)
			case 2:
				res.x1 = around(r, need)
			default:
				res.x1 = add(r.BigBelow(add(need, need)), bi(1))
			}
			if res.x1.Sign() <= 0 {
				res.x1 = bi(1)
			}
			exact := sdk.OneDec().Sub(sdk.NewDecFromInt(si(res.x1)).Quo(sdk.NewDecFromInt(si(noFee)))).BigInt()
			res.z = slipLimit(r, exact)
			if need.Cmp(b1) > 0 {
				res.gen = "unaffordable"
			}
		} else {
			res.x1 = amountFor(r, b1, r1)
			res.z = slipLimit(r, nil)
		}
	}
	// malformed stream: what ValidateBasic must refuse
	if r.Chance(4) {
		res.gen = "malformed"
		switch r.Intn(4) {
		case 0:
			res.x1 = bi(0)
		case 1:
			res.x2 = bi(r.Range(-1, 0))
		case 2:
			res.d2 = res.d1
		default:
			if kind == "wd" {
				res.z = bi(r.Range(-1, 0))
			} else {
				res.z = bi(-1)
			}
		}
	}
	return res
}

func (w *world) exec(ctx sdk.Context, o op) (kapp.Class, error) {
	k := w.tApp.GetSwapKeeper()
	srv := swapkeeper.NewMsgServerImpl(k)
	who := w.addrs[o.who].String()
	deadline := ctx.BlockTime().Unix() + 1000
	return kapp.Exec(ctx, func(cx sdk.Context) error {
		gctx := sdk.WrapSDKContext(cx)
		switch o.kind {
		case "dep":
			m := swaptypes.NewMsgDeposit(who, coin(o.d1, o.x1), coin(o.d2, o.x2), dec(o.z), deadline)
			if err := m.ValidateBasic(); err != nil {
				return err
			}
			_, err := srv.Deposit(gctx, m)
			return err
		case "wd":
			m := swaptypes.NewMsgWithdraw(who, si(o.z), coin(o.d1, o.x1), coin(o.d2, o.x2), deadline)
			if err := m.ValidateBasic(); err != nil {
				return err
			}
			_, err := srv.Withdraw(gctx, m)
			return err
		case "sx":
			m := swaptypes.NewMsgSwapExactForTokens(who, coin(o.d1, o.x1), coin(o.d2, o.x2), dec(o.z), deadline)
			if err := m.ValidateBasic(); err != nil {
				return err
			}
			_, err := srv.SwapExactForTokens(gctx, m)
			return err
		default:
			m := swaptypes.NewMsgSwapForExactTokens(who, coin(o.d1, o.x1), coin(o.d2, o.x2), dec(o.z), deadline)
			if err := m.ValidateBasic(); err != nil {
				return err
			}
			_, err := srv.SwapForExactTokens(gctx, m)
			return err
		}
	})
}

func errTag(err error) string {
	if err == nil {
		return "-"
	}
	s := err.Error()
	for _, k := range []string{"slippage", "insufficient liquidity", "insufficient funds", "deposit not found", "invalid shares", "invalid pool",
		"not allowed", "invalid coins", "invalid slippage", "panic"} {
		if strings.Contains(s, k) {
			return strings.ReplaceAll(k, " ", "-")
		}
	}
	return "other"
}

func fund(r *c.Rng) *big.Int {
	switch r.Intn(6) {
	case 0:
		return bi(r.Range(0, 30))
	case 1:
		return bi(r.Range(100, 100000))
	case 2:
		return add(r.BigBits(100), bi(1))
	default:
		return add(r.BigBits(48), bi(1000))
	}
}

// readParams: the swap parameters in force, straight from the x/params subspace (what governance wrote)
func (w *world) readParams(ctx sdk.Context) (fee *big.Int, allowed []bool) {
	var sp swaptypes.Params
	kapp.ReadParams(w.tApp, ctx, "swap", &sp)
	allowed = make([]bool, len(w.pids))
	for _, ap := range sp.AllowedPools {
		known := false
		for i, p := range w.pids {
			if ap.Name() == poolName(p) {
				allowed[i], known = true, true
			}
		}
		if !known {
			panic("harness: allowed pool outside the pool set: " + ap.Name())
		}
	}
	return sp.SwapFee.BigInt(), allowed
}

func boolsOf(xs []bool) string {
	al := make([]string, len(xs))
	for j, v := range xs {
		al[j] = c.B(v)
	}
	return strings.Join(al, ",")
}

var govFees = []*big.Int{bi(0), bi(1), bi(1500000000000000), bi(3000000000000000), bi(10000000000000000), quo(P, bi(2)), sub(P, bi(1))}

func (w0 *world) seq(out *c.Out, seq int, r *c.Rng) {
	ws := *w0
	w := &ws
	w.nD = 3
	if r.Chance(30) {
		w.nD = 4
	}
	w.pids = pairsOf(w.nD)
	pids := w.pids
	ctx, _ := w.base.CacheContext()
	k := w.tApp.GetSwapKeeper()
	bk := w.tApp.GetBankKeeper()
	// parameters at the start of this history
	fee0 := c.Pick(r, []*big.Int{bi(0), bi(1), bi(1500000000000000), bi(1500000000000000), bi(3000000000000000),
		quo(P, bi(2)), sub(P, bi(1)), r.BigBelow(P)})
	allowed0 := make([]bool, len(pids))
	for i := range allowed0 {
		allowed0[i] = true
	}
	switch r.Intn(8) {
	case 0, 1:
		allowed0[r.Intn(len(pids))] = false
	case 2: // only one pool allowed at first: the others are allowed mid-run
		for i := range allowed0 {
			allowed0[i] = false
		}
		allowed0[r.Intn(len(pids))] = true
	}
	setParams := func(fee *big.Int, allowed []bool) {
		var ap swaptypes.AllowedPools
		for i, p := range pids {
			if allowed[i] {
				ap = append(ap, swaptypes.NewAllowedPool(denoms[p.lo], denoms[p.hi]))
			}
		}
		sp := swaptypes.NewParams(ap, dec(fee))
		kapp.SetParams(w.tApp, ctx, "swap", &sp, func() { k.SetParams(ctx, sp) })
	}
	setParams(fee0, allowed0)
	for _, a := range w.addrs {
		cs := sdk.Coins{}
		for d := 0; d < w.nD; d++ {
			if x := fund(r); x.Sign() > 0 {
				cs = cs.Add(coin(d, x))
			}
		}
		if !cs.IsZero() {
			must(w.tApp.FundAccount(ctx, a, cs))
		}
	}
	// how often governance acts in this history
	govRate := []int{2, 5, 5, 12, 25}[r.Intn(5)]
	focus, focusLeft := -1, 0 // pool governance just acted on, and how many directed messages are left
	var focusKinds []string
	nops := c.Budget(50, 150)
	for i := 0; i < nops; i++ {
		pre := w.observe(ctx)
		// ---- governance: the parameters change while pools exist
		if r.Chance(govRate) {
			oldFee, oldAl := w.readParams(ctx)
			newFee, newAl := oldFee, append([]bool{}, oldAl...)
			var live, liveOff, deadOff, on []int
			for j := range pids {
				_, _, sh := pre.pool(j)
				switch {
				case oldAl[j] && sh.Sign() > 0:
					live = append(live, j)
				case !oldAl[j] && sh.Sign() > 0:
					liveOff = append(liveOff, j)
				case !oldAl[j]:
					deadOff = append(deadOff, j)
				}
				if oldAl[j] {
					on = append(on, j)
				}
			}
			what := ""
			target := -1
			switch roll := r.Intn(10); {
			case roll < 3 && len(live) > 0: // an allowed pool that holds liquidity is removed from the list
				target, what = live[r.Intn(len(live))], "delist-live"
				newAl[target] = false
			case roll < 5 && len(liveOff) > 0: // ... and re-added later
				target, what = liveOff[r.Intn(len(liveOff))], "relist-live"
				newAl[target] = true
			case roll < 6 && len(deadOff) > 0: // a new pool is allowed mid-run
				target, what = deadOff[r.Intn(len(deadOff))], "list-new"
				newAl[target] = true
			case roll < 7 && len(on) > 0 && len(live) == 0:
				target, what = on[r.Intn(len(on))], "delist-empty"
				newAl[target] = false
			case roll == 7: // every pool removed at once
				for j := range newAl {
					newAl[j] = false
				}
				what = "delist-all"
				if len(live) > 0 {
					target = live[r.Intn(len(live))]
				}
			default: // the fee changes between swaps
				what = "fee"
				newFee = c.Pick(r, govFees)
				if r.Chance(30) {
					newFee = r.BigBelow(P)
				}
				if r.Chance(25) { // fee and list in one proposal
					j := r.Intn(len(pids))
					newAl[j] = !newAl[j]
					what = "fee+toggle"
					target = j
				}
				if newFee.Cmp(oldFee) > 0 {
					what += "-up"
				} else if newFee.Cmp(oldFee) < 0 {
					what += "-down"
				}
				if len(live)+len(liveOff) > 0 && target < 0 {
					all := append(append([]int{}, live...), liveOff...)
					target = all[r.Intn(len(all))]
				}
			}
			setParams(newFee, newAl)
			post := w.observe(ctx)
			feeIn, alIn := w.readParams(ctx)
			nlive := len(live) + len(liveOff)
			if nlive > 2 {
				nlive = 2
			}
			out.Case(fmt.Sprintf("gov|%s|live=%d|nD=%d", what, nlive, w.nD), "c07.gov", strconv.Itoa(nA), strconv.Itoa(w.nD),
				oldFee.String(), boolsOf(oldAl), feeIn.String(), boolsOf(alIn),
				c.Ints(pre.pools), c.Ints(pre.shares), c.Ints(pre.bal), "=>", c.Ints(post.pools), c.Ints(post.shares), c.Ints(post.bal))
			out.Note("gov:" + what)
			if feeIn.Cmp(newFee) != 0 || boolsOf(alIn) != boolsOf(newAl) {
				out.Note("gov:store-differs-from-written") // not a C07 clause; the cases carry what the store holds
			}
			if msg, broken := swapkeeper.AllInvariants(k)(ctx); broken {
				out.Violation(fmt.Sprintf("seq=%d op=%d parameter change (%s): registered invariant broken: %s", seq, i, what, strings.ReplaceAll(msg, "\n", " ")))
			}
			pre = post
			if target >= 0 {
				focus, focusLeft = target, 2+r.Intn(4)
				// what the users of that pool do next: leave, add, trade — in a random order
				focusKinds = []string{"wd", "dep", "sx", "sfx", "wd"}
				for x := len(focusKinds) - 1; x > 0; x-- {
					y := r.Intn(x + 1)
					focusKinds[x], focusKinds[y] = focusKinds[y], focusKinds[x]
				}
			}
		}
		// the parameters in force for this message: read from the store, not remembered
		fee, allowed := w.readParams(ctx)
		force, forceKind := -1, ""
		if focusLeft > 0 {
			focusLeft--
			force, forceKind = focus, focusKinds[focusLeft%len(focusKinds)]
			if r.Chance(25) {
				forceKind = ""
			}
		}
		o := w.genOp(r, pre, fee, force, forceKind)
		cls, err := w.exec(ctx, o)
		post := w.observe(ctx)
		tag := errTag(err)
		if err != nil {
			out.Note("err:" + tag)
			if cls == kapp.Panic && c.EnvInt("VERIF_DEBUG", 0) > 0 {
				fmt.Println("PANIC", o.kind, o.who, o.d1, o.x1, o.d2, o.x2, o.z, err)
			}
		}
		pi := -1
		for j, p := range pids {
			if (p.lo == o.d1 && p.hi == o.d2) || (p.lo == o.d2 && p.hi == o.d1) {
				pi = j
			}
		}
		sig := ""
		if pi >= 0 {
			_, _, s := pre.pool(pi)
			_, _, s2 := post.pool(pi)
			sig = fmt.Sprintf("%s|%s|%s|gen=%s|exists=%v|rev=%v|fee=%s|listed=%v", o.kind, cls, tag, o.gen, s.Sign() > 0, o.d1 > o.d2, feeClass(fee), allowed[pi])
			if cls == kapp.OK {
				if s.Sign() > 0 && s2.Sign() == 0 {
					sig += "|pool-deleted"
				}
				if pre.share(o.who, pi).Sign() > 0 && post.share(o.who, pi).Sign() == 0 {
					sig += "|share-record-deleted"
				}
				if pre.share(o.who, pi).Sign() > 0 && o.kind == "dep" {
					sig += "|existing-depositor"
				}
			}
			if !allowed[pi] && s.Sign() > 0 {
				out.Note("delisted-live:" + o.kind + ":" + string(cls))
			}
		}
		if o.gen == "malformed" && cls == kapp.Err {
			sig = "" // refused by ValidateBasic: trivial
		}
		f := []string{o.kind, strconv.Itoa(nA), strconv.Itoa(w.nD), fee.String(), boolsOf(allowed),
			c.Ints(pre.pools), c.Ints(pre.shares), c.Ints(pre.bal),
			strconv.Itoa(o.who), strconv.Itoa(o.d1), o.x1.String(), strconv.Itoa(o.d2), o.x2.String(), o.z.String(), "=>", string(cls), tag}
		if cls == kapp.OK {
			f = append(f, c.Ints(post.pools), c.Ints(post.shares), c.Ints(post.bal))
		} else {
			f = append(f, "-", "-", "-")
			// a failed message leaves no trace (kapp.Exec = baseapp's cache rollback)
			if c.Ints(post.pools) != c.Ints(pre.pools) || c.Ints(post.shares) != c.Ints(pre.shares) || c.Ints(post.bal) != c.Ints(pre.bal) {
				out.Violation(fmt.Sprintf("seq=%d op=%d %s: failed message changed the state", seq, i, o.kind))
			}
		}
		out.Case(sig, "c07.k", f...)
		if cls == kapp.OK {
			// the module's registered invariants on the real state (invariants.go)
			if msg, broken := swapkeeper.AllInvariants(k)(ctx); broken {
				out.Violation(fmt.Sprintf("seq=%d op=%d %s who=%d %s/%s x1=%s x2=%s z=%s: registered invariant broken: %s",
					seq, i, o.kind, o.who, denoms[o.d1], denoms[o.d2], o.x1, o.x2, o.z, strings.ReplaceAll(msg, "\n", " ")))
			}
		}
		// nobody can move coins into or out of the module account except through the keeper:
		// a plain bank transfer to it is refused (the account is blocked in app.go)
		if r.Chance(2) {
			from := w.addrs[r.Intn(nA)]
			bal := bk.GetAllBalances(ctx, from)
			if !bal.IsZero() {
				one := sdk.NewCoins(sdk.NewCoin(bal[0].Denom, sdkmath.OneInt()))
				cls, _ := kapp.Exec(ctx, func(cx sdk.Context) error {
					_, err := bankkeeper.NewMsgServerImpl(bk).Send(sdk.WrapSDKContext(cx), banktypes.NewMsgSend(from, w.macc, one))
					return err
				})
				out.Note("bank-send-to-module:" + string(cls))
				if cls == kapp.OK {
					out.Violation(fmt.Sprintf("seq=%d op=%d: bank MsgSend to the swap module account accepted (custody can be broken from outside)", seq, i))
				}
			}
		}
	}
}

func feeClass(f *big.Int) string {
	switch {
	case f.Sign() == 0:
		return "zero"
	case f.Cmp(sub(P, bi(1))) == 0:
		return "1-ulp"
	case f.Cmp(bi(1)) == 0:
		return "ulp"
	}
	return "mid"
}

func must(err error) {
	if err != nil {
		panic(err)
	}
}

func main() {
	out := c.NewOut(c.OutPath())
	defer out.Close()
	r := c.NewRng(c.Seed())
	n := c.Budget(240, 6000)
	kapp.RunSeqs(n, c.Workers(), r, mkWorld, func(w *world, seq int, r *c.Rng) { w.seq(out, seq, r) })
}
