// c07pure: ties the Lean BasePool model (KavaVerif/Model/Swap.lean) to x/swap/types.BasePool.
// BasePool is exported, so it is driven directly (no keeper, no app): exhaustive small sweep,
// boundary-biased and random values up to 2^255, fee rates including 0 and 1-ulp, panics as a
// result class.  One self-contained case per line (formats: lean/Driver/C07.lean).
package main

import (
	"fmt"
	"math/big"
	"strings"

	sdkmath "cosmossdk.io/math"

	swaptypes "github.com/kava-labs/kava/x/swap/types"

	c "kavaverif/harness/common"
)

var (
	P      = new(big.Int).Exp(big.NewInt(10), big.NewInt(18), nil)
	two255 = new(big.Int).Lsh(big.NewInt(1), 255)
	maxInt = new(big.Int).Sub(new(big.Int).Lsh(big.NewInt(1), 256), big.NewInt(1))
)

// clamp keeps generated amounts inside sdkmath.Int's range so that the printed input is the real one
func clamp(x *big.Int) *big.Int {
	if x.BitLen() > 256 {
		return new(big.Int).Set(maxInt)
	}
	return x
}

func bi(x int64) *big.Int { return big.NewInt(x) }

// si converts to sdkmath.Int; values beyond its 256-bit range are clamped to the largest one
func si(x *big.Int) sdkmath.Int {
	if x.BitLen() > 256 {
		x = maxInt
	}
	return sdkmath.NewIntFromBigInt(x)
}
func dec(m *big.Int) sdkmath.LegacyDec { return sdkmath.LegacyNewDecFromBigIntWithPrec(m, 18) }
func add(a, b *big.Int) *big.Int       { return new(big.Int).Add(a, b) }
func sub(a, b *big.Int) *big.Int       { return new(big.Int).Sub(a, b) }
func mul(a, b *big.Int) *big.Int       { return new(big.Int).Mul(a, b) }

type pool struct{ a, b, s *big.Int }

func (p pool) flip() pool { return pool{p.b, p.a, p.s} }

// mk builds the real BasePool in state (a,b,s); the empty state (0,0,0) is reached the only way the
// code can reach it: by removing all liquidity.
func mk(p pool) *swaptypes.BasePool {
	if p.a.Sign() == 0 && p.b.Sign() == 0 && p.s.Sign() == 0 {
		bp, err := swaptypes.NewBasePoolWithExistingShares(si(bi(3)), si(bi(5)), si(bi(2)))
		if err != nil {
			panic(err)
		}
		bp.RemoveLiquidity(si(bi(2)))
		return bp
	}
	bp, err := swaptypes.NewBasePoolWithExistingShares(si(p.a), si(p.b), si(p.s))
	if err != nil {
		panic(fmt.Sprintf("harness: invalid pool %v %v %v: %v", p.a, p.b, p.s, err))
	}
	return bp
}

func state(bp *swaptypes.BasePool) string {
	return bp.ReservesA().String() + "\t" + bp.ReservesB().String() + "\t" + bp.TotalShares().String()
}

// classify a panic message: result class and category
func classify(msg string) (string, string) {
	l := strings.ToLower(msg)
	switch {
	case strings.Contains(l, "out of bounds: shares"):
		return "panic", "shares"
	case strings.Contains(l, "overflow") || strings.Contains(l, "out of bound"):
		return "ovf", "overflow"
	case strings.Contains(l, "invariant"):
		return "panic", "invariant"
	case strings.Contains(l, "swap input must be positive"):
		return "panic", "input"
	case strings.Contains(l, "swap output must be"):
		return "panic", "output"
	case strings.Contains(l, "fee must be"):
		return "panic", "fee"
	case strings.Contains(l, "shares"):
		return "panic", "shares"
	case strings.Contains(l, "deposit"):
		return "panic", "deposit"
	case strings.Contains(l, "reserves"):
		return "panic", "reserves"
	case strings.Contains(l, "division by zero"):
		return "panic", "divzero"
	}
	return "panic", "other"
}

type result struct {
	cls, why string
	post     string   // A' B' S' (tab separated)
	r        []string // op specific results
}

func (r result) fields(n int) []string {
	if r.cls != "ok" {
		out := []string{r.cls, r.why, "-", "-", "-"}
		for i := 0; i < n; i++ {
			out = append(out, "-")
		}
		return out
	}
	out := []string{"ok", "-"}
	out = append(out, strings.Split(r.post, "\t")...)
	return append(out, r.r...)
}

func (r result) symFields() []string {
	if r.cls != "ok" {
		return []string{r.cls, "-", "-", "-", "-", "-", "-"}
	}
	out := append([]string{"ok"}, strings.Split(r.post, "\t")...)
	out = append(out, r.r...)
	for len(out) < 7 {
		out = append(out, "0")
	}
	return out
}

func run(f func() ([]string, *swaptypes.BasePool)) (res result) {
	defer func() {
		if r := recover(); r != nil {
			cls, why := classify(fmt.Sprint(r))
			res = result{cls: cls, why: why}
		}
	}()
	r, bp := f()
	return result{cls: "ok", post: state(bp), r: r}
}

func doAdd(p pool, da, db *big.Int) result {
	return run(func() ([]string, *swaptypes.BasePool) {
		bp := mk(p)
		a, b, s := bp.AddLiquidity(si(da), si(db))
		return []string{a.String(), b.String(), s.String()}, bp
	})
}

func doRem(p pool, sh *big.Int) result {
	return run(func() ([]string, *swaptypes.BasePool) {
		bp := mk(p)
		a, b := bp.RemoveLiquidity(si(sh))
		return []string{a.String(), b.String()}, bp
	})
}

func doSwap(kind string, p pool, amt, fee *big.Int) result {
	return run(func() ([]string, *swaptypes.BasePool) {
		bp := mk(p)
		var x, f sdkmath.Int
		switch kind {
		case "eab":
			x, f = bp.SwapExactAForB(si(amt), dec(fee))
		case "eba":
			x, f = bp.SwapExactBForA(si(amt), dec(fee))
		case "aeb":
			x, f = bp.SwapAForExactB(si(amt), dec(fee))
		default:
			x, f = bp.SwapBForExactA(si(amt), dec(fee))
		}
		return []string{x.String(), f.String()}, bp
	})
}

var flipKind = map[string]string{"eab": "eba", "eba": "eab", "aeb": "bea", "bea": "aeb"}

type gen struct {
	out *c.Out
	r   *c.Rng
}

func sz(x *big.Int) string {
	switch n := x.BitLen(); {
	case x.Sign() <= 0:
		return "le0"
	case n <= 4:
		return "tiny"
	case n <= 64:
		return "w64"
	case n <= 128:
		return "w128"
	default:
		return "w256"
	}
}

func (g *gen) caseAdd(p pool, da, db *big.Int, sym bool) {
	res := doAdd(p, da, db)
	branch := "none"
	if p.a.Sign() == 0 && p.b.Sign() == 0 {
		branch = "init"
	} else if da.Sign() > 0 && db.Sign() > 0 {
		switch mul(p.b, da).Cmp(mul(p.a, db)) {
		case -1:
			branch = "A-fixed"
		case 0:
			branch = "exact-ratio"
		default:
			branch = "B-fixed"
		}
	}
	sig := fmt.Sprintf("add|%s|%s|%s|%s", res.cls, res.why, branch, sz(p.a))
	if res.cls == "ok" && res.r[2] == "0" {
		sig += "|zero-shares"
	}
	g.out.Case(sig, "c07.add", append([]string{p.a.String(), p.b.String(), p.s.String(), da.String(), db.String(), "=>"}, res.fields(3)...)...)
	// round trip: deposit then withdraw the shares just issued
	if res.cls == "ok" && res.r[2] != "0" {
		rt := run(func() ([]string, *swaptypes.BasePool) {
			bp := mk(p)
			a, b, s := bp.AddLiquidity(si(da), si(db))
			wa, wb := bp.RemoveLiquidity(s)
			return []string{a.String(), b.String(), s.String(), wa.String(), wb.String()}, bp
		})
		f := []string{p.a.String(), p.b.String(), p.s.String(), da.String(), db.String(), "=>", rt.cls}
		if rt.cls == "ok" {
			f = append(f, rt.r...)
		} else {
			f = append(f, "-", "-", "-", "-", "-")
		}
		g.out.Case("rt|"+rt.cls+"|"+branch, "c07.rt", f...)
	}
	if sym {
		fr := doAdd(p.flip(), db, da)
		g.out.Case("", "c07.add", append([]string{p.b.String(), p.a.String(), p.s.String(), db.String(), da.String(), "=>"}, fr.fields(3)...)...)
		g.out.Case("sym|add|"+res.cls+"|"+branch, "c07.sym", append(append([]string{"add"}, res.symFields()...), append([]string{"|"}, fr.symFields()...)...)...)
	}
}

func (g *gen) caseRem(p pool, sh *big.Int, sym bool) {
	res := doRem(p, sh)
	rel := "part"
	switch {
	case sh.Cmp(p.s) == 0:
		rel = "all"
	case sh.Cmp(p.s) > 0:
		rel = "above"
	case sh.Sign() <= 0:
		rel = "le0"
	}
	sig := fmt.Sprintf("rem|%s|%s|%s|%s", res.cls, res.why, rel, sz(p.a))
	if res.cls == "ok" && (res.r[0] == "0" || res.r[1] == "0") {
		sig += "|zero-out"
	}
	g.out.Case(sig, "c07.rem", append([]string{p.a.String(), p.b.String(), p.s.String(), sh.String(), "=>"}, res.fields(2)...)...)
	if sym {
		fr := doRem(p.flip(), sh)
		g.out.Case("", "c07.rem", append([]string{p.b.String(), p.a.String(), p.s.String(), sh.String(), "=>"}, fr.fields(2)...)...)
		g.out.Case("sym|rem|"+res.cls+"|"+rel, "c07.sym", append(append([]string{"rem"}, res.symFields()...), append([]string{"|"}, fr.symFields()...)...)...)
	}
}

func feeClass(f *big.Int) string {
	switch {
	case f.Sign() < 0:
		return "neg"
	case f.Sign() == 0:
		return "zero"
	case f.Cmp(P) >= 0:
		return "ge1"
	case f.Cmp(sub(P, bi(1))) == 0:
		return "1-ulp"
	case f.Cmp(bi(1)) == 0:
		return "ulp"
	}
	return "mid"
}

func (g *gen) caseSwap(kind string, p pool, amt, fee *big.Int, sym bool) {
	res := doSwap(kind, p, amt, fee)
	sig := fmt.Sprintf("swap|%s|%s|%s|fee=%s|%s", kind, res.cls, res.why, feeClass(fee), sz(p.a))
	if res.cls == "ok" {
		if res.r[0] == "0" {
			sig += "|zero-out"
		}
		if res.r[1] == amt.String() {
			sig += "|all-fee"
		}
	}
	g.out.Case(sig, "c07.swap", append([]string{kind, p.a.String(), p.b.String(), p.s.String(), amt.String(), fee.String(), "=>"}, res.fields(2)...)...)
	if sym {
		fk := flipKind[kind]
		fr := doSwap(fk, p.flip(), amt, fee)
		g.out.Case("", "c07.swap", append([]string{fk, p.b.String(), p.a.String(), p.s.String(), amt.String(), fee.String(), "=>"}, fr.fields(2)...)...)
		g.out.Case("sym|swap|"+kind+"|"+res.cls, "c07.sym", append(append([]string{"swap"}, res.symFields()...), append([]string{"|"}, fr.symFields()...)...)...)
	}
}

func (g *gen) caseNew(a, b *big.Int) {
	cls, s := "ok", "-"
	func() {
		defer func() {
			if r := recover(); r != nil {
				cls, _ = classify(fmt.Sprint(r))
			}
		}()
		bp, err := swaptypes.NewBasePool(si(a), si(b))
		if err != nil {
			cls = "err"
			return
		}
		s = bp.TotalShares().String()
	}()
	g.out.Case("new|"+cls+"|"+sz(a)+"|"+sz(b), "c07.new", a.String(), b.String(), "=>", cls, s)
}

// a sequence of swaps by one trader on a pool nobody else touches
func (g *gen) caseSeq(p pool, n int, small bool) {
	bp := mk(p)
	var ops []string
	okN, panN := 0, 0
	for i := 0; i < n; i++ {
		kind := c.Pick(g.r, []string{"eab", "eba", "aeb", "bea"})
		fee := g.fee()
		if g.r.Chance(60) && i > 0 {
			// keep the fee of the previous swap most of the time
			fee, _ = new(big.Int).SetString(strings.Split(ops[len(ops)-1], ":")[2], 10)
		}
		ra, rb := bp.ReservesA().BigInt(), bp.ReservesB().BigInt()
		var amt *big.Int
		if small {
			amt = bi(g.r.Range(1, 4))
		} else {
			base := ra
			if kind == "eba" || kind == "aeb" {
				base = rb
			}
			switch g.r.Intn(4) {
			case 0:
				amt = bi(g.r.Range(1, 3))
			case 1: // a small fraction of the reserves
				amt = add(new(big.Int).Quo(base, bi(g.r.Range(2, 1000))), bi(1))
			case 2:
				amt = add(g.r.BigBelow(add(base, bi(1))), bi(1))
			default: // just below the reserves (largest exact output)
				amt = sub(base, bi(g.r.Range(1, 2)))
				if amt.Sign() <= 0 {
					amt = bi(1)
				}
			}
		}
		// the pool mutates its reserves only after the invariant assertion, so a panicking swap leaves it unchanged
		panicked, pmsg := c.Recover(func() {
			switch kind {
			case "eab":
				bp.SwapExactAForB(si(amt), dec(fee))
			case "eba":
				bp.SwapExactBForA(si(amt), dec(fee))
			case "aeb":
				bp.SwapAForExactB(si(amt), dec(fee))
			default:
				bp.SwapBForExactA(si(amt), dec(fee))
			}
		})
		cls := "o"
		if panicked {
			panN++
			cls = "p"
			if k, _ := classify(pmsg); k == "ovf" {
				cls = "v"
			}
		} else {
			okN++
		}
		ops = append(ops, kind+":"+amt.String()+":"+fee.String()+":"+cls)
	}
	dir := "both-up"
	ca, cb := bp.ReservesA().BigInt().Cmp(p.a), bp.ReservesB().BigInt().Cmp(p.b)
	switch {
	case ca < 0:
		dir = "A-out"
	case cb < 0:
		dir = "B-out"
	case ca == 0 && cb == 0:
		dir = "unchanged"
	}
	sig := fmt.Sprintf("seq|%s|len=%d|small=%v|panics=%v", dir, min(n, 4), small, panN > 0)
	if okN == 0 {
		sig = ""
	}
	g.out.Case(sig, "c07.seq", p.a.String(), p.b.String(), p.s.String(), strings.Join(ops, ";"), "=>",
		bp.ReservesA().String(), bp.ReservesB().String())
}

// fee rates: 0, 1 ulp, the main-net 0.15 %, 0.3 %, one half, 1-ulp, random, and (rarely) invalid ones
func (g *gen) fee() *big.Int {
	switch g.r.Intn(12) {
	case 0, 1:
		return bi(0)
	case 2:
		return bi(1)
	case 3, 4:
		return bi(1500000000000000)
	case 5:
		return bi(3000000000000000)
	case 6:
		return new(big.Int).Quo(P, bi(2))
	case 7:
		return sub(P, bi(1))
	case 8:
		return sub(P, bi(g.r.Range(2, 1000)))
	default:
		return g.r.BigBelow(P)
	}
}

func (g *gen) badFee() *big.Int {
	return c.Pick(g.r, []*big.Int{bi(-1), new(big.Int).Set(P), add(P, bi(1)), new(big.Int).Neg(P)})
}

// reserve sizes: log-uniform up to 2^255, biased to 1, 2 and the top
func (g *gen) reserve() *big.Int {
	switch g.r.Intn(10) {
	case 0:
		return bi(g.r.Range(1, 3))
	case 1:
		return sub(two255, bi(g.r.Range(0, 2)))
	case 2:
		return add(new(big.Int).Lsh(bi(1), uint(g.r.Range(1, 254))), bi(g.r.Range(-1, 1)))
	case 3, 4:
		return add(g.r.BigBits(64), bi(1))
	case 5, 6:
		return add(g.r.BigBits(128), bi(1))
	default:
		return add(g.r.BigBits(255), bi(1))
	}
}

func (g *gen) pool() pool {
	a, b := g.reserve(), g.reserve()
	if g.r.Chance(25) { // same magnitude
		b = add(g.r.BigBelow(add(a, a)), bi(1))
		if b.Cmp(two255) > 0 {
			b = new(big.Int).Set(two255)
		}
	}
	var s *big.Int
	switch g.r.Intn(4) {
	case 0: // as a fresh pool would have
		s = new(big.Int).Sqrt(mul(a, b))
		if s.Sign() == 0 {
			s = bi(1)
		}
	case 1:
		s = bi(g.r.Range(1, 3))
	default:
		s = g.reserve()
	}
	return pool{a, b, s}
}

func around(r *c.Rng, x *big.Int) *big.Int { return add(x, bi(r.Range(-1, 1))) }

func main() {
	out := c.NewOut(c.OutPath())
	defer out.Close()
	g := &gen{out: out, r: c.NewRng(c.Seed())}
	r := g.r

	// ---- 1. exhaustive small sweep: every (A,B,S,amounts) up to N
	N := int64(c.Budget(5, 10))
	if N > 12 {
		N = 12
	}
	fees := []*big.Int{bi(0), bi(1), bi(3000000000000000), new(big.Int).Quo(P, bi(2)), sub(P, bi(1)), new(big.Int).Set(P), bi(-1)}
	k := 0
	for a := int64(1); a <= N; a++ {
		for b := int64(1); b <= N; b++ {
			g.caseNew(bi(a), bi(b))
			for s := int64(1); s <= N; s++ {
				p := pool{bi(a), bi(b), bi(s)}
				for da := int64(0); da <= N+1; da++ {
					for db := int64(0); db <= N+1; db++ {
						k++
						g.caseAdd(p, bi(da), bi(db), k%5 == 0)
					}
				}
				for sh := int64(0); sh <= s+1; sh++ {
					g.caseRem(p, bi(sh), sh%2 == 0)
				}
			}
			// swaps do not look at the shares
			p := pool{bi(a), bi(b), bi(1 + (a+b)%3)}
			for amt := int64(0); amt <= N+1; amt++ {
				for _, f := range fees {
					for _, kind := range []string{"eab", "eba", "aeb", "bea"} {
						k++
						g.caseSwap(kind, p, bi(amt), f, k%4 == 0)
					}
				}
			}
		}
	}
	g.caseNew(bi(0), bi(1))
	g.caseNew(bi(1), bi(0))
	g.caseNew(bi(-1), bi(5))
	// the empty pool (all liquidity removed)
	empty := pool{bi(0), bi(0), bi(0)}
	for da := int64(0); da <= 4; da++ {
		for db := int64(0); db <= 4; db++ {
			g.caseAdd(empty, bi(da), bi(db), true)
		}
	}
	g.caseRem(empty, bi(1), false)
	for _, kind := range []string{"eab", "eba", "aeb", "bea"} {
		g.caseSwap(kind, empty, bi(1), bi(0), false)
		g.caseSwap(kind, empty, bi(1), bi(3000000000000000), false)
		g.caseSwap(kind, empty, bi(5), bi(3000000000000000), false)
	}

	// ---- 2. random and boundary-biased values up to 2^255
	n := c.Budget(2500, 150000)
	for i := 0; i < n; i++ {
		p := g.pool()
		g.caseNew(g.reserve(), g.reserve())
		// deposits: exact ratio ±1, dust, whole-reserve sized, random
		var da, db *big.Int
		switch r.Intn(6) {
		case 0: // exact ratio: da = k*A/g, db = k*B/g
			gcd := new(big.Int).GCD(nil, nil, p.a, p.b)
			m := add(g.r.BigBits(20), bi(1))
			da, db = mul(new(big.Int).Quo(p.a, gcd), m), mul(new(big.Int).Quo(p.b, gcd), m)
			if r.Bool() {
				if r.Bool() {
					da = around(r, da)
				} else {
					db = around(r, db)
				}
			}
		case 1: // dust
			da, db = bi(r.Range(1, 3)), bi(r.Range(1, 3))
		case 2: // the deposit that mints exactly one share (±1): da = ceil(A/S)
			da = around(r, add(new(big.Int).Quo(p.a, p.s), bi(1)))
			db = around(r, add(new(big.Int).Quo(p.b, p.s), bi(1)))
		case 3:
			da, db = around(r, p.a), around(r, p.b)
		default:
			da, db = g.reserve(), g.reserve()
		}
		if r.Chance(3) {
			da = bi(r.Range(-1, 0))
		}
		da, db = clamp(da), clamp(db)
		g.caseAdd(p, da, db, true)

		// withdrawals: 1, S-1, S, S+1, the share amount worth exactly one unit, random
		var sh *big.Int
		switch r.Intn(6) {
		case 0:
			sh = bi(r.Range(0, 2))
		case 1:
			sh = around(r, p.s)
		case 2: // smallest share amount that returns one unit of A: ceil(S/A)
			sh = around(r, add(new(big.Int).Quo(p.s, p.a), bi(1)))
		default:
			sh = add(r.BigBelow(p.s), bi(1))
		}
		g.caseRem(p, clamp(sh), true)

		// swaps
		kind := c.Pick(r, []string{"eab", "eba", "aeb", "bea"})
		inR, outR := p.a, p.b
		if kind == "eba" || kind == "bea" {
			inR, outR = p.b, p.a
		}
		fee := g.fee()
		if r.Chance(4) {
			fee = g.badFee()
		}
		var amt *big.Int
		exactIn := kind == "eab" || kind == "eba"
		switch r.Intn(8) {
		case 0:
			amt = bi(r.Range(0, 3))
		case 1:
			if exactIn { // smallest input giving one unit out: about inR/outR
				amt = around(r, add(new(big.Int).Quo(inR, outR), bi(1)))
			} else { // all of the output reserve, ±1
				amt = around(r, outR)
			}
		case 2:
			if exactIn {
				amt = around(r, inR)
			} else {
				amt = sub(outR, bi(r.Range(1, 3)))
			}
		case 3: // input that is all fee: 1/(1-fee) boundary
			g1 := sub(P, fee)
			if g1.Sign() > 0 {
				amt = around(r, new(big.Int).Quo(P, g1))
			} else {
				amt = bi(1)
			}
		case 4:
			amt = g.reserve()
		default:
			if exactIn {
				amt = add(r.BigBelow(inR), bi(1))
			} else {
				amt = add(r.BigBelow(outR), bi(1))
			}
		}
		g.caseSwap(kind, p, clamp(amt), fee, true)
	}

	// ---- 3. sequences of swaps (no free token)
	ns := c.Budget(2500, 100000)
	for i := 0; i < ns; i++ {
		small := r.Chance(45)
		var p pool
		if small {
			p = pool{bi(r.Range(1, 40)), bi(r.Range(1, 40)), bi(r.Range(1, 10))}
		} else {
			p = g.pool()
		}
		g.caseSeq(p, int(r.Range(1, 14)), small)
	}
}
