package main

import (
	"fmt"
	"math/big"
	"time"

	sdkmath "cosmossdk.io/math"
	sdk "github.com/cosmos/cosmos-sdk/types"

	ikeeper "github.com/kava-labs/kava/x/incentive/keeper"
	itypes "github.com/kava-labs/kava/x/incentive/types"

	c "kavaverif/harness/common"
)

var (
	P      = new(big.Int).Exp(big.NewInt(10), big.NewInt(18), nil)
	base   = time.Date(2024, 1, 1, 0, 0, 0, 0, time.UTC)
	denoms = []string{"hard", "swp", "ukava"}
)

func dec(m *big.Int) sdk.Dec       { return sdkmath.LegacyNewDecFromBigIntWithPrec(m, 18) }
func ns(t time.Time) string        { return big.NewInt(0).Add(big.NewInt(0).Mul(big.NewInt(t.Unix()), big.NewInt(1e9)), big.NewInt(int64(t.Nanosecond()))).String() }
func mant(d sdk.Dec) string        { return d.BigInt().String() }
func idx(ri itypes.RewardIndexes, denom string) sdk.Dec {
	if v, ok := ri.Get(denom); ok {
		return v
	}
	return sdk.ZeroDec()
}

// nanosecond offsets biased to the half-second rounding boundary
func fracNs(r *c.Rng) int64 {
	switch r.Intn(8) {
	case 0:
		return 0
	case 1:
		return 500000000 + r.Range(-2, 2)
	case 2:
		return c.Pick(r, []int64{1, 499999999, 500000001, 999999999, 250000000, 750000000})
	case 3:
		return 500000000 + r.Range(-3000, 3000)
	default:
		return r.Range(0, 999999999)
	}
}

// a duration at a given scale: 0 = block-like (seconds), 1 = hours/days, 2 = up to 285 years
// (float64 resolution matters beyond 2^53 ns = 104 days)
func gapAt(r *c.Rng, scale int) time.Duration {
	var secs int64
	switch r.Intn(10) {
	case 0:
		return 0
	case 1:
		return time.Duration(fracNs(r))
	case 2:
		secs = r.Range(0, 2)
	default:
		switch scale {
		case 0:
			secs = r.Range(0, 12)
		case 1:
			secs = r.Range(0, 400000)
		default:
			if r.Bool() {
				secs = int64(1)<<uint(r.Intn(33)) + r.Range(-1, 1)
			} else {
				secs = r.Range(0, 9000000000)
			}
		}
	}
	if secs < 0 {
		secs = 0
	}
	return time.Duration(secs)*time.Second + time.Duration(fracNs(r))
}

func gap(r *c.Rng) time.Duration { return gapAt(r, r.Intn(3)) }

func shareMant(r *c.Rng) *big.Int {
	switch r.Intn(10) {
	case 0:
		return big.NewInt(0)
	case 1:
		return big.NewInt(r.Range(1, 3)) // 1e-18 shares
	case 2:
		return new(big.Int).Mul(big.NewInt(r.Range(1, 1000)), P)
	case 3:
		return new(big.Int).Mul(r.BigBits(100), P)
	case 4:
		return big.NewInt(-r.Range(0, 1000000))
	default:
		return r.BigBits(100)
	}
}

func rateAmount(r *c.Rng) *big.Int {
	switch r.Intn(6) {
	case 0:
		return big.NewInt(1)
	case 1:
		return big.NewInt(r.Range(1, 1000))
	case 2:
		return r.BigBits(70).Add(r.BigBits(70), big.NewInt(1))
	default:
		return big.NewInt(r.Range(1, 5000000))
	}
}

// pureChains drives the real types.Accumulator over random periods / block partitions / total shares.
func pureChains(out *c.Out, r *c.Rng, n int) {
	unit := sdk.NewDecCoins(sdk.NewDecCoinFromDec("secs", sdk.OneDec()))
	for k := 0; k < n; k++ {
		// period
		scale := c.Pick(r, []int{0, 0, 0, 1, 1, 2})
		nb := 1 + r.Intn(24)
		start := base.Add(gapAt(r, scale))
		// a period a few blocks long, so that blocks fall before, inside and after it
		stop := start
		for i := r.Intn(2*nb + 2); i > 0; i-- {
			stop = stop.Add(gapAt(r, scale))
		}
		if r.Chance(3) { // invalid period: limitMin after limitMax panics
			stop = start.Add(-time.Duration(r.Range(1, 5e9)))
		}
		nd := 1 + r.Intn(3)
		var rates sdk.Coins
		for i := 0; i < nd; i++ {
			rates = rates.Add(sdk.NewCoin(denoms[i], sdkmath.NewIntFromBigInt(rateAmount(r))))
		}
		period := itypes.NewMultiRewardPeriod(true, "x", start, stop, rates)
		// the accumulator starts before, inside or after the period
		var prev0 time.Time
		switch r.Intn(8) {
		case 0:
			prev0 = start
		case 1:
			prev0 = stop
		case 2, 3:
			prev0 = start.Add(-gapAt(r, scale))
		case 4:
			prev0 = stop.Add(gapAt(r, scale))
		default:
			prev0 = start.Add(gapAt(r, scale))
		}
		var indexes itypes.RewardIndexes
		if r.Bool() {
			for i := 0; i < nd; i++ {
				if r.Bool() {
					indexes = indexes.With(denoms[i], dec(r.BigBits(90)))
				}
			}
		}
		acc := itypes.NewAccumulator(prev0, indexes)
		var times, ds []*big.Int
		chainOK := stop.After(start) || stop.Equal(start)
		now := prev0
		for b := 0; b < nb; b++ {
			switch r.Intn(16) {
			case 0:
				if !start.Before(now) {
					now = start.Add(time.Duration(r.Range(-1, 1)))
				}
			case 1:
				if !stop.Before(now) {
					now = stop.Add(time.Duration(r.Range(-1, 1)))
				}
			default:
				now = now.Add(gapAt(r, scale))
			}
			if r.Chance(2) {
				now = acc.PreviousAccumulationTime.Add(-time.Duration(r.Range(1, 3e9))) // time going backwards panics
			}
			if now.Before(acc.PreviousAccumulationTime) && !r.Chance(10) {
				now = acc.PreviousAccumulationTime
			}
			T := dec(shareMant(r))
			prev := acc.PreviousAccumulationTime
			pre := acc.Indexes
			var d time.Duration
			var secs sdkmath.Int
			hookPanic, _ := c.Recover(func() {
				d = itypes.VerifTimeElapsedWithinLimits(prev, now, start, stop)
				secs = sdk.ZeroInt()
				if inc := itypes.VerifCalculateNewRewards(unit, sdk.OneDec(), d); len(inc) > 0 {
					secs = inc[0].RewardFactor.TruncateInt()
				}
			})
			panicked, _ := c.Recover(func() { acc.Accumulate(period, T, now) })
			if panicked != hookPanic {
				out.Violation(fmt.Sprintf("c09 pure: Accumulate panic=%v but getTimeElapsedWithinLimits panic=%v", panicked, hookPanic))
			}
			cls := "ok"
			if panicked {
				cls = "panic"
				chainOK = false
			}
			for i := 0; i < nd; i++ {
				dn := denoms[i]
				rate := sdk.NewDecFromInt(rates.AmountOf(dn))
				sig := ""
				if i == 0 {
					rel := "in"
					if !now.After(start) {
						rel = "before"
					} else if !prev.Before(stop) {
						rel = "after"
					} else if prev.Before(start) && now.After(stop) {
						rel = "spans"
					} else if prev.Before(start) {
						rel = "enters"
					} else if now.After(stop) {
						rel = "leaves"
					}
					half := "lt"
					if n := int64(d % time.Second); n == 500000000 {
						half = "tie"
					} else if n > 500000000 {
						half = "gt"
					} else if n == 0 {
						half = "whole"
					}
					sig = fmt.Sprintf("%s|T=%d|%s|%s|big=%v|d0=%v", cls, T.BigInt().Sign(), rel, half, d > 1<<53, d == 0)
				}
				if panicked {
					out.Case(sig, "c09.acc", ns(prev), ns(now), ns(start), ns(stop), mant(rate), mant(T), mant(idx(pre, dn)), "=>", cls, "-", "-", "-", "-")
				} else {
					out.Case(sig, "c09.acc", ns(prev), ns(now), ns(start), ns(stop), mant(rate), mant(T), mant(idx(pre, dn)), "=>", cls,
						ns(acc.PreviousAccumulationTime), mant(idx(acc.Indexes, dn)), big.NewInt(int64(d)).String(), secs.String())
				}
			}
			if panicked {
				break
			}
			tn, _ := new(big.Int).SetString(ns(now), 10)
			times = append(times, tn)
			ds = append(ds, big.NewInt(int64(d)))
			if d == 1<<63-1 {
				chainOK = false // saturated time.Sub: the nanosecond sum is no longer exact
			}
		}
		if chainOK && len(times) > 0 {
			out.Case(fmt.Sprintf("blocks=%d", len(times)), "c09.chain", ns(prev0), ns(start), ns(stop), c.Ints(times), c.Ints(ds), ns(acc.PreviousAccumulationTime))
		}
	}
}

// pureRewards ties CalculateSingleReward (exported, stateless) to the model.
func pureRewards(out *c.Out, r *c.Rng, n int) {
	var k ikeeper.Keeper
	for j := 0; j < n; j++ {
		old := r.BigBits(80)
		delta := r.BigBits(80)
		switch r.Intn(6) {
		case 0:
			delta = big.NewInt(0)
		case 1:
			delta = big.NewInt(-r.Range(1, 1000)) // decreasing index
		case 2:
			delta = big.NewInt(r.Range(1, 3))
		}
		nw := new(big.Int).Add(old, delta)
		sh := shareMant(r)
		if sh.Sign() < 0 {
			sh.Neg(sh)
		}
		if r.Chance(20) && delta.Sign() > 0 {
			// products landing on the .5 tie of either rounding
			sh = new(big.Int).Div(new(big.Int).Mul(new(big.Int).Mul(P, P), big.NewInt(2*r.Range(0, 50)+1)), new(big.Int).Mul(delta, big.NewInt(2)))
		}
		amt, err := k.CalculateSingleReward(dec(old), dec(nw), dec(sh))
		cls, a := "ok", "-"
		if err != nil {
			cls = "err"
		} else {
			a = amt.String()
		}
		out.Case(fmt.Sprintf("%s|zero=%v|d=%d", cls, a == "0", delta.Sign()), "c09.reward", old.String(), nw.String(), sh.String(), "=>", cls, a)
	}
}

// pureSecs: single Accumulate calls whose overlap is d = sec·1e9 + 5e8 + δ at every magnitude of sec,
// the inputs on which float64 `Seconds()` + RoundToEven differ from exact rounding.
func pureSecs(out *c.Out, r *c.Rng, n int) {
	unit := sdk.NewDecCoins(sdk.NewDecCoinFromDec("secs", sdk.OneDec()))
	rates := sdk.NewCoins(sdk.NewInt64Coin("hard", 1))
	for k := 0; k < n; k++ {
		var sec int64
		switch r.Intn(3) {
		case 0:
			sec = int64(1)<<uint(r.Intn(34)) + r.Range(-2, 2)
		case 1:
			sec = r.BigBits(33).Int64()
		default:
			sec = r.Range(0, 9223372035)
		}
		if sec < 0 {
			sec = 0
		}
		if sec > 9223372035 {
			sec = 9223372035
		}
		var nsec int64
		switch r.Intn(4) {
		case 0:
			nsec = 500000000 + r.Range(-5, 5)
		case 1:
			nsec = 500000000 + r.Range(-4000, 4000)
		case 2:
			nsec = c.Pick(r, []int64{0, 1, 999999999, 999999000 + r.Range(0, 999)})
		default:
			nsec = r.Range(0, 999999999)
		}
		d := time.Duration(sec)*time.Second + time.Duration(nsec)
		start := base
		now := base.Add(d)
		stop := now.Add(time.Duration(r.Range(0, 5)))
		acc := itypes.NewAccumulator(start, nil)
		dd := itypes.VerifTimeElapsedWithinLimits(start, now, start, stop)
		secs := sdk.ZeroInt()
		if inc := itypes.VerifCalculateNewRewards(unit, sdk.OneDec(), dd); len(inc) > 0 {
			secs = inc[0].RewardFactor.TruncateInt()
		}
		acc.Accumulate(itypes.NewMultiRewardPeriod(true, "x", start, stop, rates), sdk.OneDec(), now)
		exact := sec
		if nsec > 500000000 || (nsec == 500000000 && sec%2 == 1) {
			exact++
		}
		sig := fmt.Sprintf("secs|bits=%d|floatdiffers=%v", big.NewInt(sec).BitLen(), !secs.Equal(sdkmath.NewInt(exact)))
		out.Case(sig, "c09.acc", ns(start), ns(now), ns(start), ns(stop), mant(sdk.OneDec()), mant(sdk.OneDec()), "0", "=>", "ok",
			ns(acc.PreviousAccumulationTime), mant(idx(acc.Indexes, "hard")), big.NewInt(int64(dd)).String(), secs.String())
	}
}
