package main

// multi.go — multi-instance claims.
//
// In x/incentive ONE claim object per source module (USDXMintingClaim, HardLiquidityProviderClaim,
// SwapClaim, EarnClaim) carries the reward indexes of SEVERAL source instances (cdp collateral types,
// hard supply and borrow denoms, swap pools, earn vaults) that all credit the same Reward coins.  The
// world of keeper.go has exactly one instance per source; this world has
//
//	usdx   : cdp collateral types busd-a, bnb-a, busd-b                  (all credit ukava)
//	swap   : pools bnb:usdx, busd:usdx                                   (both credit swp; one also ukava)
//	hard   : supply bnb, supply busd, borrow usdx, borrow busd           (all four credit hard; some also swp / ukava)
//	earn   : vaults usdx, busd (hard strategy)                           (both credit ukava; one also hard)
//
// with users holding positions in several instances of one claim object at once, random block
// partitions, position changes through the source modules' message servers, and claims (one or several
// reward denoms per message).  x/cdp's stability fee is 1.0 and x/hard's interest is off, so source
// shares are exact.
//
// The property is evaluated per (user, claim object, reward denom) — a "group" of instances:
//
//	c09.integral  paid out by claims + what Synchronize…Claim / GetSynchronized…Claim report as accrued
//	              against the harness's OWN time integral Σ_instances Σ_blocks ⌊rate·secs·P·share/total⌋
//	c09.mclaim    a claim pays roundInt((stored reward + Σ_instances pending)·multiplier) from the incentive
//	              account, resets, leaves everything else alone; an immediate second claim pays nothing
//	c09.mchange   a source message changes the owner's reward by exactly the pending amounts of the
//	              instances it synchronised (with the PRE-change shares), every instance whose shares
//	              changed is among them; nobody else's claim or shares move
//	c09.mpend     the synchronised claim the keeper reports = stored reward + Σ_instances pending
//	c09.bound     Σ_users credited ≤ Σ_instances emission (+ rounding allowance)
//	c09.kacc / c09.sum / c09.sumle   per instance, as in keeper.go
//
// Allowance: a synchronisation of instance k for user u rounds once.  Every successful message / claim
// of u on a claim object is counted as one synchronisation of EVERY instance of that object
// (over-approximation); in begin blocks (x/cdp synchronises the risky CDPs) a synchronisation is counted
// when the stored index of (u, k) is observed to have moved.

import (
	"crypto/sha1"
	"encoding/hex"
	"fmt"
	"math/big"
	"strings"
	"time"

	abci "github.com/cometbft/cometbft/abci/types"
	tmproto "github.com/cometbft/cometbft/proto/tendermint/types"

	sdkmath "cosmossdk.io/math"
	sdk "github.com/cosmos/cosmos-sdk/types"
	stakingkeeper "github.com/cosmos/cosmos-sdk/x/staking/keeper"

	"github.com/kava-labs/kava/app"
	"github.com/kava-labs/kava/x/cdp"
	cdpkeeper "github.com/kava-labs/kava/x/cdp/keeper"
	cdptypes "github.com/kava-labs/kava/x/cdp/types"
	earnkeeper "github.com/kava-labs/kava/x/earn/keeper"
	earntypes "github.com/kava-labs/kava/x/earn/types"
	"github.com/kava-labs/kava/x/hard"
	hardkeeper "github.com/kava-labs/kava/x/hard/keeper"
	hardtypes "github.com/kava-labs/kava/x/hard/types"
	"github.com/kava-labs/kava/x/incentive"
	ikeeper "github.com/kava-labs/kava/x/incentive/keeper"
	"github.com/kava-labs/kava/x/incentive/testutil"
	itypes "github.com/kava-labs/kava/x/incentive/types"
	pricefeedtypes "github.com/kava-labs/kava/x/pricefeed/types"
	swapkeeper "github.com/kava-labs/kava/x/swap/keeper"
	swaptypes "github.com/kava-labs/kava/x/swap/types"

	c "kavaverif/harness/common"
	"kavaverif/harness/kapp"
)

// ---------------------------------------------------------------------------------------------
// world

type cdpSpec struct {
	ctype, denom, market, ratio string
	colMin, colSpan             int64 // collateral = principal·(colMin + rand(0..colSpan)): above the liquidation ratio
}

var mCdps = []cdpSpec{
	{"busd-a", "busd", "busd:usd", "1.01", 102, 300}, // busd: 8 decimals at 1 usd
	{"bnb-a", "bnb", "bnb:usd", "1.5", 9, 100},       // bnb: 8 decimals at 17.25 usd (ratio 1.5 ⇒ ≥ 8.7·principal)
	{"busd-b", "busd", "busd:usd", "1.1", 111, 300},
}

var mPools = []string{"bnb:usdx", "busd:usdx"}

var mClaimTypes = []string{"usdx", "swap", "hard", "earn"}

func cdpSpecOf(ctype string) cdpSpec {
	for _, s := range mCdps {
		if s.ctype == ctype {
			return s
		}
	}
	panic("unknown cdp type " + ctype)
}

func mkMultiWorld() *world {
	cfgOnce.Do(func() { app.SetSDKConfig() })
	_, addrs := app.GeneratePrivKeyAddressPairs(nUsers)
	tApp := app.NewTestApp()
	cdc := tApp.AppCodec()
	coins := sdk.NewCoins(sdk.NewInt64Coin("bnb", 1e16), sdk.NewInt64Coin("usdx", 1e16), sdk.NewInt64Coin("busd", 1e17), sdk.NewInt64Coin("ukava", 1e15))
	authGS := app.NewFundedGenStateWithSameCoins(cdc, coins, addrs)

	expiry := kapp.GenTime.AddDate(2000, 0, 0)
	pf := pricefeedtypes.GenesisState{
		Params: pricefeedtypes.Params{Markets: []pricefeedtypes.Market{
			{MarketID: "bnb:usd", BaseAsset: "bnb", QuoteAsset: "usd", Oracles: []sdk.AccAddress{}, Active: true},
			{MarketID: "usdx:usd", BaseAsset: "usdx", QuoteAsset: "usd", Oracles: []sdk.AccAddress{}, Active: true},
			{MarketID: "busd:usd", BaseAsset: "busd", QuoteAsset: "usd", Oracles: []sdk.AccAddress{}, Active: true},
		}},
		PostedPrices: []pricefeedtypes.PostedPrice{
			{MarketID: "bnb:usd", OracleAddress: sdk.AccAddress{}, Price: sdk.MustNewDecFromStr("17.25"), Expiry: expiry},
			{MarketID: "usdx:usd", OracleAddress: sdk.AccAddress{}, Price: sdk.OneDec(), Expiry: expiry},
			{MarketID: "busd:usd", OracleAddress: sdk.AccAddress{}, Price: sdk.OneDec(), Expiry: expiry},
		},
	}
	pfGS := app.GenesisState{pricefeedtypes.ModuleName: cdc.MustMarshalJSON(&pf)}

	// x/hard: three money markets, no interest (normalised amounts are the amounts)
	mm := func(denom string) hardtypes.MoneyMarket {
		m := testutil.NewStandardMoneyMarket(denom)
		m.InterestRateModel = hardtypes.NewInterestRateModel(sdk.ZeroDec(), sdk.ZeroDec(), sdk.MustNewDecFromStr("0.8"), sdk.ZeroDec())
		m.ReserveFactor = sdk.ZeroDec()
		return m
	}
	hardGS := testutil.NewHardGenesisBuilder().WithGenesisTime(kapp.GenTime).
		WithInitializedMoneyMarket(mm("bnb")).WithInitializedMoneyMarket(mm("usdx")).WithInitializedMoneyMarket(mm("busd")).
		WithMinBorrow(sdk.ZeroDec()).BuildMarshalled(cdc)

	swapGS := app.GenesisState{swaptypes.ModuleName: cdc.MustMarshalJSON(&swaptypes.GenesisState{
		Params: swaptypes.NewParams(swaptypes.NewAllowedPools(swaptypes.NewAllowedPool("bnb", "usdx"), swaptypes.NewAllowedPool("busd", "usdx")), sdk.MustNewDecFromStr("0.003")),
	})}

	// x/cdp: three collateral types, zero stability fee (interest factor stays 1)
	cdpGen := cdptypes.GenesisState{
		Params: cdptypes.Params{
			GlobalDebtLimit:          sdk.NewInt64Coin("usdx", 4e15),
			SurplusAuctionThreshold:  cdptypes.DefaultSurplusThreshold,
			SurplusAuctionLot:        cdptypes.DefaultSurplusLot,
			DebtAuctionThreshold:     cdptypes.DefaultDebtThreshold,
			DebtAuctionLot:           cdptypes.DefaultDebtLot,
			LiquidationBlockInterval: cdptypes.DefaultBeginBlockerExecutionBlockInterval,
			DebtParam:                cdptypes.DebtParam{Denom: "usdx", ReferenceAsset: "usd", ConversionFactor: sdkmath.NewInt(6), DebtFloor: sdkmath.NewInt(1e7)},
		},
		StartingCdpID: cdptypes.DefaultCdpStartingID,
		DebtDenom:     cdptypes.DefaultDebtDenom,
		GovDenom:      cdptypes.DefaultGovDenom,
	}
	for _, s := range mCdps {
		cdpGen.Params.CollateralParams = append(cdpGen.Params.CollateralParams, cdptypes.CollateralParam{
			Denom: s.denom, Type: s.ctype, LiquidationRatio: sdk.MustNewDecFromStr(s.ratio),
			DebtLimit: sdk.NewInt64Coin("usdx", 1e15), StabilityFee: sdk.OneDec(),
			LiquidationPenalty: sdk.MustNewDecFromStr("0.05"), AuctionSize: sdkmath.NewInt(1e10),
			SpotMarketID: s.market, LiquidationMarketID: s.market, ConversionFactor: sdkmath.NewInt(8),
			KeeperRewardPercentage: sdk.MustNewDecFromStr("0.01"), CheckCollateralizationIndexCount: sdkmath.NewInt(10),
		})
		cdpGen.PreviousAccumulationTimes = append(cdpGen.PreviousAccumulationTimes, cdptypes.NewGenesisAccumulationTime(s.ctype, kapp.GenTime, sdk.OneDec()))
		cdpGen.TotalPrincipals = append(cdpGen.TotalPrincipals, cdptypes.NewGenesisTotalPrincipal(s.ctype, sdk.ZeroInt()))
	}
	cdpGS := app.GenesisState{cdptypes.ModuleName: cdc.MustMarshalJSON(&cdpGen)}

	// x/earn: two vaults on the hard strategy
	earnGen := earntypes.NewGenesisState(earntypes.NewParams(earntypes.AllowedVaults{
		earntypes.NewAllowedVault("usdx", earntypes.StrategyTypes{earntypes.STRATEGY_TYPE_HARD}, false, nil),
		earntypes.NewAllowedVault("busd", earntypes.StrategyTypes{earntypes.STRATEGY_TYPE_HARD}, false, nil)}), nil, nil)
	earnGS := app.GenesisState{earntypes.ModuleName: cdc.MustMarshalJSON(&earnGen)}

	tApp.InitializeFromGenesisStatesWithTime(kapp.GenTime, authGS, pfGS, hardGS, swapGS, cdpGS, earnGS)
	ctx := tApp.NewContext(false, tmproto.Header{Height: tApp.LastBlockHeight() + 1, Time: kapp.GenTime, ChainID: app.TestChainId})
	must(tApp.FundModuleAccount(ctx, itypes.IncentiveMacc, sdk.NewCoins(
		sdk.NewInt64Coin("hard", 2e18), sdk.NewInt64Coin("swp", 2e18), sdk.NewInt64Coin("ukava", 2e18))))
	return &world{tApp: tApp, base: ctx, users: addrs}
}

// ---------------------------------------------------------------------------------------------
// groups: the instances of one claim object that credit one reward denom

type group struct {
	ct       string // claim object: usdx | swap | hard | earn
	denom    string
	members  []*inst
	claimedU []*big.Int // per user: reward removed from the claim by successful claims
}

type gsnap struct {
	r       string   // stored claim.Reward amount of the group's denom
	I, s, i []string // per member: global index, the user's shares, the user's stored index ("x" = absent)
}

func bigOf(s string) *big.Int {
	v, ok := new(big.Int).SetString(s, 10)
	if !ok {
		panic("bigOf " + s)
	}
	return v
}

// accrued: stored reward + Σ pending, the harness's own arithmetic on the observed indexes and shares
// (an absent index is zero; with zero shares nothing is pending)
func (sn gsnap) accrued() *big.Int {
	a := bigOf(sn.r)
	for k := range sn.I {
		s := bigOf(sn.s[k])
		if s.Sign() == 0 {
			continue
		}
		i := big.NewInt(0)
		if sn.i[k] != "x" {
			i = bigOf(sn.i[k])
		}
		d := new(big.Int).Sub(bigOf(sn.I[k]), i)
		if d.Sign() <= 0 {
			continue
		}
		a.Add(a, dec(d).Mul(dec(s)).RoundInt().BigInt())
	}
	return a
}

func (sn gsnap) held() int {
	n := 0
	for _, s := range sn.s {
		if s != "0" {
			n++
		}
	}
	return n
}

type mrun struct {
	w        *world
	out      *c.Out
	ctx      sdk.Context
	r        *c.Rng
	seq      int
	insts    []*inst
	groups   []*group
	periods  map[*inst][2]time.Time
	mults    map[string][]itypes.Multiplier
	claimEnd time.Time
	ms       msgServers
	incMsg   itypes.MsgServer
	macc     sdk.AccAddress
	now      time.Time
	liq      bool  // a keeper liquidation of an x/hard position succeeded in this sequence
	block    int   // index of the current block
	reenter  []int // per user: block of its last liquidation while it has not supplied / borrowed again, else -1
	bank     interface {
		GetBalance(sdk.Context, sdk.AccAddress, string) sdk.Coin
	}
}

func (m *mrun) instsOf(ct string) []*inst {
	var xs []*inst
	for _, in := range m.insts {
		if claimType(in.src) == ct {
			xs = append(xs, in)
		}
	}
	return xs
}

func (m *mrun) groupsOf(ct string) []*group {
	var gs []*group
	for _, g := range m.groups {
		if g.ct == ct {
			gs = append(gs, g)
		}
	}
	return gs
}

func (m *mrun) ctypes(src string) []string {
	var xs []string
	for _, in := range m.insts {
		if in.src == src {
			xs = append(xs, in.ctype)
		}
	}
	return xs
}

func rateIdx(in *inst, denom string) int {
	for j, rc := range in.rates {
		if rc.Denom == denom {
			return j
		}
	}
	return -1
}

func (m *mrun) gsnapshot(g *group, u int) gsnap {
	addr := m.w.users[u]
	var sn gsnap
	for k, in := range g.members {
		gl, _ := m.w.global(m.ctx, in)
		sn.I = append(sn.I, mant(idx(gl, g.denom)))
		sn.s = append(sn.s, mant(m.w.shares(m.ctx, in, addr)))
		rew, ri, ok := m.w.claim(m.ctx, in, addr)
		v := "x"
		if ok {
			if f, has := ri.Get(g.denom); has {
				v = mant(f)
			}
		}
		sn.i = append(sn.i, v)
		if k == 0 {
			sn.r = rew.AmountOf(g.denom).String()
		}
	}
	return sn
}

func riString(ri itypes.RewardIndexes, ok bool) string {
	if !ok {
		return "x"
	}
	var b strings.Builder
	for _, e := range ri {
		b.WriteString(e.CollateralType + "=" + mant(e.RewardFactor) + ",")
	}
	return b.String()
}

// digest of every (user, claim object) except (exceptU, exceptCt): stored rewards, stored indexes, shares
func (m *mrun) digest(exceptU int, exceptCt string) string {
	h := sha1.New()
	for v, a := range m.w.users {
		for _, ct := range mClaimTypes {
			if v == exceptU && ct == exceptCt {
				continue
			}
			for _, in := range m.instsOf(ct) {
				rew, ri, ok := m.w.claim(m.ctx, in, a)
				fmt.Fprintf(h, "%d|%s|%s|%s|%s|%s;", v, in.src, in.ctype, rew.String(), riString(ri, ok), mant(m.w.shares(m.ctx, in, a)))
			}
		}
	}
	return hex.EncodeToString(h.Sum(nil))[:16]
}

// stored index entry of (instance, user), every reward denom
func (m *mrun) idxDigest(in *inst, u int) string {
	_, ri, ok := m.w.claim(m.ctx, in, m.w.users[u])
	return riString(ri, ok)
}

// integral: C09_integral on the real synchronised claim of user u, summed over the group's instances
func (m *mrun) integral(g *group, what string, u int) {
	gained := new(big.Int).Add(m.w.synced(m.ctx, g.members[0], m.w.users[u]).AmountOf(g.denom).BigInt(), g.claimedU[u])
	flo, slack := big.NewInt(0), big.NewInt(0)
	ns := int64(len(g.members) - 1) // the driver adds the final synchronisation of one instance
	for _, in := range g.members {
		flo.Add(flo, in.flo[rateIdx(in, g.denom)][u])
		slack.Add(slack, in.slack[u])
		ns += in.nsyncU[u]
	}
	m.out.Case("", "c09.integral", "M"+g.ct+":"+what+":"+g.denom, fmt.Sprint(u), fmt.Sprint(ns), gained.String(), flo.String(), slack.String())
}

// pend: the synchronised claim the keeper reports against stored reward + Σ pending
func (m *mrun) pend(g *group, what string, u int) {
	sn := m.gsnapshot(g, u)
	got := m.w.synced(m.ctx, g.members[0], m.w.users[u]).AmountOf(g.denom)
	m.out.Case(fmt.Sprintf("M|pend|%s|n=%d|held=%d", g.ct, len(g.members), sn.held()), "c09.mpend", "M"+g.ct+":"+what+":"+g.denom, fmt.Sprint(u),
		sn.r, join(sn.I), join(sn.s), join(sn.i), "=>", got.String())
}

func (m *mrun) evalUser(ct, what string, u int) {
	for _, g := range m.groupsOf(ct) {
		m.integral(g, what, u)
		m.pend(g, what, u)
	}
}

// ---------------------------------------------------------------------------------------------
// one sequence

func (w *world) mseq(out *c.Out, seq int, r *c.Rng) {
	ctx, _ := w.base.CacheContext()
	ik := w.tApp.GetIncentiveKeeper()
	hk := w.tApp.GetHardKeeper()
	ck := w.tApp.GetCDPKeeper()
	const tag = "M"

	scale := c.Pick(r, []int{0, 0, 0, 1})
	// change-directed amplification multiplies the number of sequences (multiPart), not their length
	nblocks := 24 + r.Intn(12)
	if c.Tier() == "thorough" {
		nblocks = 60 + r.Intn(12)
	}
	times := make([]time.Time, nblocks)
	{
		t := kapp.GenTime
		for b := range times {
			if b > 0 && !r.Chance(6) {
				t = t.Add(gapAt(r, scale))
			}
			times[b] = t
		}
	}
	jitter := func(t time.Time) time.Time {
		switch r.Intn(4) {
		case 0:
			return t
		case 1:
			return t.Add(time.Duration(r.Range(-1, 1)))
		case 2:
			return t.Add(time.Duration(fracNs(r)))
		default:
			return t.Add(-time.Duration(fracNs(r)))
		}
	}
	mkPeriod := func() (time.Time, time.Time) {
		a := r.Intn(nblocks / 3)
		b := a + r.Intn(nblocks)
		st := jitter(times[a])
		var en time.Time
		if b < nblocks {
			en = jitter(times[b])
		} else {
			en = times[nblocks-1].Add(gapAt(r, scale) * time.Duration(b-nblocks+1))
		}
		if en.Before(st) {
			en = st
		}
		return st, en
	}
	rate := func(denom string) sdk.Coin {
		return sdk.NewCoin(denom, sdkmath.NewInt(c.Pick(r, []int64{1, 3, 122354, 1000000, 999999937, r.Range(1, 5000), r.Range(1000, 5000000), r.Range(1000, 5000000)})))
	}

	m := &mrun{w: w, out: out, r: r, seq: seq, periods: map[*inst][2]time.Time{}, bank: w.tApp.GetBankKeeper(),
		macc: w.tApp.GetAccountKeeper().GetModuleAddress(itypes.IncentiveMacc)}
	m.mults = map[string][]itypes.Multiplier{
		"hard":  {itypes.NewMultiplier("small", 1, sdk.MustNewDecFromStr("0.25")), itypes.NewMultiplier("large", 12, sdk.OneDec())},
		"swp":   {itypes.NewMultiplier("small", 1, sdk.MustNewDecFromStr("0.33")), itypes.NewMultiplier("medium", 6, sdk.MustNewDecFromStr("0.5")), itypes.NewMultiplier("large", 0, sdk.OneDec())},
		"ukava": {itypes.NewMultiplier("small", 1, sdk.MustNewDecFromStr("0.2")), itypes.NewMultiplier("large", 12, sdk.OneDec())},
	}
	U := itypes.USDXMintingRewardDenom
	m.insts = []*inst{
		{src: "usdx", ctype: "busd-a", rates: sdk.NewCoins(rate(U))},
		{src: "usdx", ctype: "bnb-a", rates: sdk.NewCoins(rate(U))},
		{src: "usdx", ctype: "busd-b", rates: sdk.NewCoins(rate(U))},
		{src: "swap", ctype: "bnb:usdx", rates: sdk.NewCoins(rate("swp"), rate("ukava"))},
		{src: "swap", ctype: "busd:usdx", rates: sdk.NewCoins(rate("swp"))},
		{src: "hsupply", ctype: "bnb", rates: sdk.NewCoins(rate("hard"), rate("swp"))},
		{src: "hsupply", ctype: "busd", rates: sdk.NewCoins(rate("hard"))},
		{src: "hborrow", ctype: "usdx", rates: sdk.NewCoins(rate("hard"), rate("ukava"))},
		{src: "hborrow", ctype: "busd", rates: sdk.NewCoins(rate("hard"), rate("swp"))},
		{src: "earn", ctype: "usdx", rates: sdk.NewCoins(rate("ukava"), rate("hard"))},
		{src: "earn", ctype: "busd", rates: sdk.NewCoins(rate("ukava"))},
	}
	params := itypes.DefaultParams()
	var latestEnd time.Time
	for _, in := range m.insts {
		st, en := mkPeriod()
		m.periods[in] = [2]time.Time{st, en}
		if en.After(latestEnd) {
			latestEnd = en
		}
		mp := itypes.NewMultiRewardPeriod(true, in.ctype, st, en, in.rates)
		switch in.src {
		case "swap":
			params.SwapRewardPeriods = append(params.SwapRewardPeriods, mp)
		case "hsupply":
			params.HardSupplyRewardPeriods = append(params.HardSupplyRewardPeriods, mp)
		case "hborrow":
			params.HardBorrowRewardPeriods = append(params.HardBorrowRewardPeriods, mp)
		case "usdx":
			params.USDXMintingRewardPeriods = append(params.USDXMintingRewardPeriods, itypes.NewRewardPeriod(true, in.ctype, st, en, in.rates[0]))
		default:
			params.EarnRewardPeriods = append(params.EarnRewardPeriods, mp)
		}
		in.sumT = big.NewInt(0)
		in.initUsers()
		for range in.rates {
			in.emission = append(in.emission, big.NewInt(0))
			in.claimed = append(in.claimed, big.NewInt(0))
		}
		// the group of this claim object and each of the instance's reward denoms
		for _, rc := range in.rates {
			var g *group
			for _, x := range m.groups {
				if x.ct == claimType(in.src) && x.denom == rc.Denom {
					g = x
				}
			}
			if g == nil {
				g = &group{ct: claimType(in.src), denom: rc.Denom}
				for u := 0; u < nUsers; u++ {
					g.claimedU = append(g.claimedU, big.NewInt(0))
				}
				m.groups = append(m.groups, g)
			}
			g.members = append(g.members, in)
		}
	}
	for _, d := range []string{"hard", "swp", "ukava"} {
		params.ClaimMultipliers = append(params.ClaimMultipliers, itypes.MultipliersPerDenom{Denom: d, Multipliers: m.mults[d]})
	}
	m.claimEnd = latestEnd.Add(gapAt(r, scale)*40 + times[nblocks-1].Sub(kapp.GenTime))
	if r.Chance(25) {
		m.claimEnd = jitter(times[nblocks-1-r.Intn(nblocks/3)])
	}
	params.ClaimEnd = m.claimEnd
	must(params.Validate())
	kapp.SetParams(w.tApp, ctx, "incentive", &params, func() { ik.SetParams(ctx, params) })

	m.ms = msgServers{swap: swapkeeper.NewMsgServerImpl(w.tApp.GetSwapKeeper()), hard: hardkeeper.NewMsgServerImpl(hk), cdp: cdpkeeper.NewMsgServerImpl(ck),
		staking: stakingkeeper.NewMsgServerImpl(w.tApp.GetStakingKeeper()), earn: earnkeeper.NewMsgServerImpl(w.tApp.GetEarnKeeper())}
	m.incMsg = ikeeper.NewMsgServerImpl(ik)

	var lastBlock time.Time
	haveLast := false
	prevUser := 0
	m.reenter = make([]int, nUsers)
	for u := range m.reenter {
		m.reenter[u] = -1
	}

	for b := 0; b < nblocks; b++ {
		now := times[b]
		m.now = now
		m.block = b
		ctx = ctx.WithBlockTime(now).WithBlockHeight(ctx.BlockHeight() + 1)
		m.ctx = ctx

		// ---- begin block: cdp, hard, then incentive (app.go order)
		idxPre := make([][]string, len(m.insts))
		for k, in := range m.insts {
			for u := 0; u < nUsers; u++ {
				idxPre[k] = append(idxPre[k], m.idxDigest(in, u))
			}
		}
		cls, err := kapp.Exec(ctx, func(cx sdk.Context) error {
			cdp.BeginBlocker(cx, abci.RequestBeginBlock{Header: cx.BlockHeader()}, ck)
			hard.BeginBlocker(cx, hk)
			return nil
		})
		if cls != kapp.OK {
			out.Violation(fmt.Sprintf("c09 multi seq=%d block=%d cdp/hard BeginBlocker: %v", seq, b, err))
			return
		}
		type pre struct {
			prev  time.Time
			found bool
			T     sdk.Dec
			I     itypes.RewardIndexes
		}
		pres := make([]pre, len(m.insts))
		for k, in := range m.insts {
			pt, f := w.prevTime(ctx, in)
			g, _ := w.global(ctx, in)
			pres[k] = pre{pt, f, w.total(ctx, in), g}
			var ss []string
			for ui, u := range w.users {
				sh := w.shares(ctx, in, u)
				in.curS[ui] = sh.BigInt()
				ss = append(ss, mant(sh))
			}
			// Σ user shares = total source shares; the earn module account is a further supplier of the
			// vault denoms in x/hard
			// x/hard after a liquidation: the bids / lots taken off the totals are truncated and a lot is capped at the
			// module account's balance, so the totals may keep more than the remaining positions add up to
			if (in.src == "hsupply" && (in.ctype == "busd" || in.ctype == "usdx")) || (m.liq && claimType(in.src) == "hard") {
				out.Case("", "c09.sumle", tag+in.src, mant(pres[k].T), join(ss))
			} else {
				out.Case("", "c09.sum", tag+in.src, mant(pres[k].T), join(ss))
			}
		}
		cls, err = kapp.Exec(ctx, func(cx sdk.Context) error { incentive.BeginBlocker(cx, ik); return nil })
		for k, in := range m.insts {
			p := m.periods[in]
			pr := pres[k]
			post, _ := w.prevTime(ctx, in)
			g, _ := w.global(ctx, in)
			var d time.Duration
			if haveLast {
				d = overlap(lastBlock, now, p[0], p[1])
			}
			secs := secsOf(d)
			accrues := pr.T.IsPositive() && secs > 0
			if accrues {
				in.sumT.Add(in.sumT, pr.T.BigInt())
				for u := 0; u < nUsers; u++ {
					sl := new(big.Int).Mul(new(big.Int).Add(P, big.NewInt(2)), in.curS[u])
					in.slack[u].Add(in.slack[u], sl.Add(sl, P))
				}
			}
			for j, rc := range in.rates {
				rm := sdk.NewDecFromInt(rc.Amount)
				if accrues {
					in.emission[j].Add(in.emission[j], new(big.Int).Mul(rm.BigInt(), big.NewInt(secs)))
					for u := 0; u < nUsers; u++ {
						x := new(big.Int).Mul(rm.BigInt(), big.NewInt(secs))
						x.Mul(x, P).Mul(x, in.curS[u])
						in.flo[j][u].Add(in.flo[j][u], x.Quo(x, pr.T.BigInt()))
					}
				}
				sig := ""
				if j == 0 {
					rel := "in"
					if !now.After(p[0]) {
						rel = "before"
					} else if haveLast && !lastBlock.Before(p[1]) {
						rel = "after"
					}
					sig = fmt.Sprintf("M|%s|%s|found=%v|T>0=%v|secs>0=%v|%s", in.src, cls, pr.found, pr.T.IsPositive(), secs > 0, rel)
				}
				if cls != kapp.OK {
					out.Case(sig, "c09.kacc", tag+in.src, c.B(pr.found), ns(pr.prev), ns(now), ns(p[0]), ns(p[1]), mant(rm), mant(pr.T), mant(idx(pr.I, rc.Denom)), "=>", string(cls), "-", "-")
				} else {
					out.Case(sig, "c09.kacc", tag+in.src, c.B(pr.found), ns(pr.prev), ns(now), ns(p[0]), ns(p[1]), mant(rm), mant(pr.T), mant(idx(pr.I, rc.Denom)), "=>", string(cls), ns(post), mant(idx(g, rc.Denom)))
				}
			}
		}
		if cls != kapp.OK {
			out.Violation(fmt.Sprintf("c09 multi seq=%d block=%d incentive BeginBlocker: %v", seq, b, err))
			return
		}
		lastBlock, haveLast = now, true
		// synchronisations inside the begin block (x/cdp synchronises risky CDPs): the stored index moved
		for k, in := range m.insts {
			for u := 0; u < nUsers; u++ {
				if m.idxDigest(in, u) != idxPre[k][u] {
					in.nsync++
					in.nsyncU[u]++
				}
			}
		}

		// ---- block 0: every user opens positions in most instances, so that one claim object is fed by
		// several instances at once from the start
		if b == 0 {
			for u := 0; u < nUsers; u++ {
				for _, so := range m.setupOps() {
					if r.Chance(70) {
						m.doOp(so[0], so[1], u, false)
					}
				}
			}
		}

		// ---- 1–4 operations in this block; the same user again half of the time
		nops := c.Pick(r, []int{1, 1, 2, 2, 3, 4})
		for o := 0; o < nops; o++ {
			u := r.Intn(nUsers)
			if o > 0 && r.Bool() {
				u = prevUser
			}
			last := prevUser
			same := o > 0 && u == prevUser
			prevUser = u
			kind, target := m.pickOp(u)
			if _, has := hk.GetBorrow(ctx, w.users[u]); kind == "hliq" && !has {
				// aim at a user that has a borrow
				for v := 1; v < nUsers; v++ {
					if _, ok := hk.GetBorrow(ctx, w.users[(u+v)%nUsers]); ok {
						u = (u + v) % nUsers
						break
					}
				}
			}
			// a user liquidated in an EARLIER block comes back: supplies again, then borrows again
			for ru, lb := range m.reenter {
				if lb >= 0 && lb < b && r.Chance(30) {
					u = ru
					if _, has := hk.GetDeposit(ctx, w.users[ru]); !has {
						kind, target = "hdep", ""
					} else {
						kind, target = "hbor", c.Pick(r, m.ctypes("hborrow"))
						m.reenter[ru] = -1
					}
					break
				}
			}
			same = o > 0 && u == last
			prevUser = u
			if kind == "claim" {
				m.doClaim(target, u)
				continue
			}
			m.doOp(kind, target, u, same)
		}
		// the claims of one more (user, claim object) at the end of the block
		m.evalUser(c.Pick(r, mClaimTypes), "block", r.Intn(nUsers))
	}

	// ---- end of the sequence: every user's claims, and the no-over-distribution bound per group
	for _, ct := range mClaimTypes {
		for u := 0; u < nUsers; u++ {
			m.evalUser(ct, "end", u)
		}
	}
	for _, g := range m.groups {
		credited := big.NewInt(0)
		for u, a := range w.users {
			credited.Add(credited, w.synced(m.ctx, g.members[0], a).AmountOf(g.denom).BigInt())
			credited.Add(credited, g.claimedU[u])
		}
		em, sT := big.NewInt(0), big.NewInt(0)
		var nsync int64
		for _, in := range g.members {
			em.Add(em, in.emission[rateIdx(in, g.denom)])
			sT.Add(sT, in.sumT)
			nsync += in.nsync
		}
		out.Case(fmt.Sprintf("M|%s|bound|n=%d|emitted=%v", g.ct, len(g.members), em.Sign() > 0), "c09.bound", tag+g.ct+":"+g.denom,
			fmt.Sprint(nUsers*len(g.members)), fmt.Sprint(nsync), em.String(), sT.String(), credited.String())
	}
}

// the position-opening operations of block 0: (kind, target)
func (m *mrun) setupOps() [][2]string {
	ops := [][2]string{{"hdep", "all"}}
	for _, t := range m.ctypes("usdx") {
		ops = append(ops, [2]string{"ccreate", t})
	}
	for _, t := range m.ctypes("swap") {
		ops = append(ops, [2]string{"sdep", t})
	}
	for _, t := range m.ctypes("earn") {
		ops = append(ops, [2]string{"edep", t})
	}
	for _, t := range m.ctypes("hborrow") {
		ops = append(ops, [2]string{"hbor", t})
	}
	return ops
}

var mKinds = []string{"sdep", "sdep", "swd", "swd", "hdep", "hdep", "hwd", "hwd", "hbor", "hbor", "hrep", "hrep", "hrep3", "hliq", "hliq", "hliq",
	"ccreate", "ccreate", "cdraw", "cdraw", "crepay", "crepay", "cdep", "cwd", "cdep3", "edep", "edep", "ewd", "ewd",
	"claim", "claim", "claim", "claim", "claim", "claim", "claim", "claim"}

// pickOp: an operation kind and its target instance (for a claim: the claim object), mostly feasible
func (m *mrun) pickOp(u int) (string, string) {
	r := m.r
	pick := func() (string, string) {
		kind := c.Pick(r, mKinds)
		switch kind[0] {
		case 's':
			return kind, c.Pick(r, m.ctypes("swap"))
		case 'c':
			if kind == "claim" {
				return kind, c.Pick(r, mClaimTypes)
			}
			return kind, c.Pick(r, m.ctypes("usdx"))
		case 'e':
			return kind, c.Pick(r, m.ctypes("earn"))
		default:
			if kind == "hdep" || kind == "hwd" {
				return kind, ""
			}
			return kind, c.Pick(r, m.ctypes("hborrow"))
		}
	}
	kind, target := pick()
	if r.Chance(85) {
		for try := 0; try < 8 && !m.feasible(kind, target, u); try++ {
			kind, target = pick()
		}
	}
	return kind, target
}

func (m *mrun) feasible(kind, target string, u int) bool {
	w, ctx, addr := m.w, m.ctx, m.w.users[u]
	hk := w.tApp.GetHardKeeper()
	switch kind {
	case "swd":
		_, ok := w.tApp.GetSwapKeeper().GetDepositorSharesAmount(ctx, addr, target)
		return ok
	case "hwd", "hbor":
		_, ok := hk.GetDeposit(ctx, addr)
		return ok
	case "hrep", "hrep3":
		b, ok := hk.GetBorrow(ctx, addr)
		return ok && b.Amount.AmountOf(target).IsPositive()
	case "hliq": // somebody borrows
		for _, a := range w.users {
			if _, ok := hk.GetBorrow(ctx, a); ok {
				return true
			}
		}
		return false
	case "ccreate":
		_, ok := w.tApp.GetCDPKeeper().GetCdpByOwnerAndCollateralType(ctx, addr, target)
		return !ok
	case "cdraw", "crepay", "cdep", "cwd", "cdep3":
		_, ok := w.tApp.GetCDPKeeper().GetCdpByOwnerAndCollateralType(ctx, addr, target)
		return ok
	case "ewd":
		ek := w.tApp.GetEarnKeeper()
		sh, ok := ek.GetVaultAccountShares(ctx, addr)
		return ok && sh.AmountOf(target).IsPositive()
	case "claim":
		for _, g := range m.groupsOf(target) {
			if m.gsnapshot(g, u).accrued().Sign() > 0 {
				return true
			}
		}
		return false
	}
	return true
}

// doOp: one source-module message on the positions of user u (the owner); every group of the module's
// claim object is observed before and after
func (m *mrun) doOp(kind, target string, u int, same bool) {
	ct := moduleOf(kind)
	groups := m.groupsOf(ct)
	pre := make([]gsnap, len(groups))
	for k, g := range groups {
		pre[k] = m.gsnapshot(g, u)
	}
	othersPre := m.digest(u, ct)
	desc := ""
	cls, err := kapp.Exec(m.ctx, func(cx sdk.Context) error {
		var e error
		desc, e = m.sourceOp(cx, kind, target, u)
		return e
	})
	if cls == kapp.Panic {
		m.out.Violation(fmt.Sprintf("c09 multi seq=%d %s %s panicked: %v", m.seq, kind, target, err))
	}
	if err != nil {
		m.out.Note("multi:err:" + kind + ":" + errClass(err))
	}
	othersPost := m.digest(u, ct)
	if cls == kapp.OK {
		for _, in := range m.instsOf(ct) {
			in.nsync++
			in.nsyncU[u]++
		}
		if kind == "hliq" {
			m.liq = true
			m.reenter[u] = m.block
			m.out.Note("multi:hliq:liquidated")
		}
	}
	for k, g := range groups {
		post := m.gsnapshot(g, u)
		sig := ""
		if k == 0 {
			moved, changed := 0, 0
			for x := range post.i {
				if post.i[x] != pre[k].i[x] {
					moved++
				}
				if post.s[x] != pre[k].s[x] {
					changed++
				}
			}
			sig = fmt.Sprintf("M|%s|%s|%s|n=%d|held=%d|moved=%d|changed=%d|sameblock=%v", ct, kind, cls, len(g.members), pre[k].held(), moved, changed, same)
		}
		m.out.Case(sig, "c09.mchange", "M"+ct+":"+kind+":"+target+":"+desc+":"+g.denom, fmt.Sprint(u), pre[k].r, join(pre[k].I), join(pre[k].s), join(pre[k].i),
			"=>", string(cls), post.r, join(post.s), join(post.i), othersPre, othersPost)
	}
	if cls == kapp.OK {
		m.evalUser(ct, kind, u)
	}
}

// pushOverLimit moves the oracle prices so that addr's x/hard borrow exceeds its borrow limit (LTV 0.6 on every
// deposit, equal conversion factors): the position is over the limit iff Σ_d price_d·(borrowed_d − 0.6·supplied_d) > 0,
// so the denoms with a net borrow keep their price and the others fall by a common factor.  Returns the prices to
// put back, nil when nothing was moved (no borrow, no denom with a net borrow, already over the limit).
func (m *mrun) pushOverLimit(ctx sdk.Context, addr sdk.AccAddress) map[string]sdk.Dec {
	w, r := m.w, m.r
	hk := w.tApp.GetHardKeeper()
	d, okD := hk.GetDeposit(ctx, addr)
	bo, okB := hk.GetBorrow(ctx, addr)
	if !okD || !okB {
		return nil
	}
	ltv := sdk.MustNewDecFromStr("0.6")
	debt, coll := sdk.ZeroDec(), sdk.ZeroDec()
	var fall []string
	for _, dn := range []string{"bnb", "busd", "usdx"} {
		net := sdk.NewDecFromInt(bo.Amount.AmountOf(dn)).Sub(ltv.MulInt(d.Amount.AmountOf(dn)))
		v := w.price(ctx, dn+":usd").Mul(net)
		if v.IsPositive() {
			debt = debt.Add(v)
		} else if v.IsNegative() {
			coll = coll.Sub(v)
			fall = append(fall, dn)
		}
	}
	if !debt.IsPositive() || !coll.IsPositive() {
		return nil
	}
	f := debt.Quo(coll).MulInt64(r.Range(30, 99)).QuoInt64(100)
	if f.GTE(sdk.OneDec()) {
		return nil
	}
	old := map[string]sdk.Dec{}
	for _, dn := range fall {
		p := w.price(ctx, dn+":usd")
		if p.Mul(f).LT(minBnbPrice) {
			return nil
		}
		old[dn] = p
	}
	for _, dn := range fall {
		w.setPrice(ctx, dn+":usd", old[dn].Mul(f))
	}
	return old
}

func (m *mrun) sourceOp(ctx sdk.Context, kind, target string, u int) (string, error) {
	w, r := m.w, m.r
	addr := w.users[u]
	actor := w.users[(u+1+r.Intn(nUsers-1))%nUsers]
	sk := w.tApp.GetSwapKeeper()
	hk := w.tApp.GetHardKeeper()
	ck := w.tApp.GetCDPKeeper()
	amt := func() int64 {
		return c.Pick(r, []int64{1, 2, 1000, 1e6, 1e6 + 1, 123456789, 5e9, r.Range(1, 1e7), r.Range(1, 1e10)})
	}
	deadline := ctx.BlockTime().Unix() + 100
	switch kind {
	case "sdep":
		da := strings.Split(target, ":")[0]
		a, b := amt(), amt()
		if pool, found := sk.GetPool(ctx, target); found && r.Chance(70) {
			res := pool.Reserves()
			b = new(big.Int).Div(new(big.Int).Mul(big.NewInt(a), res.AmountOf("usdx").BigInt()), res.AmountOf(da).BigInt()).Int64() + r.Range(0, 1)
			if b < 1 {
				b = 1
			}
		}
		_, err := m.ms.swap.Deposit(sdk.WrapSDKContext(ctx), swaptypes.NewMsgDeposit(addr.String(), sdk.NewInt64Coin(da, a), sdk.NewInt64Coin("usdx", b), sdk.MustNewDecFromStr("10"), deadline))
		return fmt.Sprintf("%d/%d", a, b), err
	case "swd":
		da := strings.Split(target, ":")[0]
		sh, found := sk.GetDepositorSharesAmount(ctx, addr, target)
		x := big.NewInt(amt())
		if found {
			switch r.Intn(5) {
			case 0, 1:
				x = sh.BigInt()
			case 2:
				x = new(big.Int).Add(sh.BigInt(), big.NewInt(1))
			case 3:
				x = new(big.Int).Div(sh.BigInt(), big.NewInt(r.Range(2, 5)))
			}
		}
		if x.Sign() <= 0 {
			x = big.NewInt(1)
		}
		_, err := m.ms.swap.Withdraw(sdk.WrapSDKContext(ctx), swaptypes.NewMsgWithdraw(addr.String(), sdkmath.NewIntFromBigInt(x), sdk.NewInt64Coin(da, 1), sdk.NewInt64Coin("usdx", 1), deadline))
		return x.String(), err
	case "hdep":
		// a random non-empty set of supply denoms (bnb, busd rewarded; usdx not rewarded on the supply side)
		cs := sdk.NewCoins()
		for _, d := range []string{"bnb", "busd", "usdx"} {
			if target == "all" || r.Chance(45) {
				cs = cs.Add(sdk.NewInt64Coin(d, amt()))
			}
		}
		if cs.Empty() {
			cs = cs.Add(sdk.NewInt64Coin(c.Pick(r, []string{"bnb", "busd"}), amt()))
		}
		if target == "all" {
			cs = cs.Add(sdk.NewInt64Coin("bnb", 1e9), sdk.NewInt64Coin("usdx", 1e10)) // liquidity to borrow against and from
		}
		_, err := m.ms.hard.Deposit(sdk.WrapSDKContext(ctx), &hardtypes.MsgDeposit{Depositor: addr.String(), Amount: cs})
		return cs.String(), err
	case "hwd":
		cs := sdk.NewCoins(sdk.NewInt64Coin("bnb", amt()))
		if d, found := hk.GetDeposit(ctx, addr); found && len(d.Amount) > 0 {
			cs = sdk.NewCoins()
			first := r.Intn(len(d.Amount))
			for k, have := range d.Amount {
				if k != first && !r.Chance(25) {
					continue
				}
				x := sdkmath.NewInt(amt())
				switch r.Intn(5) {
				case 0, 1:
					x = have.Amount.AddRaw(r.Range(0, 1)) // the whole deposit of this denom (withdraw caps at the deposit)
				case 2:
					x = have.Amount.QuoRaw(r.Range(2, 5))
				}
				if !x.IsPositive() {
					x = sdk.OneInt()
				}
				cs = cs.Add(sdk.NewCoin(have.Denom, x))
			}
		}
		_, err := m.ms.hard.Withdraw(sdk.WrapSDKContext(ctx), &hardtypes.MsgWithdraw{Depositor: addr.String(), Amount: cs})
		return cs.String(), err
	case "hbor":
		x := amt()
		if d, found := hk.GetDeposit(ctx, addr); found && r.Chance(70) {
			// well inside the borrow limit: 0.6 of the deposit's value (bnb at 17.25, busd and usdx at 1)
			val := d.Amount.AmountOf("bnb").MulRaw(17).Add(d.Amount.AmountOf("busd")).Add(d.Amount.AmountOf("usdx"))
			if val.IsInt64() {
				x = val.Int64()/(4*r.Range(1, 20)) + 1
			}
		}
		cs := sdk.NewCoins(sdk.NewInt64Coin(target, x))
		if r.Chance(15) {
			for _, o := range m.ctypes("hborrow") { // both rewarded borrow denoms in one message
				if o != target {
					cs = cs.Add(sdk.NewInt64Coin(o, x/3+1))
				}
			}
		}
		_, err := m.ms.hard.Borrow(sdk.WrapSDKContext(ctx), &hardtypes.MsgBorrow{Borrower: addr.String(), Amount: cs})
		return cs.String(), err
	case "hliq": // another user liquidates the owner's whole x/hard position (MsgLiquidate)
		// mostly after an oracle move that puts the owner over its borrow limit.  The prices come back within the
		// same transaction: bnb and busd are cdp collateral in this world and x/cdp liquidations are not its subject
		desc := "asis"
		var old map[string]sdk.Dec
		if r.Chance(88) {
			if old = m.pushOverLimit(ctx, addr); old != nil {
				desc = "moved"
			}
		}
		msg := hardtypes.NewMsgLiquidate(actor, addr)
		_, err := m.ms.hard.Liquidate(sdk.WrapSDKContext(ctx), &msg)
		for _, d := range []string{"bnb", "busd", "usdx"} {
			if p, ok := old[d]; ok {
				w.setPrice(ctx, d+":usd", p)
			}
		}
		return desc, err
	case "hrep", "hrep3":
		sender := addr
		if kind == "hrep3" {
			sender = actor
		}
		x := sdkmath.NewInt(amt())
		if b, found := hk.GetBorrow(ctx, addr); found {
			have := b.Amount.AmountOf(target)
			switch r.Intn(4) {
			case 0, 1:
				x = have.AddRaw(r.Range(0, 5)) // everything (capped at the debt)
			case 2:
				x = have.QuoRaw(r.Range(2, 5))
			}
		}
		if !x.IsPositive() {
			x = sdk.OneInt()
		}
		cs := sdk.NewCoins(sdk.NewCoin(target, x))
		_, err := m.ms.hard.Repay(sdk.WrapSDKContext(ctx), &hardtypes.MsgRepay{Sender: sender.String(), Owner: addr.String(), Amount: cs})
		return cs.String(), err
	case "ccreate":
		sp := cdpSpecOf(target)
		p := c.Pick(r, []int64{1e7, 1e7 + 1, 25e6, 123456789, r.Range(1e7, 1e10)})
		col := p * (sp.colMin + r.Range(0, sp.colSpan))
		if r.Chance(8) {
			col = p * sp.colMin / 2 // below the liquidation ratio: refused
		}
		msg := cdptypes.NewMsgCreateCDP(addr, sdk.NewInt64Coin(sp.denom, col), sdk.NewInt64Coin("usdx", p), target)
		_, err := m.ms.cdp.CreateCDP(sdk.WrapSDKContext(ctx), &msg)
		return fmt.Sprintf("%d/%d", col, p), err
	case "cdraw":
		x := c.Pick(r, []int64{1, 1000, 1e6, r.Range(1, 1e8)})
		msg := cdptypes.NewMsgDrawDebt(addr, target, sdk.NewInt64Coin("usdx", x))
		_, err := m.ms.cdp.DrawDebt(sdk.WrapSDKContext(ctx), &msg)
		return fmt.Sprint(x), err
	case "crepay":
		x := sdkmath.NewInt(amt())
		if cd, found := ck.GetCdpByOwnerAndCollateralType(ctx, addr, target); found {
			have := cd.GetTotalPrincipal().Amount
			switch r.Intn(4) {
			case 0, 1:
				x = have // everything: the CDP is closed (and may be re-created later)
			case 2:
				x = have.SubRaw(1e7) // down to the debt floor
			}
		}
		if !x.IsPositive() {
			x = sdk.OneInt()
		}
		msg := cdptypes.NewMsgRepayDebt(addr, target, sdk.NewCoin("usdx", x))
		_, err := m.ms.cdp.RepayDebt(sdk.WrapSDKContext(ctx), &msg)
		return x.String(), err
	case "cdep", "cdep3":
		from := addr
		if kind == "cdep3" {
			from = actor // a third party adds collateral to the owner's CDP
		}
		x := amt()
		msg := cdptypes.NewMsgDeposit(addr, from, sdk.NewInt64Coin(cdpSpecOf(target).denom, x), target)
		_, err := m.ms.cdp.Deposit(sdk.WrapSDKContext(ctx), &msg)
		return fmt.Sprint(x), err
	case "cwd":
		x := amt()
		msg := cdptypes.NewMsgWithdraw(addr, addr, sdk.NewInt64Coin(cdpSpecOf(target).denom, x), target)
		_, err := m.ms.cdp.Withdraw(sdk.WrapSDKContext(ctx), &msg)
		return fmt.Sprint(x), err
	case "edep":
		x := amt()
		_, err := m.ms.earn.Deposit(sdk.WrapSDKContext(ctx), earntypes.NewMsgDeposit(addr.String(), sdk.NewInt64Coin(target, x), earntypes.STRATEGY_TYPE_HARD))
		return fmt.Sprint(x), err
	default: // ewd
		x := sdkmath.NewInt(amt())
		ek := w.tApp.GetEarnKeeper()
		if sh, found := ek.GetVaultAccountShares(ctx, addr); found {
			have := sh.AmountOf(target).TruncateInt()
			switch r.Intn(4) {
			case 0, 1:
				x = have // everything: the vault position is emptied
			case 2:
				x = have.QuoRaw(r.Range(2, 5))
			}
		}
		if !x.IsPositive() {
			x = sdk.OneInt()
		}
		_, err := m.ms.earn.Withdraw(sdk.WrapSDKContext(ctx), earntypes.NewMsgWithdraw(addr.String(), sdk.NewCoin(target, x), earntypes.STRATEGY_TYPE_HARD))
		return x.String(), err
	}
}

// claimMsg: one claim message of the claim object ct
func (m *mrun) claimMsg(cx sdk.Context, ct string, addr sdk.AccAddress, sel itypes.Selections) error {
	var e error
	switch ct {
	case "swap":
		_, e = m.incMsg.ClaimSwapReward(sdk.WrapSDKContext(cx), &itypes.MsgClaimSwapReward{Sender: addr.String(), DenomsToClaim: sel})
	case "hard":
		_, e = m.incMsg.ClaimHardReward(sdk.WrapSDKContext(cx), &itypes.MsgClaimHardReward{Sender: addr.String(), DenomsToClaim: sel})
	case "usdx":
		_, e = m.incMsg.ClaimUSDXMintingReward(sdk.WrapSDKContext(cx), &itypes.MsgClaimUSDXMintingReward{Sender: addr.String(), MultiplierName: sel[0].MultiplierName})
	default:
		_, e = m.incMsg.ClaimEarnReward(sdk.WrapSDKContext(cx), &itypes.MsgClaimEarnReward{Sender: addr.String(), DenomsToClaim: sel})
	}
	return e
}

// doClaim: one claim message of user u on the claim object ct: one reward denom, or every reward denom
// that has something accrued
func (m *mrun) doClaim(ct string, u int) {
	r := m.r
	addr := m.w.users[u]
	groups := m.groupsOf(ct)
	pre := make([]gsnap, len(groups))
	var payable []int
	for k, g := range groups {
		pre[k] = m.gsnapshot(g, u)
		if pre[k].accrued().Sign() > 0 {
			payable = append(payable, k)
		}
	}
	// the selection
	var chosen []int
	if len(payable) > 1 && r.Chance(35) {
		chosen = payable
	} else if len(payable) > 0 && r.Chance(85) {
		chosen = []int{c.Pick(r, payable)}
	} else {
		chosen = []int{r.Intn(len(groups))}
	}
	selected := map[int]itypes.Multiplier{}
	var sel itypes.Selections
	for _, k := range chosen {
		mu := c.Pick(r, m.mults[groups[k].denom])
		selected[k] = mu
		sel = append(sel, itypes.NewSelection(groups[k].denom, mu.Name))
	}
	bal := func(cx sdk.Context, a sdk.AccAddress, denom string) sdkmath.Int { return m.bank.GetBalance(cx, a, denom).Amount }
	maccPre, userPre := map[int]sdkmath.Int{}, map[int]sdkmath.Int{}
	for _, k := range chosen {
		maccPre[k] = bal(m.ctx, m.macc, groups[k].denom)
		userPre[k] = bal(m.ctx, addr, groups[k].denom)
	}
	othersPre := m.digest(u, ct)
	cls, err := kapp.Exec(m.ctx, func(cx sdk.Context) error { return m.claimMsg(cx, ct, addr, sel) })
	if cls == kapp.Panic {
		m.out.Violation(fmt.Sprintf("c09 multi seq=%d claim %s panicked: %v", m.seq, ct, err))
	}
	if err != nil {
		m.out.Note("multi:err:claim:" + errClass(err))
	}
	othersPost := m.digest(u, ct)
	// an immediate second claim (same message, same block), in a context that is thrown away
	second := map[int]string{}
	if cls == kapp.OK {
		cctx, _ := m.ctx.CacheContext()
		b2 := map[int]sdkmath.Int{}
		for _, k := range chosen {
			b2[k] = bal(cctx, addr, groups[k].denom)
		}
		cls2, _ := kapp.Exec(cctx, func(cx sdk.Context) error { return m.claimMsg(cx, ct, addr, sel) })
		for _, k := range chosen {
			second[k] = string(cls2) + ":" + bal(cctx, addr, groups[k].denom).Sub(b2[k]).String()
		}
		for _, in := range m.instsOf(ct) {
			in.nsync++
			in.nsyncU[u]++
		}
	}
	solo := c.B(len(chosen) == 1)
	for k, g := range groups {
		post := m.gsnapshot(g, u)
		mu, isSel := selected[k]
		if !isSel {
			// a reward denom of the same claim object that was not claimed: synchronised at most
			m.out.Case("", "c09.mchange", "M"+ct+":claimother::"+":"+g.denom, fmt.Sprint(u), pre[k].r, join(pre[k].I), join(pre[k].s), join(pre[k].i),
				"=>", string(cls), post.r, join(post.s), join(post.i), othersPre, othersPost)
			continue
		}
		paid := bal(m.ctx, addr, g.denom).Sub(userPre[k])
		maccDelta := bal(m.ctx, m.macc, g.denom).Sub(maccPre[k])
		sec := "-"
		if cls == kapp.OK {
			sec = second[k]
			// what this claim removed from the claim object
			g.claimedU[u].Add(g.claimedU[u], new(big.Int).Sub(pre[k].accrued(), post.accrued()))
		}
		sig := fmt.Sprintf("M|claim|%s|%s|%s|afterEnd=%v|zero=%v|n=%d|held=%d|nsel=%d", ct, mu.Name, cls, m.now.After(m.claimEnd), pre[k].accrued().Sign() == 0, len(g.members), pre[k].held(), len(chosen))
		m.out.Case(sig, "c09.mclaim", "M"+ct+":"+g.denom, fmt.Sprint(u), solo, mant(mu.Factor), ns(m.now), ns(m.claimEnd), maccPre[k].String(),
			pre[k].r, join(pre[k].I), join(pre[k].s), join(pre[k].i), "=>", string(cls), post.r, join(post.i), paid.String(), maccDelta.String(), sec, othersPre, othersPost)
	}
	if cls == kapp.OK {
		m.evalUser(ct, "claim", u)
	}
}

func multiPart(out *c.Out, r *c.Rng) {
	n := c.Budget(32, 1500)
	if v := c.EnvInt("C09_MSEQS", -1); v >= 0 {
		n = v
	}
	if n == 0 {
		return
	}
	workers := c.Workers()
	pool := make(chan *world, workers)
	for i := 0; i < workers; i++ {
		pool <- mkMultiWorld()
	}
	kapp.RunSeqs(n, workers, r, func() *world { return <-pool },
		func(w *world, seq int, r *c.Rng) { w.mseq(out, seq, r) })
}
