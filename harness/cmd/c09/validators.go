package main

// validators.go — the delegator reward source with SEVERAL validators whose state changes.
//
// The worlds of keeper.go / multi.go have one genesis validator that stays bonded for ever.  Here:
//
//	validators : the genesis validator + vNVals validators created through MsgCreateValidator (one of them in
//	             the middle of the run), staking MaxValidators 2–4 (changed now and then), a short unbonding time
//	accounts   : the validators' operators (self-delegations), vNUsers users and the delegator of the genesis
//	             validator — i.e. EVERY delegator of the chain is followed
//	operations : MsgDelegate / MsgUndelegate / MsgBeginRedelegate of every account on every validator, delegator
//	             reward claims, and validator events through the REAL staking / slashing keepers:
//	             jail (slashing keeper Jail or staking Jail), unjail (slashing keeper Unjail), slash of a bonded
//	             validator, slash of an UNBONDING validator (evidence arriving after it was jailed or pushed out),
//	             slash + jail in one block (double sign), infraction heights in the past (unbonding delegations
//	             and redelegations are slashed as well: the redelegated stake is unbonded at the destination),
//	             an operator undelegating below its minimum self delegation (jailed by x/staking itself)
//	end block  : the staking keeper's BlockValidatorUpdates (ApplyAndReturnValidatorSetUpdates: validators pushed
//	             out of / into the bonded set, jailed validators begin unbonding, unjailed ones are bonded again;
//	             mature validators become unbonded; unbonding delegations and redelegations complete)
//	begin block: incentive.BeginBlocker (the delegator accumulation divides by staking's TotalBondedTokens)
//
// The incentive hooks are wired as in app.go (the test app is the app).
//
// The rule, derived from x/incentive/keeper/hooks.go and the hook call sites of x/staking (design_notes/C09.md):
// a delegator's source shares are  Σ over the validators that are BONDED of TokensFromShares(delegation shares);
// the total is the bonded pool.  Every event that changes a delegator's source shares is preceded by a
// synchronisation of that delegator with the shares held BEFORE the event — delegation changes
// (Before…SharesModified / Before…Created), a slash (BeforeValidatorSlashed: the validator's status and tokens are
// still the old ones), a validator leaving the bonded set (AfterValidatorBeginUnbonding: the status is already
// Unbonding, the validator is counted explicitly), a validator entering it (AfterValidatorBonded: already Bonded,
// left out explicitly) — with ONE exception that x/staking's own rounding causes: when another delegator unbonds
// from a validator whose tokens-per-share is not 1 (after a slash), the tokens handed out are truncated to whole
// units and the remainder (< 1 ukava per unbonding) stays with the remaining delegators, whose source shares grow
// by that much without a synchronisation (delegations: the issued shares are truncated at 10^-18, < 10^-18 ukava).
// The harness allows for exactly that: 1.001 ukava × (index growth not yet synchronised) per unbonding by somebody else.
//
// Predicates on the real keeper, from the harness's own bookkeeping (own reading of x/staking at every block
// boundary: validator status, tokens, TokensFromShares of every delegation — never x/incentive's GetTotalDelegated):
//
//	c09.vevent   every operation / validator event / end block, per reward denom, all accounts: the global index does
//	             not move; an account is either left alone or credited exactly the pending reward of its PRE-event
//	             bonded shares (index := global); an account whose bonded shares changed (beyond the rounding drift)
//	             was credited that way; a message of one account touches nobody else's claim   (C09_frame_own, C09_frame)
//	c09.integral per account: claimed + what SynchronizeDelegatorClaim reports, against the harness's own time integral
//	             Σ_blocks ⌊rate·secs·P·(own bonded tokens)/(bonded pool)⌋ — zero for every block in which the account's
//	             validators were not bonded   (C09_integral)
//	c09.bound    Σ over ALL delegator claims of the store ≤ emission + rounding   (C09_no_over_distribution)
//	c09.kclaim / c09.kpend / c09.kacc   as in keeper.go
//	c09.vsum     Σ accounts' bonded shares = bonded pool (within one rounding per delegation); c09.sum: the bonded
//	             pool x/incentive divides by = Σ tokens of the bonded validators

import (
	"fmt"
	"math/big"
	"sort"
	"strings"
	"time"

	sdkmath "cosmossdk.io/math"
	tmcrypto "github.com/cometbft/cometbft/crypto"
	tmproto "github.com/cometbft/cometbft/proto/tendermint/types"
	"github.com/cosmos/cosmos-sdk/crypto/keys/ed25519"
	sdk "github.com/cosmos/cosmos-sdk/types"
	slashingkeeper "github.com/cosmos/cosmos-sdk/x/slashing/keeper"
	stakingkeeper "github.com/cosmos/cosmos-sdk/x/staking/keeper"
	stakingtypes "github.com/cosmos/cosmos-sdk/x/staking/types"

	"github.com/kava-labs/kava/app"
	"github.com/kava-labs/kava/x/incentive"
	ikeeper "github.com/kava-labs/kava/x/incentive/keeper"
	itypes "github.com/kava-labs/kava/x/incentive/types"

	c "kavaverif/harness/common"
	"kavaverif/harness/kapp"
)

const (
	vNVals  = 4 // validators created by the harness (the genesis validator is a fifth)
	vNUsers = 4
	vTag    = "Vdeleg"
)

// 1.001 ukava (Dec mantissa): what one unbonding by somebody else can add to a delegator's tokens
var vDriftTok = new(big.Int).Add(P, new(big.Int).Quo(P, big.NewInt(1000)))

type vworld struct {
	tApp  app.TestApp
	base  sdk.Context
	accts []sdk.AccAddress // operators 0..vNVals-1, users, then the genesis validator's delegator
}

func mkValWorld() *vworld {
	var addrs []sdk.AccAddress
	for i := 0; i < vNVals+vNUsers; i++ {
		addrs = append(addrs, sdk.AccAddress(tmcrypto.AddressHash([]byte(fmt.Sprintf("c09-validators-account-%d", i)))))
	}
	cfgOnce.Do(func() { app.SetSDKConfig() })
	tApp := app.NewTestApp()
	coins := sdk.NewCoins(sdk.NewInt64Coin("ukava", 1e15))
	tApp.InitializeFromGenesisStatesWithTime(kapp.GenTime, app.NewFundedGenStateWithSameCoins(tApp.AppCodec(), coins, addrs))
	ctx := tApp.NewContext(false, tmproto.Header{Height: tApp.LastBlockHeight() + 1, Time: kapp.GenTime, ChainID: app.TestChainId})
	must(tApp.FundModuleAccount(ctx, itypes.IncentiveMacc, sdk.NewCoins(sdk.NewInt64Coin("hard", 2e18), sdk.NewInt64Coin("swp", 2e18))))
	// every delegator present at genesis is followed as well
	for _, d := range tApp.GetStakingKeeper().GetAllDelegations(ctx) {
		a := d.GetDelegatorAddr()
		known := false
		for _, x := range addrs {
			known = known || x.Equals(a)
		}
		if !known {
			addrs = append(addrs, a)
		}
	}
	return &vworld{tApp: tApp, base: ctx, accts: addrs}
}

type vsnap struct {
	I []string   // per reward denom: global index mantissa
	s []string   // per account: bonded shares (own computation)
	i [][]string // per reward denom, per account: stored index or "x"
	r [][]string // per reward denom, per account: stored reward
}

type vrun struct {
	w      *vworld
	out    *c.Out
	r      *c.Rng
	seq    int
	ctx    sdk.Context
	sk     *stakingkeeper.Keeper
	slk    slashingkeeper.Keeper
	ik     ikeeper.Keeper
	stMsg  stakingtypes.MsgServer
	incMsg itypes.MsgServer
	bank   interface {
		GetBalance(sdk.Context, sdk.AccAddress, string) sdk.Coin
	}
	macc     sdk.AccAddress
	rates    sdk.Coins
	mults    map[string][]itypes.Multiplier
	period   [2]time.Time
	claimEnd time.Time
	now      time.Time
	n        int // accounts
	created  int // validators created so far
	// the harness's own bookkeeping
	emission  []*big.Int   // [denom] Σ_b rate·secs_b (Dec mantissa) over accruing blocks
	sumT      *big.Int     // Σ_b T_b
	nAccr     int64        // accruing blocks so far: a synchronisation rounds only when the index moved since the last one
	flo       [][]*big.Int // [denom][account] Σ_b ⌊rate·secs_b·P·s_u(b)/T_b⌋
	slack     []*big.Int   // [account] Σ_b ((P+2)·s_u(b) + P)
	claimedU  [][]*big.Int // [denom][account]
	openI     [][]*big.Int // [denom][account] index growth (upper bound) since the account's last own message
	driftProd [][]*big.Int // [denom][account] Σ_events openI·1.001 ukava   (10^-36 reward units)
	itot      []*big.Int   // [denom] Σ_b index growth (upper bound)
	maxDeleg  int64        // most delegations seen at a block boundary
	curS      []*big.Int
}

// ---------------------------------------------------------------------------------------------
// the harness's own reading of x/staking

// bonded shares of one account: Σ over the BONDED validators of TokensFromShares(delegation shares)
func (m *vrun) ownShares(ctx sdk.Context, a sdk.AccAddress) sdk.Dec {
	tot := sdk.ZeroDec()
	for _, v := range m.sk.GetAllValidators(ctx) {
		if v.GetStatus() != stakingtypes.Bonded || !v.GetTokens().IsPositive() {
			continue
		}
		d, found := m.sk.GetDelegation(ctx, a, v.GetOperator())
		if !found {
			continue
		}
		tot = tot.Add(v.TokensFromShares(d.GetShares()))
	}
	return tot
}

func (m *vrun) vsnapshot(ctx sdk.Context) vsnap {
	var sn vsnap
	g, _ := m.ik.GetDelegatorRewardIndexes(ctx, itypes.BondDenom)
	for _, a := range m.w.accts {
		sn.s = append(sn.s, mant(m.ownShares(ctx, a)))
	}
	for _, rc := range m.rates {
		sn.I = append(sn.I, mant(idx(g, rc.Denom)))
		var is, rs []string
		for _, a := range m.w.accts {
			v, rew := "x", sdk.Coins{}
			if cl, found := m.ik.GetDelegatorClaim(ctx, a); found {
				rew = cl.Reward
				if ri, ok := cl.RewardIndexes.Get(itypes.BondDenom); ok {
					if f, has := ri.Get(rc.Denom); has {
						v = mant(f)
					}
				}
			}
			is = append(is, v)
			rs = append(rs, rew.AmountOf(rc.Denom).String())
		}
		sn.i = append(sn.i, is)
		sn.r = append(sn.r, rs)
	}
	return sn
}

// stored reward + pending with the harness's own shares (an absent index is zero; zero shares: nothing pending)
func (sn vsnap) accrued(j, u int) *big.Int {
	a := bigOf(sn.r[j][u])
	s := bigOf(sn.s[u])
	if s.Sign() == 0 {
		return a
	}
	i := big.NewInt(0)
	if sn.i[j][u] != "x" {
		i = bigOf(sn.i[j][u])
	}
	d := new(big.Int).Sub(bigOf(sn.I[j]), i)
	if d.Sign() <= 0 {
		return a
	}
	return a.Add(a, dec(d).Mul(dec(s)).RoundInt().BigInt())
}

// what the keeper reports as accrued (SynchronizeDelegatorClaim in a context that is thrown away)
func (m *vrun) synced(ctx sdk.Context, a sdk.AccAddress) sdk.Coins {
	cctx, _ := ctx.CacheContext()
	cl, found := m.ik.GetDelegatorClaim(cctx, a)
	if !found {
		return nil
	}
	cl, err := m.ik.SynchronizeDelegatorClaim(cctx, cl)
	must(err)
	return cl.Reward
}

func (m *vrun) validators(ctx sdk.Context, keep func(stakingtypes.Validator) bool) []stakingtypes.Validator {
	var vs []stakingtypes.Validator
	for _, v := range m.sk.GetAllValidators(ctx) {
		if keep == nil || keep(v) {
			vs = append(vs, v)
		}
	}
	sort.Slice(vs, func(a, b int) bool { return vs[a].OperatorAddress < vs[b].OperatorAddress })
	return vs
}

func statusLetter(v stakingtypes.Validator) string {
	s := "?"
	switch v.GetStatus() {
	case stakingtypes.Bonded:
		s = "B"
	case stakingtypes.Unbonding:
		s = "U"
	case stakingtypes.Unbonded:
		s = "N"
	}
	if v.IsJailed() {
		s += "j"
	}
	return s
}

func (m *vrun) statuses(ctx sdk.Context) string {
	var xs []string
	for _, v := range m.validators(ctx, nil) {
		xs = append(xs, statusLetter(v))
	}
	return strings.Join(xs, "")
}

// ---------------------------------------------------------------------------------------------
// one observed operation: a message of account `actor`, or a validator event / end block (actor < 0)

func (m *vrun) observe(kind, desc string, actor int, unbondings int64, sigExtra string, f func(sdk.Context) error) kapp.Class {
	pre := m.vsnapshot(m.ctx)
	// a validator event that unbonds on the way (a slash reaching back to redelegations) does so BEFORE its hook runs
	driftSync := big.NewInt(0)
	if actor < 0 {
		driftSync.Mul(vDriftTok, big.NewInt(unbondings))
	}
	cls, err := kapp.Exec(m.ctx, f)
	if cls == kapp.Panic {
		// a panic inside the incentive hooks is the property's business; x/staking's own refusals to continue
		// (e.g. an inconsistent request of the harness) are not
		if strings.Contains(err.Error(), "reward ind") || strings.Contains(err.Error(), "incentive") {
			m.out.Violation(fmt.Sprintf("c09 validators seq=%d %s %s panicked: %v", m.seq, kind, desc, err))
		}
		m.out.Note("val:panic:" + kind)
	} else if err != nil {
		m.out.Note("val:err:" + kind + ":" + verrClass(err))
	}
	post := m.vsnapshot(m.ctx)
	as := "-"
	if actor >= 0 {
		as = fmt.Sprint(actor)
	}
	for j, rc := range m.rates {
		sig := ""
		if j == 0 {
			nsynced, nchanged := 0, 0
			for u := 0; u < m.n; u++ {
				if post.i[j][u] != pre.i[j][u] || post.r[j][u] != pre.r[j][u] {
					nsynced++
				}
				if post.s[u] != pre.s[u] {
					nchanged++
				}
			}
			sig = fmt.Sprintf("V|%s|%s|synced=%d|changed=%d|%s", kind, cls, min3(nsynced), min3(nchanged), sigExtra)
		}
		m.out.Case(sig, "c09.vevent", vTag+":"+kind+":"+desc+":"+rc.Denom, as, pre.I[j], join(pre.s), join(pre.i[j]), join(pre.r[j]),
			"=>", string(cls), post.I[j], join(post.s), join(post.i[j]), join(post.r[j]), vDriftTok.String(), driftSync.String())
	}
	if cls == kapp.OK {
		for j := range m.rates {
			for u := 0; u < m.n; u++ {
				if u == actor {
					continue
				}
				if unbondings > 0 {
					x := new(big.Int).Mul(m.openI[j][u], vDriftTok)
					m.driftProd[j][u].Add(m.driftProd[j][u], x.Mul(x, big.NewInt(unbondings)))
				}
			}
			if actor >= 0 {
				m.openI[j][actor] = big.NewInt(0) // the actor's own hook synchronised it with the pre-change shares
			}
		}
		if actor >= 0 {
			m.integral(kind, actor)
		}
	}
	return cls
}

func min3(n int) int {
	if n > 3 {
		return 3
	}
	return n
}

func verrClass(err error) string {
	s := err.Error()
	for _, k := range []string{"insufficient", "not found", "no delegation", "too many", "invalid", "jailed", "self delegation", "transitive", "expired", "zero", "no claimable", "exists", "panic"} {
		if strings.Contains(s, k) {
			return strings.ReplaceAll(k, " ", "-")
		}
	}
	return "other"
}

// integral: C09_integral on what the keeper reports for account u
func (m *vrun) integral(what string, u int) {
	rep := m.synced(m.ctx, m.w.accts[u])
	for j, rc := range m.rates {
		gained := new(big.Int).Add(rep.AmountOf(rc.Denom).BigInt(), m.claimedU[j][u])
		sl := new(big.Int).Mul(new(big.Int).Mul(big.NewInt(2), P), m.driftProd[j][u])
		sl.Add(sl, m.slack[u])
		m.out.Case("", "c09.integral", vTag+":"+what+":"+rc.Denom, fmt.Sprint(u), fmt.Sprint(m.nAccr), gained.String(), m.flo[j][u].String(), sl.String())
	}
}

// ---------------------------------------------------------------------------------------------
// one sequence

func (w *vworld) vseq(out *c.Out, seq int, r *c.Rng) {
	ctx, _ := w.base.CacheContext()
	m := &vrun{w: w, out: out, r: r, seq: seq, sk: w.tApp.GetStakingKeeper(), slk: w.tApp.GetSlashingKeeper(), ik: w.tApp.GetIncentiveKeeper(),
		bank: w.tApp.GetBankKeeper(), macc: w.tApp.GetAccountKeeper().GetModuleAddress(itypes.IncentiveMacc), n: len(w.accts), sumT: big.NewInt(0)}
	m.stMsg = stakingkeeper.NewMsgServerImpl(m.sk)
	m.incMsg = ikeeper.NewMsgServerImpl(m.ik)

	scale := c.Pick(r, []int{0, 0, 0, 1})
	nblocks := 26 + r.Intn(12)
	if c.Tier() == "thorough" {
		nblocks = 60 + r.Intn(20)
	}
	times := make([]time.Time, nblocks)
	{
		t := kapp.GenTime
		for b := range times {
			if b > 0 && !r.Chance(6) {
				t = t.Add(gapAt(r, scale))
			}
			times[b] = t
		}
	}
	jitter := func(t time.Time) time.Time {
		switch r.Intn(4) {
		case 0:
			return t
		case 1:
			return t.Add(time.Duration(r.Range(-1, 1)))
		case 2:
			return t.Add(time.Duration(fracNs(r)))
		default:
			return t.Add(-time.Duration(fracNs(r)))
		}
	}
	// the reward period: starts in the first quarter, ends inside the run in a third of the sequences
	{
		st := jitter(times[r.Intn(nblocks/4)])
		en := times[nblocks-1].Add(gapAt(r, scale) * time.Duration(1+r.Intn(10)))
		if r.Chance(33) {
			en = jitter(times[nblocks/2+r.Intn(nblocks/2)])
		}
		if en.Before(st) {
			en = st
		}
		m.period = [2]time.Time{st, en}
	}
	rate := func(denom string) sdk.Coin {
		return sdk.NewCoin(denom, sdkmath.NewInt(c.Pick(r, []int64{1, 3, 122354, 1000000, 999999937, r.Range(1, 5000), r.Range(1000, 5000000), r.Range(1000, 5000000)})))
	}
	m.rates = sdk.NewCoins(rate("hard"))
	if r.Chance(60) {
		m.rates = sdk.NewCoins(rate("hard"), rate("swp"))
	}
	m.mults = map[string][]itypes.Multiplier{
		"hard": {itypes.NewMultiplier("small", 1, sdk.MustNewDecFromStr("0.25")), itypes.NewMultiplier("large", 12, sdk.OneDec())},
		"swp":  {itypes.NewMultiplier("small", 1, sdk.MustNewDecFromStr("0.33")), itypes.NewMultiplier("medium", 6, sdk.MustNewDecFromStr("0.5")), itypes.NewMultiplier("large", 0, sdk.OneDec())},
	}
	params := itypes.DefaultParams()
	params.DelegatorRewardPeriods = itypes.MultiRewardPeriods{itypes.NewMultiRewardPeriod(true, itypes.BondDenom, m.period[0], m.period[1], m.rates)}
	for _, d := range []string{"hard", "swp"} {
		params.ClaimMultipliers = append(params.ClaimMultipliers, itypes.MultipliersPerDenom{Denom: d, Multipliers: m.mults[d]})
	}
	m.claimEnd = m.period[1].Add(gapAt(r, scale)*40 + times[nblocks-1].Sub(kapp.GenTime))
	if r.Chance(20) {
		m.claimEnd = jitter(times[nblocks-1-r.Intn(nblocks/3)])
	}
	params.ClaimEnd = m.claimEnd
	must(params.Validate())
	kapp.SetParams(w.tApp, ctx, "incentive", &params, func() { m.ik.SetParams(ctx, params) })

	// staking: a small active set and an unbonding time of a few blocks
	sp := m.sk.GetParams(ctx)
	sp.MaxValidators = uint32(c.Pick(r, []int{2, 2, 3, 3, 4}))
	if scale == 0 {
		sp.UnbondingTime = time.Duration(r.Range(4, 70)) * time.Second
	} else {
		sp.UnbondingTime = time.Duration(r.Range(100000, 3000000)) * time.Second
	}
	must(m.sk.SetParams(ctx, sp))

	for range m.rates {
		m.emission = append(m.emission, big.NewInt(0))
		m.itot = append(m.itot, big.NewInt(0))
		var f, cl, oi, dp []*big.Int
		for u := 0; u < m.n; u++ {
			f, cl, oi, dp = append(f, big.NewInt(0)), append(cl, big.NewInt(0)), append(oi, big.NewInt(0)), append(dp, big.NewInt(0))
		}
		m.flo, m.claimedU, m.openI, m.driftProd = append(m.flo, f), append(m.claimedU, cl), append(m.openI, oi), append(m.driftProd, dp)
	}
	for u := 0; u < m.n; u++ {
		m.slack = append(m.slack, big.NewInt(0))
	}
	m.curS = make([]*big.Int, m.n)
	lateCreate := 3 + r.Intn(nblocks/2)

	var lastBlock time.Time
	haveLast := false
	for b := 0; b < nblocks; b++ {
		now := times[b]
		m.now = now
		ctx = ctx.WithBlockTime(now).WithBlockHeight(ctx.BlockHeight() + 1)
		m.ctx = ctx

		// ---- the harness's own reading of x/staking at the block boundary
		pool := m.sk.TotalBondedTokens(ctx) // what x/incentive divides by
		T := sdk.NewDecFromInt(pool)
		{
			var vt []string
			for _, v := range m.validators(ctx, func(v stakingtypes.Validator) bool { return v.GetStatus() == stakingtypes.Bonded }) {
				vt = append(vt, mant(sdk.NewDecFromInt(v.GetTokens())))
			}
			if len(vt) == 0 {
				vt = []string{"0"}
			}
			out.Case("", "c09.sum", "Vpool", mant(T), join(vt))
			var ss []string
			for u, a := range w.accts {
				sh := m.ownShares(ctx, a)
				m.curS[u] = sh.BigInt()
				ss = append(ss, mant(sh))
			}
			nd := int64(len(m.sk.GetAllDelegations(ctx)))
			if nd > m.maxDeleg {
				m.maxDeleg = nd
			}
			out.Case("", "c09.vsum", vTag, mant(T), fmt.Sprint(nd), join(ss))
		}

		// ---- begin block: the delegator accumulation
		prevT, prevFound := m.ik.GetPreviousDelegatorRewardAccrualTime(ctx, itypes.BondDenom)
		gPre, _ := m.ik.GetDelegatorRewardIndexes(ctx, itypes.BondDenom)
		cls, err := kapp.Exec(ctx, func(cx sdk.Context) error { incentive.BeginBlocker(cx, m.ik); return nil })
		postT, _ := m.ik.GetPreviousDelegatorRewardAccrualTime(ctx, itypes.BondDenom)
		gPost, _ := m.ik.GetDelegatorRewardIndexes(ctx, itypes.BondDenom)
		var d time.Duration
		if haveLast {
			d = overlap(lastBlock, now, m.period[0], m.period[1])
		}
		secs := secsOf(d)
		accrues := T.IsPositive() && secs > 0
		if accrues {
			m.sumT.Add(m.sumT, T.BigInt())
			m.nAccr++
			for u := 0; u < m.n; u++ {
				sl := new(big.Int).Mul(new(big.Int).Add(P, big.NewInt(2)), m.curS[u])
				m.slack[u].Add(m.slack[u], sl.Add(sl, P))
			}
		}
		for j, rc := range m.rates {
			rm := sdk.NewDecFromInt(rc.Amount)
			if accrues {
				e := new(big.Int).Mul(rm.BigInt(), big.NewInt(secs))
				m.emission[j].Add(m.emission[j], e)
				up := new(big.Int).Mul(e, P)
				up.Quo(up, T.BigInt()).Add(up, big.NewInt(1)) // index growth of this block, rounded up
				m.itot[j].Add(m.itot[j], up)
				for u := 0; u < m.n; u++ {
					x := new(big.Int).Mul(e, P)
					x.Mul(x, m.curS[u])
					m.flo[j][u].Add(m.flo[j][u], x.Quo(x, T.BigInt()))
					m.openI[j][u].Add(m.openI[j][u], up)
				}
			}
			sig := ""
			if j == 0 {
				rel := "in"
				if !now.After(m.period[0]) {
					rel = "before"
				} else if haveLast && !lastBlock.Before(m.period[1]) {
					rel = "after"
				}
				sig = fmt.Sprintf("V|%s|found=%v|T>0=%v|secs>0=%v|%s", cls, prevFound, T.IsPositive(), secs > 0, rel)
			}
			if cls != kapp.OK {
				out.Case(sig, "c09.kacc", vTag, c.B(prevFound), ns(prevT), ns(now), ns(m.period[0]), ns(m.period[1]), mant(rm), mant(T), mant(idx(gPre, rc.Denom)), "=>", string(cls), "-", "-")
			} else {
				out.Case(sig, "c09.kacc", vTag, c.B(prevFound), ns(prevT), ns(now), ns(m.period[0]), ns(m.period[1]), mant(rm), mant(T), mant(idx(gPre, rc.Denom)), "=>", string(cls), ns(postT), mant(idx(gPost, rc.Denom)))
			}
		}
		if cls != kapp.OK {
			out.Violation(fmt.Sprintf("c09 validators seq=%d block=%d incentive BeginBlocker: %v", seq, b, err))
			return
		}
		lastBlock, haveLast = now, true

		// ---- block 0: validators are created, everybody delegates to most of them
		if b == 0 {
			for m.created < vNVals-1 {
				m.createValidator()
			}
			for u := vNVals; u < m.n; u++ {
				for _, v := range m.validators(ctx, nil) {
					if r.Chance(65) {
						m.delegate(u, v.GetOperator(), m.amount())
					}
				}
			}
		}
		if b == lateCreate && m.created < vNVals {
			m.createValidator()
		}

		// ---- operations of this block: messages of the accounts and validator events, interleaved
		nops := c.Pick(r, []int{0, 1, 1, 2, 2, 3, 4})
		for o := 0; o < nops; o++ {
			if r.Chance(30) {
				m.validatorEvent()
			} else {
				m.accountOp(r.Intn(m.n))
			}
		}
		if r.Chance(4) {
			np := m.sk.GetParams(ctx)
			np.MaxValidators = uint32(c.Pick(r, []int{1, 2, 3, 4, 5}))
			must(m.sk.SetParams(ctx, np))
			out.Note("val:maxvalidators-changed")
		}

		// ---- end block: the validator set is recomputed, mature unbondings complete
		before := m.statuses(ctx)
		var after string
		m.observe("endblock", before, -1, 0, "", func(cx sdk.Context) error {
			m.sk.BlockValidatorUpdates(cx)
			after = m.statuses(cx)
			return nil
		})
		if after != before {
			out.Note("val:set-change:" + transitions(before, after))
		}
		// one more account against its integral
		m.integral("block", r.Intn(m.n))
	}

	// ---- end of the sequence
	sn := m.vsnapshot(m.ctx)
	for u := 0; u < m.n; u++ {
		m.integral("end", u)
	}
	claims := m.ik.GetAllDelegatorClaims(m.ctx)
	for j, rc := range m.rates {
		var rs []string
		for _, a := range w.accts {
			rs = append(rs, m.synced(m.ctx, a).AmountOf(rc.Denom).String())
		}
		out.Case("V|pend", "c09.kpend", vTag, sn.I[j], join(sn.s), join(sn.i[j]), join(sn.r[j]), "=>", join(rs))
		// every claim of the store, whoever owns it
		credited := big.NewInt(0)
		for _, cl := range claims {
			credited.Add(credited, m.synced(m.ctx, cl.Owner).AmountOf(rc.Denom).BigInt())
		}
		extra := new(big.Int).Mul(m.itot[j], big.NewInt(m.maxDeleg+1)) // Σ shares ≤ pool + one rounding per delegation
		for u := 0; u < m.n; u++ {
			credited.Add(credited, m.claimedU[j][u])
			extra.Add(extra, m.driftProd[j][u])
		}
		out.Case(fmt.Sprintf("V|bound|emitted=%v|claims=%d", m.emission[j].Sign() > 0, min3(len(claims))), "c09.bound", vTag+":"+rc.Denom,
			fmt.Sprint(len(claims)+m.n), fmt.Sprint(int64(len(claims)+m.n)*m.nAccr), m.emission[j].String(), m.sumT.String(), credited.String(), extra.String())
	}
}

// "BBNUj…" → the letters that changed, e.g. "B>U,U>B"
func transitions(before, after string) string {
	bs, as := splitStatuses(before), splitStatuses(after)
	if len(bs) != len(as) {
		return "validators:" + fmt.Sprint(len(bs)) + ">" + fmt.Sprint(len(as))
	}
	seen := map[string]bool{}
	var xs []string
	for k := range bs {
		if bs[k] != as[k] && !seen[bs[k]+">"+as[k]] {
			seen[bs[k]+">"+as[k]] = true
			xs = append(xs, bs[k]+">"+as[k])
		}
	}
	sort.Strings(xs)
	return strings.Join(xs, ",")
}

func splitStatuses(s string) []string {
	var xs []string
	for k := 0; k < len(s); k++ {
		if s[k] == 'j' && len(xs) > 0 {
			xs[len(xs)-1] += "j"
		} else {
			xs = append(xs, string(s[k]))
		}
	}
	return xs
}

// ---------------------------------------------------------------------------------------------
// messages of the accounts

func (m *vrun) amount() int64 {
	r := m.r
	return c.Pick(r, []int64{1000000, 1000001, 2500000, 999999, 1, r.Range(100000, 5000000), r.Range(1000000, 30000000), r.Range(1, 20000000)})
}

func (m *vrun) valIndex(op sdk.ValAddress) string {
	for k, v := range m.validators(m.ctx, nil) {
		if v.GetOperator().Equals(op) {
			return fmt.Sprintf("v%d%s", k, statusLetter(v))
		}
	}
	return "v?"
}

func (m *vrun) createValidator() {
	k := m.created
	m.created++
	op := m.w.accts[k]
	pk := ed25519.GenPrivKeyFromSecret([]byte(fmt.Sprintf("c09-validators-consensus-key-%d", k))).PubKey()
	self := c.Pick(m.r, []int64{1000000, 2000000, 3000001, 5000000, m.r.Range(1000000, 20000000)})
	minSelf := c.Pick(m.r, []int64{1, 1000000, self / 2})
	msg, err := stakingtypes.NewMsgCreateValidator(sdk.ValAddress(op), pk, sdk.NewInt64Coin("ukava", self),
		stakingtypes.Description{Moniker: fmt.Sprintf("c09-%d", k)}, stakingtypes.NewCommissionRates(sdk.ZeroDec(), sdk.ZeroDec(), sdk.ZeroDec()), sdkmath.NewInt(minSelf))
	must(err)
	m.observe("vcreate", fmt.Sprintf("%d/%d", self, minSelf), k, 0, "", func(cx sdk.Context) error {
		_, e := m.stMsg.CreateValidator(sdk.WrapSDKContext(cx), msg)
		return e
	})
}

func (m *vrun) delegate(u int, val sdk.ValAddress, x int64) {
	vi := m.valIndex(val)
	m.observe("del", fmt.Sprintf("%s/%d", vi, x), u, 1, "to="+vi[2:], func(cx sdk.Context) error {
		_, e := m.stMsg.Delegate(sdk.WrapSDKContext(cx), stakingtypes.NewMsgDelegate(m.w.accts[u], val, sdk.NewInt64Coin("ukava", x)))
		return e
	})
}

// an amount to take out of a delegation: everything, a part, one unit, or anything
func (m *vrun) outAmount(a sdk.AccAddress, v stakingtypes.Validator) sdkmath.Int {
	r := m.r
	x := sdkmath.NewInt(m.amount())
	if d, found := m.sk.GetDelegation(m.ctx, a, v.GetOperator()); found {
		have := v.TokensFromShares(d.GetShares()).TruncateInt()
		switch r.Intn(6) {
		case 0, 1:
			x = have
		case 2:
			x = have.QuoRaw(r.Range(2, 5))
		case 3:
			x = have.SubRaw(r.Range(1, 3))
		case 4:
			x = sdk.OneInt()
		}
	}
	if !x.IsPositive() {
		x = sdk.OneInt()
	}
	return x
}

func (m *vrun) accountOp(u int) {
	r := m.r
	a := m.w.accts[u]
	all := m.validators(m.ctx, nil)
	var mine []stakingtypes.Validator
	for _, v := range all {
		if _, found := m.sk.GetDelegation(m.ctx, a, v.GetOperator()); found {
			mine = append(mine, v)
		}
	}
	kind := c.Pick(r, []string{"del", "del", "del", "und", "und", "und", "red", "red", "red", "claim", "claim", "claim", "claim"})
	if len(mine) == 0 && (kind == "und" || kind == "red") && r.Chance(85) {
		kind = "del"
	}
	if kind == "claim" && r.Chance(85) {
		// mostly when something is accrued
		sn := m.vsnapshot(m.ctx)
		any := false
		for j := range m.rates {
			any = any || sn.accrued(j, u).Sign() > 0
		}
		if !any {
			kind = c.Pick(r, []string{"del", "und", "red"})
			if len(mine) == 0 {
				kind = "del"
			}
		}
	}
	switch kind {
	case "del":
		m.delegate(u, c.Pick(r, all).GetOperator(), m.amount())
	case "und":
		v := c.Pick(r, all)
		if len(mine) > 0 && r.Chance(90) {
			v = c.Pick(r, mine)
		}
		x := m.outAmount(a, v)
		vi := m.valIndex(v.GetOperator())
		own := sdk.ValAddress(a).Equals(v.GetOperator())
		m.observe("und", fmt.Sprintf("%s/%s", vi, x), u, 1, fmt.Sprintf("from=%s|operator=%v", vi[2:], own), func(cx sdk.Context) error {
			_, e := m.stMsg.Undelegate(sdk.WrapSDKContext(cx), stakingtypes.NewMsgUndelegate(a, v.GetOperator(), sdk.NewCoin("ukava", x)))
			return e
		})
	case "red":
		src := c.Pick(r, all)
		if len(mine) > 0 && r.Chance(90) {
			src = c.Pick(r, mine)
		}
		dst := c.Pick(r, all)
		for try := 0; try < 4 && dst.OperatorAddress == src.OperatorAddress; try++ {
			dst = c.Pick(r, all)
		}
		x := m.outAmount(a, src)
		si, di := m.valIndex(src.GetOperator()), m.valIndex(dst.GetOperator())
		m.observe("red", fmt.Sprintf("%s>%s/%s", si, di, x), u, 2, fmt.Sprintf("from=%s|to=%s", si[2:], di[2:]), func(cx sdk.Context) error {
			_, e := m.stMsg.BeginRedelegate(sdk.WrapSDKContext(cx), stakingtypes.NewMsgBeginRedelegate(a, src.GetOperator(), dst.GetOperator(), sdk.NewCoin("ukava", x)))
			return e
		})
	default:
		m.claim(u)
	}
}

// one claim message (one reward denom, one multiplier)
func (m *vrun) claim(u int) {
	r := m.r
	a := m.w.accts[u]
	j := r.Intn(len(m.rates))
	denom := m.rates[j].Denom
	mu := c.Pick(r, m.mults[denom])
	pre := m.vsnapshot(m.ctx)
	maccPre := m.bank.GetBalance(m.ctx, m.macc, denom).Amount
	userPre := m.bank.GetBalance(m.ctx, a, denom).Amount
	accrued := pre.accrued(j, u)
	sel := itypes.Selections{itypes.NewSelection(denom, mu.Name)}
	cls, err := kapp.Exec(m.ctx, func(cx sdk.Context) error {
		_, e := m.incMsg.ClaimDelegatorReward(sdk.WrapSDKContext(cx), &itypes.MsgClaimDelegatorReward{Sender: a.String(), DenomsToClaim: sel})
		return e
	})
	if cls == kapp.Panic {
		m.out.Violation(fmt.Sprintf("c09 validators seq=%d claim panicked: %v", m.seq, err))
	}
	if err != nil {
		m.out.Note("val:err:claim:" + verrClass(err))
	}
	post := m.vsnapshot(m.ctx)
	paid := m.bank.GetBalance(m.ctx, a, denom).Amount.Sub(userPre)
	maccDelta := m.bank.GetBalance(m.ctx, m.macc, denom).Amount.Sub(maccPre)
	if cls == kapp.OK {
		// what this claim removed from the claim object (the harness's own arithmetic on the observed indexes)
		m.claimedU[j][u].Add(m.claimedU[j][u], new(big.Int).Sub(accrued, bigOf(post.r[j][u])))
		for k := range m.rates {
			m.openI[k][u] = big.NewInt(0)
		}
	}
	sig := fmt.Sprintf("V|claim|%s|%s|afterEnd=%v|zero=%v|bonded=%v", mu.Name, cls, m.now.After(m.claimEnd), accrued.Sign() == 0, pre.s[u] != "0")
	m.out.Case(sig, "c09.kclaim", vTag+":"+denom, fmt.Sprint(u), mant(mu.Factor), ns(m.now), ns(m.claimEnd), maccPre.String(),
		pre.I[j], join(pre.s), join(pre.i[j]), join(pre.r[j]), "=>", string(cls), join(post.i[j]), join(post.r[j]), paid.String(), maccDelta.String())
	if cls == kapp.OK {
		m.integral("claim", u)
	}
}

// ---------------------------------------------------------------------------------------------
// validator events, through the real staking / slashing keepers

func (m *vrun) validatorEvent() {
	r := m.r
	ctx := m.ctx
	notJailed := m.validators(ctx, func(v stakingtypes.Validator) bool { return !v.IsJailed() })
	jailed := m.validators(ctx, func(v stakingtypes.Validator) bool { return v.IsJailed() })
	slashable := m.validators(ctx, func(v stakingtypes.Validator) bool { return !v.IsUnbonded() && v.GetTokens().IsPositive() })
	unbonding := m.validators(ctx, func(v stakingtypes.Validator) bool { return v.IsUnbonding() && v.GetTokens().IsPositive() })
	kind := c.Pick(r, []string{"jail", "jail", "unjail", "unjail", "unjail", "slash", "slash", "slash", "slash", "dsign", "dsign"})
	active := m.validators(ctx, func(v stakingtypes.Validator) bool { return v.IsBonded() && !v.IsJailed() })
	switch {
	case kind == "jail" && len(notJailed) == 0, kind == "unjail" && len(jailed) == 0:
		kind = "slash"
	case (kind == "jail" || kind == "dsign") && len(active) <= 1 && r.Chance(80):
		kind = "slash" // mostly keep somebody in the bonded set, so that rewards keep accruing
	}
	if (kind == "slash" || kind == "dsign") && len(slashable) == 0 {
		return
	}
	switch kind {
	case "jail":
		v := c.Pick(r, notJailed)
		// mostly a validator of the active set
		for try := 0; try < 3 && !v.IsBonded(); try++ {
			v = c.Pick(r, notJailed)
		}
		cons, err := v.GetConsAddr()
		must(err)
		route := r.Intn(2)
		m.observe("jail", m.valIndex(v.GetOperator()), -1, 0, fmt.Sprintf("status=%s|route=%d", statusLetter(v), route), func(cx sdk.Context) error {
			if route == 0 {
				m.slk.Jail(cx, cons) // what x/slashing (downtime) and x/evidence do
			} else {
				m.sk.Jail(cx, cons)
			}
			return nil
		})
	case "unjail":
		v := c.Pick(r, jailed)
		m.observe("unjail", m.valIndex(v.GetOperator()), -1, 0, "status="+statusLetter(v), func(cx sdk.Context) error {
			return m.slk.Unjail(cx, v.GetOperator()) // MsgUnjail
		})
	default:
		v := c.Pick(r, slashable)
		if len(unbonding) > 0 && r.Chance(50) {
			v = c.Pick(r, unbonding) // evidence arriving after the validator left the active set
		}
		cons, err := v.GetConsAddr()
		must(err)
		power := v.PotentialConsensusPower(m.sk.PowerReduction(ctx)) // (ConsensusPower is zero outside the bonded set)
		if r.Chance(30) && power > 1 {
			power = r.Range(1, power) // the power at the (earlier) time of the infraction
		}
		frac := sdk.MustNewDecFromStr(c.Pick(r, []string{"0.01", "0.05", "0.05", "0.0001", "0.2", "0.5", "0.333333333333333333"}))
		h := ctx.BlockHeight()
		infraction := h
		switch r.Intn(4) {
		case 0:
			infraction = h - 1
		case 1:
			infraction = h - r.Range(0, 12)
		}
		if infraction < 1 {
			infraction = 1
		}
		// x/staking unbonds the redelegated stake at the destination validators: one unbonding per entry
		var entries int64
		if infraction < h {
			for _, red := range m.sk.GetRedelegationsFromSrcValidator(ctx, v.GetOperator()) {
				entries += int64(len(red.Entries))
			}
		}
		route := r.Intn(2)
		alsoJail := kind == "dsign" && !v.IsJailed()
		m.observe(kind, fmt.Sprintf("%s/%s/p%d/h%d", m.valIndex(v.GetOperator()), frac, power, h-infraction), -1, entries,
			fmt.Sprintf("status=%s|past=%v|reds=%d|route=%d", statusLetter(v), infraction < h, min3(int(entries)), route), func(cx sdk.Context) error {
				if route == 0 {
					m.slk.Slash(cx, cons, frac, power, infraction) // x/slashing's route (downtime, and x/evidence through it)
				} else {
					m.sk.Slash(cx, cons, infraction, power, frac)
				}
				if alsoJail {
					m.slk.Jail(cx, cons)
				}
				return nil
			})
	}
}

// ---------------------------------------------------------------------------------------------

func valPart(out *c.Out, r *c.Rng) {
	n := c.Budget(40, 1500)
	if v := c.EnvInt("C09_VSEQS", -1); v >= 0 {
		n = v
	}
	if n == 0 {
		return
	}
	workers := c.Workers()
	pool := make(chan *vworld, workers)
	for i := 0; i < workers; i++ {
		pool <- mkValWorld()
	}
	kapp.RunSeqs(n, workers, r, func() *vworld { return <-pool },
		func(w *vworld, seq int, r *c.Rng) { w.vseq(out, seq, r) })
}
