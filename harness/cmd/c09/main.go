// c09: correspondence harness for the x/incentive reward accumulator (property C09).
//
//	pure part   : the real types.Accumulator and Keeper.CalculateSingleReward on random periods, block
//	              partitions and total shares (pure.go)
//	keeper part : the SOURCE modules' real messages (swap deposit/withdraw, hard deposit/withdraw/
//	              borrow/repay) for three users under random block partitions, with the incentive
//	              BeginBlocker between blocks and reward claims (keeper.go)
//	multi part  : claim objects fed by SEVERAL instances at once (three cdp collateral types, two swap
//	              pools, two hard supply + two hard borrow denoms, two earn vaults sharing reward denoms):
//	              per (user, claim object, reward denom) claims + accrued against the harness's own time
//	              integral summed over the instances, and the claim rules (multi.go)
//	validators  : the delegator source with several validators that are jailed, unjailed, slashed (bonded and
//	              unbonding), pushed out of and into the bonded set through the real staking / slashing keepers and
//	              the staking end blocker; every delegator of the chain against the harness's own time integral of
//	              its tokens delegated to BONDED validators (validators.go)
package main

import (
	"os"

	c "kavaverif/harness/common"
)

func main() {
	out := c.NewOut(c.OutPath())
	defer out.Close()
	r := c.NewRng(c.Seed())
	pureChains(out, r.Fork(1), c.Budget(1500, 100000))
	pureRewards(out, r.Fork(2), c.Budget(3000, 200000))
	pureSecs(out, r.Fork(4), c.Budget(4000, 400000))
	if os.Getenv("C09_PURE_ONLY") != "" {
		return
	}
	if os.Getenv("C09_VAL_ONLY") != "" {
		valPart(out, r.Fork(6))
		return
	}
	if os.Getenv("C09_MULTI_ONLY") == "" {
		keeperPart(out, r.Fork(3))
	}
	if os.Getenv("C09_KEEPER_ONLY") != "" {
		return
	}
	multiPart(out, r.Fork(5))
	if os.Getenv("C09_MULTI_ONLY") == "" {
		valPart(out, r.Fork(6))
	}
}
