package main

import (
	"fmt"
	"math"
	"math/big"
	"os"
	"strings"
	"sync"
	"time"

	tmproto "github.com/cometbft/cometbft/proto/tendermint/types"

	sdkmath "cosmossdk.io/math"
	sdk "github.com/cosmos/cosmos-sdk/types"

	abci "github.com/cometbft/cometbft/abci/types"
	stakingkeeper "github.com/cosmos/cosmos-sdk/x/staking/keeper"
	stakingtypes "github.com/cosmos/cosmos-sdk/x/staking/types"

	"github.com/kava-labs/kava/app"
	"github.com/kava-labs/kava/x/cdp"
	cdpkeeper "github.com/kava-labs/kava/x/cdp/keeper"
	cdptypes "github.com/kava-labs/kava/x/cdp/types"
	earnkeeper "github.com/kava-labs/kava/x/earn/keeper"
	earntypes "github.com/kava-labs/kava/x/earn/types"
	"github.com/kava-labs/kava/x/hard"
	hardkeeper "github.com/kava-labs/kava/x/hard/keeper"
	hardtypes "github.com/kava-labs/kava/x/hard/types"
	"github.com/kava-labs/kava/x/incentive"
	ikeeper "github.com/kava-labs/kava/x/incentive/keeper"
	"github.com/kava-labs/kava/x/incentive/testutil"
	itypes "github.com/kava-labs/kava/x/incentive/types"
	pricefeedtypes "github.com/kava-labs/kava/x/pricefeed/types"
	swapkeeper "github.com/kava-labs/kava/x/swap/keeper"
	swaptypes "github.com/kava-labs/kava/x/swap/types"

	c "kavaverif/harness/common"
	"kavaverif/harness/kapp"
)

// ---------------------------------------------------------------------------------------------
// world: one app per worker; users 0..2 are the only participants of every source

const nUsers = 3

type world struct {
	tApp     app.TestApp
	base     sdk.Context
	users    []sdk.AccAddress
	val      sdk.ValAddress // the genesis validator (bonded)
	interest bool           // hard money markets with the standard (non-zero) interest model
}

const cdpType = "busd-a"

const poolID = "bnb:usdx"

var cfgOnce sync.Once

func mkWorld(interest bool) *world {
	cfgOnce.Do(func() { app.SetSDKConfig() })
	_, addrs := app.GeneratePrivKeyAddressPairs(nUsers)
	tApp := app.NewTestApp()
	cdc := tApp.AppCodec()
	coins := sdk.NewCoins(sdk.NewInt64Coin("bnb", 1e15), sdk.NewInt64Coin("usdx", 1e15), sdk.NewInt64Coin("busd", 1e17), sdk.NewInt64Coin("ukava", 1e15))
	authGS := app.NewFundedGenStateWithSameCoins(cdc, coins, addrs)

	expiry := kapp.GenTime.AddDate(2000, 0, 0)
	pf := pricefeedtypes.GenesisState{
		Params: pricefeedtypes.Params{Markets: []pricefeedtypes.Market{
			{MarketID: "bnb:usd", BaseAsset: "bnb", QuoteAsset: "usd", Oracles: []sdk.AccAddress{}, Active: true},
			{MarketID: "usdx:usd", BaseAsset: "usdx", QuoteAsset: "usd", Oracles: []sdk.AccAddress{}, Active: true},
			{MarketID: "busd:usd", BaseAsset: "busd", QuoteAsset: "usd", Oracles: []sdk.AccAddress{}, Active: true},
		}},
		PostedPrices: []pricefeedtypes.PostedPrice{
			{MarketID: "bnb:usd", OracleAddress: sdk.AccAddress{}, Price: sdk.MustNewDecFromStr("17.25"), Expiry: expiry},
			{MarketID: "usdx:usd", OracleAddress: sdk.AccAddress{}, Price: sdk.OneDec(), Expiry: expiry},
			{MarketID: "busd:usd", OracleAddress: sdk.AccAddress{}, Price: sdk.OneDec(), Expiry: expiry},
		},
	}
	pfGS := app.GenesisState{pricefeedtypes.ModuleName: cdc.MustMarshalJSON(&pf)}

	mm := func(denom string) hardtypes.MoneyMarket {
		m := testutil.NewStandardMoneyMarket(denom)
		if !interest {
			m.InterestRateModel = hardtypes.NewInterestRateModel(sdk.ZeroDec(), sdk.ZeroDec(), sdk.MustNewDecFromStr("0.8"), sdk.ZeroDec())
			m.ReserveFactor = sdk.ZeroDec()
		}
		return m
	}
	hardGS := testutil.NewHardGenesisBuilder().WithGenesisTime(kapp.GenTime).
		WithInitializedMoneyMarket(mm("bnb")).WithInitializedMoneyMarket(mm("usdx")).
		WithMinBorrow(sdk.ZeroDec()).BuildMarshalled(cdc)

	swapGS := app.GenesisState{swaptypes.ModuleName: cdc.MustMarshalJSON(&swaptypes.GenesisState{
		Params: swaptypes.NewParams(swaptypes.NewAllowedPools(swaptypes.NewAllowedPool("bnb", "usdx")), sdk.MustNewDecFromStr("0.003")),
	})}

	// x/cdp: one collateral type with a zero stability fee (interest factor stays 1, so the normalised
	// principal is the principal)
	cdpGen := cdptypes.GenesisState{
		Params: cdptypes.Params{
			GlobalDebtLimit:          sdk.NewInt64Coin("usdx", 2e15),
			SurplusAuctionThreshold:  cdptypes.DefaultSurplusThreshold,
			SurplusAuctionLot:        cdptypes.DefaultSurplusLot,
			DebtAuctionThreshold:     cdptypes.DefaultDebtThreshold,
			DebtAuctionLot:           cdptypes.DefaultDebtLot,
			LiquidationBlockInterval: cdptypes.DefaultBeginBlockerExecutionBlockInterval,
			CollateralParams: cdptypes.CollateralParams{{
				Denom: "busd", Type: cdpType, LiquidationRatio: sdk.MustNewDecFromStr("1.01"),
				DebtLimit: sdk.NewInt64Coin("usdx", 1e15), StabilityFee: sdk.OneDec(),
				LiquidationPenalty: sdk.MustNewDecFromStr("0.05"), AuctionSize: sdkmath.NewInt(1e10),
				SpotMarketID: "busd:usd", LiquidationMarketID: "busd:usd", ConversionFactor: sdkmath.NewInt(8),
				KeeperRewardPercentage: sdk.MustNewDecFromStr("0.01"), CheckCollateralizationIndexCount: sdkmath.NewInt(10),
			}},
			DebtParam: cdptypes.DebtParam{Denom: "usdx", ReferenceAsset: "usd", ConversionFactor: sdkmath.NewInt(6), DebtFloor: sdkmath.NewInt(1e7)},
		},
		StartingCdpID:             cdptypes.DefaultCdpStartingID,
		DebtDenom:                 cdptypes.DefaultDebtDenom,
		GovDenom:                  cdptypes.DefaultGovDenom,
		PreviousAccumulationTimes: cdptypes.GenesisAccumulationTimes{cdptypes.NewGenesisAccumulationTime(cdpType, kapp.GenTime, sdk.OneDec())},
		TotalPrincipals:           cdptypes.GenesisTotalPrincipals{cdptypes.NewGenesisTotalPrincipal(cdpType, sdk.ZeroInt())},
	}
	cdpGS := app.GenesisState{cdptypes.ModuleName: cdc.MustMarshalJSON(&cdpGen)}
	// x/earn: a usdx vault on the hard strategy
	earnGen := earntypes.NewGenesisState(earntypes.NewParams(earntypes.AllowedVaults{
		earntypes.NewAllowedVault("usdx", earntypes.StrategyTypes{earntypes.STRATEGY_TYPE_HARD}, false, nil)}), nil, nil)
	earnGS := app.GenesisState{earntypes.ModuleName: cdc.MustMarshalJSON(&earnGen)}

	tApp.InitializeFromGenesisStatesWithTime(kapp.GenTime, authGS, pfGS, hardGS, swapGS, cdpGS, earnGS)
	ctx := tApp.NewContext(false, tmproto.Header{Height: tApp.LastBlockHeight() + 1, Time: kapp.GenTime, ChainID: app.TestChainId})
	must(tApp.FundModuleAccount(ctx, itypes.IncentiveMacc, sdk.NewCoins(
		sdk.NewInt64Coin("hard", 1e17), sdk.NewInt64Coin("swp", 1e17), sdk.NewInt64Coin("ukava", 1e17))))
	vals := tApp.GetStakingKeeper().GetAllValidators(ctx)
	if len(vals) == 0 {
		panic("no genesis validator")
	}
	return &world{tApp: tApp, base: ctx, users: addrs, val: vals[0].GetOperator(), interest: interest}
}

func must(err error) {
	if err != nil {
		panic(err)
	}
}

// ---------------------------------------------------------------------------------------------
// reward source instances

type inst struct {
	src   string // swap | hsupply | hborrow | usdx | deleg | earn
	ctype string // pool id / denom
	rates sdk.Coins
	// bookkeeping of the bound, per reward denom (index in rates)
	emission []*big.Int // Σ_b rate·secs_b (Dec mantissa) over blocks with T_b > 0 and secs_b > 0
	sumT     *big.Int   // Σ_b T_b (Dec mantissa) over the same blocks
	nsync    int64
	claimed  []*big.Int
	// per user (C09_integral on the real claims): the harness's own time integral
	flo      [][]*big.Int // [denom][user] Σ_b ⌊rate·secs_b·P·s_u(b) / T_b⌋   (10^-36 units)
	slack    []*big.Int   // [user] Σ_b ((P+2)·s_u(b) + P)
	nsyncU   []int64      // [user] synchronisations
	claimedU [][]*big.Int // [denom][user]
	curS     []*big.Int   // [user] shares observed before this block's accumulation
}

func (in *inst) initUsers() {
	for range in.rates {
		var f, cl []*big.Int
		for u := 0; u < nUsers; u++ {
			f = append(f, big.NewInt(0))
			cl = append(cl, big.NewInt(0))
		}
		in.flo = append(in.flo, f)
		in.claimedU = append(in.claimedU, cl)
	}
	for u := 0; u < nUsers; u++ {
		in.slack = append(in.slack, big.NewInt(0))
	}
	in.nsyncU = make([]int64, nUsers)
	in.curS = make([]*big.Int, nUsers)
}

// integralCase: C09_integral evaluated on the real synchronised claim of user u
func (w *world) integralCase(out *c.Out, ctx sdk.Context, in *inst, tag, what string, u int) {
	for j, rc := range in.rates {
		gained := new(big.Int).Add(w.synced(ctx, in, w.users[u]).AmountOf(rc.Denom).BigInt(), in.claimedU[j][u])
		out.Case("", "c09.integral", tag+in.src+":"+what, fmt.Sprint(u), fmt.Sprint(in.nsyncU[u]), gained.String(), in.flo[j][u].String(), in.slack[u].String())
	}
}

// claimType: the claim object the source credits (hard supply and hard borrow share one)
func claimType(src string) string {
	if src == "hsupply" || src == "hborrow" {
		return "hard"
	}
	return src
}

// moduleOf: the source module an operation kind belongs to
func moduleOf(kind string) string {
	switch kind[0] {
	case 's':
		return "swap"
	case 'h':
		return "hard"
	case 'c':
		return "usdx"
	case 'd':
		return "deleg"
	default:
		return "earn"
	}
}

func (w *world) global(ctx sdk.Context, in *inst) (itypes.RewardIndexes, bool) {
	ik := w.tApp.GetIncentiveKeeper()
	switch in.src {
	case "swap":
		return ik.GetSwapRewardIndexes(ctx, in.ctype)
	case "hsupply":
		return ik.GetHardSupplyRewardIndexes(ctx, in.ctype)
	case "hborrow":
		return ik.GetHardBorrowRewardIndexes(ctx, in.ctype)
	case "usdx":
		f, found := ik.GetUSDXMintingRewardFactor(ctx, in.ctype)
		if !found {
			return nil, false
		}
		return itypes.RewardIndexes{itypes.NewRewardIndex(itypes.USDXMintingRewardDenom, f)}, true
	case "deleg":
		return ik.GetDelegatorRewardIndexes(ctx, in.ctype)
	default:
		return ik.GetEarnRewardIndexes(ctx, in.ctype)
	}
}

func (w *world) prevTime(ctx sdk.Context, in *inst) (time.Time, bool) {
	ik := w.tApp.GetIncentiveKeeper()
	switch in.src {
	case "swap":
		return ik.GetSwapRewardAccrualTime(ctx, in.ctype)
	case "hsupply":
		return ik.GetPreviousHardSupplyRewardAccrualTime(ctx, in.ctype)
	case "hborrow":
		return ik.GetPreviousHardBorrowRewardAccrualTime(ctx, in.ctype)
	case "usdx":
		return ik.GetPreviousUSDXMintingAccrualTime(ctx, in.ctype)
	case "deleg":
		return ik.GetPreviousDelegatorRewardAccrualTime(ctx, in.ctype)
	default:
		return ik.GetEarnRewardAccrualTime(ctx, in.ctype)
	}
}

// total source shares, read from the source module the way the incentive keeper does
func (w *world) total(ctx sdk.Context, in *inst) sdk.Dec {
	hk := w.tApp.GetHardKeeper()
	switch in.src {
	case "swap":
		sh, found := w.tApp.GetSwapKeeper().GetPoolShares(ctx, in.ctype)
		if !found {
			sh = sdk.ZeroInt()
		}
		return sdk.NewDecFromInt(sh)
	case "hsupply":
		tot, _ := hk.GetSuppliedCoins(ctx)
		f, found := hk.GetSupplyInterestFactor(ctx, in.ctype)
		if !found {
			f = sdk.OneDec()
		}
		return sdk.NewDecFromInt(tot.AmountOf(in.ctype)).Quo(f)
	case "hborrow":
		tot, _ := hk.GetBorrowedCoins(ctx)
		f, found := hk.GetBorrowInterestFactor(ctx, in.ctype)
		if !found {
			f = sdk.OneDec()
		}
		return sdk.NewDecFromInt(tot.AmountOf(in.ctype)).Quo(f)
	case "usdx":
		ck := w.tApp.GetCDPKeeper()
		f, found := ck.GetInterestFactor(ctx, in.ctype)
		if !found {
			f = sdk.OneDec()
		}
		return sdk.NewDecFromInt(ck.GetTotalPrincipal(ctx, in.ctype, cdptypes.DefaultStableDenom)).Quo(f)
	case "deleg":
		return sdk.NewDecFromInt(w.tApp.GetStakingKeeper().TotalBondedTokens(ctx))
	default:
		ek := w.tApp.GetEarnKeeper()
		ts, found := ek.GetVaultTotalShares(ctx, in.ctype)
		if !found {
			return sdk.ZeroDec()
		}
		return ts.Amount
	}
}

// a user's source shares, as the hook would pass them
func (w *world) shares(ctx sdk.Context, in *inst, a sdk.AccAddress) sdk.Dec {
	hk := w.tApp.GetHardKeeper()
	switch in.src {
	case "swap":
		sh, found := w.tApp.GetSwapKeeper().GetDepositorSharesAmount(ctx, a, in.ctype)
		if !found {
			return sdk.ZeroDec()
		}
		return sdk.NewDecFromInt(sh)
	case "hsupply":
		d, found := hk.GetDeposit(ctx, a)
		if !found {
			return sdk.ZeroDec()
		}
		n, err := d.NormalizedDeposit()
		must(err)
		return n.AmountOf(in.ctype)
	case "hborrow":
		b, found := hk.GetBorrow(ctx, a)
		if !found {
			return sdk.ZeroDec()
		}
		n, err := b.NormalizedBorrow()
		must(err)
		return n.AmountOf(in.ctype)
	case "usdx":
		cd, found := w.tApp.GetCDPKeeper().GetCdpByOwnerAndCollateralType(ctx, a, in.ctype)
		if !found {
			return sdk.ZeroDec()
		}
		n, err := cd.GetNormalizedPrincipal()
		must(err)
		return n
	case "deleg":
		return w.tApp.GetIncentiveKeeper().GetTotalDelegated(ctx, a, nil, false)
	default:
		ek := w.tApp.GetEarnKeeper()
		sh, found := ek.GetVaultAccountShares(ctx, a)
		if !found {
			return sdk.ZeroDec()
		}
		return sh.AmountOf(in.ctype)
	}
}

// stored claim: reward coins and the indexes kept for this instance
func (w *world) claim(ctx sdk.Context, in *inst, a sdk.AccAddress) (sdk.Coins, itypes.RewardIndexes, bool) {
	ik := w.tApp.GetIncentiveKeeper()
	switch in.src {
	case "swap":
		cl, found := ik.GetSwapClaim(ctx, a)
		if !found {
			return nil, nil, false
		}
		ri, ok := cl.RewardIndexes.Get(in.ctype)
		return cl.Reward, ri, ok
	case "hsupply":
		cl, found := ik.GetHardLiquidityProviderClaim(ctx, a)
		if !found {
			return nil, nil, false
		}
		ri, ok := cl.SupplyRewardIndexes.Get(in.ctype)
		return cl.Reward, ri, ok
	case "hborrow":
		cl, found := ik.GetHardLiquidityProviderClaim(ctx, a)
		if !found {
			return nil, nil, false
		}
		ri, ok := cl.BorrowRewardIndexes.Get(in.ctype)
		return cl.Reward, ri, ok
	case "usdx":
		cl, found := ik.GetUSDXMintingClaim(ctx, a)
		if !found {
			return nil, nil, false
		}
		rew := sdk.Coins{}
		if cl.Reward.IsPositive() {
			rew = sdk.NewCoins(cl.Reward)
		}
		f, ok := cl.RewardIndexes.Get(in.ctype)
		if !ok {
			return rew, nil, false
		}
		return rew, itypes.RewardIndexes{itypes.NewRewardIndex(itypes.USDXMintingRewardDenom, f)}, true
	case "deleg":
		cl, found := ik.GetDelegatorClaim(ctx, a)
		if !found {
			return nil, nil, false
		}
		ri, ok := cl.RewardIndexes.Get(in.ctype)
		return cl.Reward, ri, ok
	default:
		cl, found := ik.GetEarnClaim(ctx, a)
		if !found {
			return nil, nil, false
		}
		ri, ok := cl.RewardIndexes.Get(in.ctype)
		return cl.Reward, ri, ok
	}
}

// synchronised claim reward (GetSynchronized…Claim); never written back
func (w *world) synced(ctx sdk.Context, in *inst, a sdk.AccAddress) sdk.Coins {
	ik := w.tApp.GetIncentiveKeeper()
	cctx, _ := ctx.CacheContext()
	switch in.src {
	case "swap":
		cl, found := ik.GetSynchronizedSwapClaim(cctx, a)
		if !found {
			return nil
		}
		return cl.Reward
	case "hsupply", "hborrow":
		ik.SynchronizeHardLiquidityProviderClaim(cctx, a)
		cl, found := ik.GetHardLiquidityProviderClaim(cctx, a)
		if !found {
			return nil
		}
		return cl.Reward
	case "usdx":
		cl, found := ik.GetUSDXMintingClaim(cctx, a)
		if !found {
			return nil
		}
		cl, err := ik.SynchronizeUSDXMintingClaim(cctx, cl)
		must(err)
		if !cl.Reward.IsPositive() {
			return nil
		}
		return sdk.NewCoins(cl.Reward)
	case "deleg":
		cl, found := ik.GetDelegatorClaim(cctx, a)
		if !found {
			return nil
		}
		cl, err := ik.SynchronizeDelegatorClaim(cctx, cl)
		must(err)
		return cl.Reward
	default:
		cl, found := ik.GetSynchronizedEarnClaim(cctx, a)
		if !found {
			return nil
		}
		return cl.Reward
	}
}

type snap struct {
	I []string   // per reward denom: global index mantissa
	s []string   // per user shares mantissa
	i [][]string // per reward denom, per user: stored index or "x"
	r [][]string // per reward denom, per user: stored reward
}

func (w *world) snapshot(ctx sdk.Context, in *inst) snap {
	var sn snap
	g, _ := w.global(ctx, in)
	for _, u := range w.users {
		sn.s = append(sn.s, mant(w.shares(ctx, in, u)))
	}
	for _, rc := range in.rates {
		sn.I = append(sn.I, mant(idx(g, rc.Denom)))
		var is, rs []string
		for _, u := range w.users {
			rew, ri, ok := w.claim(ctx, in, u)
			v := "x"
			if ok {
				if f, has := ri.Get(rc.Denom); has {
					v = mant(f)
				}
			}
			is = append(is, v)
			rs = append(rs, rew.AmountOf(rc.Denom).String())
		}
		sn.i = append(sn.i, is)
		sn.r = append(sn.r, rs)
	}
	return sn
}

func join(xs []string) string { return strings.Join(xs, ",") }

// ---------------------------------------------------------------------------------------------
// one sequence

type seqCfg struct {
	insts    []*inst
	claimEnd time.Time
	mults    map[string][]itypes.Multiplier
}

func secsOf(d time.Duration) int64 { return int64(math.RoundToEven(d.Seconds())) }

func overlap(prev, now, start, end time.Time) time.Duration {
	a, b := prev, now
	if start.After(a) {
		a = start
	}
	if end.Before(b) {
		b = end
	}
	if !b.After(a) {
		return 0
	}
	return b.Sub(a)
}

func (w *world) seq(out *c.Out, seq int, r *c.Rng) {
	ctx, _ := w.base.CacheContext()
	ik := w.tApp.GetIncentiveKeeper()
	hk := w.tApp.GetHardKeeper()
	bk := w.tApp.GetBankKeeper()
	tag := "A"
	if w.interest {
		tag = "B"
	}

	// ---- plan the block times first, then put the period boundaries on / next to planned block times
	scale := c.Pick(r, []int{0, 0, 0, 1})
	nblocks := c.Budget(26, 60) + r.Intn(14)
	times := make([]time.Time, nblocks)
	{
		t := kapp.GenTime
		for b := range times {
			if b > 0 && !r.Chance(6) { // 6%: same time as the previous block
				t = t.Add(gapAt(r, scale))
			}
			times[b] = t
		}
	}
	jitter := func(t time.Time) time.Time {
		switch r.Intn(4) {
		case 0:
			return t
		case 1:
			return t.Add(time.Duration(r.Range(-1, 1)))
		case 2:
			return t.Add(time.Duration(fracNs(r)))
		default:
			return t.Add(-time.Duration(fracNs(r)))
		}
	}
	mkPeriod := func() (time.Time, time.Time) {
		a := r.Intn(nblocks / 3)
		b := a + r.Intn(nblocks)
		st := jitter(times[a])
		var en time.Time
		if b < nblocks {
			en = jitter(times[b])
		} else {
			en = times[nblocks-1].Add(gapAt(r, scale) * time.Duration(b-nblocks+1))
		}
		if en.Before(st) {
			en = st
		}
		return st, en
	}
	rate := func(denom string) sdk.Coin {
		return sdk.NewCoin(denom, sdkmath.NewInt(c.Pick(r, []int64{1, 3, 122354, 1000000, 999999937, r.Range(1, 5000)})))
	}
	cfg := seqCfg{mults: map[string][]itypes.Multiplier{
		"hard":  {itypes.NewMultiplier("small", 1, sdk.MustNewDecFromStr("0.25")), itypes.NewMultiplier("large", 12, sdk.OneDec())},
		"swp":   {itypes.NewMultiplier("small", 1, sdk.MustNewDecFromStr("0.33")), itypes.NewMultiplier("medium", 6, sdk.MustNewDecFromStr("0.5")), itypes.NewMultiplier("large", 0, sdk.OneDec())},
		"ukava": {itypes.NewMultiplier("small", 1, sdk.MustNewDecFromStr("0.2")), itypes.NewMultiplier("large", 12, sdk.OneDec())},
	}}
	cfg.insts = []*inst{
		{src: "swap", ctype: poolID, rates: sdk.NewCoins(rate("swp"), rate("ukava"))},
		{src: "hsupply", ctype: "bnb", rates: sdk.NewCoins(rate("hard"), rate("swp"))},
		{src: "hborrow", ctype: "usdx", rates: sdk.NewCoins(rate("ukava"))},
		{src: "usdx", ctype: cdpType, rates: sdk.NewCoins(rate(itypes.USDXMintingRewardDenom))},
		{src: "deleg", ctype: itypes.BondDenom, rates: sdk.NewCoins(rate("hard"), rate("swp"))},
		{src: "earn", ctype: "usdx", rates: sdk.NewCoins(rate("ukava"), rate("hard"))},
	}
	params := itypes.DefaultParams()
	var latestEnd time.Time
	periods := map[string][2]time.Time{}
	for _, in := range cfg.insts {
		st, en := mkPeriod()
		periods[in.src] = [2]time.Time{st, en}
		if en.After(latestEnd) {
			latestEnd = en
		}
		mp := itypes.NewMultiRewardPeriod(true, in.ctype, st, en, in.rates)
		switch in.src {
		case "swap":
			params.SwapRewardPeriods = itypes.MultiRewardPeriods{mp}
		case "hsupply":
			params.HardSupplyRewardPeriods = itypes.MultiRewardPeriods{mp}
		case "hborrow":
			params.HardBorrowRewardPeriods = itypes.MultiRewardPeriods{mp}
		case "usdx":
			params.USDXMintingRewardPeriods = itypes.RewardPeriods{itypes.NewRewardPeriod(true, in.ctype, st, en, in.rates[0])}
		case "deleg":
			params.DelegatorRewardPeriods = itypes.MultiRewardPeriods{mp}
		default:
			params.EarnRewardPeriods = itypes.MultiRewardPeriods{mp}
		}
		in.sumT = big.NewInt(0)
		in.initUsers()
		for range in.rates {
			in.emission = append(in.emission, big.NewInt(0))
			in.claimed = append(in.claimed, big.NewInt(0))
		}
	}
	for _, d := range []string{"hard", "swp", "ukava"} {
		params.ClaimMultipliers = append(params.ClaimMultipliers, itypes.MultipliersPerDenom{Denom: d, Multipliers: cfg.mults[d]})
	}
	// the claim deadline falls inside the last third of the run in a third of the sequences
	cfg.claimEnd = latestEnd.Add(gapAt(r, scale)*40 + times[nblocks-1].Sub(kapp.GenTime))
	if r.Chance(33) {
		cfg.claimEnd = jitter(times[nblocks-1-r.Intn(nblocks/3)])
	}
	params.ClaimEnd = cfg.claimEnd
	must(params.Validate())
	kapp.SetParams(w.tApp, ctx, "incentive", &params, func() { ik.SetParams(ctx, params) })

	swapMsg := swapkeeper.NewMsgServerImpl(w.tApp.GetSwapKeeper())
	hardMsg := hardkeeper.NewMsgServerImpl(hk)
	incMsg := ikeeper.NewMsgServerImpl(ik)
	ms := msgServers{swap: swapMsg, hard: hardMsg, cdp: cdpkeeper.NewMsgServerImpl(w.tApp.GetCDPKeeper()),
		staking: stakingkeeper.NewMsgServerImpl(w.tApp.GetStakingKeeper()), earn: earnkeeper.NewMsgServerImpl(w.tApp.GetEarnKeeper())}
	ck := w.tApp.GetCDPKeeper()
	maccAddr := w.tApp.GetAccountKeeper().GetModuleAddress(itypes.IncentiveMacc)

	now := kapp.GenTime
	var lastBlock time.Time
	haveLast := false
	prevUser := -1
	// keeper liquidations of x/hard positions: the oracle price of bnb is pushed under a borrower's limit, another
	// user liquidates the position, the price comes back some blocks later; a liquidated user is steered into
	// supplying / borrowing again after blocks in which it holds nothing
	liquidated := false             // a liquidation succeeded in this sequence (x/hard keeps truncation dust in its totals)
	reenter := make([]int, nUsers)  // block of the user's last liquidation while it has not re-entered, else -1
	liqBlock := make([]int, nUsers) // block of the user's last liquidation, else -1
	for u := range reenter {
		reenter[u], liqBlock[u] = -1, -1
	}

	for b := 0; b < nblocks; b++ {
		now = times[b]
		ctx = ctx.WithBlockTime(now).WithBlockHeight(ctx.BlockHeight() + 1)
		// the oracle price recovers
		if !w.bnbPrice(ctx).Equal(baseBnbPrice) && r.Chance(45) {
			w.setBnbPrice(ctx, baseBnbPrice)
			out.Note("hliq:price-restored")
		}

		// ---- begin block: hard first, then incentive (app.go order)
		type pre struct {
			prev  time.Time
			found bool
			T     sdk.Dec
			I     itypes.RewardIndexes
		}
		cls, err := kapp.Exec(ctx, func(cx sdk.Context) error {
			cdp.BeginBlocker(cx, abci.RequestBeginBlock{Header: cx.BlockHeader()}, ck)
			hard.BeginBlocker(cx, hk)
			return nil
		})
		if cls != kapp.OK {
			out.Violation(fmt.Sprintf("c09 seq=%d block=%d cdp/hard BeginBlocker: %v", seq, b, err))
			return
		}
		pres := make([]pre, len(cfg.insts))
		for k, in := range cfg.insts {
			pt, f := w.prevTime(ctx, in)
			g, _ := w.global(ctx, in)
			pres[k] = pre{pt, f, w.total(ctx, in), g}
			// Σ user shares = total source shares: the premise of the no-over-distribution theorem
			var ss []string
			for ui, u := range w.users {
				sh := w.shares(ctx, in, u)
				in.curS[ui] = sh.BigInt()
				ss = append(ss, mant(sh))
			}
			if in.src == "deleg" || (liquidated && claimType(in.src) == "hard" && !w.interest) {
				// x/hard after a liquidation: the bids / lots taken off the totals are truncated and a lot is capped at
				// the module account's balance, so the totals may keep more than the remaining positions add up to
				out.Case("", "c09.sumle", tag+in.src, mant(pres[k].T), join(ss))
			} else if !w.interest || in.src == "swap" || in.src == "usdx" {
				out.Case("", "c09.sum", tag+in.src, mant(pres[k].T), join(ss))
			} else {
				// with interest x/hard's totals and the users' normalised amounts drift apart (findings/C09-hard-interest-drift.md)
				sum := big.NewInt(0)
				for _, x := range ss {
					v, _ := new(big.Int).SetString(x, 10)
					sum.Add(sum, v)
				}
				switch sum.Cmp(pres[k].T.BigInt()) {
				case 1:
					out.Note("interest:" + in.src + ":user-shares-exceed-total")
				case -1:
					out.Note("interest:" + in.src + ":user-shares-below-total")
				default:
					out.Note("interest:" + in.src + ":equal")
				}
			}
		}
		cls, err = kapp.Exec(ctx, func(cx sdk.Context) error { incentive.BeginBlocker(cx, ik); return nil })
		for k, in := range cfg.insts {
			p := periods[in.src]
			pr := pres[k]
			post, _ := w.prevTime(ctx, in)
			g, _ := w.global(ctx, in)
			// the harness's own integration of the emission: whole seconds of (last block, now] ∩ [start, end]
			var d time.Duration
			if haveLast {
				d = overlap(lastBlock, now, p[0], p[1])
			}
			secs := secsOf(d)
			accrues := pr.T.IsPositive() && secs > 0
			if accrues {
				in.sumT.Add(in.sumT, pr.T.BigInt())
				for u := 0; u < nUsers; u++ {
					sl := new(big.Int).Mul(new(big.Int).Add(P, big.NewInt(2)), in.curS[u])
					in.slack[u].Add(in.slack[u], sl.Add(sl, P))
				}
			}
			for j, rc := range in.rates {
				rm := sdk.NewDecFromInt(rc.Amount)
				if accrues {
					in.emission[j].Add(in.emission[j], new(big.Int).Mul(rm.BigInt(), big.NewInt(secs)))
					for u := 0; u < nUsers; u++ {
						x := new(big.Int).Mul(rm.BigInt(), big.NewInt(secs))
						x.Mul(x, P).Mul(x, in.curS[u])
						in.flo[j][u].Add(in.flo[j][u], x.Quo(x, pr.T.BigInt()))
					}
				}
				sig := ""
				if j == 0 {
					rel := "in"
					if !now.After(p[0]) {
						rel = "before"
					} else if haveLast && !lastBlock.Before(p[1]) {
						rel = "after"
					}
					sig = fmt.Sprintf("%s|%s|found=%v|T>0=%v|secs>0=%v|%s", in.src, cls, pr.found, pr.T.IsPositive(), secs > 0, rel)
				}
				if cls != kapp.OK {
					out.Case(sig, "c09.kacc", tag+in.src, c.B(pr.found), ns(pr.prev), ns(now), ns(p[0]), ns(p[1]), mant(rm), mant(pr.T), mant(idx(pr.I, rc.Denom)), "=>", string(cls), "-", "-")
				} else {
					out.Case(sig, "c09.kacc", tag+in.src, c.B(pr.found), ns(pr.prev), ns(now), ns(p[0]), ns(p[1]), mant(rm), mant(pr.T), mant(idx(pr.I, rc.Denom)), "=>", string(cls), ns(post), mant(idx(g, rc.Denom)))
				}
			}
		}
		if cls != kapp.OK {
			out.Violation(fmt.Sprintf("c09 seq=%d block=%d incentive BeginBlocker: %v", seq, b, err))
			return
		}
		lastBlock, haveLast = now, true
		for _, in := range cfg.insts {
			if in.src == "usdx" {
				in.nsync += nUsers // cdp.BeginBlocker may synchronise the claims of risky CDPs
				for u := range in.nsyncU {
					in.nsyncU[u]++
				}
			}
		}

		// ---- 0–3 operations in this block; the same user again half of the time (two changes in one block)
		nops := c.Pick(r, []int{0, 1, 1, 2, 2, 3})
		for o := 0; o < nops; o++ {
			u := r.Intn(nUsers)
			if o > 0 && r.Bool() {
				u = prevUser
			}
			last := prevUser
			same := o > 0 && u == prevUser
			prevUser = u
			addr := w.users[u]
			kind := c.Pick(r, []string{"sdep", "sdep", "swd", "swd", "hdep", "hdep", "hwd", "hwd", "hbor", "hbor", "hrep", "hrep",
				"hrep3", "hrep3", "hliq", "hliq", "hliq", "cdep3", "ccreate", "cdraw", "cdraw", "crepay", "crepay", "cdep", "cwd", "ddel", "ddel", "dund", "dund", "edep", "edep", "ewd", "ewd",
				"claim", "claim", "claim", "claim", "claim", "claim"})
			if r.Chance(85) { // mostly operations that can succeed in the current state
				for try := 0; try < 8 && !w.feasible(ctx, kind, addr); try++ {
					kind = c.Pick(r, []string{"sdep", "swd", "hdep", "hwd", "hbor", "hrep", "hrep3", "hliq", "cdep3", "ccreate", "cdraw", "crepay", "cdep", "cwd", "ddel", "dund", "edep", "ewd", "claim"})
				}
			}
			if _, has := hk.GetBorrow(ctx, addr); kind == "hliq" && !has && r.Chance(85) {
				// aim at a user that has a borrow
				for v := 1; v < nUsers; v++ {
					if _, ok := hk.GetBorrow(ctx, w.users[(u+v)%nUsers]); ok {
						u = (u + v) % nUsers
						addr = w.users[u]
						same = o > 0 && u == last
						prevUser = u
						break
					}
				}
				if _, ok := hk.GetBorrow(ctx, addr); !ok {
					// nobody borrows: build a position instead
					kind = "hbor"
					if _, ok := hk.GetDeposit(ctx, addr); !ok {
						kind = "hdep"
					}
				}
			}
			// a user liquidated in an EARLIER block comes back: supplies again, then borrows again
			for ru, lb := range reenter {
				if lb >= 0 && lb < b && r.Chance(30) {
					u, addr = ru, w.users[ru]
					same = o > 0 && u == last
					prevUser = u
					if _, has := hk.GetDeposit(ctx, addr); !has {
						kind = "hdep"
					} else {
						kind = "hbor"
						reenter[ru] = -1
					}
					break
				}
			}
			if kind == "claim" {
				w.doClaim(out, ctx, &cfg, r, tag, u, bk, maccAddr, incMsg, now)
				continue
			}
			// which instances this module's message may touch
			var touched []*inst
			for _, in := range cfg.insts {
				if moduleOf(kind) == claimType(in.src) {
					touched = append(touched, in)
				}
			}
			pre := make([]snap, len(touched))
			for k, in := range touched {
				pre[k] = w.snapshot(ctx, in)
			}
			desc := ""
			cls, err := kapp.Exec(ctx, func(cx sdk.Context) error {
				var e error
				desc, e = w.sourceOp(cx, r, kind, u, ms)
				return e
			})
			if cls == kapp.Panic {
				out.Violation(fmt.Sprintf("c09 seq=%d block=%d %s panicked: %v", seq, b, kind, err))
			}
			if err != nil {
				out.Note("err:" + kind + ":" + errClass(err))
			}
			if cls == kapp.OK {
				switch kind {
				case "hliq":
					liquidated = true
					reenter[u], liqBlock[u] = b, b
					out.Note("hliq:liquidated")
				case "hdep", "hbor":
					if liqBlock[u] >= 0 {
						out.Note(fmt.Sprintf("hliq:reentry:%s:later-block=%v", kind, liqBlock[u] < b))
					}
				}
			}
			for k, in := range touched {
				post := w.snapshot(ctx, in)
				if cls == kapp.OK {
					in.nsync++
					in.nsyncU[u]++
					// the position owner's claim against the harness's own time integral
					w.integralCase(out, ctx, in, tag, kind, u)
				}
				for j := range in.rates {
					sig := ""
					if j == 0 {
						was, _ := new(big.Int).SetString(pre[k].s[u], 10)
						is, _ := new(big.Int).SetString(post.s[u], 10)
						sig = fmt.Sprintf("%s|%s|%s|from0=%v|to0=%v|cmp=%d|hadclaim=%v|sameblock=%v", in.src, kind, cls, was.Sign() == 0, is.Sign() == 0, is.Cmp(was), pre[k].i[j][u] != "x", same)
					}
					out.Case(sig, "c09.kchange", tag+in.src+":"+kind+":"+desc, fmt.Sprint(u), pre[k].I[j], join(pre[k].s), join(pre[k].i[j]), join(pre[k].r[j]),
						"=>", string(cls), join(post.s), join(post.i[j]), join(post.r[j]))
				}
			}
		}
	}

	// ---- end of the sequence: synchronised claims and the no-over-distribution bound on the real claims
	for _, in := range cfg.insts {
		for u := 0; u < nUsers; u++ {
			w.integralCase(out, ctx, in, tag, "end", u)
		}
		sn := w.snapshot(ctx, in)
		for j, rc := range in.rates {
			var rs []string
			credited := new(big.Int).Set(in.claimed[j])
			for _, u := range w.users {
				a := w.synced(ctx, in, u).AmountOf(rc.Denom)
				rs = append(rs, a.String())
				credited.Add(credited, a.BigInt())
			}
			out.Case(in.src+"|pend", "c09.kpend", tag+in.src, sn.I[j], join(sn.s), join(sn.i[j]), join(sn.r[j]), "=>", join(rs))
			if sharesOwnDenom(&cfg, in, rc.Denom) {
				out.Case(fmt.Sprintf("%s|bound|emitted=%v", in.src, in.emission[j].Sign() > 0), "c09.bound", tag+in.src+":"+rc.Denom, fmt.Sprint(nUsers), fmt.Sprint(in.nsync),
					in.emission[j].String(), in.sumT.String(), credited.String())
			}
		}
	}
}

// the reward denom is credited to this claim type by this instance only (hard supply and hard borrow
// share one claim object; the harness gives them disjoint reward denoms)
func sharesOwnDenom(cfg *seqCfg, in *inst, denom string) bool {
	for _, o := range cfg.insts {
		if o != in && claimType(o.src) == claimType(in.src) && !o.rates.AmountOf(denom).IsZero() {
			return false
		}
	}
	return true
}

func errClass(err error) string {
	s := err.Error()
	for _, k := range []string{"insufficient", "not found", "slippage", "exceeds", "invalid", "zero", "expired", "no deposit", "panic", "liquidity", "ltv", "LTV", "no claimable", "no coins"} {
		if strings.Contains(s, k) {
			return k
		}
	}
	if os.Getenv("C09_DEBUG") != "" {
		fmt.Println("ERR", s)
	}
	return "other"
}

// sourceOp builds and runs one source-module message for addr, amounts drawn from the current state
type msgServers struct {
	swap    swaptypes.MsgServer
	hard    hardtypes.MsgServer
	cdp     cdptypes.MsgServer
	staking stakingtypes.MsgServer
	earn    earntypes.MsgServer
}

// feasible: the operation can succeed for addr in the current state
func (w *world) feasible(ctx sdk.Context, kind string, addr sdk.AccAddress) bool {
	hk := w.tApp.GetHardKeeper()
	switch kind {
	case "swd":
		_, ok := w.tApp.GetSwapKeeper().GetDepositorSharesAmount(ctx, addr, poolID)
		return ok
	case "hwd", "hbor":
		_, ok := hk.GetDeposit(ctx, addr)
		return ok
	case "hrep", "hrep3":
		_, ok := hk.GetBorrow(ctx, addr)
		return ok
	case "ccreate":
		_, ok := w.tApp.GetCDPKeeper().GetCdpByOwnerAndCollateralType(ctx, addr, cdpType)
		return !ok
	case "cdraw", "crepay", "cdep", "cwd", "cdep3":
		_, ok := w.tApp.GetCDPKeeper().GetCdpByOwnerAndCollateralType(ctx, addr, cdpType)
		return ok
	case "dund":
		_, ok := w.tApp.GetStakingKeeper().GetDelegation(ctx, addr, w.val)
		return ok
	case "ewd":
		ek := w.tApp.GetEarnKeeper()
		sh, ok := ek.GetVaultAccountShares(ctx, addr)
		return ok && sh.AmountOf("usdx").IsPositive()
	}
	return true
}

func (w *world) sourceOp(ctx sdk.Context, r *c.Rng, kind string, u int, ms msgServers) (string, error) {
	addr := w.users[u] // the position owner
	// the acting account of a third-party operation: another user (with or without a position of its own)
	actor := w.users[(u+1+r.Intn(nUsers-1))%nUsers]
	swapMsg, hardMsg := ms.swap, ms.hard
	sk := w.tApp.GetSwapKeeper()
	hk := w.tApp.GetHardKeeper()
	amt := func() int64 {
		return c.Pick(r, []int64{1, 2, 1000, 1e6, 1e6 + 1, 123456789, 5e9, r.Range(1, 1e7), r.Range(1, 1e10)})
	}
	deadline := ctx.BlockTime().Unix() + 100
	switch kind {
	case "sdep":
		a, b := amt(), amt()
		if pool, found := sk.GetPool(ctx, poolID); found && r.Chance(70) {
			// proportional to the reserves so that the slippage check passes
			res := pool.Reserves()
			b = new(big.Int).Div(new(big.Int).Mul(big.NewInt(a), res.AmountOf("usdx").BigInt()), res.AmountOf("bnb").BigInt()).Int64() + r.Range(0, 1)
			if b < 1 {
				b = 1
			}
		}
		_, err := swapMsg.Deposit(sdk.WrapSDKContext(ctx), swaptypes.NewMsgDeposit(addr.String(), sdk.NewInt64Coin("bnb", a), sdk.NewInt64Coin("usdx", b), sdk.MustNewDecFromStr("10"), deadline))
		return fmt.Sprintf("%d/%d", a, b), err
	case "swd":
		sh, found := sk.GetDepositorSharesAmount(ctx, addr, poolID)
		x := big.NewInt(amt())
		if found {
			switch r.Intn(5) {
			case 0, 1: // everything: the position is emptied (and may be re-created later)
				x = sh.BigInt()
			case 2:
				x = new(big.Int).Add(sh.BigInt(), big.NewInt(1)) // one more than owned
			case 3:
				x = new(big.Int).Div(sh.BigInt(), big.NewInt(r.Range(2, 5)))
			}
		}
		if x.Sign() <= 0 {
			x = big.NewInt(1)
		}
		_, err := swapMsg.Withdraw(sdk.WrapSDKContext(ctx), swaptypes.NewMsgWithdraw(addr.String(), sdkmath.NewIntFromBigInt(x), sdk.NewInt64Coin("bnb", 1), sdk.NewInt64Coin("usdx", 1), deadline))
		return x.String(), err
	case "hdep":
		cs := sdk.NewCoins(sdk.NewInt64Coin("bnb", amt()))
		if r.Chance(25) {
			cs = cs.Add(sdk.NewInt64Coin("usdx", amt())) // a second, unrewarded supply denom
		}
		_, err := hardMsg.Deposit(sdk.WrapSDKContext(ctx), &hardtypes.MsgDeposit{Depositor: addr.String(), Amount: cs})
		return cs.String(), err
	case "hwd":
		x := sdkmath.NewInt(amt())
		if d, found := hk.GetDeposit(ctx, addr); found {
			have := d.Amount.AmountOf("bnb")
			switch r.Intn(5) {
			case 0, 1:
				x = have.AddRaw(r.Range(0, 1)) // whole deposit (withdraw caps at the deposit)
			case 2:
				x = have.QuoRaw(r.Range(2, 5))
			}
		}
		if !x.IsPositive() {
			x = sdk.OneInt()
		}
		cs := sdk.NewCoins(sdk.NewCoin("bnb", x))
		_, err := hardMsg.Withdraw(sdk.WrapSDKContext(ctx), &hardtypes.MsgWithdraw{Depositor: addr.String(), Amount: cs})
		return cs.String(), err
	case "hbor":
		x := amt()
		if d, found := hk.GetDeposit(ctx, addr); found && r.Chance(60) {
			// well inside the borrow limit: value(bnb)·0.6 at 17.25 usd
			x = d.Amount.AmountOf("bnb").MulRaw(5).Int64()/int64(r.Range(1, 20)) + 1
		}
		cs := sdk.NewCoins(sdk.NewInt64Coin("usdx", x))
		_, err := hardMsg.Borrow(sdk.WrapSDKContext(ctx), &hardtypes.MsgBorrow{Borrower: addr.String(), Amount: cs})
		return cs.String(), err
	case "ccreate":
		// principal ≥ debt floor (10 usdx); collateral busd (8 decimals) at ratio ≥ 1.01
		p := c.Pick(r, []int64{1e7, 1e7 + 1, 25e6, 123456789, r.Range(1e7, 1e10)})
		col := p*100 + p*int64(r.Range(1, 300))
		if r.Chance(8) {
			col = p * 100 // below the liquidation ratio: refused
		}
		m := cdptypes.NewMsgCreateCDP(addr, sdk.NewInt64Coin("busd", col), sdk.NewInt64Coin("usdx", p), cdpType)
		_, err := ms.cdp.CreateCDP(sdk.WrapSDKContext(ctx), &m)
		return fmt.Sprintf("%d/%d", col, p), err
	case "cdraw":
		x := c.Pick(r, []int64{1, 1000, 1e6, r.Range(1, 1e8)})
		m := cdptypes.NewMsgDrawDebt(addr, cdpType, sdk.NewInt64Coin("usdx", x))
		_, err := ms.cdp.DrawDebt(sdk.WrapSDKContext(ctx), &m)
		return fmt.Sprint(x), err
	case "crepay":
		x := sdkmath.NewInt(amt())
		if cd, found := w.tApp.GetCDPKeeper().GetCdpByOwnerAndCollateralType(ctx, addr, cdpType); found {
			have := cd.GetTotalPrincipal().Amount
			switch r.Intn(4) {
			case 0, 1: // everything: the CDP is closed (and may be re-created later)
				x = have
			case 2:
				x = have.SubRaw(1e7) // down to the debt floor
			}
		}
		if !x.IsPositive() {
			x = sdk.OneInt()
		}
		m := cdptypes.NewMsgRepayDebt(addr, cdpType, sdk.NewCoin("usdx", x))
		_, err := ms.cdp.RepayDebt(sdk.WrapSDKContext(ctx), &m)
		return x.String(), err
	case "cdep":
		x := amt()
		m := cdptypes.NewMsgDeposit(addr, addr, sdk.NewInt64Coin("busd", x), cdpType)
		_, err := ms.cdp.Deposit(sdk.WrapSDKContext(ctx), &m)
		return fmt.Sprint(x), err
	case "cwd":
		x := amt()
		m := cdptypes.NewMsgWithdraw(addr, addr, sdk.NewInt64Coin("busd", x), cdpType)
		_, err := ms.cdp.Withdraw(sdk.WrapSDKContext(ctx), &m)
		return fmt.Sprint(x), err
	case "ddel":
		x := amt()
		_, err := ms.staking.Delegate(sdk.WrapSDKContext(ctx), stakingtypes.NewMsgDelegate(addr, w.val, sdk.NewInt64Coin("ukava", x)))
		return fmt.Sprint(x), err
	case "dund":
		x := sdkmath.NewInt(amt())
		if d, found := w.tApp.GetStakingKeeper().GetDelegation(ctx, addr, w.val); found {
			v, _ := w.tApp.GetStakingKeeper().GetValidator(ctx, w.val)
			have := v.TokensFromShares(d.GetShares()).TruncateInt()
			switch r.Intn(4) {
			case 0, 1:
				x = have // everything: the delegation is removed
			case 2:
				x = have.QuoRaw(r.Range(2, 5))
			}
		}
		if !x.IsPositive() {
			x = sdk.OneInt()
		}
		_, err := ms.staking.Undelegate(sdk.WrapSDKContext(ctx), stakingtypes.NewMsgUndelegate(addr, w.val, sdk.NewCoin("ukava", x)))
		return x.String(), err
	case "edep":
		x := amt()
		_, err := ms.earn.Deposit(sdk.WrapSDKContext(ctx), earntypes.NewMsgDeposit(addr.String(), sdk.NewInt64Coin("usdx", x), earntypes.STRATEGY_TYPE_HARD))
		return fmt.Sprint(x), err
	case "ewd":
		x := sdkmath.NewInt(amt())
		ek := w.tApp.GetEarnKeeper()
		if sh, found := ek.GetVaultAccountShares(ctx, addr); found {
			have := sh.AmountOf("usdx").TruncateInt()
			switch r.Intn(4) {
			case 0, 1:
				x = have // everything: the vault position is emptied
			case 2:
				x = have.QuoRaw(r.Range(2, 5))
			}
		}
		if !x.IsPositive() {
			x = sdk.OneInt()
		}
		_, err := ms.earn.Withdraw(sdk.WrapSDKContext(ctx), earntypes.NewMsgWithdraw(addr.String(), sdk.NewCoin("usdx", x), earntypes.STRATEGY_TYPE_HARD))
		return x.String(), err
	case "hliq": // another user liquidates the owner's x/hard position (MsgLiquidate)
		// mostly after an oracle move that puts the owner over its borrow limit; otherwise at the current price
		// (refused unless an earlier move left the position over the limit)
		desc := "asis"
		if thr, ok := w.liquidationPrice(ctx, addr); ok && r.Chance(88) {
			p := thr.MulInt64(r.Range(30, 99)).QuoInt64(100)
			if p.GTE(minBnbPrice) && p.LT(w.bnbPrice(ctx)) {
				w.setBnbPrice(ctx, p)
				desc = "moved"
			}
		}
		m := hardtypes.NewMsgLiquidate(actor, addr)
		_, err := hardMsg.Liquidate(sdk.WrapSDKContext(ctx), &m)
		return desc, err
	case "cdep3": // a third party adds collateral to the owner's CDP
		x := amt()
		m := cdptypes.NewMsgDeposit(addr, actor, sdk.NewInt64Coin("busd", x), cdpType)
		_, err := ms.cdp.Deposit(sdk.WrapSDKContext(ctx), &m)
		return fmt.Sprint(x), err
	default: // hrep, hrep3 (a third party repays the owner's borrow, partially or fully)
		sender := addr
		if kind == "hrep3" {
			sender = actor
		}
		x := sdkmath.NewInt(amt())
		if b, found := hk.GetBorrow(ctx, addr); found {
			have := b.Amount.AmountOf("usdx")
			switch r.Intn(4) {
			case 0, 1:
				x = have.AddRaw(r.Range(0, 5)) // repay everything (capped at the debt)
			case 2:
				x = have.QuoRaw(r.Range(2, 5))
			}
		}
		if !x.IsPositive() {
			x = sdk.OneInt()
		}
		cs := sdk.NewCoins(sdk.NewCoin("usdx", x))
		_, err := hardMsg.Repay(sdk.WrapSDKContext(ctx), &hardtypes.MsgRepay{Sender: sender.String(), Owner: addr.String(), Amount: cs})
		return cs.String(), err
	}
}

// ---------------------------------------------------------------------------------------------
// the oracle price of bnb (x/hard values bnb deposits with it; nothing else in this world reads it)

const bnbMarket = "bnb:usd"

var (
	baseBnbPrice = sdk.MustNewDecFromStr("17.25")
	minBnbPrice  = sdk.MustNewDecFromStr("0.000000001")
)

func (w *world) price(ctx sdk.Context, market string) sdk.Dec {
	cp, err := w.tApp.GetPriceFeedKeeper().GetCurrentPrice(ctx, market)
	must(err)
	return cp.Price
}

// setPrice: the (only) oracle posts a new price and the module takes the median, as its end blocker would
func (w *world) setPrice(ctx sdk.Context, market string, p sdk.Dec) {
	pk := w.tApp.GetPriceFeedKeeper()
	_, err := pk.SetPrice(ctx, sdk.AccAddress{}, market, p, kapp.GenTime.AddDate(2000, 0, 0))
	must(err)
	must(pk.SetCurrentPrices(ctx, market))
}

func (w *world) bnbPrice(ctx sdk.Context) sdk.Dec       { return w.price(ctx, bnbMarket) }
func (w *world) setBnbPrice(ctx sdk.Context, p sdk.Dec) { w.setPrice(ctx, bnbMarket, p) }

// liquidationPrice: the bnb price under which addr's borrow exceeds its borrow limit (LTV 0.6 on every deposit,
// usdx at 1 usd, equal conversion factors), from the stored position; false when no bnb price does
func (w *world) liquidationPrice(ctx sdk.Context, addr sdk.AccAddress) (sdk.Dec, bool) {
	hk := w.tApp.GetHardKeeper()
	d, okD := hk.GetDeposit(ctx, addr)
	bo, okB := hk.GetBorrow(ctx, addr)
	if !okD || !okB {
		return sdk.Dec{}, false
	}
	bnb := d.Amount.AmountOf("bnb")
	if !bnb.IsPositive() {
		return sdk.Dec{}, false
	}
	// borrowed > 0.6·(bnb·p + usdx)  ⇔  p < (borrowed/0.6 − usdx)/bnb
	need := sdk.NewDecFromInt(bo.Amount.AmountOf("usdx")).Quo(sdk.MustNewDecFromStr("0.6")).Sub(sdk.NewDecFromInt(d.Amount.AmountOf("usdx")))
	if !need.IsPositive() {
		return sdk.Dec{}, false
	}
	return need.QuoInt(bnb), true
}

// doClaim: one claim message (one reward denom, one multiplier) of user u for a random claim type
func (w *world) doClaim(out *c.Out, ctx sdk.Context, cfg *seqCfg, r *c.Rng, tag string, u int,
	bk interface {
		GetBalance(sdk.Context, sdk.AccAddress, string) sdk.Coin
	}, macc sdk.AccAddress, incMsg itypes.MsgServer, now time.Time) {
	addr := w.users[u]
	in := cfg.insts[r.Intn(len(cfg.insts))]
	j := r.Intn(len(in.rates))
	denom := in.rates[j].Denom
	m := c.Pick(r, cfg.mults[denom])
	pre := w.snapshot(ctx, in)
	maccPre := bk.GetBalance(ctx, macc, denom).Amount
	userPre := bk.GetBalance(ctx, addr, denom).Amount
	accrued := w.synced(ctx, in, addr).AmountOf(denom)
	sel := itypes.Selections{itypes.NewSelection(denom, m.Name)}
	cls, err := kapp.Exec(ctx, func(cx sdk.Context) error {
		var e error
		switch claimType(in.src) {
		case "swap":
			_, e = incMsg.ClaimSwapReward(sdk.WrapSDKContext(cx), &itypes.MsgClaimSwapReward{Sender: addr.String(), DenomsToClaim: sel})
		case "hard":
			_, e = incMsg.ClaimHardReward(sdk.WrapSDKContext(cx), &itypes.MsgClaimHardReward{Sender: addr.String(), DenomsToClaim: sel})
		case "usdx":
			_, e = incMsg.ClaimUSDXMintingReward(sdk.WrapSDKContext(cx), &itypes.MsgClaimUSDXMintingReward{Sender: addr.String(), MultiplierName: m.Name})
		case "deleg":
			_, e = incMsg.ClaimDelegatorReward(sdk.WrapSDKContext(cx), &itypes.MsgClaimDelegatorReward{Sender: addr.String(), DenomsToClaim: sel})
		default:
			_, e = incMsg.ClaimEarnReward(sdk.WrapSDKContext(cx), &itypes.MsgClaimEarnReward{Sender: addr.String(), DenomsToClaim: sel})
		}
		return e
	})
	if cls == kapp.Panic {
		out.Violation(fmt.Sprintf("c09 claim panicked: %v", err))
	}
	if err != nil {
		out.Note("err:claim:" + errClass(err))
	}
	post := w.snapshot(ctx, in)
	paid := bk.GetBalance(ctx, addr, denom).Amount.Sub(userPre)
	maccDelta := bk.GetBalance(ctx, macc, denom).Amount.Sub(maccPre)
	own := sharesOwnDenom(cfg, in, denom)
	if cls == kapp.OK {
		in.claimed[j].Add(in.claimed[j], accrued.BigInt())
		in.claimedU[j][u].Add(in.claimedU[j][u], accrued.BigInt())
		// a hard claim synchronises supply and borrow of the owner
		for _, o := range cfg.insts {
			if claimType(o.src) == claimType(in.src) {
				o.nsync++
				o.nsyncU[u]++
			}
		}
	}
	sig := fmt.Sprintf("%s|%s|%s|afterEnd=%v|zero=%v", in.src, m.Name, cls, now.After(cfg.claimEnd), accrued.IsZero())
	if !own {
		return
	}
	out.Case(sig, "c09.kclaim", tag+in.src+":"+denom, fmt.Sprint(u), mant(m.Factor), ns(now), ns(cfg.claimEnd), maccPre.String(),
		pre.I[j], join(pre.s), join(pre.i[j]), join(pre.r[j]), "=>", string(cls), join(post.i[j]), join(post.r[j]), paid.String(), maccDelta.String())
}

// dustSeq: hard money markets WITH interest.  One user borrows a small amount and never touches the
// position again; blocks are a day apart.  x/hard adds the truncated interest to the total borrowed while
// the interest factor grows exactly, so total source shares (total/factor) sink below the borrower's own
// normalised amount and the borrower is credited more than the emission.
func (w *world) dustSeq(out *c.Out, seq int, r *c.Rng) {
	ctx, _ := w.base.CacheContext()
	ik := w.tApp.GetIncentiveKeeper()
	hk := w.tApp.GetHardKeeper()
	hardMsg := hardkeeper.NewMsgServerImpl(hk)
	in := &inst{src: "hborrow", ctype: "usdx", rates: sdk.NewCoins(sdk.NewInt64Coin("ukava", r.Range(1000, 2000000))), sumT: big.NewInt(0),
		emission: []*big.Int{big.NewInt(0)}, claimed: []*big.Int{big.NewInt(0)}}
	days := int(r.Range(200, 500))
	start := kapp.GenTime.Add(time.Hour)
	end := start.Add(time.Duration(days) * 24 * time.Hour)
	params := itypes.DefaultParams()
	params.HardBorrowRewardPeriods = itypes.MultiRewardPeriods{itypes.NewMultiRewardPeriod(true, "usdx", start, end, in.rates)}
	params.ClaimEnd = end.Add(30 * 24 * time.Hour)
	params.ClaimMultipliers = itypes.MultipliersPerDenoms{{Denom: "ukava", Multipliers: itypes.Multipliers{itypes.NewMultiplier("large", 0, sdk.OneDec())}}}
	kapp.SetParams(w.tApp, ctx, "incentive", &params, func() { ik.SetParams(ctx, params) })
	addr := w.users[0]
	_, err := hardMsg.Deposit(sdk.WrapSDKContext(ctx), &hardtypes.MsgDeposit{Depositor: addr.String(), Amount: sdk.NewCoins(sdk.NewInt64Coin("bnb", 1e12), sdk.NewInt64Coin("usdx", 1e9))})
	must(err)
	borrowed := r.Range(300, 5000)
	_, err = hardMsg.Borrow(sdk.WrapSDKContext(ctx), &hardtypes.MsgBorrow{Borrower: addr.String(), Amount: sdk.NewCoins(sdk.NewInt64Coin("usdx", borrowed))})
	must(err)
	in.nsync = 1
	now := kapp.GenTime
	var lastBlock time.Time
	haveLast := false
	for b := 0; b < days+3; b++ {
		now = now.Add(24*time.Hour + time.Duration(r.Range(0, 3))*time.Second)
		ctx = ctx.WithBlockTime(now).WithBlockHeight(ctx.BlockHeight() + 1)
		hard.BeginBlocker(ctx, hk)
		T := w.total(ctx, in)
		incentive.BeginBlocker(ctx, ik)
		var d time.Duration
		if haveLast {
			d = overlap(lastBlock, now, start, end)
		}
		if secs := secsOf(d); T.IsPositive() && secs > 0 {
			in.sumT.Add(in.sumT, T.BigInt())
			in.emission[0].Add(in.emission[0], new(big.Int).Mul(sdk.NewDecFromInt(in.rates[0].Amount).BigInt(), big.NewInt(secs)))
		}
		lastBlock, haveLast = now, true
	}
	T := w.total(ctx, in)
	sh := w.shares(ctx, in, addr)
	// the borrower really claims it: paid out of the incentive account at multiplier 1.0
	bk := w.tApp.GetBankKeeper()
	before := bk.GetBalance(ctx, addr, "ukava").Amount
	_, err = ikeeper.NewMsgServerImpl(ik).ClaimHardReward(sdk.WrapSDKContext(ctx), &itypes.MsgClaimHardReward{Sender: addr.String(),
		DenomsToClaim: itypes.Selections{itypes.NewSelection("ukava", "large")}})
	must(err)
	credited := bk.GetBalance(ctx, addr, "ukava").Amount.Sub(before)
	in.nsync++
	out.Case("hborrow|dust-bound", "c09.bound", fmt.Sprintf("Bhborrow:ukava:dust:rate=%s:borrowed=%d:days=%d:T=%s:share=%s", in.rates[0].Amount, borrowed, days, T, sh), "1", fmt.Sprint(in.nsync),
		in.emission[0].String(), in.sumT.String(), credited.String())
}

// ---------------------------------------------------------------------------------------------

func keeperPart(out *c.Out, r *c.Rng) {
	n := c.Budget(48, 2000)
	if v := c.EnvInt("C09_SEQS", 0); v > 0 {
		n = v
	}
	// app.NewTestApp() rewrites the global SDK config (a plain map): build every world up front, one
	// after the other, before any sequence runs
	workers := c.Workers()
	poolA := make(chan *world, workers)
	poolB := make(chan *world, workers)
	for i := 0; i < workers; i++ {
		poolA <- mkWorld(false)
		poolB <- mkWorld(true)
	}
	kapp.RunSeqs(n, workers, r, func() *world { return <-poolA },
		func(w *world, seq int, r *c.Rng) { w.seq(out, seq, r) })
	// x/hard with its standard interest model
	kapp.RunSeqs(n/4+1, workers, r.Fork(99), func() *world { return <-poolB },
		func(w *world, seq int, r *c.Rng) {
			if seq%4 == 0 {
				w.dustSeq(out, seq, r)
			} else {
				w.seq(out, seq, r)
			}
		})
}
