// c03: correspondence harness for x/precisebank (property C03).
// Drives the real keeper (the one app.go hands to the EVM) and prints one self-contained case per
// operation: observed pre-state, operation, result class, observed post-state.
package main

import (
	"fmt"
	"math/big"
	"strconv"
	"strings"

	sdkmath "cosmossdk.io/math"
	sdk "github.com/cosmos/cosmos-sdk/types"
	authtypes "github.com/cosmos/cosmos-sdk/x/auth/types"
	vestingtypes "github.com/cosmos/cosmos-sdk/x/auth/vesting/types"
	evmtypes "github.com/evmos/ethermint/x/evm/types"

	"github.com/kava-labs/kava/app"
	auctiontypes "github.com/kava-labs/kava/x/auction/types"
	kavadisttypes "github.com/kava-labs/kava/x/kavadist/types"
	pbkeeper "github.com/kava-labs/kava/x/precisebank/keeper"
	pbtypes "github.com/kava-labs/kava/x/precisebank/types"
	govtypes "github.com/cosmos/cosmos-sdk/x/gov/types"

	c "kavaverif/harness/common"
	"kavaverif/harness/kapp"
)

type party struct {
	addr   sdk.AccAddress
	module string // "" for user accounts
	minter bool
	burner bool
}

type world struct {
	tApp    app.TestApp
	base    sdk.Context
	parties []party
	blocked []bool
}

var C = pbtypes.ConversionFactor().BigInt()

func mkWorld() *world {
	_, addrs := app.GeneratePrivKeyAddressPairs(3)
	tApp, ctx := kapp.NewApp()
	ak := tApp.GetAccountKeeper()
	w := &world{tApp: tApp, base: ctx}
	mod := func(name string) party {
		acc := ak.GetModuleAccount(ctx, name)
		return party{addr: acc.GetAddress(), module: name, minter: acc.HasPermission(authtypes.Minter), burner: acc.HasPermission(authtypes.Burner)}
	}
	w.parties = []party{
		mod(pbtypes.ModuleName),     // 0: reserve
		{addr: addrs[0]},            // 1: user
		{addr: addrs[1]},            // 2: user
		{addr: addrs[2]},            // 3: vesting user with locked ukava
		mod(evmtypes.ModuleName),    // 4: minter+burner, blocked
		mod(govtypes.ModuleName),    // 5: burner only, blocked
		mod(kavadisttypes.KavaDistMacc), // 6: minter only, not blocked
		mod(auctiontypes.ModuleName),    // 7: no permission, blocked
	}
	// vesting account: 5 ukava locked until far in the future
	base := authtypes.NewBaseAccountWithAddress(addrs[2])
	base.AccountNumber = ak.NextAccountNumber(ctx)
	va := vestingtypes.NewDelayedVestingAccount(base, sdk.NewCoins(sdk.NewInt64Coin("ukava", 5)), kapp.GenTime.Unix()+1e9)
	ak.SetAccount(ctx, va)
	bk := tApp.GetBankKeeper()
	// the locked coins are really held (balance >= locked is an x/auth invariant)
	must(bk.MintCoins(ctx, evmtypes.ModuleName, sdk.NewCoins(sdk.NewInt64Coin("ukava", 5))))
	must(bk.SendCoinsFromModuleToAccount(ctx, evmtypes.ModuleName, addrs[2], sdk.NewCoins(sdk.NewInt64Coin("ukava", 5))))
	// other denominations for the passthrough clause ("other coins in the same call behave exactly as in the base
	// bank"): they sort after ukava (usdx), between akava and ukava (busd), and BEFORE akava (aaa, akav, and BTC —
	// upper case sorts first), so akava is first, in the middle or last of the sorted coins of a call
	for _, d := range extraDenoms {
		for _, i := range []int{1, 2, 3, 6} {
			cs := sdk.NewCoins(sdk.NewInt64Coin(d, 1000000))
			must(bk.MintCoins(ctx, evmtypes.ModuleName, cs))
			if w.parties[i].module != "" {
				must(bk.SendCoinsFromModuleToModule(ctx, evmtypes.ModuleName, w.parties[i].module, cs))
			} else {
				must(bk.SendCoinsFromModuleToAccount(ctx, evmtypes.ModuleName, w.parties[i].addr, cs))
			}
		}
	}
	for _, p := range w.parties {
		w.blocked = append(w.blocked, bk.BlockedAddr(p.addr))
	}
	return w
}

type obs struct {
	bal, locked, frac []*big.Int
	rem, supply       *big.Int
}

func (w *world) observe(ctx sdk.Context) obs {
	bk := w.tApp.GetBankKeeper()
	pk := w.tApp.GetPrecisebankKeeper()
	var o obs
	known := map[string]bool{}
	for _, p := range w.parties {
		known[p.addr.String()] = true
		o.bal = append(o.bal, bk.GetBalance(ctx, p.addr, "ukava").Amount.BigInt())
		o.locked = append(o.locked, bk.LockedCoins(ctx, p.addr).AmountOf("ukava").BigInt())
		o.frac = append(o.frac, pk.GetFractionalBalance(ctx, p.addr).BigInt())
	}
	pk.IterateFractionalBalances(ctx, func(a sdk.AccAddress, _ sdkmath.Int) bool {
		if !known[a.String()] {
			panic("harness: fractional balance outside the party set")
		}
		return false
	})
	o.rem = pk.GetRemainderAmount(ctx).BigInt()
	o.supply = bk.GetSupply(ctx, "ukava").Amount.BigInt()
	return o
}

func bi(x int64) *big.Int { return big.NewInt(x) }

// amount pool, biased to the borrow / carry / wrap boundaries of the current state
func (w *world) akavaAmount(r *c.Rng, o obs, from int) *big.Int {
	f := o.frac[from]
	sp := new(big.Int).Sub(o.bal[from], o.locked[from])
	if sp.Sign() < 0 {
		sp = bi(0)
	}
	full := new(big.Int).Add(new(big.Int).Mul(sp, C), f)
	k := bi(r.Range(0, 3))
	kc := new(big.Int).Mul(k, C)
	pick := func(xs ...*big.Int) *big.Int { return new(big.Int).Set(xs[r.Intn(len(xs))]) }
	var x *big.Int
	switch r.Intn(10) {
	case 0:
		x = bi(0)
	case 1:
		x = pick(bi(1), bi(2), new(big.Int).Sub(C, bi(1)), C, new(big.Int).Add(C, bi(1)))
	case 2: // around the sender's fraction (borrow boundary)
		x = new(big.Int).Add(f, bi(r.Range(-1, 1)))
	case 3: // around C - f of a random party (carry boundary)
		g := o.frac[r.Intn(len(o.frac))]
		x = new(big.Int).Add(new(big.Int).Sub(C, g), bi(r.Range(-1, 1)))
	case 4: // around the remainder (wrap boundary for mint/burn)
		x = new(big.Int).Add(pick(o.rem, new(big.Int).Sub(C, o.rem)), bi(r.Range(-1, 1)))
	case 5: // whole spendable balance and just above
		x = new(big.Int).Add(full, bi(r.Range(-1, 1)))
	case 6:
		x = r.BigBelow(C)
	default:
		x = r.BigBelow(new(big.Int).Add(full, bi(2)))
	}
	if r.Chance(30) {
		x.Add(x, kc)
	}
	if x.Sign() < 0 {
		x = bi(0)
	}
	return x
}

var extraDenoms = []string{"usdx", "busd", "aaa", "akav", "BTC"}

func coins(u, x *big.Int, extra int64, extraDenom string) sdk.Coins {
	cs := sdk.Coins{}
	if x.Sign() > 0 {
		cs = cs.Add(sdk.NewCoin("akava", sdkmath.NewIntFromBigInt(x)))
	}
	if u.Sign() > 0 {
		cs = cs.Add(sdk.NewCoin("ukava", sdkmath.NewIntFromBigInt(u)))
	}
	if extra > 0 {
		cs = cs.Add(sdk.NewInt64Coin(extraDenom, extra))
	}
	return cs
}

func (w *world) seq(out *c.Out, seq int, r *c.Rng) {
	ctx, _ := w.base.CacheContext()
	pk := w.tApp.GetPrecisebankKeeper()
	bk := w.tApp.GetBankKeeper()
	// random initial funding through the real keeper (reachable states only)
	for i := 1; i <= 3; i++ {
		amt := new(big.Int).Add(new(big.Int).Mul(bi(r.Range(0, 6)), C), r.BigBelow(C))
		if amt.Sign() > 0 {
			must(pk.MintCoins(ctx, evmtypes.ModuleName, coins(bi(0), amt, 50, "usdx")))
			must(pk.SendCoinsFromModuleToAccount(ctx, evmtypes.ModuleName, w.parties[i].addr, coins(bi(0), amt, 50, "usdx")))
		}
	}
	nops := c.Budget(40, 120)
	for i := 0; i < nops; i++ {
		pre := w.observe(ctx)
		kind := c.Pick(r, []string{"send", "send", "send", "m2a", "a2m", "mint", "mint", "burn", "burn"})
		a, b := r.Intn(len(w.parties)), r.Intn(len(w.parties))
		if r.Chance(8) {
			b = a // transfer to oneself
		}
		switch kind {
		case "m2a": // sender must be a module account
			for w.parties[a].module == "" {
				a = r.Intn(len(w.parties))
			}
		case "a2m":
			for w.parties[b].module == "" {
				b = r.Intn(len(w.parties))
			}
			if r.Chance(10) {
				a = 0 // the reserve address as the sending account
			}
		case "mint", "burn":
			for w.parties[a].module == "" {
				a = r.Intn(len(w.parties))
			}
			if r.Chance(70) { // mostly modules that may do it
				a = 4
			}
			b = a
		}
		x := w.akavaAmount(r, pre, a)
		u := bi(0)
		if r.Chance(20) {
			u = bi(r.Range(0, 3))
		}
		extra := int64(0)
		if r.Chance(15) && kind != "burn" {
			extra = r.Range(1, 5)
		}
		if kind == "send" && (a == 0 || b == 0) && r.Chance(40) {
			// the reserve as a direct party of SendCoins is generated less often
			a, b = 1, 2
		}
		if (kind == "send" || kind == "a2m") && (a == 0 || b == 0) && r.Chance(50) {
			// the reserve as a party of a transfer WITHOUT akava (ukava and/or another denom only):
			// the guard must not depend on the extended amount being present
			x = bi(0)
			u = bi(r.Range(1, 3))
			if b == 0 && pre.bal[a].Sign() > 0 {
				u = bi(1)
			}
		}
		extraDenom := c.Pick(r, extraDenoms)
		other := otherDenoms(bk, ctx, w, extraDenom)
		if kind == "burn" || other[a] < extra { // the model does not track the other denoms: only affordable extras
			extra = 0
		}
		cs := coins(u, x, extra, extraDenom)
		cls, err := kapp.Exec(ctx, func(cx sdk.Context) error {
			switch kind {
			case "send":
				return pk.SendCoins(cx, w.parties[a].addr, w.parties[b].addr, cs)
			case "m2a":
				return pk.SendCoinsFromModuleToAccount(cx, w.parties[a].module, w.parties[b].addr, cs)
			case "a2m":
				return pk.SendCoinsFromAccountToModule(cx, w.parties[a].addr, w.parties[b].module, cs)
			case "mint":
				return pk.MintCoins(cx, w.parties[a].module, cs)
			default:
				return pk.BurnCoins(cx, w.parties[a].module, cs)
			}
		})
		post := w.observe(ctx)
		flag := (kind == "mint" && w.parties[a].minter) || (kind == "burn" && w.parties[a].burner)
		// branch signature for coverage accounting
		fr := new(big.Int).Mod(x, C)
		sig := fmt.Sprintf("%s|%s|self=%v|borrow=%v|carry=%v|int=%v|u=%v|res=%v", kind, cls, a == b,
			pre.frac[a].Cmp(fr) < 0, new(big.Int).Add(pre.frac[b], fr).Cmp(C) >= 0, x.Cmp(C) >= 0, u.Sign() > 0, a == 0 || b == 0)
		if err != nil {
			out.Note("err:" + errClass(err))
			if cls == kapp.Panic && c.EnvInt("VERIF_DEBUG", 0) > 0 {
				fmt.Println("PANIC", kind, a, b, u, x, err)
			}
		}
		bl := make([]string, len(w.blocked))
		for i, v := range w.blocked {
			bl[i] = c.B(v)
		}
		out.Case(sig, "c03.op", kind, "0", c.Ints(pre.bal), c.Ints(pre.locked), c.Ints(pre.frac), pre.rem.String(), pre.supply.String(),
			strings.Join(bl, ","), strconv.Itoa(a), strconv.Itoa(b), c.B(flag), u.String(), x.String(), "=>", string(cls),
			c.Ints(post.bal), c.Ints(post.frac), post.rem.String(), post.supply.String())
		if i%5 == 0 { // view functions and "no akava in x/bank"
			var gb, sp, bb []*big.Int
			for _, p := range w.parties {
				gb = append(gb, pk.GetBalance(ctx, p.addr, "akava").Amount.BigInt())
				sp = append(sp, pk.SpendableCoin(ctx, p.addr, "akava").Amount.BigInt())
				bb = append(bb, bk.GetBalance(ctx, p.addr, "akava").Amount.BigInt())
			}
			out.Case("", "c03.view", "0", c.Ints(post.bal), c.Ints(post.locked), c.Ints(post.frac), "=>",
				c.Ints(gb), c.Ints(sp), bk.GetSupply(ctx, "akava").Amount.String(), c.Ints(bb))
		}
		// registered invariants of the module on the real state (C02 feeds on this)
		if cls == kapp.OK {
			if msg, broken := pbkeeper.AllInvariants(pk)(ctx); broken {
				out.Violation(fmt.Sprintf("seq=%d op=%d %s a=%d b=%d u=%s x=%s: invariant broken: %s", seq, i, kind, a, b, u, x, msg))
			}
			// passthrough: other denoms behave exactly as in x/bank (only usdx is used)
			if extra > 0 && (kind == "send" || kind == "m2a" || kind == "a2m") && a != b {
				now := otherDenoms(bk, ctx, w, extraDenom)
				if now[a] != other[a]-extra || now[b] != other[b]+extra {
					out.Violation(fmt.Sprintf("C03 passthrough: %s in the same call not moved exactly as in the base bank seq=%d op=%d", extraDenom, seq, i))
				}
			}
		}
	}
}

func otherDenoms(bk interface {
	GetBalance(sdk.Context, sdk.AccAddress, string) sdk.Coin
}, ctx sdk.Context, w *world, denom string) []int64 {
	out := make([]int64, len(w.parties))
	for i, p := range w.parties {
		out[i] = bk.GetBalance(ctx, p.addr, denom).Amount.Int64()
	}
	return out
}

func errClass(err error) string {
	s := err.Error()
	for _, k := range []string{"insufficient funds", "is not allowed to receive", "is not allowed to send", "invalid coins", "panic", "unauthorized"} {
		if strings.Contains(s, k) {
			return k
		}
	}
	return "other"
}

func must(err error) {
	if err != nil {
		panic(err)
	}
}

func main() {
	out := c.NewOut(c.OutPath())
	defer out.Close()
	r := c.NewRng(c.Seed())
	n := c.Budget(200, 4000)
	kapp.RunSeqs(n, c.Workers(), r, mkWorld, func(w *world, seq int, r *c.Rng) { w.seq(out, seq, r) })
}
