// c13: correspondence harness for x/bep3 (property C13, atomic swaps).
// Drives the real keeper and BeginBlocker and prints one self-contained case per operation:
// observed pre-state, operation, result class, observed post-state.  Byte strings (swap ids, hashes,
// secrets, other-chain senders) are interned injectively to small integers per sequence.
package main

import (
	"bytes"
	"encoding/binary"
	"encoding/hex"
	"fmt"
	"math"
	"sort"
	"strconv"
	"strings"
	"time"

	errorsmod "cosmossdk.io/errors"
	sdkmath "cosmossdk.io/math"
	"github.com/cosmos/cosmos-sdk/store/prefix"
	sdk "github.com/cosmos/cosmos-sdk/types"
	authtypes "github.com/cosmos/cosmos-sdk/x/auth/types"

	"github.com/kava-labs/kava/app"
	"github.com/kava-labs/kava/x/bep3"
	"github.com/kava-labs/kava/x/bep3/types"
	kavadisttypes "github.com/kava-labs/kava/x/kavadist/types"

	c "kavaverif/harness/common"
	"kavaverif/harness/kapp"
)

var denoms = []string{"bnb", "btcb", "usdx"} // 0,1: bep3 assets; 2: not a bep3 asset

const nAssets = 2

type world struct {
	tApp    app.TestApp
	base    sdk.Context
	parties []sdk.AccAddress // 0 bep3 module, 1 deputy A, 2 deputy B, 3..5 users, 6 another module account
	macc    []bool
	blocked []bool
}

func mkWorld() *world {
	_, addrs := app.GeneratePrivKeyAddressPairs(5)
	cdc := app.MakeEncodingConfig().Marshaler
	funds := sdk.NewCoins(sdk.NewInt64Coin("ukava", 1_000_000), sdk.NewInt64Coin("usdx", 1_000_000))
	authGen := app.NewFundedGenStateWithSameCoins(cdc, funds, addrs)
	mk := func(denom string, coinID int64, deputy sdk.AccAddress) types.AssetParam {
		return types.AssetParam{
			Denom: denom, CoinID: coinID,
			SupplyLimit:   types.SupplyLimit{Limit: sdkmath.NewInt(10000), TimeLimited: false, TimeBasedLimit: sdk.ZeroInt(), TimePeriod: time.Hour},
			Active:        true,
			DeputyAddress: deputy, FixedFee: sdkmath.NewInt(10), MinSwapAmount: sdk.OneInt(), MaxSwapAmount: sdkmath.NewInt(5000),
			MinBlockLock: 2, MaxBlockLock: 6,
		}
	}
	zero := func(d string) types.AssetSupply {
		z := sdk.NewCoin(d, sdk.ZeroInt())
		return types.NewAssetSupply(z, z, z, z, 0)
	}
	gs := types.GenesisState{
		Params:            types.Params{AssetParams: types.AssetParams{mk("bnb", 714, addrs[0]), mk("btcb", 0, addrs[1])}},
		Supplies:          types.AssetSupplies{zero("bnb"), zero("btcb")},
		PreviousBlockTime: kapp.GenTime,
	}
	bep3Gen := app.GenesisState{types.ModuleName: cdc.MustMarshalJSON(&gs)}
	tApp, ctx := kapp.NewApp(authGen, bep3Gen)
	w := &world{tApp: tApp, base: ctx}
	w.parties = []sdk.AccAddress{authtypes.NewModuleAddress(types.ModuleName), addrs[0], addrs[1], addrs[2], addrs[3], addrs[4],
		authtypes.NewModuleAddress(kavadisttypes.KavaDistMacc)}
	k := tApp.GetBep3Keeper()
	bk := tApp.GetBankKeeper()
	for _, p := range w.parties {
		w.macc = append(w.macc, k.Maccs[p.String()])
		w.blocked = append(w.blocked, bk.BlockedAddr(p))
	}
	return w
}

// ---------------------------------------------------------------- interning

type interner struct {
	m map[string]int
}

func (in *interner) of(b []byte) int {
	if in.m == nil {
		in.m = map[string]int{}
	}
	k := string(b)
	if v, ok := in.m[k]; ok {
		return v
	}
	v := len(in.m) + 1
	in.m[k] = v
	return v
}

type seqState struct {
	ids, hashes, secrets, others interner
	created                      []made // swaps created so far (in this sequence), for claim/refund targets
	limStable                    bool
	pendingClaim                 []byte // raw id of a swap to claim next with the right secret (set by genSetLimit)
	pendingTag                   string // variant tag of that forced claim
	// deputy rotation: the deputy in force when each swap was created (the harness's own record, keyed by raw
	// id), the swaps that were live at the last rotation and still have to be closed, and whether this sequence
	// rotates as soon as an asset has live swaps in both directions
	cdep       map[string]int
	depQueue   [][]byte
	rotateSoon bool
	rotations  int
	// the harness's own bookkeeping of the time-limited allowance, from its own log of block times and of
	// the incoming amounts it saw claimed; it never reads the implementation's TimeElapsed counter
	lastBlockNs int64            // time of the previous block the harness started
	shElapsed   [nAssets]int64   // real time accumulated since the reset the harness itself computes
	shWindow    [nAssets]int64   // incoming amounts claimed (while time-limited) since that reset
}

type made struct {
	id     []byte
	secret []byte
	hash   []byte
	ts     int64
	sender int
	other  string
}

// ---------------------------------------------------------------- observation

type swapObs struct {
	id, denom                                int
	amt                                      string
	hash                                     int
	ts                                       int64
	sender, recipient, other                 int
	expire                                   uint64
	dir, status                              int
	closed                                   int64
	rec                                      types.AtomicSwap
	rawID                                    []byte
}

type obs struct {
	height       int64
	timeNs       int64
	prevNs       int64
	assets       []types.AssetParam
	supplies     []types.AssetSupply
	swaps        []swapObs
	byBlock      [][2]uint64 // (height, interned id)
	longterm     [][2]uint64
	bal          [][]string
	bankSupply   []string
}

func (w *world) partyIdx(a sdk.AccAddress) int {
	for i, p := range w.parties {
		if p.Equals(a) {
			return i
		}
	}
	panic("harness: address outside the party set: " + a.String())
}

func denomIdx(d string) int {
	for i, x := range denoms {
		if x == d {
			return i
		}
	}
	panic("harness: unknown denom " + d)
}

func (w *world) observe(ctx sdk.Context, st *seqState, out *c.Out) obs {
	k := w.tApp.GetBep3Keeper()
	bk := w.tApp.GetBankKeeper()
	cdc := w.tApp.AppCodec()
	var o obs
	o.height = ctx.BlockHeight()
	o.timeNs = ctx.BlockTime().UnixNano()
	pt, found := k.GetPreviousBlockTime(ctx)
	if !found {
		panic("harness: previous block time not set")
	}
	o.prevNs = pt.UnixNano()
	var stored types.Params
	kapp.ReadParams(w.tApp, ctx, "bep3", &stored)
	o.assets = stored.AssetParams
	for i := 0; i < nAssets; i++ {
		s, found := k.GetAssetSupply(ctx, denoms[i])
		if !found {
			panic("harness: asset supply missing")
		}
		o.supplies = append(o.supplies, s)
	}
	key := w.tApp.GetKVStoreKey(types.StoreKey)
	// swap records with their raw store keys
	it := prefix.NewStore(ctx.KVStore(key), types.AtomicSwapKeyPrefix).Iterator(nil, nil)
	for ; it.Valid(); it.Next() {
		var rec types.AtomicSwap
		cdc.MustUnmarshal(it.Value(), &rec)
		if !bytes.Equal(it.Key(), rec.GetSwapID()) {
			out.Violation("swap stored under a key different from its GetSwapID(): " + hex.EncodeToString(it.Key()))
		}
		if len(rec.Amount) != 1 {
			out.Violation("stored swap with " + strconv.Itoa(len(rec.Amount)) + " coins")
			continue
		}
		o.swaps = append(o.swaps, swapObs{
			id: st.ids.of(it.Key()), denom: denomIdx(rec.Amount[0].Denom), amt: rec.Amount[0].Amount.String(),
			hash: st.hashes.of(rec.RandomNumberHash), ts: rec.Timestamp,
			sender: w.partyIdx(rec.Sender), recipient: w.partyIdx(rec.Recipient),
			other: st.others.of([]byte(strings.ToLower(rec.SenderOtherChain))), expire: rec.ExpireHeight,
			dir: int(rec.Direction), status: int(rec.Status), closed: rec.ClosedBlock, rec: rec,
			rawID: append([]byte{}, it.Key()...),
		})
	}
	it.Close()
	sort.Slice(o.swaps, func(i, j int) bool { return o.swaps[i].id < o.swaps[j].id })
	index := func(pfx []byte) [][2]uint64 {
		var res [][2]uint64
		it := prefix.NewStore(ctx.KVStore(key), pfx).Iterator(nil, nil)
		defer it.Close()
		for ; it.Valid(); it.Next() {
			kb := it.Key()
			if len(kb) < 8 || !bytes.Equal(kb[8:], it.Value()) {
				out.Violation("index entry whose value is not the id part of its key")
				continue
			}
			res = append(res, [2]uint64{binary.BigEndian.Uint64(kb[:8]), uint64(st.ids.of(kb[8:]))})
		}
		sort.Slice(res, func(i, j int) bool {
			if res[i][0] != res[j][0] {
				return res[i][0] < res[j][0]
			}
			return res[i][1] < res[j][1]
		})
		return res
	}
	o.byBlock = index(types.AtomicSwapByBlockPrefix)
	o.longterm = index(types.AtomicSwapLongtermStoragePrefix)
	for _, p := range w.parties {
		row := make([]string, len(denoms))
		for j, d := range denoms {
			row[j] = bk.GetBalance(ctx, p, d).Amount.String()
		}
		o.bal = append(o.bal, row)
	}
	for _, d := range denoms {
		o.bankSupply = append(o.bankSupply, bk.GetSupply(ctx, d).Amount.String())
	}
	return o
}

func (w *world) enc(o obs) string {
	var as, ss, sw, bb, lt, bl []string
	for _, a := range o.assets {
		as = append(as, fmt.Sprintf("%d,%d,%s,%s,%d,%s,%s,%s,%s,%s,%d,%d", denomIdx(a.Denom), w.partyIdx(a.DeputyAddress),
			a.SupplyLimit.Limit, c.B(a.SupplyLimit.TimeLimited), int64(a.SupplyLimit.TimePeriod), a.SupplyLimit.TimeBasedLimit,
			c.B(a.Active), a.FixedFee, a.MinSwapAmount, a.MaxSwapAmount, a.MinBlockLock, a.MaxBlockLock))
	}
	for i, s := range o.supplies {
		ss = append(ss, fmt.Sprintf("%d,%s,%s,%s,%s,%d", i, s.IncomingSupply.Amount, s.OutgoingSupply.Amount, s.CurrentSupply.Amount,
			s.TimeLimitedCurrentSupply.Amount, int64(s.TimeElapsed)))
	}
	for _, s := range o.swaps {
		sw = append(sw, fmt.Sprintf("%d,%d,%s,%d,%d,%d,%d,%d,%d,%d,%d,%d", s.id, s.denom, s.amt, s.hash, s.ts, s.sender, s.recipient,
			s.other, s.expire, s.dir, s.status, s.closed))
	}
	for _, e := range o.byBlock {
		bb = append(bb, fmt.Sprintf("%d,%d", e[0], e[1]))
	}
	for _, e := range o.longterm {
		lt = append(lt, fmt.Sprintf("%d,%d", e[0], e[1]))
	}
	for _, r := range o.bal {
		bl = append(bl, strings.Join(r, ","))
	}
	j := func(xs []string) string {
		if len(xs) == 0 {
			return "-"
		}
		return strings.Join(xs, ";")
	}
	return strings.Join([]string{strconv.FormatInt(o.height, 10), strconv.FormatInt(o.timeNs, 10), strconv.FormatInt(o.prevNs, 10),
		j(as), j(ss), j(sw), j(bb), j(lt), j(bl), strings.Join(o.bankSupply, ",")}, "|")
}

// ---------------------------------------------------------------- generators

func i64(x sdkmath.Int) int64 { return x.Int64() }

func pickAmt(r *c.Rng, cands []int64) int64 {
	x := cands[r.Intn(len(cands))]
	if x < 1 {
		x = 1
	}
	return x
}

func randBytes(r *c.Rng, n int) []byte {
	b := make([]byte, n)
	for i := range b {
		b[i] = byte(r.U64())
	}
	return b
}

var otherPool = []string{"bnb1deputyaddr", "BNB1DeputyAddr", "bnb1useraddr", "bnb1other"}

func (w *world) randomParams(r *c.Rng, ctx sdk.Context) {
	k := w.tApp.GetBep3Keeper()
	p := k.GetParams(ctx)
	for i := range p.AssetParams {
		a := &p.AssetParams[i]
		limit := c.Pick(r, []int64{0, 50, 300, 1000, 5000, 100000})
		a.SupplyLimit.Limit = sdkmath.NewInt(limit)
		a.SupplyLimit.TimeLimited = r.Chance(50)
		a.SupplyLimit.TimePeriod = time.Duration(c.Pick(r, []int64{10e9, 60e9, 3600e9}))
		tbl := c.Pick(r, []int64{0, limit / 10, limit / 2, limit})
		a.SupplyLimit.TimeBasedLimit = sdkmath.NewInt(tbl)
		a.Active = !r.Chance(3)
		a.FixedFee = sdkmath.NewInt(c.Pick(r, []int64{0, 1, 10}))
		mn := c.Pick(r, []int64{1, 1, 5, 20})
		a.MinSwapAmount = sdkmath.NewInt(mn)
		a.MaxSwapAmount = sdkmath.NewInt(c.Pick(r, []int64{mn, mn + 30, 400, 2000, 1000000}))
		a.MinBlockLock = uint64(r.Range(1, 3))
		a.MaxBlockLock = a.MinBlockLock + uint64(r.Range(0, 4))
		if i == 1 && r.Chance(40) { // the same deputy for both assets
			a.DeputyAddress = p.AssetParams[0].DeputyAddress
		}
	}
	if r.Chance(60) { // both assets time-limited, different periods, several blocks per period
		per := c.Pick(r, [][2]int64{{3600e9, 60e9}, {60e9, 10e9}, {3600e9, 10e9}, {60e9, 3600e9}, {600e9, 60e9}})
		for i := range p.AssetParams {
			a := &p.AssetParams[i]
			a.SupplyLimit.TimeLimited = true
			a.SupplyLimit.TimePeriod = time.Duration(per[i%2])
			if a.SupplyLimit.Limit.IsZero() {
				a.SupplyLimit.Limit = sdkmath.NewInt(1000)
			}
			a.SupplyLimit.TimeBasedLimit = sdkmath.NewInt(c.Pick(r, []int64{i64(a.SupplyLimit.Limit) / 10, i64(a.SupplyLimit.Limit) / 4, i64(a.SupplyLimit.Limit) / 2}))
			a.Active = true
		}
	}
	kapp.SetParams(w.tApp, ctx, "bep3", &p, func() { k.SetParams(ctx, p) })
}

type opDesc struct {
	kind   string
	args   string
	hashes string
	sig    string
	run    func(cx sdk.Context) error
	after  func(ok bool)
}

func (w *world) assetOf(o obs, d int) (types.AssetParam, types.AssetSupply) {
	for _, a := range o.assets {
		if denomIdx(a.Denom) == d {
			return a, o.supplies[d]
		}
	}
	panic("harness: asset missing")
}

func (w *world) genCreate(r *c.Rng, st *seqState, o obs) *opDesc {
	k := w.tApp.GetBep3Keeper()
	d := r.Intn(nAssets)
	a, sup := w.assetOf(o, d)
	dep := w.partyIdx(a.DeputyAddress)
	incoming := r.Chance(45)
	users := []int{3, 4, 5}
	mn, mx, fee := i64(a.MinSwapAmount), i64(a.MaxSwapAmount), i64(a.FixedFee)
	// outgoing swaps need a user holding the pegged asset (obtained only through claimed incoming swaps)
	rich, richBal := c.Pick(r, users), int64(-1)
	for _, u := range users {
		if u == dep {
			continue
		}
		if b, _ := strconv.ParseInt(o.bal[u][d], 10, 64); b > richBal && (r.Chance(80) || richBal < 0) {
			rich, richBal = u, b
		}
	}
	if !incoming && richBal < fee+mn+1 && r.Chance(85) {
		incoming = true
	}
	var sender, recipient int
	if incoming {
		sender, recipient = dep, c.Pick(r, users)
	} else {
		sender, recipient = rich, dep
	}
	cur, inc, outg, tl := i64(sup.CurrentSupply.Amount), i64(sup.IncomingSupply.Amount), i64(sup.OutgoingSupply.Amount), i64(sup.TimeLimitedCurrentSupply.Amount)
	var amt int64
	var span uint64
	if incoming {
		room := i64(a.SupplyLimit.Limit) - cur - inc
		tlroom := i64(a.SupplyLimit.TimeBasedLimit) - tl - inc
		hi := mx
		if room < hi {
			hi = room
		}
		cands := []int64{mn - 1, mn, mn + 1, mx - 1, mx, mx + 1, room - 1, room, room + 1, tlroom - 1, tlroom, tlroom + 1}
		if a.SupplyLimit.TimeLimited && tlroom < hi {
			hi = tlroom
		}
		for i := 0; i < 18; i++ {
			cands = append(cands, r.Range(mn, maxI(hi, mn)), r.Range(mn, maxI(hi/4, mn)))
		}
		amt = pickAmt(r, cands)
		span = uint64(c.Pick(r, []int64{1, 1, 2, 2, 3, 4, 6, 9}))
		if r.Chance(2) {
			span = math.MaxUint64 // uint64 wrap of the expire height (no range check for incoming swaps)
		}
	} else {
		bal, _ := strconv.ParseInt(o.bal[sender][d], 10, 64)
		avail := cur - outg
		hi := minI(minI(bal, avail), mx)
		cands := []int64{fee + mn, fee + mn + 1, bal - 1, bal, bal + 1, avail - 1, avail, avail + 1, mx, mx + 1}
		for i := 0; i < 14; i++ {
			cands = append(cands, r.Range(fee+mn+1, maxI(hi, fee+mn+1)))
		}
		amt = pickAmt(r, cands)
		span = uint64(r.Range(int64(a.MinBlockLock), int64(a.MaxBlockLock)))
		switch r.Intn(12) {
		case 0:
			span = a.MinBlockLock - 1
		case 1:
			span = a.MaxBlockLock + 1
		case 2:
			span = a.MinBlockLock
		case 3:
			span = a.MaxBlockLock
		}
	}
	now := time.Unix(0, o.timeNs).UTC()
	ts := now.Unix()
	switch r.Intn(16) {
	case 0:
		ts = now.Add(-15*time.Minute).Unix() - 1
	case 1:
		ts = now.Add(-15 * time.Minute).Unix()
	case 2:
		ts = now.Add(30*time.Minute).Unix() - 1
	case 3:
		ts = now.Add(30 * time.Minute).Unix()
	case 4:
		ts += r.Range(-600, 1200)
	}
	other := c.Pick(r, otherPool)
	secret := randBytes(r, 32)
	hash := types.CalculateRandomHash(secret, ts)
	coins := sdk.NewCoins(sdk.NewInt64Coin(denoms[d], amt))
	dcoins := [][2]int64{{int64(d), amt}}
	variant := "plain"
	// the smaller malformed stream
	switch r.Intn(40) {
	case 0: // recipient is a module account
		recipient, variant = 6, "macc-recipient"
	case 1: // deputy both sender and recipient
		sender, recipient, variant = dep, dep, "deputy-both"
	case 2: // neither is the deputy
		sender, recipient, variant = 3, 4, "no-deputy"
		if dep == 3 || dep == 4 {
			sender, recipient = 4, 5
		}
	case 3: // not a bep3 asset
		coins = sdk.NewCoins(sdk.NewInt64Coin("usdx", amt))
		dcoins = [][2]int64{{2, amt}}
		variant = "unsupported-denom"
	case 4: // two coins
		coins = sdk.NewCoins(sdk.NewInt64Coin("bnb", amt), sdk.NewInt64Coin("btcb", amt+1))
		dcoins = [][2]int64{{0, amt}, {1, amt + 1}}
		variant = "two-coins"
	case 5, 6: // duplicate of an existing swap (possibly with different letter case of the other-chain sender)
		if len(st.created) > 0 {
			m := c.Pick(r, st.created)
			hash, ts, sender, other, secret = m.hash, m.ts, m.sender, m.other, m.secret
			if r.Bool() {
				other = strings.ToUpper(other)
			}
			if sender == dep {
				recipient = c.Pick(r, users)
			} else {
				recipient = dep
			}
			variant = "duplicate"
		}
	case 8: // a user swapping with itself
		sender, recipient, variant = 3, 3, "self"
	case 7: // the other asset's deputy (or a user) acting as deputy of this asset
		sender, variant = 1+(dep%2), "other-deputy"
		recipient = 3
	}
	msg := types.NewMsgCreateAtomicSwap(w.parties[sender].String(), w.parties[recipient].String(), "bnb1recipient", other, hash, ts, coins, span)
	if err := msg.ValidateBasic(); err != nil {
		return nil // not reachable through a transaction
	}
	id := types.CalculateSwapID(hash, w.parties[sender], other)
	hIdx, oIdx, idIdx := st.hashes.of(hash), st.others.of([]byte(strings.ToLower(other))), st.ids.of(id)
	args := []string{strconv.Itoa(hIdx), strconv.FormatInt(ts, 10), strconv.FormatUint(span, 10), strconv.Itoa(sender), strconv.Itoa(recipient),
		strconv.Itoa(oIdx), strconv.Itoa(len(dcoins))}
	for _, dc := range dcoins {
		args = append(args, strconv.FormatInt(dc[0], 10), strconv.FormatInt(dc[1], 10))
	}
	dir := "out"
	if sender == dep {
		dir = "in"
	}
	sd, so, sec := sender, other, secret
	return &opDesc{
		kind: "create", args: strings.Join(args, ","),
		hashes: fmt.Sprintf("%d,%d,%d,%d|-", hIdx, sender, oIdx, idIdx),
		sig:    "create|" + dir + "|" + variant,
		run: func(cx sdk.Context) error {
			return k.CreateAtomicSwap(cx, hash, ts, span, w.parties[sender], w.parties[recipient], other, "bnb1recipient", coins, true)
		},
		after: func(ok bool) {
			if ok {
				st.created = append(st.created, made{id: id, secret: sec, hash: hash, ts: ts, sender: sd, other: so})
				st.cdep[string(id)] = dep
			}
		},
	}
}

func maxI(a, b int64) int64 {
	if a > b {
		return a
	}
	return b
}
func minI(a, b int64) int64 {
	if a < b {
		return a
	}
	return b
}

// pickSwap prefers swaps with the wanted status; returns nil when there is none at all
func pickSwap(r *c.Rng, o obs, want int) *swapObs {
	if len(o.swaps) == 0 {
		return nil
	}
	var pref []int
	for i, s := range o.swaps {
		if s.status == want {
			pref = append(pref, i)
		}
	}
	if len(pref) > 0 && r.Chance(80) {
		return &o.swaps[c.Pick(r, pref)]
	}
	// otherwise any swap, completed ones less often
	for try := 0; try < 3; try++ {
		s := &o.swaps[r.Intn(len(o.swaps))]
		if s.status != int(types.SWAP_STATUS_COMPLETED) || r.Chance(30) {
			return s
		}
	}
	return &o.swaps[r.Intn(len(o.swaps))]
}

func (st *seqState) secretOf(id []byte) []byte {
	for _, m := range st.created {
		if bytes.Equal(m.id, id) {
			return m.secret
		}
	}
	return nil
}

func (w *world) genClaim(r *c.Rng, st *seqState, o obs) *opDesc {
	k := w.tApp.GetBep3Keeper()
	from := r.Intn(6)
	target := pickSwap(r, o, int(types.SWAP_STATUS_OPEN))
	forced := false
	if st.pendingClaim != nil {
		for i := range o.swaps {
			if bytes.Equal(o.swaps[i].rawID, st.pendingClaim) {
				target, forced = &o.swaps[i], true
			}
		}
		st.pendingClaim = nil
	}
	var id, rn []byte
	variant := "right"
	if forced {
		id, rn, variant = target.rawID, st.secretOf(target.rawID), st.pendingTag
	} else if target == nil || r.Chance(6) {
		id, rn, variant, target = randBytes(r, 32), randBytes(r, 32), "unknown-id", nil
	} else {
		id = target.rawID
		rn = st.secretOf(id)
		if rn == nil {
			panic("harness: swap without a recorded secret")
		}
		switch r.Intn(10) {
		case 0:
			rn, variant = randBytes(r, 32), "wrong-random"
		case 1:
			if len(st.created) > 1 {
				rn, variant = c.Pick(r, st.created).secret, "other-swaps-secret"
				if bytes.Equal(rn, st.secretOf(id)) {
					variant = "right"
				}
			}
		case 2:
			rn = append([]byte{}, rn...)
			rn[31] ^= 1
			variant = "one-bit-off"
		}
	}
	hashes := "-|-"
	if target != nil {
		hsub := types.CalculateRandomHash(rn, target.rec.Timestamp)
		idsub := types.CalculateSwapID(hsub, target.rec.Sender, target.rec.SenderOtherChain)
		hashes = fmt.Sprintf("%d,%d,%d,%d|%d,%d,%d", st.hashes.of(hsub), target.sender, target.other, st.ids.of(idsub),
			st.secrets.of(rn), target.rec.Timestamp, st.hashes.of(hsub))
	}
	stTag := "none"
	if target != nil {
		stTag = fmt.Sprintf("st%d-dir%d", target.status, target.dir)
	}
	var after func(ok bool)
	if target != nil && target.dir == int(types.SWAP_DIRECTION_INCOMING) {
		a, _ := w.assetOf(o, target.denom)
		amt, _ := strconv.ParseInt(target.amt, 10, 64)
		dn := target.denom
		if a.SupplyLimit.TimeLimited {
			after = func(ok bool) {
				if ok {
					st.shWindow[dn] += amt
				}
			}
		}
	}
	return &opDesc{
		kind: "claim", args: fmt.Sprintf("%d,%d,%d", from, st.ids.of(id), st.secrets.of(rn)), hashes: hashes,
		sig: "claim|" + variant + "|" + stTag, after: after,
		run: func(cx sdk.Context) error { return k.ClaimAtomicSwap(cx, w.parties[from], id, rn) },
	}
}

func (w *world) genRefund(r *c.Rng, st *seqState, o obs) *opDesc {
	k := w.tApp.GetBep3Keeper()
	from := r.Intn(6)
	target := pickSwap(r, o, int(types.SWAP_STATUS_EXPIRED))
	var id []byte
	stTag := "none"
	if target == nil || r.Chance(6) {
		id = randBytes(r, 32)
	} else {
		id = target.rawID
		stTag = fmt.Sprintf("st%d-dir%d", target.status, target.dir)
	}
	return &opDesc{
		kind: "refund", args: fmt.Sprintf("%d,%d", from, st.ids.of(id)), hashes: "-|-", sig: "refund|" + stTag,
		run: func(cx sdk.Context) error { return k.RefundAtomicSwap(cx, w.parties[from], id) },
	}
}

// genBegin chooses the next block: usually +1, otherwise exactly onto / around the next expiry, the next
// deletion height, and the end of a time-limited period.
func (w *world) genBegin(r *c.Rng, o obs) (dh int64, dt int64, tag string) {
	dh, tag = 1, "next"
	h := uint64(o.height)
	var nextExp, nextDel uint64
	for _, e := range o.byBlock {
		if e[0] > h && (nextExp == 0 || e[0] < nextExp) {
			nextExp = e[0]
		}
	}
	for _, e := range o.longterm {
		if e[0] > h && (nextDel == 0 || e[0] < nextDel) {
			nextDel = e[0]
		}
	}
	switch r.Intn(20) {
	case 0, 1:
		if nextExp > 0 && nextExp-h < 1<<40 {
			dh, tag = int64(nextExp-h), "onto-expiry"
		}
	case 2:
		if nextExp > 0 && nextExp-h > 1 && nextExp-h < 1<<40 {
			dh, tag = int64(nextExp-h)-1, "before-expiry"
		}
	case 3:
		if nextExp > 0 && nextExp-h < 1<<40 {
			dh, tag = int64(nextExp-h)+1, "past-expiry"
		}
	case 4:
		if nextDel > 0 {
			dh, tag = int64(nextDel-h), "onto-horizon"
		}
	case 5:
		if nextDel > 0 && nextDel-h > 1 {
			dh, tag = int64(nextDel-h)-1, "before-horizon"
		}
	case 6:
		dh, tag = int64(types.DefaultLongtermStorageDuration), "horizon-jump"
	case 7:
		dh, tag = r.Range(2, 5), "skip"
	}
	dt = r.Range(1, 8)*1e9 + c.Pick(r, []int64{0, 0, 1, 500000000, 999999999})
	if r.Chance(35) { // around the end of a time-limited period
		var ends []int64
		for i, a := range o.assets {
			if a.SupplyLimit.TimeLimited {
				ends = append(ends, int64(a.SupplyLimit.TimePeriod)-int64(o.supplies[i].TimeElapsed)-(o.timeNs-o.prevNs))
			}
		}
		if len(ends) > 0 {
			// time elapsed is measured from the previous block time; previous == current after a begin block
			e := c.Pick(r, ends) + r.Range(-1, 1)
			if e > 0 {
				dt, tag = e, tag+"+period-edge"
			}
		}
	}
	return
}

func (w *world) genSetLimit(r *c.Rng, st *seqState, o obs) *opDesc {
	k := w.tApp.GetBep3Keeper()
	d := r.Intn(nAssets)
	a, sup := w.assetOf(o, d)
	cur, inc, tl := i64(sup.CurrentSupply.Amount), i64(sup.IncomingSupply.Amount), i64(sup.TimeLimitedCurrentSupply.Amount)
	old := i64(a.SupplyLimit.Limit)
	lims := []int64{cur + inc - 1, cur + inc, cur + inc + 1, cur, cur - 1, old * 2, old + 100, old / 2, 0}
	tbls := []int64{-1, -2, tl + inc, tl + inc - 1, tl, 0} // -1: the new limit, -2: half of it
	// the claim-time checks compare current (+ amount) and time-limited current (+ amount) of one open
	// incoming swap with the limits in force: put the new limits exactly on and just below those sums
	for _, sw := range o.swaps {
		if sw.denom == d && sw.dir == int(types.SWAP_DIRECTION_INCOMING) && sw.status == int(types.SWAP_STATUS_OPEN) {
			amt, _ := strconv.ParseInt(sw.amt, 10, 64)
			lims = append(lims, cur+amt, cur+amt-1)
			tbls = append(tbls, tl+amt, tl+amt-1)
		}
	}
	limit := c.Pick(r, lims)
	if limit < 0 {
		limit = 0
	}
	tbl := c.Pick(r, tbls)
	if tbl == -1 {
		tbl = limit
	} else if tbl == -2 {
		tbl = limit / 2
	}
	if tbl < 0 {
		tbl = 0
	}
	if tbl > limit {
		tbl = limit
	}
	a.SupplyLimit.Limit = sdkmath.NewInt(limit)
	a.SupplyLimit.TimeBasedLimit = sdkmath.NewInt(tbl)
	if r.Chance(40) {
		a.SupplyLimit.TimeLimited = !a.SupplyLimit.TimeLimited
	}
	a.SupplyLimit.TimePeriod = time.Duration(c.Pick(r, []int64{10e9, 60e9, 3600e9}))
	if r.Chance(25) {
		a.Active = !a.Active
	}
	// targeted: put one of the two claim-time checks of an open incoming swap exactly on / one below its
	// boundary and claim that swap next
	var open []swapObs
	for _, sw := range o.swaps {
		if sw.denom == d && sw.dir == int(types.SWAP_DIRECTION_INCOMING) && sw.status == int(types.SWAP_STATUS_OPEN) {
			open = append(open, sw)
		}
	}
	if len(open) > 0 && r.Chance(55) {
		sw := c.Pick(r, open)
		amt, _ := strconv.ParseInt(sw.amt, 10, 64)
		off := r.Range(-1, 0)
		if r.Bool() { // the supply-limit check of IncrementCurrentAssetSupply
			limit = cur + amt + off
			if tbl > limit {
				tbl = limit
			}
		} else { // its time-based check
			tbl = tl + amt + off
			if limit < tbl || limit < cur+amt {
				limit = maxI(tbl, cur+amt)
			}
			a.SupplyLimit.TimeLimited = true
		}
		if limit >= 0 && tbl >= 0 {
			a.SupplyLimit.Limit = sdkmath.NewInt(limit)
			a.SupplyLimit.TimeBasedLimit = sdkmath.NewInt(tbl)
			a.Active = true
			st.pendingClaim, st.pendingTag = sw.rawID, "right-after-setlimit"
		}
	}
	cmp := "raise"
	if limit < old {
		cmp = "lower"
	}
	return &opDesc{
		kind: "setlimit", hashes: "-|-", sig: "setlimit|" + cmp,
		args: fmt.Sprintf("%d,%d,%s,%d,%d,%s", d, limit, c.B(a.SupplyLimit.TimeLimited), int64(a.SupplyLimit.TimePeriod), tbl, c.B(a.Active)),
		run: func(cx sdk.Context) error {
			if err := (types.Params{AssetParams: types.AssetParams{a}}).Validate(); err != nil {
				return err
			}
			k.SetAsset(cx, a)
			return nil
		},
	}
}

func isLive(sw swapObs) bool { return sw.status != int(types.SWAP_STATUS_COMPLETED) }

// liveBothWays: the asset has a live incoming swap whose amount is covered by the live outgoing swaps of the
// same asset (the state in which a close that takes the wrong direction does not simply fail)
func liveBothWays(o obs, d int) (in, out bool, covered bool) {
	var outSum, minIn int64 = 0, -1
	for _, sw := range o.swaps {
		if sw.denom != d || !isLive(sw) {
			continue
		}
		amt, _ := strconv.ParseInt(sw.amt, 10, 64)
		if sw.dir == int(types.SWAP_DIRECTION_INCOMING) {
			in = true
			if minIn < 0 || amt < minIn {
				minIn = amt
			}
		} else {
			out = true
			outSum += amt
		}
	}
	return in, out, in && out && minIn <= outSum
}

// genSetDeputy: governance rotates the deputy address of one asset (to the other deputy party or to a plain
// user, preferably while swaps of the asset are live in both directions); the swaps that were live at the
// rotation are queued and closed afterwards (claim / expire + refund) by the targeted follow-ups in seq.
func (w *world) genSetDeputy(r *c.Rng, st *seqState, o obs) *opDesc {
	k := w.tApp.GetBep3Keeper()
	d := r.Intn(nAssets)
	best := -1
	for i := 0; i < nAssets; i++ {
		in, out, cov := liveBothWays(o, i)
		score := 0
		if in || out {
			score = 1
		}
		if in && out {
			score = 2
		}
		if cov {
			score = 3
		}
		if score > best || (score == best && r.Bool()) {
			best, d = score, i
		}
	}
	if r.Chance(15) {
		d = r.Intn(nAssets)
	}
	a, _ := w.assetOf(o, d)
	old := w.partyIdx(a.DeputyAddress)
	var cands []int
	for _, p := range []int{1, 2, 1, 2, 3, 4, 5} {
		if p != old {
			cands = append(cands, p)
		}
	}
	// a user with a live outgoing swap of this asset becomes the deputy: its own swaps would read as incoming
	for _, sw := range o.swaps {
		if sw.denom == d && isLive(sw) && sw.dir == int(types.SWAP_DIRECTION_OUTGOING) && sw.sender != old && sw.sender >= 1 && sw.sender <= 5 {
			cands = append(cands, sw.sender)
		}
	}
	nd := c.Pick(r, cands)
	variant := "to-user"
	if nd == 1 || nd == 2 {
		variant = "to-deputy-party"
	}
	var live [][]byte
	nIn, nOut := 0, 0
	for _, sw := range o.swaps {
		if sw.denom == d && isLive(sw) {
			live = append(live, sw.rawID)
			if sw.dir == int(types.SWAP_DIRECTION_INCOMING) {
				nIn++
			} else {
				nOut++
			}
		}
	}
	for i := len(live) - 1; i > 0; i-- { // shuffled: the order of the follow-up closes varies
		j := r.Intn(i + 1)
		live[i], live[j] = live[j], live[i]
	}
	argDep := old
	if nd >= 0 {
		argDep = nd
	}
	return &opDesc{
		kind: "setdeputy", hashes: "-|-", args: fmt.Sprintf("%d,%d", d, argDep),
		sig:  fmt.Sprintf("setdeputy|%s|in=%v|out=%v", variant, nIn > 0, nOut > 0),
		run: func(cx sdk.Context) error {
			p := k.GetParams(cx)
			found := false
			for i := range p.AssetParams {
				if p.AssetParams[i].Denom == denoms[d] {
					if nd >= 0 {
						p.AssetParams[i].DeputyAddress = w.parties[nd]
					} else {
						p.AssetParams[i].DeputyAddress = nil
					}
					found = true
				}
			}
			if !found {
				return fmt.Errorf("asset missing")
			}
			if err := p.Validate(); err != nil {
				return err
			}
			kapp.SetParams(w.tApp, cx, "bep3", &p, func() { k.SetParams(cx, p) })
			return nil
		},
		after: func(ok bool) {
			if ok {
				st.rotations++
				st.depQueue = append(live, st.depQueue...)
			}
		},
	}
}

func findRaw(o obs, id []byte) *swapObs {
	for i := range o.swaps {
		if bytes.Equal(o.swaps[i].rawID, id) {
			return &o.swaps[i]
		}
	}
	return nil
}

// cdepEnc: the deputy in force at the creation of each stored swap, from the harness's own record
func (st *seqState) cdepEnc(o obs) string {
	var xs []string
	for _, sw := range o.swaps {
		if dep, ok := st.cdep[string(sw.rawID)]; ok {
			xs = append(xs, fmt.Sprintf("%d,%d", sw.id, dep))
		}
	}
	if len(xs) == 0 {
		return "-"
	}
	return strings.Join(xs, ";")
}

// newBlock is the harness's own period clock: real time since its own last reset, per asset independently,
// reset when that accumulated time reaches the asset's period (or the asset is not time-limited).
func (st *seqState) newBlock(assets []types.AssetParam, nowNs int64) {
	if len(assets) == 0 {
		return
	}
	dt := nowNs - st.lastBlockNs
	for _, a := range assets {
		i := denomIdx(a.Denom)
		if a.SupplyLimit.TimeLimited && st.shElapsed[i]+dt < int64(a.SupplyLimit.TimePeriod) {
			st.shElapsed[i] += dt
		} else {
			st.shElapsed[i], st.shWindow[i] = 0, 0
		}
	}
	st.lastBlockNs = nowNs
}

func (st *seqState) shadow() string {
	var xs []string
	for i := 0; i < nAssets; i++ {
		xs = append(xs, fmt.Sprintf("%d,%d,%d", i, st.shElapsed[i], st.shWindow[i]))
	}
	return strings.Join(xs, ";")
}

func errClass(err error) string {
	space, code, _ := errorsmod.ABCIInfo(err, false)
	return fmt.Sprintf("%s:%d", space, code)
}

func (w *world) seq(out *c.Out, seq int, r *c.Rng) {
	ctx, _ := w.base.CacheContext()
	k := w.tApp.GetBep3Keeper()
	st := &seqState{limStable: true, lastBlockNs: ctx.BlockTime().UnixNano(), cdep: map[string]int{}, rotateSoon: r.Chance(25)}
	w.randomParams(r, ctx)
	cfg := fmt.Sprintf("0;%s;%s", bools(w.macc), bools(w.blocked))
	// wiring facts the theorems assume (hcfg): the bep3 module account is a keeper Macc and blocked in x/bank
	if !w.macc[0] || !w.blocked[0] {
		out.Violation("wiring: the bep3 module account is not in keeper.Maccs / not blocked in x/bank")
	}
	nops := c.Budget(70, 150)
	emit := func(d *opDesc, pre obs, cls kapp.Class, post obs, extra string) {
		out.Case(d.sig+"|"+string(cls)+extra, "c13.op", d.kind, cfg, w.enc(pre), d.args, d.hashes, c.B(st.limStable), st.shadow(), st.cdepEnc(post), "=>", string(cls), w.enc(post))
	}
	for i := 0; i < nops; i++ {
		pre := w.observe(ctx, st, out)
		var d *opDesc
		x := r.Intn(100)
		// targeted follow-ups of a deputy rotation: the swaps that were live at the rotation are claimed with the
		// right secret, or expired (a block exactly onto their expiry) and then refunded
		var forceDh int64
		if i > 0 && st.pendingClaim == nil && len(st.depQueue) > 0 && r.Chance(70) {
			sw := findRaw(pre, st.depQueue[0])
			switch {
			case sw == nil || !isLive(*sw):
				st.depQueue = st.depQueue[1:]
			case sw.status == int(types.SWAP_STATUS_EXPIRED):
				st.depQueue = st.depQueue[1:]
				id, from := sw.rawID, r.Intn(6)
				d = &opDesc{
					kind: "refund", args: fmt.Sprintf("%d,%d", from, st.ids.of(id)), hashes: "-|-",
					sig: fmt.Sprintf("refund|after-setdeputy|st%d-dir%d", sw.status, sw.dir),
					run: func(cx sdk.Context) error { return k.RefundAtomicSwap(cx, w.parties[from], id) },
				}
			default: // open
				far := sw.expire > uint64(pre.height) && sw.expire-uint64(pre.height) > 1<<20
				if r.Chance(55) || far {
					st.depQueue = st.depQueue[1:]
					st.pendingClaim, st.pendingTag = sw.rawID, "right-after-setdeputy"
				} else if sw.expire > uint64(pre.height) {
					forceDh = int64(sw.expire - uint64(pre.height))
				} else {
					forceDh = 1
				}
			}
		}
		if d == nil && forceDh == 0 && st.rotateSoon && st.rotations == 0 && st.pendingClaim == nil && i > 0 {
			for a := 0; a < nAssets && d == nil; a++ {
				if _, _, cov := liveBothWays(pre, a); cov {
					d = w.genSetDeputy(r, st, pre)
				}
			}
		}
		switch {
		case d != nil:
		case i == 0 || x < 22 || forceDh > 0: // a new block
			dh, dt, tag := w.genBegin(r, pre)
			if forceDh > 0 {
				dh, tag = forceDh, "onto-expiry-after-setdeputy"
			}
			nctx := ctx.WithBlockHeight(pre.height + dh).WithBlockTime(time.Unix(0, pre.timeNs+dt).UTC())
			st.newBlock(pre.assets, pre.timeNs+dt)
			panicked, msg := c.Recover(func() { bep3.BeginBlocker(nctx, k) })
			if panicked {
				out.Violation(fmt.Sprintf("seq=%d op=%d BeginBlocker panic: %s", seq, i, msg))
				return
			}
			ctx = nctx
			post := w.observe(ctx, st, out)
			exp, del := 0, len(pre.swaps)-len(post.swaps)
			for _, s := range post.swaps {
				if s.status == int(types.SWAP_STATUS_EXPIRED) {
					exp++
				}
			}
			for _, s := range pre.swaps {
				if s.status == int(types.SWAP_STATUS_EXPIRED) {
					exp--
				}
			}
			reset := 0
			for j := range post.supplies {
				if post.supplies[j].TimeElapsed == 0 && pre.assets[j].SupplyLimit.TimeLimited {
					reset++
				}
			}
			d = &opDesc{kind: "begin", args: fmt.Sprintf("%d,%d", dh, dt), hashes: "-|-",
				sig: fmt.Sprintf("begin|%s|exp=%v|del=%v|reset=%d", tag, exp > 0, del > 0, reset)}
			emit(d, pre, kapp.OK, post, "")
			continue
		case st.pendingClaim != nil:
			d = w.genClaim(r, st, pre)
		case x < 52 || (len(pre.swaps) == 0 && x < 95 && r.Chance(90)):
			d = w.genCreate(r, st, pre)
		case x < 78:
			d = w.genClaim(r, st, pre)
		case x < 93:
			d = w.genRefund(r, st, pre)
		case x < 97:
			d = w.genSetLimit(r, st, pre)
		default:
			d = w.genSetDeputy(r, st, pre)
		}
		if d == nil {
			out.Note("skipped:not-reachable")
			continue
		}
		cls, err := kapp.Exec(ctx, d.run)
		extra := ""
		if err != nil {
			extra = "|" + errClass(err)
			out.Note("err:" + errClass(err))
			if cls == kapp.Panic {
				out.Violation(fmt.Sprintf("seq=%d op=%d %s panicked: %v", seq, i, d.kind, err))
			}
		}
		if d.kind == "setlimit" && cls == kapp.OK {
			st.limStable = false
		}
		if d.after != nil {
			d.after(cls == kapp.OK)
		}
		post := w.observe(ctx, st, out)
		emit(d, pre, cls, post, extra)
	}
}

func bools(b []bool) string {
	s := make([]string, len(b))
	for i, v := range b {
		s[i] = c.B(v)
	}
	return strings.Join(s, ",")
}

func main() {
	app.SetSDKConfig() // bech32 prefixes must be set before any address is rendered into a genesis file
	out := c.NewOut(c.OutPath())
	defer out.Close()
	r := c.NewRng(c.Seed())
	n := c.Budget(600, 5000)
	kapp.RunSeqs(n, c.Workers(), r, mkWorld, func(w *world, seq int, r *c.Rng) { w.seq(out, seq, r) })
}
