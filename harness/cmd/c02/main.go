// c02: blocks always process; registered invariants hold (property C02).
//
// The history runner drives the REAL app block by block (signed txs; oracle price moves; block-time gaps
// 0.4 s … 30 days; cdp liquidation-interval boundaries). A begin/end-block panic is recovered per block and is
// a violation; after every EndBlock every route registered with the crisis keeper is evaluated on the
// block's state and a broken route is a violation. Directed scenarios replay the documented findings
// (F2 cdp debt split, F10 issuance seizure of locked coins, F12 kavadist zero mint). A separate tie runs
// the real `cdp.Keeper.AuctionCollateral` on random deposit sets and compares the per-depositor debt
// shares with the Lean transcription (and evaluates "shares never exceed the debt" on them).
package main

import (
	"fmt"
	"os"
	"sort"
	"strings"
	"sync"
	"time"

	sdkmath "cosmossdk.io/math"
	sdk "github.com/cosmos/cosmos-sdk/types"

	auctiontypes "github.com/kava-labs/kava/x/auction/types"
	cdptypes "github.com/kava-labs/kava/x/cdp/types"

	c "kavaverif/harness/common"
	"kavaverif/harness/history"
)

// panicTag gives a begin/end-block panic a recognisable name (known findings are matched on it).
func panicTag(msg string) string {
	switch {
	case strings.Contains(msg, "x/cdp") && (strings.Contains(msg, "is smaller than") || strings.Contains(msg, "insufficient funds")):
		return "cdp-auction-debt-split-rounding"
	case strings.Contains(msg, "x/issuance") && (strings.Contains(msg, "is smaller than") || strings.Contains(msg, "insufficient funds")):
		return "issuance-seize-locked-coins"
	case strings.Contains(msg, "x/kavadist") && strings.Contains(msg, "nil pointer"):
		return "kavadist-zero-mint-nil-amount"
	case strings.Contains(msg, "x/kavadist") && (strings.Contains(msg, "negative coins") || strings.Contains(msg, "is smaller than") || strings.Contains(msg, "insufficient funds")):
		return "kavadist-partner-rewards-exceed-mint"
	}
	// module of the innermost Kava frame, e.g. "x/hard"
	if k := strings.Index(msg, "panic at x/"); k >= 0 {
		rest := msg[k+len("panic at "):]
		if j := strings.IndexAny(rest, ".: "); j > 0 {
			parts := strings.Split(rest[:j], "/")
			if len(parts) >= 2 {
				return "unclassified-" + parts[0] + "-" + parts[1]
			}
		}
	}
	return "unclassified"
}

func short(s string, n int) string {
	s = strings.Join(strings.Fields(s), " ")
	if len(s) > n {
		return s[:n]
	}
	return s
}

func main() {
	out := c.NewOut(c.OutPath())
	defer out.Close()
	rng := c.NewRng(c.Seed())
	t0 := time.Now()

	debtSplitTie(out, rng.Fork(2000))

	cfg := history.DefaultConfig()
	cfgF10 := cfg
	cfgF10.RewardInAssetDenom = true
	cfgInfra := cfg
	cfgInfra.KavadistInfra = true
	cfgF11 := cfgInfra
	cfgF11.KavadistPartnerRps = 50_000_000
	cfg1 := cfg
	cfg1.LiquidationInterval = 1
	plans := []history.Plan{
		{Name: "F2-cdp-debt-split", Cfg: cfg1, Script: history.ScenarioF2()},
		{Name: "F10-issuance-locked-coins", Cfg: cfgF10, Script: history.ScenarioF10()},
		{Name: "F12-kavadist-sub-second", Cfg: cfgInfra, Script: history.ScenarioSubSecond()},
		{Name: "F11-kavadist-partner-rewards", Cfg: cfgF11, Script: history.ScenarioPartnerRewards()},
		{Name: "last-cdps-liquidated-39s", Cfg: cfg1, Script: history.ScenarioLastCdpsLiquidated(39 * time.Second)},
		{Name: "last-cdps-liquidated-1h", Cfg: cfg1, Script: history.ScenarioLastCdpsLiquidated(time.Hour + 13*time.Second)},
		{Name: "hard-multi-denom-liquidation", Cfg: cfg, Script: history.ScenarioHardMultiDenom(), Blocks: 20, MaxTxs: 5, PriceEvery: 5},
		{Name: "gov-tally-bkava", Cfg: cfg, Script: history.ScenarioGovTallyBkava(cfg.GovVotingPeriod), Blocks: 15, MaxTxs: 5, PriceEvery: 5},
		{Name: "committee-param-change", Cfg: cfg, Script: history.ScenarioCommitteeParamChange(), Blocks: 15, MaxTxs: 5, PriceEvery: 5},
		{Name: "bkava-validator-emptied", Cfg: cfg, Script: history.ScenarioBkavaValidatorEmptied()},
	}
	nRandom := c.Budget(14, 40)
	blocks := 150
	if c.Tier() == "thorough" {
		blocks = 400
	}
	for i := 0; i < nRandom; i++ {
		cf := cfg
		cf.LiquidationInterval = int64(1 + i%4)
		cf.KavadistInfra = i%4 == 3 // a quarter of the random histories run with infrastructure periods
		plans = append(plans, history.Plan{Name: fmt.Sprintf("random-%d", i), Cfg: cf, Blocks: blocks, MaxTxs: 8, PriceEvery: 4})
	}
	// cdp-only histories: few, mostly minimum-size positions, short gaps with accrual, and market crashes that
	// let one begin block liquidate the last CDPs of every collateral type
	nCdp := c.Budget(6, 40)
	for i := 0; i < nCdp; i++ {
		cf := cfg
		cf.LiquidationInterval = int64(1 + i%2)
		plans = append(plans, history.Plan{Name: fmt.Sprintf("cdp-crash-%d", i), Cfg: cf, Blocks: 60, MaxTxs: 3, PriceEvery: 6, CrashEvery: 9, Focus: "cdp"})
	}
	for i := range plans {
		plans[i].Seed = rng.Fork(uint64(i)).U64()
	}
	if only := os.Getenv("VERIF_ONLY_PLAN"); only != "" {
		var sel []history.Plan
		for _, p := range plans {
			if p.Name == only {
				sel = append(sel, p)
			}
		}
		plans = sel
	}
	var wg sync.WaitGroup
	sem := make(chan struct{}, c.Workers())
	for _, plan := range plans {
		plan := plan
		wg.Add(1)
		go func() {
			defer wg.Done()
			sem <- struct{}{}
			defer func() { <-sem }()
			runPlan(out, plan)
		}()
	}
	wg.Wait()
	out.NoteN("wall-seconds", int(time.Since(t0).Seconds()))
}

type blockObs struct {
	broken   []string
	auctions int
	cdps     int
}

func runPlan(out *c.Out, plan history.Plan) {
	obs := map[int64]*blockObs{}
	var routesSeen int
	hooks := history.Hooks{
		AfterEndBlock: func(n *history.Node, ctx sdk.Context, height int64) {
			o := &blockObs{}
			obs[height] = o
			cctx, _ := ctx.CacheContext()
			ck := n.T.GetCrisisKeeper()
			routes := ck.Routes()
			routesSeen = len(routes)
			for _, r := range routes {
				func() {
					defer func() {
						if rec := recover(); rec != nil {
							o.broken = append(o.broken, r.FullRoute()+"!panic:"+short(fmt.Sprint(rec), 120))
						}
					}()
					if msg, broken := r.Invar(cctx); broken {
						o.broken = append(o.broken, r.FullRoute()+"!"+short(msg, 200))
					}
				}()
			}
			o.auctions = len(n.T.GetAuctionKeeper().GetAllAuctions(cctx))
			o.cdps = len(n.T.GetCDPKeeper().GetAllCdps(cctx))
		},
	}
	h := history.Produce(plan, hooks)
	defer h.Leader.Close()
	for s, n := range h.Stats {
		out.NoteN(s, n)
	}
	out.NoteN("blocks", len(h.Blocks))
	if strings.HasPrefix(plan.Name, "last-cdps-liquidated") && h.Stopped == "" {
		last := obs[int64(len(h.Blocks))]
		if last == nil || last.cdps != 0 {
			out.Violation("C02 scenario " + plan.Name + " did not liquidate all CDPs (generator or parameters drifted)")
		} else {
			out.Note("last-cdps-liquidated-without-panic")
		}
	}
	if plan.Name == "F2-cdp-debt-split" && h.Stopped == "" {
		// regression guard: the scenario is only meaningful if the block liquidation really took place
		last := obs[int64(len(h.Blocks))]
		if last == nil || last.cdps != 0 || last.auctions < 2 {
			out.Violation(fmt.Sprintf("C02 scenario F2 did not reach the liquidation: cdps=%v auctions=%v (generator or parameters drifted)", last != nil && last.cdps != 0, last != nil && last.auctions >= 2))
		} else {
			out.Note("F2-liquidated-without-panic")
		}
	}
	out.NoteN("invariant-routes-per-block", routesSeen)
	class := plan.Name
	if strings.HasPrefix(class, "random-") {
		class = "random"
	}
	if strings.HasPrefix(class, "cdp-crash-") {
		class = "cdp-crash"
	}
	reported := map[string]bool{}
	for hi, res := range h.Results {
		height := res.Height
		o := obs[height]
		tag, brokenS := "-", "-"
		if res.Panic != "" {
			tag = panicTag(res.Panic)
			phase := strings.SplitN(res.Panic, " ", 2)[0]
			if phase == "BeginBlock" || phase == "EndBlock" || phase == "Commit" {
				desc := ""
				if hi > 0 {
					desc = strings.Join(h.Blocks[hi-1].Desc, " ; ")
				}
				out.Violation(fmt.Sprintf("C02 %s panic tag=%s plan=%s seed=%d height=%d time=%s: %s | txs of the previous block: [%s]",
					phase, tag, plan.Name, plan.Seed, height, h.Blocks[hi].Time.Format(time.RFC3339Nano), short(res.Panic, 500), short(desc, 500)))
			} else {
				// a panic escaping DeliverTx would be a baseapp defect; report it as well
				out.Violation(fmt.Sprintf("C02 %s panic tag=%s plan=%s seed=%d height=%d: %s", phase, tag, plan.Name, plan.Seed, height, short(res.Panic, 500)))
			}
		}
		if o != nil && len(o.broken) > 0 {
			sort.Strings(o.broken)
			var names []string
			for _, b := range o.broken {
				name := strings.SplitN(b, "!", 2)[0]
				names = append(names, name)
				if !reported[name] {
					reported[name] = true
					out.Violation(fmt.Sprintf("C02 invariant broken route=%s plan=%s seed=%d height=%d: %s | txs: [%s]",
						name, plan.Name, plan.Seed, height, short(b, 300), short(strings.Join(h.Blocks[hi].Desc, " ; "), 500)))
				}
			}
			brokenS = strings.Join(names, ",")
		}
		ntx := len(res.Txs)
		bucket := "0"
		switch {
		case ntx > 6:
			bucket = "7+"
		case ntx > 2:
			bucket = "3-6"
		case ntx > 0:
			bucket = "1-2"
		}
		gap := "first"
		if hi > 0 {
			dt := h.Blocks[hi].Time.Sub(h.Blocks[hi-1].Time)
			switch {
			case dt < time.Second:
				gap = "<1s"
			case dt <= time.Minute:
				gap = "<=1m"
			case dt <= 24*time.Hour:
				gap = "<=1d"
			default:
				gap = ">1d"
			}
		}
		hasAuctions, hasCdps := false, false
		if o != nil {
			hasAuctions, hasCdps = o.auctions > 0, o.cdps > 0
		}
		sig := fmt.Sprintf("%s|txs=%s|gap=%s|liqBoundary=%v|auctions=%v|cdps=%v|panic=%s|broken=%v", class, bucket, gap,
			height%plan.Cfg.LiquidationInterval == 0, hasAuctions, hasCdps, tag, brokenS != "-")
		out.Case(sig, "c02.block", plan.Name, fmt.Sprint(height), fmt.Sprint(ntx), tag, brokenS, short(res.Panic, 300))
	}
}

// debtSplitTie runs the real AuctionCollateral on random deposit sets (liquidator pre-funded so that the
// call itself cannot fail) and reports the per-depositor corresponding-debt totals of the auctions created.
func debtSplitTie(out *c.Out, r *c.Rng) {
	p := history.MakeParties()
	cfg := history.DefaultConfig()
	n := history.NewMemNode("tie")
	defer n.Close()
	if err := n.InitChain(history.BuildGenesis(p, cfg), history.GenTime, 1); err != nil {
		out.Violation("C02 tie: genesis rejected: " + err.Error())
		return
	}
	if _, pm := n.Begin(p, 1, history.GenTime.Add(6*time.Second)); pm != "" {
		out.Violation("C02 tie: " + pm)
		return
	}
	base := n.Ctx(p.Header(1, history.GenTime.Add(6*time.Second)))
	ck := n.T.GetCDPKeeper()
	bk := n.T.GetBankKeeper()
	ak := n.T.GetAuctionKeeper()
	cases := c.Budget(1500, 40000)
	for i := 0; i < cases; i++ {
		ctx, _ := base.CacheContext()
		nd := 1 + r.Intn(4)
		var deps cdptypes.Deposits
		var depAmts []string
		total := sdk.ZeroInt()
		baseAmt := sdkmath.NewInt(r.Range(1, 200_000_000_000))
		for k := 0; k < nd; k++ {
			amt := baseAmt
			switch r.Intn(4) {
			case 0: // equal deposits
			case 1:
				amt = baseAmt.MulRaw(r.Range(1, 5))
			default:
				amt = sdkmath.NewInt(r.Range(1, 300_000_000_000))
			}
			deps = append(deps, cdptypes.NewDeposit(uint64(i+1), p.Users[k].Addr, sdk.NewCoin("bnb", amt)))
			depAmts = append(depAmts, amt.String())
			total = total.Add(amt)
		}
		debt := sdkmath.NewInt(r.Range(1, 50_000_000_000))
		switch r.Intn(5) {
		case 0:
			debt = sdkmath.NewInt(10_000_000 + r.Range(0, 9)) // just above the debt floor, odd and even
		case 1:
			debt = debt.MulRaw(2).AddRaw(1)
		}
		fund := sdk.NewCoins(sdk.NewCoin("bnb", total), sdk.NewCoin("debt", debt.AddRaw(int64(nd)+2)))
		if err := bk.MintCoins(ctx, cdptypes.LiquidatorMacc, fund); err != nil {
			out.Violation("C02 tie: cannot fund liquidator: " + err.Error())
			return
		}
		before, _ := ak.GetNextAuctionID(ctx)
		var callErr error
		panicked, pmsg := c.Recover(func() { callErr = ck.AuctionCollateral(ctx, deps, "bnb-a", debt, "usdx") })
		cls := "ok"
		if panicked {
			cls = "panic"
			out.Note("tie-panic:" + short(pmsg, 80))
		} else if callErr != nil {
			cls = "err"
			out.Note("tie-err:" + short(callErr.Error(), 80))
		}
		shares := make([]sdkmath.Int, nd)
		for k := range shares {
			shares[k] = sdk.ZeroInt()
		}
		nAuc := 0
		for _, a := range ak.GetAllAuctions(ctx) {
			if a.GetID() < before {
				continue
			}
			if ca, ok := a.(*auctiontypes.CollateralAuction); ok && len(ca.LotReturns.Addresses) == 1 {
				nAuc++
				for k := 0; k < nd; k++ {
					if ca.LotReturns.Addresses[0].Equals(p.Users[k].Addr) {
						shares[k] = shares[k].Add(ca.CorrespondingDebt.Amount)
					}
				}
			}
		}
		var ss []string
		sum := sdk.ZeroInt()
		for _, s := range shares {
			ss = append(ss, s.String())
			sum = sum.Add(s)
		}
		rel := "eq"
		if sum.GT(debt) {
			rel = "over"
		} else if sum.LT(debt) {
			rel = "under"
		}
		out.Case(fmt.Sprintf("n=%d|%s|sum=%s|multiAuction=%v", nd, cls, rel, nAuc > nd), "c02.debtsplit",
			strings.Join(depAmts, ","), debt.String(), "=>", cls, strings.Join(ss, ","))
	}
}
