package main

// Part (a): the real permission checker (AllowedParamsChange.allowsParamChange through the verif hook,
// Committee.HasPermissionsFor) and the real params proposal handler on real subspaces, fed mutated documents.

import (
	"fmt"
	"reflect"
	"strings"
	"time"

	sdkmath "cosmossdk.io/math"
	sdk "github.com/cosmos/cosmos-sdk/types"
	govv1beta1 "github.com/cosmos/cosmos-sdk/x/gov/types/v1beta1"
	"github.com/cosmos/cosmos-sdk/x/params"
	paramsproposal "github.com/cosmos/cosmos-sdk/x/params/types/proposal"
	upgradetypes "github.com/cosmos/cosmos-sdk/x/upgrade/types"

	"github.com/kava-labs/kava/app"
	bep3types "github.com/kava-labs/kava/x/bep3/types"
	cdptypes "github.com/kava-labs/kava/x/cdp/types"
	ctypes "github.com/kava-labs/kava/x/committee/types"
	communitytypes "github.com/kava-labs/kava/x/community/types"
	hardtypes "github.com/kava-labs/kava/x/hard/types"
	pricefeedtypes "github.com/kava-labs/kava/x/pricefeed/types"

	c "kavaverif/harness/common"
	"kavaverif/harness/kapp"
)

type field struct {
	name string
	omit bool
}

// paramSpec: one real parameter the harness works on.
type paramSpec struct {
	subspace, key string
	top           string // S struct, M array of structs, O other
	fields        []field
	idKeys        []string // keys usable as requirement keys
	initial       string   // JSON text set through the params handler at world creation
	realistic     [][]string // allow-lists seen in the repository's fixtures
}

// schemaOf reads the JSON names and omitempty flags of a struct type — what go-amino decodes by.
func schemaOf(t reflect.Type) []field {
	var out []field
	for i := 0; i < t.NumField(); i++ {
		f := t.Field(i)
		if f.PkgPath != "" {
			continue
		}
		tag := f.Tag.Get("json")
		if tag == "-" {
			continue
		}
		parts := strings.Split(tag, ",")
		name := parts[0]
		if name == "" {
			name = f.Name
		}
		omit := false
		for _, p := range parts[1:] {
			if p == "omitempty" {
				omit = true
			}
		}
		out = append(out, field{name, omit})
	}
	return out
}

const deputy = "kava1wuzhkn2f8nqe2aprnwt3jkjvvr9m7dlkpumtz2"
const oracle2 = "kava1ffv7nhd3z6sych2qpqkk03ec6hzkmufy0r2s4c"

func specs() []*paramSpec {
	return []*paramSpec{
		{subspace: "cdp", key: "CollateralParams", top: "M", fields: schemaOf(reflect.TypeOf(cdptypes.CollateralParam{})),
			idKeys: []string{"type", "denom", "spot_market_id"},
			realistic: [][]string{{"conversion_factor", "liquidation_ratio", "spot_market_id"}, {"stability_fee", "debt_limit", "auction_size", "keeper_reward_percentage"}, {"debt_limit"}},
			initial: `[{"denom":"bnb","type":"bnb-a","liquidation_ratio":"2.000000000000000000","debt_limit":{"denom":"usdx","amount":"100"},"stability_fee":"1.000000001547125958","auction_size":"100","liquidation_penalty":"0.050000000000000000","spot_market_id":"bnb:usd","liquidation_market_id":"bnb:usd","keeper_reward_percentage":"0.000000000000000000","check_collateralization_index_count":"0","conversion_factor":"6"},` +
				`{"denom":"btc","type":"btc-a","liquidation_ratio":"1.500000000000000000","debt_limit":{"denom":"usdx","amount":"100"},"stability_fee":"1.000000000782997609","auction_size":"1000","liquidation_penalty":"0.100000000000000000","spot_market_id":"btc:usd","liquidation_market_id":"btc:usd","keeper_reward_percentage":"0.120000000000000000","check_collateralization_index_count":"1","conversion_factor":"8"},` +
				`{"denom":"bnb","type":"bnb-b","liquidation_ratio":"2.000000000000000000","debt_limit":{"denom":"usdx","amount":"100"},"stability_fee":"1.000000001547125958","auction_size":"100","liquidation_penalty":"0.050000000000000000","spot_market_id":"bnb:usd","liquidation_market_id":"bnb:usd","keeper_reward_percentage":"0.000000000000000000","check_collateralization_index_count":"0","conversion_factor":"6"}]`},
		{subspace: "cdp", key: "DebtParam", top: "S", fields: schemaOf(reflect.TypeOf(cdptypes.DebtParam{})),
			realistic: [][]string{{"denom", "debt_floor"}, {"denom", "reference_asset", "conversion_factor", "debt_floor"}, {"debt_floor"}},
			initial:   `{"denom":"usdx","reference_asset":"usd","conversion_factor":"6","debt_floor":"1000"}`},
		{subspace: "cdp", key: "GlobalDebtLimit", top: "S", fields: schemaOf(reflect.TypeOf(sdk.Coin{})),
			realistic: [][]string{{"amount"}},
			initial:   `{"denom":"usdx","amount":"1000000"}`},
		{subspace: "hard", key: "MoneyMarkets", top: "M", fields: schemaOf(reflect.TypeOf(hardtypes.MoneyMarket{})),
			idKeys: []string{"denom", "spot_market_id"},
			realistic: [][]string{{"borrow_limit", "interest_rate_model"}, {"reserve_factor", "keeper_reward_percentage"}},
			initial: `[{"denom":"bnb","borrow_limit":{"has_max_limit":true,"maximum_limit":"100000.000000000000000000","loan_to_value":"0.500000000000000000"},"spot_market_id":"bnb:usd","conversion_factor":"1000000","interest_rate_model":{"base_rate_apy":"0.050000000000000000","base_multiplier":"2.000000000000000000","kink":"0.800000000000000000","jump_multiplier":"10.000000000000000000"},"reserve_factor":"0.050000000000000000","keeper_reward_percentage":"0.050000000000000000"},` +
				`{"denom":"usdx","borrow_limit":{"has_max_limit":false,"maximum_limit":"0.000000000000000000","loan_to_value":"0.800000000000000000"},"spot_market_id":"usdx:usd","conversion_factor":"1000000","interest_rate_model":{"base_rate_apy":"0.050000000000000000","base_multiplier":"2.000000000000000000","kink":"0.800000000000000000","jump_multiplier":"10.000000000000000000"},"reserve_factor":"0.050000000000000000","keeper_reward_percentage":"0.050000000000000000"}]`},
		{subspace: "pricefeed", key: "Markets", top: "M", fields: schemaOf(reflect.TypeOf(pricefeedtypes.Market{})),
			idKeys: []string{"market_id", "base_asset", "quote_asset"},
			realistic: [][]string{{"oracles"}, {"oracles", "active"}},
			initial: `[{"market_id":"bnb:usd","base_asset":"bnb","quote_asset":"usd","oracles":["` + deputy + `"],"active":true},` +
				`{"market_id":"btc:usd","base_asset":"btc","quote_asset":"usd","oracles":["` + deputy + `","` + oracle2 + `"]}]`},
		{subspace: "bep3", key: "AssetParams", top: "M", fields: schemaOf(reflect.TypeOf(bep3types.AssetParam{})),
			idKeys: []string{"denom"},
			realistic: [][]string{{"supply_limit", "min_swap_amount", "max_swap_amount"}, {"fixed_fee", "min_block_lock", "max_block_lock"}, {"coin_id", "supply_limit"}},
			initial: `[{"denom":"bnb","coin_id":"714","supply_limit":{"limit":"350000000000000","time_limited":false,"time_period":"3600000000000","time_based_limit":"0"},"active":true,"deputy_address":"` + deputy + `","fixed_fee":"1000","min_swap_amount":"1","max_swap_amount":"1000000000000","min_block_lock":"220","max_block_lock":"270"},` +
				`{"denom":"inc","supply_limit":{"limit":"100000000000000","time_limited":true,"time_period":"86400000000000","time_based_limit":"50000000000"},"deputy_address":"` + deputy + `","fixed_fee":"1000","min_swap_amount":"1","max_swap_amount":"1000000000000","min_block_lock":"220","max_block_lock":"270"}]`},
		// parameters that are no JSON objects: sub-rules on them make the checker panic or refuse
		{subspace: "cdp", key: "SurplusThreshold", top: "O", initial: `"500000000000"`},
		{subspace: "savings", key: "SupportedDenoms", top: "O", initial: `["ukava","hard"]`},
		{subspace: "kavadist", key: "Active", top: "O", initial: `true`},
	}
}

type permWorld struct {
	tApp    app.TestApp
	ctx     sdk.Context
	specs   []*paramSpec
	handler govv1beta1.Handler
}

func mkPermWorld() *permWorld {
	tApp, ctx := kapp.NewApp()
	w := &permWorld{tApp: tApp, ctx: ctx, specs: specs(), handler: params.NewParamChangeProposalHandler(tApp.GetParamsKeeper())}
	for _, s := range w.specs {
		if cls, err := w.apply(s.subspace, s.key, s.initial, true); cls != kapp.OK {
			panic(fmt.Sprintf("c17: fixture %s/%s rejected: %v", s.subspace, s.key, err))
		}
	}
	return w
}

// apply runs the real params proposal handler (what gov and the committee router both call).
func (w *permWorld) apply(subspace, key, value string, commit bool) (kapp.Class, error) {
	prop := paramsproposal.NewParameterChangeProposal("t", "d", []paramsproposal.ParamChange{{Subspace: subspace, Key: key, Value: value}})
	if commit {
		return kapp.Exec(w.ctx, func(cx sdk.Context) error { return w.handler(cx, prop) })
	}
	cctx, _ := w.ctx.CacheContext()
	var err error
	cls := kapp.OK
	func() {
		defer func() {
			if r := recover(); r != nil {
				cls, err = kapp.Panic, fmt.Errorf("panic: %v", r)
			}
		}()
		if e := w.handler(cctx, prop); e != nil {
			cls, err = kapp.Err, e
		}
	}()
	return cls, err
}

// rawAfter runs the handler on a cache and returns the raw stored value afterwards.
func (w *permWorld) applyObserve(subspace, key, value string, commit bool) (kapp.Class, string) {
	prop := paramsproposal.NewParameterChangeProposal("t", "d", []paramsproposal.ParamChange{{Subspace: subspace, Key: key, Value: value}})
	cctx, write := w.ctx.CacheContext()
	cls := kapp.OK
	after := "-"
	func() {
		defer func() {
			if r := recover(); r != nil {
				cls = kapp.Panic
			}
		}()
		if e := w.handler(cctx, prop); e != nil {
			cls = kapp.Err
			return
		}
		ss, _ := w.tApp.GetParamsKeeper().GetSubspace(subspace)
		after = string(ss.GetRaw(cctx, []byte(key)))
	}()
	if cls == kapp.OK && commit {
		write()
	}
	return cls, after
}

func (w *permWorld) raw(subspace, key string) (string, bool) {
	ss, ok := w.tApp.GetParamsKeeper().GetSubspace(subspace)
	if !ok {
		return "", false
	}
	return string(ss.GetRaw(w.ctx, []byte(key))), true
}

func curField(raw string, found bool) string {
	if !found {
		return "-"
	}
	if raw == "" {
		return "e"
	}
	return encodeDoc(raw)
}

// ---------------------------------------------------------------- encoding of permissions

func hexList(xs []string) string {
	h := make([]string, len(xs))
	for i, x := range xs {
		h[i] = hx(x)
	}
	return strings.Join(h, ",")
}

func encAPC(a ctypes.AllowedParamsChange) string {
	reqs := make([]string, len(a.MultiSubparamsRequirements))
	for i, r := range a.MultiSubparamsRequirements {
		reqs[i] = hx(r.Key) + ":" + hx(r.Val) + ":" + hexList(r.AllowedSubparamAttrChanges)
	}
	return hx(a.Subspace) + "/" + hx(a.Key) + "/" + hexList(a.SingleSubparamAllowedAttrs) + "/" + strings.Join(reqs, "|")
}

func encSchema(fs []field) string {
	out := make([]string, len(fs))
	for i, f := range fs {
		out[i] = hx(f.name) + ":" + c.B(f.omit)
	}
	return strings.Join(out, ",")
}

// ---------------------------------------------------------------- generators

func subset(r *c.Rng, xs []string, p int) []string {
	var out []string
	for _, x := range xs {
		if r.Chance(p) {
			out = append(out, x)
		}
	}
	return out
}

func names(fs []field) []string {
	out := make([]string, len(fs))
	for i, f := range fs {
		out[i] = f.name
	}
	return out
}

// genAPC builds a permission rule for spec s from the current stored value.
func genAPC(r *c.Rng, s *paramSpec, cur *node) (ctypes.AllowedParamsChange, string) {
	a := ctypes.AllowedParamsChange{Subspace: s.subspace, Key: s.key}
	class := "rules"
	allow := func() []string {
		switch {
		case len(s.realistic) > 0 && r.Chance(55):
			return append([]string{}, c.Pick(r, s.realistic)...)
		case r.Chance(12):
			return []string{} // nothing may change
		default:
			return subset(r, names(s.fields), 30)
		}
	}
	switch s.top {
	case "S":
		a.SingleSubparamAllowedAttrs = allow()
		if r.Chance(5) { // misconfigured: multi rules on a struct parameter
			a.SingleSubparamAllowedAttrs = nil
			a.MultiSubparamsRequirements = []ctypes.SubparamRequirement{{Key: "denom", Val: "usdx", AllowedSubparamAttrChanges: allow()}}
			class = "multi-rules-on-struct"
		}
	case "M":
		idKey := "denom"
		if len(s.idKeys) > 0 {
			idKey = s.idKeys[0]
			if r.Chance(25) {
				idKey = c.Pick(r, s.idKeys)
			}
		}
		seen := map[string]bool{}
		if cur != nil && cur.k == kArr {
			for _, rec := range cur.arr {
				if rec.k != kObj {
					continue
				}
				i := rec.find(idKey)
				if i < 0 || rec.vals[i].k != kStr || seen[rec.vals[i].text] {
					continue
				}
				seen[rec.vals[i].text] = true
				if r.Chance(8) { // a record without requirement: every change is refused
					class = "record-without-requirement"
					continue
				}
				al := allow()
				if r.Chance(6) { // the identifying field itself is changeable
					al = append(al, idKey)
					if idKey != "type" && r.Chance(50) {
						al = append(al, "type")
					}
				}
				a.MultiSubparamsRequirements = append(a.MultiSubparamsRequirements,
					ctypes.SubparamRequirement{Key: idKey, Val: rec.vals[i].text, AllowedSubparamAttrChanges: al})
			}
		}
		if r.Chance(5) {
			a.MultiSubparamsRequirements = append(a.MultiSubparamsRequirements,
				ctypes.SubparamRequirement{Key: idKey, Val: "ghost", AllowedSubparamAttrChanges: allow()})
		}
		if r.Chance(4) { // misconfigured: single rules on an array parameter (the array branch ignores them)
			a.SingleSubparamAllowedAttrs = allow()
			if r.Chance(50) {
				a.MultiSubparamsRequirements = nil
				class = "single-rules-on-array"
			}
		}
	default: // "O": sub-rules on a parameter that is no object
		if r.Chance(50) {
			a.SingleSubparamAllowedAttrs = []string{"x"}
		} else {
			a.MultiSubparamsRequirements = []ctypes.SubparamRequirement{{Key: "denom", Val: "ukava", AllowedSubparamAttrChanges: []string{"x"}}}
		}
		class = "rules-on-non-object"
	}
	if r.Chance(6) {
		a.SingleSubparamAllowedAttrs, a.MultiSubparamsRequirements = nil, nil
		class = "no-rules"
	}
	if r.Chance(4) { // the `&&` in the subspace/key guard: only one of the two differs
		if r.Bool() {
			a.Subspace = "other"
		} else {
			a.Key = "Other"
		}
		class = "guard-half-match"
	} else if r.Chance(2) {
		a.Subspace, a.Key = "other", "Other"
		class = "guard-no-match"
	}
	return a, class
}

// plausible new values for a field, by the JSON shape of its current value
func tweak(r *c.Rng, v *node) *node {
	switch v.k {
	case kStr:
		s := v.text
		switch {
		case len(s) > 0 && strings.Trim(s, "0123456789") == "": // integer string
			n, _ := sdkmath.NewIntFromString(s)
			switch r.Intn(6) {
			case 0: // the same digits, another magnitude
				return nStr(s + c.Pick(r, []string{"0", "00", "000000"}))
			case 1:
				if t := strings.TrimRight(s, "0"); t != "" && t != s {
					return nStr(t)
				}
			}
			return nStr(n.AddRaw(int64(r.Range(1, 7))).String())
		case strings.Contains(s, ".") && strings.Trim(s, "0123456789.") == "": // decimal string
			d, err := sdk.NewDecFromStr(s)
			if err == nil {
				switch r.Intn(8) {
				case 0, 1: // the same digits, another magnitude (2.0 -> 20.0, 200.0, 0.2): a different value
					return nStr(d.MulInt64(c.Pick(r, []int64{10, 100, 1000000})).String())
				case 2:
					return nStr(d.QuoInt64(c.Pick(r, []int64{10, 100})).String())
				case 3: // the same value written differently (a different JSON string)
					if t := strings.TrimRight(strings.TrimRight(s, "0"), "."); t != "" && t != s {
						return nStr(t)
					}
				}
				return nStr(d.Add(sdk.NewDecWithPrec(int64(r.Range(1, 9)), 10)).String())
			}
		}
		return nStr(s + c.Pick(r, []string{"x", "2", "-b"}))
	case kBool:
		return nBool(!v.b)
	case kNum:
		return nNum(v.text + "1")
	case kNull:
		return nStr("x")
	case kArr:
		n := v.clone()
		if len(n.arr) > 0 && r.Bool() {
			n.arr = n.arr[:len(n.arr)-1]
		} else {
			n.arr = append(n.arr, nStr(oracle2))
		}
		return n
	case kObj:
		n := v.clone()
		if len(n.vals) > 0 {
			i := r.Intn(len(n.vals))
			n.vals[i] = tweak(r, n.vals[i])
		}
		return n
	}
	return v
}

func caseVary(s string) string {
	if s == "" {
		return s
	}
	return strings.ToUpper(s[:1]) + s[1:]
}

func hiddenValue(r *c.Rng) *node {
	return c.Pick(r, []*node{nBool(true), nStr("1"), nStr("x"), nStr(deputy), nNum("1")})
}

// mutateRecord applies one mutation to an object; returns its class.
func mutateRecord(r *c.Rng, rec *node, s *paramSpec, allow []string) string {
	if rec.k != kObj {
		return "not-object"
	}
	inAllow := func(k string) bool {
		for _, a := range allow {
			if a == k {
				return true
			}
		}
		return false
	}
	pickKey := func(wantAllowed bool) int {
		var idx []int
		for i, k := range rec.keys {
			if inAllow(k) == wantAllowed {
				idx = append(idx, i)
			}
		}
		if len(idx) == 0 {
			return -1
		}
		return idx[r.Intn(len(idx))]
	}
	hidden := func() string { // a schema field the document omits
		var hs []string
		for _, f := range s.fields {
			if rec.find(f.name) < 0 {
				hs = append(hs, f.name)
			}
		}
		if len(hs) == 0 {
			return ""
		}
		return c.Pick(r, hs)
	}
	switch r.Intn(16) {
	case 0, 1, 2: // change an allow-listed field (legitimate)
		if i := pickKey(true); i >= 0 {
			rec.vals[i] = tweak(r, rec.vals[i])
			return "change-allowed"
		}
		return "none"
	case 3: // change a protected field
		if i := pickKey(false); i >= 0 {
			rec.vals[i] = tweak(r, rec.vals[i])
			return "change-protected"
		}
		return "none"
	case 4: // reorder keys
		for i := len(rec.keys) - 1; i > 0; i-- {
			j := r.Intn(i + 1)
			rec.keys[i], rec.keys[j] = rec.keys[j], rec.keys[i]
			rec.vals[i], rec.vals[j] = rec.vals[j], rec.vals[i]
		}
		return "reorder-keys"
	case 5: // drop a key
		if len(rec.keys) > 0 {
			i := r.Intn(len(rec.keys))
			cls := "drop-protected"
			if inAllow(rec.keys[i]) {
				cls = "drop-allowed"
			}
			rec.del(i)
			return cls
		}
	case 6: // duplicate a key: the later one wins in both decoders
		if len(rec.keys) > 0 {
			i := r.Intn(len(rec.keys))
			k, v := rec.keys[i], rec.vals[i]
			if r.Bool() { // evil value first, original last
				rec.keys = append([]string{k}, rec.keys...)
				rec.vals = append([]*node{tweak(r, v)}, rec.vals...)
				return "dup-key-original-last"
			}
			rec.set(k, tweak(r, v))
			return "dup-key-changed-last"
		}
	case 7: // add an unknown key
		rec.set(c.Pick(r, []string{"extra_attr", "zz", "", "Denom"}), hiddenValue(r))
		return "add-unknown"
	case 8: // add a field of the struct the document omits
		if h := hidden(); h != "" {
			rec.set(h, hiddenValue(r))
			return "add-omitted-field"
		}
		rec.set("extra_attr", nStr("1"))
		return "add-unknown"
	case 9: // swap: drop an allow-listed (or any) key and add an omitted field / unknown key — same length
		i := pickKey(true)
		if i < 0 && len(rec.keys) > 0 {
			i = r.Intn(len(rec.keys))
		}
		if i >= 0 {
			rec.del(i)
			if h := hidden(); h != "" && r.Chance(70) {
				v := hiddenValue(r)
				if h == "active" || h == "time_limited" || h == "has_max_limit" {
					v = nBool(true)
				}
				rec.set(h, v)
				return "swap-for-omitted-field"
			}
			rec.set("extra_attr", nStr("1"))
			return "swap-for-unknown"
		}
	case 10: // case-vary a key
		if len(rec.keys) > 0 {
			i := r.Intn(len(rec.keys))
			rec.keys[i] = caseVary(rec.keys[i])
			return "case-vary-key"
		}
	case 11: // number / string confusion
		if len(rec.keys) > 0 {
			i := r.Intn(len(rec.keys))
			v := rec.vals[i]
			if v.k == kStr && len(v.text) > 0 && strings.Trim(v.text, "0123456789.") == "" {
				rec.vals[i] = nNum(v.text)
				return "string-to-number"
			}
			if v.k == kBool {
				rec.vals[i] = nStr(fmt.Sprint(v.b))
				return "bool-to-string"
			}
			rec.vals[i] = c.Pick(r, []*node{nNum("1"), nNum("1.0"), nNum("1e0"), nNum("-0"), nNum("9007199254740993"), nNum("1e999")})
			return "to-number"
		}
	case 12: // null
		if len(rec.keys) > 0 {
			i := r.Intn(len(rec.keys))
			rec.vals[i] = nNull()
			return "to-null"
		}
	case 13: // nested change
		var idx []int
		for i, v := range rec.vals {
			if v.k == kObj {
				idx = append(idx, i)
			}
		}
		if len(idx) > 0 {
			i := idx[r.Intn(len(idx))]
			inner := rec.vals[i]
			cls := mutateRecord(r, inner, &paramSpec{}, nil)
			return "nested-" + cls
		}
	case 14: // same decoded value written differently (decimal precision)
		if len(rec.keys) > 0 {
			i := r.Intn(len(rec.keys))
			v := rec.vals[i]
			if v.k == kStr && strings.HasSuffix(v.text, "000") && strings.Contains(v.text, ".") {
				rec.vals[i] = nStr(strings.TrimRight(v.text, "0") + "0")
				return "decimal-respelled"
			}
		}
	default:
	}
	return "none"
}

// genIncoming builds the incoming document text from the current one.
func genIncoming(r *c.Rng, s *paramSpec, cur *node, a ctypes.AllowedParamsChange) (string, string) {
	if r.Chance(3) || cur == nil {
		t := c.Pick(r, []string{"", "{", "nul", `{"a":1,}`, `[{]`, `{"a":1} x`, `"str"`, `17`, `true`, `null`, `[]`, `{}`, `[null]`, `[1]`, `[[]]`, `{"a":{"b":[1,2,{"c":null}]}}`})
		return t, "garbage"
	}
	doc := cur.clone()
	var classes []string
	nmut := 1
	if r.Chance(35) {
		nmut = 2
	}
	if r.Chance(10) {
		nmut = 0
	}
	allowFor := func(rec *node) []string {
		if s.top != "M" {
			return a.SingleSubparamAllowedAttrs
		}
		for _, q := range a.MultiSubparamsRequirements {
			if i := rec.find(q.Key); i >= 0 && rec.vals[i].k == kStr && rec.vals[i].text == q.Val {
				return q.AllowedSubparamAttrChanges
			}
		}
		return nil
	}
	// start from a legitimate change most of the time
	legit := func(rec *node) {
		al := allowFor(rec)
		for _, k := range al {
			if i := rec.find(k); i >= 0 && r.Chance(60) {
				rec.vals[i] = tweak(r, rec.vals[i])
			}
		}
	}
	switch doc.k {
	case kObj:
		if r.Chance(70) {
			legit(doc)
			classes = append(classes, "legit")
		}
		for i := 0; i < nmut; i++ {
			classes = append(classes, mutateRecord(r, doc, s, allowFor(doc)))
		}
	case kArr:
		if r.Chance(70) {
			for _, rec := range doc.arr {
				if rec.k == kObj && r.Chance(60) {
					legit(rec)
				}
			}
			classes = append(classes, "legit")
		}
		for i := 0; i < nmut; i++ {
			switch r.Intn(10) {
			case 0: // reorder records
				for i := len(doc.arr) - 1; i > 0; i-- {
					j := r.Intn(i + 1)
					doc.arr[i], doc.arr[j] = doc.arr[j], doc.arr[i]
				}
				classes = append(classes, "reorder-records")
			case 1: // drop a record
				if len(doc.arr) > 0 {
					j := r.Intn(len(doc.arr))
					doc.arr = append(doc.arr[:j:j], doc.arr[j+1:]...)
					classes = append(classes, "drop-record")
				}
			case 2: // duplicate a record
				if len(doc.arr) > 0 {
					j := r.Intn(len(doc.arr))
					doc.arr = append(doc.arr, doc.arr[j].clone())
					classes = append(classes, "dup-record")
				}
			case 3: // replace a record by a copy of another (count unchanged)
				if len(doc.arr) > 1 {
					j, k := r.Intn(len(doc.arr)), r.Intn(len(doc.arr))
					if j != k {
						doc.arr[j] = doc.arr[k].clone()
						if r.Bool() && doc.arr[j].k == kObj { // … and make it a different record
							if i := doc.arr[j].find("type"); i >= 0 {
								doc.arr[j].vals[i] = nStr("evil-a")
							} else if i := doc.arr[j].find("denom"); i >= 0 {
								doc.arr[j].vals[i] = nStr("evil")
							}
						}
						classes = append(classes, "replace-record")
					}
				}
			case 4: // add a brand-new record
				if len(doc.arr) > 0 {
					n := doc.arr[0].clone()
					if n.k == kObj {
						for _, k := range []string{"type", "denom", "market_id"} {
							if i := n.find(k); i >= 0 {
								n.vals[i] = nStr("new" + k)
							}
						}
					}
					doc.arr = append(doc.arr, n)
					classes = append(classes, "add-record")
				}
			case 5: // a non-object element
				if len(doc.arr) > 0 {
					doc.arr[r.Intn(len(doc.arr))] = c.Pick(r, []*node{nNull(), nNum("1"), nStr("x"), nArr()})
					classes = append(classes, "non-object-record")
				}
			default:
				if len(doc.arr) > 0 {
					rec := doc.arr[r.Intn(len(doc.arr))]
					classes = append(classes, mutateRecord(r, rec, s, allowFor(rec)))
				}
			}
		}
	default: // non-object parameter
		switch r.Intn(4) {
		case 0:
			return `{"a":"b"}`, "object-for-scalar"
		case 1:
			return `[]`, "empty-array-for-scalar"
		case 2:
			return `[{"denom":"ukava"}]`, "records-for-scalar"
		default:
			return cur.String(), "same"
		}
	}
	style := 0
	if r.Chance(10) {
		style = r.Intn(4)
		if style != 0 {
			classes = append(classes, fmt.Sprintf("style%d", style))
		}
	}
	return doc.textStyle(style), strings.Join(classes, "+")
}

// ---------------------------------------------------------------- the apc stream

func verdictOf(f func() bool) string {
	v := "no"
	func() {
		defer func() {
			if r := recover(); r != nil {
				v = "panic"
			}
		}()
		if f() {
			v = "yes"
		}
	}()
	return v
}

// emitApc evaluates one (rule, incoming document) on the real checker and, if accepted, the real params
// handler, and writes the case line.
func emitApc(w *permWorld, out *c.Out, s *paramSpec, a ctypes.AllowedParamsChange, inc string, sigPrefix string, commit bool) string {
	pk := w.tApp.GetParamsKeeper()
	raw, found := w.raw(s.subspace, s.key)
	change := paramsproposal.ParamChange{Subspace: s.subspace, Key: s.key, Value: inc}
	verdict := verdictOf(func() bool { return ctypes.VerifAllowsParamChange(a, w.ctx, change, pk) })
	handler, after := "skip", "-"
	if verdict == "yes" {
		cls, aft := w.applyObserve(s.subspace, s.key, inc, commit)
		handler = string(cls)
		if cls == kapp.OK {
			after = encodeDoc(aft)
		}
	}
	sig := ""
	if sigPrefix != "" {
		sig = sigPrefix + "|" + verdict + "|" + handler
	}
	out.Note("apc-verdict-" + verdict)
	out.Note("apc-handler-" + handler)
	out.Case(sig, "c17.apc", encAPC(a), hx(s.subspace), hx(s.key), s.top, encSchema(s.fields), curField(raw, found), encodeDoc(inc), "=>", verdict, handler, after)
	return verdict
}

func (w *permWorld) spec(subspace, key string) *paramSpec {
	for _, s := range w.specs {
		if s.subspace == subspace && s.key == key {
			return s
		}
	}
	panic("c17: no such spec")
}

// runFormerFindings replays, on the fixture state, the two witnesses that were accepted before the
// fix: commits 0a0bfec58 / 060540892 (findings/C17-omitted-field-set.md, C17-record-replaced.md). If
// either is accepted again the ordinary predicate of c17.apc reports it.
func runFormerFindings(w *permWorld, out *c.Out) {
	// 1. drop the allow-listed `oracles`, add the omitted `active`
	pf := w.spec("pricefeed", "Markets")
	a1 := ctypes.AllowedParamsChange{Subspace: "pricefeed", Key: "Markets", MultiSubparamsRequirements: []ctypes.SubparamRequirement{
		{Key: "market_id", Val: "bnb:usd", AllowedSubparamAttrChanges: []string{"oracles"}},
		{Key: "market_id", Val: "btc:usd", AllowedSubparamAttrChanges: []string{"oracles"}}}}
	inc1 := `[{"market_id":"bnb:usd","base_asset":"bnb","quote_asset":"usd","oracles":["` + deputy + `"],"active":true},` +
		`{"market_id":"btc:usd","base_asset":"btc","quote_asset":"usd","active":true}]`
	out.Note("former-finding-omitted-field-set-" + emitApc(w, out, pf, a1, inc1, "former-omitted-field-set", false))
	// 2. bnb-a and bnb-b differ only in `type`; requirement keyed on the shared spot market with `type` allow-listed
	cp := w.spec("cdp", "CollateralParams")
	a2 := ctypes.AllowedParamsChange{Subspace: "cdp", Key: "CollateralParams", MultiSubparamsRequirements: []ctypes.SubparamRequirement{
		{Key: "spot_market_id", Val: "bnb:usd", AllowedSubparamAttrChanges: []string{"type", "debt_limit"}},
		{Key: "spot_market_id", Val: "btc:usd", AllowedSubparamAttrChanges: []string{"debt_limit"}}}}
	cur, _ := parseTree(cp.initial)
	doc := cur.clone()
	doc.arr[0].vals[doc.arr[0].find("spot_market_id")] = nStr("bnb:usd2")
	out.Note("former-finding-record-replaced-" + emitApc(w, out, cp, a2, doc.String(), "former-record-replaced", false))
}

func runApcCases(w *permWorld, out *c.Out, r *c.Rng, n int) {
	runFormerFindings(w, out)
	for i := 0; i < n; i++ {
		s := c.Pick(r, w.specs)
		if s.top == "O" && r.Chance(70) {
			s = c.Pick(r, w.specs)
		}
		raw, _ := w.raw(s.subspace, s.key)
		cur, _ := parseTree(raw)
		a, pclass := genAPC(r, s, cur)
		inc, mclass := genIncoming(r, s, cur, a)
		sig := ""
		if mclass != "none" && mclass != "same" {
			sig = s.top + "|" + pclass + "|" + mclass
		}
		emitApc(w, out, s, a, inc, sig, r.Chance(30))
		// keep the world varied but healthy: now and then restore a fixture through governance
		if r.Chance(2) {
			w.apply(s.subspace, s.key, s.initial, true)
		}
	}
}

// ---------------------------------------------------------------- Committee.HasPermissionsFor

func encPerm(p ctypes.Permission) string {
	switch q := p.(type) {
	case *ctypes.GodPermission:
		return "G"
	case *ctypes.TextPermission:
		return "T"
	case *ctypes.SoftwareUpgradePermission:
		return "U"
	case *ctypes.CommunityCDPRepayDebtPermission:
		return "R"
	case *ctypes.CommunityPoolLendWithdrawPermission:
		return "L"
	case *ctypes.CommunityCDPWithdrawCollateralPermission:
		return "W"
	case *ctypes.ParamsChangePermission:
		apcs := make([]string, len(q.AllowedParamsChanges))
		for i, a := range q.AllowedParamsChanges {
			apcs[i] = encAPC(a)
		}
		return "P" + strings.Join(apcs, "&")
	}
	panic("unknown permission")
}

func runHasCases(w *permWorld, out *c.Out, r *c.Rng, n int) {
	pk := w.tApp.GetParamsKeeper()
	_, addrs := app.GeneratePrivKeyAddressPairs(2)
	for i := 0; i < n; i++ {
		// permissions
		var perms []ctypes.Permission
		np := r.Intn(4)
		var apcsAll []ctypes.AllowedParamsChange
		for j := 0; j < np; j++ {
			switch r.Intn(10) {
			case 0:
				if r.Chance(30) {
					perms = append(perms, &ctypes.GodPermission{})
				}
			case 1:
				perms = append(perms, &ctypes.TextPermission{})
			case 2:
				perms = append(perms, &ctypes.SoftwareUpgradePermission{})
			case 3:
				perms = append(perms, c.Pick(r, []ctypes.Permission{&ctypes.CommunityCDPRepayDebtPermission{}, &ctypes.CommunityPoolLendWithdrawPermission{}, &ctypes.CommunityCDPWithdrawCollateralPermission{}}))
			default:
				var apcs ctypes.AllowedParamsChanges
				for k := r.Intn(3) + 1; k > 0; k-- {
					s := c.Pick(r, w.specs)
					raw, _ := w.raw(s.subspace, s.key)
					cur, _ := parseTree(raw)
					a, _ := genAPC(r, s, cur)
					apcs = append(apcs, a)
				}
				apcsAll = append(apcsAll, apcs...)
				perms = append(perms, &ctypes.ParamsChangePermission{AllowedParamsChanges: apcs})
			}
		}
		com, err := ctypes.NewMemberCommittee(1, "d", addrs, perms, sdk.MustNewDecFromStr("0.5"), time.Hour, ctypes.TALLY_OPTION_DEADLINE)
		if err != nil {
			panic(err)
		}
		// proposal
		var prop ctypes.PubProposal
		var content, store, kind string
		switch r.Intn(10) {
		case 0:
			prop, content, kind = govv1beta1.NewTextProposal("t", "d"), "T", "text"
		case 1:
			prop, content, kind = upgradetypes.NewSoftwareUpgradeProposal("t", "d", upgradetypes.Plan{Name: "n", Height: 1000}), "U", "upgrade"
		case 2:
			switch r.Intn(4) {
			case 0:
				prop, content = communitytypes.NewCommunityCDPRepayDebtProposal("t", "d", "bnb-a", sdk.NewInt64Coin("usdx", 1)), "R"
			case 1:
				prop, content = communitytypes.NewCommunityPoolLendWithdrawProposal("t", "d", sdk.NewCoins(sdk.NewInt64Coin("usdx", 1))), "L"
			case 2:
				prop, content = communitytypes.NewCommunityCDPWithdrawCollateralProposal("t", "d", "bnb-a", sdk.NewInt64Coin("bnb", 1)), "W"
			default:
				prop, content = communitytypes.NewCommunityPoolLendDepositProposal("t", "d", sdk.NewCoins(sdk.NewInt64Coin("usdx", 1))), "O"
			}
			kind = "community"
		default:
			var changes []paramsproposal.ParamChange
			var enc, st []string
			for k := r.Intn(3) + 1; k > 0; k-- {
				s := c.Pick(r, w.specs)
				sub, key := s.subspace, s.key
				raw, found := w.raw(sub, key)
				cur, _ := parseTree(raw)
				// aim at one of the committee's rules most of the time
				a := ctypes.AllowedParamsChange{Subspace: sub, Key: key}
				for _, x := range apcsAll {
					if x.Subspace == sub && x.Key == key {
						a = x
						break
					}
				}
				inc, _ := genIncoming(r, s, cur, a)
				if r.Chance(5) {
					sub = "nosuchspace"
					raw, found = w.raw(sub, key)
				}
				changes = append(changes, paramsproposal.ParamChange{Subspace: sub, Key: key, Value: inc})
				enc = append(enc, hx(sub)+"/"+hx(key)+"/"+encodeDoc(inc))
				st = append(st, hx(sub)+"/"+hx(key)+"/"+curField(raw, found))
			}
			prop = paramsproposal.NewParameterChangeProposal("t", "d", changes)
			content, store, kind = "P"+strings.Join(enc, "&"), strings.Join(st, "&"), fmt.Sprintf("params%d", len(changes))
		}
		verdict := verdictOf(func() bool { return com.HasPermissionsFor(w.ctx, w.tApp.AppCodec(), pk, prop) })
		ps := make([]string, len(perms))
		pk2 := make([]string, len(perms))
		for j, p := range perms {
			ps[j] = encPerm(p)
			pk2[j] = ps[j][:1]
		}
		out.Note("has-verdict-" + verdict)
		out.Case(kind+"|"+strings.Join(pk2, "")+"|"+verdict, "c17.has", strings.Join(ps, "+"), content, store, "=>", verdict)
	}
}
