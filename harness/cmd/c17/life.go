package main

// Part (b): sequences of submit / vote / advance-time+begin-block / committee change+delete / transfers on
// the real committee keeper, one self-contained case per committee-module operation.

import (
	"encoding/json"
	"fmt"
	"sort"
	"strconv"
	"strings"
	"sync"
	"time"

	abci "github.com/cometbft/cometbft/abci/types"
	sdk "github.com/cosmos/cosmos-sdk/types"
	authtypes "github.com/cosmos/cosmos-sdk/x/auth/types"
	govtypes "github.com/cosmos/cosmos-sdk/x/gov/types"
	govv1beta1 "github.com/cosmos/cosmos-sdk/x/gov/types/v1beta1"
	"github.com/cosmos/cosmos-sdk/x/params"
	paramsproposal "github.com/cosmos/cosmos-sdk/x/params/types/proposal"
	upgradekeeper "github.com/cosmos/cosmos-sdk/x/upgrade/keeper"
	upgradetypes "github.com/cosmos/cosmos-sdk/x/upgrade/types"

	"github.com/kava-labs/kava/app"
	"github.com/kava-labs/kava/x/committee"
	ckeeper "github.com/kava-labs/kava/x/committee/keeper"
	ctypes "github.com/kava-labs/kava/x/committee/types"
	communitykeeper "github.com/kava-labs/kava/x/community/keeper"
	communitytypes "github.com/kava-labs/kava/x/community/types"
	hardtypes "github.com/kava-labs/kava/x/hard/types"
	pricefeedtypes "github.com/kava-labs/kava/x/pricefeed/types"

	c "kavaverif/harness/common"
	"kavaverif/harness/kapp"
)

const tallyDenom = "hard"
const nAcc = 6

var lifeParamKeys = []string{"SurplusThreshold", "DebtThreshold"}

// Shared mutable state that proposal handlers and permission checks read (so that enacting one proposal
// can invalidate another that finishes in the same block):
//   - the community pool (x/distribution fee pool) and the Kava Lend deposit of the x/community module account,
//     moved by CommunityPoolLendDeposit / CommunityPoolLendWithdraw proposals (route "community");
//   - the cdp DebtParam record (two numeric fields), replaced as a WHOLE by parameter-change proposals that a
//     committee may be allowed to submit for ONE field only (AllowedParamsChange with a single allowed attribute).
var lendDenoms = []string{"ukava", "usdx"}

var debtFields = map[string]string{"floor": "debt_floor", "conv": "conversion_factor"}

type lifeWorld struct {
	tApp  app.TestApp
	base  sdk.Context
	addrs []sdk.AccAddress
	macc  sdk.AccAddress // x/community module account: holds the lend position
}

var worldMu sync.Mutex // app.NewTestApp writes the global sdk config: build worlds one at a time

func lendGenesis(tApp app.TestApp) []app.GenesisState {
	hardGS := hardtypes.DefaultGenesisState()
	pfGS := pricefeedtypes.DefaultGenesisState()
	for _, d := range lendDenoms {
		market := d + ":usd"
		hardGS.Params.MoneyMarkets = append(hardGS.Params.MoneyMarkets, hardtypes.NewMoneyMarket(d,
			hardtypes.NewBorrowLimit(false, sdk.NewDec(1e15), sdk.MustNewDecFromStr("0.6")), market, sdk.NewInt(1e6),
			hardtypes.NewInterestRateModel(sdk.MustNewDecFromStr("0.05"), sdk.MustNewDecFromStr("2"), sdk.MustNewDecFromStr("0.8"), sdk.MustNewDecFromStr("10")),
			sdk.MustNewDecFromStr("0.05"), sdk.ZeroDec()))
		pfGS.Params.Markets = append(pfGS.Params.Markets, pricefeedtypes.Market{MarketID: market, BaseAsset: d, QuoteAsset: "usd", Oracles: []sdk.AccAddress{}, Active: true})
		pfGS.PostedPrices = append(pfGS.PostedPrices, pricefeedtypes.PostedPrice{MarketID: market, OracleAddress: sdk.AccAddress{}, Price: sdk.OneDec(), Expiry: kapp.GenTime.Add(1000000 * time.Hour)})
	}
	return []app.GenesisState{
		{hardtypes.ModuleName: tApp.AppCodec().MustMarshalJSON(&hardGS)},
		{pricefeedtypes.ModuleName: tApp.AppCodec().MustMarshalJSON(&pfGS)},
	}
}

func mkLifeWorld() *lifeWorld {
	worldMu.Lock()
	defer worldMu.Unlock()
	_, addrs := app.GeneratePrivKeyAddressPairs(nAcc)
	coins := make([]sdk.Coins, nAcc)
	for i := range coins {
		coins[i] = sdk.NewCoins(sdk.NewInt64Coin(tallyDenom, int64(100*(i+1))), sdk.NewInt64Coin("ukava", 1000))
	}
	tApp := app.NewTestApp()
	gen := append([]app.GenesisState{app.NewFundedGenStateWithCoins(tApp.AppCodec(), coins, addrs)}, lendGenesis(tApp)...)
	tApp.InitializeFromGenesisStatesWithTime(kapp.GenTime, gen...)
	ctx := tApp.NewContext(false, tmHeader(tApp.LastBlockHeight()+1, kapp.GenTime))
	w := &lifeWorld{tApp: tApp, base: ctx, addrs: addrs, macc: tApp.GetAccountKeeper().GetModuleAddress(communitytypes.ModuleAccountName)}
	// community pool 5000 usdx + 3000 ukava, of which 1000 usdx + 400 ukava are already lent out by the community module
	pool := sdk.NewCoins(sdk.NewInt64Coin("usdx", 6000), sdk.NewInt64Coin("ukava", 3400))
	funder := app.RandomAddress()
	if err := tApp.FundAccount(ctx, funder, pool); err != nil {
		panic(err)
	}
	if err := tApp.GetDistrKeeper().FundCommunityPool(ctx, pool, funder); err != nil {
		panic(err)
	}
	if err := communitykeeper.HandleCommunityPoolLendDepositProposal(ctx, tApp.GetCommunityKeeper(),
		communitytypes.NewCommunityPoolLendDepositProposal("t", "d", sdk.NewCoins(sdk.NewInt64Coin("usdx", 1000), sdk.NewInt64Coin("ukava", 400)))); err != nil {
		panic(err)
	}
	return w
}

// mirror of what the harness knows it stored (contents by proposal id; committee descriptions)
type comDesc struct {
	id       uint64
	token    bool
	members  []int
	perm     string // G T U L K<key> F<floor|conv>
	thr, quo sdk.Dec
	dur      time.Duration
	fptp     bool
}

func (d comDesc) enc() string {
	ms := make([]string, len(d.members))
	for i, m := range d.members {
		ms[i] = strconv.Itoa(m)
	}
	ty := "M"
	if d.token {
		ty = "T"
	}
	mem := strings.Join(ms, ",")
	if mem == "" {
		mem = "-"
	}
	return fmt.Sprintf("%d:%s:%s:%s:%s:%s:%d:%s", d.id, ty, mem, d.perm, d.thr.BigInt().String(), d.quo.BigInt().String(), int64(d.dur), c.B(d.fptp))
}

func (w *lifeWorld) build(d comDesc) ctypes.Committee {
	var perm ctypes.Permission
	switch {
	case d.perm == "G":
		perm = &ctypes.GodPermission{}
	case d.perm == "T":
		perm = &ctypes.TextPermission{}
	case d.perm == "U":
		perm = &ctypes.SoftwareUpgradePermission{}
	case d.perm == "L":
		perm = &ctypes.CommunityPoolLendWithdrawPermission{}
	case d.perm[0] == 'F': // one field of the cdp DebtParam record
		perm = &ctypes.ParamsChangePermission{AllowedParamsChanges: ctypes.AllowedParamsChanges{{Subspace: "cdp", Key: "DebtParam",
			SingleSubparamAllowedAttrs: []string{debtFields[d.perm[1:]]}}}}
	default:
		perm = &ctypes.ParamsChangePermission{AllowedParamsChanges: ctypes.AllowedParamsChanges{{Subspace: "cdp", Key: d.perm[1:]}}}
	}
	members := make([]sdk.AccAddress, len(d.members))
	for i, m := range d.members {
		members[i] = w.addrs[m]
	}
	opt := ctypes.TALLY_OPTION_DEADLINE
	if d.fptp {
		opt = ctypes.TALLY_OPTION_FIRST_PAST_THE_POST
	}
	if d.token {
		return ctypes.MustNewTokenCommittee(d.id, "d", members, []ctypes.Permission{perm}, d.thr, d.dur, opt, d.quo, tallyDenom)
	}
	return ctypes.MustNewMemberCommittee(d.id, "d", members, []ctypes.Permission{perm}, d.thr, d.dur, opt)
}

type lifeSeq struct {
	w        *lifeWorld
	ctx      sdk.Context
	k        ckeeper.Keeper
	msg      ctypes.MsgServer
	gov      govv1beta1.Handler    // the committee module's gov-routed handler (committee change / delete)
	pgov     govv1beta1.Handler    // params handler as governance would call it
	upk      *upgradekeeper.Keeper // the harness's own upgrade keeper over the same store (block replay only)
	coms     map[uint64]comDesc
	contents map[uint64]string
	pubs     map[uint64]ctypes.PubProposal // the content objects as submitted (block replay)
	cast     map[[2]uint64]string          // (proposal, voter index) -> option the harness cast last; never read from the store
	out      *c.Out
	r        *c.Rng
}

func (s *lifeSeq) idx(a sdk.AccAddress) int {
	for i, x := range s.w.addrs {
		if x.Equals(a) {
			return i
		}
	}
	panic("c17: unknown address in committee store")
}

type lifeObs struct {
	coms, props, votes, next, ext string
}

// debtDoc reads the stored cdp DebtParam record as a JSON object
func (s *lifeSeq) debtDoc(ctx sdk.Context) map[string]interface{} {
	ss, _ := s.w.tApp.GetParamsKeeper().GetSubspace("cdp")
	var m map[string]interface{}
	if err := json.Unmarshal(ss.GetRaw(ctx, []byte("DebtParam")), &m); err != nil {
		panic("c17: stored DebtParam is not an object: " + err.Error())
	}
	return m
}

func (s *lifeSeq) debtVals(ctx sdk.Context) (floor, conv string) {
	m := s.debtDoc(ctx)
	floor, _ = m["debt_floor"].(string)
	conv, _ = m["conversion_factor"].(string)
	return
}

func (s *lifeSeq) poolOf(ctx sdk.Context, d string) int64 {
	return s.w.tApp.GetDistrKeeper().GetFeePool(ctx).CommunityPool.AmountOf(d).TruncateInt().Int64()
}

func (s *lifeSeq) depOf(ctx sdk.Context, d string) int64 {
	dep, _ := s.w.tApp.GetHardKeeper().GetDeposit(ctx, s.w.macc)
	return dep.Amount.AmountOf(d).Int64()
}

// extObs: the state outside the committee store that handlers, permission checks and tallies read:
// height; two cdp params; upgrade plan; tally-denom balances and supply; community pool, lend deposit and bank
// balance of the community module account; the two numeric fields of the cdp DebtParam record
func (s *lifeSeq) extObs(ctx sdk.Context) string {
	var pv []string
	ss, _ := s.w.tApp.GetParamsKeeper().GetSubspace("cdp")
	for _, key := range lifeParamKeys {
		raw := strings.Trim(string(ss.GetRaw(ctx, []byte(key))), `"`)
		pv = append(pv, key+"="+raw)
	}
	plan := int64(0)
	if bz := ctx.KVStore(s.w.tApp.GetKVStoreKey(upgradetypes.StoreKey)).Get(upgradetypes.PlanKey()); bz != nil {
		var p upgradetypes.Plan
		s.w.tApp.AppCodec().MustUnmarshal(bz, &p)
		plan = p.Height
	}
	bk := s.w.tApp.GetBankKeeper()
	bals := make([]string, nAcc)
	for i, a := range s.w.addrs {
		bals[i] = bk.GetBalance(ctx, a, tallyDenom).Amount.String()
	}
	var kv []string
	for _, d := range lendDenoms {
		kv = append(kv, fmt.Sprintf("pool.%s=%d", d, s.poolOf(ctx, d)))
	}
	for _, d := range lendDenoms {
		kv = append(kv, fmt.Sprintf("dep.%s=%d", d, s.depOf(ctx, d)))
	}
	for _, d := range lendDenoms {
		kv = append(kv, fmt.Sprintf("macc.%s=%s", d, bk.GetBalance(ctx, s.w.macc, d).Amount.String()))
	}
	floor, conv := s.debtVals(ctx)
	kv = append(kv, "debt.floor="+floor, "debt.conv="+conv)
	return fmt.Sprintf("%d;%s;%d;%s;%s;%s", ctx.BlockHeight(), strings.Join(pv, ","), plan, strings.Join(bals, ","),
		bk.GetSupply(ctx, tallyDenom).Amount.String(), strings.Join(kv, ","))
}

func (s *lifeSeq) observe(ctx sdk.Context) lifeObs {
	var o lifeObs
	var cs []string
	ids := make([]uint64, 0, len(s.coms))
	for id := range s.coms {
		ids = append(ids, id)
	}
	sort.Slice(ids, func(i, j int) bool { return ids[i] < ids[j] })
	for _, id := range ids {
		cs = append(cs, s.coms[id].enc())
	}
	o.coms = strings.Join(cs, ";")
	var ps []string
	for _, p := range s.k.GetProposals(ctx) {
		cont, ok := s.contents[p.ID]
		if !ok {
			panic("c17: stored proposal unknown to the harness")
		}
		ps = append(ps, fmt.Sprintf("%d:%d:%d:%s", p.ID, p.CommitteeID, p.Deadline.UnixNano(), cont))
	}
	o.props = c.Strs(ps)
	if len(ps) > 0 {
		o.props = strings.Join(ps, ";")
	}
	var vs []string
	for _, v := range s.k.GetVotes(ctx) {
		t := "a"
		switch v.VoteType {
		case ctypes.VOTE_TYPE_YES:
			t = "y"
		case ctypes.VOTE_TYPE_NO:
			t = "n"
		}
		vs = append(vs, fmt.Sprintf("%d:%d:%s", v.ProposalID, s.idx(v.Voter), t))
	}
	o.votes = "-"
	if len(vs) > 0 {
		o.votes = strings.Join(vs, ";")
	}
	next, err := s.k.GetNextProposalID(ctx)
	if err != nil {
		panic(err)
	}
	o.next = strconv.FormatUint(next, 10)
	o.ext = s.extObs(ctx)
	return o
}

func (s *lifeSeq) castEnc() string {
	keys := make([][2]uint64, 0, len(s.cast))
	for k := range s.cast {
		keys = append(keys, k)
	}
	sort.Slice(keys, func(i, j int) bool {
		return keys[i][0] < keys[j][0] || (keys[i][0] == keys[j][0] && keys[i][1] < keys[j][1])
	})
	if len(keys) == 0 {
		return "-"
	}
	out := make([]string, len(keys))
	for i, k := range keys {
		out[i] = fmt.Sprintf("%d:%d:%s", k[0], k[1], s.cast[k])
	}
	return strings.Join(out, ";")
}

func closeEvents(em *sdk.EventManager) string {
	var out []string
	for _, e := range em.Events() {
		if e.Type != ctypes.EventTypeProposalClose {
			continue
		}
		var pid, oc string
		for _, a := range e.Attributes {
			switch a.Key {
			case ctypes.AttributeKeyProposalID:
				pid = a.Value
			case ctypes.AttributeKeyProposalOutcome:
				oc = a.Value
			}
		}
		out = append(out, pid+":"+oc)
	}
	if len(out) == 0 {
		return "-"
	}
	return strings.Join(out, ",")
}

func outcomesSig(ev string) string {
	oc := map[string]bool{}
	for _, e := range strings.Split(ev, ",") {
		oc[e[strings.Index(e, ":")+1:]] = true
	}
	return strings.Join(c.SortedKeys(oc), "+")
}

// exec runs one committee-module operation the way baseapp runs a message and emits the case line.
func (s *lifeSeq) exec(sig, op string, f func(ctx sdk.Context) error) kapp.Class {
	pre := s.observe(s.ctx)
	castPre := s.castEnc()
	em := sdk.NewEventManager()
	cls, _ := kapp.Exec(s.ctx.WithEventManager(em), f)
	post := s.observe(s.ctx)
	ev := "-"
	if cls == kapp.OK {
		ev = closeEvents(em)
	}
	full := ""
	if sig != "" {
		full = sig + "|" + string(cls)
		if ev != "-" {
			full += "|" + outcomesSig(ev)
		}
	}
	s.out.Case(full, "c17.life", pre.coms, pre.props, pre.votes, pre.next, pre.ext, op, "=>", string(cls), post.props, post.votes, post.next, post.ext, ev, castPre, "-", "-")
	s.out.Note("life-" + strings.Fields(op)[0] + "-" + string(cls))
	return cls
}

func (s *lifeSeq) now() int64 { return s.ctx.BlockTime().UnixNano() }

// content builds the proposal content of an encoded description (on the current state: a DebtParam document takes
// the fields the harness does not vary from the stored record)
func (s *lifeSeq) content(enc string) ctypes.PubProposal {
	switch enc[0] {
	case 't':
		return govv1beta1.NewTextProposal("t", "d")
	case 'u':
		h, _ := strconv.ParseInt(enc[1:], 10, 64)
		return upgradetypes.NewSoftwareUpgradeProposal("t", "d", upgradetypes.Plan{Name: "up", Height: h})
	case 'p':
		kv := strings.SplitN(enc[1:], "=", 2)
		return paramsproposal.NewParameterChangeProposal("t", "d", []paramsproposal.ParamChange{{Subspace: "cdp", Key: kv[0], Value: `"` + kv[1] + `"`}})
	case 'c':
		d := comDesc{id: 99, members: []int{0}, perm: "G", thr: sdk.MustNewDecFromStr("0.5"), quo: sdk.ZeroDec(), dur: time.Hour}
		p := ctypes.MustNewCommitteeChangeProposal("t", "d", s.w.build(d))
		return &p
	case 'D', 'W': // community pool -> Kava Lend deposit (governance only: the deposit proposal is no PubProposal of the
		// committee module) / withdrawal of the community module's lend position
		kv := strings.SplitN(enc[1:], "=", 2)
		amt, _ := strconv.ParseInt(kv[1], 10, 64)
		coins := sdk.Coins{sdk.Coin{Denom: kv[0], Amount: sdk.NewInt(amt)}}
		if enc[0] == 'D' {
			return communitytypes.NewCommunityPoolLendDepositProposal("t", "d", coins)
		}
		return communitytypes.NewCommunityPoolLendWithdrawProposal("t", "d", coins)
	case 'd': // the WHOLE cdp DebtParam record: d<floor>_<conv>
		fc := strings.SplitN(enc[1:], "_", 2)
		m := s.debtDoc(s.ctx)
		m["debt_floor"], m["conversion_factor"] = fc[0], fc[1]
		bz, err := json.Marshal(m)
		if err != nil {
			panic(err)
		}
		return paramsproposal.NewParameterChangeProposal("t", "d", []paramsproposal.ParamChange{{Subspace: "cdp", Key: "DebtParam", Value: string(bz)}})
	}
	panic("c17: content")
}

// ownHandler: the harness's own routing of a stored proposal's content to the module handlers (used for the block
// replay and for governance-routed changes; independent of the committee keeper's router and enactment code)
func (s *lifeSeq) ownHandler(ctx sdk.Context, content ctypes.PubProposal) error {
	switch p := content.(type) {
	case *govv1beta1.TextProposal:
		return nil
	case *upgradetypes.SoftwareUpgradeProposal:
		return s.upk.ScheduleUpgrade(ctx, p.Plan)
	case *paramsproposal.ParameterChangeProposal:
		return s.pgov(ctx, p)
	case *communitytypes.CommunityPoolLendDepositProposal:
		return communitykeeper.HandleCommunityPoolLendDepositProposal(ctx, s.w.tApp.GetCommunityKeeper(), p)
	case *communitytypes.CommunityPoolLendWithdrawProposal:
		return communitykeeper.HandleCommunityPoolLendWithdrawProposal(ctx, s.w.tApp.GetCommunityKeeper(), p)
	}
	return fmt.Errorf("c17: no route for %T", content)
}

func (s *lifeSeq) genLend(kind byte) string {
	r := s.r
	d := c.Pick(r, lendDenoms)
	if r.Chance(4) {
		d = "bnb" // no money market, nothing in the pool
	}
	var amt int64
	if kind == 'W' {
		dep := s.depOf(s.ctx, d)
		amt = c.Pick(r, []int64{dep, dep, dep + 100, dep/2 + 1, dep/2 + 1, dep/3 + 1, 1, 0})
	} else {
		pool := s.poolOf(s.ctx, d)
		amt = c.Pick(r, []int64{pool, pool, pool/2 + 1, pool/2 + 1, pool/3 + 1, pool / 4, 1, pool + 1, 0})
	}
	return fmt.Sprintf("%c%s=%d", kind, d, amt)
}

// genDebt: a DebtParam document equal to the stored record except for one field ("floor" / "conv"), or both ("")
func (s *lifeSeq) genDebt(field string) string {
	r := s.r
	floor, conv := s.debtVals(s.ctx)
	v := func() string {
		if r.Chance(5) {
			return "x" // not a number: the handler fails
		}
		return c.Pick(r, []string{"7", strconv.Itoa(r.Intn(1000000) + 1), strconv.Itoa(r.Intn(1000) + 1), "0"})
	}
	switch field {
	case "floor":
		floor = v()
	case "conv":
		conv = v()
	default:
		floor, conv = v(), v()
	}
	if r.Chance(6) { // a stale document: the other field is not what the store holds
		if field == "floor" {
			conv = v()
		} else {
			floor = v()
		}
	}
	return "d" + floor + "_" + conv
}

func (s *lifeSeq) genContent(perm string) string {
	r := s.r
	pick := r.Intn(14)
	if r.Chance(70) { // mostly something the committee may enact
		switch {
		case perm == "T":
			pick = 0
		case perm == "U":
			pick = 3
		case perm == "L":
			return s.genLend('W')
		case strings.HasPrefix(perm, "F"):
			return s.genDebt(perm[1:])
		case strings.HasPrefix(perm, "K"):
			v := c.Pick(r, []string{"7", "1", strconv.Itoa(r.Intn(1000000) + 1), strconv.Itoa(r.Intn(1000000) + 1), "0"})
			return "p" + perm[1:] + "=" + v
		}
	}
	switch pick {
	case 0, 1, 2:
		return "t"
	case 3, 4:
		h := s.ctx.BlockHeight()
		return fmt.Sprintf("u%d", c.Pick(r, []int64{h + 1, h + 1, h + 2, h + 2, h + 3, h + 6, h, h, h - 1, 0, h + 30}))
	case 5:
		if r.Chance(30) {
			return "c"
		}
		fallthrough
	case 6, 7, 8, 9:
		key := c.Pick(r, lifeParamKeys)
		v := c.Pick(r, []string{"7", "1", strconv.Itoa(r.Intn(1000000) + 1), "0", "-5", "x"})
		return "p" + key + "=" + v
	case 10, 11:
		return s.genLend('W')
	default:
		return s.genDebt(c.Pick(r, []string{"floor", "conv", ""}))
	}
}

var lifePerms = []string{"G", "G", "G", "T", "U", "K" + lifeParamKeys[0], "K" + lifeParamKeys[1], "L", "Ffloor", "Fconv"}

func (s *lifeSeq) genCommittee(id uint64) comDesc {
	r := s.r
	d := comDesc{id: id, quo: sdk.ZeroDec()}
	n := r.Intn(4) + 1
	perm := r.Intn(nAcc)
	for i := 0; i < n; i++ {
		d.members = append(d.members, (perm+i)%nAcc)
	}
	d.perm = c.Pick(r, lifePerms)
	d.thr = sdk.MustNewDecFromStr(c.Pick(r, []string{"0.5", "0.5", "0.667", "1", "0.333333333333333333", "0.25", "0.25", "0.000000000000000001", "0.75"}))
	d.dur = time.Duration(c.Pick(r, []int64{0, 1, 1000, int64(time.Hour), int64(time.Hour), int64(3 * time.Second), int64(3 * time.Second), int64(3 * time.Second)}))
	d.fptp = r.Bool()
	if r.Chance(40) {
		d.token = true
		d.quo = sdk.MustNewDecFromStr(c.Pick(r, []string{"0", "0.1", "0.5", "0.047619047619047619", "1"}))
	}
	return d
}

func (s *lifeSeq) comIDs() []uint64 {
	ids := make([]uint64, 0, len(s.coms))
	for id := range s.coms {
		ids = append(ids, id)
	}
	sort.Slice(ids, func(i, j int) bool { return ids[i] < ids[j] })
	return ids
}

func (s *lifeSeq) setCom(d comDesc) {
	p := ctypes.MustNewCommitteeChangeProposal("t", "d", s.w.build(d))
	// closing pending proposals makes their contents leave the store: keep the mirror in step afterwards
	if s.exec("setcom", "setcom "+d.enc(), func(cx sdk.Context) error { return s.gov(cx, &p) }) == kapp.OK {
		s.coms[d.id] = d
	}
}

// submit: MsgSubmitProposal; returns the new proposal's id when accepted
func (s *lifeSeq) submit(cid uint64, proposer int, cont string) (uint64, bool) {
	next, _ := s.k.GetNextProposalID(s.ctx)
	prop := s.content(cont)
	op := fmt.Sprintf("submit %d %d %d %s", s.now(), proposer, cid, cont)
	s.contents[next] = cont
	cls := s.exec("submit:"+cont[:1], op, func(cx sdk.Context) error {
		m, err := ctypes.NewMsgSubmitProposal(prop, s.w.addrs[proposer], cid)
		if err != nil {
			return err
		}
		_, err = s.msg.SubmitProposal(sdk.WrapSDKContext(cx), m)
		return err
	})
	if cls != kapp.OK {
		delete(s.contents, next)
		return 0, false
	}
	s.pubs[next] = prop
	return next, true
}

func (s *lifeSeq) vote(sig string, pid uint64, voter int, vt ctypes.VoteType, vs string) {
	op := fmt.Sprintf("vote %d %d %d %s", s.now(), pid, voter, vs)
	if s.exec(sig, op, func(cx sdk.Context) error {
		_, err := s.msg.Vote(sdk.WrapSDKContext(cx), ctypes.NewMsgVote(s.w.addrs[voter], pid, vt))
		return err
	}) == kapp.OK {
		s.cast[[2]uint64{pid, uint64(voter)}] = vs
	}
}

// replay: the harness's own replay of the block on a copy of the pre-state.  For every proposal the begin blocker
// closed, in the order it closed them: the state outside the committee store AT ITS TURN (after the harness applied
// the contents of the proposals closed as Passed before it, through the module handlers directly), the verdict of the
// real Committee.HasPermissionsFor on that state, and whether the content's handler runs on that state.
// Returns the turn records and the external state at the end of the replay.
func (s *lifeSeq) replay(rctx sdk.Context, pre map[uint64]ctypes.Proposal, ev string) (string, string) {
	if ev == "-" {
		return "-", s.extObs(rctx)
	}
	var turns []string
	for _, e := range strings.Split(ev, ",") {
		i := strings.Index(e, ":")
		pid, _ := strconv.ParseUint(e[:i], 10, 64)
		oc := e[i+1:]
		p, known := pre[pid]
		content := s.pubs[pid]
		if !known || content == nil {
			continue // judged by C17_enact_once (closed-unknown-proposal)
		}
		ext := s.extObs(rctx)
		perm := "-"
		if com, found := s.k.GetCommittee(rctx, p.CommitteeID); found {
			perm = "n"
			if panicked, _ := c.Recover(func() {
				if com.HasPermissionsFor(rctx, s.w.tApp.AppCodec(), s.w.tApp.GetParamsKeeper(), content) {
					perm = "y"
				}
			}); panicked {
				perm = "p"
			}
		}
		dry := "ok" // the handler on a branch of the state at its turn, discarded
		cc, _ := rctx.CacheContext()
		if p2, _ := c.Recover(func() {
			if err := s.ownHandler(cc, content); err != nil {
				dry = "err"
			}
		}); p2 {
			dry = "err"
		}
		if oc == ctypes.Passed.String() {
			// apply it (atomically: a failing handler leaves the replay state as it was)
			kapp.Exec(rctx, func(cx sdk.Context) error { return s.ownHandler(cx, content) })
		}
		turns = append(turns, fmt.Sprintf("%d@%s@%s@%s@%s", pid, oc, perm, dry, ext))
	}
	if len(turns) == 0 {
		return "-", s.extObs(rctx)
	}
	return strings.Join(turns, "|"), s.extObs(rctx)
}

// begin: next block — time moves by dt, the committee begin blocker runs (not a message: a panic here halts the chain)
func (s *lifeSeq) begin(dt int64) (panicked bool) {
	s.ctx = s.ctx.WithBlockHeight(s.ctx.BlockHeight() + 1).WithBlockTime(s.ctx.BlockTime().Add(time.Duration(dt)))
	pre := s.observe(s.ctx)
	preProps := map[uint64]ctypes.Proposal{}
	for _, p := range s.k.GetProposals(s.ctx) {
		preProps[p.ID] = p
	}
	// the block runs on a branch of the state (as on the chain: deliver state), written back afterwards, so that the
	// harness can replay the block on the same pre-state
	bctx, write := s.ctx.CacheContext()
	em := sdk.NewEventManager()
	panicked, msg := c.Recover(func() { committee.BeginBlocker(bctx.WithEventManager(em), abci.RequestBeginBlock{}, s.k) })
	ev := closeEvents(em)
	rctx, _ := s.ctx.CacheContext()
	turns, rext := s.replay(rctx, preProps, ev)
	write()
	cls := "ok"
	if panicked {
		cls = "panic"
		if len(msg) > 160 {
			msg = msg[:160]
		}
		s.out.Violation(fmt.Sprintf("C17 begin block halts the chain (panic while processing proposals; closed before the panic: %s): %s", ev, msg))
	}
	post := s.observe(s.ctx)
	same := "-"
	if !panicked {
		same = "same"
		if rext != post.ext {
			same = "diff:" + rext
		}
	}
	sig := "begin|" + cls
	if ev != "-" {
		sig += "|" + outcomesSig(ev)
		if n := strings.Count(ev, ",") + 1; n > 1 {
			sig += fmt.Sprintf("|closed=%d", min(n, 3))
			s.out.Note("life-begin-several-closed")
			if strings.Count(ev, "Passed") > 1 {
				s.out.Note("life-begin-several-enacted")
			}
			if strings.Contains(ev, "Passed") && strings.Contains(ev[strings.Index(ev, "Passed"):], "Invalid") {
				s.out.Note("life-begin-invalid-after-enactment")
			}
		}
	}
	s.out.Case(sig, "c17.life", pre.coms, pre.props, pre.votes, pre.next, pre.ext, fmt.Sprintf("begin %d", s.now()), "=>", cls, post.props, post.votes, post.next, post.ext, ev, s.castEnc(), turns, same)
	s.out.Note("life-begin-" + cls)
	return panicked
}

// ensureCom returns a committee holding one of the given permissions, creating (or replacing) one through the
// gov-routed committee change when there is none
func (s *lifeSeq) ensureCom(perms []string, avoid uint64) uint64 {
	var cands []uint64
	for _, id := range s.comIDs() {
		for _, p := range perms {
			if s.coms[id].perm == p && id != avoid {
				cands = append(cands, id)
			}
		}
	}
	if len(cands) > 0 {
		return c.Pick(s.r, cands)
	}
	id := uint64(s.r.Intn(4) + 1)
	if id == avoid {
		id = id%4 + 1
	}
	d := s.genCommittee(id)
	d.perm = c.Pick(s.r, perms)
	d.dur = time.Duration(c.Pick(s.r, []int64{1000, int64(3 * time.Second), int64(3 * time.Second), int64(time.Hour)}))
	s.setCom(d)
	if _, ok := s.coms[id]; ok && s.coms[id].perm == d.perm {
		return id
	}
	return 0
}

// burst: several proposals submitted in the same block (to one committee, or to committees of equal or different
// durations), voted through in the same block, then the block in which they all finish.  The contents are chosen
// against the state at submission, each valid on its own: withdrawals of the same lend position,
// whole-record DebtParam changes of different fields — so that enacting the first can invalidate the
// handler or the permission of the next.
func (s *lifeSeq) burst() (panicked bool) {
	r := s.r
	theme := r.Intn(5)
	n := 2 + r.Intn(2)
	type sub struct {
		pid, cid uint64
	}
	var subs []sub
	var first uint64
	swap := r.Intn(2)
	for i := 0; i < n; i++ {
		var cid uint64
		var cont string
		avoid := uint64(0)
		if r.Chance(50) {
			avoid = first // another committee than the first proposal's
		}
		switch theme {
		case 0, 1: // withdrawals of the same lend position
			cid = s.ensureCom([]string{"L", "G"}, avoid)
			cont = s.genLend('W')
		case 2, 3: // whole-record changes of different fields of one parameter
			f := []string{"floor", "conv"}[(i+swap)%2]
			if r.Chance(25) {
				cid = s.ensureCom([]string{"G"}, avoid)
			} else {
				cid = s.ensureCom([]string{"F" + f}, avoid)
			}
			cont = s.genDebt(f)
		default: // whatever the committee may enact
			ids := s.comIDs()
			if len(ids) == 0 {
				return false
			}
			cid = c.Pick(r, ids)
			cont = s.genContent(s.coms[cid].perm)
		}
		d, ok := s.coms[cid]
		if !ok {
			continue
		}
		if first == 0 {
			first = cid
		}
		if pid, ok := s.submit(cid, c.Pick(r, d.members), cont); ok {
			subs = append(subs, sub{pid, cid})
		}
	}
	// the votes, same block: every member (member committees) / the heaviest holders (token committees)
	for _, sb := range subs {
		d, ok := s.coms[sb.cid]
		if !ok {
			continue
		}
		voters := d.members
		if d.token {
			voters = []int{5, 4, 3, 2}
		}
		for _, v := range voters {
			if r.Chance(8) {
				continue
			}
			s.vote("vote:y", sb.pid, v, ctypes.VOTE_TYPE_YES, "y")
		}
	}
	// the block in which they finish: the latest deadline (first-past-the-post proposals may finish at once)
	var dt int64
	allFptp := true
	for _, p := range s.k.GetProposals(s.ctx) {
		for _, sb := range subs {
			if p.ID == sb.pid {
				if d := p.Deadline.UnixNano() - s.now(); d > dt {
					dt = d
				}
				if !s.coms[sb.cid].fptp {
					allFptp = false
				}
			}
		}
	}
	if allFptp && r.Chance(60) {
		dt = c.Pick(r, []int64{0, 1, 500})
	} else {
		dt += c.Pick(r, []int64{0, 0, 0, 1})
	}
	s.out.Note(fmt.Sprintf("life-burst-theme-%d", theme))
	return s.begin(dt)
}

func runLifeSeq(w *lifeWorld, out *c.Out, r *c.Rng, steps int) {
	cctx, _ := w.base.CacheContext() // every sequence starts from the same genesis-derived state
	s := &lifeSeq{w: w, ctx: cctx, k: w.tApp.GetCommitteeKeeper(), coms: map[uint64]comDesc{}, contents: map[uint64]string{},
		pubs: map[uint64]ctypes.PubProposal{}, cast: map[[2]uint64]string{}, out: out, r: r}
	s.msg = ckeeper.NewMsgServerImpl(s.k)
	s.gov = committee.NewProposalHandler(s.k)
	s.pgov = params.NewParamChangeProposalHandler(w.tApp.GetParamsKeeper())
	s.upk = upgradekeeper.NewKeeper(map[int64]bool{}, w.tApp.GetKVStoreKey(upgradetypes.StoreKey), w.tApp.AppCodec(), "", nil,
		authtypes.NewModuleAddress(govtypes.ModuleName).String())
	for id := uint64(1); id <= 3; id++ {
		s.setCom(s.genCommittee(id))
	}
	for step := 0; step < steps; step++ {
		props := s.k.GetProposals(s.ctx)
		switch x := r.Intn(20); {
		case x < 4: // submit
			cid := uint64(r.Intn(4) + 1)
			if len(s.coms) > 0 && r.Chance(90) {
				cid = c.Pick(r, s.comIDs())
			}
			proposer := r.Intn(nAcc)
			perm := ""
			if d, ok := s.coms[cid]; ok {
				perm = d.perm
				if r.Chance(90) {
					proposer = c.Pick(r, d.members)
				}
			}
			s.submit(cid, proposer, s.genContent(perm))
		case x < 11: // vote
			pid := uint64(r.Intn(3) + 1)
			if len(props) > 0 && r.Chance(92) {
				pid = c.Pick(r, props).ID
			}
			voter := r.Intn(nAcc)
			token := false
			for _, p := range props {
				if d, ok := s.coms[p.CommitteeID]; ok && p.ID == pid {
					token = d.token
					if !d.token && r.Chance(88) {
						voter = c.Pick(r, d.members)
					}
				}
			}
			vt, vs := ctypes.VOTE_TYPE_YES, "y"
			if (token && r.Chance(40)) || (!token && r.Chance(8)) {
				if r.Bool() {
					vt, vs = ctypes.VOTE_TYPE_NO, "n"
				} else {
					vt, vs = ctypes.VOTE_TYPE_ABSTAIN, "a"
				}
			}
			sig := "vote:" + vs
			// re-vote with a different option: pick a vote already cast on a token-committee proposal and
			// change it (yes→no, no→yes, abstain→yes/no); heavy holders first, they move the tally across
			// the threshold / quorum
			if len(s.cast) > 0 && r.Chance(35) {
				var cands [][2]uint64
				for k := range s.cast {
					for _, p := range props {
						if d, ok := s.coms[p.CommitteeID]; ok && p.ID == k[0] && d.token {
							cands = append(cands, k)
						}
					}
				}
				sort.Slice(cands, func(i, j int) bool {
					return cands[i][1] > cands[j][1] || (cands[i][1] == cands[j][1] && cands[i][0] < cands[j][0])
				})
				if len(cands) > 0 {
					k := cands[0]
					if r.Chance(50) {
						k = c.Pick(r, cands)
					}
					pid, voter = k[0], int(k[1])
					switch s.cast[k] {
					case "y":
						vt, vs = ctypes.VOTE_TYPE_NO, "n"
					case "n":
						vt, vs = ctypes.VOTE_TYPE_YES, "y"
					default:
						if r.Bool() {
							vt, vs = ctypes.VOTE_TYPE_YES, "y"
						} else {
							vt, vs = ctypes.VOTE_TYPE_NO, "n"
						}
					}
					sig = "revote:" + s.cast[k] + ">" + vs
				}
			}
			s.vote(sig, pid, voter, vt, vs)
		case x < 15: // next block: time moves (boundary-biased around a pending deadline), begin block runs
			dt := c.Pick(r, []int64{0, 1, 500, 999, 1000, 1001, int64(time.Second), int64(3 * time.Second)})
			if len(props) > 0 && r.Chance(30) {
				d := c.Pick(r, props).Deadline.UnixNano() - s.now()
				dt = d + c.Pick(r, []int64{-1, 0, 1})
				if dt < 0 {
					dt = 0
				}
			}
			if s.begin(dt) {
				return
			}
		case x < 17: // several proposals that finish in the same block
			if s.burst() {
				return
			}
		case x < 18: // governance changes or deletes a committee while proposals are pending
			if r.Chance(35) {
				// the same committee with one member less (same kind, threshold, tally option): the votes the
				// removed member already cast must not help a pending proposal over the threshold
				var cands []comDesc
				for _, d := range s.coms {
					if !d.token && len(d.members) > 1 {
						cands = append(cands, d)
					}
				}
				sort.Slice(cands, func(i, j int) bool { return cands[i].id < cands[j].id })
				if len(cands) > 0 {
					d := c.Pick(r, cands)
					drop := r.Intn(len(d.members))
					// prefer dropping a member who has voted on a pending proposal of this committee
					for i, m := range d.members {
						for k := range s.cast {
							if int(k[1]) == m {
								drop = i
							}
						}
					}
					nd := d
					nd.members = append(append([]int{}, d.members[:drop]...), d.members[drop+1:]...)
					s.setCom(nd)
					break
				}
			}
			if r.Chance(70) {
				s.setCom(s.genCommittee(uint64(r.Intn(4) + 1)))
			} else {
				cid := uint64(r.Intn(4) + 1)
				p := ctypes.NewCommitteeDeleteProposal("t", "d", cid)
				if s.exec("delcom", fmt.Sprintf("delcom %d", cid), func(cx sdk.Context) error { return s.gov(cx, &p) }) == kapp.OK {
					delete(s.coms, cid)
				}
			}
		case x < 19: // tokens move between voters (weights are read at tally time)
			a, b := r.Intn(nAcc), r.Intn(nAcc)
			bal := w.tApp.GetBankKeeper().GetBalance(s.ctx, w.addrs[a], tallyDenom).Amount.Int64()
			amt := c.Pick(r, []int64{0, 1, bal / 2, bal})
			if a != b && amt > 0 {
				kapp.Exec(s.ctx, func(cx sdk.Context) error {
					return w.tApp.GetBankKeeper().SendCoins(cx, w.addrs[a], w.addrs[b], sdk.NewCoins(sdk.NewInt64Coin(tallyDenom, amt)))
				})
				out.Note("life-ext-transfer")
			}
		default: // governance changes shared state under pending proposals: a parameter, a DebtParam field, the lend position
			switch r.Intn(4) {
			case 0, 1:
				key := c.Pick(r, lifeParamKeys)
				v := strconv.Itoa(r.Intn(1000) + 1)
				kapp.Exec(s.ctx, func(cx sdk.Context) error {
					return s.pgov(cx, paramsproposal.NewParameterChangeProposal("t", "d", []paramsproposal.ParamChange{{Subspace: "cdp", Key: key, Value: `"` + v + `"`}}))
				})
				out.Note("life-ext-govparam")
			case 2:
				cont := s.content(s.genDebt(c.Pick(r, []string{"floor", "conv"})))
				cls, _ := kapp.Exec(s.ctx, func(cx sdk.Context) error { return s.ownHandler(cx, cont) })
				out.Note("life-ext-govdebt-" + string(cls))
			default:
				cont := s.content(s.genLend(c.Pick(r, []byte{'D', 'W'})))
				cls, _ := kapp.Exec(s.ctx, func(cx sdk.Context) error { return s.ownHandler(cx, cont) })
				out.Note("life-ext-govlend-" + string(cls))
			}
		}
		if len(s.k.GetCommittees(s.ctx)) != len(s.coms) {
			panic("c17: committee store and mirror disagree")
		}
		// drop mirror entries of proposals that left the store
		live := map[uint64]bool{}
		for _, p := range s.k.GetProposals(s.ctx) {
			live[p.ID] = true
		}
		for id := range s.contents {
			if !live[id] {
				delete(s.contents, id)
				delete(s.pubs, id)
			}
		}
	}
}

// directed scenario: sub-rules on a parameter that is a list of strings; the stored list changes
// between submission and enactment; the permission check then panics inside the begin blocker.
func runPermPanicScenario(w *lifeWorld, out *c.Out) {
	cctx, _ := w.base.CacheContext()
	k := w.tApp.GetCommitteeKeeper()
	gov := committee.NewProposalHandler(k)
	pgov := params.NewParamChangeProposalHandler(w.tApp.GetParamsKeeper())
	msg := ckeeper.NewMsgServerImpl(k)
	setDenoms := func(v string) {
		if cls, err := kapp.Exec(cctx, func(cx sdk.Context) error {
			return pgov(cx, paramsproposal.NewParameterChangeProposal("t", "d", []paramsproposal.ParamChange{{Subspace: "savings", Key: "SupportedDenoms", Value: v}}))
		}); cls != kapp.OK {
			panic(fmt.Sprintf("c17 scenario: gov param change refused: %v", err))
		}
	}
	setDenoms(`[]`)
	perm := &ctypes.ParamsChangePermission{AllowedParamsChanges: ctypes.AllowedParamsChanges{{Subspace: "savings", Key: "SupportedDenoms",
		MultiSubparamsRequirements: []ctypes.SubparamRequirement{{Key: "denom", Val: "ukava", AllowedSubparamAttrChanges: []string{"x"}}}}}}
	com := ctypes.MustNewMemberCommittee(50, "d", w.addrs[:1], []ctypes.Permission{perm}, sdk.MustNewDecFromStr("0.5"), time.Hour, ctypes.TALLY_OPTION_FIRST_PAST_THE_POST)
	ccp := ctypes.MustNewCommitteeChangeProposal("t", "d", com)
	if cls, err := kapp.Exec(cctx, func(cx sdk.Context) error { return gov(cx, &ccp) }); cls != kapp.OK {
		panic(fmt.Sprintf("c17 scenario: committee change refused: %v", err))
	}
	prop := paramsproposal.NewParameterChangeProposal("t", "d", []paramsproposal.ParamChange{{Subspace: "savings", Key: "SupportedDenoms", Value: `null`}})
	var pid uint64
	cls, serr := kapp.Exec(cctx, func(cx sdk.Context) error {
		m, err := ctypes.NewMsgSubmitProposal(prop, w.addrs[0], 50)
		if err != nil {
			return err
		}
		res, err := msg.SubmitProposal(sdk.WrapSDKContext(cx), m)
		if err == nil {
			pid = res.ProposalID
		}
		return err
	})
	out.Note("scenario-perm-panic-submit-" + string(cls))
	if cls != kapp.OK {
		ss, _ := w.tApp.GetParamsKeeper().GetSubspace("savings")
		fmt.Println("scenario submit refused:", serr, "raw =", string(ss.GetRaw(cctx, []byte("SupportedDenoms"))))
		return
	}
	kapp.Exec(cctx, func(cx sdk.Context) error {
		_, err := msg.Vote(sdk.WrapSDKContext(cx), ctypes.NewMsgVote(w.addrs[0], pid, ctypes.VOTE_TYPE_YES))
		return err
	})
	setDenoms(`["ukava"]`) // governance (or any other committee) adds a supported denom meanwhile
	panicked, pm := c.Recover(func() { committee.BeginBlocker(cctx, abci.RequestBeginBlock{}, k) })
	out.Note(fmt.Sprintf("scenario-perm-panic-begin-panicked-%v", panicked))
	if panicked {
		if len(pm) > 120 {
			pm = pm[:120]
		}
		out.Violation("C17 begin-block panic in permission check (sub-rules on a non-object parameter): " + pm)
	}
}
