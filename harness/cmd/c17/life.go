package main

// Part (b): sequences of submit / vote / advance-time+begin-block / committee change+delete / transfers on
// the real committee keeper, one self-contained case per committee-module operation.

import (
	"fmt"
	"sort"
	"strconv"
	"strings"
	"sync"
	"time"

	abci "github.com/cometbft/cometbft/abci/types"
	sdk "github.com/cosmos/cosmos-sdk/types"
	govv1beta1 "github.com/cosmos/cosmos-sdk/x/gov/types/v1beta1"
	"github.com/cosmos/cosmos-sdk/x/params"
	paramsproposal "github.com/cosmos/cosmos-sdk/x/params/types/proposal"
	upgradetypes "github.com/cosmos/cosmos-sdk/x/upgrade/types"

	"github.com/kava-labs/kava/app"
	"github.com/kava-labs/kava/x/committee"
	ckeeper "github.com/kava-labs/kava/x/committee/keeper"
	ctypes "github.com/kava-labs/kava/x/committee/types"

	c "kavaverif/harness/common"
	"kavaverif/harness/kapp"
)

const tallyDenom = "hard"
const nAcc = 6

var lifeParamKeys = []string{"SurplusThreshold", "DebtThreshold"}

type lifeWorld struct {
	tApp  app.TestApp
	base  sdk.Context
	addrs []sdk.AccAddress
}

var worldMu sync.Mutex // app.NewTestApp writes the global sdk config: build worlds one at a time

func mkLifeWorld() *lifeWorld {
	worldMu.Lock()
	defer worldMu.Unlock()
	_, addrs := app.GeneratePrivKeyAddressPairs(nAcc)
	coins := make([]sdk.Coins, nAcc)
	for i := range coins {
		coins[i] = sdk.NewCoins(sdk.NewInt64Coin(tallyDenom, int64(100*(i+1))), sdk.NewInt64Coin("ukava", 1000))
	}
	tApp := app.NewTestApp()
	gen := app.NewFundedGenStateWithCoins(tApp.AppCodec(), coins, addrs)
	tApp.InitializeFromGenesisStatesWithTime(kapp.GenTime, gen)
	ctx := tApp.NewContext(false, tmHeader(tApp.LastBlockHeight()+1, kapp.GenTime))
	return &lifeWorld{tApp: tApp, base: ctx, addrs: addrs}
}

// mirror of what the harness knows it stored (contents by proposal id; committee descriptions)
type comDesc struct {
	id       uint64
	token    bool
	members  []int
	perm     string // G T U K<key>
	thr, quo sdk.Dec
	dur      time.Duration
	fptp     bool
}

func (d comDesc) enc() string {
	ms := make([]string, len(d.members))
	for i, m := range d.members {
		ms[i] = strconv.Itoa(m)
	}
	ty := "M"
	if d.token {
		ty = "T"
	}
	mem := strings.Join(ms, ",")
	if mem == "" {
		mem = "-"
	}
	return fmt.Sprintf("%d:%s:%s:%s:%s:%s:%d:%s", d.id, ty, mem, d.perm, d.thr.BigInt().String(), d.quo.BigInt().String(), int64(d.dur), c.B(d.fptp))
}

func (w *lifeWorld) build(d comDesc) ctypes.Committee {
	var perm ctypes.Permission
	switch {
	case d.perm == "G":
		perm = &ctypes.GodPermission{}
	case d.perm == "T":
		perm = &ctypes.TextPermission{}
	case d.perm == "U":
		perm = &ctypes.SoftwareUpgradePermission{}
	default:
		perm = &ctypes.ParamsChangePermission{AllowedParamsChanges: ctypes.AllowedParamsChanges{{Subspace: "cdp", Key: d.perm[1:]}}}
	}
	members := make([]sdk.AccAddress, len(d.members))
	for i, m := range d.members {
		members[i] = w.addrs[m]
	}
	opt := ctypes.TALLY_OPTION_DEADLINE
	if d.fptp {
		opt = ctypes.TALLY_OPTION_FIRST_PAST_THE_POST
	}
	if d.token {
		return ctypes.MustNewTokenCommittee(d.id, "d", members, []ctypes.Permission{perm}, d.thr, d.dur, opt, d.quo, tallyDenom)
	}
	return ctypes.MustNewMemberCommittee(d.id, "d", members, []ctypes.Permission{perm}, d.thr, d.dur, opt)
}

type lifeSeq struct {
	w        *lifeWorld
	ctx      sdk.Context
	k        ckeeper.Keeper
	msg      ctypes.MsgServer
	gov      govv1beta1.Handler // the committee module's gov-routed handler (committee change / delete)
	pgov     govv1beta1.Handler // params handler as governance would call it
	coms     map[uint64]comDesc
	contents map[uint64]string
	cast     map[[2]uint64]string // (proposal, voter index) -> option the harness cast last; never read from the store
	out      *c.Out
	r        *c.Rng
}

func (s *lifeSeq) idx(a sdk.AccAddress) int {
	for i, x := range s.w.addrs {
		if x.Equals(a) {
			return i
		}
	}
	panic("c17: unknown address in committee store")
}

type lifeObs struct {
	coms, props, votes, next, ext string
}

func (s *lifeSeq) observe(ctx sdk.Context) lifeObs {
	var o lifeObs
	var cs []string
	ids := make([]uint64, 0, len(s.coms))
	for id := range s.coms {
		ids = append(ids, id)
	}
	sort.Slice(ids, func(i, j int) bool { return ids[i] < ids[j] })
	for _, id := range ids {
		cs = append(cs, s.coms[id].enc())
	}
	o.coms = strings.Join(cs, ";")
	var ps []string
	for _, p := range s.k.GetProposals(ctx) {
		cont, ok := s.contents[p.ID]
		if !ok {
			panic("c17: stored proposal unknown to the harness")
		}
		ps = append(ps, fmt.Sprintf("%d:%d:%d:%s", p.ID, p.CommitteeID, p.Deadline.UnixNano(), cont))
	}
	o.props = c.Strs(ps)
	if len(ps) > 0 {
		o.props = strings.Join(ps, ";")
	}
	var vs []string
	for _, v := range s.k.GetVotes(ctx) {
		t := "a"
		switch v.VoteType {
		case ctypes.VOTE_TYPE_YES:
			t = "y"
		case ctypes.VOTE_TYPE_NO:
			t = "n"
		}
		vs = append(vs, fmt.Sprintf("%d:%d:%s", v.ProposalID, s.idx(v.Voter), t))
	}
	o.votes = "-"
	if len(vs) > 0 {
		o.votes = strings.Join(vs, ";")
	}
	next, err := s.k.GetNextProposalID(ctx)
	if err != nil {
		panic(err)
	}
	o.next = strconv.FormatUint(next, 10)
	// external state: height, two cdp params, upgrade plan, tally-denom balances and supply
	var pv []string
	ss, _ := s.w.tApp.GetParamsKeeper().GetSubspace("cdp")
	for _, key := range lifeParamKeys {
		raw := strings.Trim(string(ss.GetRaw(ctx, []byte(key))), `"`)
		pv = append(pv, key+"="+raw)
	}
	plan := int64(0)
	if bz := ctx.KVStore(s.w.tApp.GetKVStoreKey(upgradetypes.StoreKey)).Get(upgradetypes.PlanKey()); bz != nil {
		var p upgradetypes.Plan
		s.w.tApp.AppCodec().MustUnmarshal(bz, &p)
		plan = p.Height
	}
	bk := s.w.tApp.GetBankKeeper()
	bals := make([]string, nAcc)
	for i, a := range s.w.addrs {
		bals[i] = bk.GetBalance(ctx, a, tallyDenom).Amount.String()
	}
	o.ext = fmt.Sprintf("%d;%s;%d;%s;%s", ctx.BlockHeight(), strings.Join(pv, ","), plan, strings.Join(bals, ","), bk.GetSupply(ctx, tallyDenom).Amount.String())
	return o
}

func (s *lifeSeq) castEnc() string {
	keys := make([][2]uint64, 0, len(s.cast))
	for k := range s.cast {
		keys = append(keys, k)
	}
	sort.Slice(keys, func(i, j int) bool {
		return keys[i][0] < keys[j][0] || (keys[i][0] == keys[j][0] && keys[i][1] < keys[j][1])
	})
	if len(keys) == 0 {
		return "-"
	}
	out := make([]string, len(keys))
	for i, k := range keys {
		out[i] = fmt.Sprintf("%d:%d:%s", k[0], k[1], s.cast[k])
	}
	return strings.Join(out, ";")
}

func closeEvents(em *sdk.EventManager) string {
	var out []string
	for _, e := range em.Events() {
		if e.Type != ctypes.EventTypeProposalClose {
			continue
		}
		var pid, oc string
		for _, a := range e.Attributes {
			switch a.Key {
			case ctypes.AttributeKeyProposalID:
				pid = a.Value
			case ctypes.AttributeKeyProposalOutcome:
				oc = a.Value
			}
		}
		out = append(out, pid+":"+oc)
	}
	if len(out) == 0 {
		return "-"
	}
	return strings.Join(out, ",")
}

// exec runs one committee-module operation the way baseapp runs a message and emits the case line.
func (s *lifeSeq) exec(sig, op string, f func(ctx sdk.Context) error) kapp.Class {
	pre := s.observe(s.ctx)
	castPre := s.castEnc()
	em := sdk.NewEventManager()
	cls, _ := kapp.Exec(s.ctx.WithEventManager(em), f)
	post := s.observe(s.ctx)
	ev := "-"
	if cls == kapp.OK {
		ev = closeEvents(em)
	}
	full := ""
	if sig != "" {
		full = sig + "|" + string(cls)
		if ev != "-" {
			oc := map[string]bool{}
			for _, e := range strings.Split(ev, ",") {
				oc[e[strings.Index(e, ":")+1:]] = true
			}
			full += "|" + strings.Join(c.SortedKeys(oc), "+")
		}
	}
	s.out.Case(full, "c17.life", pre.coms, pre.props, pre.votes, pre.next, pre.ext, op, "=>", string(cls), post.props, post.votes, post.next, post.ext, ev, castPre)
	s.out.Note("life-" + strings.Fields(op)[0] + "-" + string(cls))
	return cls
}

func (s *lifeSeq) now() int64 { return s.ctx.BlockTime().UnixNano() }

func (s *lifeSeq) content(enc string) ctypes.PubProposal {
	switch enc[0] {
	case 't':
		return govv1beta1.NewTextProposal("t", "d")
	case 'u':
		h, _ := strconv.ParseInt(enc[1:], 10, 64)
		return upgradetypes.NewSoftwareUpgradeProposal("t", "d", upgradetypes.Plan{Name: "up", Height: h})
	case 'p':
		kv := strings.SplitN(enc[1:], "=", 2)
		return paramsproposal.NewParameterChangeProposal("t", "d", []paramsproposal.ParamChange{{Subspace: "cdp", Key: kv[0], Value: `"` + kv[1] + `"`}})
	case 'c':
		d := comDesc{id: 99, members: []int{0}, perm: "G", thr: sdk.MustNewDecFromStr("0.5"), quo: sdk.ZeroDec(), dur: time.Hour}
		p := ctypes.MustNewCommitteeChangeProposal("t", "d", s.w.build(d))
		return &p
	}
	panic("c17: content")
}

func (s *lifeSeq) genContent(perm string) string {
	r := s.r
	pick := r.Intn(10)
	if r.Chance(70) { // mostly something the committee may enact
		switch {
		case perm == "T":
			pick = 0
		case perm == "U":
			pick = 3
		case strings.HasPrefix(perm, "K"):
			v := c.Pick(r, []string{"7", "1", strconv.Itoa(r.Intn(1000000) + 1), strconv.Itoa(r.Intn(1000000) + 1), "0"})
			return "p" + perm[1:] + "=" + v
		}
	}
	switch pick {
	case 0, 1, 2:
		return "t"
	case 3, 4:
		h := s.ctx.BlockHeight()
		return fmt.Sprintf("u%d", c.Pick(r, []int64{h + 1, h + 1, h + 2, h + 2, h + 3, h + 6, h, h, h - 1, 0, h + 30}))
	case 5:
		if r.Chance(30) {
			return "c"
		}
		fallthrough
	default:
		key := c.Pick(r, lifeParamKeys)
		v := c.Pick(r, []string{"7", "1", strconv.Itoa(r.Intn(1000000) + 1), "0", "-5", "x"})
		return "p" + key + "=" + v
	}
}

func (s *lifeSeq) genCommittee(id uint64) comDesc {
	r := s.r
	d := comDesc{id: id, quo: sdk.ZeroDec()}
	n := r.Intn(4) + 1
	perm := r.Intn(nAcc)
	for i := 0; i < n; i++ {
		d.members = append(d.members, (perm+i)%nAcc)
	}
	d.perm = c.Pick(r, []string{"G", "G", "T", "U", "K" + lifeParamKeys[0], "K" + lifeParamKeys[1]})
	d.thr = sdk.MustNewDecFromStr(c.Pick(r, []string{"0.5", "0.5", "0.667", "1", "0.333333333333333333", "0.25", "0.25", "0.000000000000000001", "0.75"}))
	d.dur = time.Duration(c.Pick(r, []int64{0, 1, 1000, int64(time.Hour), int64(time.Hour), int64(3 * time.Second), int64(3 * time.Second), int64(3 * time.Second)}))
	d.fptp = r.Bool()
	if r.Chance(40) {
		d.token = true
		d.quo = sdk.MustNewDecFromStr(c.Pick(r, []string{"0", "0.1", "0.5", "0.047619047619047619", "1"}))
	}
	return d
}

func runLifeSeq(w *lifeWorld, out *c.Out, r *c.Rng, steps int) {
	cctx, _ := w.base.CacheContext() // every sequence starts from the same genesis-derived state
	s := &lifeSeq{w: w, ctx: cctx, k: w.tApp.GetCommitteeKeeper(), coms: map[uint64]comDesc{}, contents: map[uint64]string{}, cast: map[[2]uint64]string{}, out: out, r: r}
	s.msg = ckeeper.NewMsgServerImpl(s.k)
	s.gov = committee.NewProposalHandler(s.k)
	s.pgov = params.NewParamChangeProposalHandler(w.tApp.GetParamsKeeper())
	setCom := func(d comDesc) {
		p := ctypes.MustNewCommitteeChangeProposal("t", "d", s.w.build(d))
		// closing pending proposals makes their contents leave the store: keep the mirror in step afterwards
		if s.exec("setcom", "setcom "+d.enc(), func(cx sdk.Context) error { return s.gov(cx, &p) }) == kapp.OK {
			s.coms[d.id] = d
		}
	}
	for id := uint64(1); id <= 3; id++ {
		setCom(s.genCommittee(id))
	}
	for step := 0; step < steps; step++ {
		props := s.k.GetProposals(s.ctx)
		switch x := r.Intn(20); {
		case x < 4: // submit
			cid := uint64(r.Intn(4) + 1)
			if len(s.coms) > 0 && r.Chance(90) {
				ids := make([]uint64, 0, len(s.coms))
				for id := range s.coms {
					ids = append(ids, id)
				}
				sort.Slice(ids, func(i, j int) bool { return ids[i] < ids[j] })
				cid = c.Pick(r, ids)
			}
			proposer := r.Intn(nAcc)
			perm := ""
			if d, ok := s.coms[cid]; ok {
				perm = d.perm
				if r.Chance(90) {
					proposer = c.Pick(r, d.members)
				}
			}
			cont := s.genContent(perm)
			next, _ := s.k.GetNextProposalID(s.ctx)
			prop := s.content(cont)
			op := fmt.Sprintf("submit %d %d %d %s", s.now(), proposer, cid, cont)
			s.contents[next] = cont
			cls := s.exec("submit:"+cont[:1], op, func(cx sdk.Context) error {
				m, err := ctypes.NewMsgSubmitProposal(prop, w.addrs[proposer], cid)
				if err != nil {
					return err
				}
				_, err = s.msg.SubmitProposal(sdk.WrapSDKContext(cx), m)
				return err
			})
			if cls != kapp.OK {
				delete(s.contents, next)
			}
		case x < 12: // vote
			pid := uint64(r.Intn(3) + 1)
			if len(props) > 0 && r.Chance(92) {
				pid = c.Pick(r, props).ID
			}
			voter := r.Intn(nAcc)
			token := false
			for _, p := range props {
				if d, ok := s.coms[p.CommitteeID]; ok && p.ID == pid {
					token = d.token
					if !d.token && r.Chance(88) {
						voter = c.Pick(r, d.members)
					}
				}
			}
			vt, vs := ctypes.VOTE_TYPE_YES, "y"
			if (token && r.Chance(40)) || (!token && r.Chance(8)) {
				if r.Bool() {
					vt, vs = ctypes.VOTE_TYPE_NO, "n"
				} else {
					vt, vs = ctypes.VOTE_TYPE_ABSTAIN, "a"
				}
			}
			sig := "vote:" + vs
			// re-vote with a different option: pick a vote already cast on a token-committee proposal and
			// change it (yes→no, no→yes, abstain→yes/no); heavy holders first, they move the tally across
			// the threshold / quorum
			if len(s.cast) > 0 && r.Chance(35) {
				var cands [][2]uint64
				for k := range s.cast {
					for _, p := range props {
						if d, ok := s.coms[p.CommitteeID]; ok && p.ID == k[0] && d.token {
							cands = append(cands, k)
						}
					}
				}
				sort.Slice(cands, func(i, j int) bool {
					return cands[i][1] > cands[j][1] || (cands[i][1] == cands[j][1] && cands[i][0] < cands[j][0])
				})
				if len(cands) > 0 {
					k := cands[0]
					if r.Chance(50) {
						k = c.Pick(r, cands)
					}
					pid, voter = k[0], int(k[1])
					switch s.cast[k] {
					case "y":
						vt, vs = ctypes.VOTE_TYPE_NO, "n"
					case "n":
						vt, vs = ctypes.VOTE_TYPE_YES, "y"
					default:
						if r.Bool() {
							vt, vs = ctypes.VOTE_TYPE_YES, "y"
						} else {
							vt, vs = ctypes.VOTE_TYPE_NO, "n"
						}
					}
					sig = "revote:" + s.cast[k] + ">" + vs
				}
			}
			op := fmt.Sprintf("vote %d %d %d %s", s.now(), pid, voter, vs)
			if s.exec(sig, op, func(cx sdk.Context) error {
				_, err := s.msg.Vote(sdk.WrapSDKContext(cx), ctypes.NewMsgVote(w.addrs[voter], pid, vt))
				return err
			}) == kapp.OK {
				s.cast[[2]uint64{pid, uint64(voter)}] = vs
			}
		case x < 17: // next block: time moves (boundary-biased around a pending deadline), begin block runs
			dt := c.Pick(r, []int64{0, 1, 500, 999, 1000, 1001, int64(time.Second), int64(3 * time.Second)})
			if len(props) > 0 && r.Chance(30) {
				d := c.Pick(r, props).Deadline.UnixNano() - s.now()
				dt = d + c.Pick(r, []int64{-1, 0, 1})
				if dt < 0 {
					dt = 0
				}
			}
			s.ctx = s.ctx.WithBlockHeight(s.ctx.BlockHeight() + 1).WithBlockTime(s.ctx.BlockTime().Add(time.Duration(dt)))
			// begin block: not a message — a panic here halts the chain
			pre := s.observe(s.ctx)
			em := sdk.NewEventManager()
			panicked, msg := c.Recover(func() { committee.BeginBlocker(s.ctx.WithEventManager(em), abci.RequestBeginBlock{}, s.k) })
			cls := "ok"
			if panicked {
				cls = "panic"
				out.Violation("C17 begin-block panic: " + msg)
			}
			post := s.observe(s.ctx)
			ev := closeEvents(em)
			sig := "begin|" + cls
			if ev != "-" {
				oc := map[string]bool{}
				for _, e := range strings.Split(ev, ",") {
					oc[e[strings.Index(e, ":")+1:]] = true
				}
				sig += "|" + strings.Join(c.SortedKeys(oc), "+")
			}
			out.Case(sig, "c17.life", pre.coms, pre.props, pre.votes, pre.next, pre.ext, fmt.Sprintf("begin %d", s.now()), "=>", cls, post.props, post.votes, post.next, post.ext, ev, s.castEnc())
			out.Note("life-begin-" + cls)
			if panicked {
				return
			}
		case x < 18: // governance changes or deletes a committee while proposals are pending
			if r.Chance(70) {
				setCom(s.genCommittee(uint64(r.Intn(4) + 1)))
			} else {
				cid := uint64(r.Intn(4) + 1)
				p := ctypes.NewCommitteeDeleteProposal("t", "d", cid)
				if s.exec("delcom", fmt.Sprintf("delcom %d", cid), func(cx sdk.Context) error { return s.gov(cx, &p) }) == kapp.OK {
					delete(s.coms, cid)
				}
			}
		case x < 19: // tokens move between voters (weights are read at tally time)
			a, b := r.Intn(nAcc), r.Intn(nAcc)
			bal := w.tApp.GetBankKeeper().GetBalance(s.ctx, w.addrs[a], tallyDenom).Amount.Int64()
			amt := c.Pick(r, []int64{0, 1, bal / 2, bal})
			if a != b && amt > 0 {
				kapp.Exec(s.ctx, func(cx sdk.Context) error {
					return w.tApp.GetBankKeeper().SendCoins(cx, w.addrs[a], w.addrs[b], sdk.NewCoins(sdk.NewInt64Coin(tallyDenom, amt)))
				})
				out.Note("life-ext-transfer")
			}
		default: // governance changes a parameter under a pending proposal
			key := c.Pick(r, lifeParamKeys)
			v := strconv.Itoa(r.Intn(1000) + 1)
			kapp.Exec(s.ctx, func(cx sdk.Context) error {
				return s.pgov(cx, paramsproposal.NewParameterChangeProposal("t", "d", []paramsproposal.ParamChange{{Subspace: "cdp", Key: key, Value: `"` + v + `"`}}))
			})
			out.Note("life-ext-govparam")
		}
		if len(s.k.GetCommittees(s.ctx)) != len(s.coms) {
			panic("c17: committee store and mirror disagree")
		}
		// drop mirror entries of proposals that left the store
		live := map[uint64]bool{}
		for _, p := range s.k.GetProposals(s.ctx) {
			live[p.ID] = true
		}
		for id := range s.contents {
			if !live[id] {
				delete(s.contents, id)
			}
		}
	}
}

// directed scenario: sub-rules on a parameter that is a list of strings; the stored list changes
// between submission and enactment; the permission check then panics inside the begin blocker.
func runPermPanicScenario(w *lifeWorld, out *c.Out) {
	cctx, _ := w.base.CacheContext()
	k := w.tApp.GetCommitteeKeeper()
	gov := committee.NewProposalHandler(k)
	pgov := params.NewParamChangeProposalHandler(w.tApp.GetParamsKeeper())
	msg := ckeeper.NewMsgServerImpl(k)
	setDenoms := func(v string) {
		if cls, err := kapp.Exec(cctx, func(cx sdk.Context) error {
			return pgov(cx, paramsproposal.NewParameterChangeProposal("t", "d", []paramsproposal.ParamChange{{Subspace: "savings", Key: "SupportedDenoms", Value: v}}))
		}); cls != kapp.OK {
			panic(fmt.Sprintf("c17 scenario: gov param change refused: %v", err))
		}
	}
	setDenoms(`[]`)
	perm := &ctypes.ParamsChangePermission{AllowedParamsChanges: ctypes.AllowedParamsChanges{{Subspace: "savings", Key: "SupportedDenoms",
		MultiSubparamsRequirements: []ctypes.SubparamRequirement{{Key: "denom", Val: "ukava", AllowedSubparamAttrChanges: []string{"x"}}}}}}
	com := ctypes.MustNewMemberCommittee(50, "d", w.addrs[:1], []ctypes.Permission{perm}, sdk.MustNewDecFromStr("0.5"), time.Hour, ctypes.TALLY_OPTION_FIRST_PAST_THE_POST)
	ccp := ctypes.MustNewCommitteeChangeProposal("t", "d", com)
	if cls, err := kapp.Exec(cctx, func(cx sdk.Context) error { return gov(cx, &ccp) }); cls != kapp.OK {
		panic(fmt.Sprintf("c17 scenario: committee change refused: %v", err))
	}
	prop := paramsproposal.NewParameterChangeProposal("t", "d", []paramsproposal.ParamChange{{Subspace: "savings", Key: "SupportedDenoms", Value: `null`}})
	var pid uint64
	cls, serr := kapp.Exec(cctx, func(cx sdk.Context) error {
		m, err := ctypes.NewMsgSubmitProposal(prop, w.addrs[0], 50)
		if err != nil {
			return err
		}
		res, err := msg.SubmitProposal(sdk.WrapSDKContext(cx), m)
		if err == nil {
			pid = res.ProposalID
		}
		return err
	})
	out.Note("scenario-perm-panic-submit-" + string(cls))
	if cls != kapp.OK {
		ss, _ := w.tApp.GetParamsKeeper().GetSubspace("savings")
		fmt.Println("scenario submit refused:", serr, "raw =", string(ss.GetRaw(cctx, []byte("SupportedDenoms"))))
		return
	}
	kapp.Exec(cctx, func(cx sdk.Context) error {
		_, err := msg.Vote(sdk.WrapSDKContext(cx), ctypes.NewMsgVote(w.addrs[0], pid, ctypes.VOTE_TYPE_YES))
		return err
	})
	setDenoms(`["ukava"]`) // governance (or any other committee) adds a supported denom meanwhile
	panicked, pm := c.Recover(func() { committee.BeginBlocker(cctx, abci.RequestBeginBlock{}, k) })
	out.Note(fmt.Sprintf("scenario-perm-panic-begin-panicked-%v", panicked))
	if panicked {
		if len(pm) > 120 {
			pm = pm[:120]
		}
		out.Violation("C17 begin-block panic in permission check (sub-rules on a non-object parameter): " + pm)
	}
}
