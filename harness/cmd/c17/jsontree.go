package main

// JSON documents as ordered trees (duplicate keys and key order preserved), a serialiser that can
// produce those documents as text, and the encoder that turns the text — as encoding/json's own
// tokenizer reads it — into the line-protocol form the Lean driver parses.

import (
	"bytes"
	"encoding/hex"
	"encoding/json"
	"fmt"
	"io"
	"strconv"
	"strings"
)

type kind int

const (
	kNull kind = iota
	kBool
	kNum // text is the literal as written
	kStr
	kArr
	kObj
)

type node struct {
	k    kind
	b    bool
	text string // number literal or string value
	arr  []*node
	keys []string // object keys in order (duplicates allowed)
	vals []*node
}

func nNull() *node           { return &node{k: kNull} }
func nBool(b bool) *node     { return &node{k: kBool, b: b} }
func nNum(lit string) *node  { return &node{k: kNum, text: lit} }
func nStr(s string) *node    { return &node{k: kStr, text: s} }
func nArr(xs ...*node) *node { return &node{k: kArr, arr: xs} }
func nObj() *node            { return &node{k: kObj} }

func (n *node) set(k string, v *node) *node { n.keys = append(n.keys, k); n.vals = append(n.vals, v); return n }

func (n *node) clone() *node {
	if n == nil {
		return nil
	}
	c := &node{k: n.k, b: n.b, text: n.text}
	for _, x := range n.arr {
		c.arr = append(c.arr, x.clone())
	}
	c.keys = append(c.keys, n.keys...)
	for _, x := range n.vals {
		c.vals = append(c.vals, x.clone())
	}
	return c
}

// find returns the index of the LAST occurrence of key (what both decoders use), or -1.
func (n *node) find(k string) int {
	for i := len(n.keys) - 1; i >= 0; i-- {
		if n.keys[i] == k {
			return i
		}
	}
	return -1
}

func (n *node) del(i int) {
	n.keys = append(n.keys[:i:i], n.keys[i+1:]...)
	n.vals = append(n.vals[:i:i], n.vals[i+1:]...)
}

// parseTree parses JSON text with encoding/json's tokenizer, keeping order and duplicates.
// ok=false when the text is not valid JSON for encoding/json.
func parseTree(text string) (*node, bool) {
	if !json.Valid([]byte(text)) {
		return nil, false
	}
	dec := json.NewDecoder(strings.NewReader(text))
	dec.UseNumber()
	n, err := parseValue(dec)
	if err != nil {
		return nil, false
	}
	if _, err := dec.Token(); err != io.EOF {
		return nil, false
	}
	return n, true
}

func parseValue(dec *json.Decoder) (*node, error) {
	tok, err := dec.Token()
	if err != nil {
		return nil, err
	}
	switch t := tok.(type) {
	case nil:
		return nNull(), nil
	case bool:
		return nBool(t), nil
	case json.Number:
		return nNum(string(t)), nil
	case string:
		return nStr(t), nil
	case json.Delim:
		switch t {
		case '[':
			n := nArr()
			for dec.More() {
				v, err := parseValue(dec)
				if err != nil {
					return nil, err
				}
				n.arr = append(n.arr, v)
			}
			if _, err := dec.Token(); err != nil {
				return nil, err
			}
			return n, nil
		case '{':
			n := nObj()
			for dec.More() {
				kt, err := dec.Token()
				if err != nil {
					return nil, err
				}
				ks, ok := kt.(string)
				if !ok {
					return nil, fmt.Errorf("non-string key")
				}
				v, err := parseValue(dec)
				if err != nil {
					return nil, err
				}
				n.set(ks, v)
			}
			if _, err := dec.Token(); err != nil {
				return nil, err
			}
			return n, nil
		}
	}
	return nil, fmt.Errorf("unexpected token %v", tok)
}

// text serialises the tree. style bit 0: spaces/newline-free padding; bit 1: \u-escape the first
// character of every key (same key after decoding).
func (n *node) textStyle(style int) string {
	var sb strings.Builder
	n.write(&sb, style)
	return sb.String()
}

func (n *node) String() string { return n.textStyle(0) }

func quote(s string, esc bool) string {
	b, _ := json.Marshal(s)
	if esc && len(s) > 0 && ((s[0] >= 'a' && s[0] <= 'z') || (s[0] >= 'A' && s[0] <= 'Z')) {
		return fmt.Sprintf("\"\\u%04x%s", s[0], string(b[2:]))
	}
	return string(b)
}

func (n *node) write(sb *strings.Builder, style int) {
	sp := ""
	if style&1 != 0 {
		sp = " "
	}
	switch n.k {
	case kNull:
		sb.WriteString("null")
	case kBool:
		sb.WriteString(strconv.FormatBool(n.b))
	case kNum:
		sb.WriteString(n.text)
	case kStr:
		sb.WriteString(quote(n.text, false))
	case kArr:
		sb.WriteString("[" + sp)
		for i, x := range n.arr {
			if i > 0 {
				sb.WriteString("," + sp)
			}
			x.write(sb, style)
		}
		sb.WriteString(sp + "]")
	case kObj:
		sb.WriteString("{" + sp)
		for i := range n.keys {
			if i > 0 {
				sb.WriteString("," + sp)
			}
			sb.WriteString(quote(n.keys[i], style&2 != 0))
			sb.WriteString(":" + sp)
			n.vals[i].write(sb, style)
		}
		sb.WriteString(sp + "}")
	}
}

// encodeDoc: the line-protocol form of JSON text as encoding/json reads it; "!" when json.Unmarshal
// into interface{}-typed destinations would return an error (invalid text, number outside float64).
func encodeDoc(text string) string {
	n, ok := parseTree(text)
	if !ok {
		return "!"
	}
	var sb bytes.Buffer
	if !encNode(&sb, n) {
		return "!"
	}
	return sb.String()
}

func hx(s string) string { return hex.EncodeToString([]byte(s)) }

func encNode(sb *bytes.Buffer, n *node) bool {
	switch n.k {
	case kNull:
		sb.WriteByte('n')
	case kBool:
		if n.b {
			sb.WriteByte('t')
		} else {
			sb.WriteByte('f')
		}
	case kNum:
		f, err := strconv.ParseFloat(n.text, 64)
		if err != nil {
			return false
		}
		if f == 0 {
			f = 0 // -0 == 0 for reflect.DeepEqual
		}
		sb.WriteString("d" + hx(strconv.FormatFloat(f, 'g', -1, 64)) + ".")
	case kStr:
		sb.WriteString("s" + hx(n.text) + ".")
	case kArr:
		sb.WriteByte('[')
		for _, x := range n.arr {
			if !encNode(sb, x) {
				return false
			}
		}
		sb.WriteByte(']')
	case kObj:
		sb.WriteByte('{')
		for i := range n.keys {
			sb.WriteString(hx(n.keys[i]) + ".")
			if !encNode(sb, n.vals[i]) {
				return false
			}
		}
		sb.WriteByte('}')
	}
	return true
}
