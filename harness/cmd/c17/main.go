// c17: correspondence harness for property C17 (committees).
//
//	(a) c17.apc / c17.has — the real permission checker (verif hook on allowsParamChange, and
//	    Committee.HasPermissionsFor) and the real params proposal handler on real subspaces (cdp collateral
//	    params, debt param, global debt limit, hard money markets, pricefeed markets, bep3 asset params, and
//	    three non-object parameters), fed documents from a JSON mutator; for every accepted document the raw
//	    stored value before and after the real handler is recorded.
//	(b) c17.life — sequences of submit / vote / next block / committee change+delete / transfers on the real
//	    keeper, msg server, gov-routed committee handler and BeginBlocker; one self-contained case per step.
//	    Proposal contents read and write shared state (the community module's Kava Lend position, the whole cdp
//	    DebtParam record under one-field permissions); bursts make several proposals finish in the same block;
//	    every begin block is replayed by the harness itself to record the state at each closed proposal's turn.
//
// encoding/json is a trusted dependency: documents are handed to the Lean driver as encoding/json's own
// tokenizer reads them (jsontree.go).
package main

import (
	"time"

	tmproto "github.com/cometbft/cometbft/proto/tendermint/types"

	"github.com/kava-labs/kava/app"

	c "kavaverif/harness/common"
	"kavaverif/harness/kapp"
)

func tmHeader(h int64, t time.Time) tmproto.Header {
	return tmproto.Header{Height: h, Time: t, ChainID: app.TestChainId}
}

func main() {
	out := c.NewOut(c.OutPath())
	defer out.Close()
	r := c.NewRng(c.Seed())

	// (a) permission checker vs applier
	pw := mkPermWorld()
	runApcCases(pw, out, r.Fork(1), c.Budget(12000, 600000))
	runHasCases(pw, out, r.Fork(2), c.Budget(3000, 150000))

	// (b) lifecycle
	nseq := c.Budget(120, 6000)
	kapp.RunSeqs(nseq, c.Workers(), r.Fork(3), mkLifeWorld, func(w *lifeWorld, seq int, rr *c.Rng) {
		runLifeSeq(w, out, rr, 60)
	})
	runPermPanicScenario(mkLifeWorld(), out)
}
