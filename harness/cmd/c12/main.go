// c12: correspondence harness for x/liquid, x/router and the governance tally handler (property C12).
//
// Every sequence builds, from genesis and only through real keepers / message servers, a small chain:
// three validators (healthy, slashed, jailed → unbonding → unbonded), three delegators, two accounts that
// never delegate, derivative mints and burns down to one unit interleaved with delegate / undelegate /
// redelegate / slash / jail / end-block events, bank sends of derivatives, earn and savings deposits,
// x/router's four composite messages, and proposals voted by mixed voter sets and tallied by the real
// app.TallyHandler.  One self-contained case line is printed per operation:
//
//	c12.xfer  one validator's slice before/after a mint, burn, router message or staking message
//	c12.inv   all validators after any other event (backing and empty-delegation predicates only)
//	c12.tally the snapshot the tally handler reads, and its result
package main

import (
	"fmt"
	"math/big"
	"os"
	"sort"
	"strings"
	"time"

	sdkmath "cosmossdk.io/math"
	"github.com/cosmos/cosmos-sdk/crypto/keys/ed25519"
	sdk "github.com/cosmos/cosmos-sdk/types"
	govkeeper "github.com/cosmos/cosmos-sdk/x/gov/keeper"
	govv1 "github.com/cosmos/cosmos-sdk/x/gov/types/v1"
	govv1beta1 "github.com/cosmos/cosmos-sdk/x/gov/types/v1beta1"
	"github.com/cosmos/cosmos-sdk/x/staking"
	stakingkeeper "github.com/cosmos/cosmos-sdk/x/staking/keeper"
	stakingtypes "github.com/cosmos/cosmos-sdk/x/staking/types"

	"github.com/kava-labs/kava/app"
	earntypes "github.com/kava-labs/kava/x/earn/types"
	liquidkeeper "github.com/kava-labs/kava/x/liquid/keeper"
	liquidtypes "github.com/kava-labs/kava/x/liquid/types"
	routerkeeper "github.com/kava-labs/kava/x/router/keeper"
	routertypes "github.com/kava-labs/kava/x/router/types"

	c "kavaverif/harness/common"
	"kavaverif/harness/kapp"
)

var P = new(big.Int).Exp(big.NewInt(10), big.NewInt(18), nil)

func bi(x int64) *big.Int { return big.NewInt(x) }

type world struct {
	tApp app.TestApp
	base sdk.Context
}

func mkWorld() *world {
	tApp, ctx := kapp.NewApp()
	sk := tApp.GetStakingKeeper()
	sp := sk.GetParams(ctx)
	sp.BondDenom = "ukava"
	must(sk.SetParams(ctx, sp))
	// allow derivative deposits in earn and savings (as on mainnet)
	ek := tApp.GetEarnKeeper()
	ep := ek.GetParams(ctx)
	ep.AllowedVaults = append(ep.AllowedVaults, earntypes.NewAllowedVault(liquidtypes.DefaultDerivativeDenom,
		earntypes.StrategyTypes{earntypes.STRATEGY_TYPE_SAVINGS}, false, nil))
	ek.SetParams(ctx, ep)
	svk := tApp.GetSavingsKeeper()
	svp := svk.GetParams(ctx)
	svp.SupportedDenoms = append(svp.SupportedDenoms, liquidtypes.DefaultDerivativeDenom)
	svk.SetParams(ctx, svp)
	return &world{tApp: tApp, base: ctx}
}

// ------------------------------------------------------------------ one sequence

type seqSt struct {
	w      *world
	ctx    sdk.Context
	out    *c.Out
	r      *c.Rng
	seq    int
	vals   []sdk.ValAddress // our validators (index = model index)
	opers  []sdk.AccAddress
	users  []sdk.AccAddress // 0..2 delegators, 3..4 pure holders, then the validator operators
	module sdk.AccAddress
	jailed []bool
	nUbd   map[string]int
	nRed   map[string]int
	opNo   int
}

func (s *seqSt) sk() *stakingkeeper.Keeper { return s.w.tApp.GetStakingKeeper() }
func (s *seqSt) lk() liquidkeeper.Keeper   { return s.w.tApp.GetLiquidKeeper() }
func (s *seqSt) denom(v int) string        { return s.lk().GetLiquidStakingTokenDenom(s.vals[v]) }
func ukava(x *big.Int) sdk.Coin            { return sdk.NewCoin("ukava", sdkmath.NewIntFromBigInt(x)) }
func (s *seqSt) bkava(v int, x *big.Int) sdk.Coin {
	return sdk.NewCoin(s.denom(v), sdkmath.NewIntFromBigInt(x))
}

func addrFrom(r *c.Rng) sdk.AccAddress {
	b := make([]byte, 20)
	for i := 0; i < 20; i += 8 {
		x := r.U64()
		for j := 0; j < 8 && i+j < 20; j++ {
			b[i+j] = byte(x >> (8 * j))
		}
	}
	return sdk.AccAddress(b)
}

func (s *seqSt) newAccount() sdk.AccAddress {
	a := addrFrom(s.r)
	ak := s.w.tApp.GetAccountKeeper()
	ak.SetAccount(s.ctx, ak.NewAccountWithAddress(s.ctx, a))
	must(s.w.tApp.FundAccount(s.ctx, a, sdk.NewCoins(sdk.NewInt64Coin("ukava", 1e15))))
	return a
}

func (s *seqSt) endBlock(advance time.Duration) {
	s.ctx = s.ctx.WithBlockHeight(s.ctx.BlockHeight() + 1).WithBlockTime(s.ctx.BlockTime().Add(advance))
	staking.EndBlocker(s.ctx, s.sk())
}

func (s *seqSt) validator(v int) (stakingtypes.Validator, bool) {
	return s.sk().GetValidator(s.ctx, s.vals[v])
}

// slash burns exactly `burn` tokens of validator v through the real Slash (infraction at the current height)
func (s *seqSt) slash(v int, burn *big.Int) bool {
	val, ok := s.validator(v)
	if !ok || val.IsUnbonded() || burn.Sign() <= 0 {
		return false
	}
	cons, err := val.GetConsAddr()
	must(err)
	// amount = 10^6 · power; factor = burn / (10^6 · power) must be exact at 18 decimals
	power := int64(1)
	for new(big.Int).Mul(bi(power), bi(1e6)).Cmp(burn) < 0 {
		power *= 10
	}
	f := sdk.NewDecFromBigInt(burn).Quo(sdk.NewDecFromInt(sdkmath.NewInt(power).MulRaw(1e6)))
	cls, _ := kapp.Exec(s.ctx, func(cx sdk.Context) error { s.sk().Slash(cx, cons, cx.BlockHeight(), power, f); return nil })
	return cls == kapp.OK
}

func (s *seqSt) setup() {
	r := s.r
	ak := s.w.tApp.GetAccountKeeper()
	s.module = ak.GetModuleAddress(liquidtypes.ModuleAccountName)
	s.nUbd, s.nRed = map[string]int{}, map[string]int{}
	for i := 0; i < 5; i++ {
		s.users = append(s.users, s.newAccount())
	}
	msgSrv := stakingkeeper.NewMsgServerImpl(s.sk())
	for i := 0; i < 3; i++ {
		op := s.newAccount()
		var self int64
		switch {
		case r.Chance(12):
			self = r.Range(20, 5000) // never reaches one unit of consensus power: stays unbonded
		case r.Chance(30):
			self = r.Range(1_000_000, 3_000_000)
		default:
			self = r.Range(1_000_000, 400_000_000)
		}
		minSelf := int64(1)
		if r.Chance(40) {
			minSelf = self/2 + 1
		}
		secret := make([]byte, 8)
		for j := range secret {
			secret[j] = byte(r.U64())
		}
		msg, err := stakingtypes.NewMsgCreateValidator(sdk.ValAddress(op), ed25519.GenPrivKeyFromSecret(append(secret, byte(s.seq), byte(i))).PubKey(),
			sdk.NewInt64Coin("ukava", self), stakingtypes.Description{Moniker: fmt.Sprintf("v%d", i)},
			stakingtypes.NewCommissionRates(sdk.ZeroDec(), sdk.ZeroDec(), sdk.ZeroDec()), sdkmath.NewInt(minSelf))
		must(err)
		_, err = msgSrv.CreateValidator(sdk.WrapSDKContext(s.ctx), msg)
		must(err)
		s.vals = append(s.vals, sdk.ValAddress(op))
		s.opers = append(s.opers, op)
		s.users = append(s.users, op)
		s.jailed = append(s.jailed, false)
	}
	s.endBlock(time.Second)
	// initial delegations
	for d := 0; d < 3; d++ {
		for v := 0; v < 3; v++ {
			if r.Chance(75) {
				val, _ := s.validator(v)
				var amt int64
				switch {
				case val.Tokens.LT(sdkmath.NewInt(1_000_000)):
					amt = r.Range(1, 3000)
				case r.Chance(15): // a whale: several times the validator's own stake
					amt = val.Tokens.Int64() * r.Range(3, 20)
				default:
					amt = r.Range(1, 200_000_000)
				}
				s.stakingMsg("delegate", d, v, -1, bi(amt), false)
			}
		}
	}
	s.endBlock(time.Second)
	// the designated histories: validator 1 slashed (7 % unless varied), validator 2 jailed
	if r.Chance(85) {
		s.doSlash(1, r.Chance(70))
	}
	if r.Chance(60) {
		s.doJail(2)
	}
}

func (s *seqSt) doSlash(v int, seven bool) {
	val, ok := s.validator(v)
	if !ok || !val.Tokens.IsPositive() {
		return
	}
	t := val.Tokens.BigInt()
	var burn *big.Int
	if seven {
		burn = new(big.Int).Div(new(big.Int).Mul(t, bi(7)), bi(100))
	} else {
		switch s.r.Intn(4) {
		case 0:
			burn = bi(1)
		case 1:
			burn = new(big.Int).Div(t, bi(2))
		case 2:
			burn = new(big.Int).Div(t, bi(10000))
		default:
			burn = s.r.BigBelow(new(big.Int).Div(t, bi(3)))
		}
	}
	if s.slash(v, burn) {
		s.out.Note("event:slash")
		s.emitInv("slash")
	}
}

func (s *seqSt) doJail(v int) {
	val, ok := s.validator(v)
	if !ok || val.Jailed || val.IsUnbonded() {
		return
	}
	cons, _ := val.GetConsAddr()
	cls, _ := kapp.Exec(s.ctx, func(cx sdk.Context) error { s.sk().Jail(cx, cons); return nil })
	if cls == kapp.OK {
		s.jailed[v] = true
		s.out.Note("event:jail")
		s.endBlock(time.Second)
		s.emitInv("jail")
	}
}

func (s *seqSt) doUnjail(v int) {
	val, ok := s.validator(v)
	if !ok || !val.Jailed {
		return
	}
	cons, _ := val.GetConsAddr()
	cls, _ := kapp.Exec(s.ctx, func(cx sdk.Context) error { s.sk().Unjail(cx, cons); return nil })
	if cls == kapp.OK {
		s.jailed[v] = false
		s.out.Note("event:unjail")
		s.endBlock(time.Second)
		s.emitInv("unjail")
	}
}

// ------------------------------------------------------------------ observation of one validator's slice

type slice struct {
	found          bool
	tokens, shares *big.Int
	status         int
	minSelf        *big.Int
	jailed, isOper bool
	delU, delM     *big.Int // nil = no delegation record
	redelU, redelM bool
	ubdU, ubdM     *big.Int
	nRedU          int
	balU, earnU    *big.Int
	balM, supply   *big.Int
}

func statusNo(st stakingtypes.BondStatus) int {
	switch st {
	case stakingtypes.Bonded:
		return 2
	case stakingtypes.Unbonding:
		return 1
	default:
		return 0
	}
}

func (s *seqSt) ubdBalance(ctx sdk.Context, d sdk.AccAddress, v sdk.ValAddress) *big.Int {
	t := bi(0)
	if u, ok := s.sk().GetUnbondingDelegation(ctx, d, v); ok {
		for _, e := range u.Entries {
			t.Add(t, e.Balance.BigInt())
		}
	}
	return t
}

func (s *seqSt) earnValue(ctx sdk.Context, denom string, a sdk.AccAddress) *big.Int {
	ek := s.w.tApp.GetEarnKeeper()
	coin, err := ek.GetVaultAccountValue(ctx, denom, a)
	if err != nil {
		return bi(0)
	}
	return coin.Amount.BigInt()
}

func (s *seqSt) observe(ctx sdk.Context, v int, u sdk.AccAddress) slice {
	return s.observeAt(ctx, s.vals[v], u)
}

// observeAt: the slice stored under any validator address (also one that is not ours, or that does not exist)
func (s *seqSt) observeAt(ctx sdk.Context, va sdk.ValAddress, u sdk.AccAddress) slice {
	sk, bk := s.sk(), s.w.tApp.GetBankKeeper()
	var o slice
	o.tokens, o.shares, o.minSelf = bi(0), bi(0), bi(0)
	if val, ok := sk.GetValidator(ctx, va); ok {
		o.found = true
		o.tokens, o.shares, o.status = val.Tokens.BigInt(), val.DelegatorShares.BigInt(), statusNo(val.Status)
		o.minSelf, o.jailed = val.MinSelfDelegation.BigInt(), val.Jailed
	}
	o.isOper = u.Equals(va)
	if d, ok := sk.GetDelegation(ctx, u, va); ok {
		o.delU = d.Shares.BigInt()
	}
	if d, ok := sk.GetDelegation(ctx, s.module, va); ok {
		o.delM = d.Shares.BigInt()
	}
	o.redelU = sk.HasReceivingRedelegation(ctx, u, va)
	o.redelM = sk.HasReceivingRedelegation(ctx, s.module, va)
	o.ubdU, o.ubdM = s.ubdBalance(ctx, u, va), s.ubdBalance(ctx, s.module, va)
	for _, red := range sk.GetRedelegations(ctx, u, 1000) {
		o.nRedU += len(red.Entries)
	}
	dn := s.lk().GetLiquidStakingTokenDenom(va)
	o.balU, o.balM = bk.GetBalance(ctx, u, dn).Amount.BigInt(), bk.GetBalance(ctx, s.module, dn).Amount.BigInt()
	o.earnU = s.earnValue(ctx, dn, u)
	o.supply = bk.GetSupply(ctx, dn).Amount.BigInt()
	return o
}

func optS(x *big.Int) string {
	if x == nil {
		return "-"
	}
	return x.String()
}

func (o slice) pre() []string {
	return []string{c.B(o.found), o.tokens.String(), o.shares.String(), fmt.Sprint(o.status), o.minSelf.String(), c.B(o.jailed), c.B(o.isOper),
		optS(o.delU), optS(o.delM), c.B(o.redelU), c.B(o.redelM), o.ubdU.String(), o.ubdM.String(), fmt.Sprint(o.nRedU),
		o.balU.String(), o.earnU.String(), o.balM.String(), o.supply.String()}
}

func (o slice) post() []string {
	return []string{c.B(o.found), o.tokens.String(), o.shares.String(), fmt.Sprint(o.status), c.B(o.jailed),
		optS(o.delU), optS(o.delM), o.ubdU.String(), o.ubdM.String(), fmt.Sprint(o.nRedU),
		o.balU.String(), o.earnU.String(), o.balM.String(), o.supply.String()}
}

func rateClass(o slice) string {
	if !o.found || o.shares.Sign() == 0 {
		return "none"
	}
	switch new(big.Int).Mul(o.tokens, P).Cmp(o.shares) {
	case 0:
		return "one"
	case -1:
		return "below"
	}
	return "above"
}

// emitXfer prints one c12.xfer case. aux: earnOk (router withdrawals) / fromBonded (redelin); ret: value returned.
func (s *seqSt) emitXfer(kind string, v int, pre, post slice, denomOk bool, amount *big.Int, aux bool, cls kapp.Class, err error) {
	sig := ""
	if cls != kapp.Err || s.r.Chance(50) {
		zero := "n"
		if post.delU != nil && post.delU.Sign() == 0 || post.delM != nil && post.delM.Sign() == 0 {
			zero = "Z"
		}
		sig = fmt.Sprintf("%s|%s|rate=%s|st=%d|oper=%v|delU=%v|delM=%v|last=%v|%s", kind, cls, rateClass(pre), pre.status, pre.isOper,
			pre.delU != nil, pre.delM != nil, post.found && post.tokens.Cmp(pre.tokens) == 0 && post.shares.Cmp(pre.shares) != 0, zero)
		if cls == kapp.Err {
			sig = fmt.Sprintf("%s|err|%s", kind, errClass(err))
		}
	}
	if err != nil {
		s.out.Note("err:" + kind + ":" + errClass(err))
		if cls == kapp.Panic {
			s.out.Violation(fmt.Sprintf("seq=%d op=%d %s panicked: %v", s.seq, s.opNo, kind, err))
			fmt.Fprintf(os.Stderr, "c12: seq=%d op=%d %s panicked: %v\n", s.seq, s.opNo, kind, err)
		}
	}
	// x/staking's registered invariants on the real state after every successful operation (C02 feeds on this)
	if cls == kapp.OK {
		if msg, broken := stakingkeeper.AllInvariants(s.sk())(s.ctx); broken {
			first := strings.SplitN(strings.TrimSpace(strings.ReplaceAll(msg, "\t", " ")), "\n", 3)
			what := first[0]
			if len(first) > 1 {
				what += " | " + strings.TrimSpace(first[1])
			}
			if i := strings.Index(what, ": {"); i > 0 {
				what = what[:i]
			}
			s.out.Note("staking-invariant-broken:" + strings.TrimSpace(first[0]))
			s.out.Violation(fmt.Sprintf("seq=%d op=%d after %s: x/staking invariant broken: %s", s.seq, s.opNo, kind, what))
		}
	}
	f := append([]string{kind}, pre.pre()...)
	f = append(f, c.B(denomOk), amount.String(), c.B(aux), "=>", string(cls))
	f = append(f, post.post()...)
	s.out.Case(sig, "c12.xfer", f...)
	// the operation names ONE validator; backing / empty-delegation are properties of EVERY validator, so the
	// whole table is observed after every operation that went through (a burn that names validator B but burns
	// A's derivative shows up here on both A and B)
	if cls == kapp.OK {
		s.emitInv("op-" + kind)
	}
}

// emitInv prints the backing / empty-delegation observation of all validators after a non-transfer event.
func (s *seqSt) emitInv(why string) { s.out.Case("", "c12.inv", why, s.invLine()) }

// invLine: per validator found:tokens:shares:module shares:derivative supply:number of zero-share delegations
func (s *seqSt) invLine() string {
	sk, bk := s.sk(), s.w.tApp.GetBankKeeper()
	var parts []string
	for v := range s.vals {
		val, ok := sk.GetValidator(s.ctx, s.vals[v])
		tok, sh := bi(0), bi(0)
		if ok {
			tok, sh = val.Tokens.BigInt(), val.DelegatorShares.BigInt()
		}
		var dm *big.Int
		if d, ok := sk.GetDelegation(s.ctx, s.module, s.vals[v]); ok {
			dm = d.Shares.BigInt()
		}
		zero := 0
		for _, d := range sk.GetValidatorDelegations(s.ctx, s.vals[v]) {
			if d.Shares.IsZero() {
				zero++
			}
		}
		parts = append(parts, fmt.Sprintf("%s:%s:%s:%s:%s:%d", c.B(ok), tok, sh, optS(dm), bk.GetSupply(s.ctx, s.denom(v)).Amount, zero))
	}
	return strings.Join(parts, ";")
}

// ------------------------------------------------------------------ operations

// amount generator for mints: boundary values of the user's delegation and amounts whose share value has a
// small fractional part (the case in which the derivative minted exceeds the shares the module receives)
func (s *seqSt) mintAmount(o slice) *big.Int {
	x := s.mintAmount0(o)
	if x.Sign() < 0 {
		return bi(0)
	}
	return x
}

func (s *seqSt) mintAmount0(o slice) *big.Int {
	r := s.r
	if !o.found || o.delU == nil || o.shares.Sign() == 0 {
		return bi(r.Range(1, 1000))
	}
	// token value of the user's delegation
	val := new(big.Int).Div(new(big.Int).Mul(o.delU, o.tokens), o.shares)
	if o.isOper && r.Chance(35) {
		// the self-delegation guard: leave exactly the minimum, one less, one more (in tokens and in shares)
		left := new(big.Int).Sub(val, o.minSelf)
		if r.Chance(30) {
			left = new(big.Int).Sub(new(big.Int).Div(o.delU, P), o.minSelf)
		}
		return new(big.Int).Add(left, bi(r.Range(-1, 1)))
	}
	switch r.Intn(12) {
	case 0:
		return bi(1)
	case 1:
		return bi(r.Range(1, 3))
	case 2:
		return new(big.Int).Add(val, bi(r.Range(-1, 1)))
	case 3:
		return new(big.Int).Div(val, bi(2))
	case 4: // most of a large delegation
		return new(big.Int).Div(new(big.Int).Mul(val, bi(r.Range(60, 99))), bi(100))
	case 5, 6, 7, 8: // aimed: share value just above an integer
		base := r.BigBelow(new(big.Int).Add(val, bi(1)))
		if r.Chance(60) {
			base = bi(r.Range(1, 5000))
		}
		best, bestFrac := base, new(big.Int).Set(P)
		for i := int64(0); i < 60; i++ {
			a := new(big.Int).Add(base, bi(i))
			if a.Sign() <= 0 || o.tokens.Sign() == 0 {
				continue
			}
			sh := new(big.Int).Div(new(big.Int).Mul(o.shares, a), o.tokens)
			fr := new(big.Int).Mod(sh, P)
			if fr.Cmp(bestFrac) < 0 {
				best, bestFrac = a, fr
			}
		}
		return best
	default:
		return new(big.Int).Add(r.BigBelow(new(big.Int).Add(val, bi(2))), bi(0))
	}
}

func (s *seqSt) burnAmount(bal *big.Int) *big.Int {
	r := s.r
	switch r.Intn(8) {
	case 0, 1:
		return bi(1)
	case 2:
		return bi(r.Range(1, 3))
	case 3:
		return new(big.Int).Set(bal)
	case 4:
		return new(big.Int).Add(bal, bi(1))
	case 5:
		return new(big.Int).Div(bal, bi(2))
	default:
		return r.BigBelow(new(big.Int).Add(bal, bi(2)))
	}
}

func (s *seqSt) opMint(d, v int) {
	pre := s.observe(s.ctx, v, s.users[d])
	amt := s.mintAmount(pre)
	if amt.Sign() < 0 {
		amt = bi(0)
	}
	s.mintWith(d, v, amt, !s.r.Chance(2))
}

// mintWith sends MsgMintDerivative of `amt` and prints the slice before / after
func (s *seqSt) mintWith(d, v int, amt *big.Int, denomOk bool) {
	u := s.users[d]
	pre := s.observe(s.ctx, v, u)
	coin := ukava(amt)
	if !denomOk {
		coin = sdk.NewCoin("usdx", coin.Amount)
	}
	msg := liquidtypes.NewMsgMintDerivative(u, s.vals[v], coin)
	srv := liquidkeeper.NewMsgServerImpl(s.lk())
	cls, err := kapp.Exec(s.ctx, func(cx sdk.Context) error {
		if e := msg.ValidateBasic(); e != nil {
			return e
		}
		_, e := srv.MintDerivative(sdk.WrapSDKContext(cx), &msg)
		return e
	})
	s.emitXfer("mint", v, pre, s.observe(s.ctx, v, u), denomOk, amt, false, cls, err)
}

func (s *seqSt) opBurn(d, v int) {
	pre := s.observe(s.ctx, v, s.users[d])
	if s.r.Chance(22) {
		s.opBurnCross(d, v, pre.balU)
		return
	}
	s.burnWith(d, v, s.burnAmount(pre.balU))
}

// derivDenom: the derivative denom of a validator address, written out by the harness itself (not asked from the keeper)
func derivDenom(va sdk.ValAddress) string { return liquidtypes.DefaultDerivativeDenom + "-" + va.String() }

// opBurnCross: MsgBurnDerivative whose coin is NOT the derivative of the validator named in the message.
// User d holds `bal` units of validator a's derivative.  Classes:
//
//	other-validator   coin bkava-<a>, validator field b != a (both ours; b preferably one the module delegates to)
//	foreign-validator coin bkava-<a>, validator field = a validator of the store that is not ours (genesis validator)
//	absent-validator  coin bkava-<a>, validator field = an address under which no validator is stored
//	absent-denom      coin bkava-<x> for an address x under which no validator is stored, validator field ours
//	bare-denom        coin "bkava" (no address part), validator field ours
//	not-derivative    coin of the bond denom / usdx (held by every account), validator field ours
//
// Every one of them must be refused and change nothing.
func (s *seqSt) opBurnCross(d, a int, bal *big.Int) {
	r := s.r
	u := s.users[d]
	// the named validator: another one of ours, by preference one whose derivative other people hold
	b := (a + 1 + r.Intn(len(s.vals)-1)) % len(s.vals)
	if r.Chance(70) {
		var cands []int
		for v := range s.vals {
			if del, ok := s.sk().GetDelegation(s.ctx, s.module, s.vals[v]); ok && v != a && del.Shares.IsPositive() {
				cands = append(cands, v)
			}
		}
		if len(cands) > 0 {
			b = cands[r.Intn(len(cands))]
		}
	}
	modB := bi(0)
	if del, ok := s.sk().GetDelegation(s.ctx, s.module, s.vals[b]); ok {
		modB = del.Shares.TruncateInt().BigInt()
	}
	// amounts: what the signer holds, what the module holds for the named validator, and the usual small ones
	small := bal
	if modB.Cmp(small) < 0 {
		small = modB
	}
	amt := c.Pick(r, []*big.Int{bi(1), bi(r.Range(1, 3)), new(big.Int).Set(bal), new(big.Int).Set(small), new(big.Int).Set(modB),
		new(big.Int).Div(small, bi(2)), r.BigBelow(new(big.Int).Add(small, bi(2)))})
	if amt.Sign() <= 0 {
		amt = bi(1)
	}
	named := s.vals[b]
	coin := s.bkava(a, amt)
	class := "other-validator"
	switch x := r.Intn(100); {
	case x < 58:
	case x < 64:
		for _, v := range s.sk().GetAllValidators(s.ctx) {
			ours := false
			for _, va := range s.vals {
				ours = ours || va.Equals(v.GetOperator())
			}
			if !ours {
				class, named = "foreign-validator", v.GetOperator()
			}
		}
	case x < 72:
		class, named = "absent-validator", sdk.ValAddress(addrFrom(r))
	case x < 80:
		class = "absent-denom"
		coin = sdk.NewCoin(derivDenom(sdk.ValAddress(addrFrom(r))), coin.Amount)
	case x < 86:
		class = "bare-denom"
		coin = sdk.NewCoin(liquidtypes.DefaultDerivativeDenom, coin.Amount)
	default:
		class = "not-derivative"
		coin = sdk.NewCoin(c.Pick(r, []string{"ukava", "ukava", "usdx"}), coin.Amount)
	}
	s.burnCoinAt(u, named, coin, class)
}

// burnCoinAt sends MsgBurnDerivative{sender u, validator named, amount coin} and prints the slice stored under the
// NAMED validator before / after (kind "burn"; denomOk = the coin is the named validator's derivative)
func (s *seqSt) burnCoinAt(u sdk.AccAddress, named sdk.ValAddress, coin sdk.Coin, class string) {
	pre := s.observeAt(s.ctx, named, u)
	all0 := s.invLine()
	msg := liquidtypes.NewMsgBurnDerivative(u, named, coin)
	srv := liquidkeeper.NewMsgServerImpl(s.lk())
	cls, err := kapp.Exec(s.ctx, func(cx sdk.Context) error {
		if e := msg.ValidateBasic(); e != nil {
			return e
		}
		_, e := srv.BurnDerivative(sdk.WrapSDKContext(cx), &msg)
		return e
	})
	denomOk := coin.Denom == derivDenom(named)
	s.out.Note("burn-cross:" + class + ":" + string(cls))
	s.emitXfer("burn", -1, pre, s.observeAt(s.ctx, named, u), denomOk, coin.Amount.BigInt(), false, cls, err)
	// "fails and changes nothing" on every validator: the table before and after, whatever the result
	s.out.Case("burn-cross|"+class+"|"+string(cls), "c12.cross", class, c.B(denomOk), string(cls), all0, s.invLine())
}

// burnWith sends MsgBurnDerivative of `amt` units and prints the slice before / after
func (s *seqSt) burnWith(d, v int, amt *big.Int) {
	u := s.users[d]
	pre := s.observe(s.ctx, v, u)
	msg := liquidtypes.NewMsgBurnDerivative(u, s.vals[v], s.bkava(v, amt))
	srv := liquidkeeper.NewMsgServerImpl(s.lk())
	cls, err := kapp.Exec(s.ctx, func(cx sdk.Context) error {
		if e := msg.ValidateBasic(); e != nil {
			return e
		}
		_, e := srv.BurnDerivative(sdk.WrapSDKContext(cx), &msg)
		return e
	})
	s.emitXfer("burn", v, pre, s.observe(s.ctx, v, u), true, amt, false, cls, err)
}

func (s *seqSt) opRouter(d, v int) {
	kind := c.Pick(s.r, []string{"mintdep", "delmintdep", "wburn", "wburnundel"})
	if s.r.Chance(80) {
		pred := s.hasDelegation
		if kind == "wburn" || kind == "wburnundel" {
			pred = s.hasEarn
		}
		if d2, v2, ok := s.pickWhere(pred); ok && kind != "delmintdep" {
			d, v = d2, v2
		}
	}
	u := s.users[d]
	pre := s.observe(s.ctx, v, u)
	srv := routerkeeper.NewMsgServerImpl(s.w.tApp.GetRouterKeeper())
	var amt *big.Int
	var run func(cx sdk.Context) error
	aux := false
	switch kind {
	case "mintdep":
		amt = s.mintAmount(pre)
		msg := routertypes.NewMsgMintDeposit(u, s.vals[v], ukava(amt))
		run = func(cx sdk.Context) error {
			if e := msg.ValidateBasic(); e != nil {
				return e
			}
			_, e := srv.MintDeposit(sdk.WrapSDKContext(cx), msg)
			return e
		}
	case "delmintdep":
		amt = c.Pick(s.r, []*big.Int{bi(1), bi(2), bi(s.r.Range(1, 5000)), bi(s.r.Range(1, 50_000_000))})
		msg := routertypes.NewMsgDelegateMintDeposit(u, s.vals[v], ukava(amt))
		run = func(cx sdk.Context) error {
			if e := msg.ValidateBasic(); e != nil {
				return e
			}
			_, e := srv.DelegateMintDeposit(sdk.WrapSDKContext(cx), msg)
			return e
		}
	default:
		// token amount whose derivative value is within the user's earn deposit (and sometimes above it)
		tokVal := bi(0)
		if pre.found && pre.shares.Sign() > 0 {
			tokVal = new(big.Int).Div(new(big.Int).Mul(new(big.Int).Mul(pre.earnU, P), pre.tokens), pre.shares)
		}
		amt = c.Pick(s.r, []*big.Int{bi(1), bi(2), tokVal, new(big.Int).Add(tokVal, bi(1)), new(big.Int).Div(tokVal, bi(2)),
			s.r.BigBelow(new(big.Int).Add(tokVal, bi(2)))})
		if kind == "wburn" {
			msg := routertypes.NewMsgWithdrawBurn(u, s.vals[v], ukava(amt))
			run = func(cx sdk.Context) error {
				if e := msg.ValidateBasic(); e != nil {
					return e
				}
				_, e := srv.WithdrawBurn(sdk.WrapSDKContext(cx), msg)
				return e
			}
		} else {
			if s.nUbd[fmt.Sprint(d, v)] >= 6 {
				return
			}
			msg := routertypes.NewMsgWithdrawBurnUndelegate(u, s.vals[v], ukava(amt))
			run = func(cx sdk.Context) error {
				if e := msg.ValidateBasic(); e != nil {
					return e
				}
				_, e := srv.WithdrawBurnUndelegate(sdk.WrapSDKContext(cx), msg)
				return e
			}
		}
		// would the earn keeper hand out that derivative amount?  (x/earn is C11's subject; here an input)
		if der, e := s.lk().DerivativeFromTokens(s.ctx, s.vals[v], ukava(amt)); e == nil && der.Amount.IsPositive() {
			cc, _ := s.ctx.CacheContext()
			ekp := s.w.tApp.GetEarnKeeper()
			got, e2 := ekp.Withdraw(cc, u, der, earntypes.STRATEGY_TYPE_SAVINGS)
			aux = e2 == nil && got.Amount.Equal(der.Amount)
			if e2 == nil && !got.Amount.Equal(der.Amount) {
				s.out.Note("earn:withdraw-not-exact")
				return
			}
		}
	}
	if amt.Sign() < 0 {
		amt = bi(0)
	}
	cls, err := kapp.Exec(s.ctx, run)
	if cls == kapp.OK && kind == "wburnundel" {
		s.nUbd[fmt.Sprint(d, v)]++
	}
	s.emitXfer(kind, v, pre, s.observe(s.ctx, v, u), true, amt, aux, cls, err)
}

// stakingMsg runs MsgDelegate / MsgUndelegate / MsgBeginRedelegate of user d and prints the slice(s).
func (s *seqSt) stakingMsg(kind string, d, v, dst int, amt *big.Int, emit bool) {
	u := s.users[d]
	srv := stakingkeeper.NewMsgServerImpl(s.sk())
	pre := s.observe(s.ctx, v, u)
	var preDst slice
	if kind == "redelegate" {
		preDst = s.observe(s.ctx, dst, u)
	}
	var run func(cx sdk.Context) error
	switch kind {
	case "delegate":
		msg := stakingtypes.NewMsgDelegate(u, s.vals[v], ukava(amt))
		run = func(cx sdk.Context) error {
			if e := msg.ValidateBasic(); e != nil {
				return e
			}
			_, e := srv.Delegate(sdk.WrapSDKContext(cx), msg)
			return e
		}
	case "undelegate":
		if s.nUbd[fmt.Sprint(d, v)] >= 6 {
			return
		}
		msg := stakingtypes.NewMsgUndelegate(u, s.vals[v], ukava(amt))
		run = func(cx sdk.Context) error {
			if e := msg.ValidateBasic(); e != nil {
				return e
			}
			_, e := srv.Undelegate(sdk.WrapSDKContext(cx), msg)
			return e
		}
	case "redelegate":
		if s.nRed[fmt.Sprint(d, v, dst)] >= 6 {
			return
		}
		msg := stakingtypes.NewMsgBeginRedelegate(u, s.vals[v], s.vals[dst], ukava(amt))
		run = func(cx sdk.Context) error {
			if e := msg.ValidateBasic(); e != nil {
				return e
			}
			_, e := srv.BeginRedelegate(sdk.WrapSDKContext(cx), msg)
			return e
		}
	}
	cls, err := kapp.Exec(s.ctx, run)
	if cls == kapp.OK {
		switch kind {
		case "undelegate":
			s.nUbd[fmt.Sprint(d, v)]++
		case "redelegate":
			s.nRed[fmt.Sprint(d, v, dst)]++
		}
	}
	if !emit {
		must(err)
		return
	}
	post := s.observe(s.ctx, v, u)
	switch kind {
	case "redelegate":
		// two halves: the source slice (tokens leave) and the destination slice (tokens arrive)
		moved := new(big.Int).Sub(pre.tokens, post.tokens)
		postDst := s.observe(s.ctx, dst, u)
		if cls == kapp.OK {
			s.emitXfer("redelout", v, pre, post, true, amt, false, cls, err)
			s.emitXfer("redelin", dst, preDst, postDst, true, moved, !post.found || post.status != 0, cls, err)
		} else {
			s.out.Note("err:redelegate:" + errClass(err))
		}
	default:
		s.emitXfer(kind, v, pre, post, true, amt, false, cls, err)
	}
}

func (s *seqSt) opStaking() {
	r := s.r
	d := r.Intn(3)
	if r.Chance(25) {
		d = 5 + r.Intn(3) // a validator operator acting on its self delegation
	}
	v := r.Intn(3)
	if d >= 5 && r.Chance(70) {
		v = d - 5
	}
	pre := s.observe(s.ctx, v, s.users[d])
	val := bi(0)
	if pre.found && pre.delU != nil && pre.shares.Sign() > 0 {
		val = new(big.Int).Div(new(big.Int).Mul(pre.delU, pre.tokens), pre.shares)
	}
	pickOut := func() *big.Int {
		return c.Pick(r, []*big.Int{bi(1), bi(r.Range(1, 1000)), val, new(big.Int).Add(val, bi(1)), new(big.Int).Div(val, bi(2)),
			r.BigBelow(new(big.Int).Add(val, bi(2)))})
	}
	switch r.Intn(5) {
	case 0, 1:
		s.stakingMsg("delegate", d, v, -1, c.Pick(r, []*big.Int{bi(1), bi(r.Range(1, 1000)), bi(r.Range(1, 100_000_000))}), true)
	case 2, 3:
		a := pickOut()
		if a.Sign() > 0 {
			s.stakingMsg("undelegate", d, v, -1, a, true)
		}
	default:
		dst := (v + 1 + r.Intn(2)) % 3
		a := pickOut()
		if a.Sign() > 0 {
			s.stakingMsg("redelegate", d, v, dst, a, true)
		}
	}
}

// bank send of a derivative, earn / savings deposits and withdrawals: they move derivatives between holders
func (s *seqSt) opHold() {
	r := s.r
	bk := s.w.tApp.GetBankKeeper()
	a, v := r.Intn(len(s.users)), r.Intn(3)
	kind := c.Pick(r, []string{"send", "send", "send", "earnin", "earnout", "savein", "saveout"})
	switch kind {
	case "earnout":
		if a2, v2, ok := s.pickWhere(s.hasEarn); ok {
			a, v = a2, v2
		}
	case "saveout":
	default:
		if a2, v2, ok := s.pickWhere(s.hasDerivative); ok {
			a, v = a2, v2
		}
	}
	bal := bk.GetBalance(s.ctx, s.users[a], s.denom(v)).Amount.BigInt()
	amt := c.Pick(r, []*big.Int{bi(1), bal, new(big.Int).Div(bal, bi(2)), r.BigBelow(new(big.Int).Add(bal, bi(1)))})
	if amt.Sign() <= 0 {
		amt = bi(1)
	}
	coin := s.bkava(v, amt)
	ekp := s.w.tApp.GetEarnKeeper()
	cls, _ := kapp.Exec(s.ctx, func(cx sdk.Context) error {
		switch kind {
		case "send":
			b := r.Intn(5) // delegators and pure holders receive
			return bk.SendCoins(cx, s.users[a], s.users[b], sdk.NewCoins(coin))
		case "earnin":
			return ekp.Deposit(cx, s.users[a], coin, earntypes.STRATEGY_TYPE_SAVINGS)
		case "earnout":
			ev := s.earnValue(cx, coin.Denom, s.users[a])
			if ev.Sign() <= 0 {
				return fmt.Errorf("nothing in earn")
			}
			_, e := ekp.Withdraw(cx, s.users[a], s.bkava(v, c.Pick(r, []*big.Int{bi(1), ev})), earntypes.STRATEGY_TYPE_SAVINGS)
			return e
		case "savein":
			return s.w.tApp.GetSavingsKeeper().Deposit(cx, s.users[a], sdk.NewCoins(coin))
		default:
			dep, ok := s.w.tApp.GetSavingsKeeper().GetDeposit(cx, s.users[a])
			if !ok {
				return fmt.Errorf("nothing in savings")
			}
			have := dep.Amount.AmountOf(coin.Denom)
			if !have.IsPositive() {
				return fmt.Errorf("nothing in savings")
			}
			return s.w.tApp.GetSavingsKeeper().Withdraw(cx, s.users[a], sdk.NewCoins(sdk.NewCoin(coin.Denom, have)))
		}
	})
	if cls == kapp.OK {
		s.out.Note("event:" + kind)
		s.emitInv(kind)
	}
}

func (s *seqSt) opEvent() {
	r := s.r
	switch r.Intn(7) {
	case 0:
		s.doSlash(r.Intn(3), r.Chance(50))
	case 1:
		s.doJail(r.Intn(3))
	case 2:
		s.doUnjail(r.Intn(3))
	case 3: // unbonding period passes: unbonding validators become unbonded, entries mature
		s.endBlock(22 * 24 * time.Hour)
		s.nUbd, s.nRed = map[string]int{}, map[string]int{}
		s.out.Note("event:unbonding-period")
		s.emitInv("time")
	default:
		s.endBlock(5 * time.Second)
		s.emitInv("endblock")
	}
}

// ------------------------------------------------------------------ tally

func (s *seqSt) opTally() { s.tallyWith(-1) }

// tallyWith: mask < 0 = a random voter set, otherwise bit i = user i votes
func (s *seqSt) tallyWith(mask int) {
	r := s.r
	ctx, _ := s.ctx.CacheContext() // proposal, votes and the tally's vote deletions are discarded
	tApp := s.w.tApp
	gk := tApp.GetGovKeeper()
	sk, bk := s.sk(), tApp.GetBankKeeper()
	deposit := gk.GetParams(ctx).MinDeposit
	proposer := s.users[0]
	must(tApp.FundAccount(ctx, proposer, deposit))
	msg, err := govv1beta1.NewMsgSubmitProposal(govv1beta1.NewTextProposal("t", "d"), deposit, proposer)
	must(err)
	govAcct := gk.GetGovernanceAccount(ctx).GetAddress()
	legacy := govkeeper.NewLegacyMsgServerImpl(govAcct.String(), govkeeper.NewMsgServerImpl(&gk))
	res, err := legacy.SubmitProposal(sdk.WrapSDKContext(ctx), msg)
	must(err)
	proposal, ok := gk.GetProposal(ctx, res.ProposalId)
	if !ok {
		panic("proposal not found")
	}
	// validator table (ours first, then everything else in the store, e.g. the genesis validator)
	idx := map[string]int{}
	var vals []stakingtypes.Validator
	for _, va := range s.vals {
		if v, ok := sk.GetValidator(ctx, va); ok {
			idx[va.String()] = len(vals)
			vals = append(vals, v)
		}
	}
	for _, v := range sk.GetAllValidators(ctx) {
		if _, ok := idx[v.OperatorAddress]; !ok {
			idx[v.OperatorAddress] = len(vals)
			vals = append(vals, v)
		}
	}
	// the handler's validator set: IterateBondedValidatorsByPower (bonded status and present in the power index;
	// a validator jailed in this block keeps the Bonded status until the staking end blocker but is not iterated)
	inSet := map[string]bool{}
	sk.IterateBondedValidatorsByPower(ctx, func(_ int64, v stakingtypes.ValidatorI) bool {
		inSet[v.GetOperator().String()] = true
		return false
	})
	var vparts []string
	for _, v := range vals {
		vparts = append(vparts, fmt.Sprintf("%s:%s:%s:%s", v.Tokens, v.DelegatorShares.BigInt(), c.B(inSet[v.OperatorAddress]), c.B(v.IsBonded())))
	}
	// voters
	weights := [][]string{{"1"}, {"1"}, {"1"}, {"0.5", "0.5"}, {"0.7", "0.2", "0.1"}, {"0.333333333333333333", "0.666666666666666667"}}
	var voteParts []string
	unbondedBk := false
	perm := r.Intn(1 << uint(len(s.users)))
	if r.Chance(25) {
		perm = (1 << uint(len(s.users))) - 1 // everybody votes
	}
	if mask >= 0 {
		perm = mask
	}
	for i, u := range s.users {
		if perm&(1<<uint(i)) == 0 {
			continue
		}
		ws := weights[r.Intn(len(weights))]
		var opts govv1.WeightedVoteOptions
		var optS []string
		used := map[int]bool{}
		for _, w := range ws {
			o := 1 + r.Intn(4)
			for used[o] {
				o = 1 + r.Intn(4)
			}
			used[o] = true
			opts = append(opts, govv1.NewWeightedVoteOption(govv1.VoteOption(o), sdk.MustNewDecFromStr(w)))
			optS = append(optS, fmt.Sprintf("%d:%s", o, sdk.MustNewDecFromStr(w).BigInt()))
		}
		if e := gk.AddVote(ctx, proposal.Id, u, opts, ""); e != nil {
			panic(e)
		}
		oper := "-"
		if k, ok := idx[sdk.ValAddress(u).String()]; ok {
			oper = fmt.Sprint(k)
		}
		var dels []string
		for _, d := range sk.GetDelegatorDelegations(ctx, u, 1000) {
			dels = append(dels, fmt.Sprintf("%d:%s", idx[d.ValidatorAddress], d.Shares.BigInt()))
		}
		coinsOf := func(cs sdk.Coins) []string {
			var out []string
			for _, cn := range cs {
				if va, e := liquidtypes.ParseLiquidStakingTokenDenom(cn.Denom); e == nil {
					if k, ok := idx[va.String()]; ok {
						out = append(out, fmt.Sprintf("%d:%s", k, cn.Amount))
						if !inSet[vals[k].OperatorAddress] && cn.Amount.IsPositive() {
							unbondedBk = true
						}
					}
				}
			}
			return out
		}
		wallet := coinsOf(bk.GetAllBalances(ctx, u))
		var sav []string
		if dep, ok := tApp.GetSavingsKeeper().GetDeposit(ctx, u); ok {
			sav = coinsOf(dep.Amount)
		}
		var earn []string
		ek := tApp.GetEarnKeeper()
		if shares, ok := ek.GetVaultAccountShares(ctx, u); ok {
			cs := sdk.Coins{}
			for _, sh := range shares {
				if cn, e := ek.ConvertToAssets(ctx, sh); e == nil && cn.Amount.IsPositive() {
					cs = cs.Add(cn)
				}
			}
			earn = coinsOf(cs)
		}
		voteParts = append(voteParts, strings.Join([]string{oper, c.Strs(optS), c.Strs(dels), c.Strs(wallet), c.Strs(sav), c.Strs(earn)}, "|"))
	}
	if len(voteParts) == 0 {
		return
	}
	th := app.NewTallyHandler(gk, *sk, tApp.GetSavingsKeeper(), tApp.GetEarnKeeper(), s.lk(), bk)
	var tr govv1.TallyResult
	panicked, pmsg := c.Recover(func() { _, _, tr = th.Tally(ctx, proposal) })
	total := sk.TotalBondedTokens(ctx)
	result := "ok"
	if panicked {
		result = "panic"
		s.out.Violation(fmt.Sprintf("seq=%d op=%d tally panicked: %s", s.seq, s.opNo, pmsg))
		tr = govv1.EmptyTallyResult()
	}
	nb := 0
	jb := 0
	for _, v := range vals {
		if !inSet[v.OperatorAddress] {
			nb++
			if v.IsBonded() {
				jb++
			}
		}
	}
	sig := fmt.Sprintf("tally|%s|voters=%d|notinset=%d|jailedbonded=%d|bkOfUnbonded=%v", result, len(voteParts), nb, jb, unbondedBk)
	s.out.Case(sig, "c12.tally", strings.Join(vparts, ";"), strings.Join(voteParts, ";"), "=>", result,
		tr.YesCount, tr.AbstainCount, tr.NoCount, tr.NoWithVetoCount, total.String())
}

// pick (user, validator) pairs in a given situation, so that most operations are valid
func (s *seqSt) pickWhere(pred func(d, v int) bool) (int, int, bool) {
	var cands [][2]int
	for d := range s.users {
		for v := range s.vals {
			if pred(d, v) {
				cands = append(cands, [2]int{d, v})
			}
		}
	}
	if len(cands) == 0 {
		return 0, 0, false
	}
	x := cands[s.r.Intn(len(cands))]
	return x[0], x[1], true
}

func (s *seqSt) hasDelegation(d, v int) bool {
	_, ok := s.sk().GetDelegation(s.ctx, s.users[d], s.vals[v])
	return ok
}

func (s *seqSt) hasDerivative(d, v int) bool {
	return s.w.tApp.GetBankKeeper().GetBalance(s.ctx, s.users[d], s.denom(v)).Amount.IsPositive()
}

func (s *seqSt) hasEarn(d, v int) bool { return s.earnValue(s.ctx, s.denom(v), s.users[d]).Sign() > 0 }

// ------------------------------------------------------------------ driver of one sequence

func (w *world) seq(out *c.Out, seq int, r *c.Rng) {
	ctx, _ := w.base.CacheContext()
	s := &seqSt{w: w, ctx: ctx, out: out, r: r, seq: seq}
	s.setup()
	nops := c.Budget(60, 150)
	for i := 0; i < nops; i++ {
		s.opNo = i
		s.ctx = s.ctx.WithBlockHeight(s.ctx.BlockHeight() + 1).WithBlockTime(s.ctx.BlockTime().Add(time.Second))
		x := r.Intn(100)
		switch {
		case x < 34:
			d := r.Intn(3)
			if r.Chance(15) {
				d = 5 + r.Intn(3)
			}
			if r.Chance(4) {
				d = 3 + r.Intn(2) // a pure holder tries to mint
			}
			v := r.Intn(3)
			if r.Chance(45) {
				v = 1 // the slashed validator
			}
			if r.Chance(75) {
				if d2, v2, ok := s.pickWhere(func(d, v int) bool { return s.hasDelegation(d, v) && (v == 1 || r.Chance(50)) }); ok {
					d, v = d2, v2
				}
			}
			s.opMint(d, v)
		case x < 54:
			d, v := r.Intn(len(s.users)), r.Intn(3)
			if r.Chance(85) {
				if d2, v2, ok := s.pickWhere(s.hasDerivative); ok {
					d, v = d2, v2
				}
			}
			s.opBurn(d, v)
		case x < 66:
			d := r.Intn(3)
			if r.Chance(15) {
				d = 5 + r.Intn(3)
			}
			s.opRouter(d, r.Intn(3))
		case x < 78:
			s.opStaking()
		case x < 86:
			s.opHold()
		case x < 92:
			s.opEvent()
		default:
			s.opTally()
		}
	}
	s.opTally()
}

func errClass(err error) string {
	if err == nil {
		return "none"
	}
	m := err.Error()
	for _, k := range []string{"redelegation", "zero shares", "token amount must be positive", "invalid shares amount", "no delegation", "no delegator",
		"validator does not exist", "no validator found", "self delegation", "insufficient funds", "invalid delegator share exchange rate",
		"not enough delegation shares", "insufficient shares", "invalid denom", "expected ukava", "invalid coins", "amount must be", "panic",
		"vault share record", "less", "insufficient", "invalid vault", "too many"} {
		if strings.Contains(m, k) {
			return strings.ReplaceAll(k, " ", "-")
		}
	}
	if len(m) > 40 {
		m = m[:40]
	}
	return "other:" + strings.ReplaceAll(m, "\t", " ")
}

func must(err error) {
	if err != nil {
		panic(err)
	}
}

var _ = sort.Strings
var _ = os.Getenv

func main() {
	out := c.NewOut(c.OutPath())
	defer out.Close()
	r := c.NewRng(c.Seed())
	n := c.Budget(400, 12000)
	// app.NewTestApp rewrites the global bech32 configuration: build the worlds one after the other,
	// before any sequence runs
	workers := c.Workers()
	pool := make(chan *world, workers)
	for i := 0; i < workers; i++ {
		pool <- mkWorld()
	}
	// the five former witness histories (findings F6, F6b, F7, F8, F6c), replayed on every run
	w0 := <-pool
	directed(w0, out)
	pool <- w0
	kapp.RunSeqs(n, workers, r, func() *world { return <-pool }, func(w *world, seq int, r *c.Rng) { w.seq(out, seq, r) })
}
