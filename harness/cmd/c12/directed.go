package main

// Directed sequences: the five witness histories of the (now repaired) findings F6, F6b, F7, F8, F6c are replayed
// on the real keepers on every run, with the same case lines as the random sequences.  On the repaired tree every
// predicate holds on them; a regression of one repair fires the matching predicate deterministically:
//
//	F6   mint 3 / 10 / 1000 ukava after a 7 % slash, redeem everything   C12_backed mint-rate-not-one, C12_redeemable
//	F6b  the owner of 90 % of a slashed validator mints two thirds       C12_value_within_two_units gain-mint
//	F7   an account that never delegated burns one unit worth 0 tokens   C12_no_empty_delegation
//	F8   the validator is jailed, a derivative holder votes              C12_tally_le_bonded / C12_tally_only_bonded
//	F6c  1 ukava minted on a slashed validator that is then emptied      C12_no_panic (tally, distribution hook)

import (
	"fmt"
	"math/big"
	"time"

	sdkmath "cosmossdk.io/math"
	"github.com/cosmos/cosmos-sdk/crypto/keys/ed25519"
	sdk "github.com/cosmos/cosmos-sdk/types"
	stakingkeeper "github.com/cosmos/cosmos-sdk/x/staking/keeper"
	stakingtypes "github.com/cosmos/cosmos-sdk/x/staking/types"
	liquidtypes "github.com/kava-labs/kava/x/liquid/types"

	c "kavaverif/harness/common"
	"kavaverif/harness/kapp"
)

// scenario: users[0] = delegator, users[1] = an account that never delegates, users[2] = operator of the only validator
func newScenario(w *world, out *c.Out, no int, self, minSelf, delegated int64) *seqSt {
	ctx, _ := w.base.CacheContext()
	s := &seqSt{w: w, ctx: ctx, out: out, r: c.NewRng(uint64(1000 + no)), seq: -1 - no}
	s.module = w.tApp.GetAccountKeeper().GetModuleAddress(liquidtypes.ModuleAccountName)
	s.nUbd, s.nRed = map[string]int{}, map[string]int{}
	for i := 0; i < 3; i++ {
		s.users = append(s.users, s.newAccount())
	}
	op := s.users[2]
	msg, err := stakingtypes.NewMsgCreateValidator(sdk.ValAddress(op), ed25519.GenPrivKeyFromSecret([]byte{byte(no), 77}).PubKey(),
		sdk.NewInt64Coin("ukava", self), stakingtypes.Description{Moniker: "directed"},
		stakingtypes.NewCommissionRates(sdk.ZeroDec(), sdk.ZeroDec(), sdk.ZeroDec()), sdkmath.NewInt(minSelf))
	must(err)
	_, err = stakingkeeper.NewMsgServerImpl(s.sk()).CreateValidator(sdk.WrapSDKContext(s.ctx), msg)
	must(err)
	s.vals = []sdk.ValAddress{sdk.ValAddress(op)}
	s.opers = []sdk.AccAddress{op}
	s.jailed = []bool{false}
	if delegated > 0 {
		s.stakingMsg("delegate", 0, 0, -1, bi(delegated), true)
	}
	s.endBlock(time.Second)
	return s
}

// addValidator: one more validator (operator = a new account appended to users) with `self` ukava of its own
func (s *seqSt) addValidator(no int, self int64) int {
	op := s.newAccount()
	s.users = append(s.users, op)
	msg, err := stakingtypes.NewMsgCreateValidator(sdk.ValAddress(op), ed25519.GenPrivKeyFromSecret([]byte{byte(no), 78, byte(len(s.vals))}).PubKey(),
		sdk.NewInt64Coin("ukava", self), stakingtypes.Description{Moniker: "directed-more"},
		stakingtypes.NewCommissionRates(sdk.ZeroDec(), sdk.ZeroDec(), sdk.ZeroDec()), sdkmath.NewInt(1))
	must(err)
	_, err = stakingkeeper.NewMsgServerImpl(s.sk()).CreateValidator(sdk.WrapSDKContext(s.ctx), msg)
	must(err)
	s.vals = append(s.vals, sdk.ValAddress(op))
	s.opers = append(s.opers, op)
	s.jailed = append(s.jailed, false)
	s.endBlock(time.Second)
	return len(s.vals) - 1
}

func (s *seqSt) supplyAt(v int) *big.Int {
	return s.w.tApp.GetBankKeeper().GetSupply(s.ctx, s.denom(v)).Amount.BigInt()
}

func (s *seqSt) slashDirected(burn int64) {
	if !s.slash(0, bi(burn)) {
		panic("directed: slash failed")
	}
	s.emitInv("slash")
}

// undelegateAll removes the whole delegation of user d through the staking keeper (shares, not a token amount)
func (s *seqSt) undelegateAll(d int) {
	del, ok := s.sk().GetDelegation(s.ctx, s.users[d], s.vals[0])
	if !ok {
		return
	}
	cls, err := kapp.Exec(s.ctx, func(cx sdk.Context) error {
		_, e := s.sk().Undelegate(cx, s.users[d], s.vals[0], del.Shares)
		return e
	})
	if cls != kapp.OK {
		panic(fmt.Sprintf("directed: undelegate failed: %v", err))
	}
	s.emitInv("undelegate-all")
}

func (s *seqSt) supplyOf() *big.Int {
	return s.w.tApp.GetBankKeeper().GetSupply(s.ctx, s.denom(0)).Amount.BigInt()
}

func directed(w *world, out *c.Out) {
	// F6: backing and redeemability after a 7 % slash
	s := newScenario(w, out, 1, 50_000_000, 1, 50_000_000)
	s.slashDirected(7_000_000)
	for _, a := range []int64{3, 10, 1000, 1, 2} {
		s.mintWith(0, 0, bi(a), true)
	}
	sup := s.supplyOf()
	s.burnWith(0, 0, sup)                          // the only holder redeems everything
	s.burnWith(0, 0, new(big.Int).Sub(sup, bi(1))) // (refused once the first burn succeeded)
	s.burnWith(0, 0, bi(1))
	s.tallyWith(1)

	// F6b: value of a large holder's stake across a mint
	for _, a := range []int64{606_000_001, 606_000_002, 606_000_003, 606_000_004, 606_000_005} {
		s = newScenario(w, out, 2, 100_000_000, 1, 900_000_000)
		s.slashDirected(70_000_000)
		s.mintWith(0, 0, bi(a), true)
		s.burnWith(0, 0, bi(a/3))
	}

	// F7: an account that never delegated burns one unit worth zero tokens
	s = newScenario(w, out, 3, 50_000_000, 1, 50_000_000)
	s.mintWith(0, 0, bi(1000), true)
	s.slashDirected(7_000_000)
	must(w.tApp.GetBankKeeper().SendCoins(s.ctx, s.users[0], s.users[1], sdk.NewCoins(s.bkava(0, bi(3)))))
	s.emitInv("send")
	s.burnWith(1, 0, bi(1))
	s.burnWith(1, 0, bi(2))
	s.tallyWith(3)

	// F8: derivatives of a jailed (unbonding) validator
	s = newScenario(w, out, 4, 1_000_000, 1, 500_000_000)
	s.mintWith(0, 0, bi(400_000_000), true)
	must(w.tApp.GetBankKeeper().SendCoins(s.ctx, s.users[0], s.users[1], sdk.NewCoins(s.bkava(0, bi(100_000_000)))))
	s.tallyWith(1 | 2) // validator bonded: the derivatives count
	s.doJail(0)
	s.tallyWith(1)         // the holder who also delegates
	s.tallyWith(2)         // the pure holder
	s.tallyWith(1 | 2 | 4) // everybody, the jailed operator included

	// F6c: one ukava minted on a slashed validator whose delegators then all leave
	for _, j := range []int64{2, 0, 7} {
		s = newScenario(w, out, 5, 50_000_000, 1, 50_000_000)
		s.slashDirected(7_000_000 + j)
		s.mintWith(0, 0, bi(1), true)
		had := s.supplyOf().Sign() > 0
		s.undelegateAll(0)
		s.undelegateAll(2)
		s.endBlock(time.Second)
		s.emitInv("emptied")
		s.tallyWith(1)
		if had {
			s.burnWith(0, 0, bi(1))
		}
		s.mintWith(2, 0, bi(1), true)
	}
	// X1: the coin of MsgBurnDerivative is not the derivative of the validator it names.  Validator A (slashed: its
	// share is worth less) and validator B; user 0 holds bkava-A, user 1 holds bkava-B.  User 0 "burns" bkava-A naming B
	// (the whole backing of B, one unit), user 1 the other way round, plus the malformed variants: all refused, nothing
	// changes on any validator, and afterwards both holders redeem their whole position.
	s = newScenario(w, out, 6, 50_000_000, 1, 50_000_000)
	vb := s.addValidator(6, 60_000_000)
	s.stakingMsg("delegate", 1, vb, -1, bi(40_000_000), true)
	s.endBlock(time.Second)
	s.slashDirected(7_000_000)
	s.mintWith(0, 0, bi(10_000_000), true)
	s.mintWith(1, vb, bi(10_000_000), true)
	supA, supB := s.supplyAt(0), s.supplyAt(vb)
	s.burnCoinAt(s.users[0], s.vals[vb], s.bkava(0, supB), "other-validator")
	s.burnCoinAt(s.users[0], s.vals[vb], s.bkava(0, bi(1)), "other-validator")
	s.burnCoinAt(s.users[1], s.vals[0], s.bkava(vb, bi(1)), "other-validator")
	s.burnCoinAt(s.users[1], s.vals[0], s.bkava(vb, supB), "other-validator")
	ghost := sdk.ValAddress(addrFrom(s.r))
	s.burnCoinAt(s.users[0], ghost, s.bkava(0, bi(5)), "absent-validator")
	s.burnCoinAt(s.users[0], s.vals[vb], sdk.NewCoin(derivDenom(ghost), sdkmath.NewInt(5)), "absent-denom")
	s.burnCoinAt(s.users[0], s.vals[vb], sdk.NewCoin(liquidtypes.DefaultDerivativeDenom, sdkmath.NewInt(5)), "bare-denom")
	s.burnCoinAt(s.users[0], s.vals[vb], sdk.NewInt64Coin("ukava", 5), "not-derivative")
	s.burnWith(1, vb, supB)
	s.burnWith(0, 0, supA)
	out.Note("directed:scenarios")
}
