package main

// world.go: the real app, the parties, genesis with random principals, and the state-evolving operations.

import (
	"bytes"
	"crypto/sha256"
	"encoding/hex"
	"fmt"
	"time"

	sdkmath "cosmossdk.io/math"
	abci "github.com/cometbft/cometbft/abci/types"
	sdk "github.com/cosmos/cosmos-sdk/types"
	authtypes "github.com/cosmos/cosmos-sdk/x/auth/types"
	banktypes "github.com/cosmos/cosmos-sdk/x/bank/types"
	distrtypes "github.com/cosmos/cosmos-sdk/x/distribution/types"
	govtypes "github.com/cosmos/cosmos-sdk/x/gov/types"
	govv1beta1 "github.com/cosmos/cosmos-sdk/x/gov/types/v1beta1"
	minttypes "github.com/cosmos/cosmos-sdk/x/mint/types"
	paramstypes "github.com/cosmos/cosmos-sdk/x/params/types"
	stakingtypes "github.com/cosmos/cosmos-sdk/x/staking/types"

	"github.com/kava-labs/kava/app"
	auctiontypes "github.com/kava-labs/kava/x/auction/types"
	"github.com/kava-labs/kava/x/bep3"
	bep3types "github.com/kava-labs/kava/x/bep3/types"
	"github.com/kava-labs/kava/x/cdp"
	cdptypes "github.com/kava-labs/kava/x/cdp/types"
	"github.com/kava-labs/kava/x/committee"
	committeetypes "github.com/kava-labs/kava/x/committee/types"
	communitytypes "github.com/kava-labs/kava/x/community/types"
	earntypes "github.com/kava-labs/kava/x/earn/types"
	evmutiltypes "github.com/kava-labs/kava/x/evmutil/types"
	"github.com/kava-labs/kava/x/hard"
	hardtypes "github.com/kava-labs/kava/x/hard/types"
	incentivetypes "github.com/kava-labs/kava/x/incentive/types"
	"github.com/kava-labs/kava/x/issuance"
	issuancetypes "github.com/kava-labs/kava/x/issuance/types"
	kavadisttypes "github.com/kava-labs/kava/x/kavadist/types"
	precisebanktypes "github.com/kava-labs/kava/x/precisebank/types"
	"github.com/kava-labs/kava/x/pricefeed"
	pricefeedtypes "github.com/kava-labs/kava/x/pricefeed/types"
	savingstypes "github.com/kava-labs/kava/x/savings/types"
	swaptypes "github.com/kava-labs/kava/x/swap/types"

	c "kavaverif/harness/common"
	"kavaverif/harness/kapp"
)

// party indices
const (
	pUserA = iota // ordinary account, holds records in cdp/hard/swap/earn/savings
	pUserB        // ordinary account with its own records everywhere
	pUserC        // ordinary account, funded, no records
	pOracleA
	pOracleB
	pDeputy
	pDeputyB // deputy of the second bep3 asset (xrp) only
	pOwnerA // owner of issuance asset tok1
	pOwnerB // owner of issuance asset tok2
	pMemberA
	pMemberB
	pMemberC // member of another committee only
	pFresh   // no account, no funds
	pGov     // gov module account = community authority
	pKavadist
	pIssuanceM
	pCdpM
	pHardM
	pSwapM
	pEarnM
	pSavingsM
	pBep3M
	nParties
)

type party struct {
	kind   string
	addr   sdk.AccAddress
	bech   []byte
	module string // module account name, "" for keyed accounts
}

var userDenoms = []string{"ukava", "usdx", "bnb", "busd", "xrp", "tok1", "tok2", "hard"}

var marketIDs = []string{"kava:usd", "kava:usd:30", "bnb:usd", "bnb:usd:30", "busd:usd", "busd:usd:30", "usdx:usd", "xrp:usd"}

var cdpTypes = []struct{ ctype, denom, spot, liq string }{
	{"bnb-a", "bnb", "bnb:usd", "bnb:usd:30"},
	{"busd-a", "busd", "busd:usd", "busd:usd:30"},
}

var bep3Assets = []struct {
	denom  string
	deputy int
}{{"bnb", pDeputy}, {"xrp", pDeputyB}}

var swapPools = [][2]string{{"ukava", "usdx"}, {"bnb", "usdx"}}

var storeNames = []string{
	authtypes.StoreKey, banktypes.StoreKey, paramstypes.StoreKey, stakingtypes.StoreKey, distrtypes.StoreKey,
	govtypes.StoreKey, minttypes.StoreKey,
	kavadisttypes.StoreKey, auctiontypes.StoreKey, issuancetypes.StoreKey, bep3types.StoreKey, pricefeedtypes.StoreKey,
	swaptypes.StoreKey, cdptypes.StoreKey, hardtypes.StoreKey, communitytypes.StoreKey, committeetypes.StoreKey,
	incentivetypes.StoreKey, evmutiltypes.StoreKey, savingstypes.StoreKey, earntypes.StoreKey, precisebanktypes.StoreKey,
}

type world struct {
	tApp    app.TestApp
	ctx     sdk.Context
	parties []party
	out     *c.Out
	// committees: 1 = member committee (A, B + random), 2 = token committee, 3 = member committee (C only)
	nonce uint64
}

func must(err error) {
	if err != nil {
		panic(err)
	}
}

func dec(s string) sdk.Dec { return sdk.MustNewDecFromStr(s) }

func coin(d string, x int64) sdk.Coin { return sdk.NewInt64Coin(d, x) }

func mkWorld(r *c.Rng, out *c.Out) *world {
	_, addrs := app.GeneratePrivKeyAddressPairs(pFresh + 1)
	kinds := []string{"user-a-with-records", "user-b-with-records", "user-no-records", "oracle", "other-market-oracle",
		"bep3-deputy", "other-asset-deputy", "asset-owner", "other-asset-owner", "committee-member", "committee-member-2",
		"other-committee-member", "no-account"}
	w := &world{out: out}
	for i := 0; i <= pFresh; i++ {
		w.parties = append(w.parties, party{kind: kinds[i], addr: addrs[i]})
	}
	mods := []struct{ kind, name string }{
		{"gov-authority", govtypes.ModuleName}, {"other-module-account", kavadisttypes.KavaDistMacc},
		{"issuance-module-account", issuancetypes.ModuleAccountName}, {"cdp-module-account", cdptypes.ModuleName},
		{"hard-module-account", hardtypes.ModuleAccountName}, {"swap-module-account", swaptypes.ModuleAccountName},
		{"earn-module-account", earntypes.ModuleAccountName}, {"savings-module-account", savingstypes.ModuleAccountName},
		{"bep3-module-account", bep3types.ModuleName},
	}
	for _, m := range mods {
		w.parties = append(w.parties, party{kind: m.kind, addr: authtypes.NewModuleAddress(m.name), module: m.name})
	}
	if len(w.parties) != nParties {
		panic("party table")
	}

	// ---- genesis
	tApp := app.NewTestAppFromSealed() // the SDK config was set once in main; NewTestApp would rewrite the global map concurrently
	cdc := tApp.AppCodec()
	var funded []sdk.AccAddress
	var bal sdk.Coins
	for _, d := range userDenoms {
		bal = bal.Add(sdk.NewCoin(d, sdkmath.NewInt(1_000_000_000_000)))
	}
	for i := 0; i < pFresh; i++ {
		funded = append(funded, w.parties[i].addr)
	}
	authGS := app.NewFundedGenStateWithSameCoins(cdc, bal, funded)

	// pricefeed: group-A markets carry oracleA (+ random extra principals), the rest carry oracleB
	extra := []int{pDeputy, pMemberA, pOwnerA, pUserC}
	var markets []pricefeedtypes.Market
	var posted []pricefeedtypes.PostedPrice
	prices := map[string]string{"kava": "2.0", "bnb": "17.25", "busd": "1.0", "usdx": "1.0", "xrp": "0.25"}
	for i, id := range marketIDs {
		base := id[:bytes.IndexByte([]byte(id), ':')]
		var os []sdk.AccAddress
		if i%2 == 0 {
			os = append(os, w.parties[pOracleA].addr)
			if r.Chance(40) {
				os = append(os, w.parties[c.Pick(r, extra)].addr)
			}
			if i >= 2 && r.Chance(20) { // never on the first market: its oracle set stays disjoint from xrp:usd's
				os = append([]sdk.AccAddress{w.parties[pOracleB].addr}, os...)
			}
		} else {
			os = append(os, w.parties[pOracleB].addr)
			if i != len(marketIDs)-1 && r.Chance(30) {
				os = append(os, w.parties[c.Pick(r, extra)].addr)
			}
		}
		markets = append(markets, pricefeedtypes.Market{MarketID: id, BaseAsset: base, QuoteAsset: "usd", Oracles: os, Active: true})
		posted = append(posted, pricefeedtypes.PostedPrice{MarketID: id, OracleAddress: os[0], Price: dec(prices[base]),
			Expiry: kapp.GenTime.Add(100000 * time.Hour)})
	}
	pfGS := pricefeedtypes.GenesisState{Params: pricefeedtypes.Params{Markets: markets}, PostedPrices: posted}

	// cdp
	var cps cdptypes.CollateralParams
	var accs cdptypes.GenesisAccumulationTimes
	var tps cdptypes.GenesisTotalPrincipals
	for _, t := range cdpTypes {
		cps = append(cps, cdptypes.CollateralParam{
			Denom: t.denom, Type: t.ctype, LiquidationRatio: dec(c.Pick(r, []string{"1.5", "2.0", "1.1"})),
			DebtLimit: coin("usdx", 500_000_000_000), StabilityFee: dec("1.000000001547125958"),
			LiquidationPenalty: dec("0.05"), AuctionSize: sdkmath.NewInt(10_000_000), SpotMarketID: t.spot,
			LiquidationMarketID: t.liq, KeeperRewardPercentage: dec("0.01"),
			CheckCollateralizationIndexCount: sdkmath.NewInt(10), ConversionFactor: sdkmath.NewInt(6),
		})
		accs = append(accs, cdptypes.NewGenesisAccumulationTime(t.ctype, time.Time{}, sdk.OneDec()))
		tps = append(tps, cdptypes.NewGenesisTotalPrincipal(t.ctype, sdk.ZeroInt()))
	}
	cdpGS := cdptypes.GenesisState{
		Params: cdptypes.Params{
			GlobalDebtLimit: coin("usdx", 2_000_000_000_000), SurplusAuctionThreshold: cdptypes.DefaultSurplusThreshold,
			SurplusAuctionLot: cdptypes.DefaultSurplusLot, DebtAuctionThreshold: cdptypes.DefaultDebtThreshold,
			DebtAuctionLot: cdptypes.DefaultDebtLot, LiquidationBlockInterval: cdptypes.DefaultBeginBlockerExecutionBlockInterval,
			CollateralParams: cps,
			DebtParam: cdptypes.DebtParam{Denom: "usdx", ReferenceAsset: "usd", ConversionFactor: sdkmath.NewInt(6),
				DebtFloor: sdkmath.NewInt(10_000_000)},
		},
		StartingCdpID: cdptypes.DefaultCdpStartingID, DebtDenom: cdptypes.DefaultDebtDenom, GovDenom: cdptypes.DefaultGovDenom,
		CDPs: cdptypes.CDPs{}, PreviousAccumulationTimes: accs, TotalPrincipals: tps,
	}

	// hard
	mm := func(denom, market string) hardtypes.MoneyMarket {
		return hardtypes.NewMoneyMarket(denom, hardtypes.NewBorrowLimit(false, sdk.NewDec(1_000_000_000_000_000), dec("0.6")),
			market, sdkmath.NewInt(1_000_000),
			hardtypes.NewInterestRateModel(dec("0.05"), dec("2"), dec("0.8"), dec("10")), dec("0.05"), sdk.ZeroDec())
	}
	hardGS := hardtypes.NewGenesisState(hardtypes.NewParams(hardtypes.MoneyMarkets{
		mm("usdx", "usdx:usd"), mm("ukava", "kava:usd"), mm("bnb", "bnb:usd"), mm("busd", "busd:usd"),
	}, sdk.NewDec(10)), hardtypes.DefaultAccumulationTimes, hardtypes.DefaultDeposits, hardtypes.DefaultBorrows,
		hardtypes.DefaultTotalSupplied, hardtypes.DefaultTotalBorrowed, hardtypes.DefaultTotalReserves)

	// swap
	swapGS := swaptypes.NewGenesisState(swaptypes.NewParams(swaptypes.NewAllowedPools(
		swaptypes.NewAllowedPool(swapPools[0][0], swapPools[0][1]), swaptypes.NewAllowedPool(swapPools[1][0], swapPools[1][1]),
	), dec("0.003")), swaptypes.DefaultPoolRecords, swaptypes.DefaultShareRecords)

	// savings, earn
	savingsGS := savingstypes.NewGenesisState(savingstypes.NewParams([]string{"ukava", "bnb", "usdx", "busd"}), nil)
	earnGS := earntypes.NewGenesisState(earntypes.NewParams(earntypes.AllowedVaults{
		earntypes.NewAllowedVault("usdx", earntypes.StrategyTypes{earntypes.STRATEGY_TYPE_HARD}, false, nil),
		earntypes.NewAllowedVault("ukava", earntypes.StrategyTypes{earntypes.STRATEGY_TYPE_SAVINGS}, false, nil),
	}), earntypes.VaultRecords{}, earntypes.VaultShareRecords{})

	// issuance: tok1 (ownerA, blockable, maybe rate limited), tok2 (ownerB, not blockable)
	rl := issuancetypes.NewRateLimit(false, sdk.ZeroInt(), time.Duration(0))
	if r.Chance(50) {
		rl = issuancetypes.NewRateLimit(true, sdkmath.NewInt(r.Range(1_000, 1_000_000_000)), 24*time.Hour)
	}
	var blocked []string
	if r.Chance(50) {
		blocked = append(blocked, w.parties[c.Pick(r, []int{pUserB, pMemberC, pOracleB})].addr.String())
	}
	issGS := issuancetypes.NewGenesisState(issuancetypes.NewParams([]issuancetypes.Asset{
		issuancetypes.NewAsset(w.parties[pOwnerA].addr.String(), "tok1", blocked, false, true, rl),
		issuancetypes.NewAsset(w.parties[pOwnerB].addr.String(), "tok2", nil, false, false,
			issuancetypes.NewRateLimit(false, sdk.ZeroInt(), time.Duration(0))),
	}), []issuancetypes.AssetSupply{
		issuancetypes.NewAssetSupply(coin("tok1", 0), time.Duration(0)),
		issuancetypes.NewAssetSupply(coin("tok2", 0), time.Duration(0)),
	})

	// bep3: bnb with the deputy
	bep3Asset := func(denom string, coinID int64, deputy int) bep3types.AssetParam {
		return bep3types.AssetParam{
			Denom: denom, CoinID: coinID,
			SupplyLimit: bep3types.SupplyLimit{Limit: sdkmath.NewInt(350_000_000_000_000), TimeLimited: r.Chance(40),
				TimeBasedLimit: sdkmath.NewInt(50_000_000_000), TimePeriod: time.Hour},
			Active: true, DeputyAddress: w.parties[deputy].addr, FixedFee: sdkmath.NewInt(1000),
			MinSwapAmount: sdkmath.NewInt(r.Range(1, 5)), MaxSwapAmount: sdkmath.NewInt(1_000_000_000_000),
			MinBlockLock: bep3types.DefaultMinBlockLock, MaxBlockLock: bep3types.DefaultMaxBlockLock,
		}
	}
	zeroSupply := func(d string) bep3types.AssetSupply {
		return bep3types.NewAssetSupply(coin(d, 0), coin(d, 0), coin(d, 0), coin(d, 0), time.Duration(0))
	}
	// two assets served by DIFFERENT deputies: each deputy is a non-principal for the sibling asset
	bep3GS := bep3types.GenesisState{
		Params: bep3types.Params{AssetParams: bep3types.AssetParams{
			bep3Asset(bep3Assets[0].denom, 714, bep3Assets[0].deputy), bep3Asset(bep3Assets[1].denom, 144, bep3Assets[1].deputy)}},
		Supplies:          bep3types.AssetSupplies{zeroSupply(bep3Assets[0].denom), zeroSupply(bep3Assets[1].denom)},
		PreviousBlockTime: bep3types.DefaultPreviousBlockTime,
	}

	// committees
	m1 := []sdk.AccAddress{w.parties[pMemberA].addr, w.parties[pMemberB].addr}
	if r.Chance(40) {
		m1 = append(m1, w.parties[c.Pick(r, []int{pOracleA, pDeputy, pOwnerB, pUserC})].addr)
	}
	perms := []committeetypes.Permission{&committeetypes.GodPermission{}}
	if r.Bool() {
		perms = []committeetypes.Permission{&committeetypes.TextPermission{}}
	}
	tally := committeetypes.TALLY_OPTION_DEADLINE
	comGS := committeetypes.NewGenesisState(1, []committeetypes.Committee{
		committeetypes.MustNewMemberCommittee(1, "member committee", m1, perms, dec("0.667"), 7*24*time.Hour, tally),
		committeetypes.MustNewTokenCommittee(2, "token committee", []sdk.AccAddress{w.parties[pMemberB].addr}, perms,
			dec("0.5"), 7*24*time.Hour, tally, dec("0.1"), "hard"),
		committeetypes.MustNewMemberCommittee(3, "other committee", []sdk.AccAddress{w.parties[pMemberC].addr}, perms,
			dec("0.5"), 7*24*time.Hour, committeetypes.TALLY_OPTION_FIRST_PAST_THE_POST),
	}, committeetypes.Proposals{}, []committeetypes.Vote{})

	tApp.InitializeFromGenesisStatesWithTime(kapp.GenTime, authGS,
		app.GenesisState{pricefeedtypes.ModuleName: cdc.MustMarshalJSON(&pfGS)},
		app.GenesisState{cdptypes.ModuleName: cdc.MustMarshalJSON(&cdpGS)},
		app.GenesisState{hardtypes.ModuleName: cdc.MustMarshalJSON(&hardGS)},
		app.GenesisState{swaptypes.ModuleName: cdc.MustMarshalJSON(&swapGS)},
		app.GenesisState{savingstypes.ModuleName: cdc.MustMarshalJSON(&savingsGS)},
		app.GenesisState{earntypes.ModuleName: cdc.MustMarshalJSON(&earnGS)},
		app.GenesisState{issuancetypes.ModuleName: cdc.MustMarshalJSON(&issGS)},
		app.GenesisState{bep3types.ModuleName: cdc.MustMarshalJSON(&bep3GS)},
		app.GenesisState{committeetypes.ModuleName: cdc.MustMarshalJSON(comGS)},
	)
	w.tApp = tApp
	w.ctx = tApp.NewContext(false, tmHeader(tApp.LastBlockHeight()+1, kapp.GenTime))
	for i := range w.parties {
		w.parties[i].bech = []byte(w.parties[i].addr.String())
	}
	w.nextBlock(0)
	w.populate(r)
	return w
}

// run a message through the app's own MsgServiceRouter (the registered msg servers), after ValidateBasic,
// inside a cache context written back only on success (what baseapp.runMsgs does)
func (w *world) deliver(ctx sdk.Context, msg sdk.Msg) (kapp.Class, error) {
	return kapp.Exec(ctx, func(cc sdk.Context) error {
		if err := msg.ValidateBasic(); err != nil {
			return err
		}
		h := w.tApp.MsgServiceRouter().Handler(msg)
		if h == nil {
			panic(fmt.Sprintf("no msg service route for %T", msg))
		}
		_, err := h(cc, msg)
		return err
	})
}

func (w *world) mustDeliver(msg sdk.Msg) bool {
	cls, err := w.deliver(w.ctx, msg)
	if cls != kapp.OK {
		w.out.Note(fmt.Sprintf("setup-op-failed:%T", msg))
		if c.EnvInt("VERIF_DEBUG", 0) > 0 {
			fmt.Printf("setup op failed: %T %v: %v\n", msg, msg, err)
		}
		return false
	}
	return true
}

// advance the block: height+1, time+dt, module begin/end blockers that move the modelled modules' state
func (w *world) nextBlock(dtSeconds int64) {
	h := w.ctx.BlockHeight() + 1
	t := w.ctx.BlockTime().Add(time.Duration(dtSeconds) * time.Second)
	w.ctx = w.ctx.WithBlockHeight(h).WithBlockTime(t)
	// the oracles keep the feeds alive: the first oracle of every market re-posts the current price with a
	// far expiry (a real MsgPostPrice), so that long histories do not end with every price expired
	if dtSeconds > 0 {
		pk := w.tApp.GetPriceFeedKeeper()
		for _, m := range pk.GetMarkets(w.ctx) {
			cp, err := pk.GetCurrentPrice(w.ctx, m.MarketID)
			if err != nil || len(m.Oracles) == 0 {
				continue
			}
			w.deliver(w.ctx, pricefeedtypes.NewMsgPostPrice(m.Oracles[0].String(), m.MarketID, cp.Price, t.Add(1_000_000*time.Second)))
		}
	}
	cls, err := kapp.Exec(w.ctx, func(cc sdk.Context) error {
		issuance.BeginBlocker(cc, w.tApp.GetIssuanceKeeper())
		bep3.BeginBlocker(cc, w.tApp.GetBep3Keeper())
		hard.BeginBlocker(cc, w.tApp.GetHardKeeper())
		cdp.BeginBlocker(cc, abci.RequestBeginBlock{Header: tmHeader(h, t)}, w.tApp.GetCDPKeeper())
		committee.BeginBlocker(cc, abci.RequestBeginBlock{Header: tmHeader(h, t)}, w.tApp.GetCommitteeKeeper())
		pricefeed.EndBlocker(cc, w.tApp.GetPriceFeedKeeper())
		return nil
	})
	if cls != kapp.OK {
		w.out.Violation(fmt.Sprintf("C16 harness: begin/end blockers failed: %v", err))
	}
}

func (w *world) addr(i int) sdk.AccAddress { return w.parties[i].addr }

// records for users A and B (and a third-party deposit of B on A's CDP), produced by real messages only
func (w *world) populate(r *c.Rng) {
	for _, u := range []int{pUserA, pUserB} {
		for _, t := range cdpTypes {
			collat := r.Range(200_000_000, 900_000_000)
			msg := cdptypes.NewMsgCreateCDP(w.addr(u), coin(t.denom, collat), coin("usdx", r.Range(10_000_000, 40_000_000)), t.ctype)
			w.mustDeliver(&msg)
		}
		hd := hardtypes.NewMsgDeposit(w.addr(u), sdk.NewCoins(coin("ukava", r.Range(100_000_000, 900_000_000)), coin("bnb", r.Range(100_000_000, 900_000_000)), coin("usdx", r.Range(100_000_000, 900_000_000))))
		w.mustDeliver(&hd)
		if r.Chance(60) {
			hb := hardtypes.NewMsgBorrow(w.addr(u), sdk.NewCoins(coin("usdx", r.Range(10_000_000, 60_000_000))))
			w.mustDeliver(&hb)
		}
		for _, p := range swapPools {
			sd := swaptypes.NewMsgDeposit(w.addr(u).String(), coin(p[0], r.Range(1_000_000, 50_000_000)), coin(p[1], r.Range(1_000_000, 50_000_000)), dec("100.0"), w.ctx.BlockTime().Unix()+1000)
			w.mustDeliver(sd)
		}
		w.mustDeliver(earntypes.NewMsgDeposit(w.addr(u).String(), coin("usdx", r.Range(1_000_000, 90_000_000)), earntypes.STRATEGY_TYPE_HARD))
		w.mustDeliver(earntypes.NewMsgDeposit(w.addr(u).String(), coin("ukava", r.Range(1_000_000, 90_000_000)), earntypes.STRATEGY_TYPE_SAVINGS))
		sv := savingstypes.NewMsgDeposit(w.addr(u), sdk.NewCoins(coin("ukava", r.Range(1, 900_000_000)), coin("bnb", r.Range(1, 900_000_000))))
		w.mustDeliver(&sv)
	}
	// B (and sometimes C's neighbour, the oracle) deposit on A's CDPs: third-party deposits
	for _, t := range cdpTypes {
		d := cdptypes.NewMsgDeposit(w.addr(pUserA), w.addr(pUserB), coin(t.denom, r.Range(1_000_000, 50_000_000)), t.ctype)
		w.mustDeliver(&d)
		if r.Chance(50) {
			d2 := cdptypes.NewMsgDeposit(w.addr(pUserA), w.addr(pOracleB), coin(t.denom, r.Range(1_000_000, 50_000_000)), t.ctype)
			w.mustDeliver(&d2)
		}
	}
	// issuance: everybody holds some tok1/tok2 already (genesis); the owners issue a little more
	w.mustDeliver(issuancetypes.NewMsgIssueTokens(w.addr(pOwnerA).String(), coin("tok1", r.Range(1, 500)), w.addr(pUserC).String()))
	w.mustDeliver(issuancetypes.NewMsgIssueTokens(w.addr(pOwnerB).String(), coin("tok2", r.Range(1, 500)), w.addr(pUserC).String()))
	// a proposal on each committee
	for _, cid := range []uint64{1, 2, 3} {
		w.submit(cid)
	}
	// bep3: some incoming swaps, one claimed so that the current supply is positive (outgoing swaps possible)
	for _, a := range bep3Assets {
		for i := 0; i < 2; i++ {
			rn, rnh, ts := w.randomNumber(r)
			msg := bep3types.NewMsgCreateAtomicSwap(w.addr(a.deputy).String(), w.addr(pUserA).String(), "bnbRecipient", "bnbSender",
				rnh, ts, sdk.NewCoins(coin(a.denom, r.Range(10_000_000, 90_000_000))), bep3types.DefaultMinBlockLock)
			if w.mustDeliver(&msg) && i == 0 {
				id := bep3types.CalculateSwapID(rnh, w.addr(a.deputy), "bnbSender")
				cl := bep3types.NewMsgClaimAtomicSwap(w.addr(pUserA).String(), id, rn)
				w.mustDeliver(&cl)
			}
		}
	}
	w.nextBlock(r.Range(1, 600))
}

func (w *world) proposerOf(cid uint64) int {
	switch cid {
	case 3:
		return pMemberC
	case 2:
		return pMemberB
	}
	return pMemberA
}

func (w *world) submit(cid uint64) uint64 {
	w.nonce++
	prop := govv1beta1.NewTextProposal(fmt.Sprintf("proposal %d", w.nonce), "text")
	msg, err := committeetypes.NewMsgSubmitProposal(prop, w.addr(w.proposerOf(cid)), cid)
	must(err)
	if !w.mustDeliver(msg) {
		return 0
	}
	id, err := w.tApp.GetCommitteeKeeper().GetNextProposalID(w.ctx)
	must(err)
	return id - 1
}

func (w *world) randomNumber(r *c.Rng) (rn []byte, rnh []byte, ts int64) {
	rn = make([]byte, 32)
	for i := range rn {
		rn[i] = byte(r.U64())
	}
	// inside the accepted window [-15min, +30min), with its edges and the first values outside
	ts = w.ctx.BlockTime().Unix() + c.Pick(r, []int64{r.Range(-800, 1700), r.Range(-800, 1700), r.Range(-800, 1700), -900, -901, 1799, 1800})
	rnh = bep3types.CalculateRandomHash(rn, ts)
	return
}

// evolve the state between rounds with real messages from the principals
func (w *world) evolve(r *c.Rng) {
	n := int(r.Range(2, 6))
	for k := 0; k < n; k++ {
		u := c.Pick(r, []int{pUserA, pUserB})
		switch r.Intn(12) {
		case 0:
			id := c.Pick(r, marketIDs)
			os, _ := w.tApp.GetPriceFeedKeeper().GetOracles(w.ctx, id)
			if len(os) > 0 {
				w.mustDeliver(pricefeedtypes.NewMsgPostPrice(c.Pick(r, os).String(), id, dec(c.Pick(r, []string{"0.9", "1.0", "1.1", "2.0", "17.0"})),
					w.ctx.BlockTime().Add(time.Duration(r.Range(1, 100000))*time.Second)))
			}
		case 1:
			w.mustDeliver(issuancetypes.NewMsgIssueTokens(w.addr(pOwnerA).String(), coin("tok1", r.Range(1, 300)), w.addr(c.Pick(r, []int{pUserA, pUserC, pMemberA})).String()))
		case 2:
			a, _ := w.tApp.GetIssuanceKeeper().GetAsset(w.ctx, "tok1")
			x := w.addr(c.Pick(r, []int{pUserB, pMemberC, pOracleB, pUserC}))
			isBlocked := false
			for _, b := range a.BlockedAddresses {
				if b == x.String() {
					isBlocked = true
				}
			}
			if isBlocked {
				w.mustDeliver(issuancetypes.NewMsgUnblockAddress(w.addr(pOwnerA).String(), "tok1", x.String()))
			} else if len(a.BlockedAddresses) < 3 {
				w.mustDeliver(issuancetypes.NewMsgBlockAddress(w.addr(pOwnerA).String(), "tok1", x.String()))
			}
		case 3:
			t := c.Pick(r, cdpTypes)
			m := cdptypes.NewMsgDeposit(w.addr(u), w.addr(u), coin(t.denom, r.Range(1, 50_000_000)), t.ctype)
			w.mustDeliver(&m)
		case 4:
			t := c.Pick(r, cdpTypes)
			m := cdptypes.NewMsgDrawDebt(w.addr(u), t.ctype, coin("usdx", r.Range(1, 2_000_000)))
			w.deliver(w.ctx, &m)
		case 5:
			m := hardtypes.NewMsgDeposit(w.addr(u), sdk.NewCoins(coin(c.Pick(r, []string{"ukava", "bnb", "usdx", "busd"}), r.Range(1, 50_000_000))))
			w.mustDeliver(&m)
		case 6:
			p := c.Pick(r, swapPools)
			w.deliver(w.ctx, swaptypes.NewMsgDeposit(w.addr(u).String(), coin(p[0], r.Range(1_000, 5_000_000)), coin(p[1], r.Range(1_000, 5_000_000)), dec("100.0"), w.ctx.BlockTime().Unix()+1000))
		case 7:
			m := savingstypes.NewMsgDeposit(w.addr(u), sdk.NewCoins(coin(c.Pick(r, []string{"ukava", "bnb", "usdx"}), r.Range(1, 50_000_000))))
			w.mustDeliver(&m)
		case 8:
			w.mustDeliver(earntypes.NewMsgDeposit(w.addr(u).String(), coin("usdx", r.Range(1_000_000, 9_000_000)), earntypes.STRATEGY_TYPE_HARD))
		case 9:
			_, rnh, ts := w.randomNumber(r)
			a := c.Pick(r, bep3Assets)
			msg := bep3types.NewMsgCreateAtomicSwap(w.addr(a.deputy).String(), w.addr(c.Pick(r, []int{pUserA, pUserB, pUserC})).String(), "bnbRecipient", "bnbSender",
				rnh, ts, sdk.NewCoins(coin(a.denom, r.Range(10, 90_000_000))), bep3types.DefaultMinBlockLock)
			w.deliver(w.ctx, &msg)
		case 10:
			w.submit(uint64(r.Range(1, 3)))
		case 11:
			w.nextBlock(r.Range(1, 3600))
		}
	}
	if r.Chance(50) {
		w.nextBlock(r.Range(1, 30))
	}
}

// ---------------------------------------------------------------- digests

type digests struct {
	total string
	per   []string
}

// scan hashes every key/value pair of every listed store; a pair also feeds the digest of each party whose
// address (raw bytes or bech32 text) occurs in its key or value — i.e. the records keyed by or naming that party.
func (w *world) scan(ctx sdk.Context) digests {
	tot := sha256.New()
	per := make([]interface {
		Write([]byte) (int, error)
		Sum([]byte) []byte
	}, len(w.parties))
	for i := range per {
		per[i] = sha256.New()
	}
	var lenbuf [8]byte
	put := func(h interface{ Write([]byte) (int, error) }, name string, k, v []byte) {
		h.Write([]byte(name))
		lenbuf[0], lenbuf[1], lenbuf[2], lenbuf[3] = byte(len(k)), byte(len(k)>>8), byte(len(v)), byte(len(v)>>8)
		h.Write(lenbuf[:4])
		h.Write(k)
		h.Write(v)
	}
	for _, name := range storeNames {
		key := w.tApp.GetKVStoreKey(name)
		if key == nil {
			panic("no store key " + name)
		}
		it := ctx.KVStore(key).Iterator(nil, nil)
		for ; it.Valid(); it.Next() {
			k, v := it.Key(), it.Value()
			put(tot, name, k, v)
			for i, p := range w.parties {
				if bytes.Contains(k, p.addr) || bytes.Contains(v, p.addr) || bytes.Contains(v, p.bech) || bytes.Contains(k, p.bech) {
					put(per[i], name, k, v)
				}
			}
		}
		it.Close()
	}
	d := digests{total: hex.EncodeToString(tot.Sum(nil)[:8])}
	for i := range per {
		d.per = append(d.per, hex.EncodeToString(per[i].Sum(nil)[:8]))
	}
	return d
}
