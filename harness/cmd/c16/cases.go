package main

// cases.go: one test case family per privileged handler.  For the current (reachable) state a message is built
// that succeeds for the designated principal (verified in a discarded cache context); the same message is then
// replayed with every other party as signer through the app's msg service router.

import (
	"fmt"
	"math/big"
	"strconv"
	"strings"
	"time"

	sdkmath "cosmossdk.io/math"
	errorsmod "cosmossdk.io/errors"
	sdk "github.com/cosmos/cosmos-sdk/types"
	govv1beta1 "github.com/cosmos/cosmos-sdk/x/gov/types/v1beta1"

	bep3types "github.com/kava-labs/kava/x/bep3/types"
	cdptypes "github.com/kava-labs/kava/x/cdp/types"
	committeetypes "github.com/kava-labs/kava/x/committee/types"
	communitytypes "github.com/kava-labs/kava/x/community/types"
	earntypes "github.com/kava-labs/kava/x/earn/types"
	hardtypes "github.com/kava-labs/kava/x/hard/types"
	issuancetypes "github.com/kava-labs/kava/x/issuance/types"
	pricefeedtypes "github.com/kava-labs/kava/x/pricefeed/types"
	savingstypes "github.com/kava-labs/kava/x/savings/types"
	swaptypes "github.com/kava-labs/kava/x/swap/types"

	c "kavaverif/harness/common"
	"kavaverif/harness/kapp"
)

type tcase struct {
	cmd       string // driver command
	pred      string // name of the property predicate / theorem (C16_…)
	principal int    // the party the message is built for
	// may this party legitimately succeed with this message in this state? (read from the state, e.g. oracle list)
	allowed func(signer int) bool
	keyed   bool // record-keyed handler: "other signer with own record" may succeed, frame is checked instead
	mk      func(signer int) sdk.Msg
	pre     func(signer int) []string                     // model inputs observed on the pre-state
	post    func(b sdk.Context, signer int, ok bool) []string // extra observations on the branch after the message
	ownMod  int                                           // module account of the handler's own module (-1: none)
	// record-keyed handlers: the user parties whose records a successful message of this signer may touch
	// (default: the signer only)
	frame func(signer int) []int
	// signer kind relative to the object the message addresses ("" = the party's static kind): the principal
	// of the SIBLING object (deputy of the other asset, oracle of other markets only, owner of the other
	// asset, member of other committees only) is the most tempting non-principal
	relabel func(signer int) string
}

func itoa(x int) string      { return strconv.Itoa(x) }
func i64(x int64) string     { return strconv.FormatInt(x, 10) }
func bigs(x sdkmath.Int) string {
	if x.IsNil() {
		return "0"
	}
	return x.String()
}

func (w *world) idx(a sdk.AccAddress) int {
	for i, p := range w.parties {
		if p.addr.Equals(a) {
			return i
		}
	}
	return -1
}

func (w *world) idxOfBech(s string) int {
	for i, p := range w.parties {
		if string(p.bech) == s {
			return i
		}
	}
	return -1
}

func idxList(xs []int) string {
	if len(xs) == 0 {
		return "-"
	}
	s := make([]string, len(xs))
	for i, x := range xs {
		s[i] = itoa(x)
	}
	return strings.Join(s, ",")
}

func (w *world) bal(ctx sdk.Context, i int, denom string) sdkmath.Int {
	return w.tApp.GetBankKeeper().GetBalance(ctx, w.addr(i), denom).Amount
}

// errcode renders the registered error (codespace/code) behind err
func errcode(err error) string {
	if err == nil {
		return "-"
	}
	space, code, _ := errorsmod.ABCIInfo(err, false)
	return fmt.Sprintf("%s/%d", space, code)
}

// ---------------------------------------------------------------- the generic replay

func (w *world) signersFor(t *tcase) []int {
	var s []int
	for i := 0; i <= pKavadist; i++ {
		s = append(s, i)
	}
	if t.ownMod >= 0 {
		s = append(s, t.ownMod)
	}
	return s
}

func (w *world) runCase(t *tcase) {
	// the message must succeed for the principal in this state (discarded)
	probeOK := true
	{
		probe, _ := w.ctx.CacheContext()
		cls, err := w.deliver(probe, t.mk(t.principal))
		if cls != kapp.OK {
			probeOK = false
			// not a state of the property's quantifier ("the message would succeed for the principal"), but the
			// other signers are still replayed: a guard that lets only non-principals through must not hide here
			w.out.Note("principal-setup-failed:" + t.cmd)
			if c.EnvInt("VERIF_DEBUG", 0) > 0 {
				fmt.Println("principal failed", t.cmd, err)
			}
		}
	}
	d0 := w.scan(w.ctx)
	for _, s := range w.signersFor(t) {
		branch, _ := w.ctx.CacheContext()
		pre := t.pre(s)
		cls, err := w.deliver(branch, t.mk(s))
		d1 := w.scan(branch)
		changed := d0.total != d1.total
		var chg []int
		for i := 0; i <= pFresh; i++ {
			if d0.per[i] != d1.per[i] {
				chg = append(chg, i)
			}
		}
		var post []string
		if t.post != nil {
			post = t.post(branch, s, cls == kapp.OK)
		}
		kind := w.parties[s].kind
		if w.parties[s].module != "" && s == t.ownMod {
			kind = "own-module-account"
		}
		if t.relabel != nil {
			if k := t.relabel(s); k != "" {
				kind = k
			}
		}
		allowed := t.allowed(s)
		role := "other"
		if allowed {
			role = "principal"
		}
		fields := append([]string{kind, itoa(s), c.B(probeOK)}, pre...)
		fields = append(fields, "=>", string(cls), c.B(changed), errcode(err))
		fields = append(fields, post...)
		fields = append(fields, idxList(chg))
		sig := fmt.Sprintf("%s|%s|%s|%s", kind, role, cls, c.B(changed))
		w.out.Case(sig, t.cmd, fields...)
		w.out.Note("cls:" + t.cmd + ":" + role + ":" + string(cls))
		if cls != kapp.OK {
			w.out.Note("err:" + t.cmd + ":" + errcode(err))
		}
		// violations that can be read off the implementation directly
		if cls != kapp.OK && changed {
			w.out.Violation(fmt.Sprintf("C16_failed_changes_nothing %s state-changed-by-failed-message handler=%s err=%v", kind, t.cmd, err))
		}
		if cls == kapp.OK && !allowed {
			tag := "non-principal-succeeded"
			if t.keyed {
				tag = "no-record-succeeded"
			}
			w.out.Violation(fmt.Sprintf("%s %s %s handler=%s signer=%s", t.pred, kind, tag, t.cmd, w.addr(s)))
		}
		if cls == kapp.OK && t.keyed {
			may := []int{s}
			if t.frame != nil {
				may = append(may, t.frame(s)...)
			}
			for _, u := range chg {
				found := false
				for _, m := range may {
					if m == u {
						found = true
					}
				}
				if !found {
					w.out.Violation(fmt.Sprintf("%s %s other-party-record-changed party=%d handler=%s", t.pred, kind, u, t.cmd))
				}
			}
		}
	}
}

// ---------------------------------------------------------------- pricefeed

func (w *world) casePostPrice(r *c.Rng) *tcase {
	pk := w.tApp.GetPriceFeedKeeper()
	mi := r.Intn(len(marketIDs))
	id := marketIDs[mi]
	os, err := pk.GetOracles(w.ctx, id)
	if err != nil || len(os) == 0 {
		return nil
	}
	principal := w.idx(c.Pick(r, os))
	price := dec(c.Pick(r, []string{"0.5", "1.0", "1.000000000000000001", "17.25", "8000"}))
	delta := c.Pick(r, []int64{r.Range(1, 100000), r.Range(1, 100000), r.Range(1, 100000), 1, 0, -1})
	expiry := w.ctx.BlockTime().Add(time.Duration(delta) * time.Second)
	var ms []string
	for k, m := range pk.GetMarkets(w.ctx) {
		var o []string
		for _, a := range m.Oracles {
			o = append(o, itoa(w.idx(a)))
		}
		_ = k
		ms = append(ms, m.MarketID+"="+strings.Join(o, "."))
	}
	isOracle := func(s int) bool {
		for _, a := range os {
			if a.Equals(w.addr(s)) {
				return true
			}
		}
		return false
	}
	return &tcase{cmd: "c16.pricefeed.post", pred: "C16_pricefeed_post", principal: principal, allowed: isOracle, ownMod: -1,
		relabel: func(s int) string {
			if isOracle(s) {
				return "oracle"
			}
			for _, m := range pk.GetMarkets(w.ctx) {
				for _, a := range m.Oracles {
					if a.Equals(w.addr(s)) {
						return "other-market-oracle"
					}
				}
			}
			return ""
		},
		mk: func(s int) sdk.Msg { return pricefeedtypes.NewMsgPostPrice(w.addr(s).String(), id, price, expiry) },
		pre: func(s int) []string { return []string{strings.Join(ms, ";"), id, i64(delta)} },
		post: func(b sdk.Context, s int, ok bool) []string {
			// was a raw price stored for (market, signer)?
			for _, p := range pk.GetRawPrices(b, id) {
				if p.OracleAddress.Equals(w.addr(s)) && p.Price.Equal(price) && p.Expiry.Equal(expiry) {
					return []string{"1"}
				}
			}
			return []string{"0"}
		}}
}

// ---------------------------------------------------------------- issuance

func (w *world) assetFields(a issuancetypes.Asset, found bool, curSupply string) []string {
	var bl []int
	for _, b := range a.BlockedAddresses {
		bl = append(bl, w.idxOfBech(b))
	}
	return []string{c.B(found), itoa(w.idxOfBech(a.Owner)), c.B(a.Paused), c.B(a.Blockable), idxList(bl),
		c.B(a.RateLimit.Active), bigs(a.RateLimit.Limit), curSupply}
}

func (w *world) issuanceCases(r *c.Rng) []*tcase {
	ik := w.tApp.GetIssuanceKeeper()
	ak := w.tApp.GetAccountKeeper()
	bk := w.tApp.GetBankKeeper()
	denom := c.Pick(r, []string{"tok1", "tok1", "tok2"})
	a, found := ik.GetAsset(w.ctx, denom)
	if !found {
		return nil
	}
	owner := w.idxOfBech(a.Owner)
	if a.Paused { // the owner un-pauses (a real, committed message) so that issue/redeem can succeed
		w.mustDeliver(issuancetypes.NewMsgSetPauseStatus(a.Owner, denom, false))
		a, _ = ik.GetAsset(w.ctx, denom)
	}
	if a.Blockable && len(a.BlockedAddresses) == 0 {
		w.mustDeliver(issuancetypes.NewMsgBlockAddress(a.Owner, denom, w.addr(c.Pick(r, []int{pUserB, pMemberC, pOracleB})).String()))
		a, _ = ik.GetAsset(w.ctx, denom)
	}
	cur := "-1"
	if sup, ok := ik.GetAssetSupply(w.ctx, denom); ok {
		cur = bigs(sup.CurrentSupply.Amount)
	}
	isOwner := func(s int) bool { return s == owner }
	ownerKind := func(s int) string {
		if s == owner {
			return "asset-owner"
		}
		for _, o := range ik.GetParams(w.ctx).Assets {
			if o.Owner == w.addr(s).String() {
				return "other-asset-owner"
			}
		}
		return ""
	}
	isBlocked := func(x int) bool {
		for _, b := range a.BlockedAddresses {
			if b == w.addr(x).String() {
				return true
			}
		}
		return false
	}
	targetFields := func(x int) []string {
		acc := ak.GetAccount(w.ctx, w.addr(x))
		_, isMod := acc.(interface{ GetPermissions() []string })
		return []string{itoa(x), c.B(isMod), c.B(acc != nil), c.B(bk.BlockedAddr(w.addr(x)))}
	}
	af := w.assetFields(a, true, cur)
	var out []*tcase
	// issue
	{
		var cands []int
		for _, x := range []int{pUserA, pUserC, pMemberA, pOracleA, pFresh, pUserB, pMemberC} {
			if !isBlocked(x) {
				cands = append(cands, x)
			}
		}
		recv := c.Pick(r, cands)
		amt := r.Range(1, 1000)
		if a.RateLimit.Active && r.Chance(40) { // at / just over the rate limit
			if sup, ok := ik.GetAssetSupply(w.ctx, denom); ok {
				if room := a.RateLimit.Limit.Sub(sup.CurrentSupply.Amount); room.IsInt64() && room.Int64() > 0 {
					amt = room.Int64() + r.Range(-1, 1)
					if amt < 1 {
						amt = 1
					}
				}
			}
		}
		out = append(out, &tcase{cmd: "c16.issuance.issue", pred: "C16_issuance_issue", principal: owner, allowed: isOwner, ownMod: pIssuanceM, relabel: ownerKind,
			mk: func(s int) sdk.Msg {
				return issuancetypes.NewMsgIssueTokens(w.addr(s).String(), coin(denom, amt), w.addr(recv).String())
			},
			pre: func(s int) []string {
				return append(append(append([]string{}, af...), targetFields(recv)...), i64(amt), bigs(w.bal(w.ctx, s, denom)), "0")
			},
			post: func(b sdk.Context, s int, ok bool) []string {
				return []string{bigs(w.bal(b, recv, denom).Sub(w.bal(w.ctx, recv, denom)))}
			}})
	}
	// redeem
	{
		amt := r.Range(1, 1000)
		out = append(out, &tcase{cmd: "c16.issuance.redeem", pred: "C16_issuance_redeem", principal: owner, allowed: isOwner, ownMod: pIssuanceM, relabel: ownerKind,
			mk: func(s int) sdk.Msg { return issuancetypes.NewMsgRedeemTokens(w.addr(s).String(), coin(denom, amt)) },
			pre: func(s int) []string {
				return append(append(append([]string{}, af...), targetFields(s)...), i64(amt), bigs(w.bal(w.ctx, s, denom)), "0")
			},
			post: func(b sdk.Context, s int, ok bool) []string {
				return []string{bigs(w.bal(w.ctx, s, denom).Sub(w.bal(b, s, denom)))}
			}})
	}
	if a.Blockable {
		var free, blk []int
		for _, x := range []int{pUserA, pUserB, pUserC, pMemberC, pOracleB, pMemberA} {
			if isBlocked(x) {
				blk = append(blk, x)
			} else {
				free = append(free, x)
			}
		}
		if len(free) > 0 {
			x := c.Pick(r, free)
			out = append(out, &tcase{cmd: "c16.issuance.block", pred: "C16_issuance_block", principal: owner, allowed: isOwner, ownMod: pIssuanceM, relabel: ownerKind,
				mk: func(s int) sdk.Msg {
					return issuancetypes.NewMsgBlockAddress(w.addr(s).String(), denom, w.addr(x).String())
				},
				pre: func(s int) []string {
					return append(append(append([]string{}, af...), targetFields(x)...), "0", "0", "0")
				},
				post: func(b sdk.Context, s int, ok bool) []string {
					a2, _ := ik.GetAsset(b, denom)
					return []string{itoa(len(a2.BlockedAddresses) - len(a.BlockedAddresses))}
				}})
		}
		if len(blk) > 0 {
			x := c.Pick(r, blk)
			out = append(out, &tcase{cmd: "c16.issuance.unblock", pred: "C16_issuance_unblock", principal: owner, allowed: isOwner, ownMod: pIssuanceM, relabel: ownerKind,
				mk: func(s int) sdk.Msg {
					return issuancetypes.NewMsgUnblockAddress(w.addr(s).String(), denom, w.addr(x).String())
				},
				pre: func(s int) []string {
					return append(append(append([]string{}, af...), targetFields(x)...), "0", "0", "0")
				},
				post: func(b sdk.Context, s int, ok bool) []string {
					a2, _ := ik.GetAsset(b, denom)
					return []string{itoa(len(a2.BlockedAddresses) - len(a.BlockedAddresses))}
				}})
		}
	}
	{
		status := r.Bool()
		out = append(out, &tcase{cmd: "c16.issuance.pause", pred: "C16_issuance_pause", principal: owner, allowed: isOwner, ownMod: pIssuanceM, relabel: ownerKind,
			mk: func(s int) sdk.Msg { return issuancetypes.NewMsgSetPauseStatus(w.addr(s).String(), denom, status) },
			pre: func(s int) []string {
				return append(append(append([]string{}, af...), targetFields(s)...), "0", "0", c.B(status))
			},
			post: func(b sdk.Context, s int, ok bool) []string {
				a2, _ := ik.GetAsset(b, denom)
				return []string{c.B(a2.Paused)}
			}})
	}
	return out
}

// ---------------------------------------------------------------- bep3

func (w *world) bep3Case(r *c.Rng, toDeputy bool) *tcase {
	k := w.tApp.GetBep3Keeper()
	ba := c.Pick(r, bep3Assets)
	denom := ba.denom
	asset, err := k.GetAsset(w.ctx, denom)
	if err != nil {
		return nil
	}
	sup, _ := k.GetAssetSupply(w.ctx, denom)
	deputy := w.idx(asset.DeputyAddress)
	recv := c.Pick(r, []int{pUserA, pUserB, pUserC, pFresh, pOracleA})
	principal := deputy
	if toDeputy {
		recv = deputy
		principal = pUserC
	}
	_, rnh, ts := w.randomNumber(r)
	lo := asset.MinSwapAmount.Int64()
	amt := c.Pick(r, []int64{lo, lo + 1, r.Range(lo, 50_000_000), asset.FixedFee.Int64() + lo + 1})
	if toDeputy {
		// outgoing: must exceed fee+min and fit the current supply
		avail := sup.CurrentSupply.Amount.Sub(sup.OutgoingSupply.Amount).Int64()
		if avail <= asset.FixedFee.Int64()+lo+1 {
			return nil
		}
		amt = r.Range(asset.FixedFee.Int64()+lo+1, avail)
	}
	span := uint64(r.Range(int64(asset.MinBlockLock), int64(asset.MaxBlockLock)))
	cmd, pred := "c16.bep3.create", "C16_bep3_direction"
	allowed := func(s int) bool { return s == deputy }
	if toDeputy {
		allowed = func(s int) bool { return s != deputy }
	}
	mkID := func(s int) []byte { return bep3types.CalculateSwapID(rnh, w.addr(s), "bnbSender") }
	return &tcase{cmd: cmd, pred: pred, principal: principal, allowed: allowed, ownMod: pBep3M,
		relabel: func(s int) string {
			if s == deputy {
				return "bep3-deputy"
			}
			for _, o := range bep3Assets {
				if o.deputy == s {
					return "other-asset-deputy"
				}
			}
			return ""
		},
		mk: func(s int) sdk.Msg {
			m := bep3types.NewMsgCreateAtomicSwap(w.addr(s).String(), w.addr(recv).String(), "bnbRecipient", "bnbSender",
				rnh, ts, sdk.NewCoins(coin(denom, amt)), span)
			return &m
		},
		pre: func(s int) []string {
			_, dup := k.GetAtomicSwap(w.ctx, mkID(s))
			return []string{itoa(recv), itoa(deputy), c.B(k.Maccs[w.addr(recv).String()]), c.B(asset.Active),
				bigs(asset.MinSwapAmount), bigs(asset.MaxSwapAmount), bigs(asset.FixedFee),
				strconv.FormatUint(asset.MinBlockLock, 10), strconv.FormatUint(asset.MaxBlockLock, 10),
				bigs(asset.SupplyLimit.Limit), c.B(asset.SupplyLimit.TimeLimited), bigs(asset.SupplyLimit.TimeBasedLimit),
				bigs(sup.CurrentSupply.Amount), bigs(sup.IncomingSupply.Amount), bigs(sup.OutgoingSupply.Amount),
				bigs(sup.TimeLimitedCurrentSupply.Amount), c.B(dup), i64(amt), i64(ts - w.ctx.BlockTime().Unix()),
				strconv.FormatUint(span, 10), bigs(w.bal(w.ctx, s, denom))}
		},
		post: func(b sdk.Context, s int, ok bool) []string {
			sw, found := k.GetAtomicSwap(b, mkID(s))
			dir := "-"
			if found {
				dir = map[bep3types.SwapDirection]string{bep3types.SWAP_DIRECTION_INCOMING: "in", bep3types.SWAP_DIRECTION_OUTGOING: "out"}[sw.Direction]
			}
			s2, _ := k.GetAssetSupply(b, denom)
			return []string{dir, bigs(s2.IncomingSupply.Amount.Sub(sup.IncomingSupply.Amount))}
		}}
}

// ---------------------------------------------------------------- committee

func (w *world) committeeFields(com committeetypes.Committee) (members []int, isMember bool) {
	for _, m := range com.GetMembers() {
		members = append(members, w.idx(m))
	}
	_, isMember = com.(*committeetypes.MemberCommittee)
	return
}

// member of the addressed committee / member of other committees only
func (w *world) memberKind(com committeetypes.Committee) func(int) string {
	return func(s int) string {
		if com.HasMember(w.addr(s)) {
			if strings.HasPrefix(w.parties[s].kind, "committee-member") {
				return w.parties[s].kind
			}
			return "committee-member"
		}
		for _, o := range w.tApp.GetCommitteeKeeper().GetCommittees(w.ctx) {
			if o.HasMember(w.addr(s)) {
				return "other-committee-member"
			}
		}
		return ""
	}
}

func (w *world) caseSubmit(r *c.Rng) *tcase {
	ck := w.tApp.GetCommitteeKeeper()
	cid := uint64(r.Range(1, 3))
	com, found := ck.GetCommittee(w.ctx, cid)
	if !found {
		return nil
	}
	members, isMember := w.committeeFields(com)
	w.nonce++
	prop := govv1beta1.NewTextProposal(fmt.Sprintf("replayed proposal %d", w.nonce), "text")
	next, _ := ck.GetNextProposalID(w.ctx)
	return &tcase{cmd: "c16.committee.submit", pred: "C16_committee_submit", principal: c.Pick(r, members), ownMod: -1,
		relabel: w.memberKind(com),
		allowed: func(s int) bool { return com.HasMember(w.addr(s)) },
		mk: func(s int) sdk.Msg {
			m, err := committeetypes.NewMsgSubmitProposal(prop, w.addr(s), cid)
			must(err)
			return m
		},
		pre: func(s int) []string { return []string{"1", idxList(members), c.B(isMember)} },
		post: func(b sdk.Context, s int, ok bool) []string {
			n2, _ := ck.GetNextProposalID(b)
			return []string{strconv.FormatUint(n2-next, 10)}
		}}
}

func (w *world) caseVote(r *c.Rng) *tcase {
	ck := w.tApp.GetCommitteeKeeper()
	cid := uint64(r.Range(1, 3))
	com, found := ck.GetCommittee(w.ctx, cid)
	if !found {
		return nil
	}
	props := ck.GetProposalsByCommittee(w.ctx, cid)
	var pid uint64
	if len(props) == 0 {
		pid = w.submit(cid)
		if pid == 0 {
			return nil
		}
	} else {
		pid = c.Pick(r, props).ID
	}
	members, isMember := w.committeeFields(com)
	vt := committeetypes.VOTE_TYPE_YES
	if !isMember {
		vt = c.Pick(r, []committeetypes.VoteType{committeetypes.VOTE_TYPE_YES, committeetypes.VOTE_TYPE_NO, committeetypes.VOTE_TYPE_ABSTAIN})
	}
	return &tcase{cmd: "c16.committee.vote", pred: "C16_committee_vote", principal: c.Pick(r, members), ownMod: -1,
		relabel: w.memberKind(com),
		allowed: func(s int) bool { return !isMember || com.HasMember(w.addr(s)) },
		mk:      func(s int) sdk.Msg { return committeetypes.NewMsgVote(w.addr(s), pid, vt) },
		pre: func(s int) []string {
			pr, _ := ck.GetProposal(w.ctx, pid)
			return []string{"1", c.B(pr.HasExpiredBy(w.ctx.BlockTime())), idxList(members), c.B(isMember), itoa(int(vt))}
		},
		post: func(b sdk.Context, s int, ok bool) []string {
			_, has := ck.GetVote(b, pid, w.addr(s))
			_, had := ck.GetVote(w.ctx, pid, w.addr(s))
			return []string{c.B(has), c.B(had)}
		}}
}

// ---------------------------------------------------------------- community

func (w *world) caseCommunity(r *c.Rng) *tcase {
	ck := w.tApp.GetCommunityKeeper()
	params, _ := ck.GetParams(w.ctx)
	params.StakingRewardsPerSecond = sdkmath.LegacyNewDec(r.Range(0, 1_000_000))
	authority := w.idx(ck.GetAuthority())
	return &tcase{cmd: "c16.community.update", pred: "C16_community_update", principal: authority, ownMod: -1,
		allowed: func(s int) bool { return s == authority },
		mk: func(s int) sdk.Msg {
			m := communitytypes.NewMsgUpdateParams(w.addr(s), params)
			return &m
		},
		pre: func(s int) []string { return []string{itoa(authority), "1"} },
		post: func(b sdk.Context, s int, ok bool) []string {
			p2, _ := ck.GetParams(b)
			return []string{c.B(p2.StakingRewardsPerSecond.Equal(params.StakingRewardsPerSecond))}
		}}
}

// ---------------------------------------------------------------- cdp

func (w *world) cdpOf(ctx sdk.Context, owner int, ctype string) (cdptypes.CDP, bool) {
	return w.tApp.GetCDPKeeper().GetCdpByOwnerAndCollateralType(ctx, w.addr(owner), ctype)
}

func (w *world) depositors(ctx sdk.Context, owner int, ctype string) []int {
	cdp, ok := w.cdpOf(ctx, owner, ctype)
	if !ok {
		return nil
	}
	var ds []int
	for _, d := range w.tApp.GetCDPKeeper().GetDeposits(ctx, cdp.ID) {
		ds = append(ds, w.idx(d.Depositor))
	}
	return ds
}

func (w *world) caseCdpDraw(r *c.Rng) *tcase {
	t := c.Pick(r, cdpTypes)
	if _, ok := w.cdpOf(w.ctx, pUserA, t.ctype); !ok {
		return nil
	}
	p := r.Range(1, 3_000_000)
	hasCdp := func(s int) bool { _, ok := w.cdpOf(w.ctx, s, t.ctype); return ok }
	return &tcase{cmd: "c16.cdp.draw", pred: "C16_cdp_draw", principal: pUserA, allowed: hasCdp, keyed: true, ownMod: pCdpM,
		mk: func(s int) sdk.Msg { m := cdptypes.NewMsgDrawDebt(w.addr(s), t.ctype, coin("usdx", p)); return &m },
		pre: func(s int) []string { return []string{c.B(hasCdp(s)), idxList(w.depositors(w.ctx, s, t.ctype)), i64(p)} },
		post: func(b sdk.Context, s int, ok bool) []string {
			return []string{bigs(w.bal(b, s, "usdx").Sub(w.bal(w.ctx, s, "usdx"))), c.B(true)}
		}}
}

func (w *world) caseCdpRepay(r *c.Rng) *tcase {
	t := c.Pick(r, cdpTypes)
	cdp, ok := w.cdpOf(w.ctx, pUserA, t.ctype)
	if !ok {
		return nil
	}
	pay := r.Range(1, 1000)
	if r.Chance(35) { // pay everything: the CDP is closed and collateral returns to all its depositors
		pay = cdp.GetTotalPrincipal().Amount.Int64() + r.Range(0, 5_000_000)
	}
	hasCdp := func(s int) bool { _, ok := w.cdpOf(w.ctx, s, t.ctype); return ok }
	return &tcase{cmd: "c16.cdp.repay", pred: "C16_cdp_repay", principal: pUserA, allowed: hasCdp, keyed: true, ownMod: pCdpM,
		frame: func(s int) []int { return w.depositors(w.ctx, s, t.ctype) },
		mk: func(s int) sdk.Msg { m := cdptypes.NewMsgRepayDebt(w.addr(s), t.ctype, coin("usdx", pay)); return &m },
		pre: func(s int) []string { return []string{c.B(hasCdp(s)), idxList(w.depositors(w.ctx, s, t.ctype)), i64(pay)} },
		post: func(b sdk.Context, s int, ok bool) []string {
			_, still := w.cdpOf(b, s, t.ctype)
			return []string{bigs(w.bal(w.ctx, s, "usdx").Sub(w.bal(b, s, "usdx"))), c.B(still)}
		}}
}

// own = false: everybody tries to withdraw from user A's CDP (B and sometimes another party have third-party
// deposits there); own = true: everybody names itself as owner
func (w *world) caseCdpWithdraw(r *c.Rng, own bool) *tcase {
	t := c.Pick(r, cdpTypes)
	ck := w.tApp.GetCDPKeeper()
	if _, ok := w.cdpOf(w.ctx, pUserA, t.ctype); !ok {
		return nil
	}
	ownerOf := func(s int) int {
		if own {
			return s
		}
		return pUserA
	}
	depositOf := func(ctx sdk.Context, s int) (sdkmath.Int, bool) {
		cdp, ok := w.cdpOf(ctx, ownerOf(s), t.ctype)
		if !ok {
			return sdk.ZeroInt(), false
		}
		d, found := ck.GetDeposit(ctx, cdp.ID, w.addr(s))
		if !found {
			return sdk.ZeroInt(), false
		}
		return d.Amount.Amount, true
	}
	x := r.Range(1, 100_000)
	if r.Chance(15) {
		if d, ok := depositOf(w.ctx, pUserA); ok && d.IsInt64() {
			x = d.Int64() + r.Range(-1, 1) // around the whole recorded deposit (ratio check may refuse it)
		}
	}
	cmd := "c16.cdp.withdraw"
	return &tcase{cmd: cmd, pred: "C16_cdp_withdraw", principal: pUserA, keyed: true, ownMod: pCdpM,
		frame: func(s int) []int { return []int{ownerOf(s)} },
		allowed: func(s int) bool { _, ok := depositOf(w.ctx, s); return ok },
		mk: func(s int) sdk.Msg {
			m := cdptypes.NewMsgWithdraw(w.addr(ownerOf(s)), w.addr(s), coin(t.denom, x), t.ctype)
			return &m
		},
		pre: func(s int) []string {
			_, has := w.cdpOf(w.ctx, ownerOf(s), t.ctype)
			d, ok := depositOf(w.ctx, s)
			ds := "-1"
			if ok {
				ds = bigs(d)
			}
			return []string{itoa(ownerOf(s)), c.B(has), ds, i64(x)}
		},
		post: func(b sdk.Context, s int, ok bool) []string {
			return []string{bigs(w.bal(b, s, t.denom).Sub(w.bal(w.ctx, s, t.denom)))}
		}}
}

// ---------------------------------------------------------------- hard / savings

func coinsFields(rec sdk.Coins, req sdk.Coins) (string, string) {
	var a, b []string
	for _, cn := range req {
		a = append(a, bigs(rec.AmountOf(cn.Denom)))
		b = append(b, bigs(cn.Amount))
	}
	return strings.Join(a, ","), strings.Join(b, ",")
}

func (w *world) paid(b sdk.Context, s int, req sdk.Coins) string {
	var p []string
	for _, cn := range req {
		p = append(p, bigs(w.bal(b, s, cn.Denom).Sub(w.bal(w.ctx, s, cn.Denom))))
	}
	return strings.Join(p, ",")
}

func (w *world) requestFrom(r *c.Rng, rec sdk.Coins) sdk.Coins {
	req := sdk.Coins{}
	for _, cn := range rec {
		if len(req) > 0 && r.Chance(50) {
			continue
		}
		var x sdkmath.Int
		switch r.Intn(5) {
		case 0:
			x = cn.Amount // exactly the recorded amount
		case 1:
			x = cn.Amount.AddRaw(r.Range(1, 1000)) // more than recorded: capped by the record
		case 2:
			x = sdkmath.NewInt(1)
		default:
			x = sdkmath.NewIntFromBigInt(r.BigBelow(cn.Amount.BigInt())).AddRaw(1)
		}
		req = req.Add(sdk.NewCoin(cn.Denom, x))
	}
	return req
}

func (w *world) caseHard(r *c.Rng) *tcase {
	hk := w.tApp.GetHardKeeper()
	dep, ok := hk.GetSyncedDeposit(w.ctx, w.addr(pUserA))
	if !ok {
		return nil
	}
	req := w.requestFrom(r, dep.Amount)
	has := func(s int) bool { _, ok := hk.GetDeposit(w.ctx, w.addr(s)); return ok }
	return &tcase{cmd: "c16.hard.withdraw", pred: "C16_hard_withdraw", principal: pUserA, allowed: has, keyed: true, ownMod: pHardM,
		mk: func(s int) sdk.Msg { m := hardtypes.NewMsgWithdraw(w.addr(s), req); return &m },
		pre: func(s int) []string {
			d, ok := hk.GetSyncedDeposit(w.ctx, w.addr(s))
			rec, rq := coinsFields(d.Amount, req)
			return []string{c.B(ok), rec, rq}
		},
		post: func(b sdk.Context, s int, ok bool) []string { return []string{w.paid(b, s, req)} }}
}

func (w *world) caseSavings(r *c.Rng) *tcase {
	sk := w.tApp.GetSavingsKeeper()
	dep, ok := sk.GetDeposit(w.ctx, w.addr(pUserA))
	if !ok {
		return nil
	}
	req := w.requestFrom(r, dep.Amount)
	has := func(s int) bool { _, ok := sk.GetDeposit(w.ctx, w.addr(s)); return ok }
	return &tcase{cmd: "c16.savings.withdraw", pred: "C16_savings_withdraw", principal: pUserA, allowed: has, keyed: true, ownMod: pSavingsM,
		mk: func(s int) sdk.Msg { m := savingstypes.NewMsgWithdraw(w.addr(s), req); return &m },
		pre: func(s int) []string {
			d, ok := sk.GetDeposit(w.ctx, w.addr(s))
			rec, rq := coinsFields(d.Amount, req)
			return []string{c.B(ok), rec, rq}
		},
		post: func(b sdk.Context, s int, ok bool) []string { return []string{w.paid(b, s, req)} }}
}

// ---------------------------------------------------------------- swap

func (w *world) caseSwap(r *c.Rng) *tcase {
	sk := w.tApp.GetSwapKeeper()
	p := c.Pick(r, swapPools)
	poolID := swaptypes.PoolID(p[0], p[1])
	rec, ok := sk.GetDepositorShares(w.ctx, w.addr(pUserA), poolID)
	pool, ok2 := sk.GetPool(w.ctx, poolID)
	if !ok || !ok2 {
		return nil
	}
	var sh sdkmath.Int
	switch r.Intn(5) {
	case 0:
		sh = rec.SharesOwned
	case 1:
		sh = sdkmath.NewIntFromBigInt(r.BigBelow(rec.SharesOwned.BigInt())).AddRaw(1)
	case 2:
		sh = rec.SharesOwned.AddRaw(1) // one more than owned
	default:
		sh = sdkmath.NewIntFromBigInt(r.BigBelow(new(big.Int).Quo(rec.SharesOwned.BigInt(), big.NewInt(3)))).AddRaw(1000)
	}
	da, db := pool.ReservesA.Denom, pool.ReservesB.Denom
	has := func(s int) bool { _, ok := sk.GetDepositorShares(w.ctx, w.addr(s), poolID); return ok }
	return &tcase{cmd: "c16.swap.withdraw", pred: "C16_swap_withdraw", principal: pUserA, allowed: has, keyed: true, ownMod: pSwapM,
		mk: func(s int) sdk.Msg {
			return swaptypes.NewMsgWithdraw(w.addr(s).String(), sh, coin(da, 1), coin(db, 1), w.ctx.BlockTime().Unix()+100)
		},
		pre: func(s int) []string {
			own := "-1"
			if rs, ok := sk.GetDepositorShares(w.ctx, w.addr(s), poolID); ok {
				own = bigs(rs.SharesOwned)
			}
			return []string{own, bigs(sh), bigs(pool.ReservesA.Amount), bigs(pool.ReservesB.Amount), bigs(pool.TotalShares)}
		},
		post: func(b sdk.Context, s int, ok bool) []string {
			return []string{bigs(w.bal(b, s, da).Sub(w.bal(w.ctx, s, da))), bigs(w.bal(b, s, db).Sub(w.bal(w.ctx, s, db)))}
		}}
}

// ---------------------------------------------------------------- earn

func (w *world) caseEarn(r *c.Rng) *tcase {
	ek := w.tApp.GetEarnKeeper()
	v := c.Pick(r, []struct {
		denom string
		strat earntypes.StrategyType
	}{{"usdx", earntypes.STRATEGY_TYPE_HARD}, {"ukava", earntypes.STRATEGY_TYPE_SAVINGS}})
	val, err := ek.GetVaultAccountValue(w.ctx, v.denom, w.addr(pUserA))
	if err != nil || !val.Amount.IsPositive() {
		return nil
	}
	var want sdkmath.Int
	switch r.Intn(4) {
	case 0:
		want = val.Amount
	case 1:
		want = val.Amount.AddRaw(1) // one more than the account's value
	default:
		want = sdkmath.NewIntFromBigInt(r.BigBelow(val.Amount.BigInt())).AddRaw(1)
	}
	has := func(s int) bool { _, ok := ek.GetVaultShareRecord(w.ctx, w.addr(s)); return ok }
	wsh, err := ek.ConvertToShares(w.ctx, sdk.NewCoin(v.denom, want))
	if err != nil {
		return nil
	}
	return &tcase{cmd: "c16.earn.withdraw", pred: "C16_earn_withdraw", principal: pUserA, allowed: has, keyed: true, ownMod: pEarnM,
		mk: func(s int) sdk.Msg { return earntypes.NewMsgWithdraw(w.addr(s).String(), sdk.NewCoin(v.denom, want), v.strat) },
		pre: func(s int) []string {
			recd, ok := ek.GetVaultShareRecord(w.ctx, w.addr(s))
			cur := "0"
			if ok {
				cur = recd.Shares.AmountOf(v.denom).BigInt().String()
			}
			return []string{c.B(ok), cur, wsh.Amount.BigInt().String(), bigs(want)}
		},
		post: func(b sdk.Context, s int, ok bool) []string {
			return []string{bigs(w.bal(b, s, v.denom).Sub(w.bal(w.ctx, s, v.denom)))}
		}}
}

// ---------------------------------------------------------------- one round

func (w *world) round(r *c.Rng) {
	var cases []*tcase
	add := func(t *tcase) {
		if t != nil {
			cases = append(cases, t)
		}
	}
	add(w.casePostPrice(r))
	cases = append(cases, w.issuanceCases(r)...)
	add(w.bep3Case(r, false))
	add(w.bep3Case(r, true))
	add(w.caseSubmit(r))
	add(w.caseVote(r))
	add(w.caseCommunity(r))
	add(w.caseCdpDraw(r))
	add(w.caseCdpRepay(r))
	add(w.caseCdpWithdraw(r, false))
	add(w.caseCdpWithdraw(r, true))
	add(w.caseHard(r))
	add(w.caseSavings(r))
	add(w.caseSwap(r))
	add(w.caseEarn(r))
	for _, t := range cases {
		w.runCase(t)
	}
}
