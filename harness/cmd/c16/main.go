// c16: correspondence harness for property C16 (privileged actions succeed only for their designated principal).
//
// For every privileged handler, on random reachable states of the real app (genesis with random principals, then
// real messages), a message that succeeds for the principal is replayed with every other party as signer
// (ordinary users with and without their own records, other modules' principals, module accounts, an address
// without account) through the app's MsgServiceRouter, each in its own cache context written back only on success.
// One case line per (handler, signer): the guard-relevant pre-state, the result class, whether a digest of every
// module store changed, and which user parties' records changed.
package main

import (
	"time"

	tmproto "github.com/cometbft/cometbft/proto/tendermint/types"

	"github.com/kava-labs/kava/app"

	c "kavaverif/harness/common"
	"kavaverif/harness/kapp"
)

func tmHeader(h int64, t time.Time) tmproto.Header {
	return tmproto.Header{Height: h, Time: t, ChainID: app.TestChainId}
}

func main() {
	out := c.NewOut(c.OutPath())
	defer out.Close()
	kapp.NewApp() // sets the SDK config once, before the workers start
	r := c.NewRng(c.Seed())
	worlds := c.Budget(20, 600)
	rounds := 5
	if c.Tier() == "thorough" {
		rounds = 12
	}
	kapp.RunSeqs(worlds, c.Workers(), r, func() int { return 0 }, func(_ int, seq int, rr *c.Rng) {
		w := mkWorld(rr, out)
		for k := 0; k < rounds; k++ {
			w.round(rr)
			w.evolve(rr)
		}
	})
}
