// c18: correspondence harness for x/pricefeed and the price gates of x/cdp and x/hard (property C18).
//
// Three streams, all against the real keepers / msg servers of app.NewTestApp():
//
//	median   : CalculateMedianPrice on random lists (ties, 1..12 entries, shuffles, the empty slice)
//	feed     : random oracle sets (1-7), posts, re-posts, expiries exactly at / ±1 ns around block
//	           times, ties, zero prices, unauthorised senders, markets toggled active/inactive;
//	           one case per post, one per EndBlocker (real GetCurrentPrice, the stored values, and
//	           the per-market SetCurrentPrices on a scratch branch)
//	consumer : a CDP and a hard position are opened while prices are up; then a random set of markets
//	           is taken down (posts expire exactly at / 1 ns before the block time, or the median
//	           becomes zero; "near miss" = 1 ns after), the block is ended, the next one begun, and
//	           every listed cdp / hard message is attempted on a throw-away branch.
//
// Every case line carries the implementation's own observation; the Lean driver compares it with the
// model and evaluates the property predicates on it.
package main

import (
	"bytes"
	"errors"
	"fmt"
	"math/big"
	"sort"
	"strconv"
	"strings"
	"time"

	sdkmath "cosmossdk.io/math"
	abci "github.com/cometbft/cometbft/abci/types"
	sdk "github.com/cosmos/cosmos-sdk/types"

	"github.com/kava-labs/kava/app"
	"github.com/kava-labs/kava/x/cdp"
	cdpkeeper "github.com/kava-labs/kava/x/cdp/keeper"
	cdptypes "github.com/kava-labs/kava/x/cdp/types"
	"github.com/kava-labs/kava/x/hard"
	hardkeeper "github.com/kava-labs/kava/x/hard/keeper"
	hardtypes "github.com/kava-labs/kava/x/hard/types"
	"github.com/kava-labs/kava/x/pricefeed"
	pfkeeper "github.com/kava-labs/kava/x/pricefeed/keeper"
	pftypes "github.com/kava-labs/kava/x/pricefeed/types"

	c "kavaverif/harness/common"
	"kavaverif/harness/kapp"
)

const nMarkets = 6
const nOracles = 8

// market index <-> id. Equal lengths, so the raw-price store iterates them in index order.
func marketID(i int) string {
	if i < 0 || i >= nMarkets {
		return "zz:usd" // a market that is not in params
	}
	return fmt.Sprintf("m%d:usd", i)
}

// consumers:  cdp xrp-a: spot m0, liquidation m1 | cdp bnb-a: spot m2 = liquidation m2
//
//	hard xrp -> m0, bnb -> m2, usdx -> m3
var hardDenoms = []string{"xrp", "bnb", "usdx"}
var hardMarket = []int{0, 2, 3}

type ctype struct {
	name, denom string
	spot, liq   int
	cf          int64
}

var ctypes = []ctype{{"xrp-a", "xrp", 0, 1, 6}, {"bnb-a", "bnb", 2, 2, 8}}

type world struct {
	tApp    app.TestApp
	base    sdk.Context
	oracles []sdk.AccAddress // nOracles+1 addresses sorted by bytes (index order = store order); the last is never authorised
	users   []sdk.AccAddress // 0: position owner, 1: keeper / second user, 2: liquidity provider
}

func d(s string) sdk.Dec                { return sdk.MustNewDecFromStr(s) }
func i64(x int64) sdkmath.Int           { return sdkmath.NewInt(x) }
func cn(denom string, a int64) sdk.Coin { return sdk.NewInt64Coin(denom, a) }

func mkWorld() *world {
	// nOracles oracle addresses plus one address that is never authorised (index nOracles), sorted by
	// bytes so that index order is the raw-price store's key order
	_, addrs := app.GeneratePrivKeyAddressPairs(nOracles + 1 + 3)
	oracles := append([]sdk.AccAddress{}, addrs[:nOracles+1]...)
	sort.Slice(oracles, func(i, j int) bool { return bytes.Compare(oracles[i], oracles[j]) < 0 })
	users := addrs[nOracles+1:]
	cdc := app.MakeEncodingConfig().Marshaler

	bal := sdk.NewCoins(cn("xrp", 1e15), cn("bnb", 1e15), cn("usdx", 1e15), cn("ukava", 1e12))
	authGS := app.NewFundedGenStateWithSameCoins(cdc, bal, users)

	var markets []pftypes.Market
	for i := 0; i < nMarkets; i++ {
		markets = append(markets, pftypes.Market{MarketID: marketID(i), BaseAsset: fmt.Sprintf("mkt%d", i), QuoteAsset: "usd",
			Oracles: oracles[:7], Active: true})
	}
	pfGS := pftypes.GenesisState{Params: pftypes.Params{Markets: markets}}

	cps := cdptypes.CollateralParams{}
	var accs cdptypes.GenesisAccumulationTimes
	var tps cdptypes.GenesisTotalPrincipals
	for k, ct := range ctypes {
		ratio := d("2.0")
		if k == 1 {
			ratio = d("1.5")
		}
		cps = append(cps, cdptypes.CollateralParam{
			Denom: ct.denom, Type: ct.name, LiquidationRatio: ratio,
			DebtLimit: cn("usdx", 500000000000), StabilityFee: d("1.000000001547125958"),
			LiquidationPenalty: d("0.05"), AuctionSize: i64(7000000000),
			SpotMarketID: marketID(ct.spot), LiquidationMarketID: marketID(ct.liq),
			KeeperRewardPercentage: d("0.01"), CheckCollateralizationIndexCount: i64(10), ConversionFactor: i64(ct.cf),
		})
		accs = append(accs, cdptypes.NewGenesisAccumulationTime(ct.name, time.Time{}, sdk.OneDec()))
		tps = append(tps, cdptypes.NewGenesisTotalPrincipal(ct.name, sdk.ZeroInt()))
	}
	cdpGS := cdptypes.GenesisState{
		Params: cdptypes.Params{
			GlobalDebtLimit: cn("usdx", 2000000000000), SurplusAuctionThreshold: cdptypes.DefaultSurplusThreshold,
			SurplusAuctionLot: cdptypes.DefaultSurplusLot, DebtAuctionThreshold: cdptypes.DefaultDebtThreshold,
			DebtAuctionLot: cdptypes.DefaultDebtLot, LiquidationBlockInterval: 2, // begin-block liquidation on even heights only, so that keeper liquidation is reachable too
			CollateralParams: cps,
			DebtParam:        cdptypes.DebtParam{Denom: "usdx", ReferenceAsset: "usd", ConversionFactor: i64(6), DebtFloor: i64(10000000)},
		},
		StartingCdpID: cdptypes.DefaultCdpStartingID, DebtDenom: cdptypes.DefaultDebtDenom, GovDenom: cdptypes.DefaultGovDenom,
		CDPs: cdptypes.CDPs{}, PreviousAccumulationTimes: accs, TotalPrincipals: tps,
	}

	irm := hardtypes.NewInterestRateModel(d("0.05"), d("2"), d("0.8"), d("10"))
	var mms hardtypes.MoneyMarkets
	cfs := []int64{1e6, 1e8, 1e6}
	for k, dn := range hardDenoms {
		mms = append(mms, hardtypes.NewMoneyMarket(dn, hardtypes.NewBorrowLimit(false, sdk.NewDec(1e15), d("0.8")),
			marketID(hardMarket[k]), i64(cfs[k]), irm, d("0.05"), d("0.05")))
	}
	hardGS := hardtypes.NewGenesisState(hardtypes.NewParams(mms, d("1")), hardtypes.DefaultAccumulationTimes,
		hardtypes.DefaultDeposits, hardtypes.DefaultBorrows, hardtypes.DefaultTotalSupplied, hardtypes.DefaultTotalBorrowed,
		hardtypes.DefaultTotalReserves)

	tApp, ctx := kapp.NewApp(authGS,
		app.GenesisState{pftypes.ModuleName: cdc.MustMarshalJSON(&pfGS)},
		app.GenesisState{cdptypes.ModuleName: cdc.MustMarshalJSON(&cdpGS)},
		app.GenesisState{hardtypes.ModuleName: cdc.MustMarshalJSON(&hardGS)})
	return &world{tApp: tApp, base: ctx, oracles: oracles, users: users}
}

// ---------------------------------------------------------------- observation

type post struct {
	m, o   int
	price  *big.Int
	expiry int64
}

func (p post) String() string { return fmt.Sprintf("%d:%d:%s:%d", p.m, p.o, p.price, p.expiry) }

func showPosts(ps []post) string {
	if len(ps) == 0 {
		return "-"
	}
	s := make([]string, len(ps))
	for i, p := range ps {
		s[i] = p.String()
	}
	return strings.Join(s, ";")
}

func mant(x sdk.Dec) *big.Int {
	if x.IsNil() {
		return big.NewInt(0)
	}
	return x.BigInt()
}

func (w *world) marketIdx(id string) int {
	for i := 0; i < nMarkets; i++ {
		if marketID(i) == id {
			return i
		}
	}
	return 99
}

func (w *world) oracleIdx(a sdk.AccAddress) int {
	for i, o := range w.oracles {
		if o.Equals(a) {
			return i
		}
	}
	return 99
}

// rawStore dumps the whole raw-price store in the store's own iteration order.
func (w *world) rawStore(ctx sdk.Context) []post {
	store := ctx.KVStore(w.tApp.GetKVStoreKey(pftypes.StoreKey))
	it := sdk.KVStorePrefixIterator(store, pftypes.RawPriceFeedPrefix)
	defer it.Close()
	var out []post
	for ; it.Valid(); it.Next() {
		var pp pftypes.PostedPrice
		w.tApp.AppCodec().MustUnmarshal(it.Value(), &pp)
		out = append(out, post{w.marketIdx(pp.MarketID), w.oracleIdx(pp.OracleAddress), mant(pp.Price), pp.Expiry.UnixNano()})
	}
	return out
}

// curStore: the stored current price per market ("x" = key absent).
func (w *world) curStore(ctx sdk.Context) string {
	store := ctx.KVStore(w.tApp.GetKVStoreKey(pftypes.StoreKey))
	var s []string
	for i := 0; i < nMarkets; i++ {
		bz := store.Get(pftypes.CurrentPriceKey(marketID(i)))
		if bz == nil {
			s = append(s, fmt.Sprintf("%d=x", i))
			continue
		}
		var cp pftypes.CurrentPrice
		w.tApp.AppCodec().MustUnmarshal(bz, &cp)
		s = append(s, fmt.Sprintf("%d=%s", i, mant(cp.Price)))
	}
	return strings.Join(s, ";")
}

func (w *world) avail(ctx sdk.Context, m int) bool {
	_, err := w.tApp.GetPriceFeedKeeper().GetCurrentPrice(ctx, marketID(m))
	return err == nil
}

func (w *world) getPrices(ctx sdk.Context) string {
	k := w.tApp.GetPriceFeedKeeper()
	var s []string
	for i := 0; i < nMarkets; i++ {
		cp, err := k.GetCurrentPrice(ctx, marketID(i))
		if err != nil {
			s = append(s, fmt.Sprintf("%d=x", i))
		} else {
			s = append(s, fmt.Sprintf("%d=%s", i, mant(cp.Price)))
		}
	}
	return strings.Join(s, ";")
}

func (w *world) showMarkets(ctx sdk.Context) string {
	var s []string
	var stored pftypes.Params
	kapp.ReadParams(w.tApp, ctx, "pricefeed", &stored)
	for _, m := range stored.Markets {
		var os []string
		for _, o := range m.Oracles {
			os = append(os, strconv.Itoa(w.oracleIdx(o)))
		}
		s = append(s, fmt.Sprintf("%d:%s:%s", w.marketIdx(m.MarketID), c.B(m.Active), strings.Join(os, "|")))
	}
	return strings.Join(s, ";")
}

// ---------------------------------------------------------------- sequence state

type seqState struct {
	w      *world
	out    *c.Out
	r      *c.Rng
	ctx    sdk.Context
	log    []post // accepted posts, in order (the harness's own record, not read from the store)
	pfMsg  pftypes.MsgServer
	cdpMsg cdptypes.MsgServer
	hdMsg  hardtypes.MsgServer
}

func newSeq(w *world, out *c.Out, r *c.Rng) *seqState {
	ctx, _ := w.base.CacheContext()
	s := &seqState{w: w, out: out, r: r, ctx: ctx}
	s.pfMsg = pfkeeper.NewMsgServerImpl(w.tApp.GetPriceFeedKeeper())
	s.cdpMsg = cdpkeeper.NewMsgServerImpl(w.tApp.GetCDPKeeper())
	s.hdMsg = hardkeeper.NewMsgServerImpl(w.tApp.GetHardKeeper())
	return s
}

func (s *seqState) now() int64 { return s.ctx.BlockTime().UnixNano() }

// setMarkets writes pricefeed params (what a governance param change does).
func (s *seqState) setMarkets(sets [][]int, active []bool) {
	var ms []pftypes.Market
	for i := 0; i < nMarkets; i++ {
		var os []sdk.AccAddress
		for _, o := range sets[i] {
			os = append(os, s.w.oracles[o])
		}
		ms = append(ms, pftypes.Market{MarketID: marketID(i), BaseAsset: fmt.Sprintf("mkt%d", i), QuoteAsset: "usd", Oracles: os, Active: active[i]})
	}
	pp := pftypes.NewParams(ms)
	kapp.SetParams(s.w.tApp, s.ctx, "pricefeed", &pp, func() { s.w.tApp.GetPriceFeedKeeper().SetParams(s.ctx, pp) })
}

func (s *seqState) randomOracleSets() [][]int {
	sets := make([][]int, nMarkets)
	for i := range sets {
		n := 1 + s.r.Intn(7) // 1..7 oracles
		perm := []int{0, 1, 2, 3, 4, 5, 6, 7}
		for k := len(perm) - 1; k > 0; k-- {
			j := s.r.Intn(k + 1)
			perm[k], perm[j] = perm[j], perm[k]
		}
		sets[i] = append([]int{}, perm[:n]...)
	}
	return sets
}

// doPost runs one MsgPostPrice (ValidateBasic + msg server, as baseapp does) or a direct keeper SetPrice,
// and writes the case.
func (s *seqState) doPost(m, o int, price *big.Int, expiry int64, via string) bool {
	w := s.w
	pre := w.rawStore(s.ctx)
	if o > nOracles {
		o = nOracles
	}
	oracle := w.oracles[o] // index nOracles = the address that is never an oracle
	pd := sdk.NewDecFromBigIntWithPrec(price, 18)
	exp := time.Unix(0, expiry).UTC()
	cls, _ := kapp.Exec(s.ctx, func(cx sdk.Context) error {
		if via == "msg" {
			msg := pftypes.NewMsgPostPrice(oracle.String(), marketID(m), pd, exp)
			if err := msg.ValidateBasic(); err != nil {
				return err
			}
			_, err := s.pfMsg.PostPrice(sdk.WrapSDKContext(cx), msg)
			return err
		}
		_, err := w.tApp.GetPriceFeedKeeper().SetPrice(cx, oracle, marketID(m), pd, exp)
		return err
	})
	postRaw := w.rawStore(s.ctx)
	mi, oi := m, o
	if m < 0 || m >= nMarkets {
		mi = 99
	}
	if cls == kapp.OK {
		s.log = append(s.log, post{mi, oi, price, expiry})
	}
	rel := "after"
	switch {
	case expiry == s.now():
		rel = "equal"
	case expiry < s.now():
		rel = "before"
	case expiry == s.now()+1:
		rel = "plus1"
	}
	replaced := false
	for _, p := range pre {
		if p.m == mi && p.o == oi {
			replaced = true
		}
	}
	sig := fmt.Sprintf("%s|%s|exp=%s|repost=%v|zero=%v|neg=%v", via, cls, rel, replaced, price.Sign() == 0, price.Sign() < 0)
	s.out.Case(sig, "c18.post", strconv.FormatInt(s.now(), 10), w.showMarkets(s.ctx), showPosts(pre),
		strconv.Itoa(mi), strconv.Itoa(oi), price.String(), strconv.FormatInt(expiry, 10), via, "=>", string(cls), showPosts(postRaw))
	return cls == kapp.OK
}

// endBlock runs the real pricefeed EndBlocker at the current block time and writes the case.
func (s *seqState) endBlock() {
	w := s.w
	k := w.tApp.GetPriceFeedKeeper()
	raw := w.rawStore(s.ctx)
	curPre := w.curStore(s.ctx)
	getPre := w.getPrices(s.ctx)
	var storedParams pftypes.Params
	kapp.ReadParams(w.tApp, s.ctx, "pricefeed", &storedParams)
	markets := storedParams.Markets
	// the per-market routine on a scratch branch of the same pre-state (never written back)
	var pm []string
	for _, m := range markets {
		cx, _ := s.ctx.CacheContext()
		err := k.SetCurrentPrices(cx, m.MarketID)
		idx := w.marketIdx(m.MarketID)
		bz := cx.KVStore(w.tApp.GetKVStoreKey(pftypes.StoreKey)).Get(pftypes.CurrentPriceKey(m.MarketID))
		v := "x"
		if bz != nil {
			var cp pftypes.CurrentPrice
			w.tApp.AppCodec().MustUnmarshal(bz, &cp)
			v = mant(cp.Price).String()
		}
		pm = append(pm, fmt.Sprintf("%d=%s:%s", idx, c.B(err != nil), v))
	}
	pan, msg := c.Recover(func() { pricefeed.EndBlocker(s.ctx, k) })
	if pan {
		s.out.Violation("pricefeed EndBlocker panicked: " + msg)
		return
	}
	curPost := w.curStore(s.ctx)
	getPost := w.getPrices(s.ctx)
	// branch signature: per active market (count of live posts mod parity, outcome)
	now := s.now()
	sigs := map[string]bool{}
	preMap := kvMap(getPre)
	postMap := kvMap(getPost)
	for _, m := range markets {
		idx := w.marketIdx(m.MarketID)
		live, expd, tie := 0, 0, false
		seen := map[string]bool{}
		for _, p := range raw {
			if p.m != idx {
				continue
			}
			if p.expiry > now {
				live++
				if seen[p.price.String()] {
					tie = true
				}
				seen[p.price.String()] = true
			} else {
				expd++
			}
		}
		cnt := "0"
		switch {
		case live == 1:
			cnt = "1"
		case live > 1 && live%2 == 0:
			cnt = "even"
		case live > 1:
			cnt = "odd"
		}
		res := "price"
		if postMap[idx] == "x" {
			res = "none"
		}
		if !m.Active {
			if postMap[idx] != "x" {
				s.out.Note("inactive-market-keeps-price")
				if live == 0 {
					s.out.Note("inactive-market-keeps-price-with-all-posts-expired")
				}
			}
			if postMap[idx] != preMap[idx] {
				s.out.Note("inactive-market-price-changed")
			}
		}
		sigs[fmt.Sprintf("act=%v|live=%s|expired=%v|tie=%v|%s", m.Active, cnt, expd > 0, tie, res)] = true
	}
	keys := c.SortedKeys(sigs)
	// one case; its signature is the most specific market signature not yet common
	sig := keys[s.r.Intn(len(keys))]
	s.out.Case(sig, "c18.endblock", strconv.FormatInt(now, 10), w.showMarkets(s.ctx), showPosts(raw), curPre, showPosts(s.log),
		"=>", curPost, getPost, strings.Join(pm, ";"))
}

func kvMap(s string) map[int]string {
	m := map[int]string{}
	for _, kv := range strings.Split(s, ";") {
		p := strings.SplitN(kv, "=", 2)
		i, _ := strconv.Atoi(p[0])
		m[i] = p[1]
	}
	return m
}

// nextBlock moves to the next block: time += delta, height + 1.
func (s *seqState) nextBlock(delta int64) {
	if delta < 1 {
		delta = 1
	}
	s.ctx = s.ctx.WithBlockTime(s.ctx.BlockTime().Add(time.Duration(delta))).WithBlockHeight(s.ctx.BlockHeight() + 1)
}

// boundaryDelta: a block-time step that lands exactly on / 1 ns around a stored post's expiry.
func (s *seqState) boundaryDelta() int64 {
	raw := s.w.rawStore(s.ctx)
	var cands []int64
	for _, p := range raw {
		if p.expiry > s.now()-2 {
			cands = append(cands, p.expiry-s.now())
		}
	}
	if len(cands) == 0 || s.r.Chance(35) {
		return c.Pick(s.r, []int64{1, 2, 1000, 1e9, 6e9, 6e9 + 1, 60e9})
	}
	return c.Pick(s.r, cands) + s.r.Range(-1, 1)
}

var pricePool = []string{"0", "1", "2", "3", "1000000000000000000", "1000000000000000001", "1000000000000000002",
	"999999999999999999", "2000000000000000000", "250000000000000000", "250000000000000001", "17250000000000000000",
	"8000000000000000000000", "500000000000000000"}

func (s *seqState) randPrice() *big.Int {
	switch s.r.Intn(10) {
	case 0, 1, 2, 3, 4: // ties and ±1 ulp neighbours
		x, _ := new(big.Int).SetString(c.Pick(s.r, pricePool), 10)
		return x
	case 5:
		return new(big.Int).Add(s.r.BigBits(70), big.NewInt(0))
	case 6: // copy a stored price (tie) ±1
		if len(s.log) > 0 {
			p := s.log[s.r.Intn(len(s.log))].price
			return new(big.Int).Add(p, big.NewInt(s.r.Range(-1, 1)))
		}
		return big.NewInt(5)
	default:
		return s.r.BigBits(90)
	}
}

// ---------------------------------------------------------------- stream: feed

func (w *world) feedSeq(out *c.Out, seq int, r *c.Rng) {
	s := newSeq(w, out, r)
	sets := s.randomOracleSets()
	active := make([]bool, nMarkets)
	for i := range active {
		active[i] = !r.Chance(12)
	}
	s.setMarkets(sets, active)
	nextDelta := int64(6e9)
	nops := c.Budget(60, 120)
	for i := 0; i < nops; i++ {
		switch k := r.Intn(100); {
		case k < 62: // post
			m := r.Intn(nMarkets)
			if r.Chance(35) {
				m = r.Intn(2) // concentrate on two markets so that counts reach 5-7
			}
			var o int
			if r.Chance(90) && len(sets[m]) > 0 {
				o = c.Pick(r, sets[m])
			} else {
				o = r.Intn(nOracles + 1) // maybe unauthorised, maybe not an oracle at all
			}
			if r.Chance(3) {
				m = -1
			}
			price := s.randPrice()
			if r.Chance(2) {
				price = new(big.Int).Neg(price)
			}
			now := s.now()
			var expiry int64
			switch r.Intn(12) {
			case 0:
				expiry = now // refused: not after the block time
			case 1:
				expiry = now - 1
			case 2:
				expiry = now + 1
			case 3:
				expiry = now + nextDelta // expires exactly at the next block time
			case 4:
				expiry = now + nextDelta - 1
			case 5:
				expiry = now + nextDelta + 1
			case 6:
				expiry = now - r.Range(2, 1e12)
			case 7:
				if r.Chance(10) {
					expiry = r.Range(-5e9, 2e9) // Unix() <= 0 region: ValidateBasic
				} else {
					expiry = now + r.Range(2, 30e9)
				}
			default:
				expiry = now + r.Range(1, 4)*nextDelta + r.Range(-1, 1)
			}
			via := "msg"
			if r.Chance(8) {
				via = "keeper"
			}
			s.doPost(m, o, price, expiry, via)
		case k < 90: // end the block, begin the next
			s.endBlock()
			s.nextBlock(nextDelta)
			nextDelta = s.boundaryDelta()
			if nextDelta < 1 {
				nextDelta = 1
			}
		default: // toggle a market
			m := r.Intn(nMarkets)
			active[m] = !active[m]
			s.setMarkets(sets, active)
			out.Note("market-toggle")
		}
	}
	s.endBlock()
}

// ---------------------------------------------------------------- stream: median

func (w *world) medianCases(out *c.Out, r *c.Rng, n int) {
	k := w.tApp.GetPriceFeedKeeper()
	s := &seqState{w: w, out: out, r: r}
	for i := 0; i < n; i++ {
		ln := 1 + r.Intn(12)
		if r.Chance(2) {
			ln = 0
		}
		xs := make([]*big.Int, ln)
		for j := range xs {
			if j > 0 && r.Chance(30) {
				xs[j] = new(big.Int).Add(xs[r.Intn(j)], big.NewInt(r.Range(-1, 1))) // ties and neighbours
				if xs[j].Sign() < 0 {
					xs[j] = big.NewInt(0)
				}
			} else {
				xs[j] = s.randPrice()
			}
		}
		sh := append([]*big.Int{}, xs...)
		for a := len(sh) - 1; a > 0; a-- {
			b := r.Intn(a + 1)
			sh[a], sh[b] = sh[b], sh[a]
		}
		mk := func(v []*big.Int) []pftypes.CurrentPrice {
			ps := make([]pftypes.CurrentPrice, len(v))
			for j, x := range v {
				ps[j] = pftypes.NewCurrentPrice("m0:usd", sdk.NewDecFromBigIntWithPrec(x, 18))
			}
			return ps
		}
		var o1, o2 sdk.Dec
		pan, _ := c.Recover(func() { o1 = k.CalculateMedianPrice(mk(xs)); o2 = k.CalculateMedianPrice(mk(sh)) })
		cls, a, b := "ok", "-", "-"
		if pan {
			cls = "panic"
		} else {
			a, b = mant(o1).String(), mant(o2).String()
		}
		distinct := map[string]bool{}
		for _, x := range xs {
			distinct[x.String()] = true
		}
		par := "odd"
		if ln%2 == 0 {
			par = "even"
		}
		sig := fmt.Sprintf("%s|n=%d|%s|ties=%v", cls, ln, par, len(distinct) < ln)
		out.Case(sig, "c18.median", c.Ints(xs), c.Ints(sh), "=>", cls, a, b)
	}
}

// ---------------------------------------------------------------- stream: consumers

func errKind(err error) string {
	if err == nil {
		return "-"
	}
	if errors.Is(err, pftypes.ErrNoValidPrice) || errors.Is(err, cdptypes.ErrPricefeedDown) || errors.Is(err, hardtypes.ErrPriceNotFound) {
		return "price"
	}
	return "other"
}

// try runs f on a throw-away branch (never written back) and classifies the result.
func try(ctx sdk.Context, f func(cx sdk.Context) error) (cls kapp.Class, err error) {
	cx, _ := ctx.CacheContext()
	defer func() {
		if r := recover(); r != nil {
			cls, err = kapp.Panic, fmt.Errorf("panic: %v", r)
		}
	}()
	if e := f(cx); e != nil {
		return kapp.Err, e
	}
	return kapp.OK, nil
}

type action struct {
	name string
	run  func(cx sdk.Context) error
}

func (s *seqState) flagsStr(ctx sdk.Context) string {
	k := s.w.tApp.GetCDPKeeper()
	var out []string
	for i := 0; i < 4; i++ {
		out = append(out, fmt.Sprintf("%d=%s", i, c.B(k.GetMarketStatus(ctx, marketID(i)))))
	}
	return strings.Join(out, ";")
}

func (s *seqState) availStr(ctx sdk.Context) string {
	var out []string
	for i := 0; i < 4; i++ {
		out = append(out, fmt.Sprintf("%d=%s", i, c.B(s.w.avail(ctx, i))))
	}
	return strings.Join(out, ";")
}

// beginBlock runs the real cdp and hard begin blockers and writes the status-flag case.
func (s *seqState) beginBlock() bool {
	pre := s.flagsStr(s.ctx)
	av := s.availStr(s.ctx)
	pan, msg := c.Recover(func() {
		cdp.BeginBlocker(s.ctx, abci.RequestBeginBlock{}, s.w.tApp.GetCDPKeeper())
		hard.BeginBlocker(s.ctx, s.w.tApp.GetHardKeeper())
	})
	if pan {
		// a begin-block panic is C02's subject; here it only ends the sequence
		s.out.Note("beginblock-panic:" + strings.SplitN(msg, ":", 2)[0])
		return false
	}
	post := s.flagsStr(s.ctx)
	var cps []string
	for _, ct := range ctypes {
		cps = append(cps, fmt.Sprintf("%d:%d", ct.spot, ct.liq))
	}
	s.out.Case("flags|"+av+"|"+pre, "c18.flags", strings.Join(cps, ";"), av, pre, "=>", post)
	return true
}

// postAll: every authorised oracle of market m posts `price` (±jitter) with the given expiry.
func (s *seqState) postAll(sets [][]int, m int, price *big.Int, jitter int64, expiry int64) {
	for _, o := range sets[m] {
		p := new(big.Int).Add(price, big.NewInt(s.r.Range(-jitter, jitter)))
		if p.Sign() < 0 {
			p = big.NewInt(0)
		}
		s.doPost(m, o, p, expiry, "msg")
	}
}

func dec18(sv string) *big.Int { return d(sv).BigInt() }

func (w *world) consumerSeq(out *c.Out, seq int, r *c.Rng) {
	s := newSeq(w, out, r)
	sets := s.randomOracleSets()
	active := []bool{true, true, true, true, true, true}
	s.setMarkets(sets, active)
	ck, hk := w.tApp.GetCDPKeeper(), w.tApp.GetHardKeeper()
	owner, keeper, lp := w.users[0], w.users[1], w.users[2]
	ct := ctypes[r.Intn(len(ctypes))]
	hour := int64(3600e9)

	// block 1: all markets get live prices
	base := map[int]*big.Int{0: dec18("0.25"), 1: dec18("0.25"), 2: dec18("17.25"), 3: dec18("1"), 4: dec18("3"), 5: dec18("4")}
	for m := 0; m < 4; m++ {
		s.postAll(sets, m, base[m], 1000, s.now()+hour)
	}
	s.endBlock()
	s.nextBlock(6e9)
	if !s.beginBlock() {
		return
	}

	// open the positions through the real msg servers
	unit := int64(1e6)
	if ct.denom == "bnb" {
		unit = 1e8
	}
	collAmt := 2000 * unit // xrp: 500 usd, bnb: 34500 usd
	princ := int64(100e6)  // 100 usdx
	if ct.denom == "bnb" {
		princ = 10000e6
	}
	must := func(what string, f func(cx sdk.Context) error) bool {
		cls, err := kapp.Exec(s.ctx, f)
		if cls != kapp.OK {
			out.Note("setup-failed:" + what)
			if c.EnvInt("VERIF_DEBUG", 0) > 0 {
				fmt.Println("setup failed", what, err)
			}
			return false
		}
		return true
	}
	if !must("cdp-create", func(cx sdk.Context) error {
		msg := cdptypes.NewMsgCreateCDP(owner, cn(ct.denom, collAmt), cn("usdx", princ), ct.name)
		if err := msg.ValidateBasic(); err != nil {
			return err
		}
		_, err := s.cdpMsg.CreateCDP(sdk.WrapSDKContext(cx), &msg)
		return err
	}) {
		return
	}
	if !must("hard-lp-deposit", func(cx sdk.Context) error {
		return hk.Deposit(cx, lp, sdk.NewCoins(cn("usdx", 1e12), cn("xrp", 1e12), cn("bnb", 1e12)))
	}) {
		return
	}
	depCoins := sdk.NewCoins(cn("xrp", 4000e6))
	if r.Bool() {
		depCoins = depCoins.Add(cn("bnb", 10e8))
	}
	if !must("hard-deposit", func(cx sdk.Context) error {
		msg := hardtypes.NewMsgDeposit(owner, depCoins)
		_, err := s.hdMsg.Deposit(sdk.WrapSDKContext(cx), &msg)
		return err
	}) {
		return
	}
	borCoins := sdk.NewCoins(cn("usdx", 100e6))
	if r.Chance(40) {
		borCoins = borCoins.Add(cn("bnb", 1e8))
	}
	if !must("hard-borrow", func(cx sdk.Context) error {
		msg := hardtypes.NewMsgBorrow(owner, borCoins)
		_, err := s.hdMsg.Borrow(sdk.WrapSDKContext(cx), &msg)
		return err
	}) {
		return
	}

	rounds := 1 + r.Intn(2)
	for round := 0; round < rounds; round++ {
		if r.Bool() { // an uneventful block, so that outages fall on both parities of the liquidation interval
			s.endBlock()
			s.nextBlock(6e9)
			if !s.beginBlock() {
				return
			}
		}
		// the consumer actions (built against the current positions)
		dep, _ := hk.GetDeposit(s.ctx, owner)
		bor, hasBor := hk.GetBorrow(s.ctx, owner)
		wdDenom := dep.Amount[r.Intn(len(dep.Amount))].Denom
		wdFull := r.Chance(35)
		wdAmt := i64(1e6)
		if wdFull {
			wdAmt = dep.Amount.AmountOf(wdDenom).MulRaw(2) // more than deposited = whole deposit of that asset
		}
		bDenom := c.Pick(r, hardDenoms)
		bAmt := map[string]int64{"xrp": 4e6, "bnb": 1e7, "usdx": 2e6}[bDenom]
		acts := []action{
			{"create", func(cx sdk.Context) error {
				msg := cdptypes.NewMsgCreateCDP(keeper, cn(ct.denom, collAmt), cn("usdx", princ), ct.name)
				if err := msg.ValidateBasic(); err != nil {
					return err
				}
				_, err := s.cdpMsg.CreateCDP(sdk.WrapSDKContext(cx), &msg)
				return err
			}},
			{"deposit", func(cx sdk.Context) error {
				msg := cdptypes.NewMsgDeposit(owner, owner, cn(ct.denom, 10*unit), ct.name)
				_, err := s.cdpMsg.Deposit(sdk.WrapSDKContext(cx), &msg)
				return err
			}},
			{"withdraw", func(cx sdk.Context) error {
				msg := cdptypes.NewMsgWithdraw(owner, owner, cn(ct.denom, unit), ct.name)
				_, err := s.cdpMsg.Withdraw(sdk.WrapSDKContext(cx), &msg)
				return err
			}},
			{"draw", func(cx sdk.Context) error {
				msg := cdptypes.NewMsgDrawDebt(owner, ct.name, cn("usdx", 1e6))
				_, err := s.cdpMsg.DrawDebt(sdk.WrapSDKContext(cx), &msg)
				return err
			}},
			{"liquidate", func(cx sdk.Context) error {
				msg := cdptypes.NewMsgLiquidate(keeper, owner, ct.name)
				_, err := s.cdpMsg.Liquidate(sdk.WrapSDKContext(cx), &msg)
				return err
			}},
			{"hard.borrow", func(cx sdk.Context) error {
				msg := hardtypes.NewMsgBorrow(owner, sdk.NewCoins(cn(bDenom, bAmt)))
				_, err := s.hdMsg.Borrow(sdk.WrapSDKContext(cx), &msg)
				return err
			}},
			{"hard.withdraw", func(cx sdk.Context) error {
				msg := hardtypes.NewMsgWithdraw(owner, sdk.NewCoins(sdk.NewCoin(wdDenom, wdAmt)))
				_, err := s.hdMsg.Withdraw(sdk.WrapSDKContext(cx), &msg)
				return err
			}},
			{"hard.liquidate", func(cx sdk.Context) error {
				msg := hardtypes.NewMsgLiquidate(keeper, owner)
				_, err := s.hdMsg.Liquidate(sdk.WrapSDKContext(cx), &msg)
				return err
			}},
		}
		// control: the same messages while every price is up
		control := map[string]kapp.Class{}
		for _, a := range acts {
			cls, _ := try(s.ctx, a.run)
			control[a.name] = cls
		}

		// take a random set of markets down at the next block
		delta := c.Pick(r, []int64{1, 6e9, 6e9 + 1, 30e9})
		tNext := s.now() + delta
		down := map[int]string{}
		drop := r.Chance(40) // the spot price of the collateral falls so that the CDP becomes liquidatable
		for m := 0; m < 4; m++ {
			if !r.Chance(45) {
				continue
			}
			how := c.Pick(r, []string{"equal", "minus1", "zero", "plus1"})
			down[m] = how
			switch how {
			case "equal": // expiry == next block time: expired there
				s.postAll(sets, m, base[m], 1000, tNext)
			case "minus1":
				s.postAll(sets, m, base[m], 1000, tNext-1)
			case "plus1": // near miss: still live at the next block
				s.postAll(sets, m, base[m], 1000, tNext+1)
			case "zero": // every oracle posts 0: the median is zero
				s.postAll(sets, m, big.NewInt(0), 0, tNext+hour)
			}
		}
		if drop {
			if _, isDown := down[ct.spot]; !isDown || down[ct.spot] == "plus1" {
				low := new(big.Int).Div(base[ct.spot], big.NewInt(20))
				exp := tNext + hour
				if down[ct.spot] == "plus1" {
					exp = tNext + 1
				}
				s.postAll(sets, ct.spot, low, 10, exp)
			}
			if _, isDown := down[ct.liq]; ct.liq != ct.spot && (!isDown || down[ct.liq] == "plus1") && r.Chance(80) {
				low := new(big.Int).Div(base[ct.liq], big.NewInt(20))
				exp := tNext + hour
				if down[ct.liq] == "plus1" {
					exp = tNext + 1
				}
				s.postAll(sets, ct.liq, low, 10, exp)
			}
		}
		// the block with the re-posts ends with every price still up; the next one ends with the outage
		s.endBlock()
		s.nextBlock(delta)
		if !s.beginBlock() { // every block runs the begin blockers, as on a chain
			return
		}
		s.endBlock()
		s.nextBlock(c.Pick(r, []int64{1, 6e9}))
		_, hadCdp := ck.GetCdpByOwnerAndCollateralType(s.ctx, owner, ct.name)
		sa0, la0 := w.avail(s.ctx, ct.spot), w.avail(s.ctx, ct.liq)
		if !s.beginBlock() {
			return
		}
		cdpNow, hasCdp := ck.GetCdpByOwnerAndCollateralType(s.ctx, owner, ct.name)
		howStr := func(m int) string {
			if h, ok := down[m]; ok {
				return h
			}
			return "up"
		}
		if hadCdp {
			// begin-block liquidation: "ok" = the CDP was seized
			cls := "err"
			if !hasCdp {
				cls = "ok"
			}
			sig := ""
			if drop {
				sig = fmt.Sprintf("blockliq|%s|spot=%s|liq=%s|same=%v", cls, howStr(ct.spot), howStr(ct.liq), ct.spot == ct.liq)
			}
			mode := "run"
			if s.ctx.BlockHeight()%2 != 0 {
				mode = "skip"
			}
			if sig != "" {
				sig += "|" + mode
			}
			out.Case(sig, "c18.gate.cdp", "blockliq", c.B(sa0), c.B(la0), c.B(ck.GetMarketStatus(s.ctx, marketID(ct.spot))),
				c.B(ck.GetMarketStatus(s.ctx, marketID(ct.liq))), "0", mode, "=>", cls, "-")
		}

		sa, la := w.avail(s.ctx, ct.spot), w.avail(s.ctx, ct.liq)
		fs, fl := ck.GetMarketStatus(s.ctx, marketID(ct.spot)), ck.GetMarketStatus(s.ctx, marketID(ct.liq))
		dep, hasDep := hk.GetDeposit(s.ctx, owner)
		bor, hasBor = hk.GetBorrow(s.ctx, owner)
		dIdx := func(dn string) int {
			for i, x := range hardDenoms {
				if x == dn {
					return i
				}
			}
			return 9
		}
		var depIdx, borIdx, depAfter []int
		if hasDep {
			for _, cn := range dep.Amount {
				depIdx = append(depIdx, dIdx(cn.Denom))
				if !(cn.Denom == wdDenom && wdFull) {
					depAfter = append(depAfter, dIdx(cn.Denom))
				}
			}
		}
		if hasBor {
			for _, cn := range bor.Amount {
				borIdx = append(borIdx, dIdx(cn.Denom))
			}
		}
		av := make([]string, len(hardDenoms))
		for i, m := range hardMarket {
			av[i] = c.B(w.avail(s.ctx, m))
		}
		ints := func(v []int) string {
			if len(v) == 0 {
				return "-"
			}
			x := make([]string, len(v))
			for i, y := range v {
				x[i] = strconv.Itoa(y)
			}
			return strings.Join(x, ",")
		}
		for _, a := range acts {
			if !hasCdp && !strings.HasPrefix(a.name, "hard.") && a.name != "create" {
				continue // the CDP was liquidated by the begin blocker
			}
			if strings.HasPrefix(a.name, "hard.") && (!hasDep) {
				continue
			}
			cls, err := try(s.ctx, a.run)
			kind := errKind(err)
			if cls == kapp.Panic {
				out.Violation(fmt.Sprintf("consumer message %s panicked: %v", a.name, err))
				continue
			}
			ctl := string(control[a.name])
			if !strings.HasPrefix(a.name, "hard.") {
				nontrivial := ctl == "ok" || a.name == "liquidate"
				sig := ""
				if nontrivial {
					sig = fmt.Sprintf("%s|%s|%s|spot=%s|liq=%s|same=%v|ctl=%s|drop=%v", a.name, cls, kind, howStr(ct.spot), howStr(ct.liq), ct.spot == ct.liq, ctl, drop)
				}
				out.Case(sig, "c18.gate.cdp", a.name, c.B(sa), c.B(la), c.B(fs), c.B(fl), c.B(hasCdp && a.name != "create" && cdpNow.Collateral.IsZero()), ctl, "=>", string(cls), kind)
				if a.name == "draw" && cls != kapp.OK && kind == "price" && sa && !la {
					out.Note("draw-refused-while-only-liquidation-market-down")
				}
				if a.name == "liquidate" && la && !sa && cls == kapp.OK {
					out.Note("liquidate-proceeds-on-live-liquidation-price-while-spot-down")
				}
			} else {
				name := strings.TrimPrefix(a.name, "hard.")
				req, dd := "-", depIdx
				switch name {
				case "borrow":
					req = strconv.Itoa(dIdx(bDenom))
				case "withdraw":
					dd = depAfter
				}
				sig := ""
				if ctl == "ok" || name == "liquidate" {
					sig = fmt.Sprintf("%s|%s|%s|avail=%s|full=%v|ctl=%s", a.name, cls, kind, strings.Join(av, ""), wdFull && name == "withdraw", ctl)
				}
				out.Case(sig, "c18.gate.hard", name, req, ints(dd), ints(borIdx), strings.Join(av, ","), ctl, "=>", string(cls), kind)
				if name == "withdraw" && wdFull && cls == kapp.OK && av[dIdx(wdDenom)] == "0" {
					out.Note("hard-full-withdraw-of-unpriced-asset-proceeds")
				}
			}
		}
		if !hasCdp {
			return
		}
		// restore: live prices again for the next round
		for m := 0; m < 4; m++ {
			s.postAll(sets, m, base[m], 1000, s.now()+hour)
		}
		s.endBlock()
		s.nextBlock(6e9)
		if !s.beginBlock() {
			return
		}
		if _, ok := ck.GetCdpByOwnerAndCollateralType(s.ctx, owner, ct.name); !ok {
			return
		}
	}
}

func main() {
	out := c.NewOut(c.OutPath())
	defer out.Close()
	r := c.NewRng(c.Seed())
	workers := c.Workers()
	// the genesis below is marshalled with bech32 addresses, so the prefixes must be set before the
	// first world is built; worlds are built up front, one per worker.
	t0 := time.Now()
	app.SetSDKConfig()
	pool := make(chan *world, workers)
	for i := 0; i < workers; i++ {
		pool <- mkWorld()
	}
	if c.EnvInt("VERIF_DEBUG", 0) > 0 {
		fmt.Println("worlds built in", time.Since(t0))
	}
	take := func() *world { return <-pool }
	nFeed := c.Budget(240, 3000)
	nCons := c.Budget(140, 3000)
	kapp.RunSeqs(nFeed+nCons+1, workers, r, take, func(w *world, seq int, r *c.Rng) {
		switch {
		case seq == 0:
			w.medianCases(out, r, c.Budget(6000, 200000))
		case seq <= nFeed:
			w.feedSeq(out, seq, r)
		default:
			w.consumerSeq(out, seq, r)
		}
	})
}
