// c12repro: the five witness histories of the C12 findings on the real keepers, printed in readable form
// (not part of the check — cmd/c12/directed.go replays the same histories as case lines on every run;
// run this by hand:  go run -tags verif ./cmd/c12repro).  The findings are fixed in /repo (932d1f99a, 96498654b,
// 66dfa73a4): on the current tree the output shows the repaired behaviour; on a tree without a fix, the defect.
//
// Every scenario starts from the repository's own test genesis and uses only message servers / keepers:
//
//	F6   backing: after a 7 % slash one mint of 3 ukava mints 3 units against 2.12… module shares;
//	     the last holder cannot redeem ("not enough delegation shares")
//	F6b  value: a delegator owning 90 % of a slashed validator mints two thirds of it and its stake is valued more
//	     than two base units higher than before
//	F7   empty delegation: an account that never delegated burns 1 unit worth 0 tokens → delegation with 0 shares
//	F8   tally: the validator is jailed (unbonding); a derivative holder outvotes the whole bonded stake
//	F6c  tally panic: 1 ukava minted on a slashed validator whose delegators then leave → the tally divides by zero
package main

import (
	"fmt"
	"time"

	sdkmath "cosmossdk.io/math"
	"github.com/cosmos/cosmos-sdk/crypto/keys/ed25519"
	sdk "github.com/cosmos/cosmos-sdk/types"
	govkeeper "github.com/cosmos/cosmos-sdk/x/gov/keeper"
	govv1 "github.com/cosmos/cosmos-sdk/x/gov/types/v1"
	govv1beta1 "github.com/cosmos/cosmos-sdk/x/gov/types/v1beta1"
	"github.com/cosmos/cosmos-sdk/x/staking"
	stakingkeeper "github.com/cosmos/cosmos-sdk/x/staking/keeper"
	stakingtypes "github.com/cosmos/cosmos-sdk/x/staking/types"

	"github.com/kava-labs/kava/app"
	liquidkeeper "github.com/kava-labs/kava/x/liquid/keeper"
	liquidtypes "github.com/kava-labs/kava/x/liquid/types"

	c "kavaverif/harness/common"
	"kavaverif/harness/kapp"
)

type env struct {
	tApp app.TestApp
	ctx  sdk.Context
	n    byte
}

func newEnv() *env {
	tApp, ctx := kapp.NewApp()
	sk := tApp.GetStakingKeeper()
	p := sk.GetParams(ctx)
	p.BondDenom = "ukava"
	must(sk.SetParams(ctx, p))
	cc, _ := ctx.CacheContext()
	return &env{tApp: tApp, ctx: cc}
}

func (e *env) account() sdk.AccAddress {
	e.n++
	a := sdk.AccAddress(append(make([]byte, 19), e.n))
	ak := e.tApp.GetAccountKeeper()
	ak.SetAccount(e.ctx, ak.NewAccountWithAddress(e.ctx, a))
	must(e.tApp.FundAccount(e.ctx, a, sdk.NewCoins(sdk.NewInt64Coin("ukava", 1e15))))
	return a
}

func (e *env) sk() *stakingkeeper.Keeper { return e.tApp.GetStakingKeeper() }
func (e *env) lk() liquidkeeper.Keeper   { return e.tApp.GetLiquidKeeper() }

func (e *env) validator(op sdk.AccAddress, self, minSelf int64) sdk.ValAddress {
	msg, err := stakingtypes.NewMsgCreateValidator(sdk.ValAddress(op), ed25519.GenPrivKeyFromSecret([]byte{e.n}).PubKey(),
		sdk.NewInt64Coin("ukava", self), stakingtypes.Description{Moniker: "v"},
		stakingtypes.NewCommissionRates(sdk.ZeroDec(), sdk.ZeroDec(), sdk.ZeroDec()), sdkmath.NewInt(minSelf))
	must(err)
	_, err = stakingkeeper.NewMsgServerImpl(e.sk()).CreateValidator(sdk.WrapSDKContext(e.ctx), msg)
	must(err)
	return sdk.ValAddress(op)
}

func (e *env) endBlock(d time.Duration) {
	e.ctx = e.ctx.WithBlockHeight(e.ctx.BlockHeight() + 1).WithBlockTime(e.ctx.BlockTime().Add(d))
	staking.EndBlocker(e.ctx, e.sk())
}

func (e *env) delegate(d sdk.AccAddress, v sdk.ValAddress, amt int64) {
	_, err := stakingkeeper.NewMsgServerImpl(e.sk()).Delegate(sdk.WrapSDKContext(e.ctx), stakingtypes.NewMsgDelegate(d, v, sdk.NewInt64Coin("ukava", amt)))
	must(err)
}

func (e *env) undelegate(d sdk.AccAddress, v sdk.ValAddress, amt int64) error {
	_, err := stakingkeeper.NewMsgServerImpl(e.sk()).Undelegate(sdk.WrapSDKContext(e.ctx), stakingtypes.NewMsgUndelegate(d, v, sdk.NewInt64Coin("ukava", amt)))
	return err
}

// slash burns exactly `burn` tokens through the real Slash
func (e *env) slash(v sdk.ValAddress, burn int64) {
	val, _ := e.sk().GetValidator(e.ctx, v)
	cons, _ := val.GetConsAddr()
	power := int64(1)
	for power*1e6 < burn {
		power *= 10
	}
	f := sdk.NewDec(burn).Quo(sdk.NewDec(power * 1e6))
	e.sk().Slash(e.ctx, cons, e.ctx.BlockHeight(), power, f)
}

func (e *env) mint(d sdk.AccAddress, v sdk.ValAddress, amt int64) (sdk.Coin, error) {
	msg := liquidtypes.NewMsgMintDerivative(d, v, sdk.NewInt64Coin("ukava", amt))
	var out sdk.Coin
	_, err := kapp.Exec(e.ctx, func(cx sdk.Context) error {
		res, err := liquidkeeper.NewMsgServerImpl(e.lk()).MintDerivative(sdk.WrapSDKContext(cx), &msg)
		if err == nil {
			out = res.Received
		}
		return err
	})
	return out, err
}

func (e *env) burn(d sdk.AccAddress, v sdk.ValAddress, amt int64) error {
	msg := liquidtypes.NewMsgBurnDerivative(d, v, sdk.NewInt64Coin(e.lk().GetLiquidStakingTokenDenom(v), amt))
	_, err := kapp.Exec(e.ctx, func(cx sdk.Context) error {
		_, err := liquidkeeper.NewMsgServerImpl(e.lk()).BurnDerivative(sdk.WrapSDKContext(cx), &msg)
		return err
	})
	return err
}

func (e *env) module() sdk.AccAddress {
	return e.tApp.GetAccountKeeper().GetModuleAddress(liquidtypes.ModuleAccountName)
}

func (e *env) shares(d sdk.AccAddress, v sdk.ValAddress) string {
	del, ok := e.sk().GetDelegation(e.ctx, d, v)
	if !ok {
		return "(no delegation)"
	}
	return del.Shares.String()
}

func (e *env) supply(v sdk.ValAddress) sdkmath.Int {
	return e.tApp.GetBankKeeper().GetSupply(e.ctx, e.lk().GetLiquidStakingTokenDenom(v)).Amount
}

func (e *env) show(v sdk.ValAddress) {
	val, ok := e.sk().GetValidator(e.ctx, v)
	if !ok {
		fmt.Println("   validator removed")
		return
	}
	fmt.Printf("   validator: tokens %s  shares %s  status %s jailed %v | derivative supply %s  module shares %s\n",
		val.Tokens, val.DelegatorShares, val.Status, val.Jailed, e.supply(v), e.shares(e.module(), v))
}

// stake value of an account the way GetStakedTokensForDerivatives / the tally value it: (delegation + derivative) × tokens / shares
func (e *env) value(d sdk.AccAddress, v sdk.ValAddress) sdk.Dec {
	val, _ := e.sk().GetValidator(e.ctx, v)
	sh := sdk.ZeroDec()
	if del, ok := e.sk().GetDelegation(e.ctx, d, v); ok {
		sh = del.Shares
	}
	bal := e.tApp.GetBankKeeper().GetBalance(e.ctx, d, e.lk().GetLiquidStakingTokenDenom(v)).Amount
	return sh.Add(sdk.NewDecFromInt(bal)).MulInt(val.Tokens).Quo(val.DelegatorShares)
}

func (e *env) tally(voters ...sdk.AccAddress) (govv1.TallyResult, string) {
	gk := e.tApp.GetGovKeeper()
	deposit := gk.GetParams(e.ctx).MinDeposit
	proposer := e.account()
	must(e.tApp.FundAccount(e.ctx, proposer, deposit))
	msg, err := govv1beta1.NewMsgSubmitProposal(govv1beta1.NewTextProposal("t", "d"), deposit, proposer)
	must(err)
	legacy := govkeeper.NewLegacyMsgServerImpl(gk.GetGovernanceAccount(e.ctx).GetAddress().String(), govkeeper.NewMsgServerImpl(&gk))
	res, err := legacy.SubmitProposal(sdk.WrapSDKContext(e.ctx), msg)
	must(err)
	proposal, _ := gk.GetProposal(e.ctx, res.ProposalId)
	for _, v := range voters {
		must(gk.AddVote(e.ctx, proposal.Id, v, govv1.NewNonSplitVoteOption(govv1.OptionYes), ""))
	}
	th := app.NewTallyHandler(gk, *e.sk(), e.tApp.GetSavingsKeeper(), e.tApp.GetEarnKeeper(), e.lk(), e.tApp.GetBankKeeper())
	var tr govv1.TallyResult
	panicked, pmsg := c.Recover(func() { _, _, tr = th.Tally(e.ctx, proposal) })
	if panicked {
		return tr, pmsg
	}
	return tr, ""
}

func must(err error) {
	if err != nil {
		panic(err)
	}
}

func f6() {
	fmt.Println("== F6  backing after a slash")
	e := newEnv()
	op, d := e.account(), e.account()
	v := e.validator(op, 50_000_000, 1)
	e.delegate(d, v, 50_000_000)
	e.endBlock(time.Second)
	e.slash(v, 7_000_000) // 7 %
	e.show(v)
	for _, a := range []int64{3, 10, 1000} {
		got, err := e.mint(d, v, a)
		fmt.Printf("   mint %d ukava -> %v %v\n", a, got, errS(err))
		e.show(v)
	}
	sup := e.supply(v).Int64()
	fmt.Printf("   the holder redeems everything: burn %d -> %v\n", sup, errS(e.burn(d, v, sup)))
	fmt.Printf("   burn %d -> %v ; burn 1 -> %v\n", sup-1, errS(e.burn(d, v, sup-1)), errS(e.burn(d, v, 1)))
	e.show(v)
}

func f6b() {
	fmt.Println("== F6b value of a large holder's stake across a mint")
	e := newEnv()
	op, d := e.account(), e.account()
	v := e.validator(op, 100_000_000, 1)
	e.delegate(d, v, 900_000_000)
	e.endBlock(time.Second)
	e.slash(v, 70_000_000) // 7 %
	e.show(v)
	for _, a := range []int64{606_000_001, 606_000_002, 606_000_003, 606_000_004, 606_000_005} {
		cc, _ := e.ctx.CacheContext()
		e2 := &env{tApp: e.tApp, ctx: cc}
		before := e2.value(d, v)
		got, err := e2.mint(d, v, a)
		after := e2.value(d, v)
		fmt.Printf("   mint %d -> %v %v ; module shares %s ; stake value %s -> %s (change %s)\n", a, got, errS(err),
			e2.shares(e2.module(), v), before, after, after.Sub(before))
	}
}

func f7() {
	fmt.Println("== F7  empty delegation")
	e := newEnv()
	op, d, h := e.account(), e.account(), e.account()
	v := e.validator(op, 50_000_000, 1)
	e.delegate(d, v, 50_000_000)
	e.endBlock(time.Second)
	got, err := e.mint(d, v, 1000)
	fmt.Printf("   mint 1000 -> %v %v\n", got, errS(err))
	e.slash(v, 7_000_000)
	must(e.tApp.GetBankKeeper().SendCoins(e.ctx, d, h, sdk.NewCoins(sdk.NewCoin(got.Denom, sdkmath.NewInt(1)))))
	fmt.Printf("   account h (never delegated) receives 1 unit; delegation of h: %s\n", e.shares(h, v))
	fmt.Printf("   h burns 1 unit -> %v ; delegation of h: %s\n", errS(e.burn(h, v, 1)), e.shares(h, v))
}

func f8() {
	fmt.Println("== F8  derivatives of a jailed validator vote")
	e := newEnv()
	op, d := e.account(), e.account()
	v := e.validator(op, 1_000_000, 1)
	e.delegate(d, v, 500_000_000)
	e.endBlock(time.Second)
	got, err := e.mint(d, v, 500_000_000)
	fmt.Printf("   mint 500000000 -> %v %v\n", got, errS(err))
	val, _ := e.sk().GetValidator(e.ctx, v)
	cons, _ := val.GetConsAddr()
	e.sk().Jail(e.ctx, cons)
	e.endBlock(time.Second)
	e.show(v)
	tr, p := e.tally(d)
	fmt.Printf("   holder votes yes: tally yes=%s  TotalBondedTokens=%s %s\n", tr.YesCount, e.sk().TotalBondedTokens(e.ctx), p)
	// the same stake held as a plain delegation carries nothing
	e2 := newEnv()
	op2, d2 := e2.account(), e2.account()
	v2 := e2.validator(op2, 1_000_000, 1)
	e2.delegate(d2, v2, 500_000_000)
	e2.endBlock(time.Second)
	val2, _ := e2.sk().GetValidator(e2.ctx, v2)
	cons2, _ := val2.GetConsAddr()
	e2.sk().Jail(e2.ctx, cons2)
	e2.endBlock(time.Second)
	tr2, _ := e2.tally(d2)
	fmt.Printf("   same stake as a delegation: tally yes=%s  TotalBondedTokens=%s\n", tr2.YesCount, e2.sk().TotalBondedTokens(e2.ctx))
}

func f6c() {
	fmt.Println("== F6c the tally panics (gov end blocker) on a derivative of an emptied validator")
	for j := int64(0); j < 50; j++ {
		e := newEnv()
		op, d := e.account(), e.account()
		v := e.validator(op, 50_000_000, 1)
		e.delegate(d, v, 50_000_000)
		e.endBlock(time.Second)
		e.slash(v, 7_000_000+j)
		// 1 ukava: its share value (1.07… shares) is worth 0.99… tokens, which truncates to 0 for most rates
		got, err := e.mint(d, v, 1)
		if err != nil || e.shares(e.module(), v) != "0.000000000000000000" {
			continue
		}
		fmt.Printf("   slash %d of 100000000, then mint 1 ukava -> %v\n", 7_000_000+j, got)
		e.show(v)
		// everybody leaves the validator (the operator's exit jails it: unbonding, still in the store)
		for _, a := range []sdk.AccAddress{d, op} {
			del, _ := e.sk().GetDelegation(e.ctx, a, v)
			_, err := e.sk().Undelegate(e.ctx, a, v, del.Shares)
			must(err)
		}
		e.endBlock(time.Second)
		e.show(v)
		tr, p := e.tally(d)
		fmt.Printf("   the holder of the unit votes: tally yes=%s panic=%q\n", tr.YesCount, p)
		// the same state makes the x/distribution hook inside Unbond / Delegate divide by zero as well
		fmt.Printf("   the holder burns its unit -> %v\n", errS(e.burn(d, v, 1)))
		got2, err2 := e.mint(op, v, 1)
		fmt.Printf("   (operator mints 1 -> %v %v)\n", got2, errS(err2))
		return
	}
	fmt.Println("   (no rate among the 50 tried loses the token of a 1 ukava mint)")
}

func errS(err error) string {
	if err == nil {
		return "ok"
	}
	return "ERROR: " + err.Error()
}

func main() {
	f6()
	f6b()
	f7()
	f8()
	f6c()
}
