// c05: correspondence harness for the CDP liquidation boundary (property C05).
//  c05.ratio  pure-function tie of the value-ratio formulation and of the two index-ratio routines, with a
//             boundary generator (ratio exactly at / one ulp above / below L; conversion factors 6, 8, 18)
//  c05.block  one CDP, one LiquidateCdps pass at a liquidation price solved to sit on the index boundary
//  c05.op     histories on the real keeper (same world as c04) biased to positions at the ratio
package main

import (
	"fmt"
	"math/big"

	sdkmath "cosmossdk.io/math"
	sdk "github.com/cosmos/cosmos-sdk/types"

	cdpkeeper "github.com/kava-labs/kava/x/cdp/keeper"
	cdptypes "github.com/kava-labs/kava/x/cdp/types"

	c "kavaverif/harness/common"
	"kavaverif/harness/cmd/c04/sim"
	"kavaverif/harness/kapp"
)

func bi(x int64) *big.Int { return big.NewInt(x) }

func decM(m *big.Int) sdk.Dec { return sdk.NewDecFromBigIntWithPrec(m, 18) }

var P18 = sim.Pow10(18)

func setPrice(w *sim.World, ctx sdk.Context, market int, p sdk.Dec) {
	pk := w.App.GetPriceFeedKeeper()
	if _, err := pk.SetPrice(ctx, w.Oracle, sim.Markets[market], p, ctx.BlockTime().Add(1e15)); err != nil {
		panic(err)
	}
	if err := pk.SetCurrentPrices(ctx, sim.Markets[market]); err != nil {
		panic(err)
	}
}

func randPrice(r *c.Rng) *big.Int {
	switch r.Intn(6) {
	case 0:
		return c.Pick(r, []*big.Int{new(big.Int).Quo(P18, bi(2)), new(big.Int).Quo(P18, bi(4)), new(big.Int).Set(P18),
			new(big.Int).Mul(bi(8000), P18), new(big.Int).Quo(P18, bi(3)), new(big.Int).Mul(bi(17), new(big.Int).Quo(P18, bi(4)))})
	case 1:
		return new(big.Int).Add(r.BigBelow(P18), bi(1)) // < 1
	case 2:
		return new(big.Int).Add(r.BigBelow(new(big.Int).Mul(bi(50000), P18)), bi(1))
	case 3:
		return new(big.Int).Add(r.BigBits(70), bi(1)) // log-uniform incl. dust prices
	default:
		return new(big.Int).Add(r.BigBelow(new(big.Int).Mul(bi(30), P18)), new(big.Int).Quo(P18, bi(100)))
	}
}

func randRatio(r *c.Rng) *big.Int {
	switch r.Intn(5) {
	case 0:
		return sdk.MustNewDecFromStr(c.Pick(r, []string{"1.5", "2.0", "1.1", "1.333333333333333333", "3.0", "1.000000000000000001", "1.25"})).BigInt()
	case 1:
		return new(big.Int).Add(P18, r.BigBelow(P18))
	default:
		return new(big.Int).Add(P18, r.BigBelow(new(big.Int).Mul(bi(3), P18)))
	}
}

func randColl(r *c.Rng, cf int64) *big.Int {
	unit := sim.Pow10(cf)
	switch r.Intn(3) {
	case 0:
		return new(big.Int).Mul(bi(r.Range(1, 500)), unit)
	case 1:
		return new(big.Int).Add(r.BigBelow(new(big.Int).Mul(bi(300), unit)), bi(1))
	default:
		return new(big.Int).Add(r.BigBits(int(cf)*3+12), bi(1))
	}
}

// exact-arithmetic solvers (same as sim, local copies keep this file self-contained)
func maxDebt(col *big.Int, cf int64, price, L *big.Int) *big.Int {
	num := new(big.Int).Mul(col, price)
	num.Mul(num, sim.Pow10(6))
	den := new(big.Int).Mul(sim.Pow10(cf), L)
	return num.Quo(num, den)
}

func withParams(w *sim.World, ctx sdk.Context, ty int, L *big.Int, count int64) cdptypes.Params {
	p := sim.DefaultParams()
	p.CollateralParams[ty].LiquidationRatio = decM(L)
	p.CollateralParams[ty].CheckCollateralizationIndexCount = sdkmath.NewInt(count)
	kapp.SetParams(w.App, ctx, "cdp", &p, func() { w.Keeper().SetParams(ctx, p) })
	return p
}

// ---------------------------------------------------------------- c05.ratio

func pureCases(w *sim.World, out *c.Out, r *c.Rng, n int) {
	k := w.Keeper()
	for i := 0; i < n; i++ {
		ctx, _ := w.Base.CacheContext()
		ty := r.Intn(sim.NBase)
		t := sim.Types[ty]
		price := randPrice(r)
		col := randColl(r, t.CF)
		L := randRatio(r)
		// debt at the boundary for this (collateral, price, L)
		md := maxDebt(col, t.CF, price, L)
		var debt *big.Int
		gen := ""
		switch r.Intn(6) {
		case 0, 1:
			debt, gen = md, "debt=max"
		case 2:
			debt, gen = new(big.Int).Add(md, bi(1)), "debt=max+1"
		case 3:
			debt, gen = new(big.Int).Add(md, bi(r.Range(-3, 3))), "debt~max"
		case 4:
			debt, gen = new(big.Int).Add(r.BigBelow(new(big.Int).Add(md, bi(2))), bi(1)), "debt<max"
		default:
			debt, gen = new(big.Int).Add(r.BigBits(50), bi(1)), "debt-random"
		}
		if debt.Sign() <= 0 {
			debt = bi(1)
		}
		if r.Chance(2) {
			debt, gen = bi(0), "debt=0"
		}
		if r.Chance(2) {
			col, gen = bi(0), "coll=0"
		}
		fees := bi(0)
		if r.Chance(40) && debt.Sign() > 0 {
			fees = r.BigBelow(new(big.Int).Add(new(big.Int).Quo(debt, bi(10)), bi(1)))
		}
		prin := new(big.Int).Sub(debt, fees)
		withParams(w, ctx, ty, L, 10)
		setPrice(w, ctx, t.SpotID, decM(price))
		setPrice(w, ctx, t.LiqID, decM(price))
		colCoin := sdk.NewCoin(t.Denom, sdkmath.NewIntFromBigInt(col))
		prinCoin := sdk.NewCoin("usdx", sdkmath.NewIntFromBigInt(prin))
		feeCoin := sdk.NewCoin("usdx", sdkmath.NewIntFromBigInt(fees))
		crs := "panic"
		var cr sdk.Dec
		panicked, _ := c.Recover(func() {
			var err error
			cr, err = k.VerifCalculateCollateralizationRatio(ctx, colCoin, t.Name, prinCoin, feeCoin, "spot")
			if err != nil {
				panic(err)
			}
		})
		if !panicked {
			crs = cr.BigInt().String()
			// second pass: move L onto the computed ratio (exactly at / one ulp above / one ulp below)
			if r.Chance(50) && cr.IsPositive() {
				d := r.Range(-1, 1)
				L = new(big.Int).Add(cr.BigInt(), bi(d))
				if L.Sign() <= 0 {
					L = bi(1)
				}
				withParams(w, ctx, ty, L, 10)
				gen += fmt.Sprintf("|L=cr%+d", d)
			}
		}
		gU, gL := false, false
		if !panicked {
			gU = k.ValidateCollateralizationRatio(ctx, colCoin, t.Name, prinCoin, feeCoin) == nil
			gL = k.ValidateLiquidation(ctx, colCoin, t.Name, prinCoin, feeCoin) == nil
		}
		debtCoin := sdk.NewCoin("usdx", sdkmath.NewIntFromBigInt(debt))
		k1 := k.CalculateCollateralToDebtRatio(ctx, colCoin, t.Name, debtCoin)
		params := k.GetParams(ctx)
		k2 := cdpkeeper.VerifCalculateCollateralRatio(params.DebtParam, params.CollateralParams[ty],
			cdptypes.CDP{Collateral: colCoin, Principal: prinCoin, AccumulatedFees: feeCoin, Type: t.Name})
		rel := "?"
		if !panicked {
			rel = fmt.Sprint(cr.BigInt().Cmp(L))
		}
		sig := fmt.Sprintf("cf=%d|%s|cr?L=%s|gU=%v|gL=%v|fees=%v", t.CF, gen, rel, gU, gL, fees.Sign() > 0)
		out.Case(sig, "c05.ratio", col.String(), fmt.Sprint(t.CF), prin.String(), fees.String(), "6", price.String(), L.String(), "=>",
			crs, c.B(gU), c.B(gL), k1.BigInt().String(), k2.BigInt().String())
	}
}

// ---------------------------------------------------------------- c05.block

// blockCases: one CDP per case; the liquidation price is solved so that the stored index ratio sits on the
// boundary of the block liquidator's range scan, then LiquidateCdps runs once with the begin blocker's arguments.
func blockCases(w *sim.World, out *c.Out, r *c.Rng, n int) {
	k := w.Keeper()
	for i := 0; i < n; i++ {
		ctx, _ := w.Base.CacheContext()
		ty := r.Intn(sim.NBase)
		t := sim.Types[ty]
		L := randRatio(r)
		col := randColl(r, t.CF)
		if max := w.App.GetBankKeeper().GetBalance(ctx, w.Users[0], t.Denom).Amount.BigInt(); col.Cmp(max) > 0 {
			col = max
		}
		debt := new(big.Int).Add(bi(10000000), r.BigBelow(bi(5000000000)))
		if r.Chance(30) {
			debt = new(big.Int).Mul(bi(r.Range(10, 5000)), bi(1000000))
		}
		gen := "random"
		if i == 0 { // the witness from the property text: 30 collateral, 10 debt, price 0.5, ratio 1.5
			ty, t = 0, sim.Types[0]
			L = sdk.MustNewDecFromStr("1.5").BigInt()
			col = new(big.Int).Mul(bi(30), sim.Pow10(t.CF))
			debt = bi(10000000)
			gen = "witness"
		}
		withParams(w, ctx, ty, L, 10)
		// created at a high spot price; only the liquidation market moves afterwards
		setPrice(w, ctx, t.SpotID, decM(new(big.Int).Mul(sim.Pow10(9), P18)))
		setPrice(w, ctx, t.LiqID, decM(new(big.Int).Mul(sim.Pow10(9), P18)))
		colCoin := sdk.NewCoin(t.Denom, sdkmath.NewIntFromBigInt(col))
		if err := k.AddCdp(ctx, w.Users[0], colCoin, sdk.NewCoin("usdx", sdkmath.NewIntFromBigInt(debt)), t.Name); err != nil {
			out.Note("block:create-failed")
			continue
		}
		// price at which collateral/debt is exactly at L (value formulation), perturbed by a few ulp,
		// or the price at which the index ratio meets normalizedRatio
		num := new(big.Int).Mul(L, debt)
		num.Mul(num, sim.Pow10(t.CF))
		den := new(big.Int).Mul(col, sim.Pow10(6))
		pstar := new(big.Int).Quo(num, den)
		var price *big.Int
		switch r.Intn(5) {
		case 0, 1:
			price = new(big.Int).Add(pstar, bi(r.Range(-3, 3)))
			gen += "|p*~"
		case 2:
			price = pstar
			gen += "|p*"
		case 3:
			price = new(big.Int).Add(pstar, bi(r.Range(-1000, 1000)))
			gen += "|p*~1e3"
		default:
			price = randPrice(r)
			gen += "|p-random"
		}
		if i == 0 {
			price = new(big.Int).Quo(P18, bi(2))
		}
		if price.Sign() <= 0 {
			price = bi(1)
		}
		setPrice(w, ctx, t.LiqID, decM(price))
		cls, err := kapp.Exec(ctx, func(cx sdk.Context) error {
			return k.LiquidateCdps(cx, t.Liq, t.Name, decM(L), sdkmath.NewInt(10))
		})
		if cls != kapp.OK {
			out.Note("block:liquidate-" + string(cls) + ":" + sim.ErrClass(err))
			continue
		}
		_, still := k.GetCdpByOwnerAndCollateralType(ctx, w.Users[0], t.Name)
		// what ValidateLiquidation (the keeper gate) says about the same position
		keeperWould := k.ValidateLiquidation(ctx, colCoin, t.Name, sdk.NewCoin("usdx", sdkmath.NewIntFromBigInt(debt)), sdk.NewCoin("usdx", sdk.ZeroInt())) == nil
		sig := fmt.Sprintf("cf=%d|%s|seized=%v|keeperGate=%v", t.CF, gen, !still, keeperWould)
		if !still && !keeperWould {
			// former finding F3 (fixed by b28e8ed21): must not come back
			out.Note("block:seized-although-ValidateLiquidation-refuses")
			out.Violation(fmt.Sprintf("cdp-block-liquidation-seized-at-or-above-ratio c05.block cf=%d col=%s debt=%s price=%s L=%s", t.CF, col, debt, price, L))
		}
		out.Case(sig, "c05.block", col.String(), fmt.Sprint(t.CF), debt.String(), "6", price.String(), L.String(), "=>", c.B(!still))
	}
}

// ---------------------------------------------------------------- c05.op

func directed(w *sim.World, out *c.Out, r *c.Rng) {
	// F3 through the begin blocker: 30 bnb / 10 usdx accepted at exactly 150 % (price 0.5), no price change
	{
		p := sim.DefaultParams()
		s := w.NewSeq(out, "c05.op", -1, r.Fork(9101), p)
		s.PostPrice(0, sdk.MustNewDecFromStr("0.5"), false)
		s.PostPrice(1, sdk.MustNewDecFromStr("0.5"), false)
		s.NextBlock(1, "f3-setup")
		s.Create(3, 0, new(big.Int).Mul(bi(30), sim.Pow10(8)), 2, bi(10000000), 0, "f3-at-ratio")
		s.Liquidate(7, 3, 0, "f3-keeper-refused")
		s.NextBlock(1, "f3-same-price")
		if len(s.Pre().Cdps) != 1 {
			out.Violation("cdp-block-liquidation-seized-at-or-above-ratio in the directed F3 scenario (fixed by b28e8ed21)")
		}
	}
	// former F2: two equal deposits, odd debt, price crash → the begin blocker must seize without panic and
	// exactly the debt must enter auctions
	{
		p := sim.DefaultParams()
		s := w.NewSeq(out, "c05.op", -3, r.Fork(9103), p)
		col := new(big.Int).Mul(bi(10), sim.Pow10(8))
		s.Create(3, 0, col, 2, bi(10000003), 0, "f2")
		s.Deposit(3, 7, 0, col, 2, "f2-equal")
		s.NextBlock(1, "f2")
		s.PostPrice(0, sdk.MustNewDecFromStr("0.001"), false)
		s.PostPrice(1, sdk.MustNewDecFromStr("0.001"), false)
		cls, err := s.NextBlock(5, "f2-crash")
		if cls != kapp.OK {
			out.Violation(fmt.Sprintf("cdp-auction-debt-split-rounding begin-block %s in the directed F2 scenario: %v", cls, err))
		}
	}
	// only the liquidation feed expires; then the owner draws
	{
		p := sim.DefaultParams()
		s := w.NewSeq(out, "c05.op", -2, r.Fork(9102), p)
		s.Create(4, 3, new(big.Int).Mul(bi(100), sim.Pow10(6)), 4, bi(20000000), 0, "feed")
		s.PostPrice(5, sdk.MustNewDecFromStr("2.0"), true) // xrp:usd:30 expires
		s.NextBlock(2, "feed")
		s.NextBlock(2, "feed-liq-down")
		s.Deposit(4, 4, 3, bi(1000000), 4, "feed-liq-down")
		s.Withdraw(4, 4, 3, bi(1), 4, "feed-liq-down")
		s.Create(5, 3, new(big.Int).Mul(bi(100), sim.Pow10(6)), 4, bi(20000000), 0, "feed-liq-down")
		if cls, _ := s.Draw(4, 3, bi(1000000), 0, "feed-liq-down"); cls == kapp.OK {
			out.Violation("cdp-draw-accepted-while-liquidation-feed-down (former finding F12, fixed by cb3596bb2)")
		}
	}
	// the liquidation block interval is 3 and only ONE of the two feeds of xrp-a goes away, seen first by a block on
	// which the liquidation pass does not run; two blocks later it is back, again between liquidation blocks: the four
	// operations are refused in exactly the blocks in which x/pricefeed has no price (sequences -9: liquidation
	// market, -10: spot market, -11: liquidation market with both events ON liquidation blocks)
	for i, pl := range []sim.FeedPlan{
		{Ty: 3, Liq: true, Down: 2, After: 2, Gap: 2},
		{Ty: 3, Spot: true, Down: 2, After: 2, Gap: 1},
		{Ty: 3, Liq: true, DownAtLiq: true, UpAtLiq: true, Down: 1, After: 2, Gap: 5},
	} {
		p := sim.DefaultParams()
		p.LiquidationBlockInterval = 3
		s := w.NewSeq(out, "c05.op", -9-i, r.Fork(uint64(9109+i)), p)
		s.NextBlock(1, "feed-setup")
		s.Create(4, 3, new(big.Int).Mul(bi(400), sim.Pow10(6)), 4, bi(20000000), 0, "feed-setup")
		s.Deposit(4, 8, 3, bi(5000000), 4, "feed-setup")
		s.FeedEpisode(pl)
	}
}

// governance moves the liquidation ratio while CDPs exist: "seized only when under-collateralised" and "no
// draw / withdrawal leaves it below the ratio" are about the ratio IN FORCE at the time of the action
func govDirected(w *sim.World, out *c.Out, r *c.Rng) {
	setRatio := func(ty int, L string) func(p *cdptypes.Params) string {
		return func(p *cdptypes.Params) string {
			sim.FindCollateral(p, ty).LiquidationRatio = sdk.MustNewDecFromStr(L)
			return "ratio=" + L
		}
	}
	// raised by one ulp over a position sitting exactly at the old ratio: liquidatable in the block after the change
	{
		s := w.NewSeq(out, "c05.op", -4, r.Fork(9104), sim.DefaultParams())
		s.PostPrice(0, sdk.MustNewDecFromStr("0.5"), false)
		s.PostPrice(1, sdk.MustNewDecFromStr("0.5"), false)
		s.NextBlock(1, "gov-setup")
		s.Create(3, 0, new(big.Int).Mul(bi(30), sim.Pow10(8)), 2, bi(10000000), 0, "gov-at-ratio")
		s.NextBlock(0, "gov-same-ratio")
		if len(s.Pre().Cdps) != 1 {
			out.Violation("cdp-block-liquidation-seized-at-or-above-ratio in the directed governance scenario (before the change)")
		}
		s.Pending = setRatio(0, "1.500000000000000001")
		s.NextBlock(0, "gov-ratio-raised-1ulp")
		if len(s.Pre().Cdps) != 0 {
			out.Violation("cdp-block-liquidation-ignores-the-liquidation-ratio-in-force: position at 1.5 survived the block after the ratio was raised to 1.500000000000000001")
		}
	}
	// lowered under a position that a price drop put below the OLD ratio: safe under the ratio in force, must not
	// be seized in the block after the change (nor by a keeper); raised back: seized; users are gated by the new ratio
	{
		s := w.NewSeq(out, "c05.op", -5, r.Fork(9105), sim.DefaultParams())
		s.PostPrice(0, sdk.MustNewDecFromStr("0.5"), false)
		s.PostPrice(1, sdk.MustNewDecFromStr("0.5"), false)
		np := s.P
		np.CollateralParams = append(cdptypes.CollateralParams{}, s.P.CollateralParams...)
		np.CollateralParams[0].StabilityFee = sdk.OneDec() // no interest: the ratios below are exact
		s.SetParamsNow(np, "fee-one")
		s.NextBlock(1, "gov-setup")
		s.Create(3, 0, new(big.Int).Mul(bi(30), sim.Pow10(8)), 2, bi(10000000), 0, "gov-at-ratio")
		s.Create(4, 0, new(big.Int).Mul(bi(60), sim.Pow10(8)), 2, bi(10000000), 0, "gov-safe")
		s.PostPrice(0, sdk.MustNewDecFromStr("0.49"), false)
		s.PostPrice(1, sdk.MustNewDecFromStr("0.49"), false) // CR = 1.47 < 1.5
		s.Pending = setRatio(0, "1.47")
		s.NextBlock(5, "gov-ratio-lowered-with-price-drop")
		if len(s.Pre().Cdps) != 2 {
			out.Violation("cdp-block-liquidation-ignores-the-liquidation-ratio-in-force: position at 1.47 seized in the block after the ratio was lowered to 1.47")
		}
		if cls, _ := s.Liquidate(7, 3, 0, "gov-keeper-after-lowering"); cls == kapp.OK {
			out.Violation("cdp-keeper-liquidation-ignores-the-liquidation-ratio-in-force: position at 1.47 seized by MsgLiquidate under ratio 1.47")
		}
		// the owner of the safe position may now draw down to 1.47 …
		s.Draw(4, 0, bi(10000000), 0, "gov-draw-under-lowered-ratio") // 60·0.49/20 = 1.47
		if cls, _ := s.Draw(4, 0, bi(1), 0, "gov-draw-below-lowered-ratio"); cls == kapp.OK {
			out.Violation("cdp-draw-ignores-the-liquidation-ratio-in-force")
		}
		s.Pending = setRatio(0, "1.5")
		s.NextBlock(5, "gov-ratio-raised-back")
		if len(s.Pre().Cdps) != 0 {
			out.Violation("cdp-block-liquidation-ignores-the-liquidation-ratio-in-force: positions at 1.47 survived the block after the ratio was raised back to 1.5")
		}
	}
	// a removed type: neither the block liquidator nor a keeper touches its CDPs, whatever the price does; listed
	// again with a ratio above the position it is seized in the first block
	{
		s := w.NewSeq(out, "c05.op", -6, r.Fork(9106), sim.DefaultParams())
		col := new(big.Int).Mul(bi(100), sim.Pow10(6))
		s.Create(4, 3, col, 4, bi(20000000), 0, "gov")
		s.Deposit(4, 8, 3, bi(3000000), 4, "gov")
		s.PostPrice(4, sdk.MustNewDecFromStr("0.01"), false)
		s.PostPrice(5, sdk.MustNewDecFromStr("0.01"), false)
		s.Pending = func(p *cdptypes.Params) string {
			var cps cdptypes.CollateralParams
			for _, e := range p.CollateralParams {
				if e.Type != "xrp-a" {
					cps = append(cps, e)
				}
			}
			p.CollateralParams = cps
			return "type-removed-with-cdps"
		}
		s.NextBlock(5, "gov-removed-crash")
		s.Liquidate(7, 4, 3, "gov-removed")
		s.NextBlock(3600, "gov-removed")
		if len(s.Pre().Cdps) != 1 {
			out.Violation("cdp-of-a-removed-collateral-type-was-seized")
		}
		s.Pending = func(p *cdptypes.Params) string {
			p.CollateralParams = append(p.CollateralParams, sim.DefaultCollateral(3))
			return "type-readded-with-cdps"
		}
		s.NextBlock(5, "gov-readded")
		if len(s.Pre().Cdps) != 0 {
			out.Violation("cdp-block-liquidation-missed-an-undercollateralised-cdp-after-its-type-was-listed-again")
		}
	}
	// the liquidation market is switched to a market with a higher price in the same boundary in which the old
	// liquidation market crashes: under the parameters in force the position is safe — no block seizure, keeper
	// refused (the keeper was also refused before the change); switched back: seized
	{
		s := w.NewSeq(out, "c05.op", -7, r.Fork(9107), sim.DefaultParams())
		col := new(big.Int).Mul(bi(100), sim.Pow10(6))
		s.Create(4, 3, col, 4, bi(100000000), 0, "gov") // xrp-a: 100 xrp · 2.0 / 100 usdx = 2.0
		s.Liquidate(7, 4, 3, "gov-keeper-before")
		s.NextBlock(1, "gov")
		s.PostPrice(5, sdk.MustNewDecFromStr("1.0"), false) // xrp:usd:30 → CR_liq would be 1.0 < 1.5
		s.Pending = func(p *cdptypes.Params) string {
			cp := sim.FindCollateral(p, 3)
			cp.LiquidationMarketID = cp.SpotMarketID // xrp:usd, still 2.0
			return "markets-both-spot"
		}
		s.NextBlock(1, "gov-liq-market-switched")
		if len(s.Pre().Cdps) != 1 {
			out.Violation("cdp-block-liquidation-ignores-the-liquidation-market-in-force: position safe at the price of the liquidation market in force was seized")
		}
		if cls, _ := s.Liquidate(7, 4, 3, "gov-keeper-after-switch"); cls == kapp.OK {
			out.Violation("cdp-keeper-liquidation-ignores-the-liquidation-market-in-force")
		}
		s.Pending = func(p *cdptypes.Params) string {
			sim.FindCollateral(p, 3).LiquidationMarketID = "xrp:usd:30"
			return "markets-restored"
		}
		s.NextBlock(1, "gov-liq-market-restored")
		if len(s.Pre().Cdps) != 0 {
			out.Violation("cdp-block-liquidation-ignores-the-liquidation-market-in-force: position under water at the price of the liquidation market in force survived")
		}
	}
	// the liquidation block interval drops from 3 to 1 while a position is under water: "seized when the liquidation
	// interval comes round" is about the interval in force — it is seized in the very next block, whatever its height
	{
		p := sim.DefaultParams()
		p.LiquidationBlockInterval = 3
		s := w.NewSeq(out, "c05.op", -8, r.Fork(9108), p)
		s.NextBlock(1, "gov-interval-3")
		s.Create(3, 0, new(big.Int).Mul(bi(30), sim.Pow10(8)), 2, bi(10000000), 0, "gov")
		for (s.Ctx.BlockHeight()+2)%3 == 0 || (s.Ctx.BlockHeight()+1)%3 != 0 { // next block: due under interval 3; the one after: not due
			s.NextBlock(1, "gov-pad")
		}
		s.NextBlock(1, "gov-interval-3-due")
		s.PostPrice(0, sdk.MustNewDecFromStr("0.1"), false)
		s.PostPrice(1, sdk.MustNewDecFromStr("0.1"), false)
		s.Pending = func(p *cdptypes.Params) string { p.LiquidationBlockInterval = 1; return "block-interval" }
		s.NextBlock(1, "gov-interval-1")
		if len(s.Pre().Cdps) != 0 {
			out.Violation("cdp-block-liquidation-ignores-the-liquidation-block-interval-in-force: under-water position not seized in the block after the interval became 1")
		}
	}
}

// ---------------------------------------------------------------- c05.lots

var penaltyPool = []string{"0.0", "0.05", "0.05", "0.025", "0.075", "0.1", "0.13", "0.25", "0.333333333333333333", "0.5", "0.5",
	"0.999999999999999999", "1.0", "0.000000000000000001"}

// randLotParams draws the two parameters CreateAuctionsFromDeposit works with: the liquidation penalty (round
// numbers, one ulp, one minus one ulp, random mantissas: the per-lot penalty round-half-even(debt_i · penalty) of
// neighbouring debts dpa / dpa+1 differs for a fraction ≈ penalty of the debts) and the auction size (the default,
// fractions of it — many lots per deposit —, sizes that do not divide round deposits, and a size no deposit reaches).
func randLotParams(r *c.Rng, cp *cdptypes.CollateralParam, ty int) {
	cp.LiquidationPenalty = sdk.MustNewDecFromStr(c.Pick(r, penaltyPool))
	if r.Chance(30) {
		cp.LiquidationPenalty = decM(r.BigBelow(new(big.Int).Add(P18, bi(1))))
	}
	base := sim.AuctionSize(sim.Types[ty]).BigInt()
	switch r.Intn(8) {
	case 0:
		base = new(big.Int).Quo(base, bi(20))
	case 1:
		base = new(big.Int).Add(new(big.Int).Quo(base, bi(3)), bi(1))
	case 2:
		base = new(big.Int).Quo(base, bi(7))
	case 3:
		base = new(big.Int).Mul(base, bi(1000))
	case 4:
		lo := new(big.Int).Add(new(big.Int).Quo(base, bi(40)), bi(1))
		base = new(big.Int).Add(lo, r.BigBelow(new(big.Int).Sub(base, lo)))
	}
	cp.AuctionSize = sdkmath.NewIntFromBigInt(base)
}

// lotsSeq: a short directed-random history whose point is the split of a seizure into auctions: one or two CDPs
// whose deposits (one to four depositors) are whole multiples of the auction size, one unit more / less, equal to each
// other, or arbitrary; a debt that does not divide evenly over the lots; interest accrues; the prices crash and the
// positions are seized by the block liquidator or — with the block liquidator out of the way — by keeper messages
// (reward taken out of one deposit first).  Every step is also an ordinary c05.op case.
func lotsSeq(w *sim.World, out *c.Out, no int, r *c.Rng) {
	p := sim.DefaultParams()
	ty := r.Intn(sim.NBase)
	t := sim.Types[ty]
	cp := &p.CollateralParams[ty]
	randLotParams(r, cp, ty)
	cp.KeeperRewardPercentage = sdk.MustNewDecFromStr(c.Pick(r, []string{"0.0", "0.01", "0.01", "0.05", "0.005", "0.3"}))
	if r.Chance(40) {
		cp.StabilityFee = sdk.OneDec()
	}
	viaKeeper := r.Chance(40)
	if viaKeeper {
		p.LiquidationBlockInterval = 1000003 // the begin blocker never liquidates at the heights of this history
	}
	s := w.NewSeq(out, "c05.op", no, r, p)
	A := cp.AuctionSize.BigInt()
	price := new(big.Int).Mul(bi(2), P18)
	L := cp.LiquidationRatio.BigInt()
	floor := p.DebtParam.DebtFloor.BigInt()
	amount := func(maxLots int64) *big.Int {
		k := r.Range(0, maxLots)
		x := new(big.Int).Mul(bi(k), A)
		switch r.Intn(6) {
		case 0: // exact multiple
		case 1:
			x.Add(x, bi(1))
		case 2:
			x.Sub(x, bi(1))
		case 3:
			x.Add(x, new(big.Int).Quo(A, bi(2)))
		default:
			x.Add(x, r.BigBelow(A))
		}
		if x.Sign() <= 0 {
			x = new(big.Int).Add(A, bi(r.Range(-1, 1)))
		}
		return x
	}
	nCdps := 1
	if r.Chance(35) {
		nCdps = 2
	}
	var owners []int
	for i := 0; i < nCdps; i++ {
		owner := 3 + i
		col := amount(7)
		// enough collateral for the debt floor at the ratio (more whole lots, bounded)
		need := new(big.Int).Mul(floor, L)
		need.Mul(need, sim.Pow10(t.CF))
		need.Quo(need, new(big.Int).Mul(price, sim.Pow10(6)))
		need.Add(need, bi(2))
		for n := 0; col.Cmp(need) < 0 && n < 400; n++ {
			col.Add(col, A)
		}
		if col.Cmp(need) < 0 {
			col = need
		}
		if bal := s.Pre().Bal[owner][t.DenomID]; col.Cmp(bal) > 0 {
			col = new(big.Int).Set(bal)
		}
		md := maxDebt(col, t.CF, price, L)
		if md.Cmp(floor) < 0 {
			continue
		}
		debt := new(big.Int).Add(floor, r.BigBelow(new(big.Int).Add(new(big.Int).Sub(md, floor), bi(1))))
		if r.Chance(30) {
			debt = md
		}
		if cls, _ := s.Create(owner, ty, col, t.DenomID, debt, 0, "lots"); cls != kapp.OK {
			continue
		}
		owners = append(owners, owner)
		first := col
		for d, nd := 0, r.Intn(4); d < nd; d++ {
			dep := 3 + r.Intn(sim.NUsers)
			amt := amount(4)
			if r.Chance(25) {
				amt = new(big.Int).Set(first) // equal deposits: equal rounded shares (former F2)
			}
			if bal := s.Pre().Bal[dep][t.DenomID]; amt.Cmp(bal) > 0 {
				continue
			}
			s.Deposit(owner, dep, ty, amt, t.DenomID, "lots")
		}
		if r.Chance(50) { // draw against the added collateral: the debt no longer comes from one round draw
			for _, cd := range s.Pre().Cdps {
				if cd.Owner == owner && cd.Ty == ty {
					room := new(big.Int).Sub(maxDebt(cd.Coll, t.CF, price, L), new(big.Int).Add(cd.Prin, cd.Fees))
					if room.Sign() > 0 {
						s.Draw(owner, ty, new(big.Int).Add(r.BigBelow(room), bi(1)), 0, "lots")
					}
				}
			}
		}
	}
	s.NextBlock(c.Pick(r, []int64{1, 60, 3600, 86400, 86400 * 30}), "lots-accrue")
	crash := sdk.MustNewDecFromStr(c.Pick(r, []string{"0.02", "0.5", "0.000001", "1.0"}))
	s.PostPrice(sim.MarketID(cp.SpotMarketID), crash, false)
	s.PostPrice(sim.MarketID(cp.LiquidationMarketID), crash, false)
	s.NextBlock(c.Pick(r, []int64{1, 5, 3600}), "lots-crash")
	if viaKeeper {
		for _, o := range owners {
			s.Liquidate(3+r.Intn(sim.NUsers), o, ty, "lots")
		}
	}
	s.NextBlock(1, "lots-after")
}

// ---------------------------------------------------------------- c05.gate

// feedSeq: a short directed-random history about the price-feed gate: liquidation block interval 2, 3, 4 or 7, a
// collateral type whose liquidation market differs from its spot market (now and then the same market, the control),
// one or two CDPs with room above the ratio, then one or two outage episodes (sim/feed.go): one market — or both, or
// one after the other — loses its price at a chosen phase of the interval, stays away for a few blocks and comes back
// at a chosen phase; create / draw / deposit / withdraw are attempted in every block.  Every step is also an
// ordinary c05.op case.
func feedSeq(w *sim.World, out *c.Out, no int, r *c.Rng) {
	p := sim.DefaultParams()
	if r.Chance(50) {
		p = sim.RandomParams(r)
		huge := sdkmath.NewIntFromBigInt(sim.Pow10(30))
		p.DebtAuctionThreshold, p.SurplusAuctionThreshold = huge, huge
	}
	p.LiquidationBlockInterval = c.Pick(r, []int64{2, 3, 3, 4, 7})
	if r.Chance(8) {
		p.LiquidationBlockInterval = 1
	}
	ty := r.Intn(sim.NBase)
	t := sim.Types[ty]
	cp := &p.CollateralParams[ty]
	if r.Chance(12) {
		cp.LiquidationMarketID = cp.SpotMarketID
	} else if r.Chance(10) {
		cp.SpotMarketID, cp.LiquidationMarketID = cp.LiquidationMarketID, cp.SpotMarketID
	}
	s := w.NewSeq(out, "c05.op", no, r, p)
	s.NextBlock(1, "feed-setup")
	price := new(big.Int).Mul(bi(2), P18)
	L := cp.LiquidationRatio.BigInt()
	floor := p.DebtParam.DebtFloor.BigInt()
	for i, n := 0, 1+r.Intn(2); i < n; i++ {
		owner := 3 + i
		debt := new(big.Int).Add(floor, r.BigBelow(new(big.Int).Mul(floor, bi(4))))
		// collateral for two to four times the debt at the ratio: room to draw and to withdraw
		need := new(big.Int).Mul(debt, L)
		need.Mul(need, sim.Pow10(t.CF))
		need.Quo(need, new(big.Int).Mul(price, sim.Pow10(6)))
		col := new(big.Int).Add(new(big.Int).Mul(need, bi(r.Range(2, 4))), bi(r.Range(1, 1000)))
		if bal := s.Pre().Bal[owner][t.DenomID]; col.Cmp(bal) > 0 {
			col = new(big.Int).Set(bal)
		}
		if cls, _ := s.Create(owner, ty, col, t.DenomID, debt, 0, "feed-setup"); cls == kapp.OK && r.Chance(50) {
			s.Deposit(owner, 3+r.Intn(sim.NUsers), ty, new(big.Int).Add(r.BigBelow(sim.Pow10(t.CF)), bi(1)), t.DenomID, "feed-setup")
		}
	}
	for e, n := 0, 1+r.Intn(2); e < n; e++ {
		s.FeedEpisode(s.RandomFeedPlan(ty))
	}
}

func main() {
	out := c.NewOut(c.OutPath())
	defer out.Close()
	r := c.NewRng(c.Seed())
	nPure := c.Budget(6000, 200000)
	nBlock := c.Budget(3000, 80000)
	n := c.Budget(100, 1200)
	nLots := c.Budget(160, 3000)
	nFeed := c.Budget(60, 1500)
	nops := 50
	if c.Tier() == "thorough" {
		nops = 100
	}
	workers := c.Workers()
	// the pure streams are split into `workers` chunks that run as sequences of their own
	chunks := workers * 2
	kapp.RunSeqs(n+2*chunks+nLots+nFeed, workers, r, sim.NewWorldBarrier(workers), func(w *sim.World, seq int, r *c.Rng) {
		switch {
		case seq >= n+2*chunks+nLots:
			feedSeq(w, out, seq, r)
		case seq < chunks:
			pureCases(w, out, r, nPure/chunks+1)
		case seq < 2*chunks:
			blockCases(w, out, r, nBlock/chunks+1)
		case seq >= n+2*chunks:
			lotsSeq(w, out, seq, r)
		default:
			if seq == 2*chunks {
				directed(w, out, c.NewRng(c.Seed()))
				govDirected(w, out, c.NewRng(c.Seed()))
			}
			rp := sim.RandomParams(r)
			lr := r.Fork(7705) // (a stream of its own: the histories themselves are the ones of the earlier rounds)
			for i := range rp.CollateralParams {
				if lr.Chance(60) {
					randLotParams(lr, &rp.CollateralParams[i], sim.TypeID(rp.CollateralParams[i].Type))
				}
			}
			// liquidation block interval: between two liquidation blocks the begin blocker does less
			rp.LiquidationBlockInterval = c.Pick(r.Fork(7706), []int64{1, 1, 2, 3, 4, 7})
			s := w.NewSeq(out, "c05.op", seq, r, rp)
			s.FeedPct = 6 // price-feed outage episodes (sim/feed.go)
			if seq%4 != 0 { // three histories in four see governance parameter changes at block boundaries
				s.GovPct = 35
			}
			s.AfterCase = func(kind string, args []string, pre, post sim.Obs, cls kapp.Class, err error) {
				if kind == "begin" && cls == kapp.Panic {
					// "the lowest-ratio CDPs below it are seized when the liquidation interval comes round": not in a block that aborts
					m := fmt.Sprint(err)
					if len(m) > 160 {
						m = m[:160]
					}
					out.Violation(fmt.Sprintf("cdp-begin-block-panic seq=%d op=%d: %s", s.No, s.OpNo, m))
				}
			}
			for i := 0; i < nops; i++ {
				s.Step("boundary")
			}
		}
	})
}
