// c11, part 2: the several-vault world and the pure VaultShares stream.
//
// World: six earn vaults at once whose denoms interleave in sort order and alternate between the
// strategies — bkava-<valA>, bkava-<valB> (savings strategy through the "bkava" AllowedVault),
// bnb (hard), busd (savings), ukava (savings), usdx (hard) — and four accounts.  Accounts open
// positions in every order (first deposit before / between / after the denoms they already hold),
// top up, withdraw partially and fully, several accounts per vault; savings messages with 1–4
// interleaving denoms.  Every case carries the RAW share record of every account (the stored list,
// order and duplicates included), the state of every vault, and the harness's own log of what each
// account must hold.
package main

import (
	"fmt"
	"math/big"
	"sort"
	"strings"
	"time"

	sdkmath "cosmossdk.io/math"
	"github.com/cosmos/cosmos-sdk/crypto/keys/ed25519"
	sdk "github.com/cosmos/cosmos-sdk/types"
	stakingtypes "github.com/cosmos/cosmos-sdk/x/staking/types"

	"github.com/kava-labs/kava/app"
	earntypes "github.com/kava-labs/kava/x/earn/types"
	"github.com/kava-labs/kava/x/hard"
	hardtypes "github.com/kava-labs/kava/x/hard/types"
	pricefeedtypes "github.com/kava-labs/kava/x/pricefeed/types"
	savingskeeper "github.com/kava-labs/kava/x/savings/keeper"
	savingstypes "github.com/kava-labs/kava/x/savings/types"

	c "kavaverif/harness/common"
	"kavaverif/harness/kapp"
)

const nMU = 4 // accounts of the several-vault world

type mworld struct {
	tApp    app.TestApp
	base    sdk.Context
	users   []sdk.AccAddress
	earnAcc sdk.AccAddress
	savAcc  sdk.AccAddress
	denoms  []string                 // all denoms of the world = the vault denoms, lexicographically sorted
	strat   []earntypes.StrategyType // strategy of vault i
	savSup  []bool                   // x/savings accepts denom i in a user message
}

func (w *mworld) idx(denom string) int {
	for i, d := range w.denoms {
		if d == denom {
			return i
		}
	}
	return 99
}

func mkMWorld() *mworld {
	_, addrs := app.GeneratePrivKeyAddressPairs(nMU + 2)
	far := kapp.GenTime.Add(20000 * 24 * time.Hour)
	pf := pricefeedtypes.GenesisState{
		Params: pricefeedtypes.Params{Markets: []pricefeedtypes.Market{
			{MarketID: "usdx:usd", BaseAsset: "usdx", QuoteAsset: "usd", Oracles: []sdk.AccAddress{}, Active: true},
			{MarketID: "bnb:usd", BaseAsset: "bnb", QuoteAsset: "usd", Oracles: []sdk.AccAddress{}, Active: true},
		}},
		PostedPrices: []pricefeedtypes.PostedPrice{
			{MarketID: "usdx:usd", OracleAddress: sdk.AccAddress{}, Price: d("1.00"), Expiry: far},
			{MarketID: "bnb:usd", OracleAddress: sdk.AccAddress{}, Price: d("10.00"), Expiry: far},
		},
	}
	irm := hardtypes.NewInterestRateModel(d("0.05"), d("0.5"), d("0.8"), d("1"))
	hardGS := hardtypes.NewGenesisState(hardtypes.NewParams(
		hardtypes.MoneyMarkets{
			hardtypes.NewMoneyMarket("usdx", hardtypes.NewBorrowLimit(false, d("0"), d("0.8")), "usdx:usd",
				sdkmath.NewInt(1000000), irm, d("0.05"), sdk.ZeroDec()),
			hardtypes.NewMoneyMarket("bnb", hardtypes.NewBorrowLimit(false, d("0"), d("0.8")), "bnb:usd",
				sdkmath.NewInt(100000000), irm, d("0.05"), sdk.ZeroDec()),
		}, sdk.NewDec(10)),
		hardtypes.DefaultAccumulationTimes, hardtypes.DefaultDeposits, hardtypes.DefaultBorrows,
		hardtypes.DefaultTotalSupplied, hardtypes.DefaultTotalBorrowed, hardtypes.DefaultTotalReserves,
	)
	savGS := savingstypes.NewGenesisState(savingstypes.NewParams([]string{"bkava", "busd", "ukava"}), nil)
	sav, hrd := earntypes.STRATEGY_TYPE_SAVINGS, earntypes.STRATEGY_TYPE_HARD
	earnGS := earntypes.NewGenesisState(earntypes.NewParams(earntypes.AllowedVaults{
		earntypes.NewAllowedVault("bkava", earntypes.StrategyTypes{sav}, false, nil),
		earntypes.NewAllowedVault("bnb", earntypes.StrategyTypes{hrd}, false, nil),
		earntypes.NewAllowedVault("busd", earntypes.StrategyTypes{sav}, false, nil),
		earntypes.NewAllowedVault("ukava", earntypes.StrategyTypes{sav}, false, nil),
		earntypes.NewAllowedVault("usdx", earntypes.StrategyTypes{hrd}, false, nil),
	}), nil, nil)

	cdc := app.MakeEncodingConfig().Marshaler
	tApp, ctx := kapp.NewApp(app.GenesisState{
		pricefeedtypes.ModuleName: cdc.MustMarshalJSON(&pf),
		hardtypes.ModuleName:      cdc.MustMarshalJSON(&hardGS),
		savingstypes.ModuleName:   cdc.MustMarshalJSON(&savGS),
		earntypes.ModuleName:      cdc.MustMarshalJSON(&earnGS),
	})
	w := &mworld{tApp: tApp, base: ctx, users: addrs[:nMU]}
	ak := tApp.GetAccountKeeper()
	w.earnAcc = ak.GetModuleAccount(ctx, earntypes.ModuleName).GetAddress()
	w.savAcc = ak.GetModuleAccount(ctx, savingstypes.ModuleAccountName).GetAddress()

	// two validators, so that bkava-<valoper> are derivative denoms x/savings and x/earn accept
	strat := map[string]earntypes.StrategyType{"bnb": hrd, "busd": sav, "ukava": sav, "usdx": hrd}
	sup := map[string]bool{"bnb": false, "busd": true, "ukava": true, "usdx": false}
	for _, secret := range []string{"c11-validator-a", "c11-validator-b"} {
		pk := ed25519.GenPrivKeyFromSecret([]byte(secret)).PubKey()
		val, err := stakingtypes.NewValidator(sdk.ValAddress(pk.Address()), pk, stakingtypes.Description{Moniker: secret})
		must(err)
		tApp.GetStakingKeeper().SetValidator(ctx, val)
		dn := "bkava-" + sdk.ValAddress(pk.Address()).String()
		strat[dn], sup[dn] = sav, true
	}
	for dn := range strat {
		w.denoms = append(w.denoms, dn)
	}
	sort.Strings(w.denoms)
	for _, dn := range w.denoms {
		w.strat = append(w.strat, strat[dn])
		w.savSup = append(w.savSup, sup[dn])
		if !tApp.GetSavingsKeeper().IsDenomSupported(ctx, dn) && sup[dn] {
			panic("harness: savings does not support " + dn)
		}
	}

	hk := tApp.GetHardKeeper()
	hard.BeginBlocker(ctx, hk)
	whale, borrower := addrs[nMU], addrs[nMU+1]
	must(tApp.FundAccount(ctx, whale, sdk.NewCoins(sdk.NewCoin("usdx", sdkmath.NewInt(200_000_000_000_000)))))
	must(tApp.FundAccount(ctx, borrower, sdk.NewCoins(sdk.NewCoin("bnb", sdkmath.NewInt(10_000_000_000_000_000)))))
	must(hk.Deposit(ctx, whale, sdk.NewCoins(sdk.NewCoin("usdx", sdkmath.NewInt(200_000_000_000_000)))))
	must(hk.Deposit(ctx, borrower, sdk.NewCoins(sdk.NewCoin("bnb", sdkmath.NewInt(10_000_000_000_000_000)))))
	must(hk.Borrow(ctx, borrower, sdk.NewCoins(sdk.NewCoin("usdx", sdkmath.NewInt(50_000_000_000_000)))))
	for _, u := range w.users {
		ak.SetAccount(ctx, ak.NewAccountWithAddress(ctx, u))
	}
	return w
}

// ---------------------------------------------------------------- observation

type mobs struct {
	found []bool
	tot   []*big.Int
	val   []*big.Int
	loose []*big.Int
	recs  []string       // raw record of account a as stored: "x" none, "e" stored but empty, else d:amt|d:amt
	sh    [][]*big.Int   // account × vault: sum of all entries of that denom in the raw record
	bal   [][]*big.Int   // account × denom
	av    [][]*big.Int   // account × vault: GetVaultAccountValue (−1: error)
}

func (w *mworld) observe(ctx sdk.Context) mobs {
	ek := w.tApp.GetEarnKeeper()
	bk := w.tApp.GetBankKeeper()
	var o mobs
	for _, dn := range w.denoms {
		rec, found := ek.GetVaultRecord(ctx, dn)
		o.found = append(o.found, found)
		if found {
			o.tot = append(o.tot, rec.TotalShares.Amount.BigInt())
		} else {
			o.tot = append(o.tot, bi(0))
		}
		tv, err := ek.GetVaultTotalValue(ctx, dn)
		must(err)
		o.val = append(o.val, tv.Amount.BigInt())
		o.loose = append(o.loose, bk.GetBalance(ctx, w.earnAcc, dn).Amount.BigInt())
	}
	known := map[string]bool{}
	for _, u := range w.users {
		known[u.String()] = true
		sh := make([]*big.Int, len(w.denoms))
		for i := range sh {
			sh[i] = bi(0)
		}
		row := "x"
		if sr, ok := ek.GetVaultShareRecord(ctx, u); ok {
			var es []string
			for _, s := range sr.Shares {
				i := w.idx(s.Denom)
				es = append(es, fmt.Sprintf("%d:%s", i, s.Amount.BigInt().String()))
				if i < len(sh) {
					sh[i] = new(big.Int).Add(sh[i], s.Amount.BigInt())
				}
			}
			row = strings.Join(es, "|")
			if len(es) == 0 {
				row = "e"
			}
		}
		o.recs = append(o.recs, row)
		o.sh = append(o.sh, sh)
		var br, ar []*big.Int
		for _, dn := range w.denoms {
			br = append(br, bk.GetBalance(ctx, u, dn).Amount.BigInt())
			if coin, err := ek.GetVaultAccountValue(ctx, dn, u); err == nil {
				ar = append(ar, coin.Amount.BigInt())
			} else {
				ar = append(ar, bi(-1))
			}
		}
		o.bal = append(o.bal, br)
		o.av = append(o.av, ar)
	}
	ek.IterateVaultShareRecords(ctx, func(r earntypes.VaultShareRecord) bool {
		if !known[r.Depositor.String()] {
			panic("harness: share record outside the user set")
		}
		return false
	})
	ek.IterateVaultRecords(ctx, func(r earntypes.VaultRecord) bool {
		if w.idx(r.TotalShares.Denom) == 99 {
			panic("harness: vault record outside the denom universe")
		}
		return false
	})
	return o
}

func (o mobs) fields() []string {
	return []string{bools(o.found), c.Ints(o.tot), c.Ints(o.val), c.Ints(o.loose), strings.Join(o.recs, ";"),
		matrix(o.bal), matrix(o.av)}
}

// ---------------------------------------------------------------- sequences

type mseq struct {
	w      *mworld
	out    *c.Out
	ctx    sdk.Context
	t      time.Time
	ledger [][]*big.Int // the harness's own log: shares account a must hold in vault v
}

func newMSeq(w *mworld, out *c.Out) *mseq {
	ctx, _ := w.base.CacheContext()
	s := &mseq{w: w, out: out, ctx: ctx, t: kapp.GenTime}
	for range w.users {
		row := make([]*big.Int, len(w.denoms))
		for i := range row {
			row[i] = bi(0)
		}
		s.ledger = append(s.ledger, row)
	}
	return s
}

// position of vault v among the vaults account a holds according to the log
func (s *mseq) position(a, v int) string {
	below, above := 0, 0
	for i, x := range s.ledger[a] {
		if x.Sign() > 0 && i < v {
			below++
		}
		if x.Sign() > 0 && i > v {
			above++
		}
	}
	held := s.ledger[a][v].Sign() > 0
	switch {
	case held && below == 0 && above == 0:
		return "held-only"
	case held && below == 0:
		return "held-first"
	case held && above == 0:
		return "held-last"
	case held:
		return "held-middle"
	case below == 0 && above == 0:
		return "new-first-position"
	case below == 0:
		return "new-before"
	case above == 0:
		return "new-after"
	default:
		return "new-between"
	}
}

// probes: for account b, every vault the log says it holds — the account value the keeper reports
// and the outcome of withdrawing exactly that value on a discarded branch
func (s *mseq) probes(b int) []string {
	w := s.w
	ek := w.tApp.GetEarnKeeper()
	var ps []string
	for v, dn := range w.denoms {
		if s.ledger[b][v].Sign() <= 0 {
			continue
		}
		val, err := ek.GetVaultAccountValue(s.ctx, dn, w.users[b])
		if err != nil {
			ps = append(ps, fmt.Sprintf("%d:%d:-1:none:0:-", b, v))
			continue
		}
		cls, payout, ek2 := "none", bi(0), "-"
		if val.Amount.IsPositive() {
			cctx, _ := s.ctx.CacheContext()
			pcls, perr := kapp.Exec(cctx, func(ctx sdk.Context) error {
				got, e := ek.Withdraw(ctx, w.users[b], val, w.strat[v])
				if e == nil {
					payout = got.Amount.BigInt()
				}
				return e
			})
			cls = string(pcls)
			if perr != nil {
				ek2 = errKind(perr)
				if strings.Contains(perr.Error(), "failed to withdraw from strategy") && strings.Contains(perr.Error(), "insufficient funds") {
					s.out.Note("excluded-hard-liquidity-shortage-probe")
					continue
				}
			}
		}
		s.out.Note("multi-probe-" + cls)
		ps = append(ps, fmt.Sprintf("%d:%d:%s:%s:%s:%s", b, v, val.Amount.String(), cls, payout.String(), ek2))
	}
	return ps
}

func (s *mseq) emit(sig, kind string, v, a int, x *big.Int, vaultOk, stratOk bool, pre mobs, cls kapp.Class, payout *big.Int, post mobs, probes []string) {
	fields := []string{kind, fmt.Sprint(v), fmt.Sprint(a), x.String(), c.B(vaultOk), c.B(stratOk), fmt.Sprint(len(s.w.denoms))}
	fields = append(fields, pre.fields()...)
	fields = append(fields, "=>", string(cls), payout.String())
	fields = append(fields, post.fields()...)
	fields = append(fields, matrix(s.ledger), c.Strs(probes))
	s.out.Case(sig, "c11.multi", fields...)
}

// exec runs one earn keeper call on the real keeper, updates the log and writes the case
func (s *mseq) exec(kind string, v, a int, x *big.Int, denom string, strat earntypes.StrategyType, vaultOk, stratOk bool, other int) {
	w, out := s.w, s.out
	ek := w.tApp.GetEarnKeeper()
	pre := w.observe(s.ctx)
	pos := s.position(a, v)
	coin := sdk.Coin{Denom: denom, Amount: sdkmath.NewIntFromBigInt(x)}
	payout := bi(0)
	cls, err := kapp.Exec(s.ctx, func(ctx sdk.Context) error {
		if kind == "dep" {
			return ek.Deposit(ctx, w.users[a], coin, strat)
		}
		got, e := ek.Withdraw(ctx, w.users[a], coin, strat)
		if e == nil {
			payout = got.Amount.BigInt()
		}
		return e
	})
	if cls == kapp.Err && kind == "wd" && strings.Contains(err.Error(), "failed to withdraw from strategy") &&
		strings.Contains(err.Error(), "insufficient funds") {
		out.Note("excluded-hard-liquidity-shortage")
		return
	}
	post := w.observe(s.ctx)
	if cls == kapp.Panic {
		out.Violation(fmt.Sprintf("earn %s panicked (several vaults): %v", kind, err))
	}
	sig := ""
	if cls == kapp.OK {
		// the log: what the vault's own record says was issued / redeemed belongs to (a, v) and to nobody else
		s.ledger[a][v] = new(big.Int).Add(s.ledger[a][v], new(big.Int).Sub(post.tot[v], pre.tot[v]))
		nheld := 0
		for _, l := range s.ledger[a] {
			if l.Sign() > 0 {
				nheld++
			}
		}
		sig = fmt.Sprintf("%s|ok|%s|strat=%s|holds=%d|others=%s", kind, pos, w.strat[v], nheld, c.B(pre.tot[v].Cmp(pre.sh[a][v]) != 0))
		if kind == "wd" {
			sig += fmt.Sprintf("|emptied=%s|lastpos=%s", c.B(s.ledger[a][v].Sign() == 0), c.B(nheld == 0))
		}
		out.Note("multi-" + kind + "-" + pos)
	} else if err != nil {
		out.Note("multi-err-" + kind + "-" + errKind(err))
		sig = fmt.Sprintf("%s|%s|%s", kind, cls, errKind(err))
	}
	probes := s.probes(a)
	if other >= 0 && other != a {
		probes = append(probes, s.probes(other)...)
	}
	s.emit(sig, kind, v, a, x, vaultOk, stratOk, pre, cls, payout, post, probes)
}

func (s *mseq) earnOp(r *c.Rng) {
	w := s.w
	a := r.Intn(nMU)
	v := r.Intn(len(w.denoms))
	held := s.ledger[a][v].Sign() > 0
	kind := "dep"
	if held && r.Chance(60) || !held && r.Chance(8) {
		kind = "wd"
	}
	// open new positions eagerly: an account that holds fewer than all vaults prefers a vault it does not hold yet
	if kind == "dep" && held && r.Chance(50) {
		var cand []int
		for i, l := range s.ledger[a] {
			if l.Sign() == 0 {
				cand = append(cand, i)
			}
		}
		if len(cand) > 0 {
			v = cand[r.Intn(len(cand))]
		}
	}
	denom, strat := w.denoms[v], w.strat[v]
	vaultOk, stratOk := true, true
	if r.Chance(2) {
		denom, vaultOk = "xrpb", false
	} else if r.Chance(2) {
		stratOk = false
		if strat == earntypes.STRATEGY_TYPE_HARD {
			strat = earntypes.STRATEGY_TYPE_SAVINGS
		} else {
			strat = earntypes.STRATEGY_TYPE_HARD
		}
	}
	bk := w.tApp.GetBankKeeper()
	ek := w.tApp.GetEarnKeeper()
	var x *big.Int
	gen := ""
	if kind == "dep" {
		b := bk.GetBalance(s.ctx, w.users[a], w.denoms[v]).Amount.BigInt()
		switch r.Intn(10) {
		case 0:
			x, gen = bi(0), "zero"
		case 1:
			x, gen = new(big.Int).Add(b, bi(1)), "balance+1"
		case 2:
			x, gen = bi(r.Range(1, 3)), "tiny"
		case 3:
			x, gen = new(big.Int).Set(b), "balance"
		default:
			// a fraction of the balance, so that the account can open many positions and top them up
			x, gen = bi(1), "fraction"
			if b.Sign() > 0 {
				x = new(big.Int).Add(r.BigBelow(new(big.Int).Add(new(big.Int).Quo(b, bi(4)), bi(1))), bi(1))
			}
		}
	} else {
		av := bi(0)
		if coin, err := ek.GetVaultAccountValue(s.ctx, w.denoms[v], w.users[a]); err == nil {
			av = coin.Amount.BigInt()
		}
		switch r.Intn(10) {
		case 0:
			x, gen = bi(0), "zero"
		case 1, 2, 3:
			x, gen = new(big.Int).Set(av), "full"
		case 4:
			x, gen = new(big.Int).Add(av, bi(1)), "full+1"
		case 5:
			x, gen = new(big.Int).Add(av, scale(r)), "oversized"
		case 6:
			x, gen = clamp0(new(big.Int).Sub(av, bi(r.Range(1, 3)))), "leave-1..3"
		default:
			x, gen = scale(r), "random"
			if av.Sign() > 0 {
				x, gen = new(big.Int).Add(r.BigBelow(av), bi(1)), "partial"
			}
		}
	}
	s.out.Note("multi-gen-" + kind + "-" + gen)
	s.exec(kind, v, a, x, denom, strat, vaultOk, stratOk, r.Intn(nMU))
}

func (s *mseq) accrue(r *c.Rng) {
	w, out := s.w, s.out
	pre := w.observe(s.ctx)
	dts := []int64{1, 3600, 86400, 30 * 86400, 365 * 86400}
	dt := dts[r.Intn(len(dts))]
	if s.t.Sub(kapp.GenTime)+time.Duration(dt)*time.Second > 4*365*24*time.Hour {
		dt = dts[r.Intn(3)]
	}
	s.t = s.t.Add(time.Duration(dt) * time.Second)
	s.ctx = s.ctx.WithBlockTime(s.t).WithBlockHeight(s.ctx.BlockHeight() + 1)
	panicked, msg := c.Recover(func() { hard.BeginBlocker(s.ctx, w.tApp.GetHardKeeper()) })
	if panicked {
		out.Violation("hard BeginBlocker panicked: " + msg)
	}
	post := w.observe(s.ctx)
	grew := false
	for i := range post.val {
		if post.val[i].Cmp(pre.val[i]) > 0 {
			grew = true
		}
	}
	s.emit(fmt.Sprintf("accrue|grew=%s", c.B(grew)), "accrue", 0, 0, bi(dt), true, true, pre, kapp.OK, bi(0), post, nil)
}

// ---- savings with interleaving denoms

func (w *mworld) savParties() []sdk.AccAddress { return append(append([]sdk.AccAddress{}, w.users...), w.earnAcc) }

func (w *mworld) observeSavings(ctx sdk.Context) (sobs, []string) {
	sk := w.tApp.GetSavingsKeeper()
	bk := w.tApp.GetBankKeeper()
	var o sobs
	var raw []string
	known := map[string]bool{}
	for _, p := range w.savParties() {
		known[p.String()] = true
		dep, found := sk.GetDeposit(ctx, p)
		o.has = append(o.has, found)
		var br, dr []*big.Int
		for _, dn := range w.denoms {
			br = append(br, bk.GetBalance(ctx, p, dn).Amount.BigInt())
			dr = append(dr, bi(0))
		}
		row := "x"
		if found {
			var es []string
			for _, coin := range dep.Amount {
				i := w.idx(coin.Denom)
				if i == 99 {
					panic("harness: savings deposit denom outside the universe")
				}
				es = append(es, fmt.Sprintf("%d:%s", i, coin.Amount.String()))
				dr[i] = new(big.Int).Add(dr[i], coin.Amount.BigInt())
			}
			row = strings.Join(es, "|")
			if len(es) == 0 {
				row = "e"
			}
		}
		raw = append(raw, row)
		o.bal = append(o.bal, br)
		o.dep = append(o.dep, dr)
	}
	sk.IterateDeposits(ctx, func(dp savingstypes.Deposit) bool {
		if !known[dp.Depositor.String()] {
			panic("harness: savings deposit outside the party set")
		}
		return false
	})
	for _, dn := range w.denoms {
		o.mod = append(o.mod, bk.GetBalance(ctx, w.savAcc, dn).Amount.BigInt())
	}
	for _, coin := range bk.GetAllBalances(ctx, w.savAcc) {
		if w.idx(coin.Denom) == 99 {
			panic("harness: savings module holds a denom outside the universe")
		}
	}
	return o, raw
}

func (s *mseq) savingsOp(r *c.Rng) {
	w, out := s.w, s.out
	sk := w.tApp.GetSavingsKeeper()
	srv := savingskeeper.NewMsgServerImpl(sk)
	pre, _ := w.observeSavings(s.ctx)
	a := r.Intn(nMU)
	kind := "dep"
	if pre.has[a] && r.Chance(55) || r.Chance(8) {
		kind = "wd"
	}
	// 1–4 denoms in sorted order; unsupported ones (bnb, usdx) rarely
	n := 1 + r.Intn(4)
	var picked []int
	for _, i := range r0perm(r, len(w.denoms)) {
		if len(picked) == n {
			break
		}
		if !w.savSup[i] && !r.Chance(10) {
			continue
		}
		if kind == "wd" && pre.dep[a][i].Sign() == 0 && !r.Chance(15) {
			continue
		}
		picked = append(picked, i)
	}
	sort.Ints(picked)
	var coins sdk.Coins
	for _, di := range picked {
		ref := pre.bal[a][di]
		if kind == "wd" {
			ref = pre.dep[a][di]
		}
		var x *big.Int
		switch r.Intn(8) {
		case 0:
			x = new(big.Int).Set(ref)
		case 1:
			x = new(big.Int).Add(ref, bi(1))
		case 2:
			x = clamp0(new(big.Int).Sub(ref, bi(1)))
		case 3:
			x = bi(r.Range(1, 3))
		default:
			x = scale(r)
			if ref.Sign() > 0 {
				x = new(big.Int).Add(r.BigBelow(new(big.Int).Add(new(big.Int).Quo(ref, bi(3)), bi(1))), bi(1))
			}
		}
		if x.Sign() > 0 {
			coins = append(coins, sdk.Coin{Denom: w.denoms[di], Amount: sdkmath.NewIntFromBigInt(x)})
		}
	}
	gen := "valid"
	if len(coins) == 0 {
		gen = "empty"
	} else if r.Chance(4) {
		switch r.Intn(3) {
		case 0:
			coins = append(coins, coins[0])
			gen = "duplicate"
		case 1:
			if len(coins) > 1 {
				coins[0], coins[len(coins)-1] = coins[len(coins)-1], coins[0]
				gen = "unsorted"
			}
		case 2:
			coins[0].Amount = sdkmath.ZeroInt()
			gen = "zero-amount"
		}
	}
	out.Note("multi-gen-sav-" + kind + "-" + gen)
	cls, err := kapp.Exec(s.ctx, func(ctx sdk.Context) error {
		if kind == "dep" {
			msg := savingstypes.NewMsgDeposit(w.users[a], coins)
			if e := msg.ValidateBasic(); e != nil {
				return e
			}
			_, e := srv.Deposit(sdk.WrapSDKContext(ctx), &msg)
			return e
		}
		msg := savingstypes.NewMsgWithdraw(w.users[a], coins)
		if e := msg.ValidateBasic(); e != nil {
			return e
		}
		_, e := srv.Withdraw(sdk.WrapSDKContext(ctx), &msg)
		return e
	})
	post, _ := w.observeSavings(s.ctx)
	if cls == kapp.Panic {
		out.Violation(fmt.Sprintf("savings %s panicked (several denoms): %v", kind, err))
	}
	var cf []string
	for _, cn := range coins {
		cf = append(cf, fmt.Sprintf("%d:%s", w.idx(cn.Denom), cn.Amount.String()))
	}
	sig := ""
	if cls == kapp.OK {
		// which of the denoms the record holds are touched: first / middle / last / all
		held, touched := 0, 0
		for i := range w.denoms {
			if pre.dep[a][i].Sign() > 0 {
				held++
				if post.dep[a][i].Cmp(pre.dep[a][i]) != 0 {
					touched++
				}
			}
		}
		sig = fmt.Sprintf("msav-%s|ok|n=%d|held=%d|touched=%d|has=%s", kind, len(coins), held, touched, c.B(post.has[a]))
	} else if err != nil {
		sig = fmt.Sprintf("msav-%s|%s|%s|%s", kind, cls, errKind(err), gen)
	}
	sup := make([]string, len(w.savSup))
	for i, b := range w.savSup {
		sup[i] = c.B(b)
	}
	fields := []string{kind, fmt.Sprint(a), c.Strs(cf), strings.Join(sup, ",")}
	fields = append(fields, pre.fields()...)
	fields = append(fields, "=>", string(cls))
	fields = append(fields, post.fields()...)
	out.Case(sig, "c11.sav", fields...)
}

func r0perm(r *c.Rng, n int) []int {
	p := make([]int, n)
	for i := range p {
		p[i] = i
	}
	for i := n - 1; i > 0; i-- {
		j := r.Intn(i + 1)
		p[i], p[j] = p[j], p[i]
	}
	return p
}

// after every operation: the savings state (solvency), the raw savings records, the registered invariants
func (s *mseq) after(where string) {
	so, raw := s.w.observeSavings(s.ctx)
	s.out.Case("", "c11.savstate", so.fields()...)
	s.out.Case("", "c11.savrec", strings.Join(raw, ";"))
	runInvariants(s.w.tApp, s.ctx, s.out, where)
}

func (w *mworld) fund(s *mseq, amt func() *big.Int) {
	for _, u := range w.users {
		for _, dn := range w.denoms {
			must(w.tApp.FundAccount(s.ctx, u, sdk.NewCoins(sdk.NewCoin(dn, sdkmath.NewIntFromBigInt(amt())))))
		}
	}
}

// corpus of the several-vault world, run first on every run whatever the seed: for several triples of
// vaults an account opens its three positions in each of the six orders (so the third deposit lands
// before, between and after the two existing denoms), with a second account in every vault; then a
// top-up, a partial and a full withdrawal of the middle position, a re-opening of it and full
// withdrawals of everything.
func (w *mworld) corpus(out *c.Out) {
	triples := [][3]int{{0, 2, 4}, {1, 3, 5}, {0, 1, 2}, {3, 4, 5}, {0, 3, 5}}
	perms := [][3]int{{0, 1, 2}, {0, 2, 1}, {1, 0, 2}, {1, 2, 0}, {2, 0, 1}, {2, 1, 0}}
	for ti, tr := range triples {
		for pi, pm := range perms {
			s := newMSeq(w, out)
			w.fund(s, func() *big.Int { return bi(5_000_000) })
			step := func(kind string, v, a int, x int64) {
				if x < 0 { // the account's whole value
					x = 0
					ek := w.tApp.GetEarnKeeper()
					if coin, err := ek.GetVaultAccountValue(s.ctx, w.denoms[v], w.users[a]); err == nil {
						x = coin.Amount.Int64()
					}
				}
				s.exec(kind, v, a, bi(x), w.denoms[v], w.strat[v], true, true, (a+1)%nMU)
				out.Note("multi-corpus-ops")
				s.after(fmt.Sprintf("multi-corpus triple=%d perm=%d", ti, pi))
			}
			for _, v := range tr {
				step("dep", v, 1, 700_000+int64(v))
			}
			for _, k := range pm {
				step("dep", tr[k], 0, 1_000_000+int64(k))
			}
			mid := tr[1]
			step("dep", mid, 0, 250_000)
			step("wd", mid, 0, 400_000)
			step("wd", mid, 0, 850_001)
			step("dep", mid, 0, 123_456)
			// a fourth position between / around the three
			for v := range w.denoms {
				if v != tr[0] && v != tr[1] && v != tr[2] && (v+pi)%2 == 0 {
					step("dep", v, 0, 333_333)
				}
			}
			for _, v := range tr {
				step("wd", v, 0, 1_500_000) // more than the account's value: refused
				step("wd", v, 0, -1)
				step("wd", v, 1, -1)
			}
		}
	}
}

func (w *mworld) seq(out *c.Out, seq int, r *c.Rng) {
	s := newMSeq(w, out)
	w.fund(s, func() *big.Int {
		amt := new(big.Int).Add(scale(r), bi(1000))
		if r.Chance(40) {
			amt = new(big.Int).Mul(amt, bi(1_000_000))
		}
		return amt
	})
	nops := c.Budget(70, 200)
	for i := 0; i < nops; i++ {
		switch k := r.Intn(100); {
		case k < 74:
			s.earnOp(r)
		case k < 80:
			s.accrue(r)
		default:
			s.savingsOp(r)
		}
		s.after(fmt.Sprintf("multi seq=%d op=%d", seq, i))
	}
}

// ---------------------------------------------------------------- pure stream: VaultShares.Add / Sub

const nPureDenoms = 10

func pureDenom(i int) string { return fmt.Sprintf("d%02d", i) }

func sharesStr(vs earntypes.VaultShares) string {
	if len(vs) == 0 {
		return "-"
	}
	es := make([]string, len(vs))
	for i, s := range vs {
		di := 99
		fmt.Sscanf(s.Denom, "d%02d", &di)
		es[i] = fmt.Sprintf("%d:%s", di, s.Amount.BigInt().String())
	}
	return strings.Join(es, "|")
}

func mkShare(i int, m *big.Int) earntypes.VaultShare {
	return earntypes.VaultShare{Denom: pureDenom(i), Amount: sdk.NewDecFromBigIntWithPrec(m, 18)}
}

func pureAmount(r *c.Rng) *big.Int {
	switch r.Intn(5) {
	case 0:
		return bi(r.Range(1, 5))
	case 1:
		return new(big.Int).Mul(bi(r.Range(1, 1000)), new(big.Int).Exp(bi(10), bi(18), nil))
	default:
		return new(big.Int).Add(r.BigBits(90), bi(1))
	}
}

func pureStream(out *c.Out, r *c.Rng) {
	n := c.Budget(6000, 200000)
	for k := 0; k < n; k++ {
		// A: a valid record (sorted, duplicate-free, positive) of 0–7 denoms, rarely damaged
		var A earntypes.VaultShares
		na := r.Intn(8)
		have := map[int]*big.Int{}
		for _, i := range r0perm(r, nPureDenoms)[:na] {
			have[i] = pureAmount(r)
		}
		for i := 0; i < nPureDenoms; i++ {
			if m, ok := have[i]; ok {
				A = append(A, mkShare(i, m))
			}
		}
		genA := "valid"
		if len(A) > 1 && r.Chance(4) {
			switch r.Intn(3) {
			case 0:
				A[0], A[len(A)-1] = A[len(A)-1], A[0]
				genA = "unsorted"
			case 1:
				A[1] = mkShare(r.Intn(nPureDenoms), bi(0))
				sort.Sort(A)
				genA = "zero-entry"
			case 2:
				A[1].Denom = A[0].Denom
				genA = "duplicate"
			}
		}
		op := "add"
		if r.Chance(45) {
			op = "sub"
		}
		// B: one share (what every keeper call passes) or several
		var B earntypes.VaultShares
		genB := "single"
		amtFor := func(i int) *big.Int {
			cur, ok := have[i]
			if op == "sub" && ok {
				switch r.Intn(6) {
				case 0:
					return new(big.Int).Set(cur) // whole position
				case 1:
					return new(big.Int).Add(cur, bi(1)) // one too many
				case 2:
					return bi(0)
				default:
					return new(big.Int).Add(r.BigBelow(cur), bi(1))
				}
			}
			if r.Chance(6) {
				return bi(0)
			}
			return pureAmount(r)
		}
		if r.Chance(60) {
			i := r.Intn(nPureDenoms)
			if op == "sub" && len(A) > 0 && r.Chance(85) {
				fmt.Sscanf(A[r.Intn(len(A))].Denom, "d%02d", &i)
			}
			B = earntypes.VaultShares{mkShare(i, amtFor(i))}
		} else {
			genB = "several"
			nb := 1 + r.Intn(5)
			pick := r0perm(r, nPureDenoms)[:nb]
			sort.Ints(pick)
			for _, i := range pick {
				if op == "sub" {
					if _, ok := have[i]; !ok && !r.Chance(10) {
						continue
					}
				}
				B = append(B, mkShare(i, amtFor(i)))
			}
			if len(B) > 1 && r.Chance(5) {
				B[0], B[len(B)-1] = B[len(B)-1], B[0]
				genB = "unsorted"
			} else if len(B) > 1 && r.Chance(3) {
				B[1].Denom = B[0].Denom
				genB = "duplicate"
			}
		}
		a0 := sharesStr(A)
		b0 := sharesStr(B)
		var res earntypes.VaultShares
		panicked, _ := c.Recover(func() {
			if op == "add" {
				res = A.Add(B...)
			} else {
				res = A.Sub(B...)
			}
		})
		cls := "ok"
		if panicked {
			cls, res = "panic", nil
		}
		// position of a single added denom relative to A's denoms
		pos := "-"
		if len(B) == 1 && genA == "valid" {
			bi_ := 99
			fmt.Sscanf(B[0].Denom, "d%02d", &bi_)
			below, above, same := 0, 0, false
			for i := range have {
				if i < bi_ {
					below++
				} else if i > bi_ {
					above++
				} else {
					same = true
				}
			}
			switch {
			case same:
				pos = "present"
			case below == 0 && above == 0:
				pos = "empty"
			case below == 0:
				pos = "before"
			case above == 0:
				pos = "after"
			default:
				pos = "between"
			}
		}
		out.Note("pure-" + op + "-" + genA + "-" + genB + "-" + pos + "-" + cls)
		out.Case(fmt.Sprintf("%s|%s|%s|%s|%s", op, genA, genB, pos, cls), "c11.shares", op, a0, b0, "=>", cls, sharesStr(res), sharesStr(A))
	}
}
