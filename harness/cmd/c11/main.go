// c11: correspondence harness for x/earn and x/savings (property C11).
// Drives the real keepers (earn Deposit/Withdraw on a savings-strategy vault and a hard-strategy
// vault, savings Deposit/Withdraw through the msg server, hard's BeginBlocker for interest accrual)
// and prints one self-contained case per operation: observed pre-state, operation, result class,
// observed post-state.  The registered invariants of earn (3) and savings (2) are evaluated on the
// real state after every operation.
package main

import (
	"fmt"
	"math/big"
	"strings"
	"time"

	sdkmath "cosmossdk.io/math"
	sdk "github.com/cosmos/cosmos-sdk/types"

	"github.com/kava-labs/kava/app"
	earnkeeper "github.com/kava-labs/kava/x/earn/keeper"
	earntypes "github.com/kava-labs/kava/x/earn/types"
	"github.com/kava-labs/kava/x/hard"
	hardtypes "github.com/kava-labs/kava/x/hard/types"
	pricefeedtypes "github.com/kava-labs/kava/x/pricefeed/types"
	savingskeeper "github.com/kava-labs/kava/x/savings/keeper"
	savingstypes "github.com/kava-labs/kava/x/savings/types"

	c "kavaverif/harness/common"
	"kavaverif/harness/kapp"
)

type vault struct {
	denom string
	strat earntypes.StrategyType
}

// vault 0: savings strategy, vault 1: hard strategy
var vaults = []vault{
	{"busd", earntypes.STRATEGY_TYPE_SAVINGS},
	{"usdx", earntypes.STRATEGY_TYPE_HARD},
}

// denom universe of the savings cases, in lexicographic order (index = model denom)
var savDenoms = []string{"busd", "ukava", "usdx"}
var savSupported = []bool{true, true, false}

const nUsers = 3

type world struct {
	tApp    app.TestApp
	base    sdk.Context
	users   []sdk.AccAddress
	earnAcc sdk.AccAddress
	savAcc  sdk.AccAddress
}

func must(err error) {
	if err != nil {
		panic(err)
	}
}

func d(s string) sdk.Dec { return sdk.MustNewDecFromStr(s) }

func mkWorld() *world {
	_, addrs := app.GeneratePrivKeyAddressPairs(nUsers + 2)
	far := kapp.GenTime.Add(20000 * 24 * time.Hour)
	pf := pricefeedtypes.GenesisState{
		Params: pricefeedtypes.Params{Markets: []pricefeedtypes.Market{
			{MarketID: "usdx:usd", BaseAsset: "usdx", QuoteAsset: "usd", Oracles: []sdk.AccAddress{}, Active: true},
			{MarketID: "bnb:usd", BaseAsset: "bnb", QuoteAsset: "usd", Oracles: []sdk.AccAddress{}, Active: true},
		}},
		PostedPrices: []pricefeedtypes.PostedPrice{
			{MarketID: "usdx:usd", OracleAddress: sdk.AccAddress{}, Price: d("1.00"), Expiry: far},
			{MarketID: "bnb:usd", OracleAddress: sdk.AccAddress{}, Price: d("10.00"), Expiry: far},
		},
	}
	irm := hardtypes.NewInterestRateModel(d("0.05"), d("0.5"), d("0.8"), d("1"))
	hardGS := hardtypes.NewGenesisState(hardtypes.NewParams(
		hardtypes.MoneyMarkets{
			hardtypes.NewMoneyMarket("usdx", hardtypes.NewBorrowLimit(false, d("0"), d("0.8")), "usdx:usd",
				sdkmath.NewInt(1000000), irm, d("0.05"), sdk.ZeroDec()),
			hardtypes.NewMoneyMarket("bnb", hardtypes.NewBorrowLimit(false, d("0"), d("0.8")), "bnb:usd",
				sdkmath.NewInt(100000000), irm, d("0.05"), sdk.ZeroDec()),
		}, sdk.NewDec(10)),
		hardtypes.DefaultAccumulationTimes, hardtypes.DefaultDeposits, hardtypes.DefaultBorrows,
		hardtypes.DefaultTotalSupplied, hardtypes.DefaultTotalBorrowed, hardtypes.DefaultTotalReserves,
	)
	savGS := savingstypes.NewGenesisState(savingstypes.NewParams([]string{"busd", "ukava"}), nil)
	earnGS := earntypes.NewGenesisState(earntypes.NewParams(earntypes.AllowedVaults{
		earntypes.NewAllowedVault(vaults[0].denom, earntypes.StrategyTypes{vaults[0].strat}, false, nil),
		earntypes.NewAllowedVault(vaults[1].denom, earntypes.StrategyTypes{vaults[1].strat}, false, nil),
	}), nil, nil)

	cdc := app.MakeEncodingConfig().Marshaler
	tApp, ctx := kapp.NewApp(app.GenesisState{
		pricefeedtypes.ModuleName: cdc.MustMarshalJSON(&pf),
		hardtypes.ModuleName:      cdc.MustMarshalJSON(&hardGS),
		savingstypes.ModuleName:   cdc.MustMarshalJSON(&savGS),
		earntypes.ModuleName:      cdc.MustMarshalJSON(&earnGS),
	})
	w := &world{tApp: tApp, base: ctx, users: addrs[:nUsers]}
	ak := tApp.GetAccountKeeper()
	w.earnAcc = ak.GetModuleAccount(ctx, earntypes.ModuleName).GetAddress()
	w.savAcc = ak.GetModuleAccount(ctx, savingstypes.ModuleAccountName).GetAddress()
	hk := tApp.GetHardKeeper()
	hard.BeginBlocker(ctx, hk)
	// an underlying market in which interest accrues: a large supplier and a borrower of the vault denom
	whale, borrower := addrs[nUsers], addrs[nUsers+1]
	must(tApp.FundAccount(ctx, whale, sdk.NewCoins(sdk.NewCoin("usdx", sdkmath.NewInt(200_000_000_000_000)))))
	must(tApp.FundAccount(ctx, borrower, sdk.NewCoins(sdk.NewCoin("bnb", sdkmath.NewInt(10_000_000_000_000_000)))))
	must(hk.Deposit(ctx, whale, sdk.NewCoins(sdk.NewCoin("usdx", sdkmath.NewInt(200_000_000_000_000)))))
	must(hk.Deposit(ctx, borrower, sdk.NewCoins(sdk.NewCoin("bnb", sdkmath.NewInt(10_000_000_000_000_000)))))
	must(hk.Borrow(ctx, borrower, sdk.NewCoins(sdk.NewCoin("usdx", sdkmath.NewInt(50_000_000_000_000)))))
	for _, u := range w.users {
		ak.SetAccount(ctx, ak.NewAccountWithAddress(ctx, u))
	}
	return w
}

// ---------------------------------------------------------------- earn observation

type vobs struct {
	found bool
	tot   *big.Int   // TotalShares mantissa
	sh    []*big.Int // per user share mantissa
	av    []*big.Int // GetVaultAccountValue per user (-1: error)
	val   *big.Int   // GetVaultTotalValue
	loose *big.Int   // bank balance of the earn module account
	bal   []*big.Int // bank balance per user
}

func (w *world) observeVault(ctx sdk.Context, v vault) vobs {
	ek := w.tApp.GetEarnKeeper()
	bk := w.tApp.GetBankKeeper()
	var o vobs
	rec, found := ek.GetVaultRecord(ctx, v.denom)
	o.found = found
	o.tot = big.NewInt(0)
	if found {
		o.tot = rec.TotalShares.Amount.BigInt()
	}
	for _, u := range w.users {
		s := big.NewInt(0)
		if sr, ok := ek.GetVaultShareRecord(ctx, u); ok {
			s = sr.Shares.AmountOf(v.denom).BigInt()
		}
		o.sh = append(o.sh, s)
		if coin, err := ek.GetVaultAccountValue(ctx, v.denom, u); err == nil {
			o.av = append(o.av, coin.Amount.BigInt())
		} else {
			o.av = append(o.av, big.NewInt(-1))
		}
		o.bal = append(o.bal, bk.GetBalance(ctx, u, v.denom).Amount.BigInt())
	}
	tv, err := ek.GetVaultTotalValue(ctx, v.denom)
	must(err)
	o.val = tv.Amount.BigInt()
	o.loose = bk.GetBalance(ctx, w.earnAcc, v.denom).Amount.BigInt()
	return o
}

func (o vobs) fields() []string {
	return []string{c.B(o.found), o.tot.String(), c.Ints(o.sh), c.Ints(o.av), o.val.String(), o.loose.String(), c.Ints(o.bal)}
}

func (w *world) observeEarn(ctx sdk.Context) []vobs {
	known := map[string]bool{}
	for _, u := range w.users {
		known[u.String()] = true
	}
	w.tApp.GetEarnKeeper().IterateVaultShareRecords(ctx, func(r earntypes.VaultShareRecord) bool {
		if !known[r.Depositor.String()] {
			panic("harness: share record outside the user set")
		}
		return false
	})
	return []vobs{w.observeVault(ctx, vaults[0]), w.observeVault(ctx, vaults[1])}
}

// ---------------------------------------------------------------- savings observation

type sobs struct {
	bal [][]*big.Int // account × denom (users…, earn module account)
	mod []*big.Int
	has []bool
	dep [][]*big.Int
}

func (w *world) savParties() []sdk.AccAddress { return append(append([]sdk.AccAddress{}, w.users...), w.earnAcc) }

func (w *world) observeSavings(ctx sdk.Context) sobs {
	sk := w.tApp.GetSavingsKeeper()
	bk := w.tApp.GetBankKeeper()
	var o sobs
	known := map[string]bool{}
	for _, p := range w.savParties() {
		known[p.String()] = true
		dep, found := sk.GetDeposit(ctx, p)
		o.has = append(o.has, found)
		var br, dr []*big.Int
		for _, dn := range savDenoms {
			br = append(br, bk.GetBalance(ctx, p, dn).Amount.BigInt())
			if found {
				dr = append(dr, dep.Amount.AmountOf(dn).BigInt())
			} else {
				dr = append(dr, big.NewInt(0))
			}
		}
		if found {
			for _, coin := range dep.Amount {
				if !contains(savDenoms, coin.Denom) {
					panic("harness: savings deposit denom outside the universe")
				}
			}
		}
		o.bal = append(o.bal, br)
		o.dep = append(o.dep, dr)
	}
	sk.IterateDeposits(ctx, func(dp savingstypes.Deposit) bool {
		if !known[dp.Depositor.String()] {
			panic("harness: savings deposit outside the party set")
		}
		return false
	})
	for _, dn := range savDenoms {
		o.mod = append(o.mod, bk.GetBalance(ctx, w.savAcc, dn).Amount.BigInt())
	}
	for _, coin := range bk.GetAllBalances(ctx, w.savAcc) {
		if !contains(savDenoms, coin.Denom) {
			panic("harness: savings module holds a denom outside the universe")
		}
	}
	return o
}

func contains(xs []string, x string) bool {
	for _, y := range xs {
		if x == y {
			return true
		}
	}
	return false
}

func matrix(m [][]*big.Int) string {
	rows := make([]string, len(m))
	for i, r := range m {
		rows[i] = c.Ints(r)
	}
	return strings.Join(rows, ";")
}

func bools(bs []bool) string {
	s := make([]string, len(bs))
	for i, b := range bs {
		s[i] = c.B(b)
	}
	return strings.Join(s, ",")
}

func (o sobs) fields() []string {
	return []string{matrix(o.bal), c.Ints(o.mod), bools(o.has), matrix(o.dep)}
}

// ---------------------------------------------------------------- invariants

func (w *world) invariants(ctx sdk.Context, out *c.Out, where string) {
	runInvariants(w.tApp, ctx, out, where)
}

// runInvariants evaluates the registered invariants of earn (3) and savings (2) on the real state
func runInvariants(tApp app.TestApp, ctx sdk.Context, out *c.Out, where string) {
	ek := tApp.GetEarnKeeper()
	sk := tApp.GetSavingsKeeper()
	type inv struct {
		name string
		f    sdk.Invariant
	}
	for _, i := range []inv{
		{"earn/vault-records", earnkeeper.VaultRecordsInvariant(ek)},
		{"earn/share-records", earnkeeper.ShareRecordsInvariant(ek)},
		{"earn/vault-shares", earnkeeper.VaultSharesInvariant(ek)},
		{"savings/deposits", savingskeeper.DepositsInvariant(sk)},
		{"savings/solvency", savingskeeper.SolvencyInvariant(sk)},
	} {
		if msg, broken := i.f(ctx); broken {
			out.Violation(fmt.Sprintf("invariant %s broken %s: %s", i.name, where, strings.TrimSpace(msg)))
		}
		out.Note("invariant-evals")
	}
}

// ---------------------------------------------------------------- generators

func bi(x int64) *big.Int { return big.NewInt(x) }

func isqrt(x *big.Int) *big.Int {
	if x.Sign() <= 0 {
		return bi(0)
	}
	return new(big.Int).Sqrt(x)
}

func pickBig(r *c.Rng, xs ...*big.Int) *big.Int { return new(big.Int).Set(xs[r.Intn(len(xs))]) }

func scale(r *c.Rng) *big.Int {
	switch r.Intn(6) {
	case 0:
		return bi(r.Range(1, 20))
	case 1:
		return bi(r.Range(1, 1000))
	case 2:
		return bi(r.Range(1000, 1_000_000))
	case 3:
		return bi(r.Range(1_000_000, 1_000_000_000_000))
	case 4:
		return new(big.Int).Exp(bi(10), bi(r.Range(0, 13)), nil)
	default:
		return r.BigBits(44)
	}
}

func clamp0(x *big.Int) *big.Int {
	if x.Sign() < 0 {
		return bi(0)
	}
	return x
}

// deposit amounts: small, mid, large, whole balance ±1, vault value ±1, zero
func depositAmount(r *c.Rng, o vobs, a int) (*big.Int, string) {
	b := o.bal[a]
	switch r.Intn(12) {
	case 0:
		return bi(0), "zero"
	case 1:
		return new(big.Int).Set(b), "balance"
	case 2:
		return new(big.Int).Add(b, bi(1)), "balance+1"
	case 3:
		return clamp0(new(big.Int).Sub(b, bi(1))), "balance-1"
	case 4:
		return clamp0(new(big.Int).Add(o.val, bi(r.Range(-1, 1)))), "vault-value"
	case 5:
		return bi(r.Range(1, 3)), "tiny"
	default:
		x := scale(r)
		if b.Sign() > 0 && x.Cmp(b) > 0 && r.Chance(85) {
			x = new(big.Int).Add(r.BigBelow(b), bi(1))
		}
		return x, "random"
	}
}

// withdraw amounts: full, over-sized, dust-leaving (around the dust boundary of the sweep), partial
func withdrawAmount(r *c.Rng, o vobs, a int) (*big.Int, string) {
	av := o.av[a]
	if av.Sign() < 0 {
		av = bi(0)
	}
	sq := isqrt(o.val)
	// remaining value r is swept when (V − amt)·r_shares/T < 1; for a holder of most of the vault
	// that is r ≲ √V, otherwise r ≲ V/(V − av)
	others := new(big.Int).Sub(o.val, av)
	ratio := bi(1)
	if others.Sign() > 0 {
		ratio = new(big.Int).Quo(o.val, others)
	}
	switch r.Intn(14) {
	case 0:
		return bi(0), "zero"
	case 1, 2:
		return new(big.Int).Set(av), "full"
	case 3:
		return new(big.Int).Add(av, bi(1)), "full+1"
	case 4:
		return new(big.Int).Add(av, scale(r)), "oversized"
	case 5:
		return clamp0(new(big.Int).Sub(av, bi(r.Range(1, 3)))), "leave-1..3"
	case 6:
		return clamp0(new(big.Int).Sub(av, new(big.Int).Add(sq, bi(r.Range(-2, 2))))), "leave-sqrt"
	case 7:
		return clamp0(new(big.Int).Sub(av, new(big.Int).Add(ratio, bi(r.Range(-1, 2))))), "leave-ratio"
	case 8:
		return clamp0(new(big.Int).Sub(av, r.BigBelow(new(big.Int).Add(sq, bi(2))))), "leave-below-sqrt"
	case 9:
		return bi(r.Range(1, 3)), "tiny"
	case 10:
		return new(big.Int).Add(o.val, bi(r.Range(-1, 1))), "vault-value"
	default:
		if av.Sign() > 0 {
			return new(big.Int).Add(r.BigBelow(av), bi(1)), "partial"
		}
		return scale(r), "random"
	}
}

// ---------------------------------------------------------------- sequences

type seqState struct {
	w   *world
	out *c.Out
	ctx sdk.Context
	t   time.Time
}

func (s *seqState) earnOp(r *c.Rng) {
	w, out := s.w, s.out
	pre := w.observeEarn(s.ctx)
	vi := r.Intn(2)
	a := r.Intn(nUsers)
	kind := "dep"
	if r.Chance(55) {
		kind = "wd"
	}
	// holders mostly withdraw, empty vaults mostly receive deposits
	if pre[vi].sh[a].Sign() == 0 && r.Chance(75) {
		kind = "dep"
	}
	v := vaults[vi]
	denom, strat := v.denom, v.strat
	vaultOk, stratOk := true, true
	if r.Chance(3) { // not an allowed vault
		denom, vaultOk = "ukava", false
	} else if r.Chance(3) { // strategy not allowed for this vault
		strat, stratOk = vaults[1-vi].strat, false
	}
	var x *big.Int
	var gen string
	if kind == "dep" {
		x, gen = depositAmount(r, pre[vi], a)
	} else {
		x, gen = withdrawAmount(r, pre[vi], a)
	}
	out.Note("gen-" + kind + "-" + gen)
	s.execEarn(pre, kind, vi, a, x, denom, strat, vaultOk, stratOk)
}

// execEarn runs one earn keeper call on the real keeper and writes its case line
func (s *seqState) execEarn(pre []vobs, kind string, vi, a int, x *big.Int, denom string, strat earntypes.StrategyType, vaultOk, stratOk bool) {
	w, out := s.w, s.out
	ek := w.tApp.GetEarnKeeper()
	v := vaults[vi]
	coin := sdk.Coin{Denom: denom, Amount: sdkmath.NewIntFromBigInt(x)}
	payout := bi(0)
	cls, err := kapp.Exec(s.ctx, func(ctx sdk.Context) error {
		if kind == "dep" {
			return ek.Deposit(ctx, w.users[a], coin, strat)
		}
		got, e := ek.Withdraw(ctx, w.users[a], coin, strat)
		if e == nil {
			payout = got.Amount.BigInt()
		}
		return e
	})
	if cls == kapp.Err && kind == "wd" && strings.Contains(err.Error(), "failed to withdraw from strategy") &&
		strings.Contains(err.Error(), "insufficient funds") {
		// x/hard cannot pay (lent out): outside the model's envelope (checks/C11.json assumptions)
		out.Note("excluded-hard-liquidity-shortage")
		return
	}
	post := w.observeEarn(s.ctx)
	// deposit-then-immediately-withdraw probe on a discarded branch: withdraw the account's whole value
	probe := bi(-1)
	if kind == "dep" && cls == kapp.OK && vaultOk {
		cctx, _ := s.ctx.CacheContext()
		if val, e := ek.GetVaultAccountValue(cctx, v.denom, w.users[a]); e == nil && val.Amount.IsPositive() {
			pcls, _ := kapp.Exec(cctx, func(ctx sdk.Context) error {
				got, e := ek.Withdraw(ctx, w.users[a], val, v.strat)
				if e == nil {
					probe = got.Amount.BigInt()
				}
				return e
			})
			if pcls == kapp.Panic {
				out.Violation(fmt.Sprintf("earn Withdraw panicked in the deposit-withdraw probe (vault %s)", v.denom))
			}
		}
	}
	if cls == kapp.Panic {
		out.Violation(fmt.Sprintf("earn %s panicked: %v", kind, err))
	}
	// branch signature
	sig := ""
	if cls == kapp.OK {
		p, q := pre[vi], post[vi]
		sig = fmt.Sprintf("%s|%s|v%d|fresh=%s|others=%s", kind, cls, vi, c.B(!p.found), c.B(p.tot.Cmp(p.sh[a]) != 0))
		if kind == "wd" {
			swept := q.sh[a].Sign() == 0
			sig += fmt.Sprintf("|empty=%s|deleted=%s|zeropay=%s|stranded=%s|exact=%s", c.B(swept), c.B(!q.found),
				c.B(payout.Sign() == 0), c.B(!q.found && q.val.Sign() > 0), c.B(payout.Cmp(x) == 0))
			if !q.found && q.val.Sign() > 0 {
				out.Note("withdraw-left-stranded-value")
			}
		} else {
			sig += fmt.Sprintf("|stranded=%s|pricegt1=%s", c.B(!p.found && p.val.Sign() > 0),
				c.B(p.found && new(big.Int).Mul(p.val, big.NewInt(1e18)).Cmp(p.tot) > 0))
		}
	} else if err != nil {
		out.Note("err-" + kind + "-" + errKind(err))
		sig = fmt.Sprintf("%s|%s|%s", kind, cls, errKind(err))
	}
	fields := []string{kind, fmt.Sprint(vi), fmt.Sprint(a), x.String(), c.B(vaultOk), c.B(stratOk), "1"}
	fields = append(fields, pre[0].fields()...)
	fields = append(fields, pre[1].fields()...)
	fields = append(fields, "=>", string(cls), payout.String(), probe.String())
	fields = append(fields, post[0].fields()...)
	fields = append(fields, post[1].fields()...)
	out.Case(sig, "c11.earn", fields...)
}

func errKind(err error) string {
	e := err.Error()
	for _, k := range []string{"invalid vault denom", "insufficient amount", "invalid vault strategy", "vault record not found",
		"vault share record not found", "share count is zero", "total value of vault is zero", "less", "insufficient funds",
		"invalid deposit denom", "no deposit found", "invalid withdraw denom", "invalid coins"} {
		if strings.Contains(e, k) {
			return strings.ReplaceAll(k, " ", "-")
		}
	}
	return "other"
}

func (s *seqState) accrue(r *c.Rng) {
	w, out := s.w, s.out
	pre := w.observeEarn(s.ctx)
	dts := []int64{1, 60, 3600, 86400, 30 * 86400, 365 * 86400}
	dt := dts[r.Intn(len(dts))]
	// keep the underlying market liquid (assumption of the model): at most 4 simulated years per
	// sequence, after that only short steps
	if s.t.Sub(kapp.GenTime)+time.Duration(dt)*time.Second > 4*365*24*time.Hour {
		dt = dts[r.Intn(4)]
	}
	s.t = s.t.Add(time.Duration(dt) * time.Second)
	s.ctx = s.ctx.WithBlockTime(s.t).WithBlockHeight(s.ctx.BlockHeight() + 1)
	panicked, msg := c.Recover(func() { hard.BeginBlocker(s.ctx, w.tApp.GetHardKeeper()) })
	if panicked {
		out.Violation("hard BeginBlocker panicked: " + msg)
	}
	post := w.observeEarn(s.ctx)
	grew := post[1].val.Cmp(pre[1].val) > 0
	sig := fmt.Sprintf("accrue|grew=%s|holders=%s", c.B(grew), c.B(pre[1].found))
	fields := []string{"accrue", "1", "0", fmt.Sprint(dt), "1", "1", "1"}
	fields = append(fields, pre[0].fields()...)
	fields = append(fields, pre[1].fields()...)
	fields = append(fields, "=>", "ok", "0", "-1")
	fields = append(fields, post[0].fields()...)
	fields = append(fields, post[1].fields()...)
	out.Case(sig, "c11.earn", fields...)
}

func (s *seqState) savingsOp(r *c.Rng) {
	w, out := s.w, s.out
	sk := w.tApp.GetSavingsKeeper()
	srv := savingskeeper.NewMsgServerImpl(sk)
	pre := w.observeSavings(s.ctx)
	a := r.Intn(nUsers)
	kind := "dep"
	if pre.has[a] && r.Chance(60) || r.Chance(10) {
		kind = "wd"
	}
	// coins: 1–2 denoms, boundary-biased amounts
	var coins sdk.Coins
	gen := "valid"
	n := 1
	if r.Chance(35) {
		n = 2
	}
	first := r.Intn(len(savDenoms))
	for i := 0; i < n; i++ {
		di := (first + i) % len(savDenoms)
		if n == 2 && i == 1 && di < first { // keep sorted
			continue
		}
		var ref *big.Int
		if kind == "dep" {
			ref = pre.bal[a][di]
		} else {
			ref = pre.dep[a][di]
		}
		var x *big.Int
		switch r.Intn(8) {
		case 0:
			x = new(big.Int).Set(ref)
		case 1:
			x = new(big.Int).Add(ref, bi(1))
		case 2:
			x = clamp0(new(big.Int).Sub(ref, bi(1)))
		case 3:
			x = bi(r.Range(1, 3))
		case 4:
			x = new(big.Int).Add(ref, scale(r))
		default:
			if ref.Sign() > 0 {
				x = new(big.Int).Add(r.BigBelow(ref), bi(1))
			} else {
				x = scale(r)
			}
		}
		coins = append(coins, sdk.Coin{Denom: savDenoms[di], Amount: sdkmath.NewIntFromBigInt(x)})
	}
	// keep only supported denoms most of the time
	if r.Chance(80) {
		var cs sdk.Coins
		for _, cn := range coins {
			if cn.Denom != "usdx" {
				cs = append(cs, cn)
			}
		}
		if len(cs) > 0 {
			coins = cs
		}
	}
	// drop zero amounts unless the malformed stream keeps them
	malformed := r.Chance(6)
	if malformed {
		switch r.Intn(4) {
		case 0:
			coins = sdk.Coins{}
			gen = "empty"
		case 1:
			if len(coins) > 0 {
				coins = append(coins, coins[0]) // duplicate denom
				gen = "duplicate"
			}
		case 2:
			if len(coins) == 1 {
				other := "busd"
				if coins[0].Denom == "busd" {
					other = "ukava"
				}
				coins = append(coins, sdk.Coin{Denom: other, Amount: sdkmath.NewInt(r.Range(1, 5))})
				if coins[0].Denom < coins[1].Denom {
					coins[0], coins[1] = coins[1], coins[0]
				}
				gen = "unsorted"
			} else if len(coins) == 2 {
				coins[0], coins[1] = coins[1], coins[0]
				gen = "unsorted"
			}
		case 3:
			if len(coins) > 0 {
				coins[0].Amount = sdkmath.ZeroInt()
				gen = "zero-amount"
			}
		}
	} else {
		var cs sdk.Coins
		for _, cn := range coins {
			if cn.Amount.IsPositive() {
				cs = append(cs, cn)
			}
		}
		coins = cs
		if len(coins) == 0 {
			gen = "empty"
		}
	}
	out.Note("gen-sav-" + kind + "-" + gen)
	cls, err := kapp.Exec(s.ctx, func(ctx sdk.Context) error {
		if kind == "dep" {
			msg := savingstypes.NewMsgDeposit(w.users[a], coins)
			if e := msg.ValidateBasic(); e != nil {
				return e
			}
			_, e := srv.Deposit(sdk.WrapSDKContext(ctx), &msg)
			return e
		}
		msg := savingstypes.NewMsgWithdraw(w.users[a], coins)
		if e := msg.ValidateBasic(); e != nil {
			return e
		}
		_, e := srv.Withdraw(sdk.WrapSDKContext(ctx), &msg)
		return e
	})
	post := w.observeSavings(s.ctx)
	if cls == kapp.Panic {
		out.Violation(fmt.Sprintf("savings %s panicked: %v", kind, err))
	}
	var cf []string
	for _, cn := range coins {
		di := 0
		for i, dn := range savDenoms {
			if dn == cn.Denom {
				di = i
			}
		}
		cf = append(cf, fmt.Sprintf("%d:%s", di, cn.Amount.String()))
	}
	sig := ""
	if cls == kapp.OK {
		capped := false
		if kind == "wd" {
			for _, cn := range coins {
				for i, dn := range savDenoms {
					if dn == cn.Denom && cn.Amount.BigInt().Cmp(pre.dep[a][i]) > 0 {
						capped = true
					}
				}
			}
		}
		sig = fmt.Sprintf("sav-%s|ok|n=%d|had=%s|has=%s|capped=%s", kind, len(coins), c.B(pre.has[a]), c.B(post.has[a]), c.B(capped))
	} else if err != nil {
		sig = fmt.Sprintf("sav-%s|%s|%s|%s", kind, cls, errKind(err), gen)
	}
	sup := make([]string, len(savSupported))
	for i, b := range savSupported {
		sup[i] = c.B(b)
	}
	fields := []string{kind, fmt.Sprint(a), c.Strs(cf), strings.Join(sup, ",")}
	fields = append(fields, pre.fields()...)
	fields = append(fields, "=>", string(cls))
	fields = append(fields, post.fields()...)
	out.Case(sig, "c11.sav", fields...)
}

// corpus: the minimal witness of findings/C11-dust-sweep-strands-value.md on both vaults, run first
// on every run: A deposits 1 000 000 and withdraws 999 001 (the rest is swept as dust and stays
// in the strategy), B deposits 1 (and could withdraw 1000).
func (w *world) corpus(out *c.Out) {
	ctx, _ := w.base.CacheContext()
	s := &seqState{w: w, out: out, ctx: ctx, t: kapp.GenTime}
	for _, u := range w.users {
		for _, v := range vaults {
			must(w.tApp.FundAccount(s.ctx, u, sdk.NewCoins(sdk.NewCoin(v.denom, sdkmath.NewInt(2_000_000)))))
		}
	}
	for vi, v := range vaults {
		for _, op := range []struct {
			kind string
			a    int
			x    int64
		}{{"dep", 0, 1_000_000}, {"wd", 0, 999_001}, {"dep", 1, 1}, {"wd", 1, 1000}} {
			s.execEarn(w.observeEarn(s.ctx), op.kind, vi, op.a, bi(op.x), v.denom, v.strat, true, true)
			out.Note("corpus-ops")
			w.invariants(s.ctx, out, "corpus")
		}
	}
}

func (w *world) seq(out *c.Out, seq int, r *c.Rng) {
	ctx, _ := w.base.CacheContext()
	s := &seqState{w: w, out: out, ctx: ctx, t: kapp.GenTime}
	// initial funding of the users through the real bank (reachable states only)
	for _, u := range w.users {
		for _, dn := range savDenoms {
			amt := scale(r)
			if r.Chance(30) {
				amt = new(big.Int).Mul(amt, bi(1_000_000))
			}
			must(w.tApp.FundAccount(s.ctx, u, sdk.NewCoins(sdk.NewCoin(dn, sdkmath.NewIntFromBigInt(amt)))))
		}
	}
	nops := c.Budget(60, 200)
	for i := 0; i < nops; i++ {
		switch k := r.Intn(100); {
		case k < 62:
			s.earnOp(r)
		case k < 74:
			s.accrue(r)
		default:
			s.savingsOp(r)
		}
		// the savings state after every operation (earn's savings strategy moves it too)
		so := w.observeSavings(s.ctx)
		out.Case("", "c11.savstate", so.fields()...)
		w.invariants(s.ctx, out, fmt.Sprintf("seq=%d op=%d", seq, i))
	}
}

func main() {
	out := c.NewOut(c.OutPath())
	defer out.Close()
	r := c.NewRng(c.Seed())
	n := c.Budget(96, 2000)
	// app.NewTestApp() rewrites the global sdk.Config (SetSDKConfig) on every call, which races with
	// workers that are already running: build all worlds first, sequentially.
	workers := c.Workers()
	if workers > n {
		workers = n
	}
	pool := make(chan *world, workers)
	for i := 0; i < workers; i++ {
		pool <- mkWorld()
	}
	w0 := <-pool
	w0.corpus(out)
	// app wiring the savings clause rests on: "the module account balance always equals the sum of all recorded
	// deposits" can only hold if nobody can simply SEND coins to the savings module account, i.e. if it is a
	// blocked address of x/bank (app.go loadBlockedMaccAddrs).  Try it with a real bank send on a discarded branch.
	{
		cx, _ := w0.base.CacheContext()
		bk := w0.tApp.GetBankKeeper()
		donor := w0.users[0]
		_ = w0.tApp.FundAccount(cx, donor, sdk.NewCoins(sdk.NewInt64Coin("ukava", 7)))
		blocked := bk.BlockedAddr(w0.savAcc)
		var sendErr error
		if !blocked { // what the bank msg server does: refuse blocked recipients, then SendCoins
			sendErr = bk.SendCoins(cx, donor, w0.savAcc, sdk.NewCoins(sdk.NewInt64Coin("ukava", 7)))
		}
		if !blocked && sendErr == nil {
			out.Violation("C11 app wiring: the savings module account is not a blocked address of x/bank: a plain MsgSend of 7ukava to it succeeds and the module account then holds more than the sum of all recorded deposits")
		}
	}
	pool <- w0
	kapp.RunSeqs(n, workers, r, func() *world { return <-pool }, func(w *world, seq int, r *c.Rng) { w.seq(out, seq, r) })

	// part 2: the several-vault world (multi.go) — corpus, then random sequences — and the pure stream
	nm := c.Budget(56, 1500)
	mworkers := c.Workers()
	if mworkers > nm {
		mworkers = nm
	}
	mpool := make(chan *mworld, mworkers)
	for i := 0; i < mworkers; i++ {
		mpool <- mkMWorld()
	}
	m0 := <-mpool
	m0.corpus(out)
	mpool <- m0
	rm := r.Fork(0x4d554c5449)
	kapp.RunSeqs(nm, mworkers, rm, func() *mworld { return <-mpool }, func(w *mworld, seq int, r *c.Rng) { w.seq(out, seq, r) })
	pureStream(out, r.Fork(0x50555245))
}
