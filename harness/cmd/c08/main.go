// c08: correspondence harness for x/hard (property C08).
// Drives the real keeper (deposit / withdraw / borrow / repay by owner and third party / keeper liquidation /
// begin blocker with price moves and time gaps) over 4 users x 3 denoms (conversion factors 10^6, 10^8, 10^18)
// and prints one self-contained case per operation: configuration, observed pre-state, operation,
// result class, observed post-state, auctions started, synced positions before/after, and the result of
// an immediate liquidation probe (executed in a discarded cache context) after every accepted borrow/withdraw.
package main

import (
	"fmt"
	"math/big"
	"strconv"
	"strings"
	"time"

	errorsmod "cosmossdk.io/errors"
	sdkmath "cosmossdk.io/math"
	sdk "github.com/cosmos/cosmos-sdk/types"

	"github.com/kava-labs/kava/app"
	auctiontypes "github.com/kava-labs/kava/x/auction/types"
	"github.com/kava-labs/kava/x/hard"
	hardkeeper "github.com/kava-labs/kava/x/hard/keeper"
	hardtypes "github.com/kava-labs/kava/x/hard/types"
	pricefeedtypes "github.com/kava-labs/kava/x/pricefeed/types"

	c "kavaverif/harness/common"
	"kavaverif/harness/kapp"
)

var denoms = []string{"dena", "denb", "denc"}
var cfExp = []int{6, 8, 18}

const nUsers = 4

func pow10(n int) *big.Int   { return new(big.Int).Exp(big.NewInt(10), big.NewInt(int64(n)), nil) }
func cfOf(d int) sdkmath.Int { return sdkmath.NewIntFromBigInt(pow10(cfExp[d])) }
func marketID(d int) string  { return denoms[d] + ":usd" }
func dec(s string) sdk.Dec   { return sdk.MustNewDecFromStr(s) }
func bi(x int64) *big.Int    { return big.NewInt(x) }

type world struct {
	tApp   app.TestApp
	base   sdk.Context
	users  []sdk.AccAddress
	oracle sdk.AccAddress
}

func mkWorld() *world {
	_, addrs := app.GeneratePrivKeyAddressPairs(nUsers + 1)
	var markets []pricefeedtypes.Market
	var posted []pricefeedtypes.PostedPrice
	for d := range denoms {
		markets = append(markets, pricefeedtypes.Market{MarketID: marketID(d), BaseAsset: denoms[d], QuoteAsset: "usd", Oracles: []sdk.AccAddress{}, Active: true})
		posted = append(posted, pricefeedtypes.PostedPrice{MarketID: marketID(d), OracleAddress: sdk.AccAddress{}, Price: dec("1.0"), Expiry: kapp.GenTime.Add(1000000 * time.Hour)})
	}
	pfGS := pricefeedtypes.GenesisState{Params: pricefeedtypes.Params{Markets: markets}, PostedPrices: posted}
	cdc := app.MakeEncodingConfig().Marshaler
	tApp2, ctx := kapp.NewApp(app.GenesisState{pricefeedtypes.ModuleName: cdc.MustMarshalJSON(&pfGS)})
	return &world{tApp: tApp2, base: ctx, users: addrs[:nUsers], oracle: sdk.AccAddress{}}
}

// ---------------------------------------------------------------- configuration of one sequence

type cfgT struct {
	mms       []hardtypes.MoneyMarket
	prices    []sdk.Dec
	minBorrow sdk.Dec
}

// "0": a supply-only asset (deposits of it add nothing to the borrow limit; params validation allows it)
var ltvPool = []string{"0.5", "0.8", "0.9", "0.75", "1.0", "0.333333333333333333", "0.666666666666666667", "0", "0.5", "0.8"}
var rfPool = []string{"0", "0.05", "0.5", "1.0", "0.025"}
var krPool = []string{"0", "0.05", "0.01", "1.0", "0.333333333333333333"}
var pricePool = []string{"1.0", "2.0", "1.000000000000000001", "0.333333333333333333", "10.5", "1234.567890123456789012", "0.000001", "0.999999999999999999", "25000.01", "3.141592653589793238"}
var subUnitPricePool = []string{"0.333333333333333333", "0.999999999999999999", "1.000000000000000001", "0.5", "0.25", "0.123456789012345678", "0.7", "1.5"}
var minBorrowPool = []string{"0", "0", "0.5", "10", "0.000000000000000001"}

func (w *world) randomCfg(r *c.Rng) cfgT {
	var cf cfgT
	for d := range denoms {
		model := hardtypes.NewInterestRateModel(dec(c.Pick(r, []string{"0", "0.05", "0.02"})), dec(c.Pick(r, []string{"0.1", "1.0", "2.0", "0"})),
			dec(c.Pick(r, []string{"0.8", "0.5", "1.0"})), dec(c.Pick(r, []string{"0.5", "10", "0"})))
		hasMax := r.Chance(12)
		maxLimit := sdk.NewDecFromInt(cfOf(d).MulRaw(r.Range(1, 2000)))
		mm := hardtypes.NewMoneyMarket(denoms[d], hardtypes.NewBorrowLimit(hasMax, maxLimit, dec(c.Pick(r, ltvPool))), marketID(d), cfOf(d),
			model, dec(c.Pick(r, rfPool)), dec(c.Pick(r, krPool)))
		cf.mms = append(cf.mms, mm)
		price := dec(c.Pick(r, pricePool))
		if cfExp[d] == 18 && r.Chance(50) { // one unit is worth less than one ulp of value: every rounding case occurs
			price = dec(c.Pick(r, subUnitPricePool))
		}
		cf.prices = append(cf.prices, price)
	}
	cf.minBorrow = dec(c.Pick(r, minBorrowPool))
	return cf
}

func (w *world) applyCfg(ctx sdk.Context, cf cfgT) {
	k := w.tApp.GetHardKeeper()
	hp := hardtypes.NewParams(cf.mms, cf.minBorrow)
	kapp.SetParams(w.tApp, ctx, "hard", &hp, func() { k.SetParams(ctx, hp) })
	for _, mm := range cf.mms {
		k.SetMoneyMarket(ctx, mm.Denom, mm)
	}
	for d := range denoms {
		w.setPrice(ctx, d, cf.prices[d])
	}
}

func (w *world) setPrice(ctx sdk.Context, d int, p sdk.Dec) {
	pk := w.tApp.GetPriceFeedKeeper()
	_, err := pk.SetPrice(ctx, w.oracle, marketID(d), p, ctx.BlockTime().Add(1000000*time.Hour))
	must(err)
	must(pk.SetCurrentPrices(ctx, marketID(d)))
}

// ---------------------------------------------------------------- money markets listed / changed / delisted by the params

// the hard params' entry for denom d (what governance last decided), if any
func (s *seqT) paramsMarket(d int) (hardtypes.MoneyMarket, bool) {
	var stored hardtypes.Params
	kapp.ReadParams(s.w.tApp, s.ctx, "hard", &stored)
	for _, mm := range stored.MoneyMarkets {
		if mm.Denom == denoms[d] {
			return mm, true
		}
	}
	return hardtypes.MoneyMarket{}, false
}

// market returns the money market the keeper works with for denom d and how the denom is listed:
//
//	'a' in the store and in the params, equal      'c' in both, the params differ (the begin blocker accrues with the
//	'd' only in the store (the begin blocker accrues with it, then deletes it)        store's one, then replaces it)
//	'r' only in the params (the coming begin blocker lists it, then accrues with it; user messages do not see it yet)
//	's' in neither: no money market, the begin blocker skips the denom, user messages fail on it
//
// For 's' (and for 'r' outside the begin blocker) the last market the denom had is returned as a placeholder.
func (s *seqT) market(d int, forBegin bool) (hardtypes.MoneyMarket, byte) {
	st, inStore := s.w.tApp.GetHardKeeper().GetMoneyMarket(s.ctx, denoms[d])
	pm, inParams := s.paramsMarket(d)
	switch {
	case inStore && inParams && st.Equal(pm):
		s.lastMM[d] = &st
		return st, 'a'
	case inStore && inParams:
		s.lastMM[d] = &st
		return st, 'c'
	case inStore:
		s.lastMM[d] = &st
		return st, 'd'
	case inParams && forBegin:
		return pm, 'r'
	}
	if s.lastMM[d] == nil {
		panic("harness: denom never had a money market")
	}
	if inParams {
		return *s.lastMM[d], 'R' // listed by the params, not yet in the store: still unlisted for user messages
	}
	return *s.lastMM[d], 's'
}

func (s *seqT) listed(d int) bool {
	_, ok := s.w.tApp.GetHardKeeper().GetMoneyMarket(s.ctx, denoms[d])
	return ok
}

// configuration of one case: per denom the market the operation works with (see market), the current price
// (0 for a denom without a money market: the keeper cannot value it), the listing modes and the unlisted flags
func (s *seqT) cfgString(forBegin bool) (cfgS, minB, modes string, unlisted []bool) {
	k := s.w.tApp.GetHardKeeper()
	pk := s.w.tApp.GetPriceFeedKeeper()
	var ms []string
	for d := range denoms {
		mm, mode := s.market(d, forBegin)
		un := mode == 's' || mode == 'R'
		price := "0"
		if !un {
			if cp, err := pk.GetCurrentPrice(s.ctx, mm.SpotMarketID); err == nil {
				price = cp.Price.BigInt().String()
			}
		}
		if mode == 'R' {
			mode = 's'
		}
		modes += string(mode)
		unlisted = append(unlisted, un)
		ms = append(ms, strings.Join([]string{mm.ConversionFactor.String(), price, mm.BorrowLimit.LoanToValue.BigInt().String(),
			mm.ReserveFactor.BigInt().String(), mm.KeeperRewardPercentage.BigInt().String(), c.B(mm.BorrowLimit.HasMaxLimit),
			mm.BorrowLimit.MaximumLimit.BigInt().String()}, ","))
	}
	return strings.Join(ms, ";"), k.GetMinimumBorrowUSDValue(s.ctx).BigInt().String(), modes, unlisted
}

// ---------------------------------------------------------------- observation

type obs struct {
	dep, bor, bal                      [][]*big.Int
	depIdx, borIdx                     [][]string
	supIdx, brwIdx, accr               []string
	supplied, borrowed, reserves, cash []*big.Int
}

func amounts(cs sdk.Coins) []*big.Int {
	out := make([]*big.Int, len(denoms))
	known := 0
	for d := range denoms {
		out[d] = cs.AmountOf(denoms[d]).BigInt()
		if out[d].Sign() != 0 {
			known++
		}
	}
	if known != len(cs) {
		// tolerated for bank balances (ukava etc.), checked by callers for hard records
	}
	return out
}

func (w *world) observe(ctx sdk.Context) obs {
	k := w.tApp.GetHardKeeper()
	bk := w.tApp.GetBankKeeper()
	var o obs
	for _, u := range w.users {
		dp, _ := k.GetDeposit(ctx, u)
		br, _ := k.GetBorrow(ctx, u)
		o.dep = append(o.dep, amounts(dp.Amount))
		o.bor = append(o.bor, amounts(br.Amount))
		di, bix := make([]string, len(denoms)), make([]string, len(denoms))
		for d := range denoms {
			di[d], bix[d] = "n", "n"
			if v, ok := dp.Index.GetInterestFactor(denoms[d]); ok {
				di[d] = v.BigInt().String()
			}
			if v, ok := br.Index.GetInterestFactor(denoms[d]); ok {
				bix[d] = v.BigInt().String()
			}
		}
		o.depIdx = append(o.depIdx, di)
		o.borIdx = append(o.borIdx, bix)
		o.bal = append(o.bal, amounts(bk.SpendableCoins(ctx, u)))
	}
	for d := range denoms {
		s, b, a := "n", "n", "n"
		if v, ok := k.GetSupplyInterestFactor(ctx, denoms[d]); ok {
			s = v.BigInt().String()
		}
		if v, ok := k.GetBorrowInterestFactor(ctx, denoms[d]); ok {
			b = v.BigInt().String()
		}
		if t, ok := k.GetPreviousAccrualTime(ctx, denoms[d]); ok {
			a = strconv.FormatInt(t.Unix(), 10)
		}
		o.supIdx, o.brwIdx, o.accr = append(o.supIdx, s), append(o.brwIdx, b), append(o.accr, a)
	}
	sup, _ := k.GetSuppliedCoins(ctx)
	brw, _ := k.GetBorrowedCoins(ctx)
	res, _ := k.GetTotalReserves(ctx)
	o.supplied, o.borrowed, o.reserves = amounts(sup), amounts(brw), amounts(res)
	macc := w.tApp.GetAccountKeeper().GetModuleAccount(ctx, hardtypes.ModuleAccountName)
	o.cash = amounts(bk.GetAllBalances(ctx, macc.GetAddress()))
	// every record of the module belongs to one of the four users (frame of the observation)
	n := 0
	k.IterateDeposits(ctx, func(hardtypes.Deposit) bool { n++; return false })
	k.IterateBorrows(ctx, func(hardtypes.Borrow) bool { n++; return false })
	m := 0
	for u := range w.users {
		if !allZero(o.dep[u]) {
			m++
		}
		if !allZero(o.bor[u]) {
			m++
		}
	}
	if n != m {
		panic(fmt.Sprintf("harness: %d records in the store, %d non-empty records observed", n, m))
	}
	return o
}

func allZero(xs []*big.Int) bool {
	for _, x := range xs {
		if x.Sign() != 0 {
			return false
		}
	}
	return true
}

func mat(m [][]*big.Int) string {
	rows := make([]string, len(m))
	for i, r := range m {
		rows[i] = c.Ints(r)
	}
	return strings.Join(rows, ";")
}
func smat(m [][]string) string {
	rows := make([]string, len(m))
	for i, r := range m {
		rows[i] = strings.Join(r, ",")
	}
	return strings.Join(rows, ";")
}

// the stored deposit and borrow amounts in the format of `synced` (equal to it iff no interest is pending)
func (o obs) syncedLike() string { return mat(o.dep) + "|" + mat(o.bor) }

func (o obs) String() string {
	return strings.Join([]string{mat(o.dep), smat(o.depIdx), mat(o.bor), smat(o.borIdx), strings.Join(o.supIdx, ","), strings.Join(o.brwIdx, ","),
		c.Ints(o.supplied), c.Ints(o.borrowed), c.Ints(o.reserves), c.Ints(o.cash), mat(o.bal), strings.Join(o.accr, ",")}, "|")
}

// synced positions as the queries compute them (GetSyncedDeposit / GetSyncedBorrow); nil row = the query panicked
type syncedT struct{ dep, bor [][]*big.Int }

func (w *world) syncedRows(ctx sdk.Context) syncedT {
	k := w.tApp.GetHardKeeper()
	var out syncedT
	for _, u := range w.users {
		u := u
		var dp hardtypes.Deposit
		var br hardtypes.Borrow
		var ds, bs []*big.Int
		if p, _ := c.Recover(func() { dp, _ = k.GetSyncedDeposit(ctx, u) }); !p {
			ds = amounts(dp.Amount)
		}
		if p, _ := c.Recover(func() { br, _ = k.GetSyncedBorrow(ctx, u) }); !p {
			bs = amounts(br.Amount)
		}
		out.dep, out.bor = append(out.dep, ds), append(out.bor, bs)
	}
	return out
}

func prow(rows [][]*big.Int) string {
	out := make([]string, len(rows))
	for i, r := range rows {
		if r == nil {
			out[i] = "p"
		} else {
			out[i] = c.Ints(r)
		}
	}
	return strings.Join(out, ";")
}

// "p" = the query panicked
func (y syncedT) String() string { return prow(y.dep) + "|" + prow(y.bor) }

func (w *world) synced(ctx sdk.Context) string { return w.syncedRows(ctx).String() }

// The harness's own log for the "no decrease without user action" clause: what GetSyncedDeposit / GetSyncedBorrow
// returned for every user, and the global interest factors, when the previous case of the sequence ended.  Nothing but
// price moves happens between two cases, so the next case must start at or above it for every user.
type floorT struct {
	y        syncedT
	sup, brw []string
}

func (f *floorT) String() string {
	if f == nil {
		return "-"
	}
	return f.y.String() + "|" + strings.Join(f.sup, ",") + "|" + strings.Join(f.brw, ",")
}

func errCode(err error) string {
	cs, code, _ := errorsmod.ABCIInfo(err, false)
	return fmt.Sprintf("%s/%d", cs, code)
}

func resString(cls kapp.Class, err error) string {
	switch cls {
	case kapp.OK:
		return "ok"
	case kapp.Panic:
		return "panic"
	}
	return "err:" + errCode(err)
}

func (w *world) auctionsSince(ctx sdk.Context, seen map[uint64]bool) string {
	var out []string
	for _, a := range w.tApp.GetAuctionKeeper().GetAllAuctions(ctx) {
		if seen[a.GetID()] {
			continue
		}
		seen[a.GetID()] = true
		ca, ok := a.(*auctiontypes.CollateralAuction)
		if !ok {
			panic("harness: unexpected auction type")
		}
		out = append(out, fmt.Sprintf("%d:%s:%d:%s", denomIdx(ca.Lot.Denom), ca.Lot.Amount, denomIdx(ca.MaxBid.Denom), ca.MaxBid.Amount))
	}
	return c.Strs(out)
}

func denomIdx(s string) int {
	for d := range denoms {
		if denoms[d] == s {
			return d
		}
	}
	panic("harness: unknown denom " + s)
}

func coinsOf(xs []*big.Int) sdk.Coins {
	cs := sdk.Coins{}
	for d, x := range xs {
		if x != nil && x.Sign() > 0 {
			cs = cs.Add(sdk.NewCoin(denoms[d], sdkmath.NewIntFromBigInt(x)))
		}
	}
	return cs
}

// ---------------------------------------------------------------- one sequence

type seqT struct {
	w    *world
	out  *c.Out
	r    *c.Rng
	ctx  sdk.Context
	seq  int
	seen map[uint64]bool
	nop  int
	// governance bookkeeping: the last money market every denom had (placeholder while delisted, template for relisting)
	lastMM []*hardtypes.MoneyMarket
	// what the previous case of this sequence left (see floorT)
	floor *floorT
	// appended to the signature of the next case (what a params change did)
	sigNote string
}

func usd(a *big.Int, d int, price sdk.Dec) sdk.Dec {
	return sdk.NewDecFromBigInt(a).Quo(sdk.NewDecFromInt(cfOf(d))).Mul(price)
}

func (s *seqT) prices() []sdk.Dec {
	pk := s.w.tApp.GetPriceFeedKeeper()
	out := make([]sdk.Dec, len(denoms))
	for d := range denoms {
		cp, err := pk.GetCurrentPrice(s.ctx, marketID(d))
		if err != nil {
			out[d] = sdk.ZeroDec()
		} else {
			out[d] = cp.Price
		}
	}
	return out
}

// emit runs one keeper operation and writes the case
func (s *seqT) emit(kind string, a, b int, coins []*big.Int, extra string, probeUser int, f func(ctx sdk.Context) error) kapp.Class {
	w := s.w
	if coins == nil {
		coins = []*big.Int{bi(0), bi(0), bi(0)}
	}
	for d := range coins { // the keeper is called with sdk.Coins: only positive amounts exist
		if coins[d].Sign() < 0 {
			coins[d] = bi(0)
		}
	}
	cfgS, minB, modes, unlisted := s.cfgString(kind == "begin")
	anyUnlisted := false
	for _, un := range unlisted {
		anyUnlisted = anyUnlisted || un
	}
	if kind == "begin" {
		extra += ";" + modes
	} else if anyUnlisted {
		// user messages (and the params case) while a denom has no money market: the flags tell the driver which
		// zero prices mean "no money market" (hard/12, deposit: hard/2) rather than "no price"
		fl := make([]string, len(unlisted))
		for d, un := range unlisted {
			fl[d] = c.B(un)
		}
		extra = "unlisted=" + strings.Join(fl, ",")
	}
	pre := w.observe(s.ctx)
	spreRows := w.syncedRows(s.ctx)
	spre := spreRows.String()
	floorS := s.floor.String()
	cls, err := kapp.Exec(s.ctx, f)
	post := "-"
	postObs := pre
	if cls == kapp.OK {
		postObs = w.observe(s.ctx)
		post = postObs.String()
	}
	aucs := w.auctionsSince(s.ctx, s.seen)
	spostRows := w.syncedRows(s.ctx)
	spost := spostRows.String()
	s.floor = &floorT{y: spostRows, sup: postObs.supIdx, brw: postObs.brwIdx}
	probe := "-"
	if cls == kapp.OK && probeUser >= 0 {
		keeper := (probeUser + 1) % nUsers
		cctx, _ := s.ctx.CacheContext()
		pc, perr := kapp.Exec(cctx, func(cx sdk.Context) error {
			return w.tApp.GetHardKeeper().AttemptKeeperLiquidation(cx, w.users[keeper], w.users[probeUser])
		})
		probe = resString(pc, perr)
	}
	res := resString(cls, err)
	if cls == kapp.Panic && strings.Contains(err.Error(), "reward sync") {
		// the incentive module's hook (not part of the hard model) refuses an interest factor below 1
		res = "panic:hook"
	}
	sig := kind + "|" + res
	if kind == "liquidate" && cls == kapp.OK {
		sig += fmt.Sprintf("|aucs=%d|self=%v", strings.Count(aucs, ":")/3, a == b)
	}
	if cls == kapp.OK {
		switch kind {
		case "borrow": // merges with an existing borrow of the same denom / first borrow / several denoms
			merge, n := false, 0
			for d := range coins {
				if coins[d].Sign() > 0 {
					n++
					merge = merge || pre.bor[a][d].Sign() > 0
				}
			}
			sig += fmt.Sprintf("|merge=%v|n=%d|interest=%v", merge, n, spre != pre.syncedLike())
		case "withdraw":
			full := false
			for d := range coins {
				full = full || (coins[d].Sign() > 0 && coins[d].Cmp(pre.dep[a][d]) >= 0)
			}
			sig += fmt.Sprintf("|full=%v|hasBorrow=%v", full, !allZero(pre.bor[a]))
		case "repay":
			over := false
			for d := range coins {
				over = over || coins[d].Cmp(pre.bor[b][d]) > 0
			}
			sig += fmt.Sprintf("|third=%v|over=%v", a != b, over)
		case "deposit":
			sig += fmt.Sprintf("|first=%v", allZero(pre.dep[a]))
		case "begin":
			n := 0
			for d := range denoms {
				if pre.borrowed[d].Sign() > 0 && pre.accr[d] != "n" {
					n++
				}
			}
			sig += fmt.Sprintf("|accruing=%d", n)
			if strings.Trim(modes, "a") != "" {
				sig += "|listing=" + sortedLetters(modes)
			}
		case "params":
			sig += "|" + s.sigNote
		}
	}
	if anyUnlisted && kind != "begin" && kind != "params" {
		sig += "|while-delisted"
	}
	s.sigNote = ""
	if probe != "-" {
		sig += "|probe=" + probe
	}
	if err != nil {
		s.out.Note("res:" + kind + ":" + res)
		if cls == kapp.Panic && c.EnvInt("VERIF_DEBUG", 0) > 0 {
			fmt.Println("PANIC", s.seq, kind, a, b, coins, err)
		}
	}
	if kind == "begin" && cls == kapp.Panic {
		s.out.Violation(fmt.Sprintf("seq=%d op=%d hard begin blocker panicked: %v", s.seq, s.nop, err))
	}
	s.out.Case(sig, "c08.op", kind, cfgS, minB, pre.String(), strconv.Itoa(a), strconv.Itoa(b), c.Ints(coins), extra, "=>",
		res, post, aucs, spre, spost, probe, floorS)
	s.nop++
	return cls
}

func sortedLetters(x string) string {
	b := []byte(x)
	for i := range b {
		for j := i + 1; j < len(b); j++ {
			if b[j] < b[i] {
				b[i], b[j] = b[j], b[i]
			}
		}
	}
	return string(b)
}

// interest factor of one denom for the coming begin blocker, computed with the keeper's own exported routines
func (s *seqT) phi(d int, now time.Time, o obs) (string, string) {
	k := s.w.tApp.GetHardKeeper()
	prev, found := k.GetPreviousAccrualTime(s.ctx, denoms[d])
	if !found {
		return "1000000000000000000", "0"
	}
	elapsed := now.Unix() - prev.Unix()
	if elapsed == 0 || o.borrowed[d].Sign() == 0 {
		return "1000000000000000000", "0"
	}
	// the market the begin blocker accrues with: the store's, or the params' one when the denom is being (re)listed;
	// a denom in neither is skipped by ApplyInterestRateUpdates
	mm, mode := s.market(d, true)
	if mode == 's' {
		return "1000000000000000000", "0"
	}
	var rate sdk.Dec
	var err error
	if p, _ := c.Recover(func() {
		rate, err = hardkeeper.CalculateBorrowRate(mm.InterestRateModel, sdk.NewDecFromBigInt(o.cash[d]), sdk.NewDecFromBigInt(o.borrowed[d]), sdk.NewDecFromBigInt(o.reserves[d]))
	}); p {
		// CalculateUtilizationRatio divides by cash + borrows - reserves = 0: the begin blocker will panic the same way
		s.out.Note("borrow-rate-panics")
		return "1000000000000000000", "0"
	}
	must(err)
	spy, err := hardkeeper.APYToSPY(sdk.OneDec().Add(rate))
	must(err)
	f := hardkeeper.CalculateBorrowInterestFactor(spy, sdkmath.NewInt(elapsed))
	s.out.Note("phi-evaluated")
	if f.LT(sdk.OneDec()) || spy.LT(sdk.OneDec()) {
		// monitored assumption of C08_borrow_index_monotone (trusted base: ApproxRoot, RelativePow)
		s.out.Violation(fmt.Sprintf("seq=%d assumption borrow-interest-factor>=1 broken: rate=%s spy=%s elapsed=%d factor=%s", s.seq, rate, spy, elapsed, f))
	}
	return f.BigInt().String(), c.B(rate.IsPositive())
}

func (s *seqT) beginBlock(gap int64) {
	now := s.ctx.BlockTime().Add(time.Duration(gap) * time.Second)
	s.ctx = s.ctx.WithBlockTime(now).WithBlockHeight(s.ctx.BlockHeight() + 1)
	o := s.w.observe(s.ctx)
	var phis, apys []string
	for d := range denoms {
		p, a := s.phi(d, now, o)
		phis, apys = append(phis, p), append(apys, a)
	}
	extra := strconv.FormatInt(now.Unix(), 10) + ";" + strings.Join(phis, ",") + ";" + strings.Join(apys, ",")
	cls := s.emit("begin", 0, 0, nil, extra, -1, func(cx sdk.Context) error {
		hard.BeginBlocker(cx, s.w.tApp.GetHardKeeper())
		return nil
	})
	_ = cls
}

func (s *seqT) deposit(u int, coins []*big.Int) kapp.Class {
	return s.emit("deposit", u, 0, coins, "-", -1, func(cx sdk.Context) error {
		return s.w.tApp.GetHardKeeper().Deposit(cx, s.w.users[u], coinsOf(coins))
	})
}
func (s *seqT) withdraw(u int, coins []*big.Int) kapp.Class {
	return s.emit("withdraw", u, 0, coins, "-", u, func(cx sdk.Context) error {
		return s.w.tApp.GetHardKeeper().Withdraw(cx, s.w.users[u], coinsOf(coins))
	})
}
func (s *seqT) borrow(u int, coins []*big.Int) kapp.Class {
	return s.emit("borrow", u, 0, coins, "-", u, func(cx sdk.Context) error {
		return s.w.tApp.GetHardKeeper().Borrow(cx, s.w.users[u], coinsOf(coins))
	})
}
func (s *seqT) repay(sender, owner int, coins []*big.Int) kapp.Class {
	return s.emit("repay", sender, owner, coins, "-", -1, func(cx sdk.Context) error {
		return s.w.tApp.GetHardKeeper().Repay(cx, s.w.users[sender], s.w.users[owner], coinsOf(coins))
	})
}
func (s *seqT) liquidate(keeper, borrower int) kapp.Class {
	return s.emit("liquidate", keeper, borrower, nil, "-", -1, func(cx sdk.Context) error {
		return s.w.tApp.GetHardKeeper().AttemptKeeperLiquidation(cx, s.w.users[keeper], s.w.users[borrower])
	})
}

// try runs an operation in a discarded context and reports whether it would be accepted
func (s *seqT) try(f func(cx sdk.Context) error) bool {
	cctx, _ := s.ctx.CacheContext()
	cls, _ := kapp.Exec(cctx, f)
	return cls == kapp.OK
}

// largest accepted amount of denom d near the estimate x0 (window of +-w), or nil
func (s *seqT) largestAccepted(x0 *big.Int, win int64, accept func(x *big.Int) bool) *big.Int {
	var best *big.Int
	for dlt := win; dlt >= -win; dlt-- {
		x := new(big.Int).Add(x0, bi(dlt))
		if x.Sign() <= 0 {
			continue
		}
		if accept(x) {
			best = x
			break
		}
	}
	return best
}

func one(d int, x *big.Int) []*big.Int {
	out := []*big.Int{bi(0), bi(0), bi(0)}
	out[d] = new(big.Int).Set(x)
	return out
}

// estimated amount of denom d worth `value` USD
func amountFor(value sdk.Dec, d int, price sdk.Dec) *big.Int {
	if !price.IsPositive() || !value.IsPositive() {
		return bi(0)
	}
	return value.MulInt(cfOf(d)).Quo(price).TruncateInt().BigInt()
}

func (s *seqT) headroom(u int, o obs) sdk.Dec {
	k := s.w.tApp.GetHardKeeper()
	pr := s.prices()
	h := sdk.ZeroDec()
	for d := range denoms {
		mm, found := k.GetMoneyMarket(s.ctx, denoms[d])
		if !found { // delisted: the keeper cannot value the denom (an estimate for the generators only)
			continue
		}
		h = h.Add(usd(o.dep[u][d], d, pr[d]).Mul(mm.BorrowLimit.LoanToValue))
		h = h.Sub(usd(o.bor[u][d], d, pr[d]))
	}
	return h
}

// head room as the keeper must see it: from the SYNCED deposit and borrow (GetSyncedDeposit / GetSyncedBorrow, i.e.
// with the interest accrued since the user's last action); falls back to the stored records if a query panics
func (s *seqT) headroomSynced(u int, o obs) sdk.Dec {
	k := s.w.tApp.GetHardKeeper()
	dep, bor := o.dep[u], o.bor[u]
	c.Recover(func() {
		if dp, ok := k.GetSyncedDeposit(s.ctx, s.w.users[u]); ok {
			dep = amounts(dp.Amount)
		}
		if br, ok := k.GetSyncedBorrow(s.ctx, s.w.users[u]); ok {
			bor = amounts(br.Amount)
		}
	})
	pr := s.prices()
	h := sdk.ZeroDec()
	for d := range denoms {
		mm, found := k.GetMoneyMarket(s.ctx, denoms[d])
		if !found {
			continue
		}
		h = h.Add(usd(dep[d], d, pr[d]).Mul(mm.BorrowLimit.LoanToValue))
		h = h.Sub(usd(bor[d], d, pr[d]))
	}
	return h
}

// a borrow amount of denom d chosen around / between the stale boundary (head room computed from the STORED borrow,
// without pending interest) and the true boundary (from the SYNCED borrow): a keeper that validates against the
// un-synced debt accepts amounts in between, and the liquidation probe after the borrow then succeeds
func (s *seqT) staleAwareAmount(u, d int, o obs, price sdk.Dec) (*big.Int, bool) {
	r := s.r
	k := s.w.tApp.GetHardKeeper()
	hStale, hTrue := s.headroom(u, o), s.headroomSynced(u, o)
	if hStale.Equal(hTrue) || !hStale.IsPositive() {
		return nil, false
	}
	xs, xt := amountFor(hStale, d, price), amountFor(hTrue, d, price)
	if xs.Cmp(xt) == 0 {
		return nil, false
	}
	accept := func(x *big.Int) bool {
		return s.try(func(cx sdk.Context) error { return k.Borrow(cx, s.w.users[u], coinsOf(one(d, x))) })
	}
	mid := new(big.Int).Rsh(new(big.Int).Add(xs, xt), 1)
	var amt *big.Int
	switch r.Intn(8) {
	case 0:
		amt = new(big.Int).Add(xs, bi(r.Range(-1, 1)))
	case 1:
		amt = new(big.Int).Add(xt, bi(r.Range(-1, 1)))
	case 2, 3:
		amt = mid
	case 4: // anywhere between the two boundaries
		lo, hi := xt, xs
		if lo.Cmp(hi) > 0 {
			lo, hi = hi, lo
		}
		amt = new(big.Int).Add(lo, r.BigBelow(new(big.Int).Sub(hi, lo)))
	case 5: // largest accepted near the true boundary
		if b := s.largestAccepted(xt, 3, accept); b != nil {
			amt = new(big.Int).Add(b, bi(c.Pick(r, []int64{0, 0, 1})))
		} else {
			amt = xt
		}
	default: // largest accepted near the stale boundary (none on a correct keeper)
		if b := s.largestAccepted(xs, 3, accept); b != nil {
			amt = b
			s.out.Note("borrow-boundary:accepted-at-stale-boundary")
		} else {
			amt = new(big.Int).Sub(xs, bi(r.Range(0, 3)))
		}
	}
	if amt.Sign() <= 0 {
		return nil, false
	}
	s.out.Note("borrow-boundary:stale-vs-synced")
	return amt, true
}

func (s *seqT) genAmount(d int, avail *big.Int) *big.Int {
	r := s.r
	cf := pow10(cfExp[d])
	switch r.Intn(9) {
	case 0:
		return bi(r.Range(1, 3))
	case 1:
		return new(big.Int).Mul(cf, bi(r.Range(1, 1000)))
	case 2:
		return new(big.Int).Add(new(big.Int).Mul(cf, bi(r.Range(1, 100))), r.BigBelow(cf))
	case 3:
		return new(big.Int).Add(avail, bi(r.Range(-1, 1)))
	case 4:
		return r.BigBelow(new(big.Int).Add(cf, bi(1)))
	case 5:
		return new(big.Int).Div(new(big.Int).Mul(cf, bi(r.Range(1, 999))), bi(1000))
	default:
		return new(big.Int).Add(new(big.Int).Mul(cf, bi(r.Range(1, 50))), bi(r.Range(0, 999999)))
	}
}

func (s *seqT) randomOp() {
	r := s.r
	w := s.w
	k := w.tApp.GetHardKeeper()
	o := w.observe(s.ctx)
	u := r.Intn(nUsers)
	d := r.Intn(len(denoms))
	pr := s.prices()
	// mostly-valid choices: a user that has the record the operation needs, a denom the record holds
	prefer := func(has func(u int) bool) int {
		if r.Chance(12) {
			return r.Intn(nUsers)
		}
		var c []int
		for v := 0; v < nUsers; v++ {
			if has(v) {
				c = append(c, v)
			}
		}
		if len(c) == 0 {
			return r.Intn(nUsers)
		}
		return c[r.Intn(len(c))]
	}
	preferDenom := func(row []*big.Int) int {
		if r.Chance(12) {
			return r.Intn(len(denoms))
		}
		var c []int
		for e := range denoms {
			if row[e].Sign() > 0 {
				c = append(c, e)
			}
		}
		if len(c) == 0 {
			return r.Intn(len(denoms))
		}
		return c[r.Intn(len(c))]
	}
	x := r.Intn(100)
	switch {
	case x >= 22 && x < 50:
		u = prefer(func(v int) bool { return !allZero(o.dep[v]) })
		d = preferDenom(o.cash)
	case x >= 50 && x < 66:
		u = prefer(func(v int) bool { return !allZero(o.dep[v]) })
		d = preferDenom(o.dep[u])
	case x >= 80 && x < 92:
		u = prefer(func(v int) bool { return !allZero(o.bor[v]) && !allZero(o.dep[v]) })
	}
	switch {
	case x < 22: // deposit
		coins := one(d, s.genAmount(d, o.bal[u][d]))
		if r.Chance(25) {
			d2 := r.Intn(len(denoms))
			if d2 != d {
				coins[d2] = s.genAmount(d2, o.bal[u][d2])
			}
		}
		if r.Chance(3) {
			coins = []*big.Int{bi(0), bi(0), bi(0)}
		}
		s.deposit(u, coins)
	case x < 50: // borrow around the LTV boundary
		h := s.headroom(u, o)
		var amt *big.Int
		if a, ok := s.staleAwareAmount(u, d, o, pr[d]); ok && r.Chance(65) {
			// interest is pending on this user's position
			s.borrow(u, one(d, a))
			return
		}
		switch r.Intn(8) {
		case 0:
			amt = s.genAmount(d, o.cash[d])
		case 1: // half of the head room (a later boundary borrow then merges with it)
			amt = new(big.Int).Div(amountFor(h, d, pr[d]), bi(2))
		default:
			x0 := amountFor(h, d, pr[d])
			best := s.largestAccepted(x0, 3, func(x *big.Int) bool {
				return s.try(func(cx sdk.Context) error { return k.Borrow(cx, w.users[u], coinsOf(one(d, x))) })
			})
			if best == nil {
				amt = x0
				s.out.Note("borrow-boundary:none-accepted")
			} else if r.Chance(35) && best.Cmp(bi(4)) > 0 {
				// split: borrow about half now, then solve again for the largest accepted remainder
				// (the two routines value existing + new separately, the liquidation values the merged borrow)
				half := new(big.Int).Div(best, bi(2))
				if r.Bool() {
					half = r.BigBelow(best)
				}
				if half.Sign() > 0 && s.borrow(u, one(d, half)) == kapp.OK {
					o = w.observe(s.ctx)
					x1 := amountFor(s.headroom(u, o), d, pr[d])
					best2 := s.largestAccepted(x1, 3, func(x *big.Int) bool {
						return s.try(func(cx sdk.Context) error { return k.Borrow(cx, w.users[u], coinsOf(one(d, x))) })
					})
					if best2 != nil {
						amt = best2
						s.out.Note("borrow-boundary:split-solved")
					} else {
						amt = x1
					}
				} else {
					amt = best
				}
			} else {
				amt = new(big.Int).Add(best, bi(c.Pick(r, []int64{0, 0, 0, 1, -1})))
				s.out.Note("borrow-boundary:solved")
			}
		}
		if amt.Sign() <= 0 && r.Chance(80) {
			amt = s.genAmount(d, o.cash[d])
		}
		coins := one(d, amt)
		if r.Chance(10) {
			d2 := r.Intn(len(denoms))
			if d2 != d {
				coins[d2] = s.genAmount(d2, o.cash[d2])
			}
		}
		if r.Chance(2) {
			coins = []*big.Int{bi(0), bi(0), bi(0)}
		}
		s.borrow(u, coins)
	case x < 66: // withdraw around the LTV boundary
		var amt *big.Int
		mm, mmFound := k.GetMoneyMarket(s.ctx, denoms[d])
		switch r.Intn(6) {
		case 0:
			amt = s.genAmount(d, o.dep[u][d])
		case 1:
			amt = new(big.Int).Add(o.dep[u][d], bi(r.Range(-1, 1)))
		default:
			h := s.headroom(u, o)
			x0 := o.dep[u][d]
			if mmFound && mm.BorrowLimit.LoanToValue.IsPositive() && !allZero(o.bor[u]) {
				x0 = amountFor(h.Quo(mm.BorrowLimit.LoanToValue), d, pr[d])
			}
			best := s.largestAccepted(x0, 3, func(x *big.Int) bool {
				if x.Cmp(o.dep[u][d]) > 0 {
					return false
				}
				return s.try(func(cx sdk.Context) error { return k.Withdraw(cx, w.users[u], coinsOf(one(d, x))) })
			})
			if best == nil {
				amt = x0
				s.out.Note("withdraw-boundary:none-accepted")
			} else {
				amt = new(big.Int).Add(best, bi(c.Pick(r, []int64{0, 0, 1, -1})))
				s.out.Note("withdraw-boundary:solved")
			}
		}
		coins := one(d, amt)
		if r.Chance(10) {
			d2 := r.Intn(len(denoms))
			if d2 != d {
				coins[d2] = s.genAmount(d2, o.dep[u][d2])
			}
		}
		s.withdraw(u, coins)
	case x < 80: // repay by owner or third party
		owner := prefer(func(v int) bool { return !allZero(o.bor[v]) })
		d = preferDenom(o.bor[owner])
		sender := owner
		if r.Chance(35) {
			sender = r.Intn(nUsers)
		}
		owed := o.bor[owner][d]
		var amt *big.Int
		switch r.Intn(6) {
		case 0:
			amt = new(big.Int).Add(owed, bi(r.Range(0, 2)))
		case 1:
			amt = new(big.Int).Div(owed, bi(2))
		case 2:
			amt = bi(r.Range(1, 2))
		case 3:
			amt = new(big.Int).Mul(owed, bi(10))
		case 4:
			amt = new(big.Int).Sub(owed, bi(r.Range(1, 2)))
		default:
			amt = s.genAmount(d, owed)
		}
		coins := one(d, amt)
		if r.Chance(15) { // everything that is owed (+1)
			coins = []*big.Int{bi(0), bi(0), bi(0)}
			for e := range denoms {
				if o.bor[owner][e].Sign() > 0 {
					coins[e] = new(big.Int).Add(o.bor[owner][e], bi(r.Range(0, 1)))
				}
			}
		}
		s.repay(sender, owner, coins)
	case x < 92: // liquidation attempt
		borrower := u
		keeper := r.Intn(nUsers)
		s.liquidate(keeper, borrower)
	default: // price move
		var p sdk.Dec
		switch r.Intn(5) {
		case 0:
			p = dec(c.Pick(r, pricePool))
		case 1:
			p = pr[d].Mul(dec(c.Pick(r, []string{"0.5", "0.9", "0.99", "0.999999", "0.1"})))
		case 2:
			p = pr[d].Mul(dec(c.Pick(r, []string{"1.01", "1.5", "2", "1.000001"})))
		case 3:
			p = pr[d].Add(sdk.SmallestDec().MulInt64(r.Range(-3, 3)))
		default:
			p = pr[d].Mul(dec("0.7"))
		}
		if p.IsPositive() {
			s.w.setPrice(s.ctx, d, p)
			s.out.Note("price-move")
		}
	}
}

// ---------------------------------------------------------------- governance: params changes

// the params' money markets by denom index (nil = not listed)
func (s *seqT) paramsMarkets() []*hardtypes.MoneyMarket {
	out := make([]*hardtypes.MoneyMarket, len(denoms))
	for d := range denoms {
		if mm, ok := s.paramsMarket(d); ok {
			mm := mm
			out[d] = &mm
		}
	}
	return out
}

// setParams is a governance params change (one case: the keeper's SetParams; no x/hard state other than the params
// may change).  As on chain (a proposal passes in an end blocker) the next thing that happens is a begin blocker,
// which translates the params to the store: lists, replaces and deletes money markets.
func (s *seqT) setParams(mms []*hardtypes.MoneyMarket, minBorrow sdk.Dec, what string, gap int64) {
	var list hardtypes.MoneyMarkets
	for _, mm := range mms {
		if mm != nil {
			list = append(list, *mm)
		}
	}
	params := hardtypes.NewParams(list, minBorrow)
	must(params.Validate())
	s.sigNote = what
	s.out.Note("gov:" + what)
	s.emit("params", 0, 0, nil, "-", -1, func(cx sdk.Context) error {
		kapp.SetParams(s.w.tApp, cx, "hard", &params, func() { s.w.tApp.GetHardKeeper().SetParams(cx, params) })
		return nil
	})
	s.beginBlock(gap)
}

// a money market with one aspect changed (values from the pools of randomCfg)
func (s *seqT) mutateMarket(mm hardtypes.MoneyMarket, d int, what string) hardtypes.MoneyMarket {
	r := s.r
	switch what {
	case "ltv":
		for i := 0; i < 8; i++ {
			v := dec(c.Pick(r, ltvPool))
			if !v.Equal(mm.BorrowLimit.LoanToValue) {
				mm.BorrowLimit.LoanToValue = v
				break
			}
		}
	case "reserve-factor":
		for i := 0; i < 8; i++ {
			v := dec(c.Pick(r, rfPool))
			if !v.Equal(mm.ReserveFactor) {
				mm.ReserveFactor = v
				break
			}
		}
	case "interest-model":
		mm.InterestRateModel = hardtypes.NewInterestRateModel(dec(c.Pick(r, []string{"0", "0.05", "0.02", "0.1"})), dec(c.Pick(r, []string{"0.1", "1.0", "2.0", "0", "0.3"})),
			dec(c.Pick(r, []string{"0.8", "0.5", "1.0"})), dec(c.Pick(r, []string{"0.5", "10", "0", "3"})))
	case "borrow-limit":
		if mm.BorrowLimit.HasMaxLimit && r.Chance(40) {
			mm.BorrowLimit.HasMaxLimit = false
		} else {
			mm.BorrowLimit.HasMaxLimit = true
			mm.BorrowLimit.MaximumLimit = sdk.NewDecFromInt(cfOf(d).MulRaw(r.Range(0, 2000)))
		}
	case "keeper-reward":
		mm.KeeperRewardPercentage = dec(c.Pick(r, krPool))
	}
	return mm
}

var govAspects = []string{"ltv", "ltv", "reserve-factor", "interest-model", "borrow-limit", "keeper-reward"}

// one random params change followed by its begin blocker: delist a money market, relist one (as it was or with
// changed parameters), change LTV / reserve factor / interest model / borrow limit / keeper reward of a listed one,
// change the minimum borrow value; sometimes two at once
func (s *seqT) govChange() {
	r := s.r
	k := s.w.tApp.GetHardKeeper()
	mms := s.paramsMarkets()
	minB := k.GetMinimumBorrowUSDValue(s.ctx)
	var on, off []int
	for d := range denoms {
		if mms[d] != nil {
			on = append(on, d)
		} else if s.lastMM[d] != nil {
			off = append(off, d)
		}
	}
	var what []string
	ltvChanged := false
	for n := int64(0); n < r.Range(1, 2); n++ {
		x := r.Intn(10)
		switch {
		case x < 6 && len(off) > 0: // relist (a delisted market comes back soon: most generators need all three)
			d := off[r.Intn(len(off))]
			if mms[d] != nil {
				continue
			}
			mm := *s.lastMM[d]
			w := "relist"
			if r.Chance(50) {
				a := c.Pick(r, govAspects)
				mm = s.mutateMarket(mm, d, a)
				w = "relist+" + a
			}
			mms[d] = &mm
			what = append(what, w)
		case x < 3 && len(on) > 1: // delist (at least one money market stays)
			d := on[r.Intn(len(on))]
			if mms[d] == nil {
				continue
			}
			listedLeft := 0
			for _, m := range mms {
				if m != nil {
					listedLeft++
				}
			}
			if listedLeft < 2 {
				continue
			}
			mms[d] = nil
			what = append(what, "delist")
		case x == 9:
			minB = dec(c.Pick(r, minBorrowPool))
			what = append(what, "min-borrow")
		default:
			if len(on) == 0 {
				continue
			}
			d := on[r.Intn(len(on))]
			if mms[d] == nil {
				continue
			}
			a := c.Pick(r, govAspects)
			mm := s.mutateMarket(*mms[d], d, a)
			mms[d] = &mm
			ltvChanged = ltvChanged || a == "ltv"
			what = append(what, a)
		}
	}
	if len(what) == 0 {
		return
	}
	s.setParams(mms, minB, strings.Join(what, "+"), c.Pick(r, gaps))
	if ltvChanged {
		s.afterLtvChange()
	}
}

// right after a changed LTV has reached the store: everybody's position is judged by the new value.  Liquidation
// attempts on every borrower (allowed only outside the NEW range) and boundary borrows / withdrawals (must leave the
// position within the NEW range: the probe after each accepted one).
func (s *seqT) afterLtvChange() {
	r := s.r
	o := s.w.observe(s.ctx)
	for u := 0; u < nUsers; u++ {
		if !allZero(o.bor[u]) && !allZero(o.dep[u]) && r.Chance(60) {
			s.liquidate((u+1+r.Intn(nUsers-1))%nUsers, u)
		}
	}
	s.out.Note("pattern:after-ltv-change")
}

// The denom of a market with open positions is delisted and, some blocks later, listed again; its lenders and
// borrowers stay idle in between (other users may act; messages touching the delisted denom must fail), then they
// repay / withdraw.  With no action by them their claimable / owed amounts must never decrease on the way, whatever
// the begin blocker does when it deletes and re-creates the money market.
func (s *seqT) relistPattern() {
	r, w := s.r, s.w
	k := w.tApp.GetHardKeeper()
	o := w.observe(s.ctx)
	mms := s.paramsMarkets()
	minB := k.GetMinimumBorrowUSDValue(s.ctx)
	var on, withDebt []int
	for d := range denoms {
		if mms[d] != nil && s.listed(d) {
			on = append(on, d)
			if o.borrowed[d].Sign() > 0 {
				withDebt = append(withDebt, d)
			}
		}
	}
	if len(on) < 2 {
		return
	}
	d := on[r.Intn(len(on))]
	if len(withDebt) > 0 && r.Chance(85) {
		d = withDebt[r.Intn(len(withDebt))]
	} else if o.borrowed[d].Sign() == 0 {
		// open a loan in d so that its factors move: somebody with collateral borrows part of the head room
		pr := s.prices()
		for v := 0; v < nUsers; v++ {
			if !allZero(o.dep[v]) && o.cash[d].Sign() > 0 {
				x := new(big.Int).Div(new(big.Int).Mul(amountFor(s.headroom(v, o), d, pr[d]), bi(r.Range(20, 80))), bi(100))
				if x.Cmp(o.cash[d]) > 0 {
					x = new(big.Int).Div(o.cash[d], bi(2))
				}
				if x.Sign() > 0 && s.borrow(v, one(d, x)) == kapp.OK {
					break
				}
			}
		}
	}
	long := []int64{86400, 30 * 86400, 365 * 86400, 3600}
	s.beginBlock(c.Pick(r, long)) // factors above 1, interest pending on every idle position
	if r.Chance(50) {             // a position opened at a factor above 1
		v := r.Intn(nUsers)
		s.deposit(v, one(d, s.genAmount(d, o.bal[v][d])))
		if r.Chance(50) {
			s.beginBlock(c.Pick(r, long))
		}
	}
	template := *mms[d]
	mms[d] = nil
	s.setParams(mms, minB, "delist", c.Pick(r, gaps))
	for i := int64(0); i < r.Range(0, 3); i++ {
		if r.Chance(50) {
			s.randomOp() // others act; whatever touches the delisted denom fails
		}
		s.beginBlock(c.Pick(r, gaps))
	}
	what := "relist"
	if r.Chance(50) {
		a := c.Pick(r, govAspects)
		template = s.mutateMarket(template, d, a)
		what = "relist+" + a
	}
	mms = s.paramsMarkets()
	mms[d] = &template
	s.setParams(mms, minB, what, c.Pick(r, gaps))
	for i := int64(0); i < r.Range(1, 2); i++ {
		s.beginBlock(c.Pick(r, gaps))
	}
	// the idle holders act at last: everything owed is repaid, everything claimable is withdrawn (caps)
	o = w.observe(s.ctx)
	for u := 0; u < nUsers; u++ {
		if o.bor[u][d].Sign() > 0 && r.Chance(50) {
			s.repay(u, u, one(d, new(big.Int).Mul(o.bor[u][d], bi(10))))
		}
		if o.dep[u][d].Sign() > 0 && r.Chance(50) {
			s.withdraw(u, one(d, new(big.Int).Mul(o.dep[u][d], bi(10))))
		}
	}
	s.out.Note("pattern:delist-relist")
}

var gaps = []int64{0, 1, 5, 6, 3600, 86400, 30 * 86400, 365 * 86400, 7, 600}

func (w *world) fund(ctx sdk.Context, r *c.Rng) {
	for u := range w.users {
		cs := sdk.Coins{}
		for d := range denoms {
			whole := int64(1000000)
			if u == 3 {
				whole = r.Range(0, 20)
			}
			amt := new(big.Int).Mul(pow10(cfExp[d]), bi(whole))
			if r.Chance(30) {
				amt.Add(amt, r.BigBelow(pow10(cfExp[d])))
			}
			if amt.Sign() > 0 {
				cs = cs.Add(sdk.NewCoin(denoms[d], sdkmath.NewIntFromBigInt(amt)))
			}
		}
		must(w.tApp.FundAccount(ctx, w.users[u], cs))
	}
}

func (w *world) newSeq(out *c.Out, seq int, r *c.Rng) *seqT {
	ctx, _ := w.base.CacheContext()
	return &seqT{w: w, out: out, r: r, ctx: ctx, seq: seq, seen: map[uint64]bool{}, lastMM: make([]*hardtypes.MoneyMarket, len(denoms))}
}

func (w *world) seq(out *c.Out, seq int, r *c.Rng) {
	if seq == 0 {
		w.scenarioF5(out, r)
		return
	}
	if seq == 1 {
		w.scenarioF4(out, r)
		return
	}
	if seq == 2 {
		w.scenarioDiv0(out, r)
		return
	}
	if seq == 3 {
		w.pureSync(out, r, c.Budget(3000, 200000))
		return
	}
	if seq == 4 {
		w.scenarioStaleDebt(out, r)
		return
	}
	if seq == 5 {
		w.scenarioRelist(out, r)
		return
	}
	if seq == 6 {
		w.scenarioLtvChange(out, r)
		return
	}
	s := w.newSeq(out, seq, r)
	w.fund(s.ctx, r)
	w.applyCfg(s.ctx, w.randomCfg(r))
	s.beginBlock(0)
	// a lender so that there is cash to borrow
	if r.Chance(85) {
		l := r.Intn(nUsers - 1)
		coins := make([]*big.Int, len(denoms))
		for d := range denoms {
			coins[d] = new(big.Int).Mul(pow10(cfExp[d]), bi(r.Range(1, 200000)))
		}
		s.deposit(l, coins)
	}
	// the length of a sequence follows the tier only: a change-directed amplification (VERIF_AMPLIFY) multiplies the
	// number of sequences in main, not their length as well (8 x 8 = 64 times the cases, gigabytes, for nothing)
	nops := 60
	if c.Tier() == "thorough" {
		nops = 200
	}
	for s.nop < nops {
		if r.Chance(22) {
			s.beginBlock(c.Pick(r, gaps))
		}
		if r.Chance(6) {
			s.idleBorrowerPattern()
			continue
		}
		if r.Chance(5) {
			s.govChange()
			continue
		}
		if r.Chance(3) {
			s.relistPattern()
			continue
		}
		s.randomOp()
	}
}

// a borrower close to the limit stays idle while interest accrues over long gaps (other users may act), then borrows
// again with an amount around / between the stale and the true boundary
func (s *seqT) idleBorrowerPattern() {
	r, w := s.r, s.w
	k := w.tApp.GetHardKeeper()
	o := w.observe(s.ctx)
	var cand []int
	for v := 0; v < nUsers; v++ {
		if !allZero(o.dep[v]) {
			cand = append(cand, v)
		}
	}
	if len(cand) == 0 {
		return
	}
	u := cand[r.Intn(len(cand))]
	d := r.Intn(len(denoms))
	pr := s.prices()
	if allZero(o.bor[u]) || r.Chance(50) { // get close to the limit first
		x0 := new(big.Int).Div(new(big.Int).Mul(amountFor(s.headroom(u, o), d, pr[d]), bi(r.Range(60, 99))), bi(100))
		if x0.Sign() > 0 {
			s.borrow(u, one(d, x0))
		}
	}
	for i := int64(0); i < r.Range(1, 3); i++ {
		s.beginBlock(c.Pick(r, []int64{86400, 30 * 86400, 365 * 86400, 3600}))
		if r.Chance(30) { // somebody else acts
			v := (u + 1 + r.Intn(nUsers-1)) % nUsers
			s.deposit(v, one(d, s.genAmount(d, o.bal[v][d])))
		}
	}
	o = w.observe(s.ctx)
	for t := 0; t < 2; t++ {
		if a, ok := s.staleAwareAmount(u, d, o, pr[d]); ok {
			s.borrow(u, one(d, a))
			o = w.observe(s.ctx)
		} else {
			break
		}
	}
	_ = k
	s.out.Note("pattern:idle-borrower")
}

// Former F5 witness (fixed by 68803c96d), replayed on every run: conversion factor 10^6, price 1.000000000000000001, a
// deposit worth exactly 1.0 of borrowing power, two borrows of 500000: before the fix both were accepted and an
// immediate liquidation succeeded.
func (w *world) scenarioF5(out *c.Out, r *c.Rng) {
	s := w.newSeq(out, 0, r)
	w.fund(s.ctx, c.NewRng(1))
	var cf cfgT
	model := hardtypes.NewInterestRateModel(dec("0"), dec("0.1"), dec("0.8"), dec("0.5"))
	for d := range denoms {
		cf.mms = append(cf.mms, hardtypes.NewMoneyMarket(denoms[d], hardtypes.NewBorrowLimit(false, sdk.ZeroDec(), dec("0.5")), marketID(d), cfOf(d), model, dec("0.05"), dec("0.05")))
	}
	cf.prices = []sdk.Dec{dec("1.000000000000000001"), dec("1.0"), dec("1.0")}
	cf.minBorrow = dec("0")
	w.applyCfg(s.ctx, cf)
	s.beginBlock(0)
	s.deposit(1, []*big.Int{new(big.Int).Mul(pow10(6), bi(1000)), bi(0), bi(0)}) // lender of dena
	s.deposit(0, []*big.Int{bi(0), new(big.Int).Mul(pow10(8), bi(2)), bi(0)})    // 2 denb at 1.0, LTV 0.5: borrowing power 1.0
	s.borrow(0, one(0, bi(500000)))
	// since fix 68803c96d the second borrow must be refused (hard/11) and the liquidation attempt must fail; were it
	// accepted again, the liquidation probe after it makes the driver report PREDFAIL C08_borrow_within_ltv
	if s.borrow(0, one(0, bi(500000))) == kapp.OK {
		out.Note("scenario:f5:second-borrow-accepted")
	} else {
		out.Note("scenario:f5:second-borrow-refused")
	}
	if s.liquidate(2, 0) == kapp.OK {
		out.Note("scenario:f5:liquidated")
	}
	out.Note("scenario:f5")
}

// Former F4 witness (fixed by 485ea145c), replayed on every run; the supply index must now stay put in the blocks after
// the liquidation (a decrease makes the driver report PREDFAIL C08_supply_index_monotone).
// It makes reserves exceed cash + borrows of a denom through real operations:
// a small and a large borrower take all the cash of dena, a year of interest builds reserves, the collateral price
// falls, the large borrower is liquidated (its debt leaves the borrowed total, the auction has not paid yet).
func (w *world) scenarioF4(out *c.Out, r *c.Rng) {
	s := w.newSeq(out, 1, r)
	w.fund(s.ctx, c.NewRng(1))
	var cf cfgT
	model := hardtypes.NewInterestRateModel(dec("0.05"), dec("2.0"), dec("0.8"), dec("10"))
	for d := range denoms {
		cf.mms = append(cf.mms, hardtypes.NewMoneyMarket(denoms[d], hardtypes.NewBorrowLimit(false, sdk.ZeroDec(), dec("0.8")), marketID(d), cfOf(d), model, dec("0.5"), dec("0.05")))
	}
	cf.prices = []sdk.Dec{dec("1.0"), dec("1.0"), dec("1.0")}
	cf.minBorrow = dec("0")
	w.applyCfg(s.ctx, cf)
	s.beginBlock(0)
	e6 := pow10(6)
	e8 := pow10(8)
	s.deposit(0, one(0, new(big.Int).Mul(e6, bi(1000)))) // lender: 1000 dena
	s.deposit(1, one(1, new(big.Int).Mul(e8, bi(100))))  // small borrower: collateral 100 denb
	s.deposit(2, one(1, new(big.Int).Mul(e8, bi(2000)))) // large borrower: collateral 2000 denb
	s.borrow(1, one(0, new(big.Int).Mul(e6, bi(10))))    // 10 dena
	s.borrow(2, one(0, new(big.Int).Mul(e6, bi(990))))   // the rest of the cash
	s.beginBlock(365 * 86400)
	s.beginBlock(365 * 86400)
	s.w.setPrice(s.ctx, 1, dec("0.4")) // collateral falls: the large borrower is under water
	s.liquidate(3, 2)
	s.beginBlock(6)
	s.beginBlock(3600)
	s.beginBlock(86400)
	s.withdraw(0, one(0, bi(1)))
	out.Note("scenario:f4")
}

// Former division by zero in the begin blocker (findings/C08-accrue-div-zero.md, fixed by 9da123695), replayed on every
// run: the last begin blocker must not panic (a panic is reported go-side and as PREDFAIL C08_accrue_no_panic).
// The state cash + borrows = reserves with borrows > 0 is still reachable (the IsAnyGT quirk was not changed).  A loan accrues interest (reserves r > 0) and is repaid; every supplier withdraws, leaving exactly the
// reserves in the module account; ValidateBorrow's "reserves are not borrowable" check is skipped when the available
// amount is exactly zero (Coins.IsAnyGT ignores zero amounts), so a new borrow of x <= r is paid out of the reserves;
// then cash + borrows - reserves = 0 and CalculateUtilizationRatio divides by it in the next block.
// Rounding dust decides whether cash ends exactly at the reserves: a few loan sizes are tried.
func (w *world) scenarioDiv0(out *c.Out, r *c.Rng) {
	e6, e8 := pow10(6), pow10(8)
	for v := int64(0); v < 40; v++ {
		s := w.newSeq(out, 2, r)
		w.fund(s.ctx, c.NewRng(1))
		var cf cfgT
		model := hardtypes.NewInterestRateModel(dec("0.05"), dec("1.0"), dec("0.8"), dec("2"))
		for d := range denoms {
			cf.mms = append(cf.mms, hardtypes.NewMoneyMarket(denoms[d], hardtypes.NewBorrowLimit(false, sdk.ZeroDec(), dec("0.8")), marketID(d), cfOf(d), model, dec("0.1"), dec("0.05")))
		}
		cf.prices = []sdk.Dec{dec("1.0"), dec("1.0"), dec("1.0")}
		cf.minBorrow = dec("0")
		w.applyCfg(s.ctx, cf)
		s.beginBlock(0)
		s.deposit(0, one(0, new(big.Int).Mul(e6, bi(1000))))                             // supplier of dena
		s.deposit(1, one(1, new(big.Int).Mul(e8, bi(5000))))                             // borrower's collateral
		s.borrow(1, one(0, new(big.Int).Add(new(big.Int).Mul(e6, bi(500)), bi(v*7919)))) // the loan
		s.beginBlock(30 * 86400)                                                         // interest: reserves > 0
		s.repay(1, 1, one(0, new(big.Int).Mul(e6, bi(100000))))                          // everything owed
		s.withdraw(0, one(0, new(big.Int).Mul(e6, bi(100000))))                          // the supplier leaves
		o := w.observe(s.ctx)
		if o.borrowed[0].Sign() != 0 || o.cash[0].Cmp(o.reserves[0]) != 0 || o.reserves[0].Sign() == 0 {
			out.Note("scenario:div0:variant-has-dust")
			continue
		}
		s.deposit(2, one(1, new(big.Int).Mul(e8, bi(100)))) // a newcomer's collateral
		s.borrow(2, one(0, o.reserves[0]))                  // borrows the reserves (available = 0 is not checked)
		s.beginBlock(6)                                     // cash + borrows - reserves = 0: used to panic
		s.beginBlock(86400)
		out.Note("scenario:div0:reached")
		return
	}
	out.Note("scenario:div0:not-reached")
}

// Directed: the LTV gate must value the existing debt WITH the interest accrued since the borrower's last action.
// Deposit 100 denb at 2.0 (LTV 0.8: limit 160), borrow 140 dena, one year without any action by the borrower
// (owed about 150), then borrows sized between the true head room (about 10) and the stale one (20), around each of
// them, and the largest accepted one.  A keeper that validates against the stored principal accepts the middle ones and
// the liquidation probe right after them succeeds (PREDFAIL C08_borrow_within_ltv beyond-rounding).
func (w *world) scenarioStaleDebt(out *c.Out, r *c.Rng) {
	for variant := 0; variant < 3; variant++ {
		s := w.newSeq(out, 4, r)
		w.fund(s.ctx, c.NewRng(1))
		var cf cfgT
		model := hardtypes.NewInterestRateModel(dec("0.05"), dec("0.1"), dec("0.8"), dec("0.5"))
		for d := range denoms {
			cf.mms = append(cf.mms, hardtypes.NewMoneyMarket(denoms[d], hardtypes.NewBorrowLimit(false, sdk.ZeroDec(), dec("0.8")), marketID(d), cfOf(d), model, dec("0.05"), dec("0.05")))
		}
		cf.prices = []sdk.Dec{dec("1.0"), dec("2.0"), dec("1.0")}
		cf.minBorrow = dec("0")
		w.applyCfg(s.ctx, cf)
		s.beginBlock(0)
		bd := []int{0, 2, 0}[variant] // borrowed denom: cf 10^6, 10^18, 10^6
		unit := pow10(cfExp[bd])
		s.deposit(1, one(bd, new(big.Int).Mul(unit, bi(180))))    // pool cash
		s.deposit(0, one(1, new(big.Int).Mul(pow10(8), bi(100)))) // 100 denb at 2.0
		s.borrow(0, one(bd, new(big.Int).Mul(unit, bi(140))))     // 140 of the 160 limit
		s.beginBlock(365 * 86400)                                 // the borrower does nothing
		if variant == 2 {
			s.beginBlock(30 * 86400)
			s.deposit(2, one(0, new(big.Int).Mul(unit, bi(5)))) // somebody else acts
		}
		o := w.observe(s.ctx)
		pr := s.prices()
		xs, xt := amountFor(s.headroom(0, o), bd, pr[bd]), amountFor(s.headroomSynced(0, o), bd, pr[bd])
		mid := new(big.Int).Rsh(new(big.Int).Add(xs, xt), 1)
		k := w.tApp.GetHardKeeper()
		for _, x := range []*big.Int{mid, new(big.Int).Sub(xs, bi(1)), xs, new(big.Int).Add(xt, bi(2)), new(big.Int).Add(xt, new(big.Int).Rsh(new(big.Int).Sub(xs, xt), 2))} {
			// each candidate on its own copy of the state (an accepted one would change the head room)
			if x.Sign() <= 0 {
				continue
			}
			save, saveFloor := s.ctx, s.floor
			s.ctx, _ = save.CacheContext()
			s.borrow(0, one(bd, x))
			s.ctx, s.floor = save, saveFloor // the log of the discarded branch goes with it
		}
		best := s.largestAccepted(xt, 3, func(x *big.Int) bool {
			return s.try(func(cx sdk.Context) error { return k.Borrow(cx, w.users[0], coinsOf(one(bd, x))) })
		})
		if best != nil {
			s.borrow(0, one(bd, best))
			out.Note("scenario:stale-debt:true-boundary-solved")
		}
		s.liquidate(2, 0)
	}
	out.Note("scenario:stale-debt")
}

// Directed: a money market with open positions is removed from the params and listed again some blocks later, its
// lender and its borrowers doing nothing in between (only begin blockers and the two params changes happen).  The
// claimable amount of the deposits and the owed amount of the loans must not decrease at any step (the delisting
// keeps positions and interest factors in the store; whatever the listing does must respect them), the queries must
// keep working, and at the end the loan is closed for at least what was owed and the lender takes out at least what
// was claimable.  Variants: relisted unchanged / with another interest model and reserve factor / relisted in the
// very next block; user 2 holds positions opened at factors above 1 (a reset factor would make their interest
// negative: the queries and every message of that user would panic).
func (w *world) scenarioRelist(out *c.Out, r *c.Rng) {
	e6, e8 := pow10(6), pow10(8)
	for variant := 0; variant < 3; variant++ {
		s := w.newSeq(out, 5, r)
		w.fund(s.ctx, c.NewRng(1))
		var cf cfgT
		model := hardtypes.NewInterestRateModel(dec("0.05"), dec("2"), dec("0.8"), dec("10"))
		for d := range denoms {
			cf.mms = append(cf.mms, hardtypes.NewMoneyMarket(denoms[d], hardtypes.NewBorrowLimit(false, sdk.ZeroDec(), dec("0.8")), marketID(d), cfOf(d), model, dec("0.05"), dec("0.05")))
		}
		cf.prices = []sdk.Dec{dec("2.0"), dec("1.0"), dec("1.0")}
		cf.minBorrow = dec("10")
		w.applyCfg(s.ctx, cf)
		s.beginBlock(0)
		s.deposit(0, one(0, new(big.Int).Mul(e6, bi(1000)))) // lender: 1000 dena
		s.deposit(1, one(1, new(big.Int).Mul(e8, bi(400))))  // borrower: collateral 400 denb
		s.borrow(1, one(0, new(big.Int).Mul(e6, bi(50))))    // owes 50 dena
		s.beginBlock(365 * 86400)                            // a year of interest: both dena factors above 1
		s.deposit(2, one(0, new(big.Int).Mul(e6, bi(10))))   // positions opened at factors above 1
		s.deposit(2, one(1, new(big.Int).Mul(e8, bi(100))))
		s.borrow(2, one(0, new(big.Int).Mul(e6, bi(20))))
		s.beginBlock(30 * 86400)
		mms := s.paramsMarkets()
		back := *mms[0]
		mms[0] = nil
		s.setParams(mms, cf.minBorrow, "delist", 86400) // governance removes dena; the begin blocker deletes the market
		if variant != 2 {
			s.beginBlock(6)
			s.deposit(3, one(0, e6))                         // a message on the delisted denom: refused
			s.withdraw(0, one(0, e6))                        // the lender cannot be valued: refused
			s.repay(1, 1, one(0, e6))                        // nor can the borrower
			s.borrow(1, one(1, new(big.Int).Mul(e8, bi(1)))) // nor a further loan against a position holding dena debt
			s.liquidate(3, 1)
			s.beginBlock(86400)
		}
		what := "relist"
		if variant == 1 {
			back.InterestRateModel = hardtypes.NewInterestRateModel(dec("0.02"), dec("1.0"), dec("0.5"), dec("0.5"))
			back.ReserveFactor = dec("0.5")
			what = "relist+interest-model+reserve-factor"
		}
		mms = s.paramsMarkets()
		mms[0] = &back
		s.setParams(mms, cf.minBorrow, what, 86400) // governance lists dena again; the begin blocker re-creates the market
		s.beginBlock(6)
		s.beginBlock(86400)
		s.repay(1, 1, one(0, new(big.Int).Mul(e6, bi(150))))  // closes the loan: pays what is owed
		s.withdraw(0, one(0, new(big.Int).Mul(e6, bi(2000)))) // takes out what is claimable (as far as there is cash)
		s.repay(2, 2, one(0, new(big.Int).Mul(e6, bi(150))))  // the positions opened above 1
		s.withdraw(2, one(0, new(big.Int).Mul(e6, bi(2000))))
	}
	out.Note("scenario:relist")
}

// Directed: the LTV of the collateral's money market is lowered by governance while positions are open.  From the
// block in which the new value reaches the store every gate uses it: a position that is now outside may be liquidated,
// one that is still inside may not; a borrow / withdrawal accepted afterwards leaves the position within the NEW
// limit (boundary amounts, probe after each); then the LTV is raised again and the former boundary moves back.
func (w *world) scenarioLtvChange(out *c.Out, r *c.Rng) {
	e6, e8 := pow10(6), pow10(8)
	s := w.newSeq(out, 6, r)
	w.fund(s.ctx, c.NewRng(1))
	var cf cfgT
	model := hardtypes.NewInterestRateModel(dec("0.05"), dec("0.1"), dec("0.8"), dec("0.5"))
	for d := range denoms {
		cf.mms = append(cf.mms, hardtypes.NewMoneyMarket(denoms[d], hardtypes.NewBorrowLimit(false, sdk.ZeroDec(), dec("0.8")), marketID(d), cfOf(d), model, dec("0.05"), dec("0.05")))
	}
	cf.prices = []sdk.Dec{dec("1.0"), dec("2.0"), dec("1.0")}
	cf.minBorrow = dec("0")
	w.applyCfg(s.ctx, cf)
	s.beginBlock(0)
	k := w.tApp.GetHardKeeper()
	s.deposit(3, one(0, new(big.Int).Mul(e6, bi(5))))    // (user 3 may hold little)
	s.deposit(2, one(0, new(big.Int).Mul(e6, bi(1000)))) // pool cash
	s.deposit(0, one(1, new(big.Int).Mul(e8, bi(100))))  // 100 denb at 2.0: limit 160 at LTV 0.8
	s.deposit(1, one(1, new(big.Int).Mul(e8, bi(100))))
	s.borrow(0, one(0, new(big.Int).Mul(e6, bi(150)))) // inside at 0.8, outside at 0.5 (limit 100)
	s.borrow(1, one(0, new(big.Int).Mul(e6, bi(60))))  // inside at both
	s.beginBlock(86400)
	boundary := func(u int) {
		o := w.observe(s.ctx)
		pr := s.prices()
		x0 := amountFor(s.headroomSynced(u, o), 0, pr[0])
		best := s.largestAccepted(x0, 3, func(x *big.Int) bool {
			return s.try(func(cx sdk.Context) error { return k.Borrow(cx, w.users[u], coinsOf(one(0, x))) })
		})
		if best != nil {
			save, saveFloor := s.ctx, s.floor
			s.ctx, _ = save.CacheContext()
			s.borrow(u, one(0, new(big.Int).Add(best, bi(1)))) // one more than the largest accepted: refused
			s.ctx, s.floor = save, saveFloor
			s.borrow(u, one(0, best))
			out.Note("scenario:ltv-change:boundary-solved")
		}
		s.withdraw(u, one(1, bi(1))) // at the boundary even one unit of collateral is too much (or leaves it inside)
	}
	for _, ltv := range []string{"0.5", "0.8", "0.333333333333333333"} {
		mms := s.paramsMarkets()
		mm := *mms[1]
		mm.BorrowLimit.LoanToValue = dec(ltv)
		mms[1] = &mm
		s.setParams(mms, cf.minBorrow, "ltv", 6)
		s.borrow(0, one(0, e6))   // user 0 is outside at 0.5: refused
		s.withdraw(0, one(1, e8)) // and may not take collateral out
		s.liquidate(3, 1)         // user 1: inside at 0.5 and 0.8 (refused), outside at 0.333 (limit 66.6: allowed)
		boundary(1)
		s.liquidate(2, 0) // user 0: outside at 0.5 (allowed)
		s.beginBlock(3600)
	}
	out.Note("scenario:ltv-change")
}

// Pure correspondence of the four sync formulas (SyncSupplyInterest: mul-then-quo, added only when positive;
// SyncBorrowInterest, GetSyncedDeposit, GetSyncedBorrow: quo-then-mul, negative interest panics) on chosen
// (amount, user factor, global factor) triples, including exact factor ratios where the two compositions differ by a
// unit.  The records are written into a discarded context only to call the keeper's own routines: this stream ties
// arithmetic, no property predicate is evaluated on it.
func (w *world) pureSync(out *c.Out, r *c.Rng, n int) {
	k := w.tApp.GetHardKeeper()
	u := w.users[0]
	factors := []string{"1.0", "1.5", "3.0", "2.0", "1.000000000000000001", "1.333333333333333333", "2.999999999999999999", "7.25", "1.1"}
	for i := 0; i < n; i++ {
		d := r.Intn(len(denoms))
		var a *big.Int
		switch r.Intn(5) {
		case 0:
			a = bi(r.Range(1, 12))
		case 1:
			a = new(big.Int).Mul(pow10(r.Intn(22)), bi(r.Range(1, 999)))
		default:
			a = new(big.Int).Add(r.BigBits(80), bi(1))
		}
		ui := dec(c.Pick(r, factors))
		if r.Chance(40) {
			ui = sdk.OneDec().Add(sdk.NewDecFromBigIntWithPrec(r.BigBelow(pow10(18)), 18).MulInt64(r.Range(0, 3)))
		}
		if r.Chance(2) {
			ui = sdk.ZeroDec()
		}
		var g sdk.Dec
		switch r.Intn(8) {
		case 0:
			g = ui
		case 1:
			g = ui.MulInt64(r.Range(2, 3))
		case 2:
			g = ui.Add(sdk.SmallestDec().MulInt64(r.Range(-2, 2)))
		case 3:
			g = dec(c.Pick(r, factors))
		case 4: // a decreased factor
			g = ui.Mul(dec(c.Pick(r, []string{"0.5", "0.999999999999999999", "0.9"})))
		default:
			g = ui.Add(sdk.NewDecFromBigIntWithPrec(r.BigBelow(pow10(18)), 18).MulInt64(r.Range(0, 2)))
		}
		if g.IsNegative() {
			g = sdk.ZeroDec()
		}
		cctx, _ := w.base.CacheContext()
		coins := sdk.NewCoins(sdk.NewCoin(denoms[d], sdkmath.NewIntFromBigInt(a)))
		k.SetSupplyInterestFactor(cctx, denoms[d], g)
		k.SetBorrowInterestFactor(cctx, denoms[d], g)
		k.SetDeposit(cctx, hardtypes.NewDeposit(u, coins, hardtypes.SupplyInterestFactors{hardtypes.NewSupplyInterestFactor(denoms[d], ui)}))
		k.SetBorrow(cctx, hardtypes.NewBorrow(u, coins, hardtypes.BorrowInterestFactors{hardtypes.NewBorrowInterestFactor(denoms[d], ui)}))
		res := make([]string, 4)
		run := func(i int, f func() sdkmath.Int) {
			var v sdkmath.Int
			if p, _ := c.Recover(func() { v = f() }); p {
				res[i] = "p"
			} else {
				res[i] = v.String()
			}
		}
		run(2, func() sdkmath.Int { dp, _ := k.GetSyncedDeposit(cctx, u); return dp.Amount.AmountOf(denoms[d]) })
		run(3, func() sdkmath.Int { br, _ := k.GetSyncedBorrow(cctx, u); return br.Amount.AmountOf(denoms[d]) })
		run(0, func() sdkmath.Int {
			k.SyncSupplyInterest(cctx, u)
			dp, _ := k.GetDeposit(cctx, u)
			return dp.Amount.AmountOf(denoms[d])
		})
		run(1, func() sdkmath.Int {
			k.SyncBorrowInterest(cctx, u)
			br, _ := k.GetBorrow(cctx, u)
			return br.Amount.AmountOf(denoms[d])
		})
		sig := ""
		if i < 400 {
			sig = fmt.Sprintf("cmp=%d|%s", g.BigInt().Cmp(ui.BigInt()), strings.Join([]string{c.B(res[0] == "p"), c.B(res[1] == "p"), c.B(res[2] == "p"), c.B(res[0] != res[2])}, ""))
		}
		out.Case(sig, "c08.sync", a.String(), ui.BigInt().String(), g.BigInt().String(), "=>", res[0], res[1], res[2], res[3])
	}
}

func must(err error) {
	if err != nil {
		panic(err)
	}
}

func main() {
	out := c.NewOut(c.OutPath())
	defer out.Close()
	r := c.NewRng(c.Seed())
	n := c.Budget(400, 4000)
	// app.NewTestApp writes the global sdk.Config (SetSDKConfig) on every call: build every worker's world
	// before any sequence runs, one after the other, so that no keeper reads the config concurrently.
	workers := c.Workers()
	if n < workers {
		workers = n
	}
	worlds := make(chan *world, workers)
	t0 := time.Now()
	for i := 0; i < workers; i++ {
		worlds <- mkWorld()
	}
	out.NoteN("setup-ms", int(time.Since(t0).Milliseconds()))
	kapp.RunSeqs(n, workers, r, func() *world { return <-worlds }, func(w *world, seq int, r *c.Rng) { w.seq(out, seq, r) })
}
