// num: ties the Lean Dec/Int model (KavaVerif/Num/Dec.lean) to cosmossdk.io/math as pinned by /repo.
package main

import (
	"math/big"

	sdkmath "cosmossdk.io/math"

	c "kavaverif/harness/common"
)

var P = new(big.Int).Exp(big.NewInt(10), big.NewInt(18), nil)

func operand(r *c.Rng) *big.Int {
	var x *big.Int
	switch r.Intn(8) {
	case 0: // small
		x = big.NewInt(r.Range(0, 1000))
	case 1: // near a multiple of 10^18 / half
		k := big.NewInt(r.Range(0, 50))
		x = new(big.Int).Mul(k, P)
		x.Add(x, big.NewInt(r.Range(-2, 2)))
		if r.Bool() {
			x.Add(x, new(big.Int).Div(P, big.NewInt(2)))
		}
	case 2: // 36-digit mantissas
		x = r.BigBits(120)
	case 3:
		x = r.BigBits(64)
	case 4: // exactly k*10^18 (integers)
		x = new(big.Int).Mul(big.NewInt(r.Range(0, 1000000)), P)
	case 5: // tie makers: odd/even * 5e17
		x = new(big.Int).Mul(big.NewInt(r.Range(0, 2000)), new(big.Int).Div(P, big.NewInt(2)))
	case 6:
		x = r.BigBits(200)
	default:
		x = r.BigBits(30)
	}
	if r.Chance(25) {
		x.Neg(x)
	}
	return x
}

func dec(x *big.Int) sdkmath.LegacyDec { return sdkmath.LegacyNewDecFromBigIntWithPrec(x, 18) }

func main() {
	out := c.NewOut(c.OutPath())
	defer out.Close()
	r := c.NewRng(c.Seed())
	n := c.Budget(20000, 2000000)
	type op struct {
		name string
		f    func(a, b sdkmath.LegacyDec) *big.Int
		div  bool
	}
	ops := []op{
		{"num.mul", func(a, b sdkmath.LegacyDec) *big.Int { return a.Mul(b).BigInt() }, false},
		{"num.multrunc", func(a, b sdkmath.LegacyDec) *big.Int { return a.MulTruncate(b).BigInt() }, false},
		{"num.mulroundup", func(a, b sdkmath.LegacyDec) *big.Int { return a.MulRoundUp(b).BigInt() }, false},
		{"num.quo", func(a, b sdkmath.LegacyDec) *big.Int { return a.Quo(b).BigInt() }, true},
		{"num.quotrunc", func(a, b sdkmath.LegacyDec) *big.Int { return a.QuoTruncate(b).BigInt() }, true},
		{"num.quoroundup", func(a, b sdkmath.LegacyDec) *big.Int { return a.QuoRoundUp(b).BigInt() }, true},
		{"num.mulint", func(a, b sdkmath.LegacyDec) *big.Int { return a.MulInt(sdkmath.NewIntFromBigInt(b.BigInt())).BigInt() }, false},
		{"num.quoint", func(a, b sdkmath.LegacyDec) *big.Int { return a.QuoInt(sdkmath.NewIntFromBigInt(b.BigInt())).BigInt() }, true},
		{"num.intquo", func(a, b sdkmath.LegacyDec) *big.Int {
			return sdkmath.NewIntFromBigInt(a.BigInt()).Quo(sdkmath.NewIntFromBigInt(b.BigInt())).BigInt()
		}, true},
		{"num.intmod", func(a, b sdkmath.LegacyDec) *big.Int {
			return sdkmath.NewIntFromBigInt(a.BigInt()).Mod(sdkmath.NewIntFromBigInt(b.BigInt())).BigInt()
		}, true},
	}
	for i := 0; i < n; i++ {
		a, b := operand(r), operand(r)
		o := ops[r.Intn(len(ops))]
		if o.div && b.Sign() == 0 {
			continue
		}
		if o.name == "num.intmod" && b.Sign() < 0 {
			b.Neg(b)
		}
		var res *big.Int
		if p, _ := c.Recover(func() { res = o.f(dec(a), dec(b)) }); p {
			out.Note("overflow-panic")
			continue
		}
		sig := ""
		if i < 4000 { // signature: op, signs, whether rounding tie
			sig = "s" + c.B(a.Sign() < 0) + c.B(b.Sign() < 0)
		}
		out.Case(sig, o.name, a.String(), b.String(), res.String())
		if i%5 == 0 {
			d := dec(a)
			out.Case("", "num.roundint", a.String(), d.RoundInt().String())
			out.Case("", "num.truncint", a.String(), d.TruncateInt().String())
			if p, _ := c.Recover(func() { res = d.Ceil().BigInt() }); !p {
				out.Case("", "num.ceil", a.String(), res.String())
			}
		}
	}
}
