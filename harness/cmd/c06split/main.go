// c06split: ties the Lean model of x/auction's splitIntIntoWeightedBuckets (and of the minimum
// increment expression) to the real code.  Pure: links only x/auction/keeper through the verif hook
// VerifSplitIntIntoWeightedBuckets.  Every real output is checked by the Lean predicate IsLRSplit.
package main

import (
	"fmt"
	"math/big"
	"strings"

	sdkmath "cosmossdk.io/math"
	sdk "github.com/cosmos/cosmos-sdk/types"

	auctionkeeper "github.com/kava-labs/kava/x/auction/keeper"

	c "kavaverif/harness/common"
)

func toInts(xs []*big.Int) []sdkmath.Int {
	out := make([]sdkmath.Int, len(xs))
	for i, x := range xs {
		out[i] = sdkmath.NewIntFromBigInt(x)
	}
	return out
}

// one case: run the real function (a panic is a result class), print it
func emit(out *c.Out, amount *big.Int, ws []*big.Int, class string) {
	var res []sdkmath.Int
	panicked, _ := c.Recover(func() {
		res = auctionkeeper.VerifSplitIntIntoWeightedBuckets(sdkmath.NewIntFromBigInt(amount), toInts(ws))
	})
	if panicked {
		out.Case("panic|"+class, "c06.split", amount.String(), c.Ints(ws), "=>", "panic")
		return
	}
	parts := make([]*big.Int, len(res))
	for i, r := range res {
		parts[i] = r.BigInt()
	}
	// branch signature: bucket count class, leftover class, tie at the cut, zero weight present
	W := new(big.Int)
	for _, w := range ws {
		W.Add(W, w)
	}
	left := new(big.Int).Set(amount)
	rems := make([]*big.Int, len(ws))
	zero := false
	for i, w := range ws {
		p := new(big.Int).Mul(amount, w)
		q, r := new(big.Int).QuoRem(p, W, new(big.Int))
		left.Sub(left, q)
		rems[i] = r
		if w.Sign() == 0 {
			zero = true
		}
	}
	// a tie at the cut: a bucket with the extra unit and one without have the same remainder
	tie := false
	for i := range ws {
		for j := range ws {
			ei := new(big.Int).Sub(parts[i], new(big.Int).Quo(new(big.Int).Mul(amount, ws[i]), W))
			ej := new(big.Int).Sub(parts[j], new(big.Int).Quo(new(big.Int).Mul(amount, ws[j]), W))
			if ei.Sign() == 1 && ej.Sign() == 0 && rems[i].Cmp(rems[j]) == 0 {
				tie = true
			}
		}
	}
	nb := len(ws)
	if nb > 12 {
		nb = 13 // sort.Slice leaves insertion sort: order among ties no longer index order
	}
	lc := left.String()
	if left.Cmp(big.NewInt(3)) > 0 {
		lc = ">3"
	}
	sig := fmt.Sprintf("%s|n=%d|left=%s|tie=%v|zero=%v", class, nb, lc, tie, zero)
	out.Case(sig, "c06.split", amount.String(), c.Ints(ws), "=>", c.Ints(parts))
}

func bi(x int64) *big.Int { return big.NewInt(x) }

func main() {
	out := c.NewOut(c.OutPath())
	defer out.Close()
	r := c.NewRng(c.Seed())

	// ---- the four panics
	emit(out, bi(-1), []*big.Int{bi(1), bi(2)}, "guard")
	emit(out, bi(5), []*big.Int{}, "guard")
	emit(out, bi(5), []*big.Int{bi(1), bi(-2), bi(4)}, "guard")
	emit(out, bi(5), []*big.Int{bi(0), bi(0)}, "guard")
	emit(out, bi(0), []*big.Int{bi(0)}, "guard")

	// ---- exhaustive small domain: amount ≤ 60, 1..4 buckets, weights 0..6 (every input)
	maxAmt, maxW := int64(60), int64(6)
	for n := 1; n <= 4; n++ {
		ws := make([]int64, n)
		var rec func(k int)
		rec = func(k int) {
			if k == n {
				wb := make([]*big.Int, n)
				for i, w := range ws {
					wb[i] = bi(w)
				}
				for a := int64(0); a <= maxAmt; a++ {
					emit(out, bi(a), wb, "exhaustive")
				}
				return
			}
			for w := int64(0); w <= maxW; w++ {
				ws[k] = w
				rec(k + 1)
			}
		}
		rec(0)
	}

	// ---- random large inputs, biased to ties (equal weights, weights with common factors), zero
	//      weights and > 12 buckets (where the sort is no longer stable)
	n := c.Budget(6000, 200000)
	for i := 0; i < n; i++ {
		var nb int
		switch r.Intn(4) {
		case 0:
			nb = int(r.Range(1, 4))
		case 1:
			nb = int(r.Range(5, 12))
		case 2:
			nb = int(r.Range(13, 40))
		default:
			nb = int(r.Range(1, 24))
		}
		ws := make([]*big.Int, nb)
		mode := r.Intn(6)
		base := r.BigBits(90)
		for k := range ws {
			switch mode {
			case 0: // all equal
				ws[k] = new(big.Int).Set(base)
			case 1: // few distinct values: many equal remainders
				ws[k] = bi(r.Range(0, 3))
			case 2: // multiples of a common base
				ws[k] = new(big.Int).Mul(base, bi(r.Range(0, 4)))
			case 3:
				ws[k] = r.BigBits(200)
			case 4: // mostly zero
				if r.Chance(70) {
					ws[k] = bi(0)
				} else {
					ws[k] = r.BigBits(64)
				}
			default:
				ws[k] = r.BigBits(40)
			}
		}
		var amount *big.Int
		switch r.Intn(6) {
		case 0:
			amount = bi(r.Range(0, 5))
		case 1: // a multiple of the total weight ± 1: leftover 0 / tiny remainders
			W := new(big.Int)
			for _, w := range ws {
				W.Add(W, w)
			}
			amount = new(big.Int).Mul(W, bi(r.Range(0, 9)))
			amount.Add(amount, bi(r.Range(-1, 1)))
			if amount.Sign() < 0 {
				amount = bi(0)
			}
		case 2:
			amount = r.BigBits(200)
		case 3: // half the number of buckets: ties at the cut for equal weights
			amount = bi(int64(nb)/2 + r.Range(0, 1)*int64(nb))
		default:
			amount = r.BigBits(70)
		}
		emit(out, amount, ws, "random")
	}

	// ---- the minimum increment expression MaxInt(1, NewDecFromInt(old).Mul(inc).RoundInt())
	incs := []string{"0", "0.000000000000000001", "0.05", "0.1", "0.5", "0.333333333333333333", "1", "0.049999999999999999", "2.5"}
	m := c.Budget(3000, 100000)
	for i := 0; i < m; i++ {
		inc := sdk.MustNewDecFromStr(incs[r.Intn(len(incs))])
		var old *big.Int
		switch r.Intn(5) {
		case 0:
			old = bi(r.Range(0, 40))
		case 1: // around the rounding ties of 5 %: old*0.05 = k + 0.5  <=> old = 20k + 10
			old = bi(20*r.Range(0, 1000) + 10 + r.Range(-1, 1))
		case 2:
			old = r.BigBits(120)
		case 3: // ties of 50 %: odd numbers
			old = bi(2*r.Range(0, 100000) + 1)
		default:
			old = r.BigBits(40)
		}
		o := sdkmath.NewIntFromBigInt(old)
		v := sdk.MaxInt(sdkmath.NewInt(1), sdk.NewDecFromInt(o).Mul(inc).RoundInt())
		sig := ""
		if i < 200 {
			sig = fmt.Sprintf("inc=%s|one=%v", strings.TrimRight(inc.String(), "0"), v.Equal(sdkmath.OneInt()))
		}
		out.Case(sig, "c06.inc", old.String(), inc.BigInt().String(), "=>", v.String())
	}
}
