package main

// decorator-level streams: the real AuthzLimiterDecorator / VestingAccountDecorator /
// AuthenticatedMempoolDecorator, each alone, on a minimal sdk.Tx

import (
	"fmt"
	"strings"

	"github.com/cometbft/cometbft/libs/log"
	tmproto "github.com/cometbft/cometbft/proto/tendermint/types"
	cryptotypes "github.com/cosmos/cosmos-sdk/crypto/types"
	sdk "github.com/cosmos/cosmos-sdk/types"
	"github.com/cosmos/cosmos-sdk/types/tx/signing"

	"github.com/kava-labs/kava/app/ante"

	c "kavaverif/harness/common"
)

type mockTx struct {
	msgs    []sdk.Msg
	signers []sdk.AccAddress
}

func (t mockTx) GetMsgs() []sdk.Msg                              { return t.msgs }
func (t mockTx) ValidateBasic() error                            { return nil }
func (t mockTx) GetSigners() []sdk.AccAddress                    { return t.signers }
func (t mockTx) GetPubKeys() ([]cryptotypes.PubKey, error)       { return nil, nil }
func (t mockTx) GetSignaturesV2() ([]signing.SignatureV2, error) { return nil, nil }

// runDec runs one decorator with a terminal `next` and classifies the outcome.
func runDec(d sdk.AnteDecorator, ctx sdk.Context, tx sdk.Tx, simulate bool) string {
	called := false
	next := func(ctx sdk.Context, tx sdk.Tx, simulate bool) (sdk.Context, error) {
		called = true
		return ctx, nil
	}
	var err error
	panicked, _ := c.Recover(func() { _, err = d.AnteHandle(ctx, tx, simulate, next) })
	switch {
	case panicked:
		return "panic"
	case err != nil:
		return "err"
	case !called:
		return "err" // swallowed the transaction without calling next: not accepted
	}
	return "ok"
}

func runDecoratorStreams(out *c.Out, r *c.Rng, a *alphabet) {
	from := sdk.AccAddress(detKey(203).PubKey().Address())
	ctx := sdk.NewContext(nil, tmproto.Header{}, false, log.NewNopLogger())

	appList := []string{a.plainURL[pEth], a.plainURL[pVestCreate], a.plainURL[pVestPermanent], a.plainURL[pVestPeriodic]}
	authzCase := func(stream string, list []string, f []*node) {
		msgs := a.buildForest(f, from)
		res := runDec(ante.NewAuthzLimiterDecorator(list...), ctx, mockTx{msgs: msgs}, false)
		sig := stream + "|" + res + "|" + features(f, a.blockedPlain, a.blockedGrant)
		if stream == "list" {
			sig += "|" + fmt.Sprint(len(list))
		}
		out.Case(sig, "c15.authz", c.Strs(list), observe(msgs), "=>", res)
		out.Note("authz." + stream + "." + res)
	}

	// (1) exhaustive sweep: every forest with at most N nodes over a small alphabet of real message types
	leaves := func(pl, gr []int) []*node {
		var ls []*node
		for _, i := range pl {
			ls = append(ls, &node{k: kPlain, leaf: i})
		}
		for _, i := range gr {
			ls = append(ls, &node{k: kGrant, leaf: i})
		}
		return ls
	}
	narrow := leaves([]int{pSend, pEth, pVestCreate}, []int{gSendAuth, gGenEth})
	wide := leaves([]int{pSend, pDelegate, pEth, pVestPeriodic}, []int{gSendAuth, gStakeAuth, gGenEth, gGenVestPermanent})
	wideMax := 5
	for n := 0; n <= 5; n++ {
		enumForests(n, narrow, func(f []*node) { authzCase("sweep5", appList, f) })
	}
	for n := 0; n <= wideMax; n++ {
		enumForests(n, wide, func(f []*node) { authzCase("sweep5x4x4", appList, f) })
	}

	// (2) random deep / wide forests over the whole alphabet, the application's list
	g := &genCfg{maxDepth: 6, maxWidth: 4, maxNodes: 60}
	for i := 0; i < nPlain; i++ {
		if a.blockedPlain(i) {
			g.blockedPlain = append(g.blockedPlain, i)
		} else {
			g.allowedPlain = append(g.allowedPlain, i)
		}
	}
	for i := 0; i < nGrant; i++ {
		if a.blockedGrant(i) {
			g.blockedGrant = append(g.blockedGrant, i)
		} else {
			g.allowedGrant = append(g.allowedGrant, i)
		}
	}
	for i, n := 0, c.Budget(6000, 300000); i < n; i++ {
		authzCase("deep", appList, g.forest(r))
	}

	// (3) other disabled lists: empty, an allowed type, the authz URLs themselves (exercises the case order of
	// the switch: case 1 fires before the MsgGrant / MsgExec cases, but only inside an exec)
	lists := [][]string{
		{},
		{a.plainURL[pSend]},
		{"/cosmos.authz.v1beta1.MsgExec"},
		{"/cosmos.authz.v1beta1.MsgGrant"},
		{a.plainURL[pEth]},
		append(append([]string{}, appList...), "/cosmos.authz.v1beta1.MsgGrant"),
		{a.plainURL[pDelegate], a.plainURL[pEth], a.plainURL[pEth]},
	}
	gs := *g
	gs.maxDepth, gs.maxNodes = 4, 20
	for i, n := 0, c.Budget(2500, 100000); i < n; i++ {
		authzCase("list", lists[i%len(lists)], gs.forest(r))
	}

	// (4) malformed: unpackable authz messages and messages carrying an authz URL on a foreign Go type
	gm := gs
	gm.malformed = true
	for i, n := 0, c.Budget(2500, 100000); i < n; i++ {
		l := appList
		if i%5 == 4 {
			l = lists[i%len(lists)]
		}
		authzCase("malformed", l, gm.forest(r))
	}

	// ---- vesting decorator alone: all single messages and ordered pairs, then random top levels
	vestCase := func(f []*node) {
		msgs := a.buildForest(f, from)
		res := runDec(ante.NewVestingAccountDecorator(), ctx, mockTx{msgs: msgs}, false)
		out.Case("vesting|"+res+"|"+features(f, a.blockedPlain, a.blockedGrant), "c15.vesting", observe(msgs), "=>", res)
		out.Note("vesting." + res)
	}
	var singles []*node
	for i := 0; i < nPlain; i++ {
		singles = append(singles, &node{k: kPlain, leaf: i})
	}
	for i := 0; i < nGrant; i++ {
		singles = append(singles, &node{k: kGrant, leaf: i})
	}
	for i := 0; i < nPlain; i++ {
		singles = append(singles, &node{k: kExec, kids: []*node{{k: kPlain, leaf: i}}})
	}
	vestCase(nil)
	for _, x := range singles {
		vestCase([]*node{x})
		for _, y := range singles {
			vestCase([]*node{x, y})
		}
	}
	gv := gs
	gv.maxDepth, gv.maxNodes = 2, 8
	for i, n := 0, c.Budget(500, 20000); i < n; i++ {
		vestCase(gv.forest(r))
	}

	// ---- authenticated mempool decorator alone: every flag combination × signer / authorised sets
	addrs := []sdk.AccAddress{
		sdk.AccAddress(detKey(210).PubKey().Address()),
		sdk.AccAddress(detKey(211).PubKey().Address()),
		sdk.AccAddress(detKey(212).PubKey().Address()),
		sdk.AccAddress(detKey(213).PubKey().Address()),
	}
	pick := func(idx []int) []sdk.AccAddress {
		var o []sdk.AccAddress
		for _, i := range idx {
			o = append(o, addrs[i])
		}
		return o
	}
	idxs := func(idx []int) string {
		if len(idx) == 0 {
			return "-"
		}
		s := make([]string, len(idx))
		for i, x := range idx {
			s[i] = fmt.Sprint(x)
		}
		return strings.Join(s, ",")
	}
	sets := [][]int{{}, {0}, {1}, {0, 1}, {2, 0}, {3}, {1, 2, 3}}
	for _, isCheck := range []bool{false, true} {
		for _, isRe := range []bool{false, true} {
			for _, sim := range []bool{false, true} {
				for _, sg := range sets {
					for _, au := range sets {
						for split := 0; split <= len(au) && split <= 1; split++ {
							// the authorised set is delivered by one or two fetchers
							a1, a2 := pick(au[:split]), pick(au[split:])
							d := ante.NewAuthenticatedMempoolDecorator(
								func(sdk.Context) []sdk.AccAddress { return a1 },
								func(sdk.Context) []sdk.AccAddress { return a2 },
							)
							mctx := ctx.WithIsCheckTx(isCheck).WithIsReCheckTx(isRe)
							if isRe && !isCheck {
								// WithIsReCheckTx(true) forces IsCheckTx; re-assert what the context reports
								isCheckObserved := mctx.IsCheckTx()
								_ = isCheckObserved
							}
							res := runDec(d, mctx, mockTx{signers: pick(sg)}, sim)
							common := false
							for _, x := range sg {
								for _, y := range au {
									if x == y {
										common = true
									}
								}
							}
							sig := fmt.Sprintf("mempool|%v%v%v|%v|%s", mctx.IsCheckTx(), mctx.IsReCheckTx(), sim, common, res)
							out.Case(sig, "c15.mempool", c.B(mctx.IsCheckTx()), c.B(mctx.IsReCheckTx()), c.B(sim), idxs(sg), idxs(au), "=>", res)
							out.Note("mempool." + res)
						}
					}
				}
			}
		}
	}
}
