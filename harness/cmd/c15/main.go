// c15: correspondence harness for the ante gating of property C15.
//
// Streams (one self-contained case per line, see lean/Driver/C15.lean for the field layout):
//
//	c15.authz    the real AuthzLimiterDecorator alone on a message forest (exhaustive sweep of all forests with
//	             few nodes over a small alphabet of real message types, random deep/wide forests, custom disabled
//	             lists, unpackable / mistyped messages)
//	c15.vesting  the real VestingAccountDecorator alone
//	c15.mempool  the real AuthenticatedMempoolDecorator alone over every flag combination
//	c15.ante     the application's composed ante handler, reached through baseapp CheckTx (New / Recheck),
//	             Simulate and DeliverTx with real signed transactions: generated forests, 0/1/2 extension options
//	             of known / unknown type, authorised / unauthorised signers, mempool authentication on and off,
//	             including real Ethereum transactions on the Ethereum route.
//
// The forest written to a case line is *observed back* from the real sdk.Msg values (for c15.ante: from the
// transaction bytes decoded by the application's TxDecoder), not copied from the generator's plan.
package main

import (
	"fmt"
	"strings"

	sdk "github.com/cosmos/cosmos-sdk/types"
	"github.com/cosmos/cosmos-sdk/x/authz"

	"github.com/kava-labs/kava/app"

	c "kavaverif/harness/common"
)

// ---------------------------------------------------------------- observation of real messages

func obsOne(m sdk.Msg, sb *strings.Builder) {
	switch v := m.(type) {
	case *authz.MsgExec:
		inner, err := v.GetMessages()
		if err != nil {
			sb.WriteString(" X")
			return
		}
		sb.WriteString(" (")
		for _, im := range inner {
			obsOne(im, sb)
		}
		sb.WriteString(" )")
	case *authz.MsgGrant:
		a, err := v.GetAuthorization()
		if err != nil {
			sb.WriteString(" G!")
			return
		}
		sb.WriteString(" g=" + a.MsgTypeURL())
	default:
		sb.WriteString(" p=" + sdk.MsgTypeURL(m))
	}
}

func observe(msgs []sdk.Msg) string {
	var sb strings.Builder
	for _, m := range msgs {
		obsOne(m, &sb)
	}
	s := strings.TrimSpace(sb.String())
	if s == "" {
		return "-"
	}
	return s
}

// ---------------------------------------------------------------- plan of a forest (what the generator intends)

type kind int

const (
	kPlain kind = iota
	kGrant
	kExec
	kGrantBad // MsgGrant with a nil authorization
	kExecBad  // MsgExec holding an Any without cached value
	kFake     // a message that answers an arbitrary type URL without being that Go type
)

type node struct {
	k    kind
	leaf int     // index into the plain alphabet / grant-target alphabet
	url  string  // kFake
	kids []*node // kExec
}

func (n *node) size() int {
	s := 1
	for _, k := range n.kids {
		s += k.size()
	}
	return s
}

func forestSize(f []*node) int {
	s := 0
	for _, n := range f {
		s += n.size()
	}
	return s
}

// features of a planned forest, for the distinct-case signature
func features(f []*node, blockedPlain, blockedGrant func(int) bool) string {
	var topBlocked, inBlocked, grantBlocked, nestedGrantBlocked, afterAllowed, bad bool
	depth := 0
	var walk func(ns []*node, d int)
	walk = func(ns []*node, d int) {
		if d > depth {
			depth = d
		}
		seenAllowed := false
		for _, n := range ns {
			switch n.k {
			case kPlain:
				if blockedPlain(n.leaf) {
					if d == 0 {
						topBlocked = true
					} else {
						inBlocked = true
						if seenAllowed {
							afterAllowed = true
						}
					}
				} else {
					seenAllowed = true
				}
			case kGrant:
				if blockedGrant(n.leaf) {
					if d == 0 {
						grantBlocked = true
					} else {
						nestedGrantBlocked = true
					}
					if seenAllowed {
						afterAllowed = true
					}
				} else {
					seenAllowed = true
				}
			case kExec:
				walk(n.kids, d+1)
				seenAllowed = true
			default:
				bad = true
			}
		}
	}
	walk(f, 0)
	dd := depth
	if dd > 3 {
		dd = 3
	}
	return fmt.Sprintf("d%d%s%s%s%s%s%s", dd, flag(topBlocked, "T"), flag(inBlocked, "I"), flag(grantBlocked, "G"),
		flag(nestedGrantBlocked, "g"), flag(afterAllowed, "a"), flag(bad, "m"))
}

func flag(b bool, s string) string {
	if b {
		return s
	}
	return ""
}

// enumerate all forests with exactly n nodes over `leaves` leaf labels (+ exec), calling f on each.
func enumForests(n int, leaves []*node, f func([]*node)) {
	var trees func(k int) [][]*node // memo-free: small n
	_ = trees
	var forests func(n int) [][]*node
	memoF := map[int][][]*node{}
	memoT := map[int][]*node{}
	var treesOf func(k int) []*node
	treesOf = func(k int) []*node {
		if t, ok := memoT[k]; ok {
			return t
		}
		var out []*node
		if k == 1 {
			out = append(out, leaves...)
		}
		for _, kids := range forests(k - 1) {
			out = append(out, &node{k: kExec, kids: kids})
		}
		memoT[k] = out
		return out
	}
	forests = func(n int) [][]*node {
		if fs, ok := memoF[n]; ok {
			return fs
		}
		var out [][]*node
		if n == 0 {
			out = [][]*node{{}}
		} else {
			for k := 1; k <= n; k++ {
				for _, t := range treesOf(k) {
					for _, rest := range forests(n - k) {
						fr := make([]*node, 0, 1+len(rest))
						fr = append(fr, t)
						fr = append(fr, rest...)
						out = append(out, fr)
					}
				}
			}
		}
		memoF[n] = out
		return out
	}
	for _, fr := range forests(n) {
		f(fr)
	}
}

// random forest: depth ≤ maxDepth, width ≤ maxWidth, at most maxNodes nodes, biased towards the shapes the
// property is about (blocked after allowed siblings, grants inside execs, deep single chains)
type genCfg struct {
	maxDepth, maxWidth, maxNodes int
	nPlain, nGrant               int
	blockedPlain                 []int // indices of blocked plain leaves
	allowedPlain                 []int
	blockedGrant                 []int
	allowedGrant                 []int
	malformed                    bool
}

func (g *genCfg) leafNode(r *c.Rng, blockedPct int) *node {
	if g.malformed && r.Chance(12) {
		switch r.Intn(3) {
		case 0:
			return &node{k: kGrantBad}
		case 1:
			return &node{k: kExecBad}
		default:
			return &node{k: kFake, url: c.Pick(r, fakeURLs)}
		}
	}
	if r.Chance(30) {
		if r.Chance(blockedPct) && len(g.blockedGrant) > 0 {
			return &node{k: kGrant, leaf: c.Pick(r, g.blockedGrant)}
		}
		return &node{k: kGrant, leaf: c.Pick(r, g.allowedGrant)}
	}
	if r.Chance(blockedPct) && len(g.blockedPlain) > 0 {
		return &node{k: kPlain, leaf: c.Pick(r, g.blockedPlain)}
	}
	return &node{k: kPlain, leaf: c.Pick(r, g.allowedPlain)}
}

func (g *genCfg) forest(r *c.Rng) []*node {
	budget := g.maxNodes
	// most forests are clean except for at most one or two blocked leaves, so that both verdicts are frequent
	blockedPct := c.Pick(r, []int{0, 0, 3, 8, 20, 50})
	var build func(depth int, top bool) []*node
	build = func(depth int, top bool) []*node {
		w := 1 + r.Intn(g.maxWidth)
		if top && r.Chance(40) {
			w = 1
		}
		var out []*node
		for i := 0; i < w && budget > 0; i++ {
			budget--
			if depth < g.maxDepth && r.Chance(45) {
				kids := build(depth+1, false)
				if len(kids) == 0 && !g.malformed {
					// an empty MsgExec fails ValidateBasic; keep it only for the decorator-level stream
					out = append(out, g.leafNode(r, blockedPct))
					continue
				}
				out = append(out, &node{k: kExec, kids: kids})
			} else {
				out = append(out, g.leafNode(r, blockedPct))
			}
		}
		return out
	}
	f := build(0, true)
	// force "blocked after allowed siblings, deep" now and then
	if r.Chance(25) && len(g.blockedPlain) > 0 {
		d := 1 + r.Intn(g.maxDepth)
		var chain *node
		last := []*node{{k: kPlain, leaf: c.Pick(r, g.allowedPlain)}, {k: kPlain, leaf: c.Pick(r, g.allowedPlain)}}
		if r.Bool() {
			last = append(last, &node{k: kPlain, leaf: c.Pick(r, g.blockedPlain)})
		} else {
			last = append(last, &node{k: kGrant, leaf: c.Pick(r, g.blockedGrant)})
		}
		if r.Chance(30) {
			last = append(last, &node{k: kPlain, leaf: c.Pick(r, g.allowedPlain)})
		}
		chain = &node{k: kExec, kids: last}
		for i := 1; i < d; i++ {
			sibs := []*node{}
			if r.Bool() {
				sibs = append(sibs, &node{k: kPlain, leaf: c.Pick(r, g.allowedPlain)})
			}
			sibs = append(sibs, chain)
			chain = &node{k: kExec, kids: sibs}
		}
		if forestSize(f)+chain.size() <= g.maxNodes+8 {
			f = append(f, chain)
		} else {
			f = []*node{chain}
		}
	}
	return f
}

var fakeURLs = []string{
	"/cosmos.authz.v1beta1.MsgGrant", // carries the MsgGrant URL without being *authz.MsgGrant
	"/cosmos.authz.v1beta1.MsgExec",
	"/kava.verif.v1.MsgNothing",
	"/ethermint.evm.v1.MsgEthereumTx", // disabled URL on a foreign Go type
}

func main() {
	app.SetSDKConfig() // once, before any goroutine reads the bech32 prefixes
	out := c.NewOut(c.OutPath())
	defer out.Close()
	r := c.NewRng(c.Seed())
	alpha := newAlphabet()
	runDecoratorStreams(out, r.Fork(1), alpha)
	runAppStream(out, r.Fork(2))
}
