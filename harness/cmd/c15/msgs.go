package main

// the alphabet of real message types and authorizations the generators draw from

import (
	"math/big"
	"time"

	codectypes "github.com/cosmos/cosmos-sdk/codec/types"
	"github.com/cosmos/cosmos-sdk/crypto/keys/secp256k1"
	sdk "github.com/cosmos/cosmos-sdk/types"
	vestingtypes "github.com/cosmos/cosmos-sdk/x/auth/vesting/types"
	"github.com/cosmos/cosmos-sdk/x/authz"
	banktypes "github.com/cosmos/cosmos-sdk/x/bank/types"
	stakingtypes "github.com/cosmos/cosmos-sdk/x/staking/types"
	"github.com/ethereum/go-ethereum/common"
	ethtypes "github.com/ethereum/go-ethereum/core/types"
	"github.com/evmos/ethermint/crypto/ethsecp256k1"
	"github.com/evmos/ethermint/tests"
	evmtypes "github.com/evmos/ethermint/x/evm/types"
)

// the types the prose of C15 names (used only to bias the generators and to label cases; the verdict on a
// case is taken by the Lean driver)
var specBlocked = map[string]bool{
	"/ethermint.evm.v1.MsgEthereumTx":                         true,
	"/cosmos.vesting.v1beta1.MsgCreateVestingAccount":         true,
	"/cosmos.vesting.v1beta1.MsgCreatePermanentLockedAccount": true,
	"/cosmos.vesting.v1beta1.MsgCreatePeriodicVestingAccount": true,
}

const (
	pSend = iota
	pDelegate
	pEth
	pVestCreate
	pVestPeriodic
	pVestPermanent
	pRevoke
	nPlain
)

const (
	gSendAuth = iota
	gStakeAuth
	gGenEth
	gGenVestCreate
	gGenVestPeriodic
	gGenVestPermanent
	gGenSend
	gGenExec
	nGrant
)

type alphabet struct {
	other  sdk.AccAddress // counterparty of every message
	val    sdk.ValAddress
	ethMsg *evmtypes.MsgEthereumTx
	expiry time.Time

	plainURL [nPlain]string
	grantURL [nGrant]string
}

func detKey(seed byte) *secp256k1.PrivKey {
	b := make([]byte, 32)
	for i := range b {
		b[i] = seed + byte(i)*7 + 1
	}
	return secp256k1.GenPrivKeyFromSecret(b)
}

func detEthKey(seed byte) *ethsecp256k1.PrivKey {
	b := make([]byte, 32)
	for i := range b {
		b[i] = seed ^ (byte(i)*13 + 5)
	}
	b[0] = 1
	return &ethsecp256k1.PrivKey{Key: b}
}

// signedEthMsg builds a protected legacy transfer signed by priv (valid for ValidateBasic and for the eth route).
func signedEthMsg(chainID *big.Int, priv *ethsecp256k1.PrivKey, nonce uint64, gasPrice *big.Int) *evmtypes.MsgEthereumTx {
	to := common.BytesToAddress([]byte("c15-verif-recipient-"))
	msg := evmtypes.NewTx(chainID, nonce, &to, big.NewInt(1), 100000, gasPrice, nil, nil, nil, nil)
	from := common.BytesToAddress(priv.PubKey().Address().Bytes())
	msg.From = from.Hex()
	if err := msg.Sign(ethtypes.LatestSignerForChainID(chainID), tests.NewSigner(priv)); err != nil {
		panic(err)
	}
	msg.From = "" // a valid MsgEthereumTx inside a cosmos transaction carries no From
	return msg
}

func newAlphabet() *alphabet {
	a := &alphabet{}
	a.other = sdk.AccAddress(detKey(200).PubKey().Address())
	a.val = sdk.ValAddress(detKey(201).PubKey().Address())
	a.ethMsg = signedEthMsg(big.NewInt(2221), detEthKey(77), 0, big.NewInt(1_000_000_000))
	a.expiry = time.Date(9000, 1, 1, 0, 0, 0, 0, time.UTC)
	probe := sdk.AccAddress(detKey(202).PubKey().Address())
	for i := 0; i < nPlain; i++ {
		a.plainURL[i] = sdk.MsgTypeURL(a.plain(i, probe))
	}
	for i := 0; i < nGrant; i++ {
		a.grantURL[i] = a.auth(i).MsgTypeURL()
	}
	return a
}

func ukava(n int64) sdk.Coins { return sdk.NewCoins(sdk.NewInt64Coin("ukava", n)) }

func (a *alphabet) plain(i int, from sdk.AccAddress) sdk.Msg {
	switch i {
	case pSend:
		return banktypes.NewMsgSend(from, a.other, ukava(1))
	case pDelegate:
		return stakingtypes.NewMsgDelegate(from, a.val, sdk.NewInt64Coin("ukava", 1))
	case pEth:
		m := *a.ethMsg // GetSigners() writes the recovered sender into From: never share the value
		return &m
	case pVestCreate:
		return vestingtypes.NewMsgCreateVestingAccount(from, a.other, ukava(1), a.expiry.Unix(), false)
	case pVestPeriodic:
		return vestingtypes.NewMsgCreatePeriodicVestingAccount(from, a.other, 1_700_000_000,
			[]vestingtypes.Period{{Length: 100, Amount: ukava(1)}})
	case pVestPermanent:
		return vestingtypes.NewMsgCreatePermanentLockedAccount(from, a.other, ukava(1))
	case pRevoke:
		m := authz.NewMsgRevoke(from, a.other, "/cosmos.bank.v1beta1.MsgSend")
		return &m
	}
	panic("plain index")
}

func (a *alphabet) auth(i int) authz.Authorization {
	switch i {
	case gSendAuth:
		return banktypes.NewSendAuthorization(ukava(5), nil)
	case gStakeAuth:
		lim := sdk.NewInt64Coin("ukava", 5)
		s, err := stakingtypes.NewStakeAuthorization([]sdk.ValAddress{a.val}, nil, stakingtypes.AuthorizationType_AUTHORIZATION_TYPE_DELEGATE, &lim)
		if err != nil {
			panic(err)
		}
		return s
	case gGenEth:
		return authz.NewGenericAuthorization("/ethermint.evm.v1.MsgEthereumTx")
	case gGenVestCreate:
		return authz.NewGenericAuthorization("/cosmos.vesting.v1beta1.MsgCreateVestingAccount")
	case gGenVestPeriodic:
		return authz.NewGenericAuthorization("/cosmos.vesting.v1beta1.MsgCreatePeriodicVestingAccount")
	case gGenVestPermanent:
		return authz.NewGenericAuthorization("/cosmos.vesting.v1beta1.MsgCreatePermanentLockedAccount")
	case gGenSend:
		return authz.NewGenericAuthorization("/cosmos.bank.v1beta1.MsgSend")
	case gGenExec:
		return authz.NewGenericAuthorization("/cosmos.authz.v1beta1.MsgExec")
	}
	panic("grant index")
}

func (a *alphabet) blockedPlain(i int) bool { return specBlocked[a.plainURL[i]] }
func (a *alphabet) blockedGrant(i int) bool { return specBlocked[a.grantURL[i]] }

// fakeMsg answers an arbitrary proto name; it is never the Go type a type assertion expects.
type fakeMsg struct{ name string }

func (m *fakeMsg) Reset()                       {}
func (m *fakeMsg) String() string               { return m.name }
func (m *fakeMsg) ProtoMessage()                {}
func (m *fakeMsg) XXX_MessageName() string      { return m.name }
func (m *fakeMsg) Marshal() ([]byte, error)     { return []byte{}, nil }
func (m *fakeMsg) Unmarshal([]byte) error       { return nil }
func (m *fakeMsg) ValidateBasic() error         { return nil }
func (m *fakeMsg) GetSigners() []sdk.AccAddress { return nil }

// build turns a planned node into a real sdk.Msg. `from` signs the node if it is one of the transaction's own
// messages; messages inside an exec are "sent" by a.other (the would-be granter).
func (a *alphabet) build(n *node, from sdk.AccAddress) sdk.Msg {
	switch n.k {
	case kPlain:
		return a.plain(n.leaf, from)
	case kGrant:
		m, err := authz.NewMsgGrant(from, a.other, a.auth(n.leaf), &a.expiry)
		if err != nil {
			panic(err)
		}
		return m
	case kExec:
		inner := make([]sdk.Msg, len(n.kids))
		for i, k := range n.kids {
			inner[i] = a.build(k, from)
		}
		m := authz.NewMsgExec(from, inner)
		return &m
	case kGrantBad:
		return &authz.MsgGrant{Granter: from.String(), Grantee: a.other.String(), Grant: authz.Grant{Authorization: nil, Expiration: &a.expiry}}
	case kExecBad:
		return &authz.MsgExec{Grantee: from.String(), Msgs: []*codectypes.Any{{TypeUrl: "/cosmos.bank.v1beta1.MsgSend", Value: []byte{}}}}
	case kFake:
		return &fakeMsg{name: n.url[1:]}
	}
	panic("node kind")
}

func (a *alphabet) buildForest(f []*node, from sdk.AccAddress) []sdk.Msg {
	out := make([]sdk.Msg, len(f))
	for i, n := range f {
		out[i] = a.build(n, from)
	}
	return out
}
