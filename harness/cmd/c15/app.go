package main

// application-level stream: real signed transactions through baseapp CheckTx / ReCheckTx / Simulate / DeliverTx,
// i.e. through the ante handler exactly as app.go composes it.

import (
	"fmt"
	"math/big"
	"strings"
	"sync"
	"time"

	errorsmod "cosmossdk.io/errors"
	sdkmath "cosmossdk.io/math"
	tmdb "github.com/cometbft/cometbft-db"
	abci "github.com/cometbft/cometbft/abci/types"
	"github.com/cometbft/cometbft/libs/log"
	tmproto "github.com/cometbft/cometbft/proto/tendermint/types"
	"github.com/cosmos/cosmos-sdk/baseapp"
	"github.com/cosmos/cosmos-sdk/client"
	codectypes "github.com/cosmos/cosmos-sdk/codec/types"
	cryptotypes "github.com/cosmos/cosmos-sdk/crypto/types"
	sdk "github.com/cosmos/cosmos-sdk/types"
	"github.com/cosmos/cosmos-sdk/types/tx/signing"
	authante "github.com/cosmos/cosmos-sdk/x/auth/ante"
	"github.com/cosmos/cosmos-sdk/x/auth/migrations/legacytx"
	authsigning "github.com/cosmos/cosmos-sdk/x/auth/signing"
	authtx "github.com/cosmos/cosmos-sdk/x/auth/tx"
	banktypes "github.com/cosmos/cosmos-sdk/x/bank/types"
	"github.com/evmos/ethermint/crypto/ethsecp256k1"
	"github.com/evmos/ethermint/ethereum/eip712"
	"github.com/evmos/ethermint/tests"
	etherminttypes "github.com/evmos/ethermint/types"
	evmtypes "github.com/evmos/ethermint/x/evm/types"
	feemarkettypes "github.com/evmos/ethermint/x/feemarket/types"

	"github.com/kava-labs/kava/app"
	bep3types "github.com/kava-labs/kava/x/bep3/types"
	pricefeedtypes "github.com/kava-labs/kava/x/pricefeed/types"

	c "kavaverif/harness/common"
	"kavaverif/harness/kapp"
)

const (
	iUnauthA = 0
	iUnauthB = 1
	iDeputy  = 2
	iOracleA = 3
	iOracleB = 4
	iManualA = 5
	iManualB = 6
	iOther   = 9  // counterparty of every message
	iEthUn   = 10 // Ethereum key, not authorised
	iEthAuth = 11 // Ethereum key, in the manual allow list
)

type world struct {
	auth       bool
	tApp       app.TestApp
	txCfg      client.TxConfig
	keys       []cryptotypes.PrivKey
	addrs      []sdk.AccAddress // 0..9 cosmos keys, 10..11 Ethereum keys
	ethKeys    map[int]*ethsecp256k1.PrivKey
	authorised []int
	alpha      *alphabet
	height     int64
	now        time.Time
	sinceBlock int
	evmDenom   string
	ethChainID *big.Int
	idxOf      map[string]int
	proposer   []byte
}

func newWorld(auth bool) *world {
	w := &world{auth: auth, ethKeys: map[int]*ethsecp256k1.PrivKey{}, idxOf: map[string]int{}}
	keys, addrs := app.GeneratePrivKeyAddressPairs(10)
	w.keys, w.addrs = keys, addrs
	for i, seed := range []byte{31, 32} {
		k := detEthKey(seed)
		w.ethKeys[iEthUn+i] = k
		w.addrs = append(w.addrs, sdk.AccAddress(k.PubKey().Address()))
	}
	for i, a := range w.addrs {
		w.idxOf[a.String()] = i
	}
	enc := app.MakeEncodingConfig()
	w.txCfg = enc.TxConfig
	opts := app.DefaultOptions
	if auth {
		opts.MempoolEnableAuth = true
		opts.MempoolAuthAddresses = []sdk.AccAddress{w.addrs[iManualA], w.addrs[iManualB], w.addrs[7], w.addrs[iEthAuth]}
	}
	a := app.NewApp(log.NewNopLogger(), tmdb.NewMemDB(), app.DefaultNodeHome, nil, enc, opts, baseapp.SetChainID(app.TestChainId))
	tApp := app.TestApp{App: *a}
	cdc := tApp.AppCodec()

	evmParams := evmtypes.NewParams("akava", false, true, true, evmtypes.DefaultChainConfig(), nil, nil, nil)
	evmParams.EIP712AllowedMsgs = []evmtypes.EIP712AllowedMsg{{
		MsgTypeUrl:       "/cosmos.bank.v1beta1.MsgSend",
		MsgValueTypeName: "MsgValueSend",
		ValueTypes: []evmtypes.EIP712MsgAttrType{
			{Name: "from_address", Type: "string"}, {Name: "to_address", Type: "string"}, {Name: "amount", Type: "Coin[]"}},
	}}
	evmGs := evmtypes.NewGenesisState(evmParams, nil)
	fmGs := feemarkettypes.DefaultGenesisState()
	fmGs.Params.NoBaseFee = true
	pfGs := pricefeedtypes.GenesisState{Params: pricefeedtypes.Params{Markets: []pricefeedtypes.Market{
		{MarketID: "btc:usd", BaseAsset: "btc", QuoteAsset: "usd", Oracles: []sdk.AccAddress{w.addrs[iOracleA], w.addrs[iOracleB]}, Active: true},
	}}}
	b3Gs := bep3types.GenesisState{
		Params: bep3types.Params{AssetParams: bep3types.AssetParams{{
			Denom: "bnb", CoinID: 714,
			SupplyLimit:   bep3types.SupplyLimit{Limit: sdkmath.NewInt(350000000000000), TimeLimited: false, TimeBasedLimit: sdk.ZeroInt(), TimePeriod: time.Hour},
			Active:        true,
			DeputyAddress: w.addrs[iDeputy],
			FixedFee:      sdkmath.NewInt(1000),
			MinSwapAmount: sdk.OneInt(), MaxSwapAmount: sdkmath.NewInt(1000000000000),
			MinBlockLock: bep3types.DefaultMinBlockLock, MaxBlockLock: bep3types.DefaultMaxBlockLock,
		}}},
		Supplies: bep3types.AssetSupplies{bep3types.NewAssetSupply(
			sdk.NewCoin("bnb", sdk.ZeroInt()), sdk.NewCoin("bnb", sdk.ZeroInt()), sdk.NewCoin("bnb", sdk.ZeroInt()),
			sdk.NewCoin("bnb", sdk.ZeroInt()), time.Duration(0))},
		PreviousBlockTime: bep3types.DefaultPreviousBlockTime,
	}
	w.now = kapp.GenTime
	tApp = tApp.InitializeFromGenesisStatesWithTimeAndChainID(w.now, app.TestChainId,
		app.NewFundedGenStateWithSameCoins(cdc, sdk.NewCoins(sdk.NewInt64Coin("ukava", 1e12)), w.addrs),
		app.GenesisState{evmtypes.ModuleName: cdc.MustMarshalJSON(evmGs)},
		app.GenesisState{feemarkettypes.ModuleName: cdc.MustMarshalJSON(fmGs)},
		app.GenesisState{pricefeedtypes.ModuleName: cdc.MustMarshalJSON(&pfGs)},
		app.GenesisState{bep3types.ModuleName: cdc.MustMarshalJSON(&b3Gs)},
	)
	w.tApp = tApp
	w.height = tApp.LastBlockHeight() + 1
	ctx := w.ctxFor("deliver")
	w.evmDenom = tApp.GetEvmKeeper().GetParams(ctx).EvmDenom
	w.ethChainID = tApp.GetEvmKeeper().ChainID()
	if w.ethChainID == nil || w.ethChainID.Sign() == 0 {
		pc, err := etherminttypes.ParseChainID(app.TestChainId)
		if err != nil {
			panic(err)
		}
		w.ethChainID = pc
	}

	w.alpha = newAlphabet()
	w.alpha.other = w.addrs[iOther]
	vals := tApp.GetStakingKeeper().GetAllValidators(ctx)
	if len(vals) > 0 {
		w.alpha.val = vals[0].GetOperator()
		if cons, err := vals[0].GetConsAddr(); err == nil {
			w.proposer = cons // lets the EVM resolve the block's coinbase, so Ethereum messages execute
			w.nextBlock()
		}
	}
	w.alpha.ethMsg = signedEthMsg(w.ethChainID, w.ethKeys[iEthUn], 0, big.NewInt(1_000_000_000))

	// the authorised set, observed from the same sources app.go hands to the decorator
	if auth {
		seen := map[int]bool{}
		add := func(as []sdk.AccAddress) {
			for _, x := range as {
				i, ok := w.idxOf[x.String()]
				if !ok {
					i = 99
				}
				if !seen[i] {
					seen[i] = true
					w.authorised = append(w.authorised, i)
				}
			}
		}
		add(opts.MempoolAuthAddresses)
		add(tApp.GetBep3Keeper().GetAuthorizedAddresses(ctx))
		add(tApp.GetPriceFeedKeeper().GetAuthorizedAddresses(ctx))
	}
	return w
}

func (w *world) header() tmproto.Header {
	return tmproto.Header{Height: w.height, Time: w.now, ChainID: app.TestChainId, ProposerAddress: w.proposer}
}

// ctxFor gives a read context on the state the given mode runs on.
func (w *world) ctxFor(mode string) sdk.Context {
	return w.tApp.NewContext(mode != "deliver", w.header())
}

func (w *world) nextBlock() {
	w.tApp.EndBlock(abci.RequestEndBlock{Height: w.height})
	w.tApp.Commit()
	w.height++
	w.now = w.now.Add(6 * time.Second)
	w.tApp.BeginBlock(abci.RequestBeginBlock{Header: w.header()})
	w.sinceBlock = 0
}

// ---------------------------------------------------------------- transaction construction

type optKind int

const (
	oEth optKind = iota
	oWeb3
	oDynFee  // a registered ethermint option the router does not know
	oUnreg   // an Any whose type is not registered as a tx extension option
	oNearEth // a near miss of the Ethereum option URL
)

func (w *world) option(k optKind, payer sdk.AccAddress) *codectypes.Any {
	switch k {
	case oEth:
		a, err := codectypes.NewAnyWithValue(&evmtypes.ExtensionOptionsEthereumTx{})
		if err != nil {
			panic(err)
		}
		return a
	case oWeb3:
		a, err := codectypes.NewAnyWithValue(&etherminttypes.ExtensionOptionsWeb3Tx{
			FeePayer: payer.String(), TypedDataChainID: w.ethChainID.Uint64(), FeePayerSig: make([]byte, 65)})
		if err != nil {
			panic(err)
		}
		return a
	case oDynFee:
		a, err := codectypes.NewAnyWithValue(&etherminttypes.ExtensionOptionDynamicFeeTx{MaxPriorityPrice: sdkmath.NewInt(1)})
		if err != nil {
			panic(err)
		}
		return a
	case oUnreg:
		a, err := codectypes.NewAnyWithValue(&banktypes.MsgSend{})
		if err != nil {
			panic(err)
		}
		return a
	default:
		return &codectypes.Any{TypeUrl: "/ethermint.evm.v1.ExtensionOptionsEthereumTxx"}
	}
}

// buildCosmosTx signs msgs with the keys of the transaction's own signers (Ethereum-keyed or foreign signers are
// left unsigned: such a transaction is refused before or by the signature checks, never by us).
func (w *world) buildCosmosTx(mode string, msgs []sdk.Msg, opts, nonCrit []*codectypes.Any, sign bool) ([]byte, error) {
	b := w.txCfg.NewTxBuilder()
	if err := b.SetMsgs(msgs...); err != nil {
		return nil, err
	}
	eb := b.(authtx.ExtensionOptionsTxBuilder)
	if len(opts) > 0 {
		eb.SetExtensionOptions(opts...)
	}
	if len(nonCrit) > 0 {
		eb.SetNonCriticalExtensionOptions(nonCrit...)
	}
	b.SetGasLimit(5_000_000)
	b.SetFeeAmount(sdk.NewCoins())
	if sign {
		var signers []sdk.AccAddress
		if p, _ := c.Recover(func() { signers = b.GetTx().GetSigners() }); p {
			signers = nil
		}
		ctx := w.ctxFor(mode)
		ak := w.tApp.GetAccountKeeper()
		type sg struct {
			priv     cryptotypes.PrivKey
			num, seq uint64
		}
		var sgs []sg
		for _, s := range signers {
			i, ok := w.idxOf[s.String()]
			if !ok || i >= len(w.keys) {
				continue
			}
			acc := ak.GetAccount(ctx, s)
			if acc == nil {
				continue
			}
			sgs = append(sgs, sg{w.keys[i], acc.GetAccountNumber(), acc.GetSequence()})
		}
		signMode := w.txCfg.SignModeHandler().DefaultMode()
		sigs := make([]signing.SignatureV2, len(sgs))
		for i, s := range sgs {
			sigs[i] = signing.SignatureV2{PubKey: s.priv.PubKey(), Data: &signing.SingleSignatureData{SignMode: signMode}, Sequence: s.seq}
		}
		if err := b.SetSignatures(sigs...); err != nil {
			return nil, err
		}
		for i, s := range sgs {
			sd := authsigning.SignerData{Address: sdk.AccAddress(s.priv.PubKey().Address()).String(), ChainID: app.TestChainId,
				AccountNumber: s.num, Sequence: s.seq, PubKey: s.priv.PubKey()}
			bz, err := w.txCfg.SignModeHandler().GetSignBytes(signMode, sd, b.GetTx())
			if err != nil {
				return nil, err
			}
			sig, err := s.priv.Sign(bz)
			if err != nil {
				return nil, err
			}
			sigs[i].Data.(*signing.SingleSignatureData).Signature = sig
		}
		if err := b.SetSignatures(sigs...); err != nil {
			return nil, err
		}
	}
	return w.txCfg.TxEncoder()(b.GetTx())
}

// buildEthTx builds a well-formed Ethereum transaction (Ethereum option, one signed MsgEthereumTx).
func (w *world) buildEthTx(mode string, keyIdx int) ([]byte, error) {
	ctx := w.ctxFor(mode)
	key := w.ethKeys[keyIdx]
	from := ethAddrOf(key)
	nonce := w.tApp.GetEvmKeeper().GetNonce(ctx, from)
	msg := signedEthMsg(w.ethChainID, key, nonce, big.NewInt(1_000_000_000))
	tx, err := msg.BuildTx(w.txCfg.NewTxBuilder(), w.evmDenom)
	if err != nil {
		return nil, err
	}
	return w.txCfg.TxEncoder()(tx)
}

// buildEIP712Tx builds a transaction on the Web3 (EIP-712) route, signed the way a wallet does: the typed-data
// hash of the legacy sign doc, signed with an Ethereum key, carried in the ExtensionOptionsWeb3Tx.
func (w *world) buildEIP712Tx(mode string, keyIdx int, msgs []sdk.Msg) ([]byte, error) {
	ctx := w.ctxFor(mode)
	key := w.ethKeys[keyIdx]
	from := w.addrs[keyIdx]
	acc := w.tApp.GetAccountKeeper().GetAccount(ctx, from)
	if acc == nil {
		return nil, fmt.Errorf("no account")
	}
	const gas = uint64(5_000_000)
	feeAmt := sdk.NewCoins(sdk.NewInt64Coin("ukava", 20))
	fee := legacytx.NewStdFee(gas, feeAmt) //nolint:staticcheck
	data := eip712.ConstructUntypedEIP712Data(app.TestChainId, acc.GetAccountNumber(), acc.GetSequence(), 0, fee, msgs, "", nil)
	typed, err := eip712.WrapTxToTypedData(w.ethChainID.Uint64(), msgs, data, &eip712.FeeDelegationOptions{FeePayer: from},
		w.tApp.GetEvmKeeper().GetParams(ctx))
	if err != nil {
		return nil, err
	}
	hash, err := eip712.ComputeTypedDataHash(typed)
	if err != nil {
		return nil, err
	}
	sig, pub, err := tests.NewSigner(key).SignByAddress(from, hash)
	if err != nil {
		return nil, err
	}
	sig[64] += 27
	opt, err := codectypes.NewAnyWithValue(&etherminttypes.ExtensionOptionsWeb3Tx{
		FeePayer: from.String(), TypedDataChainID: w.ethChainID.Uint64(), FeePayerSig: sig})
	if err != nil {
		return nil, err
	}
	b := w.txCfg.NewTxBuilder()
	eb := b.(authtx.ExtensionOptionsTxBuilder)
	eb.SetExtensionOptions(opt)
	b.SetFeeAmount(feeAmt)
	b.SetGasLimit(gas)
	if err := b.SetSignatures(signing.SignatureV2{PubKey: pub,
		Data: &signing.SingleSignatureData{SignMode: signing.SignMode_SIGN_MODE_LEGACY_AMINO_JSON}, Sequence: acc.GetSequence()}); err != nil {
		return nil, err
	}
	if err := b.SetMsgs(msgs...); err != nil {
		return nil, err
	}
	return w.txCfg.TxEncoder()(b.GetTx())
}

// ---------------------------------------------------------------- running and classifying

// classify maps the application's answer to the gate that produced it. `pass` = the ante handler let the
// transaction through (it was accepted for execution, whatever the messages then did).
func classify(codespace string, code uint32, logmsg string) string {
	if code == 0 {
		return "pass"
	}
	if strings.Contains(logmsg, "failed to execute message") {
		return "pass"
	}
	if codespace == "sdk" {
		switch code {
		case 18:
			if strings.Contains(logmsg, "more than 1 extension option") {
				return "ext-too-many"
			}
		case 31:
			if strings.Contains(logmsg, "unsupported extension option") {
				return "ext-unknown"
			}
			return "ext-options"
		case 29:
			if strings.Contains(logmsg, "MsgEthereumTx needs to be contained") {
				return "reject-msgs"
			}
		case 4:
			switch {
			case strings.Contains(logmsg, "no signers authorized for this mempool"):
				return "mempool"
			case strings.Contains(logmsg, "found disabled msg type"):
				return "authz"
			case strings.Contains(logmsg, "MsgTypeURL") && strings.Contains(logmsg, "not supported"):
				return "vesting"
			}
		case 6:
			if strings.Contains(logmsg, "invalid message type") {
				return "eth-only"
			}
		case 111222:
			return "panic"
		}
	}
	return fmt.Sprintf("late:%s:%d", codespace, code)
}

func (w *world) run(mode string, txBytes []byte) (tag string, code uint32, logmsg string) {
	var codespace string
	switch mode {
	case "check":
		res := w.tApp.CheckTx(abci.RequestCheckTx{Tx: txBytes, Type: abci.CheckTxType_New})
		codespace, code, logmsg = res.Codespace, res.Code, res.Log
	case "recheck":
		res := w.tApp.CheckTx(abci.RequestCheckTx{Tx: txBytes, Type: abci.CheckTxType_Recheck})
		codespace, code, logmsg = res.Codespace, res.Code, res.Log
	case "sim":
		_, _, err := w.tApp.Simulate(txBytes)
		if err != nil {
			codespace, code, logmsg = errorsmod.ABCIInfo(err, false)
		}
	case "deliver":
		res := w.tApp.DeliverTx(abci.RequestDeliverTx{Tx: txBytes})
		codespace, code, logmsg = res.Codespace, res.Code, res.Log
		w.sinceBlock++
		if w.sinceBlock >= 25 {
			w.nextBlock()
		}
	default:
		panic("mode")
	}
	return classify(codespace, code, logmsg), code, logmsg
}

func idxList(xs []int) string {
	if len(xs) == 0 {
		return "-"
	}
	s := make([]string, len(xs))
	for i, x := range xs {
		s[i] = fmt.Sprint(x)
	}
	return strings.Join(s, ",")
}

// emit decodes the bytes the way the application does, observes forest / options / signers from the decoded
// transaction, runs the transaction and writes the case.
func (w *world) emit(out *c.Out, mode string, txBytes []byte, plan string) {
	tx, err := w.txCfg.TxDecoder()(txBytes)
	if err != nil {
		out.Note("ante.undecodable") // the decoder refuses it: it never reaches the ante handler
		tag, _, _ := w.run(mode, txBytes)
		if tag == "pass" {
			out.Violation("c15: a transaction the TxDecoder refuses was accepted in mode " + mode)
		}
		return
	}
	msgs := tx.GetMsgs()
	forest := observe(msgs)
	var optURLs []string
	nonCrit := 0
	if et, ok := tx.(authante.HasExtensionOptionsTx); ok {
		for _, o := range et.GetExtensionOptions() {
			optURLs = append(optURLs, o.TypeUrl)
		}
		nonCrit = len(et.GetNonCriticalExtensionOptions())
	}
	var signers []int
	signersOK := true
	if st, ok := tx.(authsigning.SigVerifiableTx); ok {
		if p, _ := c.Recover(func() {
			for _, s := range st.GetSigners() {
				i, ok := w.idxOf[s.String()]
				if !ok {
					i = 98
				}
				signers = append(signers, i)
			}
		}); p {
			signersOK = false
		}
	}
	// what baseapp checks before the ante handler
	pre := ""
	if len(msgs) == 0 {
		pre = "prevalidate"
	}
	for _, m := range msgs {
		if m.ValidateBasic() != nil {
			pre = "prevalidate"
		}
	}
	tag, code, logmsg := w.run(mode, txBytes)
	if pre != "" && tag != "pass" {
		tag = pre
	}
	accepted := tag == "pass"
	au := "-"
	if w.auth {
		au = idxList(w.authorised)
	}
	common := false
	for _, s := range signers {
		for _, x := range w.authorised {
			if s == x {
				common = true
			}
		}
	}
	routeCls := "none"
	switch {
	case len(optURLs) > 1:
		routeCls = "many"
	case len(optURLs) == 1:
		routeCls = optURLs[0][strings.LastIndex(optURLs[0], ".")+1:]
	}
	tagCls := tag
	if strings.HasPrefix(tag, "late") {
		tagCls = "late"
	}
	sig := fmt.Sprintf("%s|auth%v|%s|%s|%s|common%v", mode, w.auth, routeCls, tagCls, plan, common)
	_ = signersOK
	out.Case(sig, "c15.ante", mode, c.B(w.auth), au, idxList(signers), c.Strs(optURLs), fmt.Sprint(nonCrit), forest,
		"=>", tag, c.B(accepted), fmt.Sprint(code))
	out.Note("ante." + mode + "." + tagCls)
	if tag == "pass" && code != 0 {
		out.Note("ante.passed-then-message-failed")
	}
	if strings.HasPrefix(tag, "late") {
		k := logmsg
		if len(k) > 60 {
			k = k[:60]
		}
		out.Note("ante.late: " + k)
	}
}

func ethAddrOf(k *ethsecp256k1.PrivKey) (a [20]byte) {
	copy(a[:], k.PubKey().Address().Bytes())
	return
}

var mkMu sync.Mutex

var modes = []string{"check", "recheck", "sim", "deliver"}

// one sequence = a batch of transactions on both worlds (mempool authentication off / on)
func runSeq(ws [2]*world, out *c.Out, r *c.Rng, batch int) {
	for n := 0; n < batch; n++ {
		w := ws[r.Intn(2)]
		mode := c.Pick(r, modes)
		a := w.alpha
		g := &genCfg{maxDepth: 6, maxWidth: 4, maxNodes: 36}
		for i := 0; i < nPlain; i++ {
			if a.blockedPlain(i) {
				g.blockedPlain = append(g.blockedPlain, i)
			} else {
				g.allowedPlain = append(g.allowedPlain, i)
			}
		}
		for i := 0; i < nGrant; i++ {
			if a.blockedGrant(i) {
				g.blockedGrant = append(g.blockedGrant, i)
			} else {
				g.allowedGrant = append(g.allowedGrant, i)
			}
		}
		signer := c.Pick(r, []int{iUnauthA, iUnauthB, iDeputy, iOracleA, iOracleB, iManualA, iManualB, 8})
		from := w.addrs[signer]

		switch k := r.Intn(100); {
		case k < 8:
			// a well-formed Ethereum transaction on the Ethereum route
			key := iEthUn + r.Intn(2)
			bz, err := w.buildEthTx(mode, key)
			if err != nil {
				panic(err)
			}
			w.emit(out, mode, bz, "ethtx")
		case k < 14:
			// a wallet-signed EIP-712 transaction on the Web3 route: one or two bank sends from an Ethereum-keyed account
			key := iEthUn + r.Intn(2)
			msgs := []sdk.Msg{a.plain(pSend, w.addrs[key])}
			if r.Chance(30) {
				msgs = append(msgs, a.plain(pSend, w.addrs[key]))
			}
			bz, err := w.buildEIP712Tx(mode, key, msgs)
			if err != nil {
				panic(err)
			}
			w.emit(out, mode, bz, "eip712")
		case k < 22:
			// the Ethereum option on something that is not a pure Ethereum transaction
			var f []*node
			switch r.Intn(4) {
			case 0:
				f = []*node{{k: kPlain, leaf: pSend}}
			case 1:
				f = []*node{{k: kPlain, leaf: pEth}, {k: kPlain, leaf: pSend}}
			case 2:
				f = []*node{{k: kExec, kids: []*node{{k: kPlain, leaf: pEth}}}}
			default:
				f = g.forest(r)
			}
			msgs := a.buildForest(f, from)
			bz, err := w.buildCosmosTx(mode, msgs, []*codectypes.Any{w.option(oEth, from)}, nil, r.Bool())
			if err != nil {
				panic(err)
			}
			w.emit(out, mode, bz, "ethopt-"+features(f, a.blockedPlain, a.blockedGrant))
		default:
			f := g.forest(r)
			if r.Chance(12) {
				// a second signer
				f = append(f, &node{k: kPlain, leaf: pSend})
			}
			msgs := a.buildForest(f, from)
			if r.Chance(12) {
				other := c.Pick(r, []int{iUnauthA, iUnauthB, iDeputy, iManualA})
				msgs[len(msgs)-1] = a.plain(pSend, w.addrs[other])
			}
			var opts, nonCrit []*codectypes.Any
			optPlan := "o0"
			switch o := r.Intn(100); {
			case o < 55:
			case o < 65:
				opts = []*codectypes.Any{w.option(oWeb3, from)}
				optPlan = "web3"
			case o < 75:
				opts = []*codectypes.Any{w.option(c.Pick(r, []optKind{oDynFee, oDynFee, oUnreg, oNearEth}), from)}
				optPlan = "unk"
			case o < 92:
				ks := []optKind{oEth, oWeb3, oDynFee, oUnreg}
				k1, k2 := c.Pick(r, ks), c.Pick(r, ks)
				opts = []*codectypes.Any{w.option(k1, from), w.option(k2, from)}
				optPlan = fmt.Sprintf("two%d%d", k1, k2)
				if r.Chance(20) {
					opts = append(opts, w.option(oDynFee, from))
					optPlan = "three"
				}
			default:
				nonCrit = []*codectypes.Any{w.option(c.Pick(r, []optKind{oDynFee, oWeb3}), from)}
				optPlan = "noncrit"
			}
			bz, err := w.buildCosmosTx(mode, msgs, opts, nonCrit, true)
			if err != nil {
				panic(err)
			}
			w.emit(out, mode, bz, optPlan+"-"+features(f, a.blockedPlain, a.blockedGrant))
		}
	}
}

func runAppStream(out *c.Out, r *c.Rng) {
	seqs := c.Budget(320, 16000)
	batch := 60
	kapp.RunSeqs(seqs, c.Workers(), r,
		func() [2]*world {
			// app construction registers codecs in package-level tables: one at a time
			mkMu.Lock()
			defer mkMu.Unlock()
			return [2]*world{newWorld(false), newWorld(true)}
		},
		func(ws [2]*world, seq int, r *c.Rng) { runSeq(ws, out, r, batch) })
}
