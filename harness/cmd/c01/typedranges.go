package main

// typedranges.go: an independent, type-checked listing of every `range` over a map in /repo's x/ and
// app/ packages (go/packages + go/types). The translator (tools/extract/c01.go) has to run offline in
// well under a second on every check and therefore resolves types syntactically; this listing is the
// cross-check of its table: the Lean driver compares, per (file, function), the number of map ranges
// the translator reported with the number found here.

import (
	"fmt"
	"go/ast"
	"go/types"
	"os"
	"sort"
	"strings"

	"golang.org/x/tools/go/packages"
)

type typedSite struct {
	File, Fn string
	N        int
}

func recvTypeName(e ast.Expr) string {
	switch v := e.(type) {
	case *ast.StarExpr:
		return recvTypeName(v.X)
	case *ast.Ident:
		return v.Name
	case *ast.IndexExpr:
		return recvTypeName(v.X)
	}
	return ""
}

func skippedPath(rel string) bool {
	if strings.HasSuffix(rel, "_test.go") || strings.HasSuffix(rel, ".pb.go") || strings.HasSuffix(rel, ".pb.gw.go") || strings.HasSuffix(rel, "_verif.go") {
		return true
	}
	for _, part := range strings.Split(rel, "/") {
		switch part {
		case "client", "simulation", "spec", "testdata", "mocks", "docs", "testutil":
			return true
		}
	}
	return false
}

// typedMapRanges lists the map ranges per (file, enclosing function) under repo/x and repo/app.
func typedMapRanges(repo string) ([]typedSite, int, error) {
	cfg := &packages.Config{
		Mode: packages.NeedName | packages.NeedFiles | packages.NeedSyntax | packages.NeedTypes | packages.NeedTypesInfo | packages.NeedImports | packages.NeedDeps,
		Dir:  repo, Tests: false,
		Env: append(os.Environ(), "GOFLAGS=-mod=mod", "GOPROXY=off", "GOSUMDB=off", "GOTOOLCHAIN=local"),
	}
	pkgs, err := packages.Load(cfg, "./x/...", "./app/...")
	if err != nil {
		return nil, 0, err
	}
	counts := map[[2]string]int{}
	ranges := 0
	for _, p := range pkgs {
		if len(p.Errors) > 0 {
			return nil, 0, fmt.Errorf("package %s: %v", p.PkgPath, p.Errors[0])
		}
		for _, f := range p.Syntax {
			name := p.Fset.Position(f.Pos()).Filename
			rel := strings.TrimPrefix(name, repo+"/")
			if skippedPath(rel) {
				continue
			}
			for _, d := range f.Decls {
				fd, ok := d.(*ast.FuncDecl)
				fn := "<package-level>"
				var body ast.Node = d
				if ok {
					if fd.Body == nil {
						continue
					}
					fn = fd.Name.Name
					if fd.Recv != nil && len(fd.Recv.List) == 1 {
						fn = recvTypeName(fd.Recv.List[0].Type) + "." + fn
					}
					body = fd.Body
				}
				ast.Inspect(body, func(nd ast.Node) bool {
					rs, ok := nd.(*ast.RangeStmt)
					if !ok {
						return true
					}
					ranges++
					if tv, ok := p.TypesInfo.Types[rs.X]; ok && tv.Type != nil {
						if _, isMap := tv.Type.Underlying().(*types.Map); isMap {
							counts[[2]string{rel, fn}]++
						}
					}
					return true
				})
			}
		}
	}
	var out []typedSite
	for k, n := range counts {
		out = append(out, typedSite{k[0], k[1], n})
	}
	sort.Slice(out, func(i, j int) bool {
		if out[i].File != out[j].File {
			return out[i].File < out[j].File
		}
		return out[i].Fn < out[j].Fn
	})
	return out, ranges, nil
}
