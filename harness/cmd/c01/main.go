// c01: deterministic replication (property C01).
//
//  1. cross-check of the translator's map-range table against a go/types listing of /repo (typedranges.go);
//  2. pure-function ties for the order-sensitive map-range sites that are exported (ValuationMap.Sum,
//     ValuationMap.GetSortedKeys, NewSelectionsFromMap): each is called repeatedly on the same map, so the
//     Go runtime samples different iteration orders, and the Lean model of the loop is run on the entries;
//  3. the history runner: the REAL app is driven through InitChain/BeginBlock/DeliverTx/EndBlock/Commit by a
//     seeded multi-module history (directed scenarios that reach the classified sites + random histories),
//     and app hash, tx results, tx logs, begin/end-block events are compared per height across the leader,
//     k fresh replicas, and a replica on goleveldb that is closed and re-opened at a random height.
package main

import (
	"crypto/sha256"
	"encoding/hex"
	"fmt"
	"os"
	"path/filepath"
	"sort"
	"strings"
	"sync"
	"time"

	sdk "github.com/cosmos/cosmos-sdk/types"

	hardtypes "github.com/kava-labs/kava/x/hard/types"
	incentivetypes "github.com/kava-labs/kava/x/incentive/types"

	c "kavaverif/harness/common"
	"kavaverif/harness/history"
)

func repoDir() string {
	if r := os.Getenv("VERIF_REPO"); r != "" {
		return r
	}
	return "/repo"
}

func main() {
	out := c.NewOut(c.OutPath())
	defer out.Close()
	rng := c.NewRng(c.Seed())
	t0 := time.Now()

	var wg sync.WaitGroup
	// ---- 1. typed cross-check of the translator's table (runs beside the histories)
	wg.Add(1)
	go func() {
		defer wg.Done()
		sites, ranges, err := typedMapRanges(repoDir())
		if err != nil {
			// not a verdict about /repo: say so loudly, the driver reports BADINPUT
			out.Case("", "c01.typed-error", strings.ReplaceAll(err.Error(), "\t", " "))
			return
		}
		total := 0
		for _, s := range sites {
			total += s.N
			out.Case("typed|"+s.File+"|"+s.Fn, "c01.maprange", s.File, s.Fn, fmt.Sprint(s.N))
		}
		out.Case("typed-total", "c01.maprange-total", fmt.Sprint(total), fmt.Sprint(ranges))
		out.NoteN("typed-map-ranges", total)
		out.NoteN("typed-range-stmts", ranges)
	}()

	// ---- 2. pure-function ties
	pureTies(out, rng.Fork(1000))

	// ---- 3. histories
	k := c.Budget(4, 16) // fresh replicas per history
	if a := c.EnvInt("VERIF_AMPLIFY", 1); a > 1 {
		k = c.Budget(4, 16) / a * 2 // amplification multiplies histories, not replicas
		if k < 4 {
			k = 4
		}
	}
	cfg := history.DefaultConfig()
	plans := []history.Plan{
		{Name: "hard-multi-denom-liquidation", Cfg: cfg, Script: history.ScenarioHardMultiDenom(), Blocks: 25, MaxTxs: 5, PriceEvery: 6},
		{Name: "gov-tally-bkava", Cfg: cfg, Script: history.ScenarioGovTallyBkava(cfg.GovVotingPeriod), Blocks: 20, MaxTxs: 5, PriceEvery: 6},
		{Name: "committee-param-change", Cfg: cfg, Script: history.ScenarioCommitteeParamChange(), Blocks: 15, MaxTxs: 5, PriceEvery: 6},
		{Name: "restart-basic-invalid-tx", Cfg: cfg, Script: history.ScenarioBasicInvalidAfterRestart()},
		{Name: "restart-every-module", Cfg: cfg, Script: history.ScenarioEveryModuleAroundRestart()},
	}
	nRandom := c.Budget(3, 12)
	blocks := 110
	if c.Tier() == "thorough" {
		blocks = 400
	}
	for i := 0; i < nRandom; i++ {
		cf := cfg
		cf.LiquidationInterval = int64(1 + i%3)
		cf.KavadistInfra = i%2 == 1
		plans = append(plans, history.Plan{Name: fmt.Sprintf("random-%d", i), Cfg: cf, Blocks: blocks, MaxTxs: 7, PriceEvery: 5})
	}
	for i := range plans {
		plans[i].Seed = rng.Fork(uint64(i)).U64()
	}
	if only := os.Getenv("VERIF_ONLY_PLAN"); only != "" {
		var sel []history.Plan
		for _, p := range plans {
			if p.Name == only {
				sel = append(sel, p)
			}
		}
		plans = sel
	}
	sem := make(chan struct{}, 4)
	for _, plan := range plans {
		plan := plan
		wg.Add(1)
		go func() {
			defer wg.Done()
			sem <- struct{}{}
			defer func() { <-sem }()
			runPlan(out, plan, k)
		}()
	}
	wg.Wait()
	out.NoteN("wall-seconds", int(time.Since(t0).Seconds()))
}

func runPlan(out *c.Out, plan history.Plan, k int) {
	kinds := map[string]int{}
	h := history.Produce(plan, history.Hooks{})
	defer h.Leader.Close()
	for s, n := range h.Stats {
		kinds[s] = n
		out.NoteN(s, n)
	}
	out.NoteN("blocks:"+plan.Name, len(h.Blocks))
	if h.Stopped != "" {
		// a leader panic is C02's business; C01 still compares the replicas up to and including that height
		out.Note("leader-stopped:" + plan.Name + ":" + short(h.Stopped, 80))
	}
	type rep struct {
		name string
		res  []*history.BlockResult
		err  error
	}
	reps := make([]rep, k+1)
	var wg sync.WaitGroup
	for i := 0; i < k; i++ {
		i := i
		wg.Add(1)
		go func() {
			defer wg.Done()
			reps[i] = rep{name: fmt.Sprintf("replica-%d", i), res: h.Replay(fmt.Sprintf("replica-%d", i))}
		}()
	}
	restartAt := int64(0)
	if len(h.Blocks) > 2 {
		restartAt = 1 + int64(c.NewRng(plan.Seed^0xabcdef).Intn(len(h.Blocks)/2))
	}
	if plan.Name == "restart-basic-invalid-tx" || plan.Name == "restart-every-module" {
		restartAt = 2
	}
	wg.Add(1)
	go func() {
		defer wg.Done()
		res, err := h.ReplayWithRestart(restartAt)
		reps[k] = rep{name: fmt.Sprintf("restart@%d", restartAt), res: res, err: err}
	}()
	wg.Wait()
	if reps[k].err != nil {
		out.Violation(fmt.Sprintf("C01 restart replica failed plan=%s seed=%d: %v", plan.Name, plan.Seed, reps[k].err))
	}
	out.Note(fmt.Sprintf("restart-height:%s:%d", plan.Name, restartAt))

	// first divergence of every replica: later heights of that replica are consequences and are not compared
	divergedAt := make([]int64, len(reps))
	for i, r := range reps {
		if d := history.Compare(r.name, h.Results, r.res); d != nil {
			divergedAt[i] = d.Height
		}
	}
	// cause of a divergence inside a block: a tx rejected before the ante handler (ValidateBasic) whose reported
	// gas differs — baseapp reports the gas accumulated on the block context, see findings/C01-restart-gas.md
	causeAt := func(hi int) string {
		for ti := range h.Results[hi].Txs {
			if ti < len(h.Blocks[hi].BasicInvalid) && h.Blocks[hi].BasicInvalid[ti] {
				for _, r := range reps {
					if hi < len(r.res) && ti < len(r.res[hi].Txs) && r.res[hi].Txs[ti].GasUsed != h.Results[hi].Txs[ti].GasUsed {
						return "validate-basic-gas"
					}
				}
			}
		}
		return "-"
	}
	// per-height and per-tx case lines (the driver evaluates "all replicas agree" on them)
	for hi, lead := range h.Results {
		col := func(get func(d history.Digests) string) string {
			xs := []string{get(lead.Digests)}
			for i, r := range reps {
				switch {
				case divergedAt[i] != 0 && lead.Height > divergedAt[i]:
					xs = append(xs, get(lead.Digests)) // already reported at its first divergence
				case hi < len(r.res):
					xs = append(xs, get(r.res[hi].Digests))
				default:
					xs = append(xs, "missing")
				}
			}
			return strings.Join(xs, ",")
		}
		ntx := len(lead.Txs)
		bucket := "0"
		switch {
		case ntx > 6:
			bucket = "7+"
		case ntx > 2:
			bucket = "3-6"
		case ntx > 0:
			bucket = "1-2"
		}
		sig := fmt.Sprintf("%s|txs=%s|panic=%v|restartBefore=%v", planClass(plan.Name), bucket, lead.Panic != "", lead.Height > restartAt)
		out.Case(sig, "c01.height", plan.Name, fmt.Sprint(lead.Height), fmt.Sprint(len(reps)+1), causeAt(hi),
			col(func(d history.Digests) string { return d.AppHash }),
			col(func(d history.Digests) string { return d.BBEvents }),
			col(func(d history.Digests) string { return d.EBEvents }))
		for ti, tx := range lead.Txs {
			xs := []string{fmt.Sprintf("%d/%d", tx.Code, tx.GasUsed)}
			ls := []string{logDigest(tx.Log)}
			es := []string{history.EventsDigest(tx.Events) + fmt.Sprintf("/%x", tx.Data)}
			for i, r := range reps {
				if divergedAt[i] != 0 && lead.Height > divergedAt[i] {
					xs, ls, es = append(xs, xs[0]), append(ls, ls[0]), append(es, es[0])
					continue
				}
				if hi < len(r.res) && ti < len(r.res[hi].Txs) {
					rt := r.res[hi].Txs[ti]
					xs = append(xs, fmt.Sprintf("%d/%d", rt.Code, rt.GasUsed))
					ls = append(ls, logDigest(rt.Log))
					es = append(es, history.EventsDigest(rt.Events)+fmt.Sprintf("/%x", rt.Data))
				} else {
					xs = append(xs, "missing")
					ls = append(ls, "missing")
					es = append(es, "missing")
				}
			}
			stage := "deliver"
			if ti < len(h.Blocks[hi].BasicInvalid) && h.Blocks[hi].BasicInvalid[ti] {
				stage = "validate-basic" // rejected by baseapp before the ante handler installs the tx gas meter
			}
			kind := "tx"
			if ti < len(h.Blocks[hi].Desc) {
				kind = strings.SplitN(h.Blocks[hi].Desc[ti], " ", 2)[0]
			}
			code := fmt.Sprintf("%s/%d", tx.Codespace, tx.Code)
			out.Case(kind+"|"+code+"|"+stage, "c01.tx", plan.Name, fmt.Sprint(lead.Height), fmt.Sprint(ti), kind, code, stage, strings.Join(xs, ","), strings.Join(es, ","), strings.Join(ls, ","))
		}
	}
	// divergences: violation + replay information
	for _, r := range reps {
		if d := history.Compare(r.name, h.Results, r.res); d != nil {
			desc := "-"
			if int(d.Height) <= len(h.Blocks) && d.Height >= 1 {
				desc = strings.Join(h.Blocks[d.Height-1].Desc, " ; ")
			}
			detail := ""
			if hi := int(d.Height) - 1; hi >= 0 && hi < len(h.Results) && hi < len(r.res) {
				for ti := range h.Results[hi].Txs {
					if ti < len(r.res[hi].Txs) {
						a, b := h.Results[hi].Txs[ti], r.res[hi].Txs[ti]
						if a.Log != b.Log {
							detail = fmt.Sprintf(" tx=%d leader-log=%q replica-log=%q", ti, short(a.Log, 300), short(b.Log, 300))
							break
						}
						if a.Code != b.Code || a.GasUsed != b.GasUsed {
							stage := "deliver"
							if ti < len(h.Blocks[hi].BasicInvalid) && h.Blocks[hi].BasicInvalid[ti] {
								stage = "validate-basic"
							}
							detail = fmt.Sprintf(" tx=%d stage=%s leader=%d/%d replica=%d/%d", ti, stage, a.Code, a.GasUsed, b.Code, b.GasUsed)
							break
						}
					}
				}
			}
			desc += detail
			if hi := int(d.Height) - 1; hi >= 0 && hi < len(h.Results) {
				desc = "cause=" + causeAt(hi) + " " + desc
			}
			msg := fmt.Sprintf("C01 divergence at height %d what=%s plan=%s seed=%d replica=%s leader=%s replica-value=%s txs=[%s]",
				d.Height, d.What, plan.Name, plan.Seed, d.Name, d.Leader, d.Replica, short(desc, 1200))
			out.Violation(msg)
			writeReplayInfo(plan, h, d, msg)
			break
		}
	}
}

func logDigest(l string) string {
	h := sha256.Sum256([]byte(l))
	return hex.EncodeToString(h[:6])
}

func planClass(name string) string {
	if strings.HasPrefix(name, "random-") {
		return "random"
	}
	return name
}

func short(s string, n int) string {
	s = strings.ReplaceAll(strings.ReplaceAll(s, "\n", " "), "\t", " ")
	if len(s) > n {
		return s[:n]
	}
	return s
}

// writeReplayInfo stores the whole block list of a diverging history next to the check's replay file.
func writeReplayInfo(plan history.Plan, h *history.History, d *history.Divergence, msg string) {
	dir := filepath.Join(filepath.Dir(filepath.Dir(c.OutPath())), "replays")
	if _, err := os.Stat(dir); err != nil {
		return
	}
	var sb strings.Builder
	fmt.Fprintf(&sb, "%s\n\nre-run: VERIF_SEED=%d VERIF_ONLY_PLAN=%s harness/bin/c01 /tmp/c01.cases\n\n", msg, c.Seed(), plan.Name)
	for _, b := range h.Blocks {
		fmt.Fprintf(&sb, "height %d time %s\n", b.Height, b.Time.Format(time.RFC3339Nano))
		for i, dsc := range b.Desc {
			code := uint32(0)
			if int(b.Height) <= len(h.Results) && i < len(h.Results[b.Height-1].Txs) {
				code = h.Results[b.Height-1].Txs[i].Code
			}
			fmt.Fprintf(&sb, "   tx %d code=%d %s\n", i, code, dsc)
		}
		if b.Height == d.Height {
			break
		}
	}
	os.WriteFile(filepath.Join(dir, fmt.Sprintf("C01-divergence-%s-%d.txt", plan.Name, c.Seed())), []byte(sb.String()), 0o644)
}

// ---------------------------------------------------------------- pure ties

func pureTies(out *c.Out, r *c.Rng) {
	denoms := []string{"bnb", "btc", "busd", "hard", "swp", "ukava", "usdx", "xrp", "bkava-a", "bkava-b", "erc20-x", "ibc-1"}
	n := c.Budget(300, 5000)
	const reps = 8
	for i := 0; i < n; i++ {
		// random sub-set of denoms with random values
		m := hardtypes.NewValuationMap()
		var keys, vals []string
		perm := append([]string{}, denoms...)
		for j := len(perm) - 1; j > 0; j-- {
			q := r.Intn(j + 1)
			perm[j], perm[q] = perm[q], perm[j]
		}
		cnt := r.Intn(len(perm) + 1)
		for _, dn := range perm[:cnt] {
			v := sdk.NewDecFromBigIntWithPrec(r.BigBits(90), 18)
			if r.Chance(20) {
				v = v.Neg()
			}
			m.Usd[dn] = v
			keys = append(keys, dn)
			vals = append(vals, v.BigInt().String())
		}
		var sums, sorted []string
		for k := 0; k < reps; k++ {
			sums = append(sums, m.Sum().BigInt().String())
			sorted = append(sorted, strings.Join(m.GetSortedKeys(), ","))
		}
		out.Case(fmt.Sprintf("n=%d", bucketN(cnt)), "c01.sum", c.Strs(keys), c.Strs(vals), "=>", strings.Join(sums, ";"))
		out.Case(fmt.Sprintf("n=%d", bucketN(cnt)), "c01.sortedkeys", c.Strs(keys), "=>", strings.Join(sorted, ";"))

		// NewSelectionsFromMap
		sm := map[string]string{}
		var sk, sv []string
		for _, dn := range perm[:cnt] {
			mult := c.Pick(r, []string{"small", "large", "medium", "none"})
			sm[dn] = mult
			sk = append(sk, dn)
			sv = append(sv, mult)
		}
		var sels []string
		for k := 0; k < reps; k++ {
			var parts []string
			for _, s := range incentivetypes.NewSelectionsFromMap(sm) {
				parts = append(parts, s.Denom+"="+s.MultiplierName)
			}
			sels = append(sels, strings.Join(parts, ","))
		}
		out.Case(fmt.Sprintf("n=%d", bucketN(cnt)), "c01.selections", c.Strs(sk), strings.Join(sv, ","), "=>", strings.Join(sels, ";"))
	}
}

func bucketN(n int) int {
	switch {
	case n <= 2:
		return n
	case n <= 5:
		return 5
	}
	return 12
}

var _ = sort.Strings
