// c04: correspondence harness for x/cdp accounting and indexes (property C04).
// Drives the real keeper (create, deposit, withdraw, draw, repay, keeper liquidation, begin block with
// oracle activity) over 4 collateral types, 6 users and random parameters, and prints one self-contained
// case per operation: parameters, observed pre-state, operation, result class, observed post-state.
package main

import (
	"fmt"
	"math/big"
	"strings"

	sdk "github.com/cosmos/cosmos-sdk/types"

	c "kavaverif/harness/common"
	"kavaverif/harness/cmd/c04/sim"
	"kavaverif/harness/kapp"
)

func bi(x int64) *big.Int { return big.NewInt(x) }

// goChecks: violations visible directly on the implementation.
func goChecks(out *c.Out, s *sim.Seq) func(kind string, args []string, pre, post sim.Obs, cls kapp.Class, err error) {
	return func(kind string, args []string, pre, post sim.Obs, cls kapp.Class, err error) {
		if kind == "begin" && cls == kapp.Panic {
			msg := ""
			if err != nil {
				msg = err.Error()
			}
			if strings.Contains(msg, "insufficient funds") && strings.Contains(msg, "debt") {
				// F2: the per-deposit shares of the debt add up to more than the debt moved to the liquidator
				out.Violation(fmt.Sprintf("cdp-auction-debt-split-rounding begin-block panic seq=%d op=%d: %s", s.No, s.OpNo, short(msg)))
			} else {
				out.Violation(fmt.Sprintf("cdp-begin-block-panic seq=%d op=%d: %s", s.No, s.OpNo, short(msg)))
			}
		}
		if kind != "begin" && cls == kapp.Panic {
			out.Note("tx-panic:" + kind + ":" + sim.ErrClass(err))
		}
	}
}

func short(m string) string {
	if len(m) > 160 {
		return m[:160]
	}
	return m
}

// directed witnesses ("corpus first"): the two known corner cases and a plain life cycle
func directed(w *sim.World, out *c.Out, r *c.Rng) {
	// F2: two equal deposits, odd debt, price crash → begin block
	{
		p := sim.DefaultParams()
		s := w.NewSeq(out, "c04.op", -1, r.Fork(9001), p)
		s.AfterCase = goChecks(out, s)
		col := new(big.Int).Mul(bi(10), sim.Pow10(8))
		s.Create(3, 0, col, 2, bi(10000003), 0, "f2")
		s.Deposit(3, 7, 0, col, 2, "f2-equal")
		s.NextBlock(1, "f2")
		s.PostPrice(0, sdk.MustNewDecFromStr("0.001"), false)
		s.PostPrice(1, sdk.MustNewDecFromStr("0.001"), false)
		s.NextBlock(5, "f2-crash")
	}
	// plain life cycle incl. third-party deposit, partial repay, closing repay
	{
		p := sim.DefaultParams()
		s := w.NewSeq(out, "c04.op", -2, r.Fork(9002), p)
		s.AfterCase = goChecks(out, s)
		col := new(big.Int).Mul(bi(100), sim.Pow10(6))
		s.Create(4, 3, col, 4, bi(50000000), 0, "life")
		s.NextBlock(86400, "life")
		s.Deposit(4, 8, 3, bi(7000000), 4, "life")
		s.NextBlock(86400*30, "life")
		s.Repay(4, 3, bi(20000000), 0, "life-partial")
		s.Draw(4, 3, bi(1000000), 0, "life")
		s.Withdraw(4, 8, 3, bi(7000000), 4, "life")
		s.NextBlock(3600, "life")
		s.Repay(4, 3, new(big.Int).Mul(bi(1000), sim.Pow10(6)), 0, "life-close-over")
	}
	// keeper liquidation with reward and two deposits
	{
		p := sim.DefaultParams()
		s := w.NewSeq(out, "c04.op", -3, r.Fork(9003), p)
		s.AfterCase = goChecks(out, s)
		col := new(big.Int).Mul(bi(30), sim.Pow10(8))
		s.Create(5, 0, col, 2, bi(30000000), 0, "liq")
		s.Deposit(5, 8, 0, bi(123456789), 2, "liq")
		s.PostPrice(0, sdk.MustNewDecFromStr("0.012"), false)
		s.PostPrice(1, sdk.MustNewDecFromStr("0.012"), false)
		// end of block sets the price; keep the begin blocker from liquidating by using interval 2
		s.P.LiquidationBlockInterval = 1000
		kapp.SetParams(w.App, s.Ctx, "cdp", &s.P, func() { w.Keeper().SetParams(s.Ctx, s.P) })
		s.NextBlock(10, "liq")
		s.Liquidate(7, 5, 0, "liq")
	}
}

func main() {
	out := c.NewOut(c.OutPath())
	defer out.Close()
	r := c.NewRng(c.Seed())
	n := c.Budget(160, 2000)
	nops := 60
	if c.Tier() == "thorough" {
		nops = 100
	}
	kapp.RunSeqs(n, c.Workers(), r, sim.NewWorldBarrier(c.Workers()), func(w *sim.World, seq int, r *c.Rng) {
		if seq == 0 {
			directed(w, out, c.NewRng(c.Seed()))
		}
		s := w.NewSeq(out, "c04.op", seq, r, sim.RandomParams(r))
		s.AfterCase = goChecks(out, s)
		for i := 0; i < nops; i++ {
			s.Step("mixed")
		}
	})
}
