// c04: correspondence harness for x/cdp accounting and indexes (property C04).
// Drives the real keeper (create, deposit, withdraw, draw, repay, keeper liquidation, begin block with
// oracle activity) over 4 collateral types, 6 users and random parameters, and prints one self-contained
// case per operation: parameters, observed pre-state, operation, result class, observed post-state.
package main

import (
	"fmt"
	"math/big"
	"strings"

	sdkmath "cosmossdk.io/math"
	sdk "github.com/cosmos/cosmos-sdk/types"

	cdptypes "github.com/kava-labs/kava/x/cdp/types"

	c "kavaverif/harness/common"
	"kavaverif/harness/cmd/c04/sim"
	"kavaverif/harness/kapp"
)

func bi(x int64) *big.Int { return big.NewInt(x) }

// goChecks: violations visible directly on the implementation.
func goChecks(out *c.Out, s *sim.Seq) func(kind string, args []string, pre, post sim.Obs, cls kapp.Class, err error) {
	return func(kind string, args []string, pre, post sim.Obs, cls kapp.Class, err error) {
		if kind == "begin" && cls == kapp.Panic {
			msg := ""
			if err != nil {
				msg = err.Error()
			}
			if strings.Contains(msg, "insufficient funds") && strings.Contains(msg, "debt") {
				// F2: the per-deposit shares of the debt add up to more than the debt moved to the liquidator
				out.Violation(fmt.Sprintf("cdp-auction-debt-split-rounding begin-block panic seq=%d op=%d: %s", s.No, s.OpNo, short(msg)))
			} else {
				out.Violation(fmt.Sprintf("cdp-begin-block-panic seq=%d op=%d: %s", s.No, s.OpNo, short(msg)))
			}
		}
		if kind != "begin" && cls == kapp.Panic {
			out.Note("tx-panic:" + kind + ":" + sim.ErrClass(err))
		}
	}
}

func short(m string) string {
	if len(m) > 160 {
		return m[:160]
	}
	return m
}

// directed witnesses ("corpus first"): the two known corner cases and a plain life cycle
func directed(w *sim.World, out *c.Out, r *c.Rng) {
	// F2: two equal deposits, odd debt, price crash → begin block
	{
		p := sim.DefaultParams()
		s := w.NewSeq(out, "c04.op", -1, r.Fork(9001), p)
		s.AfterCase = goChecks(out, s)
		col := new(big.Int).Mul(bi(10), sim.Pow10(8))
		s.Create(3, 0, col, 2, bi(10000003), 0, "f2")
		s.Deposit(3, 7, 0, col, 2, "f2-equal")
		s.NextBlock(1, "f2")
		s.PostPrice(0, sdk.MustNewDecFromStr("0.001"), false)
		s.PostPrice(1, sdk.MustNewDecFromStr("0.001"), false)
		s.NextBlock(5, "f2-crash")
	}
	// plain life cycle incl. third-party deposit, partial repay, closing repay
	{
		p := sim.DefaultParams()
		s := w.NewSeq(out, "c04.op", -2, r.Fork(9002), p)
		s.AfterCase = goChecks(out, s)
		col := new(big.Int).Mul(bi(100), sim.Pow10(6))
		s.Create(4, 3, col, 4, bi(50000000), 0, "life")
		s.NextBlock(86400, "life")
		s.Deposit(4, 8, 3, bi(7000000), 4, "life")
		s.NextBlock(86400*30, "life")
		s.Repay(4, 3, bi(20000000), 0, "life-partial")
		s.Draw(4, 3, bi(1000000), 0, "life")
		s.Withdraw(4, 8, 3, bi(7000000), 4, "life")
		s.NextBlock(3600, "life")
		s.Repay(4, 3, new(big.Int).Mul(bi(1000), sim.Pow10(6)), 0, "life-close-over")
	}
	// keeper liquidation with reward and two deposits
	{
		p := sim.DefaultParams()
		s := w.NewSeq(out, "c04.op", -3, r.Fork(9003), p)
		s.AfterCase = goChecks(out, s)
		col := new(big.Int).Mul(bi(30), sim.Pow10(8))
		s.Create(5, 0, col, 2, bi(30000000), 0, "liq")
		s.Deposit(5, 8, 0, bi(123456789), 2, "liq")
		s.PostPrice(0, sdk.MustNewDecFromStr("0.012"), false)
		s.PostPrice(1, sdk.MustNewDecFromStr("0.012"), false)
		// end of block sets the price; keep the begin blocker from liquidating by using interval 2
		np := s.P
		np.LiquidationBlockInterval = 1000
		s.SetParamsNow(np, "block-interval")
		s.NextBlock(10, "liq")
		s.Liquidate(7, 5, 0, "liq")
	}
	govDirected(w, out, r)
}

// edit returns a governance change for Seq.Pending that applies f to the parameters in force
func edit(tag string, f func(p *cdptypes.Params)) func(p *cdptypes.Params) string {
	return func(p *cdptypes.Params) string { f(p); return tag }
}

func without(p *cdptypes.Params, name string) {
	var cps cdptypes.CollateralParams
	for _, e := range p.CollateralParams {
		if e.Type != name {
			cps = append(cps, e)
		}
	}
	p.CollateralParams = cps
}

// governance in the middle of a history (directed; the random histories draw the same kinds of change)
func govDirected(w *sim.World, out *c.Out, r *c.Rng) {
	// a collateral type is REMOVED while it has CDPs (one with a third-party deposit), blocks pass, prices crash,
	// every operation on it is tried, then it is listed again (at the end of the list, other fee and ratio):
	// accrual resumes over the whole gap, the owner closes the CDP and everybody gets the deposit back
	{
		s := w.NewSeq(out, "c04.op", -4, r.Fork(9004), sim.DefaultParams())
		s.AfterCase = goChecks(out, s)
		col := new(big.Int).Mul(bi(200), sim.Pow10(6))
		s.Create(4, 3, col, 4, bi(50000000), 0, "gov")   // xrp-a
		s.Deposit(4, 8, 3, bi(7000000), 4, "gov")
		s.Create(5, 3, col, 4, bi(90000000), 0, "gov")   // a second xrp-a position
		s.Create(4, 0, new(big.Int).Mul(bi(100), sim.Pow10(8)), 2, bi(20000000), 0, "gov") // bnb-a stays listed
		s.NextBlock(3600, "gov")
		s.Pending = edit("type-removed-with-cdps", func(p *cdptypes.Params) { without(p, "xrp-a") })
		s.NextBlock(60, "gov-removed")
		s.PostPrice(4, sdk.MustNewDecFromStr("0.0001"), false)
		s.PostPrice(5, sdk.MustNewDecFromStr("0.0001"), false)
		s.NextBlock(86400, "gov-removed-crash")
		s.Deposit(4, 4, 3, bi(1000000), 4, "gov-removed")
		s.Withdraw(4, 8, 3, bi(1), 4, "gov-removed")
		s.Draw(4, 3, bi(1000000), 0, "gov-removed")
		s.Repay(4, 3, bi(1000000), 0, "gov-removed")
		s.Repay(4, 3, new(big.Int).Mul(bi(1000), sim.Pow10(6)), 0, "gov-removed-close")
		s.Liquidate(7, 5, 3, "gov-removed")
		s.Create(6, 3, col, 4, bi(50000000), 0, "gov-removed")
		s.Repay(4, 0, bi(1000000), 0, "gov-other-type") // the listed type keeps working
		s.PostPrice(4, sdk.MustNewDecFromStr("2.0"), false)
		s.PostPrice(5, sdk.MustNewDecFromStr("2.0"), false)
		s.NextBlock(86400*30, "gov-removed-recover")
		s.Pending = edit("type-readded-with-cdps", func(p *cdptypes.Params) {
			cp := sim.DefaultCollateral(3)
			cp.StabilityFee = sdk.MustNewDecFromStr("1.00000001")
			cp.LiquidationRatio = sdk.MustNewDecFromStr("1.25")
			p.CollateralParams = append(p.CollateralParams, cp)
		})
		s.NextBlock(5, "gov-readded")
		s.NextBlock(3600, "gov-readded")
		s.Draw(4, 3, bi(1000000), 0, "gov-readded")
		s.Withdraw(4, 8, 3, bi(1000000), 4, "gov-readded")
		s.Repay(4, 3, new(big.Int).Mul(bi(1000), sim.Pow10(6)), 0, "gov-readded-close")
		s.Liquidate(7, 5, 3, "gov-readded")
	}
	// the stability fee changes between two accruals (1.0 → maximum → pool value), the debt limits drop below
	// the existing debt, the debt floor rises above an existing principal, the list is reordered
	{
		s := w.NewSeq(out, "c04.op", -5, r.Fork(9005), sim.DefaultParams())
		s.AfterCase = goChecks(out, s)
		s.Create(3, 2, new(big.Int).Mul(bi(50), sim.Pow10(18)), 3, bi(40000000), 0, "gov") // eth-a
		s.Create(4, 2, new(big.Int).Mul(bi(70), sim.Pow10(18)), 3, bi(55000000), 0, "gov")
		s.NextBlock(86400, "gov-fee")
		s.Pending = edit("fee-one", func(p *cdptypes.Params) { sim.FindCollateral(p, 2).StabilityFee = sdk.OneDec() })
		s.NextBlock(86400, "gov-fee-one")
		s.Draw(3, 2, bi(1000000), 0, "gov-fee-one")
		s.Pending = edit("fee-max", func(p *cdptypes.Params) {
			sim.FindCollateral(p, 2).StabilityFee = sdk.MustNewDecFromStr("1.000000051034942716")
		})
		s.NextBlock(86400*30, "gov-fee-max")
		s.Repay(4, 2, bi(1000000), 0, "gov-fee-max")
		s.Pending = edit("limit-below-debt+global-limit-below-debt+debt-floor+list-reordered", func(p *cdptypes.Params) {
			sim.FindCollateral(p, 2).DebtLimit = sdk.NewCoin("usdx", sdkmath.NewInt(50000000))
			p.GlobalDebtLimit = sdk.NewCoin("usdx", sdkmath.NewInt(60000000))
			p.DebtParam.DebtFloor = sdkmath.NewInt(100000000)
			p.CollateralParams[0], p.CollateralParams[2] = p.CollateralParams[2], p.CollateralParams[0]
		})
		s.NextBlock(3600, "gov-limits")
		s.Draw(3, 2, bi(1), 0, "gov-limit-refused")
		s.Create(5, 2, new(big.Int).Mul(bi(70), sim.Pow10(18)), 3, bi(100000000), 0, "gov-limit-refused")
		s.Repay(3, 2, bi(1000000), 0, "gov-floor-refused")
		s.Deposit(3, 3, 2, sim.Pow10(18), 3, "gov-limits")
		s.Withdraw(3, 3, 2, sim.Pow10(18), 3, "gov-limits")
		s.NextBlock(3600, "gov-limits")
		s.Repay(3, 2, new(big.Int).Mul(bi(1000), sim.Pow10(6)), 0, "gov-close")
	}
	// a collateral type that was never listed is added in the middle of a run; markets of another type are swapped
	{
		s := w.NewSeq(out, "c04.op", -6, r.Fork(9006), sim.DefaultParams())
		s.AfterCase = goChecks(out, s)
		col := new(big.Int).Mul(bi(300), sim.Pow10(6))
		s.Create(3, 4, col, 4, bi(20000000), 0, "gov-not-listed-yet")
		s.Create(3, 3, col, 4, bi(20000000), 0, "gov")
		s.PostPrice(5, sdk.MustNewDecFromStr("1.0"), false) // xrp:usd:30 ≠ xrp:usd
		s.Pending = edit("type-added+markets-swapped", func(p *cdptypes.Params) {
			cp := sim.DefaultCollateral(4)
			cp.LiquidationRatio = sdk.MustNewDecFromStr("2.0")
			p.CollateralParams = append(cdptypes.CollateralParams{cp}, p.CollateralParams...)
			x := sim.FindCollateral(p, 3)
			x.SpotMarketID, x.LiquidationMarketID = x.LiquidationMarketID, x.SpotMarketID
		})
		s.NextBlock(10, "gov-added")
		s.Create(3, 4, col, 4, bi(20000000), 0, "gov-added")
		s.Create(4, 4, col, 4, bi(300000000), 0, "gov-added-at-ratio")
		s.Deposit(3, 7, 4, bi(5000000), 4, "gov-added")
		s.NextBlock(86400, "gov-added")
		s.Draw(3, 3, bi(1000000), 0, "gov-markets-swapped")
		s.Withdraw(3, 3, 3, bi(1000000), 4, "gov-markets-swapped")
		s.PostPrice(4, sdk.MustNewDecFromStr("0.3"), false)
		s.NextBlock(60, "gov-added-price-drop")
		s.NextBlock(60, "gov-added")
	}
}

func main() {
	out := c.NewOut(c.OutPath())
	defer out.Close()
	r := c.NewRng(c.Seed())
	n := c.Budget(160, 2000)
	nops := 60
	if c.Tier() == "thorough" {
		nops = 100
	}
	kapp.RunSeqs(n, c.Workers(), r, sim.NewWorldBarrier(c.Workers()), func(w *sim.World, seq int, r *c.Rng) {
		if seq == 0 {
			directed(w, out, c.NewRng(c.Seed()))
		}
		s := w.NewSeq(out, "c04.op", seq, r, sim.RandomParams(r))
		s.AfterCase = goChecks(out, s)
		if seq%4 != 0 { // three histories in four see governance parameter changes at block boundaries
			s.GovPct = 30
		}
		for i := 0; i < nops; i++ {
			s.Step("mixed")
		}
	})
}
