package sim

import (
	"fmt"
	"math/big"
	"strconv"
	"strings"

	sdk "github.com/cosmos/cosmos-sdk/types"

	auctiontypes "github.com/kava-labs/kava/x/auction/types"
	cdptypes "github.com/kava-labs/kava/x/cdp/types"
)

// The collateral auctions a seizure creates (property C05: "exactly its collateral (minus the keeper reward) and
// its debt enter auctions").  After every successful begin block / keeper liquidation the harness reads the
// auctions x/auction actually STORED back from the auction store and emits
//   <LotsCmd>    one line per seized CDP: auction size and penalty in force (x/params store), the keeper's reward
//                (bank balances), the CDP's deposit records before the operation (observation), the debt coins the
//                seizure moved cdp → liquidator (bank transfer event), and the auctions of that CDP
//   <LotsCmd>um  ("c05.lotsum") one line per operation: what the bank moved into the auction module against what
//                the new auction records say.
// Which auction belongs to which CDP comes from the event stream of the operation: SeizeCollateral emits one
// cdp_liquidation event per deposit before AuctionCollateral starts that CDP's auctions (auction_start events).

type seizureEv struct {
	id   uint64
	debt *big.Int // debt coins moved cdp → liquidator right before the deposits were seized (nil = not observed)
	aucs []uint64
}

func attr(e sdk.Event, key string) (string, bool) {
	for _, a := range e.Attributes {
		if string(a.Key) == key {
			return string(a.Value), true
		}
	}
	return "", false
}

// parseSeizures walks the events of one operation in emission order.
func (s *Seq) parseSeizures(evs sdk.Events) []seizureEv {
	cdpMod, liqMod := s.W.Mods[0].String(), s.W.Mods[1].String()
	var out []seizureEv
	var lastDebt *big.Int
	for _, e := range evs {
		switch e.Type {
		case "transfer":
			snd, _ := attr(e, "sender")
			rcp, _ := attr(e, "recipient")
			if snd != cdpMod || rcp != liqMod {
				continue
			}
			amt, _ := attr(e, "amount")
			if amt == "" { // sdk.NewCoins drops a zero coin: a zero debt moves "nothing"
				lastDebt = big.NewInt(0)
				continue
			}
			coins, err := sdk.ParseCoinsNormalized(amt)
			if err != nil {
				continue
			}
			if len(coins) == 1 && coins[0].Denom == "debt" {
				lastDebt = coins[0].Amount.BigInt()
			}
		case cdptypes.EventTypeCdpLiquidation:
			v, _ := attr(e, cdptypes.AttributeKeyCdpID)
			id, err := strconv.ParseUint(v, 10, 64)
			if err != nil {
				continue
			}
			if len(out) == 0 || out[len(out)-1].id != id {
				out = append(out, seizureEv{id: id, debt: lastDebt})
				lastDebt = nil
			}
		case auctiontypes.EventTypeAuctionStart:
			if ty, _ := attr(e, auctiontypes.AttributeKeyAuctionType); ty != auctiontypes.CollateralAuctionType {
				continue
			}
			v, _ := attr(e, auctiontypes.AttributeKeyAuctionID)
			id, err := strconv.ParseUint(v, 10, 64)
			if err != nil || len(out) == 0 {
				continue
			}
			out[len(out)-1].aucs = append(out[len(out)-1].aucs, id)
		}
	}
	return out
}

func (s *Seq) nextAuctionID() uint64 {
	id, err := s.W.App.GetAuctionKeeper().GetNextAuctionID(s.Ctx)
	if err != nil {
		panic(err)
	}
	return id
}

func denomID(name string) int {
	for i, d := range Denoms {
		if d == name {
			return i
		}
	}
	return -1
}

func lotsBucket(n int) string {
	switch {
	case n <= 3:
		return fmt.Sprint(n)
	case n <= 8:
		return "4-8"
	case n <= 30:
		return "9-30"
	default:
		return "31+"
	}
}

// emitLots: see the comment at the top of the file.  keeper = account id of the keeper of a MsgLiquidate (-1 = none).
func (s *Seq) emitLots(kind string, pre, post Obs, evs sdk.Events, nextBefore uint64, keeper int) {
	ak := s.W.App.GetAuctionKeeper()
	nextAfter := s.nextAuctionID()
	coll := map[uint64]*auctiontypes.CollateralAuction{}
	var collIDs []uint64
	debtAucDebt := new(big.Int)
	for id := nextBefore; id < nextAfter; id++ {
		a, ok := ak.GetAuction(s.Ctx, id)
		if !ok {
			continue
		}
		switch v := a.(type) {
		case *auctiontypes.CollateralAuction:
			coll[id] = v
			collIDs = append(collIDs, id)
		case *auctiontypes.DebtAuction:
			debtAucDebt.Add(debtAucDebt, v.CorrespondingDebt.Amount.BigInt())
		}
	}
	stillThere := map[uint64]bool{}
	for _, cd := range post.Cdps {
		stillThere[cd.ID] = true
	}
	var gone []CDPObs
	for _, cd := range pre.Cdps {
		if !stillThere[cd.ID] {
			gone = append(gone, cd)
		}
	}
	if kind == "repay" || (len(gone) == 0 && len(collIDs) == 0) {
		return
	}

	// ---- operation level: auction records against bank movement
	nd := len(Denoms)
	deltas := make([]*big.Int, 0, nd-1)
	sums := make([]*big.Int, nd-1) // collateral denoms 2.., last slot = lots in a denom outside the universe
	for i := range sums {
		sums[i] = new(big.Int)
	}
	for d := 2; d < nd; d++ {
		deltas = append(deltas, new(big.Int).Sub(post.Bal[2][d], pre.Bal[2][d]))
	}
	deltas = append(deltas, new(big.Int))
	collDebt := new(big.Int)
	for _, id := range collIDs {
		a := coll[id]
		if di := denomID(a.Lot.Denom); di >= 2 {
			sums[di-2].Add(sums[di-2], a.Lot.Amount.BigInt())
		} else {
			sums[nd-2].Add(sums[nd-2], a.Lot.Amount.BigInt())
		}
		collDebt.Add(collDebt, a.CorrespondingDebt.Amount.BigInt())
	}
	debtDelta := new(big.Int).Sub(post.Bal[2][1], pre.Bal[2][1])
	s.Out.Case(fmt.Sprintf("%s|seized=%s|debt-auction=%v", kind, lotsBucket(len(gone)), debtAucDebt.Sign() > 0), s.LotsCmd+"um",
		kind, bigs(deltas), bigs(sums), debtDelta.String(), collDebt.String(), debtAucDebt.String())

	// ---- one line per seized CDP
	szs := s.parseSeizures(evs)
	consistent := len(szs) == len(gone)
	attributed := 0
	for _, z := range szs {
		attributed += len(z.aucs)
		found := false
		for _, g := range gone {
			if g.ID == z.id {
				found = true
			}
		}
		for _, id := range z.aucs {
			if coll[id] == nil {
				consistent = false
			}
		}
		consistent = consistent && found
	}
	if !consistent || attributed != len(collIDs) {
		// the event stream does not describe the seizures (never on the unchanged tree): with a single seizure all new
		// auctions are its auctions, the debt it moved stays unobserved; otherwise the per-CDP view is not available
		s.Out.Note("lots:events-inconsistent")
		if len(gone) != 1 {
			return
		}
		szs = []seizureEv{{id: gone[0].ID, debt: nil, aucs: collIDs}}
	}
	for _, z := range szs {
		var cd *CDPObs
		for i := range gone {
			if gone[i].ID == z.id {
				cd = &gone[i]
			}
		}
		cp := s.CP(cd.Ty)
		if cp == nil { // a CDP of a type that is not listed was seized: C05_block_sound reports it on the c05.op line
			s.Out.Note("lots:seized-unlisted-type")
			continue
		}
		var deps []string
		for _, d := range pre.Deps {
			if d.ID == cd.ID {
				deps = append(deps, fmt.Sprintf("%d:%s", d.Acct, d.Amt))
			}
		}
		reward := "-"
		if kind == "liquidate" && keeper >= 0 {
			di := Types[cd.Ty].DenomID
			reward = new(big.Int).Sub(post.Bal[keeper][di], pre.Bal[keeper][di]).String()
		}
		debt := "-"
		if z.debt != nil {
			debt = z.debt.String()
		}
		var lots []string
		uneven, remLot, penBoundary := false, false, false
		var prevWhole *auctiontypes.CollateralAuction
		for _, id := range z.aucs {
			a := coll[id]
			shape := 0
			ret := 0
			weight := new(big.Int)
			for _, wgt := range a.LotReturns.Weights {
				weight.Add(weight, wgt.BigInt())
			}
			if len(a.LotReturns.Addresses) == 1 {
				if acc, ok := s.W.accID[a.LotReturns.Addresses[0].String()]; ok {
					ret = acc
				} else {
					shape |= 1
				}
			} else {
				shape |= 1
			}
			if a.Initiator != cdptypes.LiquidatorMacc {
				shape |= 2
			}
			if a.Lot.Denom != Types[cd.Ty].Denom {
				shape |= 4
			}
			if a.MaxBid.Denom != "usdx" || a.Bid.Denom != "usdx" || !a.Bid.Amount.IsZero() || a.HasReceivedBids || len(a.Bidder) != 0 {
				shape |= 8
			}
			if a.CorrespondingDebt.Denom != "debt" {
				shape |= 16
			}
			lots = append(lots, fmt.Sprintf("%d:%s:%s:%s:%s:%d", ret, a.Lot.Amount, a.MaxBid.Amount, a.CorrespondingDebt.Amount, weight, shape))
			if a.Lot.Amount.Equal(cp.AuctionSize) {
				if prevWhole != nil && len(a.LotReturns.Addresses) == 1 && len(prevWhole.LotReturns.Addresses) == 1 &&
					a.LotReturns.Addresses[0].Equals(prevWhole.LotReturns.Addresses[0]) &&
					!a.CorrespondingDebt.Amount.Equal(prevWhole.CorrespondingDebt.Amount) {
					uneven = true
					// the two lots' own penalties differ: max bid = debt + penalty(debt) cannot be had from one shared penalty
					if !a.MaxBid.Amount.Sub(a.CorrespondingDebt.Amount).Equal(prevWhole.MaxBid.Amount.Sub(prevWhole.CorrespondingDebt.Amount)) {
						penBoundary = true
					}
				}
				prevWhole = a
			} else {
				remLot = true
			}
		}
		if uneven {
			s.Out.Note("lots:uneven-whole-lots")
		}
		if penBoundary {
			s.Out.Note("lots:penalty-differs-between-whole-lots")
		}
		s.Out.NoteN("lots:auctions", len(lots))
		sig := fmt.Sprintf("%s|deps=%d|lots=%s|rem=%v|uneven=%v|penb=%v|reward=%v|debt-observed=%v", kind, len(deps), lotsBucket(len(lots)),
			remLot, uneven, penBoundary, reward != "-" && reward != "0", debt != "-")
		s.Out.Case(sig, s.LotsCmd, kind, fmt.Sprint(cd.Ty), cp.AuctionSize.String(), cp.LiquidationPenalty.BigInt().String(), reward,
			joinOr(deps, ";"), debt, "=>", joinOr(lots, ";"))
	}
}

func joinOr(xs []string, sep string) string {
	if len(xs) == 0 {
		return "-"
	}
	return strings.Join(xs, sep)
}

func bigs(xs []*big.Int) string {
	ss := make([]string, len(xs))
	for i, x := range xs {
		ss[i] = x.String()
	}
	return joinOr(ss, ",")
}
