package sim

import (
	"math/big"

	sdkmath "cosmossdk.io/math"
	sdk "github.com/cosmos/cosmos-sdk/types"

	cdptypes "github.com/kava-labs/kava/x/cdp/types"

	c "kavaverif/harness/common"
	"kavaverif/harness/kapp"
)

func bi(x int64) *big.Int { return big.NewInt(x) }

func dec(s string) sdk.Dec { return sdk.MustNewDecFromStr(s) }

func decFromMant(m *big.Int) sdk.Dec { return sdk.NewDecFromBigIntWithPrec(m, 18) }

var ratioPool = []string{"1.5", "1.5", "2.0", "1.1", "1.333333333333333333", "1.000000000000000001", "3.0", "1.25"}
var feePool = []string{"1.0", "1.000000001547125958", "1.000000001547125958", "1.00000001", "1.000000051034942716"}
var rewardPool = []string{"0.0", "0.01", "0.01", "0.05", "0.5", "1.0"}

// RandomParams draws the per-history parameters (liquidation ratios, fees, keeper reward, index count,
// limits, auction thresholds, liquidation interval).
func RandomParams(r *c.Rng) cdptypes.Params {
	p := DefaultParams()
	for i := range p.CollateralParams {
		cp := &p.CollateralParams[i]
		cp.LiquidationRatio = dec(c.Pick(r, ratioPool))
		if r.Chance(15) {
			cp.LiquidationRatio = decFromMant(new(big.Int).Add(Pow10(18), r.BigBelow(Pow10(18))))
		}
		cp.StabilityFee = dec(c.Pick(r, feePool))
		cp.KeeperRewardPercentage = dec(c.Pick(r, rewardPool))
		cp.CheckCollateralizationIndexCount = sdkmath.NewInt(c.Pick(r, []int64{0, 1, 2, 3, 10, 10}))
		if r.Chance(10) {
			cp.DebtLimit = sdk.NewCoin("usdx", sdkmath.NewInt(r.Range(20000000, 400000000)))
		}
	}
	if r.Chance(10) {
		p.GlobalDebtLimit = sdk.NewCoin("usdx", sdkmath.NewInt(r.Range(20000000, 400000000)))
	}
	if r.Chance(25) { // let debt / surplus auctions start
		p.DebtAuctionThreshold = sdkmath.NewInt(r.Range(1, 50000000))
		p.DebtAuctionLot = sdkmath.NewInt(r.Range(1, 60000000))
		p.SurplusAuctionThreshold = sdkmath.NewInt(r.Range(1, 50000))
		p.SurplusAuctionLot = sdkmath.NewInt(r.Range(1, 100000))
	}
	p.LiquidationBlockInterval = c.Pick(r, []int64{1, 1, 1, 2, 3})
	return p
}

// ---------------------------------------------------------------- boundary solvers

// maxDebt: the largest debt d (usdx base units, cf 6) with c·10^-cf·price / (d·10^-6) ≥ L in exact arithmetic.
func maxDebt(col *big.Int, cf int64, price, L *big.Int) *big.Int {
	if L.Sign() == 0 {
		return bi(0)
	}
	num := new(big.Int).Mul(col, price)
	num.Mul(num, Pow10(6))
	den := new(big.Int).Mul(Pow10(cf), L)
	return num.Quo(num, den)
}

// minColl: the smallest collateral with the exact ratio ≥ L for debt d.
func minColl(debt *big.Int, cf int64, price, L *big.Int) *big.Int {
	if price.Sign() == 0 {
		return bi(0)
	}
	num := new(big.Int).Mul(debt, L)
	num.Mul(num, Pow10(cf))
	den := new(big.Int).Mul(Pow10(6), price)
	q, m := new(big.Int).QuoRem(num, den, new(big.Int))
	if m.Sign() != 0 {
		q.Add(q, bi(1))
	}
	return q
}

// priceAt: the price mantissa at which collateral c / debt d is exactly at ratio L (rounded down).
func priceAt(col, debt *big.Int, cf int64, L *big.Int) *big.Int {
	if col.Sign() == 0 {
		return bi(1)
	}
	// price = L · (d·10^-6) / (c·10^-cf)
	num := new(big.Int).Mul(L, debt)
	num.Mul(num, Pow10(cf))
	den := new(big.Int).Mul(col, Pow10(6))
	return num.Quo(num, den)
}

func around(r *c.Rng, x *big.Int, spread int64) *big.Int {
	y := new(big.Int).Add(x, bi(r.Range(-spread, spread)))
	if y.Sign() < 0 {
		return bi(0)
	}
	return y
}

func (s *Seq) randColl(ty int) *big.Int {
	r := s.R
	unit := Pow10(Types[ty].CF)
	switch r.Intn(4) {
	case 0: // round number of whole coins
		return new(big.Int).Mul(bi(r.Range(1, 300)), unit)
	case 1: // even number of small units (equal splits)
		x := r.BigBelow(new(big.Int).Mul(bi(200), unit))
		x.Add(x, unit)
		return x.Mul(x.Quo(x, bi(2)), bi(2))
	default:
		x := r.BigBelow(new(big.Int).Mul(bi(300), unit))
		return x.Add(x, new(big.Int).Quo(unit, bi(10)))
	}
}

func (s *Seq) price(o Obs, market int) *big.Int {
	if o.Price[market] == nil {
		return bi(0)
	}
	return o.Price[market]
}

// lm: the liquidation ratio in force of a type (1.5 for a type that is not listed: operations on it are refused
// anyway, the amounts only have to be plausible)
func (s *Seq) lm(ty int) *big.Int {
	if cp := s.CP(ty); cp != nil {
		return cp.LiquidationRatio.BigInt()
	}
	return dec("1.5").BigInt()
}

// spotID / liqID: the markets in force of a type (those of the genesis for a type that is not listed)
func (s *Seq) spotID(ty int) int {
	if cp := s.CP(ty); cp != nil {
		return MarketID(cp.SpotMarketID)
	}
	return Types[ty].SpotID
}

func (s *Seq) liqID(ty int) int {
	if cp := s.CP(ty); cp != nil {
		return MarketID(cp.LiquidationMarketID)
	}
	return Types[ty].LiqID
}

func debtOf(cd *CDPObs) *big.Int { return new(big.Int).Add(cd.Prin, cd.Fees) }

// Step executes one randomly generated, boundary-biased operation.
// profile "mixed" (C04) spreads over all operations; "boundary" (C05) concentrates on positions at the ratio.
func (s *Seq) Step(profile string) {
	r := s.R
	o := s.Pre()
	nU := len(s.W.Users)
	user := func() int { return 3 + r.Intn(nU) }
	owner := func() int { return 3 + r.Intn(4) } // 4 owners, the other 2 are third-party depositors / keepers
	ty := r.Intn(len(Types))
	if s.CP(ty) == nil && r.Chance(75) { // mostly a listed type; the refusals for unlisted ones are cheap to cover
		if l := listedTypes(&s.P); len(l) > 0 {
			ty = c.Pick(r, l)
		}
	}
	var existing *CDPObs
	if len(o.Cdps) > 0 {
		existing = &o.Cdps[r.Intn(len(o.Cdps))]
	}
	w := r.Intn(100)
	if len(o.Cdps) < 3 && r.Chance(60) {
		w = 0 // few positions yet: create
	}
	if profile == "boundary" {
		// more creations at the boundary, more blocks with solved prices, more keeper attempts
		switch {
		case w < 30:
			w = 0
		case w < 36:
			w = 20
		case w < 42:
			w = 32
		case w < 50:
			w = 44
		case w < 54:
			w = 58
		case w < 66:
			w = 70
		default:
			w = 80
		}
	}
	if s.focusN > 0 { // follow-up of a governance change: operations on the CDPs of the type it was about
		s.focusN--
		var mine []int
		for i := range o.Cdps {
			if o.Cdps[i].Ty == s.focusTy {
				mine = append(mine, i)
			}
		}
		if len(mine) > 0 {
			existing = &o.Cdps[mine[r.Intn(len(mine))]]
			ty = s.focusTy
			w = c.Pick(r, []int{70, 70, 70, 45, 45, 35, 35, 5, 60}) // keeper, draw, withdraw, create, repay
		}
	}
	switch {
	case w < 18: // ---- create
		ow := owner()
		col := s.randColl(ty)
		price := s.price(o, s.spotID(ty))
		pm := maxDebt(col, Types[ty].CF, price, s.lm(ty))
		var p *big.Int
		tag := ""
		switch r.Intn(8) {
		case 0, 1:
			p, tag = pm, "at-ratio"
		case 2:
			p, tag = new(big.Int).Add(pm, bi(1)), "ratio+1"
		case 3:
			p, tag = around(r, pm, 2), "ratio~"
		case 4:
			p, tag = bi(10000000+r.Range(-1, 1)), "floor~"
		case 5: // odd debts (equal-split rounding)
			p = new(big.Int).Add(bi(10000001), r.BigBelow(bi(90000000)))
			p.Or(p, bi(1))
			tag = "odd"
		default:
			p, tag = new(big.Int).Add(bi(10000000), r.BigBelow(new(big.Int).Add(pm, bi(1)))), "random"
			if p.Cmp(pm) > 0 {
				p = new(big.Int).Set(pm)
			}
		}
		cd, pd := Types[ty].DenomID, 0
		if r.Chance(3) {
			cd = c.Pick(r, []int{0, 2, 3, 4})
			tag = "denom?"
		}
		if r.Chance(2) {
			pd, tag = 1, "pdenom?"
		}
		if r.Chance(2) {
			ty, tag = 9, "type?"
		}
		if r.Chance(2) {
			col, tag = bi(0), "zero"
		}
		s.Create(ow, ty, col, cd, p, pd, tag)
	case w < 30: // ---- deposit
		if existing == nil {
			s.Deposit(owner(), user(), ty, bi(1), Types[ty].DenomID, "no-cdp")
			return
		}
		t := existing.Ty
		dep := existing.Owner
		if r.Chance(55) {
			dep = user()
		}
		var amt *big.Int
		tag := ""
		switch r.Intn(6) {
		case 0:
			amt, tag = bi(1), "one"
		case 1: // equal to an existing deposit of the CDP (equal shares)
			amt, tag = new(big.Int).Set(existing.Coll), "equal"
			for _, d := range o.Deps {
				if d.ID == existing.ID && r.Bool() {
					amt = new(big.Int).Set(d.Amt)
				}
			}
		case 2:
			amt, tag = new(big.Int).Add(o.Bal[dep][Types[t].DenomID], bi(r.Range(0, 1))), "balance~"
		case 3:
			amt, tag = bi(0), "zero"
		default:
			amt, tag = s.randColl(t), "random"
		}
		cd := Types[t].DenomID
		if r.Chance(3) {
			cd, tag = c.Pick(r, []int{0, 2, 3, 4}), "denom?"
		}
		s.Deposit(existing.Owner, dep, t, amt, cd, tag)
	case w < 42: // ---- withdraw
		if existing == nil {
			s.Withdraw(owner(), user(), ty, bi(1), Types[ty].DenomID, "no-cdp")
			return
		}
		t := existing.Ty
		dep := existing.Owner
		var mine *big.Int = bi(0)
		var others []DepObs
		for _, d := range o.Deps {
			if d.ID == existing.ID {
				others = append(others, d)
			}
		}
		if len(others) > 0 && r.Chance(50) {
			dep = others[r.Intn(len(others))].Acct
		}
		if r.Chance(8) {
			dep = user()
		}
		for _, d := range others {
			if d.Acct == dep {
				mine = d.Amt
			}
		}
		need := minColl(debtOf(existing), Types[t].CF, s.price(o, s.spotID(t)), s.lm(t))
		free := new(big.Int).Sub(existing.Coll, need)
		var amt *big.Int
		tag := ""
		switch r.Intn(7) {
		case 0, 1:
			amt, tag = free, "to-ratio"
		case 2:
			amt, tag = around(r, free, 2), "ratio~"
		case 3:
			amt, tag = new(big.Int).Set(mine), "whole-deposit"
		case 4:
			amt, tag = new(big.Int).Add(mine, bi(1)), "deposit+1"
		case 5:
			amt, tag = bi(1), "one"
		default:
			amt, tag = r.BigBelow(new(big.Int).Add(mine, bi(2))), "random"
		}
		if amt.Sign() < 0 {
			amt = bi(0)
		}
		s.Withdraw(existing.Owner, dep, t, amt, Types[t].DenomID, tag)
	case w < 54: // ---- draw
		if existing == nil {
			s.Draw(owner(), ty, bi(1000000), 0, "no-cdp")
			return
		}
		t := existing.Ty
		pm := maxDebt(existing.Coll, Types[t].CF, s.price(o, s.spotID(t)), s.lm(t))
		room := new(big.Int).Sub(pm, debtOf(existing))
		var p *big.Int
		tag := ""
		switch r.Intn(6) {
		case 0, 1:
			p, tag = room, "to-ratio"
		case 2:
			p, tag = around(r, room, 2), "ratio~"
		case 3:
			p, tag = bi(1), "one"
		case 4:
			lim := Pow10(18)
			if cp := s.CP(t); cp != nil {
				lim = cp.DebtLimit.Amount.BigInt()
			}
			p, tag = new(big.Int).Add(new(big.Int).Sub(lim, o.TPrin[t]), bi(r.Range(0, 1))), "limit~"
		default:
			p, tag = r.BigBelow(new(big.Int).Add(new(big.Int).Abs(room), bi(2))), "random"
		}
		if p.Sign() < 0 {
			p = bi(0)
		}
		pd := 0
		if r.Chance(3) {
			pd, tag = 1, "pdenom?"
		}
		s.Draw(existing.Owner, t, p, pd, tag)
	case w < 68: // ---- repay
		if existing == nil {
			s.Repay(owner(), ty, bi(1000000), 0, "no-cdp")
			return
		}
		t := existing.Ty
		tot := debtOf(existing)
		floor := s.P.DebtParam.DebtFloor.BigInt()
		var p *big.Int
		tag := ""
		switch r.Intn(10) {
		case 0:
			p, tag = bi(1), "one"
		case 1:
			p, tag = around(r, existing.Fees, 1), "fees~"
		case 2:
			p, tag = new(big.Int).Sub(existing.Prin, floor), "to-floor"
		case 3:
			p, tag = new(big.Int).Add(new(big.Int).Sub(tot, floor), bi(r.Range(0, 2))), "below-floor~"
		case 4, 5:
			p, tag = new(big.Int).Set(tot), "exact"
		case 6:
			p, tag = new(big.Int).Add(tot, bi(r.Range(1, 1000))), "over"
		case 7:
			p, tag = new(big.Int).Mul(tot, bi(3)), "over-x3"
		case 8:
			p, tag = new(big.Int).Add(o.Bal[existing.Owner][0], bi(1)), "balance+1"
		default:
			p, tag = r.BigBelow(new(big.Int).Add(tot, bi(2))), "random"
		}
		if p.Sign() < 0 {
			p = bi(0)
		}
		pd := 0
		if r.Chance(3) {
			pd, tag = 1, "pdenom?"
		}
		s.Repay(existing.Owner, t, p, pd, tag)
	case w < 76: // ---- keeper liquidation
		if existing == nil || r.Chance(10) {
			s.Liquidate(user(), owner(), ty, "no-cdp?")
			return
		}
		s.Liquidate(user(), existing.Owner, existing.Ty, "")
	default: // ---- next block with oracle activity
		if s.FeedPct > 0 && r.Chance(s.FeedPct) { // ---- or a price-feed outage episode (feed.go)
			t := ty
			if existing != nil && r.Chance(80) {
				t = existing.Ty
			}
			if s.CP(t) != nil {
				s.FeedEpisode(s.RandomFeedPlan(t))
				return
			}
		}
		tag := s.oracleActivity(o, existing, profile)
		gap := c.Pick(r, []int64{0, 1, 1, 5, 60, 3600, 86400, 86400 * 30})
		if s.GovPct > 0 && r.Chance(s.GovPct) {
			s.Pending = s.Governance(o, existing)
		}
		s.NextBlock(gap, tag)
	}
}

// oracleActivity posts raw prices in the current block (they become current at its end).
func (s *Seq) oracleActivity(o Obs, existing *CDPObs, profile string) string {
	r := s.R
	tag := "same-price"
	n := r.Intn(3)
	if profile == "boundary" && n == 0 {
		n = 1
	}
	for i := 0; i < n; i++ {
		var t int
		if existing != nil && r.Chance(80) {
			t = existing.Ty
		} else {
			t = r.Intn(len(Types))
		}
		both := r.Chance(60)
		var pm *big.Int
		cur := s.price(o, s.liqID(t))
		k := r.Intn(10)
		if profile == "boundary" && k >= 6 {
			k = r.Intn(4)
		}
		switch {
		case k < 4 && existing != nil && existing.Ty == t: // price at which this CDP sits at the ratio, ± a few ulp
			pm = around(r, priceAt(existing.Coll, debtOf(existing), Types[t].CF, s.lm(t)), 3)
			tag = "solved-price"
		case k < 6:
			pm = new(big.Int).Quo(new(big.Int).Mul(cur, bi(c.Pick(r, []int64{50, 80, 90, 99, 101, 110, 150, 200}))), bi(100))
			tag = "scaled-price"
		case k < 7:
			pm = c.Pick(r, []*big.Int{Pow10(17), new(big.Int).Mul(bi(5), Pow10(17)), Pow10(18), new(big.Int).Mul(bi(8000), Pow10(18)), Pow10(12)})
			tag = "round-price"
		case k < 8: // let a feed expire
			m := c.Pick(r, []int{Types[t].SpotID, Types[t].LiqID})
			if o.Price[m] != nil {
				s.PostPrice(m, decFromMant(o.Price[m]), true)
			}
			tag = "expiring-feed"
			continue
		default:
			pm = new(big.Int).Add(r.BigBelow(new(big.Int).Mul(bi(20), Pow10(18))), bi(1))
			tag = "random-price"
		}
		if pm.Sign() <= 0 {
			pm = bi(1)
		}
		s.PostPrice(Types[t].LiqID, decFromMant(pm), false)
		if both {
			s.PostPrice(Types[t].SpotID, decFromMant(pm), false)
		}
	}
	// feeds that went down come back now and then
	for m := range Markets {
		if o.Price[m] == nil && r.Chance(40) {
			s.PostPrice(m, dec("2.0"), false)
			tag += "+revive"
		}
	}
	return tag
}

var _ = kapp.OK
