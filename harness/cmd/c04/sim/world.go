// Package sim: the x/cdp world shared by the C04 and C05 harnesses — genesis, canonical observation
// of the real keeper's state, and the executors of the user operations and of the block transition.
// States are only ever produced by running the real keeper from genesis.
package sim

import (
	"bytes"
	"fmt"
	"math/big"
	"sort"
	"strings"
	"sync"
	"time"

	sdkmath "cosmossdk.io/math"
	sdk "github.com/cosmos/cosmos-sdk/types"

	"github.com/kava-labs/kava/app"
	auctiontypes "github.com/kava-labs/kava/x/auction/types"
	cdpkeeper "github.com/kava-labs/kava/x/cdp/keeper"
	cdptypes "github.com/kava-labs/kava/x/cdp/types"
	pricefeedtypes "github.com/kava-labs/kava/x/pricefeed/types"

	"kavaverif/harness/kapp"
)

// TypeCfg is one collateral type; the slice is in type-name byte order (= ratio-index store order).
type TypeCfg struct {
	Name, Denom string
	DenomID     int
	CF          int64
	Spot, Liq   string
	SpotID      int
	LiqID       int
	AuctionSize int64
}

// Types is the UNIVERSE of collateral types of a run (positions = the type numbers of the case lines and of the
// Lean model).  The first NBase are listed in the genesis parameters; "xrp-b" is not: governance adds it in the
// middle of a history.  Any type can be removed from the parameters and added again while CDPs of it exist;
// denom and conversion factor are attributes of the type and never change (the stored ratio-index keys were
// computed with them).  Spot/Liq are the markets of the genesis parameters; governance can switch them.
var Types = []TypeCfg{
	{"bnb-a", "bnb", 2, 8, "bnb:usd", "bnb:usd:30", 0, 1, 5000000000},
	{"bnb-b", "bnb", 2, 8, "bnb:usd", "bnb:usd:30", 0, 1, 5000000000},
	{"eth-a", "eth", 3, 18, "eth:usd", "eth:usd:30", 2, 3, 0}, // auction size set below (10^19)
	{"xrp-a", "xrp", 4, 6, "xrp:usd", "xrp:usd:30", 4, 5, 100000000},
	{"xrp-b", "xrp", 4, 6, "xrp:usd", "xrp:usd:30", 4, 5, 100000000},
}

// NBase: how many types of the universe the genesis (and DefaultParams) list.
const NBase = 4

var Denoms = []string{"usdx", "debt", "bnb", "eth", "xrp"}
var Markets = []string{"bnb:usd", "bnb:usd:30", "eth:usd", "eth:usd:30", "xrp:usd", "xrp:usd:30"}

const NUsers = 6

var ten = big.NewInt(10)

func Pow10(n int64) *big.Int { return new(big.Int).Exp(ten, big.NewInt(n), nil) }

func AuctionSize(t TypeCfg) sdkmath.Int {
	if t.CF == 18 {
		return sdkmath.NewIntFromBigInt(Pow10(19))
	}
	return sdkmath.NewInt(t.AuctionSize)
}

type World struct {
	App    app.TestApp
	Base   sdk.Context
	Users  []sdk.AccAddress // sorted by address bytes; account ids 3..
	Oracle sdk.AccAddress
	accID  map[string]int
	Mods   []sdk.AccAddress // cdp, liquidator, auction
}

// DefaultCollateral: the parameters a type of the universe has in the genesis / when governance lists it anew.
func DefaultCollateral(ty int) cdptypes.CollateralParam {
	t := Types[ty]
	return cdptypes.CollateralParam{
		Denom: t.Denom, Type: t.Name, LiquidationRatio: sdk.MustNewDecFromStr("1.5"),
		DebtLimit:    sdk.NewCoin("usdx", sdkmath.NewIntFromBigInt(Pow10(18))),
		StabilityFee: sdk.MustNewDecFromStr("1.000000001547125958"), AuctionSize: AuctionSize(t),
		LiquidationPenalty: sdk.MustNewDecFromStr("0.05"), SpotMarketID: t.Spot, LiquidationMarketID: t.Liq,
		KeeperRewardPercentage: sdk.MustNewDecFromStr("0.01"), CheckCollateralizationIndexCount: sdkmath.NewInt(10),
		ConversionFactor: sdkmath.NewInt(t.CF),
	}
}

func DefaultParams() cdptypes.Params {
	var cps cdptypes.CollateralParams
	for ty := 0; ty < NBase; ty++ {
		cps = append(cps, DefaultCollateral(ty))
	}
	huge := sdkmath.NewIntFromBigInt(Pow10(30))
	return cdptypes.Params{
		GlobalDebtLimit: sdk.NewCoin("usdx", sdkmath.NewIntFromBigInt(Pow10(19))), CollateralParams: cps,
		DebtParam:               cdptypes.DebtParam{Denom: "usdx", ReferenceAsset: "usd", ConversionFactor: sdkmath.NewInt(6), DebtFloor: sdkmath.NewInt(10000000)},
		SurplusAuctionThreshold: huge, SurplusAuctionLot: sdkmath.NewInt(10000000000),
		DebtAuctionThreshold: huge, DebtAuctionLot: sdkmath.NewInt(10000000000),
		LiquidationBlockInterval: 1,
	}
}

// NewWorld builds the repository's test app with 6 funded users, one oracle, 6 markets and 4 collateral types.
func NewWorld() *World {
	mkMu.Lock()
	defer mkMu.Unlock()
	cfgOnce.Do(func() { app.SetSDKConfig() }) // bech32 prefixes must be set before addresses are rendered into genesis JSON
	_, addrs := app.GeneratePrivKeyAddressPairs(NUsers + 1)
	users := append([]sdk.AccAddress{}, addrs[:NUsers]...)
	sort.Slice(users, func(i, j int) bool { return bytes.Compare(users[i], users[j]) < 0 })
	oracle := addrs[NUsers]
	cdc := app.MakeEncodingConfig().Marshaler

	fund := sdk.NewCoins(
		sdk.NewCoin("usdx", sdkmath.NewIntFromBigInt(Pow10(15))),
		sdk.NewCoin("bnb", sdkmath.NewIntFromBigInt(Pow10(12))),
		sdk.NewCoin("eth", sdkmath.NewIntFromBigInt(new(big.Int).Mul(big.NewInt(2), Pow10(21)))),
		sdk.NewCoin("xrp", sdkmath.NewIntFromBigInt(new(big.Int).Mul(big.NewInt(2), Pow10(10)))),
	)
	authGen := app.NewFundedGenStateWithSameCoins(cdc, fund, users)

	var mkts []pricefeedtypes.Market
	var posted []pricefeedtypes.PostedPrice
	for _, m := range Markets {
		base := strings.Split(m, ":")[0]
		mkts = append(mkts, pricefeedtypes.Market{MarketID: m, BaseAsset: base, QuoteAsset: "usd", Oracles: []sdk.AccAddress{oracle}, Active: true})
		posted = append(posted, pricefeedtypes.PostedPrice{MarketID: m, OracleAddress: oracle, Price: sdk.MustNewDecFromStr("2.0"), Expiry: kapp.GenTime.Add(100000 * time.Hour)})
	}
	pfGen := pricefeedtypes.GenesisState{Params: pricefeedtypes.Params{Markets: mkts}, PostedPrices: posted}

	params := DefaultParams()
	var gats cdptypes.GenesisAccumulationTimes
	var gtps cdptypes.GenesisTotalPrincipals
	for _, t := range Types[:NBase] {
		gats = append(gats, cdptypes.NewGenesisAccumulationTime(t.Name, time.Time{}, sdk.OneDec()))
		gtps = append(gtps, cdptypes.NewGenesisTotalPrincipal(t.Name, sdk.ZeroInt()))
	}
	cdpGen := cdptypes.GenesisState{
		Params: params, StartingCdpID: cdptypes.DefaultCdpStartingID, DebtDenom: cdptypes.DefaultDebtDenom,
		GovDenom: cdptypes.DefaultGovDenom, CDPs: cdptypes.CDPs{}, PreviousAccumulationTimes: gats, TotalPrincipals: gtps,
	}
	tApp2, ctx := kapp.NewApp(
		authGen,
		app.GenesisState{pricefeedtypes.ModuleName: cdc.MustMarshalJSON(&pfGen)},
		app.GenesisState{cdptypes.ModuleName: cdc.MustMarshalJSON(&cdpGen)},
	)
	w := &World{App: tApp2, Base: ctx, Users: users, Oracle: oracle, accID: map[string]int{}}
	ak := tApp2.GetAccountKeeper()
	for i, name := range []string{cdptypes.ModuleName, cdptypes.LiquidatorMacc, auctiontypes.ModuleName} {
		a := ak.GetModuleAccount(ctx, name).GetAddress()
		w.Mods = append(w.Mods, a)
		w.accID[a.String()] = i
	}
	for i, u := range users {
		w.accID[u.String()] = 3 + i
	}
	return w
}

var mkMu sync.Mutex
var cfgOnce sync.Once

// NewWorldBarrier returns a world constructor for kapp.RunSeqs that lets no sequence start before all
// `workers` worlds exist: building an app touches process-global registries (codecs, sdk config) that
// running keepers read.
func NewWorldBarrier(workers int) func() *World {
	var wg sync.WaitGroup
	wg.Add(workers)
	return func() *World {
		w := NewWorld()
		wg.Done()
		wg.Wait()
		return w
	}
}

func (w *World) Keeper() cdpkeeper.Keeper { return w.App.GetCDPKeeper() }

func (w *World) Addr(id int) sdk.AccAddress {
	if id < 3 {
		return w.Mods[id]
	}
	return w.Users[id-3]
}

// ---------------------------------------------------------------- observation

type CDPObs struct {
	ID               uint64
	Owner, Ty        int
	Coll, Prin, Fees *big.Int
	Updated          int64
	IFac             *big.Int
}

type DepObs struct {
	ID   uint64
	Acct int
	Amt  *big.Int
}

type IdxObs struct {
	Ty  int
	Key *big.Int
	ID  uint64
}

type Obs struct {
	NextID uint64
	Cdps   []CDPObs
	Deps   []DepObs
	Own    map[int][]uint64
	Idx    []IdxObs
	TPrin  []*big.Int
	IFac   []*big.Int // nil = not set
	Accr   []*int64
	Status []bool
	Price  []*big.Int // nil = no valid price
	Bal    [][]*big.Int // [acct][denom]
	Supply []*big.Int
}

func TypeID(name string) int {
	for i, t := range Types {
		if t.Name == name {
			return i
		}
	}
	return -1
}

func (w *World) acct(a sdk.AccAddress) int {
	id, ok := w.accID[a.String()]
	if !ok {
		panic("harness: address outside the party set: " + a.String())
	}
	return id
}

// Observe reads the canonical observation through the keeper's getters and the raw index iterators.
func (w *World) Observe(ctx sdk.Context) Obs {
	ctx, _ = ctx.CacheContext() // GetTotalPrincipal writes a zero when absent: never let that leak
	k := w.Keeper()
	bk := w.App.GetBankKeeper()
	pk := w.App.GetPriceFeedKeeper()
	var o Obs
	o.NextID = k.GetNextCdpID(ctx)
	for _, c := range k.GetAllCdps(ctx) {
		o.Cdps = append(o.Cdps, CDPObs{ID: c.ID, Owner: w.acct(c.Owner), Ty: TypeID(c.Type), Coll: c.Collateral.Amount.BigInt(),
			Prin: c.Principal.Amount.BigInt(), Fees: c.AccumulatedFees.Amount.BigInt(), Updated: c.FeesUpdated.Unix(), IFac: c.InterestFactor.BigInt()})
	}
	sort.Slice(o.Cdps, func(i, j int) bool { return o.Cdps[i].ID < o.Cdps[j].ID })
	k.VerifIterateAllDeposits(ctx, func(d cdptypes.Deposit) bool {
		o.Deps = append(o.Deps, DepObs{ID: d.CdpID, Acct: w.acct(d.Depositor), Amt: d.Amount.Amount.BigInt()})
		return false
	})
	sort.Slice(o.Deps, func(i, j int) bool {
		if o.Deps[i].ID != o.Deps[j].ID {
			return o.Deps[i].ID < o.Deps[j].ID
		}
		return o.Deps[i].Acct < o.Deps[j].Acct
	})
	o.Own = map[int][]uint64{}
	k.VerifIterateOwnerIndex(ctx, func(owner sdk.AccAddress, ids []uint64) bool {
		o.Own[w.acct(owner)] = append([]uint64{}, ids...)
		return false
	})
	k.VerifIterateRatioIndex(ctx, func(e cdpkeeper.VerifRatioIndexEntry) bool {
		if e.KeyID != e.ValueID {
			panic("harness: ratio index value differs from the id in its key")
		}
		o.Idx = append(o.Idx, IdxObs{Ty: TypeID(e.CollateralType), Key: e.Ratio.BigInt(), ID: e.KeyID})
		return false
	})
	for _, t := range Types {
		o.TPrin = append(o.TPrin, totalPrincipal(k, ctx, t.Name))
		if f, ok := k.GetInterestFactor(ctx, t.Name); ok {
			o.IFac = append(o.IFac, f.BigInt())
		} else {
			o.IFac = append(o.IFac, nil)
		}
		if tm, ok := k.GetPreviousAccrualTime(ctx, t.Name); ok {
			u := tm.Unix()
			o.Accr = append(o.Accr, &u)
		} else {
			o.Accr = append(o.Accr, nil)
		}
	}
	for _, m := range Markets {
		o.Status = append(o.Status, k.GetMarketStatus(ctx, m))
		if p, err := pk.GetCurrentPrice(ctx, m); err == nil {
			o.Price = append(o.Price, p.Price.BigInt())
		} else {
			o.Price = append(o.Price, nil)
		}
	}
	for a := 0; a < 3+len(w.Users); a++ {
		row := make([]*big.Int, len(Denoms))
		for d, dn := range Denoms {
			row[d] = bk.GetBalance(ctx, w.Addr(a), dn).Amount.BigInt()
		}
		o.Bal = append(o.Bal, row)
	}
	for _, dn := range Denoms {
		o.Supply = append(o.Supply, bk.GetSupply(ctx, dn).Amount.BigInt())
	}
	return o
}

// totalPrincipal: GetTotalPrincipal writes a zero when the record is absent, and that write panics for a type
// that is not listed in the parameters ("collateral not found"): an absent record of an unlisted type reads as 0.
func totalPrincipal(k cdpkeeper.Keeper, ctx sdk.Context, name string) (v *big.Int) {
	defer func() {
		if r := recover(); r != nil {
			v = big.NewInt(0)
		}
	}()
	return k.GetTotalPrincipal(ctx, name, "usdx").BigInt()
}

func optBig(x *big.Int) string {
	if x == nil {
		return "-"
	}
	return x.String()
}

// String renders the 12-section state field of a case line.
func (o Obs) String() string {
	var sb strings.Builder
	join := func(xs []string, sep string) string {
		if len(xs) == 0 {
			return "-"
		}
		return strings.Join(xs, sep)
	}
	var xs []string
	for _, c := range o.Cdps {
		xs = append(xs, fmt.Sprintf("%d:%d:%d:%s:%s:%s:%d:%s", c.ID, c.Owner, c.Ty, c.Coll, c.Prin, c.Fees, c.Updated, c.IFac))
	}
	fmt.Fprintf(&sb, "%d|%s|", o.NextID, join(xs, ";"))
	xs = nil
	for _, d := range o.Deps {
		xs = append(xs, fmt.Sprintf("%d:%d:%s", d.ID, d.Acct, d.Amt))
	}
	sb.WriteString(join(xs, ";") + "|")
	xs = nil
	var owners []int
	for a := range o.Own {
		owners = append(owners, a)
	}
	sort.Ints(owners)
	for _, a := range owners {
		var ids []string
		for _, id := range o.Own[a] {
			ids = append(ids, fmt.Sprint(id))
		}
		xs = append(xs, fmt.Sprintf("%d:%s", a, strings.Join(ids, ".")))
	}
	sb.WriteString(join(xs, ";") + "|")
	xs = nil
	for _, e := range o.Idx {
		xs = append(xs, fmt.Sprintf("%d:%s:%d", e.Ty, e.Key, e.ID))
	}
	sb.WriteString(join(xs, ";") + "|")
	xs = nil
	for _, v := range o.TPrin {
		xs = append(xs, v.String())
	}
	sb.WriteString(join(xs, ",") + "|")
	xs = nil
	for _, v := range o.IFac {
		xs = append(xs, optBig(v))
	}
	sb.WriteString(join(xs, ",") + "|")
	xs = nil
	for _, v := range o.Accr {
		if v == nil {
			xs = append(xs, "-")
		} else {
			xs = append(xs, fmt.Sprint(*v))
		}
	}
	sb.WriteString(join(xs, ",") + "|")
	xs = nil
	for _, v := range o.Status {
		if v {
			xs = append(xs, "1")
		} else {
			xs = append(xs, "0")
		}
	}
	sb.WriteString(join(xs, ",") + "|")
	xs = nil
	for _, v := range o.Price {
		xs = append(xs, optBig(v))
	}
	sb.WriteString(join(xs, ",") + "|")
	xs = nil
	for a, row := range o.Bal {
		for d, v := range row {
			if v.Sign() != 0 {
				xs = append(xs, fmt.Sprintf("%d:%d:%s", a, d, v))
			}
		}
	}
	sb.WriteString(join(xs, ";") + "|")
	xs = nil
	for _, v := range o.Supply {
		xs = append(xs, v.String())
	}
	sb.WriteString(join(xs, ","))
	return sb.String()
}

// MarketID: position of a market name in Markets (the market numbers of the case lines).
func MarketID(name string) int {
	for i, m := range Markets {
		if m == name {
			return i
		}
	}
	panic("harness: market outside the universe: " + name)
}

// FindCollateral: the entry of universe type ty in a parameter set (nil = the type is not listed).
func FindCollateral(p *cdptypes.Params, ty int) *cdptypes.CollateralParam {
	if ty < 0 || ty >= len(Types) {
		return nil
	}
	for i := range p.CollateralParams {
		if p.CollateralParams[i].Type == Types[ty].Name {
			return &p.CollateralParams[i]
		}
	}
	return nil
}

// ParamsString renders the parameter field of a case line from a parameter set (the one read from the x/params
// store): one entry per type of the universe in type-name order — a type that is not listed keeps its denom and
// conversion factor and is flagged inactive — then the globals, the user accounts, and the positions of the listed
// types in the order of CollateralParams (the begin blocker's loop order).
func (w *World) ParamsString(p cdptypes.Params, genUsdx *big.Int) string {
	var ts []string
	for ty, t := range Types {
		cp := FindCollateral(&p, ty)
		if cp == nil {
			ts = append(ts, fmt.Sprintf("%d,0,0,1,0,0,%d,%d,%d,0", t.DenomID, t.CF, t.SpotID, t.LiqID))
			continue
		}
		if cp.Denom != t.Denom || cp.ConversionFactor.Int64() != t.CF {
			panic("harness: denom / conversion factor of a collateral type changed (outside the modelled parameter changes)")
		}
		one := "0"
		if cp.StabilityFee.Equal(sdk.OneDec()) {
			one = "1"
		}
		ts = append(ts, fmt.Sprintf("%d,%s,%s,%s,%s,%s,%d,%d,%d,1", t.DenomID, cp.LiquidationRatio.BigInt(), cp.DebtLimit.Amount,
			one, cp.KeeperRewardPercentage.BigInt(), cp.CheckCollateralizationIndexCount, cp.ConversionFactor.Int64(),
			MarketID(cp.SpotMarketID), MarketID(cp.LiquidationMarketID)))
	}
	if p.DebtParam.ConversionFactor.Int64() != 6 || p.DebtParam.Denom != "usdx" {
		panic("harness: debt param denom / conversion factor changed (outside the modelled parameter changes)")
	}
	glob := fmt.Sprintf("%d,%s,%s,%s,%s,%s,%s,%s,%d,%d", p.DebtParam.ConversionFactor.Int64(), p.DebtParam.DebtFloor, p.GlobalDebtLimit.Amount,
		p.SurplusAuctionThreshold, p.SurplusAuctionLot, p.DebtAuctionThreshold, p.DebtAuctionLot, genUsdx, len(Denoms), len(Markets))
	var us []string
	for i := range w.Users {
		us = append(us, fmt.Sprint(3+i))
	}
	var order []string
	for _, cp := range p.CollateralParams {
		ty := TypeID(cp.Type)
		if ty < 0 {
			panic("harness: collateral type outside the universe: " + cp.Type)
		}
		order = append(order, fmt.Sprint(ty))
	}
	ord := "-"
	if len(order) > 0 {
		ord = strings.Join(order, ",")
	}
	return strings.Join(ts, ";") + "|" + glob + "|" + strings.Join(us, ",") + "|" + ord
}
