package sim

import (
	"math/big"
	"strings"

	sdkmath "cosmossdk.io/math"
	sdk "github.com/cosmos/cosmos-sdk/types"

	cdptypes "github.com/kava-labs/kava/x/cdp/types"

	c "kavaverif/harness/common"
)

// Governance-style parameter changes in the middle of a history.
//
// On a live chain the x/cdp parameters are written by the governance end blocker or the committee begin blocker,
// i.e. between the last transaction of a block and the cdp begin blocker of the next one; the harness enacts a
// change exactly there (Seq.NextBlock).  Every per-field validation rule of x/cdp/types/params.go is respected
// (a ParameterChangeProposal runs them); the cross-field rule of Params.Validate (sum of debt limits ≤ global
// limit) is not run by that route and is not respected on purpose.
//
// Never changed: the conversion factor and the denom of a collateral type and the debt param (denom, conversion
// factor).  The stored ratio-index keys were computed with them and the code has no migration: after such a
// change UpdateCdpAndCollateralRatioIndex recomputes the "old" key with the new factor, misses the stored key and
// leaves a stale entry.  That is a property of the design (a chain upgrade would migrate), not a reachable
// governance scenario the properties speak about.

// ratioAt: mantissa of collateral·price / debt in exact arithmetic (rounded down): the liquidation ratio at which
// the position sits exactly on the boundary.
func ratioAt(col, debt *big.Int, cf int64, price *big.Int) *big.Int {
	if debt.Sign() == 0 {
		return Pow10(18)
	}
	num := new(big.Int).Mul(col, price)
	num.Mul(num, Pow10(6))
	den := new(big.Int).Mul(debt, Pow10(cf))
	return num.Quo(num, den)
}

func clampRatio(m *big.Int) sdk.Dec {
	lo := new(big.Int).Quo(Pow10(18), bi(2)) // 0.5
	hi := new(big.Int).Mul(bi(50), Pow10(18))
	if m.Cmp(lo) < 0 {
		m = lo
	}
	if m.Cmp(hi) > 0 {
		m = hi
	}
	return decFromMant(m)
}

func listedTypes(p *cdptypes.Params) []int {
	var out []int
	for ty := range Types {
		if FindCollateral(p, ty) != nil {
			out = append(out, ty)
		}
	}
	return out
}

func assetMarkets(ty int) []string { return []string{Types[ty].Spot, Types[ty].Liq} }

// RandomCollateral: the entry with which governance lists a type (anew).
func RandomCollateral(r *c.Rng, ty int) cdptypes.CollateralParam {
	cp := DefaultCollateral(ty)
	cp.LiquidationRatio = dec(c.Pick(r, ratioPool))
	cp.StabilityFee = dec(c.Pick(r, feePool))
	cp.KeeperRewardPercentage = dec(c.Pick(r, rewardPool))
	cp.CheckCollateralizationIndexCount = sdkmath.NewInt(c.Pick(r, []int64{0, 1, 2, 3, 10, 10}))
	return cp
}

// Governance draws one parameter change (one to three fields) against the observed state; the returned function
// edits a copy of the parameters in force at the block boundary and returns the tag of the change ("" = nothing).
func (s *Seq) Governance(o Obs, existing *CDPObs) func(p *cdptypes.Params) string {
	r := s.R
	n := 1 + r.Intn(3)
	if r.Chance(50) {
		n = 1
	}
	kinds := make([]int, n)
	for i := range kinds {
		kinds[i] = r.Intn(100)
	}
	return func(p *cdptypes.Params) string {
		var tags []string
		for _, k := range kinds {
			listed := listedTypes(p)
			// the type the change is about: the type of an existing CDP most of the time
			t := -1
			if existing != nil && r.Chance(75) {
				t = existing.Ty
			} else if len(o.Cdps) > 0 && r.Chance(60) {
				t = o.Cdps[r.Intn(len(o.Cdps))].Ty
			} else if len(listed) > 0 {
				t = c.Pick(r, listed)
			}
			var cp *cdptypes.CollateralParam
			if t >= 0 {
				cp = FindCollateral(p, t)
			}
			tag := ""
			switch {
			case k < 26 && cp != nil: // ---- liquidation ratio
				var cd *CDPObs
				for i := range o.Cdps {
					if o.Cdps[i].Ty == t && (cd == nil || r.Bool()) {
						cd = &o.Cdps[i]
					}
				}
				if existing != nil && existing.Ty == t {
					cd = existing
				}
				cur := cp.LiquidationRatio.BigInt()
				switch sel := r.Intn(8); {
				case sel < 4 && cd != nil: // onto the position: at / a few ulp above / below its ratio at the liquidation price
					at := ratioAt(cd.Coll, debtOf(cd), Types[t].CF, s.price(o, MarketID(cp.LiquidationMarketID)))
					cp.LiquidationRatio = clampRatio(around(r, at, 3))
					tag = "ratio-onto-cdp"
				case sel < 5 && cd != nil: // clearly past the position, either way
					at := ratioAt(cd.Coll, debtOf(cd), Types[t].CF, s.price(o, MarketID(cp.LiquidationMarketID)))
					pct := c.Pick(r, []int64{80, 95, 105, 130})
					cp.LiquidationRatio = clampRatio(new(big.Int).Quo(new(big.Int).Mul(at, bi(pct)), bi(100)))
					tag = "ratio-past-cdp"
				case sel < 7:
					pct := c.Pick(r, []int64{60, 80, 90, 99, 101, 110, 125, 200})
					cp.LiquidationRatio = clampRatio(new(big.Int).Quo(new(big.Int).Mul(cur, bi(pct)), bi(100)))
					if pct < 100 {
						tag = "ratio-lowered"
					} else {
						tag = "ratio-raised"
					}
				default:
					cp.LiquidationRatio = dec(c.Pick(r, ratioPool))
					tag = "ratio-pool"
				}
			case k < 38 && cp != nil: // ---- stability fee
				switch r.Intn(4) {
				case 0:
					cp.StabilityFee = sdk.OneDec()
					tag = "fee-one"
				case 1:
					cp.StabilityFee = dec("1.000000051034942716") // the maximum
					tag = "fee-max"
				case 2:
					cp.StabilityFee = decFromMant(new(big.Int).Add(Pow10(18), r.BigBelow(bi(51034942716))))
					tag = "fee-random"
				default:
					cp.StabilityFee = dec(c.Pick(r, feePool))
					tag = "fee-pool"
				}
			case k < 47 && cp != nil: // ---- debt limit of the type: below / at / just above the debt that exists
				tp := new(big.Int).Set(o.TPrin[t])
				switch r.Intn(5) {
				case 0:
					tp.Sub(tp, bi(r.Range(1, 5000000)))
					tag = "limit-below-debt"
				case 1:
					tag = "limit-at-debt"
				case 2:
					tp.Add(tp, bi(r.Range(1, 20000000)))
					tag = "limit-just-above-debt"
				case 3:
					tp = bi(0)
					tag = "limit-zero"
				default:
					tp = Pow10(18)
					tag = "limit-restored"
				}
				if tp.Sign() < 0 {
					tp = bi(0)
				}
				cp.DebtLimit = sdk.NewCoin("usdx", sdkmath.NewIntFromBigInt(tp))
			case k < 53: // ---- global debt limit
				// (ValidateDebtLimit compares the TYPE's total principal with the global limit)
				tp := bi(0)
				if t >= 0 {
					tp = new(big.Int).Set(o.TPrin[t])
				}
				switch r.Intn(4) {
				case 0:
					tp.Sub(tp, bi(r.Range(1, 5000000)))
					tag = "global-limit-below-debt"
				case 1:
					tp.Add(tp, bi(r.Range(0, 20000000)))
					tag = "global-limit-just-above-debt"
				case 2:
					tp = bi(0)
					tag = "global-limit-zero"
				default:
					tp = Pow10(19)
					tag = "global-limit-restored"
				}
				if tp.Sign() < 0 {
					tp = bi(0)
				}
				p.GlobalDebtLimit = sdk.NewCoin("usdx", sdkmath.NewIntFromBigInt(tp))
			case k < 58: // ---- debt floor
				p.DebtParam.DebtFloor = sdkmath.NewInt(c.Pick(r, []int64{1, 1000000, 10000000, 10000000, 50000000, 200000000}))
				tag = "debt-floor"
			case k < 63 && cp != nil: // ---- keeper reward
				cp.KeeperRewardPercentage = dec(c.Pick(r, rewardPool))
				tag = "keeper-reward"
			case k < 67 && cp != nil: // ---- auction size (lots per deposit stay bounded) and penalty
				base := AuctionSize(Types[t]).BigInt()
				switch r.Intn(4) {
				case 0:
					base = new(big.Int).Quo(base, bi(20))
				case 1:
					base = new(big.Int).Add(new(big.Int).Quo(base, bi(3)), bi(1))
				case 2:
					base = new(big.Int).Mul(base, bi(1000))
				}
				cp.AuctionSize = sdkmath.NewIntFromBigInt(base)
				cp.LiquidationPenalty = dec(c.Pick(r, []string{"0.0", "0.05", "0.5", "1.0"}))
				tag = "auction-size"
			case k < 72 && cp != nil: // ---- CheckCollateralizationIndexCount
				cp.CheckCollateralizationIndexCount = sdkmath.NewInt(c.Pick(r, []int64{0, 1, 1, 2, 3, 10}))
				tag = "index-count"
			case k < 76: // ---- LiquidationBlockInterval
				p.LiquidationBlockInterval = c.Pick(r, []int64{1, 1, 2, 3, 5})
				tag = "block-interval"
			case k < 82 && cp != nil: // ---- spot / liquidation market ids: the two markets of the asset (prices differ)
				ms := assetMarkets(t)
				switch r.Intn(4) {
				case 0:
					cp.SpotMarketID, cp.LiquidationMarketID = cp.LiquidationMarketID, cp.SpotMarketID
					tag = "markets-swapped"
				case 1:
					cp.SpotMarketID, cp.LiquidationMarketID = ms[0], ms[0]
					tag = "markets-both-spot"
				case 2:
					cp.SpotMarketID, cp.LiquidationMarketID = ms[1], ms[1]
					tag = "markets-both-liq"
				default:
					cp.SpotMarketID, cp.LiquidationMarketID = ms[0], ms[1]
					tag = "markets-restored"
				}
			case k < 90: // ---- remove a listed type (with CDPs, most of the time) / list one (again)
				var unlisted []int
				for ty := range Types {
					if FindCollateral(p, ty) == nil {
						unlisted = append(unlisted, ty)
					}
				}
				// types removed earlier come back more often than the never-listed one stays away
				if len(unlisted) > 0 && (len(listed) <= 1 || r.Chance(55)) {
					ty := c.Pick(r, unlisted)
					for _, u := range unlisted { // prefer a type that has CDPs waiting
						if o.TPrin[u].Sign() > 0 && r.Chance(70) {
							ty = u
						}
					}
					ncp := RandomCollateral(r, ty)
					pos := len(p.CollateralParams)
					if r.Chance(40) {
						pos = r.Intn(len(p.CollateralParams) + 1)
					}
					cps := append(cdptypes.CollateralParams{}, p.CollateralParams[:pos]...)
					cps = append(cps, ncp)
					cps = append(cps, p.CollateralParams[pos:]...)
					p.CollateralParams = cps
					if o.TPrin[ty].Sign() > 0 {
						tag = "type-readded-with-cdps"
					} else {
						tag = "type-added"
					}
				} else if len(listed) > 1 && t >= 0 && cp != nil {
					var cps cdptypes.CollateralParams
					for _, e := range p.CollateralParams {
						if e.Type != Types[t].Name {
							cps = append(cps, e)
						}
					}
					p.CollateralParams = cps
					if o.TPrin[t].Sign() > 0 {
						tag = "type-removed-with-cdps"
					} else {
						tag = "type-removed"
					}
				}
			case k < 93: // ---- order of the list (the begin blocker's loop order)
				if len(p.CollateralParams) > 1 {
					i, j := r.Intn(len(p.CollateralParams)), r.Intn(len(p.CollateralParams))
					p.CollateralParams[i], p.CollateralParams[j] = p.CollateralParams[j], p.CollateralParams[i]
					tag = "list-reordered"
				}
			default: // ---- surplus / debt auction thresholds and lots
				if r.Bool() {
					p.DebtAuctionThreshold = sdkmath.NewInt(r.Range(1, 50000000))
					p.DebtAuctionLot = sdkmath.NewInt(r.Range(1, 60000000))
					p.SurplusAuctionThreshold = sdkmath.NewInt(r.Range(1, 50000))
					p.SurplusAuctionLot = sdkmath.NewInt(r.Range(1, 100000))
					tag = "auction-thresholds-low"
				} else {
					huge := sdkmath.NewIntFromBigInt(Pow10(30))
					p.DebtAuctionThreshold, p.SurplusAuctionThreshold = huge, huge
					p.DebtAuctionLot, p.SurplusAuctionLot = sdkmath.NewInt(10000000000), sdkmath.NewInt(10000000000)
					tag = "auction-thresholds-high"
				}
			}
			if tag != "" {
				tags = append(tags, tag)
				if t >= 0 {
					s.focusTy, s.focusN = t, 2+r.Intn(3)
				}
			}
		}
		return strings.Join(tags, "+")
	}
}
