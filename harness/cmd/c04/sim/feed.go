package sim

// Feed gate of C05: "creation, draw, deposit and withdrawal are refused while the collateral's price feed is down".
//
// Oracle: the harness's OWN reading of x/pricefeed at the time of the operation — GetCurrentPrice of the spot market
// and of the liquidation market the type has in force (x/params store); an error / no price = the feed is down.  The
// market-status flags the cdp module keeps on record are written on the line too, but only as a diagnosis: they are
// the mechanism under test, not the oracle.
//
// Generator: outage episodes — one or both markets of a type lose their price (the oracle's post expires) at a chosen
// phase of the liquidation block interval, stay away for a few blocks, come back at a chosen phase; in every block of
// the episode the four user operations are attempted with amounts that are acceptable while the feed is up.

import (
	"fmt"
	"math/big"

	sdk "github.com/cosmos/cosmos-sdk/types"

	c "kavaverif/harness/common"
	"kavaverif/harness/kapp"
)

type gateObs struct {
	ty                 int
	listed             bool
	spot, liq          int
	spotAvail, liqAvail bool // x/pricefeed GetCurrentPrice answered with a price
	spotFlag, liqFlag  bool // x/cdp market status on record (diagnosis only)
}

// PriceAvail: does x/pricefeed have a current price for the market right now (the question the property asks).
func (s *Seq) PriceAvail(m int) bool {
	_, err := s.W.App.GetPriceFeedKeeper().GetCurrentPrice(s.Ctx, Markets[m])
	return err == nil
}

// gateBefore reads, right before a user operation runs, the two feeds of the type from x/pricefeed.
func (s *Seq) gateBefore(ty int) *gateObs {
	if s.GateCmd == "" {
		return nil
	}
	g := &gateObs{ty: ty, spot: -1, liq: -1}
	cp := s.CP(ty)
	if cp == nil {
		return g
	}
	g.listed = true
	g.spot, g.liq = MarketID(cp.SpotMarketID), MarketID(cp.LiquidationMarketID)
	g.spotAvail, g.liqAvail = s.PriceAvail(g.spot), s.PriceAvail(g.liq)
	k := s.W.Keeper()
	g.spotFlag, g.liqFlag = k.GetMarketStatus(s.Ctx, cp.SpotMarketID), k.GetMarketStatus(s.Ctx, cp.LiquidationMarketID)
	return g
}

// emitGate writes the feed-gate line of one user operation:
//
//	kind ty listed spotMarket liqMarket spotAvail liqAvail spotFlag liqFlag beginSpot beginLiq => class error
//
// beginSpot / beginLiq: availability of the two prices when the begin blocker of the current block ran ("-" = not
// known).  An accepted operation on a type whose spot or liquidation price is unavailable is also reported from here.
func (s *Seq) emitGate(kind string, g *gateObs, cls kapp.Class, err error) {
	if g == nil {
		return
	}
	ec := "-"
	if err != nil {
		ec = ErrClass(err)
	}
	bs, bl := "-", "-"
	if g.listed && s.beginAvail != nil {
		bs, bl = c.B(s.beginAvail[g.spot]), c.B(s.beginAvail[g.liq])
	}
	feedErr := ec == "no-price-found-for-collateral"
	sig := fmt.Sprintf("%s|%s|feedErr=%v|listed=%v|avail=%v,%v|flags=%v,%v|begin=%s,%s|same-market=%v", kind, cls, feedErr, g.listed,
		g.spotAvail, g.liqAvail, g.spotFlag, g.liqFlag, bs, bl, g.spot == g.liq)
	s.Out.Case(sig, s.GateCmd, kind, fmt.Sprint(g.ty), c.B(g.listed), fmt.Sprint(g.spot), fmt.Sprint(g.liq),
		c.B(g.spotAvail), c.B(g.liqAvail), c.B(g.spotFlag), c.B(g.liqFlag), bs, bl, "=>", string(cls), ec)
	if g.listed && !(g.spotAvail && g.liqAvail) {
		s.Out.Note("gate:" + kind + ":feed-down:" + string(cls))
		if cls == kapp.OK {
			which := "liquidation"
			if !g.spotAvail {
				which = "spot"
			}
			s.Out.Violation(fmt.Sprintf("cdp-%s-accepted-while-the-%s-price-feed-is-down seq=%d op=%d type=%s height=%d interval=%d (status flags on record: spot=%v liquidation=%v)",
				kind, which, s.No, s.OpNo, typeName(g.ty), s.Ctx.BlockHeight(), s.P.LiquidationBlockInterval, g.spotFlag, g.liqFlag))
		}
	} else if g.listed && feedErr {
		s.Out.Note("gate:" + kind + ":refused-as-feed-down-with-both-prices-available")
	}
}

// ---------------------------------------------------------------- outage episodes

// FeedPlan: one outage of the price feed(s) of a collateral type.
type FeedPlan struct {
	Ty        int
	Spot, Liq bool // which of the type's two markets (in force) lose their price
	// DownAtLiq / UpAtLiq: the first block whose begin blocker sees the price missing / back is a block on which the
	// liquidation pass runs (height % LiquidationBlockInterval == 0) — or, the interesting case, is not
	DownAtLiq, UpAtLiq bool
	Down               int // blocks (at least) the price stays away
	After              int // blocks of attempts after it is back
	Stagger            int // both markets: the liquidation market follows the spot market this many blocks later
	Gap                int64
}

func (s *Seq) interval() int64 {
	if s.P.LiquidationBlockInterval < 1 {
		return 1
	}
	return s.P.LiquidationBlockInterval
}

// padUntil runs blocks (with attempts) until the block `ahead` blocks from now is / is not a liquidation block.
func (s *Seq) padUntil(ahead int64, atLiq bool, ty int, ref *big.Int, gap int64, tag string) {
	iv := s.interval()
	if iv == 1 {
		return
	}
	for n := 0; n < 8 && ((s.Ctx.BlockHeight()+ahead)%iv == 0) != atLiq; n++ {
		s.NextBlock(gap, tag)
		s.FeedAttempts(ty, ref, tag)
	}
}

// FeedEpisode plays the plan; every block of it is an ordinary observed begin block, every attempt an ordinary
// observed operation (plus its feed-gate line).
func (s *Seq) FeedEpisode(pl FeedPlan) {
	ty := pl.Ty
	if s.CP(ty) == nil {
		return
	}
	gap := pl.Gap
	if gap < 1 {
		gap = 1 // the expiry is one second after the block of the post
	}
	spot, liq := s.spotID(ty), s.liqID(ty)
	o := s.Pre()
	ref := o.Price[spot] // amounts are solved at the spot price before the outage
	var price [2]*big.Int
	for i, m := range []int{spot, liq} {
		price[i] = o.Price[m]
		if price[i] == nil {
			price[i] = dec("2.0").BigInt()
		}
	}
	name := "liq"
	if pl.Spot && pl.Liq {
		name = "both"
	} else if pl.Spot {
		name = "spot"
	}
	s.Out.Note("feed-episode:" + name)
	expire := func(i int) {
		m := []int{spot, liq}[i]
		if s.PriceAvail(m) { // same price, it only stops being renewed
			s.PostPrice(m, decFromMant(price[i]), true)
		}
	}
	// the post expires one second after this block: still current in the next block, gone from the one after
	s.padUntil(2, pl.DownAtLiq, ty, ref, gap, "feed-pad")
	if pl.Spot {
		expire(0)
	}
	if pl.Liq && !(pl.Spot && pl.Stagger > 0) {
		expire(1)
	}
	s.NextBlock(gap, "feed-expiring-"+name)
	s.FeedAttempts(ty, ref, "feed-last-block-up")
	for b := 0; b < pl.Down; b++ {
		if pl.Spot && pl.Liq && pl.Stagger > 0 && b+1 == pl.Stagger {
			expire(1)
		}
		s.NextBlock(gap, "feed-down-"+name)
		s.FeedAttempts(ty, ref, "feed-down-"+name)
	}
	// back: posted in the block before the one that is to see it
	s.padUntil(1, pl.UpAtLiq, ty, ref, gap, "feed-down-"+name)
	for i, m := range []int{spot, liq} {
		if !s.PriceAvail(m) {
			s.PostPrice(m, decFromMant(price[i]), false)
		}
	}
	for b := 0; b < pl.After; b++ {
		s.NextBlock(gap, "feed-back-"+name)
		s.FeedAttempts(ty, ref, "feed-back-"+name)
	}
}

// RandomFeedPlan draws a plan for type ty; the case the defect class lives in (only one market, seen first on a block
// that is not a liquidation block) is the most likely one.
func (s *Seq) RandomFeedPlan(ty int) FeedPlan {
	r := s.R
	pl := FeedPlan{Ty: ty, Liq: true}
	switch w := r.Intn(100); {
	case w < 55:
	case w < 80:
		pl.Spot, pl.Liq = true, false
	default:
		pl.Spot = true
		pl.Stagger = r.Intn(3)
	}
	pl.DownAtLiq = r.Chance(25)
	pl.UpAtLiq = r.Chance(30)
	pl.Down = 1 + r.Intn(int(minI64(s.interval(), 7))+1)
	pl.After = 1 + r.Intn(3)
	pl.Gap = c.Pick(r, []int64{1, 1, 1, 5, 60, 3600})
	return pl
}

func minI64(a, b int64) int64 {
	if a < b {
		return a
	}
	return b
}

// FeedAttempts: create / draw / deposit / withdraw of type ty, each acceptable while the feed is up (amounts solved at
// the reference spot price `ref`, the last one seen before the outage), in random order, each with probability 3/4.
func (s *Seq) FeedAttempts(ty int, ref *big.Int, tag string) {
	r := s.R
	t := Types[ty]
	if ref == nil {
		ref = dec("2.0").BigInt()
	}
	kinds := []int{0, 1, 2, 3}
	for i := len(kinds) - 1; i > 0; i-- {
		j := r.Intn(i + 1)
		kinds[i], kinds[j] = kinds[j], kinds[i]
	}
	for _, kd := range kinds {
		if !r.Chance(75) {
			continue
		}
		o := s.Pre()
		var mine []*CDPObs
		has := map[int]bool{}
		for i := range o.Cdps {
			if o.Cdps[i].Ty == ty {
				mine = append(mine, &o.Cdps[i])
				has[o.Cdps[i].Owner] = true
			}
		}
		var cd *CDPObs
		if len(mine) > 0 {
			cd = mine[r.Intn(len(mine))]
		}
		floor := s.P.DebtParam.DebtFloor.BigInt()
		switch kd {
		case 0: // create by an owner without a CDP of the type, at twice the collateral the ratio asks for
			owner := -1
			for _, a := range []int{3, 4, 5, 6} {
				if !has[a] && (owner < 0 || r.Bool()) {
					owner = a
				}
			}
			if owner < 0 {
				continue
			}
			p := new(big.Int).Add(floor, r.BigBelow(new(big.Int).Add(floor, bi(1))))
			col := minColl(p, t.CF, ref, s.lm(ty))
			col.Mul(col, bi(2)).Add(col, bi(r.Range(1, 1000)))
			if col.Cmp(o.Bal[owner][t.DenomID]) > 0 {
				continue
			}
			s.Create(owner, ty, col, t.DenomID, p, 0, tag)
		case 1: // deposit: a little, by the owner or a third party
			if cd == nil {
				continue
			}
			dep := cd.Owner
			if r.Chance(30) {
				dep = 3 + r.Intn(len(s.W.Users))
			}
			amt := new(big.Int).Add(r.BigBelow(Pow10(t.CF)), bi(1))
			if r.Chance(30) {
				amt = bi(1)
			}
			if amt.Cmp(o.Bal[dep][t.DenomID]) > 0 {
				continue
			}
			s.Deposit(cd.Owner, dep, ty, amt, t.DenomID, tag)
		case 2: // withdraw: a part of what is free above the ratio, out of the owner's own deposit
			if cd == nil {
				continue
			}
			free := new(big.Int).Sub(cd.Coll, minColl(debtOf(cd), t.CF, ref, s.lm(ty)))
			var own *big.Int
			for _, d := range o.Deps {
				if d.ID == cd.ID && d.Acct == cd.Owner {
					own = d.Amt
				}
			}
			if own == nil || free.Sign() <= 0 {
				continue
			}
			amt := bi(1)
			if r.Chance(60) {
				lim := new(big.Int).Quo(free, bi(4))
				if lim.Cmp(own) > 0 {
					lim = new(big.Int).Quo(own, bi(2))
				}
				amt = new(big.Int).Add(r.BigBelow(new(big.Int).Add(lim, bi(1))), bi(1))
			}
			if amt.Cmp(own) > 0 || amt.Cmp(free) > 0 {
				continue
			}
			s.Withdraw(cd.Owner, cd.Owner, ty, amt, t.DenomID, tag)
		default: // draw: a part of the room below the ratio
			if cd == nil {
				continue
			}
			room := new(big.Int).Sub(maxDebt(cd.Coll, t.CF, ref, s.lm(ty)), debtOf(cd))
			room.Sub(room, new(big.Int).Quo(debtOf(cd), bi(100))) // interest not yet synchronised
			if room.Sign() <= 0 {
				continue
			}
			p := bi(1)
			if r.Chance(60) {
				p = new(big.Int).Add(r.BigBelow(new(big.Int).Add(new(big.Int).Quo(room, bi(4)), bi(1))), bi(1))
			}
			s.Draw(cd.Owner, ty, p, 0, tag)
		}
	}
}

var _ = sdk.OneDec
