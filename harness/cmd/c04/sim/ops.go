package sim

import (
	"fmt"
	"math"
	"math/big"
	"strings"
	"time"

	abci "github.com/cometbft/cometbft/abci/types"
	sdkmath "cosmossdk.io/math"
	sdk "github.com/cosmos/cosmos-sdk/types"

	"github.com/kava-labs/kava/x/cdp"
	cdpkeeper "github.com/kava-labs/kava/x/cdp/keeper"
	cdptypes "github.com/kava-labs/kava/x/cdp/types"

	c "kavaverif/harness/common"
	"kavaverif/harness/kapp"
)

// Seq is one independent history: its own branch of the genesis state, parameters and PRNG stream.
type Seq struct {
	W       *World
	Ctx     sdk.Context
	R       *c.Rng
	Out     *c.Out
	Cmd     string // case-line command ("c04.op" / "c05.op")
	P       cdptypes.Params
	PStr    string
	GenUsdx *big.Int
	Tol     []int64
	No      int
	OpNo    int
	pre     *Obs
	// Pending, if set, is a governance parameter change that is enacted at the next block boundary (after the
	// end blockers of the current block, before the cdp begin blocker of the next: where the governance end
	// blocker and the committee begin blocker write parameters on a live chain)
	Pending func(p *cdptypes.Params) string
	NGov    int
	GovPct  int // percentage of the generated blocks that start with a governance change (0 = never)
	// after a governance change about a collateral type the next few generated operations go to CDPs of that type
	// (keeper attempts, draws and withdrawals to the ratio): the gates must read the parameters in force
	focusTy, focusN int
	// LotsCmd, if set ("c05.lots"), makes every successful begin block / keeper liquidation also emit the collateral
	// auctions it started, read back from the auction store (lots.go)
	LotsCmd string
	// GateCmd, if set ("c05.gate"), makes every create / draw / deposit / withdraw also emit a feed-gate line: the
	// harness's OWN reading of x/pricefeed for the type's two markets at the time of the operation (feed.go)
	GateCmd string
	// FeedPct: percentage of the generated blocks that start a price-feed outage episode (0 = never; feed.go)
	FeedPct int
	// beginAvail: availability of every market's current price as the harness read it from x/pricefeed right before
	// the cdp begin blocker of the CURRENT block ran (nil = unknown: no begin block yet, the begin blocker failed, or
	// the parameters were written since)
	beginAvail []bool
	// AfterCase, if set, sees every executed operation (used for Go-side checks)
	AfterCase func(kind string, args []string, pre, post Obs, cls kapp.Class, err error)
}

func (w *World) NewSeq(out *c.Out, cmd string, no int, r *c.Rng, p cdptypes.Params) *Seq {
	ctx, _ := w.Base.CacheContext()
	ctx = ctx.WithBlockHeight(w.Base.BlockHeight()).WithBlockTime(w.Base.BlockTime())
	kapp.SetParams(w.App, ctx, "cdp", &p, func() { w.Keeper().SetParams(ctx, p) })
	gen := w.App.GetBankKeeper().GetSupply(ctx, "usdx").Amount.BigInt()
	s := &Seq{W: w, Ctx: ctx, R: r, Out: out, Cmd: cmd, GenUsdx: gen, Tol: make([]int64, len(Types)), No: no}
	if cmd == "c05.op" { // C05: "exactly its collateral … and its debt enter auctions" is also checked auction by auction
		s.LotsCmd = "c05.lots"
		s.GateCmd = "c05.gate"
	}
	s.RefreshParams()
	return s
}

// RefreshParams reads the parameters in force from the x/params store (never through the module keeper) and
// renders the parameter field of the following case lines from them.
func (s *Seq) RefreshParams() {
	var p cdptypes.Params
	kapp.ReadParams(s.W.App, s.Ctx, "cdp", &p)
	s.P = p
	s.PStr = s.W.ParamsString(p, s.GenUsdx)
}

// CP: the parameters in force of universe type ty (nil = not listed).
func (s *Seq) CP(ty int) *cdptypes.CollateralParam { return FindCollateral(&s.P, ty) }

// SetParamsNow writes a parameter set (keeper route and x/params subspace route alternate) and emits the change
// as a case of its own: the parameter field carries the NEW parameters, the x/cdp state must be untouched and
// must satisfy the invariant under the new parameters.
func (s *Seq) SetParamsNow(p cdptypes.Params, tag string) {
	pre := s.Pre()
	k := s.W.Keeper()
	kapp.SetParams(s.W.App, s.Ctx, "cdp", &p, func() { k.SetParams(s.Ctx, p) })
	s.RefreshParams()
	s.beginAvail = nil // the flags on record were written by a begin blocker that ran under other parameters
	s.NGov++
	// signature: the first field changed (+more), not every combination
	sig := tag
	if i := strings.Index(tag, "+"); i >= 0 {
		sig = tag[:i] + "+more"
	}
	s.Out.Note("gov:" + tag)
	s.finish("params", []string{fmt.Sprint(s.Now())}, sig, pre, kapp.OK, nil)
}

func (s *Seq) Pre() Obs {
	if s.pre == nil {
		o := s.W.Observe(s.Ctx)
		s.pre = &o
	}
	return *s.pre
}

func (s *Seq) Now() int64 { return s.Ctx.BlockTime().Unix() }

func typeName(ty int) string {
	if ty >= 0 && ty < len(Types) {
		return Types[ty].Name
	}
	return "zzz-a"
}

func denomName(d int) string {
	if d >= 0 && d < len(Denoms) {
		return Denoms[d]
	}
	return "nope"
}

func coin(d int, amt *big.Int) sdk.Coin { return sdk.NewCoin(denomName(d), sdkmath.NewIntFromBigInt(amt)) }

func tolStr(t []int64) string {
	xs := make([]string, len(t))
	for i, v := range t {
		xs[i] = fmt.Sprint(v)
	}
	return strings.Join(xs, ",")
}

// finish observes the post-state, updates the rounding counters and writes the case line.
func (s *Seq) finish(kind string, args []string, sigExtra string, pre Obs, cls kapp.Class, err error) Obs {
	post := s.W.Observe(s.Ctx)
	s.pre = &post
	// interest roundings: every CDP whose fees changed or that disappeared was synchronised once
	preFees := map[uint64]CDPObs{}
	for _, cd := range pre.Cdps {
		preFees[cd.ID] = cd
	}
	seen := map[uint64]bool{}
	for _, cd := range post.Cdps {
		seen[cd.ID] = true
		if p, ok := preFees[cd.ID]; ok && p.Fees.Cmp(cd.Fees) != 0 {
			s.Tol[cd.Ty]++
		}
	}
	for _, cd := range pre.Cdps {
		if !seen[cd.ID] {
			s.Tol[cd.Ty]++
		}
	}
	if kind == "begin" {
		for i := range s.Tol {
			s.Tol[i]++
		}
	}
	sig := kind + "|" + string(cls) + "|" + sigExtra
	if err != nil {
		s.Out.Note("err:" + kind + ":" + ErrClass(err))
		if cls == kapp.Err {
			sig += "|" + ErrClass(err)
		}
	}
	s.Out.Case(sig, s.Cmd, kind, s.PStr, pre.String(), strings.Join(args, ","), "=>", string(cls), post.String(), tolStr(s.Tol))
	if s.AfterCase != nil {
		s.AfterCase(kind, args, pre, post, cls, err)
	}
	s.OpNo++
	return post
}

var errPhrases = []string{"cdp already exists", "only one collateral type per cdp", "collateral not supported", "debt not supported",
	"proposed debt increase would exceed debt limit", "proposed collateral ratio is below liquidation ratio", "cdp not found",
	"deposit not found", "invalid deposit", "invalid payment", "withdrawal amount exceeds deposit", "proposed cdp debt is below minimum",
	"only one principal type per cdp", "denom prefix not found", "no price found for collateral", "invalid collateral for input collateral type",
	"account not found", "insufficient balance", "cdp collateral ratio not below liquidation ratio", "insufficient funds", "invalid coins",
	"all input prices are expired", "division by zero", "collateral type cannot be empty"}

// ErrClass maps an error to the registered error phrase it wraps (a small enum, no amounts).
func ErrClass(err error) string {
	m := err.Error()
	for _, k := range errPhrases {
		if strings.Contains(m, k) {
			return strings.ReplaceAll(k, " ", "-")
		}
	}
	if strings.HasPrefix(m, "panic") {
		return "panic-other"
	}
	return "other"
}

func (s *Seq) find(o Obs, owner, ty int) *CDPObs {
	for i := range o.Cdps {
		if o.Cdps[i].Owner == owner && o.Cdps[i].Ty == ty {
			return &o.Cdps[i]
		}
	}
	return nil
}

func (s *Seq) Create(owner, ty int, col *big.Int, cd int, p *big.Int, pd int, tag string) (kapp.Class, error) {
	pre := s.Pre()
	k := s.W.Keeper()
	g := s.gateBefore(ty)
	cls, err := kapp.Exec(s.Ctx, func(cx sdk.Context) error {
		msg := cdptypes.NewMsgCreateCDP(s.W.Addr(owner), coin(cd, col), coin(pd, p), typeName(ty))
		if e := msg.ValidateBasic(); e != nil {
			return e
		}
		return k.AddCdp(cx, s.W.Addr(owner), msg.Collateral, msg.Principal, msg.CollateralType)
	})
	args := []string{fmt.Sprint(s.Now()), fmt.Sprint(owner), fmt.Sprint(ty), col.String(), fmt.Sprint(cd), p.String(), fmt.Sprint(pd)}
	s.finish("create", args, fmt.Sprintf("ty=%d|%s", ty, tag), pre, cls, err)
	s.emitGate("create", g, cls, err)
	return cls, err
}

func (s *Seq) Deposit(owner, depositor, ty int, col *big.Int, cd int, tag string) (kapp.Class, error) {
	pre := s.Pre()
	k := s.W.Keeper()
	g := s.gateBefore(ty)
	cls, err := kapp.Exec(s.Ctx, func(cx sdk.Context) error {
		msg := cdptypes.NewMsgDeposit(s.W.Addr(owner), s.W.Addr(depositor), coin(cd, col), typeName(ty))
		if e := msg.ValidateBasic(); e != nil {
			return e
		}
		return k.DepositCollateral(cx, s.W.Addr(owner), s.W.Addr(depositor), msg.Collateral, msg.CollateralType)
	})
	args := []string{fmt.Sprint(s.Now()), fmt.Sprint(owner), fmt.Sprint(depositor), fmt.Sprint(ty), col.String(), fmt.Sprint(cd)}
	s.finish("deposit", args, fmt.Sprintf("third=%v|%s", owner != depositor, tag), pre, cls, err)
	s.emitGate("deposit", g, cls, err)
	return cls, err
}

func (s *Seq) Withdraw(owner, depositor, ty int, col *big.Int, cd int, tag string) (kapp.Class, error) {
	pre := s.Pre()
	k := s.W.Keeper()
	g := s.gateBefore(ty)
	cls, err := kapp.Exec(s.Ctx, func(cx sdk.Context) error {
		msg := cdptypes.NewMsgWithdraw(s.W.Addr(owner), s.W.Addr(depositor), coin(cd, col), typeName(ty))
		if e := msg.ValidateBasic(); e != nil {
			return e
		}
		return k.WithdrawCollateral(cx, s.W.Addr(owner), s.W.Addr(depositor), msg.Collateral, msg.CollateralType)
	})
	args := []string{fmt.Sprint(s.Now()), fmt.Sprint(owner), fmt.Sprint(depositor), fmt.Sprint(ty), col.String(), fmt.Sprint(cd)}
	s.finish("withdraw", args, fmt.Sprintf("third=%v|%s", owner != depositor, tag), pre, cls, err)
	s.emitGate("withdraw", g, cls, err)
	return cls, err
}

func (s *Seq) Draw(owner, ty int, p *big.Int, pd int, tag string) (kapp.Class, error) {
	pre := s.Pre()
	k := s.W.Keeper()
	g := s.gateBefore(ty)
	cls, err := kapp.Exec(s.Ctx, func(cx sdk.Context) error {
		msg := cdptypes.NewMsgDrawDebt(s.W.Addr(owner), typeName(ty), coin(pd, p))
		if e := msg.ValidateBasic(); e != nil {
			return e
		}
		return k.AddPrincipal(cx, s.W.Addr(owner), msg.CollateralType, msg.Principal)
	})
	args := []string{fmt.Sprint(s.Now()), fmt.Sprint(owner), fmt.Sprint(ty), p.String(), fmt.Sprint(pd)}
	s.finish("draw", args, tag, pre, cls, err)
	s.emitGate("draw", g, cls, err)
	return cls, err
}

func (s *Seq) Repay(owner, ty int, p *big.Int, pd int, tag string) (kapp.Class, error) {
	pre := s.Pre()
	k := s.W.Keeper()
	closes := false
	if cd := s.find(pre, owner, ty); cd != nil {
		closes = p.Cmp(new(big.Int).Add(cd.Prin, cd.Fees)) >= 0
	}
	cls, err := kapp.Exec(s.Ctx, func(cx sdk.Context) error {
		msg := cdptypes.NewMsgRepayDebt(s.W.Addr(owner), typeName(ty), coin(pd, p))
		if e := msg.ValidateBasic(); e != nil {
			return e
		}
		return k.RepayPrincipal(cx, s.W.Addr(owner), msg.CollateralType, msg.Payment)
	})
	args := []string{fmt.Sprint(s.Now()), fmt.Sprint(owner), fmt.Sprint(ty), p.String(), fmt.Sprint(pd)}
	s.finish("repay", args, fmt.Sprintf("closes~%v|%s", closes, tag), pre, cls, err)
	return cls, err
}

func (s *Seq) Liquidate(keeper, owner, ty int, tag string) (kapp.Class, error) {
	pre := s.Pre()
	k := s.W.Keeper()
	ndeps := 0
	if cd := s.find(pre, owner, ty); cd != nil {
		for _, d := range pre.Deps {
			if d.ID == cd.ID {
				ndeps++
			}
		}
	}
	em := sdk.NewEventManager()
	nextAuction := s.nextAuctionID()
	cls, err := kapp.Exec(s.Ctx, func(cx sdk.Context) error {
		cx = cx.WithEventManager(em)
		msg := cdptypes.NewMsgLiquidate(s.W.Addr(keeper), s.W.Addr(owner), typeName(ty))
		if e := msg.ValidateBasic(); e != nil {
			return e
		}
		return k.AttemptKeeperLiquidation(cx, s.W.Addr(keeper), s.W.Addr(owner), msg.CollateralType)
	})
	args := []string{fmt.Sprint(s.Now()), fmt.Sprint(keeper), fmt.Sprint(owner), fmt.Sprint(ty)}
	post := s.finish("liquidate", args, fmt.Sprintf("deps=%d|%s", ndeps, tag), pre, cls, err)
	if s.LotsCmd != "" && cls == kapp.OK {
		s.emitLots("liquidate", pre, post, em.Events(), nextAuction, keeper)
	}
	return cls, err
}

// PostPrice is an oracle transaction in the current block (raw price; the current price changes at end block).
func (s *Seq) PostPrice(market int, price sdk.Dec, expireNext bool) {
	pk := s.W.App.GetPriceFeedKeeper()
	exp := s.Ctx.BlockTime().Add(1000000 * time.Hour)
	if expireNext {
		exp = s.Ctx.BlockTime().Add(1 * time.Second) // invalid from the end of the next block on
	}
	if _, err := pk.SetPrice(s.Ctx, s.W.Oracle, Markets[market], price, exp); err != nil {
		panic(err)
	}
}

// NextBlock ends the current block (pricefeed end blocker), advances time and height, and runs the
// cdp begin blocker as one observed operation.
func (s *Seq) NextBlock(gapSeconds int64, tag string) (kapp.Class, error) {
	pk := s.W.App.GetPriceFeedKeeper()
	pk.SetCurrentPricesForAllMarkets(s.Ctx)
	s.Ctx = s.Ctx.WithBlockTime(s.Ctx.BlockTime().Add(time.Duration(gapSeconds) * time.Second)).WithBlockHeight(s.Ctx.BlockHeight() + 1)
	s.pre = nil
	// block boundary: a pending governance change is enacted now (governance end blocker of the old block /
	// committee begin blocker of the new one, both before the cdp begin blocker)
	if s.Pending != nil {
		p := s.P
		p.CollateralParams = append(cdptypes.CollateralParams{}, s.P.CollateralParams...)
		gtag := s.Pending(&p)
		s.Pending = nil
		if gtag != "" {
			s.SetParamsNow(p, gtag)
			tag += "+gov"
		}
	}
	// the parameters in force for this block, as the store holds them
	s.RefreshParams()
	pre := s.Pre()
	k := s.W.Keeper()
	// the value CalculateInterestFactor returns for each type in this block for the stability fee IN FORCE
	// (model parameter; asserted ≥ 1); 1 for a type that is not listed
	facs := make([]string, len(Types))
	for i, t := range Types {
		f := sdk.OneDec()
		if cp := s.CP(i); cp != nil {
			if prev, ok := k.GetPreviousAccrualTime(s.Ctx, t.Name); ok {
				el := int64(math.RoundToEven(s.Ctx.BlockTime().Sub(prev).Seconds()))
				if el > 0 {
					f = cdpkeeper.CalculateInterestFactor(cp.StabilityFee, sdkmath.NewInt(el))
				}
			}
		}
		if f.LT(sdk.OneDec()) {
			s.Out.Violation(fmt.Sprintf("assumption interest-factor>=1 violated: CalculateInterestFactor returned %s (type %s)", f, t.Name))
		}
		s.Out.Note("assumption:interest-factor>=1 checked")
		facs[i] = f.BigInt().String()
	}
	skip := s.Ctx.BlockHeight()%s.P.LiquidationBlockInterval != 0
	em := sdk.NewEventManager()
	nextAuction := s.nextAuctionID()
	cls, err := kapp.Exec(s.Ctx, func(cx sdk.Context) error {
		cdp.BeginBlocker(cx.WithEventManager(em), abci.RequestBeginBlock{}, k)
		return nil
	})
	sk := "0"
	if skip {
		sk = "1"
	}
	args := append([]string{fmt.Sprint(s.Now()), sk}, facs...)
	post := s.finish("begin", args, fmt.Sprintf("skip=%v|gap0=%v|%s", skip, gapSeconds == 0, tag), pre, cls, err)
	s.beginAvail = nil
	if cls == kapp.OK {
		// what x/pricefeed answered for every market right before this begin blocker (prices only change in the
		// pricefeed end blocker, i.e. at the top of this function)
		s.beginAvail = make([]bool, len(Markets))
		for m := range Markets {
			s.beginAvail[m] = pre.Price[m] != nil
		}
		gone := len(pre.Cdps) - len(post.Cdps)
		if gone > 0 {
			s.Out.NoteN("begin:seized", gone)
		}
		if s.LotsCmd != "" {
			s.emitLots("begin", pre, post, em.Events(), nextAuction, -1)
		}
	}
	return cls, err
}
