// Blocks run by the C14 harness itself (after the history runner): the "governance" blocks before the export and
// the common follow-up blocks on the original and the imported chain, plus what is compared after them: module
// account balances, total supplies and every module's re-exported genesis.
package main

import (
	"encoding/json"
	"fmt"
	"math/big"
	"sort"
	"strings"
	"time"

	abci "github.com/cometbft/cometbft/abci/types"
	sdk "github.com/cosmos/cosmos-sdk/types"
	authtypes "github.com/cosmos/cosmos-sdk/x/auth/types"

	"github.com/kava-labs/kava/app"
	cdptypes "github.com/kava-labs/kava/x/cdp/types"

	"kavaverif/harness/history"
)

// blockRec is one block produced on the original chain and replayed on the imported one.
type blockRec struct {
	Height int64
	Time   time.Time
	// Pre runs on the deliver state right after BeginBlock (a parameter change enacted at the start of the block)
	Pre   func(n *history.Node, ctx sdk.Context)
	Txs   [][]byte
	Kinds []string
	Res   []abci.ResponseDeliverTx
}

func safely(f func()) (panicMsg string) {
	defer func() {
		if r := recover(); r != nil {
			panicMsg = strings.Join(strings.Fields(fmt.Sprint(r)), " ")
		}
	}()
	f()
	return ""
}

// runPre runs a parameter change on a branch of the deliver state and keeps it only if it did not panic.
func runPre(n *history.Node, p *history.Parties, b *blockRec) string {
	if b.Pre == nil {
		return ""
	}
	ctx := n.Ctx(p.Header(b.Height, b.Time))
	cctx, write := ctx.CacheContext()
	if pm := safely(func() { b.Pre(n, cctx) }); pm != "" {
		return pm
	}
	write()
	return ""
}

// genBlock produces one block on the original chain: BeginBlock, the optional parameter change, ntx generated
// transactions (messages failing ValidateBasic skipped, see the note in runPlan), `more` extra transactions,
// EndBlock, Commit.  stop != "" when a block phase panicked (C02's business; the caller stops comparing).
func genBlock(A *history.Node, p *history.Parties, g *history.Gen, b *blockRec, ntx int,
	more func(deliver func(spec *history.TxSpec) (uint32, bool)), skipped func(), veto func(ctx sdk.Context, spec *history.TxSpec) bool) (stop string) {
	if _, pm := A.Begin(p, b.Height, b.Time); pm != "" {
		return "begin:" + pm
	}
	if pm := runPre(A, p, b); pm != "" {
		return "param-change:" + pm
	}
	hdr := p.Header(b.Height, b.Time)
	deliver := func(spec *history.TxSpec) (uint32, bool) {
		if veto != nil && veto(A.Ctx(hdr), spec) {
			return 0, false
		}
		for _, m := range spec.Msgs {
			if m.ValidateBasic() != nil {
				if skipped != nil {
					skipped()
				}
				return 0, false
			}
		}
		bz, err := g.SignFor(A.Ctx(hdr), spec)
		if err != nil {
			return 0, false
		}
		r, pm := A.Deliver(bz)
		if pm != "" {
			stop = "deliver:" + pm
			return 0, false
		}
		b.Txs = append(b.Txs, bz)
		b.Kinds = append(b.Kinds, spec.Kind)
		b.Res = append(b.Res, r)
		return r.Code, true
	}
	for k := 0; k < ntx && stop == ""; k++ {
		deliver(g.Next(A.Ctx(hdr)))
	}
	if more != nil && stop == "" {
		more(deliver)
	}
	if stop != "" {
		return stop
	}
	if _, pm := A.End(b.Height); pm != "" {
		return "end:" + pm
	}
	if _, pm := A.CommitBlock(b.Height); pm != "" {
		return "commit:" + pm
	}
	return ""
}

// vetoDustCollateral: after the first follow-up block no CDP is opened in a collateral type whose total principal is
// below the debt floor.  Such a total is rounding dust left by closed CDPs, and the one unit of interest the export
// settled makes it 0 on one chain and 1 on the other; x/cdp's begin blocker treats the two differently (zero: the
// accrual time moves on; dust: the interest rounds to zero and the time stays), so a CDP opened on top of it is then
// charged for different periods on the two chains — five per mille of a day's interest on 5·10^12 was observed.  The
// assumption is recorded in checks/C14.json.
func vetoDustCollateral(n *history.Node) func(ctx sdk.Context, spec *history.TxSpec) bool {
	return func(ctx sdk.Context, spec *history.TxSpec) bool {
		for _, m := range spec.Msgs {
			if mc, ok := m.(*cdptypes.MsgCreateCDP); ok {
				if n.T.GetCDPKeeper().GetTotalPrincipal(ctx, mc.CollateralType, "usdx").LT(sdk.NewInt(10_000_000)) {
					return true
				}
			}
		}
		return false
	}
}

// replayBlock applies a recorded block to the imported chain.
func replayBlock(B *history.Node, p *history.Parties, b *blockRec) (res []abci.ResponseDeliverTx, panicMsg string) {
	if _, pm := B.Begin(p, b.Height, b.Time); pm != "" {
		return nil, pm
	}
	if pm := runPre(B, p, b); pm != "" {
		return nil, "param-change: " + pm
	}
	for _, tx := range b.Txs {
		r, pm := B.Deliver(tx)
		if pm != "" {
			return res, pm
		}
		res = append(res, r)
	}
	if _, pm := B.End(b.Height); pm != "" {
		return res, pm
	}
	if _, pm := B.CommitBlock(b.Height); pm != "" {
		return res, pm
	}
	return res, ""
}

// ---------------------------------------------------------------- module accounts and supplies

// moduleBalances: every balance of every module account named in the app's account permissions, and the total
// supply of every denomination.
func moduleBalances(n *history.Node, ctx sdk.Context) (macc map[string]string, supply map[string]string) {
	macc, supply = map[string]string{}, map[string]string{}
	bk := n.T.GetBankKeeper()
	for name := range app.GetMaccPerms() {
		for _, cn := range bk.GetAllBalances(ctx, authtypes.NewModuleAddress(name)) {
			macc[name+"/"+cn.Denom] = cn.Amount.String()
		}
	}
	bk.IterateTotalSupply(ctx, func(cn sdk.Coin) bool {
		supply[cn.Denom] = cn.Amount.String()
		return false
	})
	return
}

func unionKeys(a, b map[string]string) []string {
	seen := map[string]bool{}
	var ks []string
	for k := range a {
		if !seen[k] {
			seen[k] = true
			ks = append(ks, k)
		}
	}
	for k := range b {
		if !seen[k] {
			seen[k] = true
			ks = append(ks, k)
		}
	}
	sort.Strings(ks)
	return ks
}

// ---------------------------------------------------------------- tolerant comparison of two exports

// Tolerances of what is compared after ALL follow-up blocks.  C14's prose allows the two chains to differ by the
// interest the export settled: one base unit per settled record.  After five blocks that unit has been through
// proportional splits (a liquidation's lot is split over auctions in proportion to deposits / debt: observed 10 units
// of 1.5·10^10 moving from one auction to its sibling) and through reward payouts (a claim synced at export and again
// later floors twice: one unit per user, collateral type and reward denomination).
//
//	numTol     a numeric leaf of the exported genesis: 4 base units, or one part per million of its size
//	maccTol    a module account balance: 32 base units, absolute (sums are conserved: no relative slack; the reward
//	           payouts of a few claiming users come out of one account)
//	supplyTol  a total supply: 8 base units, absolute
const (
	numTol    = 4
	relPPM    = 1_000_000
	maccTol   = 32
	supplyTol = 8
)

func closeInts(x, y *big.Int, tol int64) bool {
	d := new(big.Int).Abs(new(big.Int).Sub(x, y))
	if d.Cmp(big.NewInt(tol)) <= 0 {
		return true
	}
	if tol == 0 {
		return false
	}
	mx := new(big.Int).Abs(x)
	if ay := new(big.Int).Abs(y); ay.Cmp(mx) > 0 {
		mx = ay
	}
	return new(big.Int).Mul(d, big.NewInt(relPPM)).Cmp(mx) <= 0
}

// leafClose: equal, or both integers / decimals no further apart than tol base units or one part per million
// (decimals: tol whole units — module totals held as decimals are sums of the same integer amounts); tol = 0: exact.
func leafClose(a, b any, tol int64) bool {
	sa, oka := a.(string)
	sb, okb := b.(string)
	if !oka || !okb {
		ja, _ := json.Marshal(a)
		jb, _ := json.Marshal(b)
		return string(ja) == string(jb)
	}
	if sa == sb {
		return true
	}
	if x, ok := new(big.Int).SetString(sa, 10); ok {
		if y, ok := new(big.Int).SetString(sb, 10); ok {
			return closeInts(x, y, tol)
		}
		return false
	}
	if strings.Contains(sa, ".") && strings.Contains(sb, ".") {
		da, e1 := sdk.NewDecFromStr(sa)
		db, e2 := sdk.NewDecFromStr(sb)
		if e1 == nil && e2 == nil {
			// mantissas at 10^-18: tol whole units = tol·10^18
			return closeInts(da.BigInt(), db.BigInt(), 0) || da.Sub(db).Abs().LTE(sdk.NewDec(tol)) ||
				(tol > 0 && closeInts(da.BigInt(), db.BigInt(), 1))
		}
	}
	return false
}

// tolDiff returns the first difference (path, a, b) of two JSON values that is not within the numeric tolerance.
// skip(path) excludes a subtree (paths without array indices).
func tolDiff(path, bare string, a, b any, tol int64, skip func(string) bool) (string, string, string, bool) {
	if skip != nil && skip(bare) {
		return "", "", "", false
	}
	switch x := a.(type) {
	case map[string]any:
		y, ok := b.(map[string]any)
		if !ok {
			return path, jbrief(a), jbrief(b), true
		}
		keys := map[string]bool{}
		for k := range x {
			keys[k] = true
		}
		for k := range y {
			keys[k] = true
		}
		var ks []string
		for k := range keys {
			ks = append(ks, k)
		}
		sort.Strings(ks)
		for _, k := range ks {
			if p, va, vb, d := tolDiff(path+"."+k, bare+"."+k, x[k], y[k], tol, skip); d {
				return p, va, vb, true
			}
		}
		return "", "", "", false
	case []any:
		y, ok := b.([]any)
		if !ok {
			return path, jbrief(a), jbrief(b), true
		}
		if len(x) != len(y) {
			return path + ".length", fmt.Sprint(len(x)), fmt.Sprint(len(y)), true
		}
		for i := range x {
			if p, va, vb, d := tolDiff(fmt.Sprintf("%s[%d]", path, i), bare, x[i], y[i], tol, skip); d {
				return p, va, vb, true
			}
		}
		return "", "", "", false
	}
	if !leafClose(a, b, tol) {
		return path, jbrief(a), jbrief(b), true
	}
	return "", "", "", false
}

func jbrief(v any) string {
	bz, _ := json.Marshal(v)
	s := string(bz)
	if len(s) > 160 {
		s = s[:160]
	}
	return s
}

// livePosts drops pricefeed posts expired at t from a decoded pricefeed section (inert by construction).
func livePosts(v any, t time.Time) any {
	m, ok := v.(map[string]any)
	if !ok {
		return v
	}
	posts, _ := m["posted_prices"].([]any)
	keep := []any{}
	for _, p := range posts {
		pm, _ := p.(map[string]any)
		exp, _ := pm["expiry"].(string)
		if et, err := time.Parse(time.RFC3339Nano, exp); err == nil && !et.After(t) {
			continue
		}
		keep = append(keep, p)
	}
	m["posted_prices"] = keep
	return m
}

// followupSkip lists what the comparison of the two chains' exports AFTER the follow-up blocks leaves out, with
// the reason:
//
//	incentive.hard_liquidity_provider_claims  x/hard's export rewrites them while x/incentive exports them
//	      concurrently (known finding C14-export-mutates-state): either document may hold the value before or after
//	      the sync, whatever the chain
//	earn.vault_records / vault_share_records  shares issued in the follow-up blocks scale the one-unit difference of
//	      a vault's value by the share price; earn positions are compared by VALUE in c14.pos
//	feemarket.block_gas / params.base_fee     the first block after InitChain carries the gas of InitGenesis on its
//	      block gas meter (SDK artefact, see runPlan); the EIP-1559 base fee follows the parent block's gas from there
func followupSkip(bare string) bool {
	switch bare {
	case "incentive.hard_liquidity_provider_claims", "earn.vault_records", "earn.vault_share_records",
		"feemarket.block_gas", "feemarket.params.base_fee":
		return true
	}
	return false
}

// neutraliseDustFactors: x/cdp's total principal of a collateral type whose CDPs were all closed keeps a few base
// units of rounding dust, and the one unit of interest the export settles may make that dust 1 on one chain and 2 on
// the other (allowed by C14's prose).  x/incentive divides the USDX minting rewards by that total, so the reward FACTOR
// of such a type differs by a factor of two although no CDP exists that could earn it.  For collateral types whose
// total principal is below `floor` (no CDP can exist: debt floor) on either chain the factors are not compared.
func neutraliseDustFactors(v any, dusty map[string]bool) {
	switch x := v.(type) {
	case map[string]any:
		if ct, ok := x["collateral_type"].(string); ok && dusty[ct] {
			if _, ok := x["reward_factor"]; ok { // a USDX minting claim's own index of the type
				x["reward_factor"] = "0"
			}
			if ris, ok := x["reward_indexes"].([]any); ok {
				for _, ri := range ris {
					if rm, ok := ri.(map[string]any); ok {
						rm["reward_factor"] = "0"
					}
				}
			}
		}
		for _, e := range x {
			neutraliseDustFactors(e, dusty)
		}
	case []any:
		for _, e := range x {
			neutraliseDustFactors(e, dusty)
		}
	}
}

// dustyCollateral: collateral types whose cdp total principal is below floor (zero included: no CDP of the type can
// exist, debt floor) in either document, or differs between the two documents (the dust differs: 10000002 vs 10000001
// once a minimum-size CDP has been opened on top of it — the factors accumulated while the total WAS dust stay).
func dustyCollateral(a, b json.RawMessage, floor int64, into map[string]bool) {
	type sect struct {
		TotalPrincipals []struct {
			CollateralType string `json:"collateral_type"`
			TotalPrincipal string `json:"total_principal"`
		} `json:"total_principals"`
	}
	var ga, gb sect
	if json.Unmarshal(a, &ga) != nil || json.Unmarshal(b, &gb) != nil {
		return
	}
	other := map[string]string{}
	for _, tp := range gb.TotalPrincipals {
		other[tp.CollateralType] = tp.TotalPrincipal
		if x, ok := new(big.Int).SetString(tp.TotalPrincipal, 10); ok && x.Cmp(big.NewInt(floor)) < 0 {
			into[tp.CollateralType] = true
		}
	}
	for _, tp := range ga.TotalPrincipals {
		if x, ok := new(big.Int).SetString(tp.TotalPrincipal, 10); ok && x.Cmp(big.NewInt(floor)) < 0 {
			into[tp.CollateralType] = true
		}
		if other[tp.CollateralType] != tp.TotalPrincipal {
			into[tp.CollateralType] = true
		}
	}
}

// neutraliseDustAccrual: x/cdp's begin blocker moves a collateral type's accrual time forward when the total
// principal is zero, and leaves it where it is when the interest rounds to zero (dust of one unit): with 0 units of
// dust on one chain and 1 on the other the recorded times differ although nothing can accrue.  Not compared for dusty
// types.
func neutraliseDustAccrual(v any, dusty map[string]bool) {
	ats, _ := v.([]any)
	for _, e := range ats {
		if m, ok := e.(map[string]any); ok {
			if ct, _ := m["collateral_type"].(string); dusty[ct] {
				m["previous_accumulation_time"] = "-"
			}
		}
	}
}

// sectionParts splits a module section into its top-level fields (one comparison each) so that a difference in one
// field is not hidden behind a tolerated / known difference in another.
func sectionParts(raw json.RawMessage) map[string]any {
	var m map[string]any
	if json.Unmarshal(raw, &m) != nil {
		var v any
		json.Unmarshal(raw, &v)
		return map[string]any{"": v}
	}
	out := map[string]any{}
	for k, v := range m {
		out[k] = v
	}
	return out
}
